/-
C06: contextual lookups (all six formats) whose nested lookups are non-contextual (one level of
nesting; nested insertions, ligatures, pair adjustments included) — engine model = reference.
-/
import SfntV.Proofs.ShapeSpecIns
import SfntV.Proofs.ShapeSpecPairLim
import SfntV.Proofs.ShapeSpecLigLim
import SfntV.Proofs.ShapeSpecMergeEngine
import SfntV.Proofs.ShapeSpecMergeSpec


namespace SfntV.C06
open SfntV
open SfntV.Shape (Glyph Gdef Lookup LookupList Subtable Action St Nested)
open SfntV.Spec.Shape (TG gl Hit matchSub SubEq CtxMatch tagWindow inputPositions windowEnd)

/-! ## a non-contextual subtable applied at an input position of the tagged buffer -/

/-- the position `j` is an input position of a buffer of the form `P ++ A ++ D` -/
structure AtInput (a : Nat) (P A D ts : List TG) (j : Nat) (cur : TG) : Prop where
  form : Form a P A D ts
  ne : A ≠ []
  get : ts[j]? = some cur
  mem : j ∈ inputPositions 0 ts

theorem AtInput.bounds {a P A D ts j cur} (h : AtInput a P A D ts j cur) :
    a ≤ j ∧ j < a + A.length ∧ cur.hasInp 0 = true ∧ windowEnd 0 ts = a + A.length ∧ a + A.length ≤ ts.length := by
  have hip := form_inputPositions h.form
  have hm := h.mem
  rw [hip] at hm
  obtain ⟨i, hi, hij⟩ := List.mem_map.mp hm
  have := (inputPositions_sorted 0 A).2 i hi
  obtain ⟨t, ht, hinp⟩ := inputPositions_get 0 ts j h.mem
  have hc : t = cur := by rw [h.get] at ht; injection ht with ht; exact ht.symm
  subst hc
  refine ⟨by omega, by omega, hinp, form_windowEnd h.form h.ne, ?_⟩
  rw [h.form.eq]; simp only [List.length_append]; rw [h.form.len]; omega

def ChildSubOK (a : Nat) (P D : List TG) (kp : Nat → Bool) (gd : Gdef) (ts : List TG) (acts : List Action) (j : Nat)
    (cur : TG) (s : Subtable) : Prop :=
  match Spec.Shape.matchSub kp gd (ts.take j).reverse cur (ts.drop (j + 1)) (windowEnd 0 ts - (j + 1)) s with
  | .error _ => True
  | .ok none => Shape.applySub kp ⟨gl ts, [entryOf ts acts]⟩ j ((windowEnd 0 ts : Nat) : Int) s = .ok none
  | .ok (some (.done dn rest)) => ∃ A' nx, Form a P A' D (ts.take j ++ dn ++ rest) ∧ A' ≠ [] ∧
      Shape.applySub kp ⟨gl ts, [entryOf ts acts]⟩ j ((windowEnd 0 ts : Nat) : Int) s
        = .ok (some (⟨gl (ts.take j ++ dn ++ rest), [entryOf (ts.take j ++ dn ++ rest) acts]⟩, nx))
  | .ok (some (.ctx _ _)) => False

theorem childSubOK_insertwise {a P A D ts j cur} (h : AtInput a P A D ts j cur) (kp : Nat → Bool) (gd : Gdef)
    (acts : List Action) (s : Subtable) (hs : insertwise s = true) (hok : Spec.Shape.subtableOk s = true) :
    ChildSubOK a P D kp gd ts acts j cur s := by
  have h2 := childSubEq2 kp gd ts j cur h.get (entryOf ts acts) ((windowEnd 0 ts : Nat) : Int)
    (windowEnd 0 ts - (j + 1)) s hs hok
  unfold ChildSubEq2 at h2
  unfold ChildSubOK
  cases hm : Spec.Shape.matchSub kp gd (ts.take j).reverse cur (ts.drop (j + 1)) (windowEnd 0 ts - (j + 1)) s with
  | error e => trivial
  | ok r =>
    rw [hm] at h2
    cases r with
    | none => exact h2
    | some hit =>
      cases hit with
      | ctx m ac => exact h2.elim
      | done dn rest =>
        simp only at h2 ⊢
        obtain ⟨hdne, hr, hdn, happ⟩ := h2
        subst hr
        obtain ⟨A', hF', hne', hent⟩ := entry_after_insert h.form h.ne acts j cur dn h.mem h.get h.bounds.2.2.1 hdne hdn
        exact ⟨A', _, hF', hne', by rw [happ, hent]⟩

/-- instantiating the "window limit" lemmas at position `j` of the buffer -/
theorem at_inst {a P A D ts j cur} (h : AtInput a P A D ts j cur) :
    gl ((ts.take j).reverse.reverse ++ cur :: ts.drop (j + 1)) = gl ts ∧ ((ts.take j).reverse).length = j ∧
    windowEnd 0 ts - (j + 1) ≤ (ts.drop (j + 1)).length ∧
    (ts.take j).reverse.length + 1 + (windowEnd 0 ts - (j + 1)) = windowEnd 0 ts := by
  obtain ⟨h1, h2, _, h4, h5⟩ := h.bounds
  have hjl := lt_of_get h.get
  refine ⟨by rw [seq_at ts j cur h.get], by simp; omega, by simp; omega, ?_⟩
  simp only [List.length_reverse, List.length_take]; omega

theorem childSubOK_pair {a P A D ts j cur} (h : AtInput a P A D ts j cur) (kp : Nat → Bool) (gd : Gdef)
    (acts : List Action) (s : Subtable)
    (hpl : ∀ pre cur post lim (stk : List Nested), lim ≤ post.length → Spec.Shape.PairLim kp gd pre cur post lim stk s) :
    ChildSubOK a P D kp gd ts acts j cur s := by
  obtain ⟨hseq, hlen, hlim, hb⟩ := at_inst h
  obtain ⟨ha, hlt, hinp, hwe, hle⟩ := h.bounds
  have hp := hpl (ts.take j).reverse cur (ts.drop (j + 1)) (windowEnd 0 ts - (j + 1)) [entryOf ts acts] hlim
  unfold Spec.Shape.PairLim at hp
  simp only at hp
  rw [hseq, hb, hlen] at hp
  unfold ChildSubOK
  cases hm : Spec.Shape.matchSub kp gd (ts.take j).reverse cur (ts.drop (j + 1)) (windowEnd 0 ts - (j + 1)) s with
  | error e => trivial
  | ok r =>
    rw [hm] at hp
    cases r with
    | none => exact hp
    | some hit =>
      cases hit with
      | ctx m ac => exact hp.elim
      | done dn rest =>
        simp only at hp ⊢
        obtain ⟨⟨jj, second, c', hjj, hsec, hci, hcw, hshape⟩, happ⟩ := hp
        have hsec' : ts[j + 1 + jj]? = some second := by
          rw [List.getElem?_drop] at hsec; exact hsec
        rw [List.reverse_reverse] at happ
        rcases hshape with ⟨hd, hr⟩ | ⟨s', hsi, hsw, hd, hr⟩
        · obtain ⟨A', hF', hl', hip'⟩ := form_replace1 h.form j jj cur c' h.get ha hlt ⟨hci, hcw⟩
          have hbuf : ts.take j ++ dn ++ rest = ts.take j ++ (c' :: (ts.drop (j + 1)).take jj) ++ ts.drop (j + 1 + jj) := by
            rw [hd, hr, List.drop_drop]
          have hne' : A' ≠ [] := by
            intro he; rw [he] at hl'
            exact h.ne (List.length_eq_zero_iff.mp hl'.symm)
          refine ⟨A', j + dn.length, by rw [hbuf]; exact hF', hne', ?_⟩
          rw [happ]
          have hent : entryOf (ts.take j ++ dn ++ rest) acts = entryOf ts acts := by
            unfold entryOf
            rw [hbuf, hip', form_windowEnd hF' hne', hl', hwe]
          rw [hent]
        · obtain ⟨A', hF', hl', hip'⟩ := form_replace2 h.form j jj cur second c' s' h.get ha hsec' (by omega) ⟨hci, hcw⟩ ⟨hsi, hsw⟩
          have hbuf : ts.take j ++ dn ++ rest
              = ts.take j ++ (c' :: (ts.drop (j + 1)).take jj ++ [s']) ++ ts.drop (j + 1 + jj + 1) := by
            rw [hd, hr, List.drop_drop]
            simp only [List.cons_append, Nat.add_assoc]
          have hne' : A' ≠ [] := by
            intro he; rw [he] at hl'
            exact h.ne (List.length_eq_zero_iff.mp hl'.symm)
          refine ⟨A', j + dn.length, by rw [hbuf]; exact hF', hne', ?_⟩
          rw [happ]
          have hent : entryOf (ts.take j ++ dn ++ rest) acts = entryOf ts acts := by
            unfold entryOf
            rw [hbuf, hip', form_windowEnd hF' hne', hl', hwe]
          rw [hent]

theorem usedLen_le_of_lt {offs : List Nat} {lim : Nat} (h : ∀ o ∈ offs, o < lim) : Spec.Shape.usedLen offs ≤ lim := by
  unfold Spec.Shape.usedLen
  cases hg : offs.getLast? with
  | none => simp
  | some o => have := h o (List.mem_of_getLast? hg); simp only; omega

theorem lt_usedLen_of_mem {offs : List Nat} (hs : offs.Pairwise (· < ·)) : ∀ o ∈ offs, o < Spec.Shape.usedLen offs :=
  lt_usedLen offs hs

theorem childSubOK_lig {a P A D ts j cur} (h : AtInput a P A D ts j cur) (kp : Nat → Bool) (gd : Gdef)
    (acts : List Action) (cov : Shape.Cov) (ligs : List (List Shape.Lig)) :
    ChildSubOK a P D kp gd ts acts j cur (.gsub41 cov ligs) := by
  obtain ⟨hseq, hlen, hlim, hb⟩ := at_inst h
  obtain ⟨ha, hlt, hinp, hwe, hle⟩ := h.bounds
  have hp := Spec.Shape.gsub41_lim kp gd (ts.take j).reverse cur (ts.drop (j + 1)) (windowEnd 0 ts - (j + 1)) hlim
    [entryOf ts acts] cov ligs
  simp only at hp
  rw [hseq, hb, hlen] at hp
  unfold ChildSubOK
  cases hm : Spec.Shape.matchSub kp gd (ts.take j).reverse cur (ts.drop (j + 1)) (windowEnd 0 ts - (j + 1))
      (.gsub41 cov ligs) with
  | error e => trivial
  | ok r =>
    rw [hm] at hp
    cases r with
    | none => exact hp
    | some hit =>
      cases hit with
      | ctx m ac => exact hp.elim
      | done dn rest =>
        simp only at hp ⊢
        obtain ⟨offs, lig, hsorted, hob, hkept, hli, hlw, hd, hr, happ⟩ := hp
        rw [List.reverse_reverse] at happ
        have hused : Spec.Shape.usedLen offs ≤ windowEnd 0 ts - (j + 1) := usedLen_le_of_lt hob
        have hu : j + 1 + Spec.Shape.usedLen offs ≤ a + A.length := by omega
        obtain ⟨hF', hAi, hreg⟩ := form_merge h.form kp j (Spec.Shape.usedLen offs) cur lig h.get ha hu ⟨hli, hlw⟩
        have hbuf : ts.take j ++ dn ++ rest
            = ts.take j ++ (lig :: ((ts.drop (j + 1)).take (Spec.Shape.usedLen offs)).filter (fun t => !kp t.g.gid))
              ++ ts.drop (j + 1 + Spec.Shape.usedLen offs) := by
          rw [hd, hr, List.drop_drop]
        have hne' : A.take (j - a) ++ (lig :: ((A.drop (j - a + 1)).take (Spec.Shape.usedLen offs)).filter (fun t => !kp t.g.gid))
            ++ A.drop (j - a + 1 + Spec.Shape.usedLen offs) ≠ [] := by
          intro he
          have := congrArg List.length he
          simp at this
        refine ⟨_, j + dn.length, by rw [hbuf]; exact hF', hne', ?_⟩
        rw [happ]
        -- the repaired stack entry is the entry of the new buffer
        have hk' : ∀ r, r < Spec.Shape.usedLen offs → ∀ t, (A.drop (j - a + 1))[r]? = some t → (kp t.g.gid = true ↔ r ∈ offs) := by
          intro r hr' t ht
          apply hkept r hr' t
          have h1 : ((ts.drop (j + 1)).take (Spec.Shape.usedLen offs))[r]? = ((A.drop (j - a + 1)).take (Spec.Shape.usedLen offs))[r]? := by
            rw [hreg]
          rw [List.getElem?_take, List.getElem?_take] at h1
          simp only [hr', if_true] at h1
          rw [h1]; exact ht
        obtain ⟨hip', hlen'⟩ := ip_merge A kp (j - a) (Spec.Shape.usedLen offs) cur lig offs hAi hinp ⟨hli, hlw⟩ (by omega)
          hsorted (lt_usedLen_of_mem hsorted) hk'
        have hipF := form_inputPositions h.form
        have hsA := inputPositions_sorted 0 A
        have hps : ((inputPositions 0 A).map (· + a)).Pairwise (· < ·) := by
          rw [List.pairwise_map]; exact hsA.1.imp (by intro x y h; omega)
        have hpe : ∀ p ∈ (inputPositions 0 A).map (· + a), p < a + A.length := by
          intro p hp'
          obtain ⟨q, hq, hqp⟩ := List.mem_map.mp hp'
          have := hsA.2 q hq; omega
        have hjm : j ∈ (inputPositions 0 A).map (· + a) := by rw [← hipF]; exact h.mem
        have hcs : (offs.map (· + (j + 1))).Pairwise (· < ·) := by
          rw [List.pairwise_map]; exact hsorted.imp (by intro x y h; omega)
        have hjc : ∀ c ∈ offs.map (· + (j + 1)), j < c := by
          intro c hc; obtain ⟨o, _, ho⟩ := List.mem_map.mp hc; omega
        have hce : ∀ c ∈ offs.map (· + (j + 1)), c < a + A.length := by
          intro c hc; obtain ⟨o, ho1, ho⟩ := List.mem_map.mp hc
          have := hob o ho1; omega
        have hcs0 : (offs.map (· + (j - a + 1))).Pairwise (· < ·) := by
          rw [List.pairwise_map]; exact hsorted.imp (by intro x y h; omega)
        have hent : Shape.fixMergeOne ((j :: offs.map (· + (j + 1))).map Int.ofNat) (entryOf ts acts)
            = entryOf (ts.take j ++ dn ++ rest) acts := by
          unfold entryOf
          rw [hbuf, form_inputPositions hF', form_windowEnd hF' hne', hip', hipF, hwe,
            fixMergeOne_mergePos _ _ acts (a + A.length) j hps hjm hcs hjc hpe hce, mergePos_shift _ _ a hcs0]
          have hmm : (offs.map (· + (j - a + 1))).map (· + a) = offs.map (· + (j + 1)) := by
            rw [List.map_map]; apply List.map_congr_left; intro o _; simp only [Function.comp]; omega
          rw [hmm]
          congr 2
          simp only [List.length_map]
          omega
        simp only [List.map_cons, List.map_nil]
        rw [show Shape.fixMergeOne (Int.ofNat j :: List.map Int.ofNat (List.map (fun x => x + (j + 1)) offs)) (entryOf ts acts)
          = entryOf (ts.take j ++ dn ++ rest) acts from hent]

theorem childSubOK_simple {a P A D ts j cur} (h : AtInput a P A D ts j cur) (kp : Nat → Bool) (gd : Gdef)
    (acts : List Action) (s : Subtable) (hs : s.contextual = false) (hok : Spec.Shape.subtableOk s = true) :
    ChildSubOK a P D kp gd ts acts j cur s := by
  cases s with
  | gsub41 cov ligs => exact childSubOK_lig h kp gd acts cov ligs
  | gpos21 pairs =>
    exact childSubOK_pair h kp gd acts _ (fun pre cur post lim stk hl => Spec.Shape.pairLim_gpos21 kp gd pre cur post lim hl stk pairs)
  | gpos22 cov c1 c2 adj =>
    exact childSubOK_pair h kp gd acts _ (fun pre cur post lim stk hl =>
      Spec.Shape.pairLim_gpos22 kp gd pre cur post lim hl stk cov c1 c2 adj (by simpa [Spec.Shape.subtableOk] using hok))
  | gpos31 cov recs => simp [ChildSubOK, Spec.Shape.matchSub, Spec.Shape.undef]
  | gsub11 _ _ => exact childSubOK_insertwise h kp gd acts _ (by rfl) hok
  | gsub12 _ _ => exact childSubOK_insertwise h kp gd acts _ (by rfl) hok
  | gsub21 _ _ => exact childSubOK_insertwise h kp gd acts _ (by rfl) hok
  | gsub31 _ _ => exact childSubOK_insertwise h kp gd acts _ (by rfl) hok
  | gsub81 _ _ _ _ => exact childSubOK_insertwise h kp gd acts _ (by rfl) hok
  | gpos11 _ _ => exact childSubOK_insertwise h kp gd acts _ (by rfl) hok
  | gpos12 _ _ => exact childSubOK_insertwise h kp gd acts _ (by rfl) hok
  | gpos41 _ _ _ _ _ => exact childSubOK_insertwise h kp gd acts _ (by rfl) hok
  | gpos61 _ _ _ _ => exact childSubOK_insertwise h kp gd acts _ (by rfl) hok
  | ctx1 _ _ => simp [Subtable.contextual] at hs
  | ctx2 _ _ _ => simp [Subtable.contextual] at hs
  | ctx3 _ _ => simp [Subtable.contextual] at hs
  | chain1 _ _ => simp [Subtable.contextual] at hs
  | chain2 _ _ _ _ _ => simp [Subtable.contextual] at hs
  | chain3 _ _ _ _ => simp [Subtable.contextual] at hs

def ChildOK (a : Nat) (P D : List TG) (kp : Nat → Bool) (gd : Gdef) (ts : List TG) (acts : List Action) (j : Nat)
    (cur : TG) (ss : List Subtable) : Prop :=
  match Spec.Shape.firstHit kp gd (ts.take j).reverse cur (ts.drop (j + 1)) (windowEnd 0 ts - (j + 1)) ss with
  | .error _ => True
  | .ok none => Shape.applyAt kp ⟨gl ts, [entryOf ts acts]⟩ j ((windowEnd 0 ts : Nat) : Int) ss = .ok none
  | .ok (some (.done dn rest)) => ∃ A' nx, Form a P A' D (ts.take j ++ dn ++ rest) ∧ A' ≠ [] ∧
      Shape.applyAt kp ⟨gl ts, [entryOf ts acts]⟩ j ((windowEnd 0 ts : Nat) : Int) ss
        = .ok (some (⟨gl (ts.take j ++ dn ++ rest), [entryOf (ts.take j ++ dn ++ rest) acts]⟩, nx))
  | .ok (some (.ctx _ _)) => False

theorem childOK {a P A D ts j cur} (h : AtInput a P A D ts j cur) (kp : Nat → Bool) (gd : Gdef) (acts : List Action) :
    ∀ (ss : List Subtable), ss.all (fun s => !s.contextual) = true → ss.all Spec.Shape.subtableOk = true →
    ChildOK a P D kp gd ts acts j cur ss := by
  intro ss
  induction ss with
  | nil => intro _ _; simp [ChildOK, Spec.Shape.firstHit, Shape.applyAt, pure, Except.pure]
  | cons s ss ih =>
    intro hp hok
    simp only [List.all_cons, Bool.and_eq_true] at hp hok
    have hs := childSubOK_simple h kp gd acts s (by simpa using hp.1) hok.1
    have hrest := ih hp.2 hok.2
    unfold ChildOK
    unfold ChildSubOK at hs
    simp only [Spec.Shape.firstHit, Shape.applyAt]
    cases hm : Spec.Shape.matchSub kp gd (ts.take j).reverse cur (ts.drop (j + 1)) (windowEnd 0 ts - (j + 1)) s with
    | error e => simp [bind, Except.bind]
    | ok r =>
      rw [hm] at hs
      cases r with
      | none =>
        simp only at hs
        simp only [bind, Except.bind]
        rw [hs]
        exact hrest
      | some hit =>
        cases hit with
        | done dn rest =>
          simp only at hs
          obtain ⟨A', nx, h1, h2, h5⟩ := hs
          simp only [bind, Except.bind, pure, Except.pure]
          exact ⟨A', nx, h1, h2, by rw [h5]⟩
        | ctx m a => exact hs.elim

/-! ## the loop over the actions -/

theorem actions_eq3 (B : Nat) (ll : LookupList) (gd : Gdef)
    (hok : ∀ lk ∈ ll, lk.subtables.all Spec.Shape.subtableOk = true)
    (fuel a : Nat) (P D : List TG) :
    ∀ (acts : List Action) (ts : List TG) (ns : Nat) (out : List TG) (n' : Nat) (A : List TG),
      Spec.Shape.runActions (Spec.Shape.applyAt ll gd fuel 1) ll gd 0 acts ts ns = .ok (out, n') →
      Form a P A D ts → A ≠ [] → (∀ act ∈ acts, actSimple ll act = true) →
      ∀ (ne : Nat), ne + ns = B → ∀ (fe : Nat), 2 * (B - ne) + 1 ≤ fe → ∀ (next : Int),
      ∃ st2 nx A', Shape.nestedLoop B ll gd fe ⟨gl ts, [entryOf ts acts]⟩ ne next = .ok (st2, nx) ∧
        st2.seq = gl out ∧ Form a P A' D out ∧ A' ≠ [] ∧
        ((st2.stack = [] ∧ nx = ((windowEnd 0 out : Nat) : Int)) ∨ st2.stack = [entryOf out []]) := by
  intro acts
  induction acts with
  | nil =>
    intro ts ns out n' A h hF hne _ ne hn fe hfe next
    simp only [Spec.Shape.runActions, pure, Except.pure] at h
    injection h with h; injection h with h1 h2; subst h1
    cases fe with
    | zero => omega
    | succ f =>
      simp only [Shape.nestedLoop, entryOf]
      by_cases hb : ne ≥ B
      · rw [if_pos hb]
        exact ⟨_, _, A, rfl, rfl, hF, hne, Or.inr rfl⟩
      · rw [if_neg hb]
        rw [Shape.nestedLoop_nil B ll gd f _ ne _ rfl]
        exact ⟨_, _, A, rfl, rfl, hF, hne, Or.inl ⟨rfl, by simp⟩⟩
  | cons act acts ih =>
    intro ts ns out n' A h hF hne hpw ne hn fe hfe next
    simp only [Spec.Shape.runActions] at h
    by_cases hns : ns = 0
    · simp [hns, Spec.Shape.undef] at h
    · simp only [hns, if_false] at h
      have hneB : ¬ (ne ≥ B) := by omega
      cases fe with
      | zero => omega
      | succ f =>
        have hf : 2 * (B - (ne + 1)) + 1 ≤ f := by omega
        have hn' : (ne + 1) + (ns - 1) = B := by omega
        have hpw' : ∀ act ∈ acts, actSimple ll act = true := fun x hx => hpw x (List.mem_cons_of_mem _ hx)
        simp only [Shape.nestedLoop, entryOf, hneB, if_false]
        rw [getElem?_map_ofNat]
        cases hj : (inputPositions 0 ts)[act.seqIdx]? with
        | none => rw [hj] at h; simp [Spec.Shape.undef] at h
        | some j =>
          rw [hj] at h
          simp only [Option.map_some] at h ⊢
          cases hl : ll[act.lookup]? with
          | none => rw [hl] at h; simp [Spec.Shape.undef] at h
          | some lk =>
            rw [hl] at h
            have hjm : j ∈ inputPositions 0 ts := List.mem_of_getElem? hj
            obtain ⟨cur, hc, hinp⟩ := inputPositions_get 0 ts j hjm
            rw [hc] at h
            simp only at h ⊢
            rw [idxI_gl _ ts j cur hc]
            simp only [Shape.bind_ok_eq]
            rw [Spec.Shape.keepOf_eq] at h
            have hskip : ∀ out' n'', Spec.Shape.runActions (Spec.Shape.applyAt ll gd fuel 1) ll gd 0 acts ts (ns - 1) = .ok (out', n'') →
                ∃ st2 nx A', Shape.nestedLoop B ll gd f ⟨gl ts, [entryOf ts acts]⟩ (ne + 1) next = .ok (st2, nx) ∧
                  st2.seq = gl out' ∧ Form a P A' D out' ∧ A' ≠ [] ∧
                  ((st2.stack = [] ∧ nx = ((windowEnd 0 out' : Nat) : Int)) ∨ st2.stack = [entryOf out' []]) :=
              fun out' n'' h' => ih ts (ns - 1) out' n'' A h' hF hne hpw' (ne + 1) hn' f hf next
            cases hk : lk.keep gd cur.g.gid with
            | false =>
              simp only [hk, Bool.not_false, if_true] at h
              simp only [Bool.false_eq_true, if_false]
              exact hskip out n' h
            | true =>
              simp only [hk, Bool.not_true, Bool.false_eq_true, if_false] at h
              simp only [if_true]
              have hlkp : lk.simple = true := by
                have := hpw act List.mem_cons_self
                unfold actSimple at this
                rw [hl] at this
                exact this
              have hlkok := hok lk (List.mem_of_getElem? hl)
              cases fuel with
              | zero => simp [Spec.Shape.applyAt, Spec.Shape.undef, bind, Except.bind] at h
              | succ fuel' =>
                rw [spec_applyAt_succ, Spec.Shape.keepOf_eq] at h
                have hat := childOK (AtInput.mk hF hne hc hjm) (lk.keep gd) gd acts lk.subtables hlkp hlkok
                unfold ChildOK at hat
                cases hfh : Spec.Shape.firstHit (lk.keep gd) gd (ts.take j).reverse cur (ts.drop (j + 1))
                    (Spec.Shape.windowEnd 0 ts - (j + 1)) lk.subtables with
                | error e' => rw [hfh] at h; simp [bind, Except.bind] at h
                | ok r =>
                  rw [hfh] at h hat
                  cases r with
                  | none =>
                    simp only [bind, Except.bind, pure, Except.pure] at h
                    simp only at hat
                    rw [show Int.toNat (Int.ofNat j) = j from rfl]
                    simp only [entryOf] at hat
                    rw [hat]
                    simp only [Shape.bind_ok_eq]
                    exact hskip out n' h
                  | some hit =>
                    cases hit with
                    | ctx m ac => exact hat.elim
                    | done dn rest =>
                      simp only [bind, Except.bind, pure, Except.pure] at h
                      simp only at hat
                      obtain ⟨A', nx0, hF', hne', h5⟩ := hat
                      rw [show Int.toNat (Int.ofNat j) = j from rfl]
                      simp only [entryOf] at h5
                      rw [h5]
                      simp only [Shape.bind_ok_eq]
                      exact ih (ts.take j ++ dn ++ rest) (ns - 1) out n' A' h hF' hne' hpw' (ne + 1) hn' f hf next

/-! ## one top-level application -/

theorem stepEq3 (B : Nat) (ll : LookupList) (gd : Gdef) (hok : Spec.Shape.tablesOk ll gd = true)
    (hnp : nestedSimpleLL ll = true) (lk : Lookup) (hlk : lk ∈ ll) : StepEq B ll gd lk := by
  intro pre cur post hpre hcur hpost hk
  have hokl : ∀ lk ∈ ll, lk.subtables.all Spec.Shape.subtableOk = true := by
    unfold Spec.Shape.tablesOk at hok
    simp only [Bool.and_eq_true] at hok
    exact fun lk h => List.all_eq_true.mp hok.2 lk h
  cases B with
  | zero => simp [Spec.Shape.applyAt, Spec.Shape.undef]
  | succ B' =>
    rw [spec_applyAt_succ, Spec.Shape.keepOf_eq]
    have hat := atEq2 (lk.keep gd) gd pre cur post lk.subtables (hokl lk hlk)
    unfold AtEq2 at hat
    have hi : Shape.idxI "applyAtRecursively:seq[pos]" (gl (pre.reverse ++ cur :: post)) (pre.length : Int) = .ok cur.g :=
      idxI_mid _ pre cur post
    cases hf : Spec.Shape.firstHit (lk.keep gd) gd pre cur post post.length lk.subtables with
    | error e => simp [bind, Except.bind]
    | ok r =>
      rw [hf] at hat
      cases r with
      | none =>
        simp only [bind, Except.bind, pure, Except.pure]
        simp only at hat
        unfold Shape.applyAtRec
        simp only [hi, Shape.bind_ok_eq, Int.toNat_natCast, hk, Bool.not_true, Bool.false_eq_true, if_false]
        rw [hat]; rfl
      | some hit =>
        cases hit with
        | done dn rest =>
          simp only [bind, Except.bind, pure, Except.pure]
          simp only at hat
          obtain ⟨s, hs, hm⟩ := firstHit_src _ gd pre cur post _ _ _ hf
          refine ⟨?_, matchSub_clean _ gd pre cur post _ s dn rest hcur hpost hm⟩
          unfold Shape.applyAtRec
          simp only [hi, Shape.bind_ok_eq, Int.toNat_natCast, hk, Bool.not_true, Bool.false_eq_true, if_false]
          rw [hat]
          simp only [Shape.bind_ok_eq]
          rw [Shape.nestedLoop_nil (B' + 1) ll gd _ _ 1 _ rfl]
          rfl
        | ctx m acts =>
          simp only at hat
          obtain ⟨s, hs, hm⟩ := firstHit_src _ gd pre cur post _ _ _ hf
          obtain ⟨hacts, hsorted, hbound, _, hw⟩ := ctx_hit_facts _ gd pre cur post _ s m acts hm
          have hpw : ∀ act ∈ acts, actSimple ll act = true := by
            intro act ha
            have h1 := List.all_eq_true.mp hnp lk hlk
            have h2 := List.all_eq_true.mp h1 s hs
            exact List.all_eq_true.mp h2 act (hacts act ha)
          simp only [bind, Except.bind, pure, Except.pure, Nat.add_sub_cancel]
          cases hr : Spec.Shape.runActions (Spec.Shape.applyAt ll gd B' (0 + 1)) ll gd 0 acts
              (pre.reverse ++ Spec.Shape.tagWindow 0 m cur post ++ post.drop m.wlen) B' with
          | error e => trivial
          | ok res =>
            obtain ⟨ts', n'⟩ := res
            simp only
            obtain ⟨hF0, hne0, hlen0⟩ := form_init pre post cur m hpre hcur hpost hw
            -- the pushed entry is the entry of the tagged buffer
            have hent : Shape.pushMatch ⟨gl (pre.reverse ++ cur :: post), []⟩ (pre.length :: m.offs.map (· + (pre.length + 1))) acts
                (pre.length + 1 + m.wlen)
                = ⟨gl (pre.reverse ++ Spec.Shape.tagWindow 0 m cur post ++ post.drop m.wlen),
                   [entryOf (pre.reverse ++ Spec.Shape.tagWindow 0 m cur post ++ post.drop m.wlen) acts]⟩ := by
              unfold Shape.pushMatch entryOf
              rw [gl_ts0, inputPositions_ts0 pre post cur m hpre hpost hw hsorted hbound,
                form_windowEnd hF0 hne0, hlen0, ← Nat.add_assoc]
            obtain ⟨st2, nx, A', e1, e2, hF', hne', e5⟩ := actions_eq3 (B' + 1) ll gd hokl B' pre.length pre.reverse
              (post.drop m.wlen) acts _ B' ts' n' _ hr hF0 hne0 hpw 1 (by omega)
              (Shape.nestedFuel (B' + 1)
                (Shape.pushMatch ⟨gl (pre.reverse ++ cur :: post), []⟩ (pre.length :: m.offs.map (· + (pre.length + 1))) acts
                  (pre.length + 1 + m.wlen))) (by unfold Shape.nestedFuel Shape.pushMatch; simp; omega)
              ((pre.length + 1 + m.wlen : Nat) : Int)
            obtain ⟨c1, c2, c3, c4⟩ := form_split hF'
            have hwe' := form_windowEnd hF' hne'
            rw [c1, c2]
            refine ⟨?_, c3, hF'.cleanD⟩
            unfold Shape.applyAtRec
            simp only [hi, Shape.bind_ok_eq, Int.toNat_natCast, hk, Bool.not_true, Bool.false_eq_true, if_false]
            rw [hat]
            simp only [Shape.bind_ok_eq]
            rw [hent] at e1 ⊢
            rw [e1]
            simp only [Shape.bind_ok_eq]
            have hgl : gl (pre.reverse ++ A'.map (TG.untag 0) ++ post.drop m.wlen) = gl ts' := by
              rw [hF'.eq]
              simp only [Spec.Shape.gl_append, gl_untag]
            have hdl : (A'.map (TG.untag 0)).length = A'.length := by simp
            rw [hgl, hdl]
            rcases e5 with ⟨h5, h6⟩ | h5
            · have : st2 = ⟨gl ts', []⟩ := by cases st2; simp_all
              subst this
              simp only [List.getLast?_nil, h6, hwe']
            · have : st2 = ⟨gl ts', [entryOf ts' []]⟩ := by cases st2; simp_all
              subst this
              simp only [List.getLast?_singleton, entryOf, hwe']

/-- **Engine = reference for contextual lookups whose nested lookups are not contextual.** -/
theorem engine_eq_spec_nested_simple (B : Nat) (ll : LookupList) (gd : Gdef) (lookups : List Nat) (seq r : List Glyph)
    (hnp : nestedSimpleLL ll = true) (h : Spec.Shape.shape B ll gd lookups seq = .ok r) :
    Shape.apply B ll gd lookups [] seq = .ok ⟨r, []⟩ :=
  shape_eq_of_step B ll gd lookups seq r (fun hok lk hlk => stepEq3 B ll gd hok hnp lk hlk) h

end SfntV.C06
