/-
Helper lemmas about the INDEX model (cff/index.go).  Property theorems are in Props/C13.lean.
-/
import SfntV.Model.CffIndex

namespace SfntV.Cff
open SfntV

/-! ### big-endian numbers -/

theorem length_beN (k v : Nat) : (beN k v).length = k := by
  induction k with
  | zero => rfl
  | succ k ih => simp [beN, ih]

theorem beVal_beN (k v : Nat) : beVal (beN k v) = v % 256 ^ k := by
  induction k with
  | zero => simp [beN, beVal, Nat.mod_one]
  | succ k ih =>
    simp only [beN, beVal, length_beN, ih]
    have h : (UInt8.ofNat (v / 256 ^ k % 256)).toNat = v / 256 ^ k % 256 := by
      simp [UInt8.toNat_ofNat']
    rw [h, Nat.mod_pow_succ]
    rw [Nat.mul_comm, Nat.add_comm]

theorem beVal_beN_lt (k v : Nat) (h : v < 256 ^ k) : beVal (beN k v) = v := by
  rw [beVal_beN, Nat.mod_eq_of_lt h]

theorem beVal_be16' (n : Nat) : beVal (be16 n) = n % 65536 := by
  simp [be16, beVal, UInt8.toNat_ofNat']
  omega

theorem beVal_single (n : Nat) : beVal [UInt8.ofNat n] = n % 256 := by
  simp [beVal, UInt8.toNat_ofNat']

/-! ### reads -/

theorem rd_mid (A X B : Bytes) (c n : Nat) (hc : c = A.length) (hn : n = X.length) :
    rd (A ++ X ++ B) c n = some X := by
  subst hc hn
  unfold rd
  by_cases h0 : X.length = 0
  · simp [List.eq_nil_of_length_eq_zero h0]
  · simp only [h0, if_false]
    have : A.length + X.length ≤ (A ++ X ++ B).length := by simp
    simp only [this, if_true]
    simp [List.append_assoc]

theorem rd_mid' (A X B : Bytes) (c n : Nat) (hc : c = A.length) (hn : n = X.length) :
    rd (A ++ (X ++ B)) c n = some X := by
  rw [← List.append_assoc]; exact rd_mid A X B c n hc hn

/-! ### offsets -/

theorem offsetsFrom_length (p : Nat) (bs : List Bytes) : (offsetsFrom p bs).length = bs.length + 1 := by
  induction bs generalizing p with
  | nil => rfl
  | cons b bs ih => simp [offsetsFrom, ih]

theorem offsetsFrom_ge (p : Nat) (bs : List Bytes) : ∀ o ∈ offsetsFrom p bs, p ≤ o := by
  induction bs generalizing p with
  | nil => intro o ho; simp [offsetsFrom] at ho; omega
  | cons b bs ih =>
    intro o ho
    simp only [offsetsFrom, List.mem_cons] at ho
    rcases ho with rfl | ho
    · exact Nat.le_refl _
    · have := ih (p + b.length) o ho; omega

theorem offsetsFrom_le (p : Nat) (bs : List Bytes) : ∀ o ∈ offsetsFrom p bs, o ≤ p + bodyLength bs := by
  induction bs generalizing p with
  | nil => intro o ho; simp [offsetsFrom] at ho; simp [bodyLength]; omega
  | cons b bs ih =>
    intro o ho
    simp only [offsetsFrom, List.mem_cons] at ho
    simp only [bodyLength, List.map_cons, List.sum_cons]
    rcases ho with rfl | ho
    · omega
    · have := ih (p + b.length) o ho
      simp only [bodyLength] at this; omega

theorem offsetsFrom_getLast (p : Nat) (bs : List Bytes) :
    (offsetsFrom p bs).getLastD 0 = p + bodyLength bs := by
  induction bs generalizing p with
  | nil => simp [offsetsFrom, bodyLength]
  | cons b bs ih =>
    have hne : offsetsFrom (p + b.length) bs ≠ [] := by
      intro h; have := offsetsFrom_length (p + b.length) bs; rw [h] at this; simp at this
    have := ih (p + b.length)
    simp only [offsetsFrom, bodyLength, List.map_cons, List.sum_cons]
    cases hh : offsetsFrom (p + b.length) bs with
    | nil => exact absurd hh hne
    | cons x xs =>
      rw [hh] at this
      simp only [List.getLastD_cons] at this ⊢
      simp only [bodyLength] at this
      omega

theorem offsetsFrom_pred (p : Nat) (bs : List Bytes) :
    (offsetsFrom (p + 1) bs).map (· - 1) = offsetsFrom p bs := by
  induction bs generalizing p with
  | nil => simp [offsetsFrom]
  | cons b bs ih =>
    simp only [offsetsFrom, List.map_cons, Nat.add_sub_cancel]
    have : p + 1 + b.length = (p + b.length) + 1 := by omega
    rw [this, ih]

/-- The offset loop of `readIndex` reads back a list of written offsets: all below `256^os`
and below the file size, non-decreasing from `prev`. -/
theorem readOffsets_written (os size : Nat) (offs : List Nat) :
    ∀ (A B : Bytes) (c prev : Nat), c = A.length →
      size = (A ++ offs.flatMap (beN os) ++ B).length →
      (∀ o ∈ offs, o < 256 ^ os ∧ o < size ∧ o < 4294967296) →
      List.Pairwise (· ≤ ·) (prev :: offs) →
      readOffsets (A ++ offs.flatMap (beN os) ++ B) size os offs.length c prev
        = .ok (offs.map (· - 1)) := by
  induction offs with
  | nil => intro A B c prev _ _ _ _; rfl
  | cons o offs ih =>
    intro A B c prev hc hsz hb hp
    have ho := hb o (List.mem_cons_self ..)
    simp only [List.length_cons, readOffsets]
    have hdata : A ++ (o :: offs).flatMap (beN os) ++ B
        = (A ++ beN os o) ++ offs.flatMap (beN os) ++ B := by
      simp [List.flatMap_cons, List.append_assoc]
    have hrd : rd (A ++ (o :: offs).flatMap (beN os) ++ B) c os = some (beN os o) := by
      have : A ++ (o :: offs).flatMap (beN os) ++ B = A ++ beN os o ++ (offs.flatMap (beN os) ++ B) := by
        simp [List.flatMap_cons, List.append_assoc]
      rw [this]
      exact rd_mid A (beN os o) _ c os hc (length_beN os o).symm
    rw [hrd]
    simp only
    rw [beVal_beN_lt os o ho.1, Nat.mod_eq_of_lt ho.2.2]
    have hpo : prev ≤ o := (List.pairwise_cons.mp hp).1 o (List.mem_cons_self ..)
    have hcond : ¬ (o < prev ∨ o ≥ size) := by omega
    simp only [hcond, if_false]
    have hrec := ih (A ++ beN os o) B (c + os) o (by simp [length_beN, hc])
      (by rw [← hdata]; exact hsz)
      (fun x hx => hb x (List.mem_cons_of_mem _ hx))
      (List.pairwise_cons.mp hp).2
    rw [hdata, hrec]
    simp

theorem offsetsFrom_pairwise (p : Nat) (bs : List Bytes) :
    List.Pairwise (· ≤ ·) (offsetsFrom p bs) := by
  induction bs generalizing p with
  | nil => simp [offsetsFrom]
  | cons b bs ih =>
    simp only [offsetsFrom, List.pairwise_cons]
    refine ⟨fun o ho => ?_, ih _⟩
    have := offsetsFrom_ge _ _ o ho; omega

/-! ### slicing the data area -/

theorem slices_offsets (P R : Bytes) (bs : List Bytes) :
    slices (P ++ bs.flatten ++ R) (offsetsFrom P.length bs) = bs := by
  induction bs generalizing P with
  | nil => simp [offsetsFrom, slices]
  | cons b bs ih =>
    cases hbs : bs with
    | nil =>
      simp [offsetsFrom, slices, List.append_assoc]
    | cons b2 bs2 =>
      have hrec := ih (P ++ b)
      rw [hbs] at hrec
      simp only [offsetsFrom, slices, List.flatten_cons] at hrec ⊢
      simp only [List.length_append] at hrec
      congr 1
      · simp [List.append_assoc]
      · simpa [List.append_assoc] using hrec

/-! ### offSize -/

theorem chooseOffSize_spec (bl : Nat) (h : chooseOffSize bl ≤ 4) :
    bl + 1 < 256 ^ chooseOffSize bl ∧
      (1 < chooseOffSize bl → 256 ^ (chooseOffSize bl - 1) ≤ bl + 1) ∧ 1 ≤ chooseOffSize bl := by
  unfold chooseOffSize at h ⊢
  split
  · omega
  · split
    · omega
    · split
      · omega
      · split
        · omega
        · rename_i h1 h2 h3 h4; simp [h1, h2, h3, h4] at h

theorem chooseOffSize_le_iff (bl : Nat) : chooseOffSize bl ≤ 4 ↔ bl + 1 < 4294967296 := by
  unfold chooseOffSize
  split
  · omega
  · split
    · omega
    · split
      · omega
      · split <;> omega


/-! ### write then read -/

theorem length_flatMap_beN (os : Nat) (offs : List Nat) :
    (offs.flatMap (beN os)).length = offs.length * os := by
  induction offs with
  | nil => simp
  | cons o offs ih => simp [List.flatMap_cons, length_beN, ih, Nat.succ_mul]; omega

theorem length_flatten_eq (bs : List Bytes) : bs.flatten.length = bodyLength bs := by
  simp [bodyLength, List.length_flatten]

/-- `readIndex` (the model of the Go reader), started at the first byte of an encoded INDEX that
sits anywhere inside a file, returns the encoded blobs and stops right behind the INDEX. -/
theorem readIndex_indexEncode (blobs : List Bytes) (hc : blobs.length < 65536)
    (hb : bodyLength blobs + 1 < 4294967296) (pre rest : Bytes) :
    ∃ bs, indexEncode blobs = .ok bs ∧
      readIndex (pre ++ bs ++ rest) pre.length = .ok (blobs, pre.length + bs.length) := by
  unfold indexEncode
  have hc' : ¬ blobs.length ≥ 65536 := by omega
  simp only [hc', if_false]
  by_cases h0 : blobs.length = 0
  · have : blobs = [] := List.eq_nil_of_length_eq_zero h0
    subst this
    refine ⟨[0, 0], by simp, ?_⟩
    unfold readIndex
    rw [rd_mid pre [0, 0] rest _ 2 rfl rfl]
    simp [beVal]
  · simp only [h0, if_false]
    have hos4 : chooseOffSize (bodyLength blobs) ≤ 4 := (chooseOffSize_le_iff _).mpr hb
    have hspec := chooseOffSize_spec _ hos4
    generalize hos : chooseOffSize (bodyLength blobs) = os at *
    have hos' : ¬ os > 4 := by omega
    simp only [hos', if_false]
    refine ⟨_, rfl, ?_⟩
    generalize hoffs : offsetsFrom 1 blobs = offs
    have hlen : offs.length = blobs.length + 1 := by rw [← hoffs]; exact offsetsFrom_length 1 blobs
    -- shape of the file
    have hdata : pre ++ (be16 blobs.length ++ [UInt8.ofNat os] ++ offs.flatMap (beN os) ++ blobs.flatten) ++ rest
        = (pre ++ be16 blobs.length ++ [UInt8.ofNat os]) ++ offs.flatMap (beN os) ++ (blobs.flatten ++ rest) := by
      simp [List.append_assoc]
    unfold readIndex
    have hrd1 : rd (pre ++ (be16 blobs.length ++ [UInt8.ofNat os] ++ offs.flatMap (beN os) ++ blobs.flatten) ++ rest)
        pre.length 2 = some (be16 blobs.length) := by
      have : pre ++ (be16 blobs.length ++ [UInt8.ofNat os] ++ offs.flatMap (beN os) ++ blobs.flatten) ++ rest
          = pre ++ be16 blobs.length ++ ([UInt8.ofNat os] ++ offs.flatMap (beN os) ++ blobs.flatten ++ rest) := by
        simp [List.append_assoc]
      rw [this]; exact rd_mid _ _ _ _ _ rfl rfl
    rw [hrd1]
    simp only
    have hcnt : beVal (be16 blobs.length) = blobs.length := by
      rw [beVal_be16', Nat.mod_eq_of_lt hc]
    rw [hcnt]
    simp only [h0, if_false]
    have hrd2 : rd (pre ++ (be16 blobs.length ++ [UInt8.ofNat os] ++ offs.flatMap (beN os) ++ blobs.flatten) ++ rest)
        (pre.length + 2) 1 = some [UInt8.ofNat os] := by
      have : pre ++ (be16 blobs.length ++ [UInt8.ofNat os] ++ offs.flatMap (beN os) ++ blobs.flatten) ++ rest
          = (pre ++ be16 blobs.length) ++ [UInt8.ofNat os] ++ (offs.flatMap (beN os) ++ blobs.flatten ++ rest) := by
        simp [List.append_assoc]
      rw [this]; exact rd_mid _ _ _ _ _ (by simp [be16]) rfl
    rw [hrd2]
    simp only
    have hosv : beVal [UInt8.ofNat os] = os := by rw [beVal_single]; omega
    rw [hosv]
    -- the offsets
    have hsize : (pre ++ (be16 blobs.length ++ [UInt8.ofNat os] ++ offs.flatMap (beN os) ++ blobs.flatten) ++ rest).length
        = pre.length + 3 + offs.length * os + bodyLength blobs + rest.length := by
      simp only [List.length_append, length_flatMap_beN, length_flatten_eq, be16, List.length_cons, List.length_nil]; omega
    have hoff := readOffsets_written os
      (pre ++ (be16 blobs.length ++ [UInt8.ofNat os] ++ offs.flatMap (beN os) ++ blobs.flatten) ++ rest).length
      offs (pre ++ be16 blobs.length ++ [UInt8.ofNat os]) (blobs.flatten ++ rest) (pre.length + 3) 1
      (by simp [be16]) (by rw [hdata])
      (by
        intro o ho
        rw [← hoffs] at ho
        have h1 := offsetsFrom_le 1 blobs o ho
        rw [hsize]
        refine ⟨by omega, ?_, by omega⟩
        have : 1 ≤ os := hspec.2.2
        have : offs.length * os ≥ offs.length := Nat.le_mul_of_pos_right _ this
        omega)
      (by
        rw [List.pairwise_cons]
        refine ⟨fun o ho => ?_, ?_⟩
        · rw [← hoffs] at ho; exact offsetsFrom_ge 1 blobs o ho
        · rw [← hoffs]; exact offsetsFrom_pairwise 1 blobs)
    rw [← hdata, hlen] at hoff
    rw [hoff]
    simp only
    have hpred : offs.map (· - 1) = offsetsFrom 0 blobs := by
      rw [← hoffs]; exact offsetsFrom_pred 0 blobs
    rw [hpred, offsetsFrom_getLast]
    have hrd3 : rd (pre ++ (be16 blobs.length ++ [UInt8.ofNat os] ++ offs.flatMap (beN os) ++ blobs.flatten) ++ rest)
        (pre.length + 3 + (blobs.length + 1) * os) (0 + bodyLength blobs) = some blobs.flatten := by
      have : pre ++ (be16 blobs.length ++ [UInt8.ofNat os] ++ offs.flatMap (beN os) ++ blobs.flatten) ++ rest
          = (pre ++ be16 blobs.length ++ [UInt8.ofNat os] ++ offs.flatMap (beN os)) ++ blobs.flatten ++ rest := by
        simp [List.append_assoc]
      rw [this]
      exact rd_mid _ _ _ _ _ (by simp only [List.length_append, length_flatMap_beN, be16, List.length_cons, List.length_nil, hlen]) (by simp only [length_flatten_eq]; omega)
    rw [hrd3]
    simp only
    have hsl := slices_offsets [] [] blobs
    simp only [List.nil_append, List.append_nil, List.length_nil] at hsl
    rw [hsl]
    congr 2
    simp only [List.length_append, length_flatMap_beN, length_flatten_eq, be16, List.length_cons, List.length_nil, hlen]
    omega

end SfntV.Cff
