import SfntV.Proofs.ShapeSpecCtxBase
import SfntV.Proofs.ShapeSpecSem
import SfntV.Proofs.ShapeSpecMatch
namespace SfntV.C06
open SfntV
open SfntV.Spec.Shape (TG gl CtxMatch tagWindow inputPositions windowEnd matchSeq matchContext usedLen)

/-! ## (T1) the tags of a buffer -/

def tagsOf (ts : List TG) : List (List Nat × List Nat) := ts.map fun t => (t.inp, t.win)

@[simp] theorem tagsOf_nil : tagsOf [] = [] := rfl
@[simp] theorem tagsOf_cons (t : TG) (ts : List TG) : tagsOf (t :: ts) = (t.inp, t.win) :: tagsOf ts := rfl
@[simp] theorem tagsOf_append (a b : List TG) : tagsOf (a ++ b) = tagsOf a ++ tagsOf b := by
  simp [tagsOf]
@[simp] theorem tagsOf_length (a : List TG) : (tagsOf a).length = a.length := by simp [tagsOf]
theorem tagsOf_reverse (a : List TG) : tagsOf a.reverse = (tagsOf a).reverse := by simp [tagsOf]
theorem tagsOf_take (a : List TG) (n : Nat) : tagsOf (a.take n) = (tagsOf a).take n := by simp [tagsOf]
theorem tagsOf_drop (a : List TG) (n : Nat) : tagsOf (a.drop n) = (tagsOf a).drop n := by simp [tagsOf]

theorem length_eq_of_tagsOf {ts ts' : List TG} (h : tagsOf ts = tagsOf ts') : ts.length = ts'.length := by
  have := congrArg List.length h
  simpa using this

/-- a function of the tags alone -/
theorem map_tags_congr (f : List Nat × List Nat → Bool) (ts ts' : List TG) (h : tagsOf ts = tagsOf ts') :
    ts.map (fun t => f (t.inp, t.win)) = ts'.map (fun t => f (t.inp, t.win)) := by
  have := congrArg (List.map f) h
  simpa [tagsOf, List.map_map, Function.comp_def] using this

theorem takeWhile_tags_congr (f : List Nat × List Nat → Bool) : ∀ (ts ts' : List TG), tagsOf ts = tagsOf ts' →
    (ts.takeWhile (fun t => f (t.inp, t.win))).length = (ts'.takeWhile (fun t => f (t.inp, t.win))).length := by
  intro ts
  induction ts with
  | nil =>
    intro ts' h
    cases ts' with
    | nil => rfl
    | cons t' ts' => simp at h
  | cons t ts ih =>
    intro ts' h
    cases ts' with
    | nil => simp at h
    | cons t' ts' =>
      simp only [tagsOf_cons, List.cons.injEq] at h
      obtain ⟨h1, h2⟩ := h
      simp only [List.takeWhile_cons, h1]
      split
      · simp only [List.length_cons, ih ts' h2]
      · rfl

theorem inputPositions_aux (d : Nat) : ∀ (ts ts' : List TG) (k : Nat), tagsOf ts = tagsOf ts' →
    (ts.zipIdx k).filterMap (fun (p : TG × Nat) => if p.1.hasInp d then some p.2 else none) =
    (ts'.zipIdx k).filterMap (fun (p : TG × Nat) => if p.1.hasInp d then some p.2 else none) := by
  intro ts
  induction ts with
  | nil =>
    intro ts' k h
    cases ts' with
    | nil => rfl
    | cons t' ts' => simp at h
  | cons t ts ih =>
    intro ts' k h
    cases ts' with
    | nil => simp at h
    | cons t' ts' =>
      simp only [tagsOf_cons, List.cons.injEq, Prod.mk.injEq] at h
      obtain ⟨⟨h1, _⟩, h2⟩ := h
      have hh : t.hasInp d = t'.hasInp d := by simp only [TG.hasInp, h1]
      simp only [List.zipIdx_cons, List.filterMap_cons, hh, ih ts' (k + 1) h2]

theorem inputPositions_congr (d : Nat) (ts ts' : List TG) (h : tagsOf ts = tagsOf ts') :
    inputPositions d ts = inputPositions d ts' :=
  inputPositions_aux d ts ts' 0 h

theorem takeWhile_hasWin_congr (d : Nat) (ts ts' : List TG) (h : tagsOf ts = tagsOf ts') :
    (ts.takeWhile (TG.hasWin d)).length = (ts'.takeWhile (TG.hasWin d)).length :=
  takeWhile_tags_congr (fun p => p.2.contains d) ts ts' h

theorem windowEnd_congr (d : Nat) (ts ts' : List TG) (h : tagsOf ts = tagsOf ts') :
    windowEnd d ts = windowEnd d ts' := by
  unfold windowEnd
  rw [length_eq_of_tagsOf h]
  have h' : tagsOf ts.reverse = tagsOf ts'.reverse := by rw [tagsOf_reverse, tagsOf_reverse, h]
  have := takeWhile_tags_congr (fun p => !p.2.contains d) ts.reverse ts'.reverse h'
  exact congrArg _ this

/-! ## (T2) replacing one glyph by a glyph with the same tags -/

theorem split_at (ts : List TG) (j : Nat) (cur : TG) (hj : ts[j]? = some cur) :
    ts = ts.take j ++ [cur] ++ ts.drop (j + 1) := by
  induction ts generalizing j with
  | nil => simp at hj
  | cons t ts ih =>
    cases j with
    | zero => simp at hj; simp [hj]
    | succ j =>
      simp only [List.getElem?_cons_succ] at hj
      have := ih j hj
      simp only [List.take_succ_cons, List.drop_succ_cons, List.cons_append, List.cons.injEq, true_and]
      exact this

theorem tagsOf_replace (ts : List TG) (j : Nat) (cur c' : TG) (hj : ts[j]? = some cur)
    (hi : c'.inp = cur.inp) (hw : c'.win = cur.win) :
    tagsOf (ts.take j ++ [c'] ++ ts.drop (j + 1)) = tagsOf ts := by
  conv => rhs; rw [split_at ts j cur hj]
  simp only [tagsOf_append, tagsOf_cons, tagsOf_nil, hi, hw]

theorem take_replace (ts : List TG) (j a : Nat) (c' : TG) (ha : a ≤ j) (hj : j < ts.length) :
    (ts.take j ++ [c'] ++ ts.drop (j + 1)).take a = ts.take a := by
  rw [List.append_assoc, List.take_append_of_le_length (by simp only [List.length_take]; omega)]
  rw [List.take_take]
  congr 1
  omega

theorem length_replace (ts : List TG) (j : Nat) (c' : TG) (hj : j < ts.length) :
    (ts.take j ++ [c'] ++ ts.drop (j + 1)).length = ts.length := by
  simp only [List.length_append, List.length_take, List.length_drop, List.length_cons, List.length_nil]
  omega

/-! ## (T4) the offsets of a matched rule -/

/-- the offsets `matchSeq` returns are strictly increasing -/
theorem matchSeq_sorted (kp : Nat → Bool) : ∀ (ts : List TG) (pats : List (Nat → Bool)) (i : Nat) (offs : List Nat),
    matchSeq kp pats ts i = some offs → offs.Pairwise (· < ·) := by
  intro ts
  induction ts with
  | nil =>
    intro pats i offs h
    cases pats with
    | nil => simp only [matchSeq] at h; injection h with h; subst h; exact List.Pairwise.nil
    | cons p ps => simp [matchSeq] at h
  | cons t ts ih =>
    intro pats i offs h
    cases pats with
    | nil => simp only [matchSeq] at h; injection h with h; subst h; exact List.Pairwise.nil
    | cons p ps =>
      simp only [matchSeq] at h
      split at h
      · split at h
        · cases hm : matchSeq kp ps ts (i + 1) with
          | none => rw [hm] at h; simp at h
          | some offs' =>
            rw [hm] at h
            simp only [Option.map_some] at h
            injection h with h; subst h
            have hf := (C06sem.matchSeq_facts kp ts ps (i + 1) offs' hm).2
            refine List.Pairwise.cons ?_ (ih ps (i + 1) offs' hm)
            intro o ho
            have := (hf o ho).1
            omega
        · cases h
      · exact ih (p :: ps) (i + 1) offs h

/-- every element of a strictly increasing list lies below `usedLen` -/
theorem lt_usedLen : ∀ (offs : List Nat), offs.Pairwise (· < ·) → ∀ o ∈ offs, o < usedLen offs := by
  intro offs
  induction offs with
  | nil => intro _ o ho; cases ho
  | cons a l ih =>
    intro hp o ho
    cases l with
    | nil =>
      simp only [List.mem_cons, List.not_mem_nil, or_false] at ho
      subst ho
      simp [usedLen]
    | cons b l' =>
      have hu : usedLen (a :: b :: l') = usedLen (b :: l') := by
        unfold usedLen; rw [List.getLast?_cons_cons]
      rw [hu]
      have hp' := List.pairwise_cons.mp hp
      have hb := ih hp'.2
      rcases List.mem_cons.mp ho with ho | ho
      · subst ho
        have h1 := hp'.1 b (List.mem_cons_self)
        have h2 := hb b (List.mem_cons_self)
        omega
      · exact hb o ho

theorem matchContext_offs (kp : Nat → Bool) (back input look : List (Nat → Bool)) (pre post : List TG)
    (lim : Nat) (m : CtxMatch) (h : matchContext kp back input look pre post lim = some m) :
    m.offs.Pairwise (· < ·) ∧ (∀ o ∈ m.offs, o < m.wlen) ∧ m.wlen ≤ lim ∧ m.wlen ≤ post.length := by
  unfold matchContext at h
  split at h
  · cases h
  · split at h
    · cases h
    · rename_i offs hoffs
      simp only [] at h
      split at h
      · cases h
      · injection h with h
        subst h
        simp only []
        have hs := matchSeq_sorted kp (post.take lim) input 0 offs hoffs
        have hu := Spec.Shape.usedLen_le kp input (post.take lim) offs hoffs
        have ht : (((post.take lim).drop (usedLen offs)).takeWhile fun t => !kp t.g.gid).length ≤
            ((post.take lim).drop (usedLen offs)).length := (List.takeWhile_sublist _).length_le
        simp only [List.length_drop, List.length_take] at ht hu
        refine ⟨hs, ?_, ?_, ?_⟩
        · intro o ho
          have := lt_usedLen offs hs o ho
          omega
        · omega
        · omega

theorem firstRule_offs (kp : Nat → Bool) (mb mi ml : Nat → Nat → Bool) (pre post : List TG) (lim : Nat)
    (rs : List Shape.Rule) (m : CtxMatch) (acts : List Shape.Action)
    (h : Spec.Shape.firstRule kp mb mi ml pre post lim rs = some (m, acts)) :
    m.offs.Pairwise (· < ·) ∧ (∀ o ∈ m.offs, o < m.wlen) ∧ m.wlen ≤ lim ∧ m.wlen ≤ post.length := by
  induction rs with
  | nil => simp [Spec.Shape.firstRule] at h
  | cons r rs ih =>
    simp only [Spec.Shape.firstRule] at h
    split at h
    · rename_i m' hm
      injection h with h
      injection h with h1 h2
      subst h1
      exact matchContext_offs kp _ _ _ pre post lim m' hm
    · exact ih h

/-! ## (T3) the tagged buffer of a fresh top-level match -/

/-- the tagging of the glyphs after the current one -/
def tagRest (d : Nat) (m : CtxMatch) : TG × Nat → TG := fun (t, i) =>
  { t with inp := if m.offs.contains i then d :: t.inp else t.inp, win := d :: t.win }

theorem tagRest_mk (d : Nat) (m : CtxMatch) (t : TG) (i : Nat) :
    tagRest d m (t, i) = { t with inp := if m.offs.contains i then d :: t.inp else t.inp, win := d :: t.win } := rfl

theorem tagWindow_eq (d : Nat) (m : CtxMatch) (cur : TG) (post : List TG) :
    tagWindow d m cur post =
      { cur with inp := d :: cur.inp, win := d :: cur.win } :: ((post.take m.wlen).zipIdx).map (tagRest d m) := rfl

/-- tagged by the match at depth 0 and by nothing else -/
def Tagged0 (t : TG) : Prop := t.win = [0] ∧ (t.inp = [] ∨ t.inp = [0])

theorem tagRest_length (d : Nat) (m : CtxMatch) (l : List TG) (j : Nat) :
    ((l.zipIdx j).map (tagRest d m)).length = l.length := by simp

theorem tagRest_gl (d : Nat) (m : CtxMatch) : ∀ (l : List TG) (j : Nat),
    gl ((l.zipIdx j).map (tagRest d m)) = gl l := by
  intro l
  induction l with
  | nil => intro j; rfl
  | cons t l ih =>
    intro j
    simp only [List.zipIdx_cons, List.map_cons, Spec.Shape.gl_cons, ih (j + 1), tagRest_mk]

theorem tagRest_tagged (m : CtxMatch) : ∀ (l : List TG) (j : Nat), AllClean l →
    ∀ x ∈ (l.zipIdx j).map (tagRest 0 m), Tagged0 x := by
  intro l
  induction l with
  | nil => intro j _ x hx; simp at hx
  | cons t l ih =>
    intro j hc x hx
    simp only [List.zipIdx_cons, List.map_cons, List.mem_cons] at hx
    have ht : Clean t := hc t List.mem_cons_self
    rcases hx with hx | hx
    · subst hx
      rw [tagRest_mk]
      refine ⟨?_, ?_⟩
      · simp only [ht.2]
      · simp only [ht.1]
        split
        · exact Or.inr rfl
        · exact Or.inl rfl
    · exact ih (j + 1) (fun y hy => hc y (List.mem_cons_of_mem _ hy)) x hx

theorem Tagged0.hasWin {t : TG} (h : Tagged0 t) : t.hasWin 0 = true := by
  simp [TG.hasWin, h.1]

theorem Clean.hasWin {t : TG} (h : Clean t) (d : Nat) : t.hasWin d = false := by
  simp [TG.hasWin, h.2]

theorem Clean.hasInp {t : TG} (h : Clean t) (d : Nat) : t.hasInp d = false := by
  simp [TG.hasInp, h.1]

theorem Tagged0.untag {t : TG} (h : Tagged0 t) : Clean (t.untag 0) := by
  refine ⟨?_, ?_⟩
  · rcases h.2 with h2 | h2 <;> simp [TG.untag, h2]
  · simp [TG.untag, h.1]

/-- a strictly increasing list inside `[s, s+n)` is the list of the members of that range -/
theorem filter_range'_contains : ∀ (n s : Nat) (offs : List Nat), offs.Pairwise (· < ·) →
    (∀ o ∈ offs, s ≤ o ∧ o < s + n) →
    (List.range' s n).filter (fun i => offs.contains i) = offs := by
  intro n
  induction n with
  | zero =>
    intro s offs _ hb
    cases offs with
    | nil => rfl
    | cons a l => have := hb a List.mem_cons_self; omega
  | succ n ih =>
    intro s offs hp hb
    rw [List.range'_succ]
    cases offs with
    | nil => simp
    | cons a l =>
      have hp' := List.pairwise_cons.mp hp
      have ha := hb a List.mem_cons_self
      by_cases has : a = s
      · subst has
        have hl : ∀ o ∈ l, a + 1 ≤ o ∧ o < a + 1 + n := by
          intro o ho
          have h1 := hp'.1 o ho
          have h2 := hb o (List.mem_cons_of_mem _ ho)
          omega
        have hc : (List.range' (a + 1) n).filter (fun i => (a :: l).contains i) =
            (List.range' (a + 1) n).filter (fun i => l.contains i) := by
          apply List.filter_congr
          intro i hi
          have := (List.mem_range'_1.mp hi).1
          have hne : (i == a) = false := by
            simp only [beq_eq_false_iff_ne, ne_eq]; omega
          simp only [List.contains_cons, hne, Bool.false_or]
        rw [List.filter_cons_of_pos (by simp), hc, ih (a + 1) l hp'.2 hl]
      · have hall : ∀ o ∈ a :: l, s + 1 ≤ o ∧ o < s + 1 + n := by
          intro o ho
          have h2 := hb o ho
          rcases List.mem_cons.mp ho with ho | ho
          · subst ho; omega
          · have h1 := hp'.1 o ho; omega
        have hns : (a :: l).contains s = false := by
          cases hcs : (a :: l).contains s with
          | false => rfl
          | true =>
            have hm : s ∈ a :: l := by simpa using hcs
            have := hall s hm
            omega
        rw [List.filter_cons_of_neg (by simp only [hns]; exact Bool.false_ne_true), ih (s + 1) (a :: l) hp hall]

theorem ip_clean (d : Nat) : ∀ (l : List TG) (k : Nat), AllClean l →
    (l.zipIdx k).filterMap (fun (p : TG × Nat) => if p.1.hasInp d then some p.2 else none) = [] := by
  intro l
  induction l with
  | nil => intro k _; rfl
  | cons t l ih =>
    intro k hc
    have ht : Clean t := hc t List.mem_cons_self
    simp only [List.zipIdx_cons, List.filterMap_cons, ht.hasInp d,
      ih (k + 1) (fun y hy => hc y (List.mem_cons_of_mem _ hy))]
    rfl

theorem ip_tagRest (m : CtxMatch) (c : Nat) : ∀ (l : List TG) (j : Nat), AllClean l →
    (((l.zipIdx j).map (tagRest 0 m)).zipIdx (j + c)).filterMap
      (fun (p : TG × Nat) => if p.1.hasInp 0 then some p.2 else none) =
    ((List.range' j l.length).filter (fun i => m.offs.contains i)).map (· + c) := by
  intro l
  induction l with
  | nil => intro j _; rfl
  | cons t l ih =>
    intro j hc
    have ht : Clean t := hc t List.mem_cons_self
    have hrest := ih (j + 1) (fun y hy => hc y (List.mem_cons_of_mem _ hy))
    have hjc : j + c + 1 = j + 1 + c := by omega
    have hin : (tagRest 0 m (t, j)).hasInp 0 = m.offs.contains j := by
      rw [tagRest_mk]
      simp only [TG.hasInp, ht.1]
      cases m.offs.contains j <;> simp
    simp only [List.zipIdx_cons, List.map_cons, List.filterMap_cons, List.length_cons, List.range'_succ, hin,
      hjc, hrest]
    cases hcj : m.offs.contains j with
    | true => simp only [List.filter_cons, hcj, ↓reduceIte, List.map_cons]
    | false => simp only [List.filter_cons, hcj, ↓reduceIte, Bool.false_eq_true]

section ts0
variable (pre post : List TG) (cur : TG) (m : CtxMatch)

theorem ts0_eq :
    pre.reverse ++ tagWindow 0 m cur post ++ post.drop m.wlen =
    pre.reverse ++ ({ cur with inp := 0 :: cur.inp, win := 0 :: cur.win } ::
      (((post.take m.wlen).zipIdx 0).map (tagRest 0 m) ++ post.drop m.wlen)) := by
  rw [tagWindow_eq, List.append_assoc, List.cons_append]

theorem gl_ts0 :
    gl (pre.reverse ++ tagWindow 0 m cur post ++ post.drop m.wlen) = gl (pre.reverse ++ cur :: post) := by
  rw [ts0_eq]
  simp only [Spec.Shape.gl_append, Spec.Shape.gl_cons, tagRest_gl]
  rw [← Spec.Shape.gl_append, List.take_append_drop]

theorem take_ts0 :
    (pre.reverse ++ tagWindow 0 m cur post ++ post.drop m.wlen).take pre.length = pre.reverse := by
  rw [List.append_assoc]
  exact List.take_left' (by simp)

theorem drop_ts0 :
    (pre.reverse ++ tagWindow 0 m cur post ++ post.drop m.wlen).drop pre.length =
    ({ cur with inp := 0 :: cur.inp, win := 0 :: cur.win } :: ((post.take m.wlen).zipIdx 0).map (tagRest 0 m)) ++
      post.drop m.wlen := by
  rw [ts0_eq]
  exact List.drop_left' (by simp)

theorem length_ts0 (hw : m.wlen ≤ post.length) :
    (pre.reverse ++ tagWindow 0 m cur post ++ post.drop m.wlen).length = pre.length + 1 + post.length := by
  rw [ts0_eq]
  simp only [List.length_append, List.length_reverse, List.length_cons, tagRest_length, List.length_take,
    List.length_drop]
  omega

theorem inputPositions_ts0 (hpre : AllClean pre) (hpost : AllClean post) (hw : m.wlen ≤ post.length)
    (hs : m.offs.Pairwise (· < ·)) (hb : ∀ o ∈ m.offs, o < m.wlen) :
    inputPositions 0 (pre.reverse ++ tagWindow 0 m cur post ++ post.drop m.wlen) =
      pre.length :: m.offs.map (· + (pre.length + 1)) := by
  have hpr : AllClean pre.reverse := fun t ht => hpre t (List.mem_reverse.mp ht)
  have htk : AllClean (post.take m.wlen) := fun t ht => hpost t (List.mem_of_mem_take ht)
  have hdr : AllClean (post.drop m.wlen) := fun t ht => hpost t (List.mem_of_mem_drop ht)
  have hlen : (post.take m.wlen).length = m.wlen := by simp only [List.length_take]; omega
  have hcur : TG.hasInp 0 { cur with inp := 0 :: cur.inp, win := 0 :: cur.win } = true := by
    simp [TG.hasInp]
  have hwin := ip_tagRest m (pre.length + 1) (post.take m.wlen) 0 htk
  rw [hlen, filter_range'_contains m.wlen 0 m.offs hs (fun o ho => ⟨Nat.zero_le _, by have := hb o ho; omega⟩),
    Nat.zero_add] at hwin
  unfold inputPositions
  rw [ts0_eq]
  simp only [List.zipIdx_append, List.zipIdx_cons, List.filterMap_append, List.filterMap_cons,
    ip_clean 0 _ _ hpr, ip_clean 0 _ _ hdr, hcur, List.length_reverse, List.nil_append, List.append_nil,
    Nat.zero_add, if_true]
  rw [← hwin]

end ts0

/-! ### the window -/

theorem takeWhile_hasWin_clean (d : Nat) (l : List TG) (h : AllClean l) : l.takeWhile (TG.hasWin d) = [] := by
  cases l with
  | nil => rfl
  | cons t l => rw [List.takeWhile_cons_of_neg]; rw [(h t List.mem_cons_self).hasWin d]; exact Bool.false_ne_true

theorem dropWhile_hasWin_clean (d : Nat) (l : List TG) (h : AllClean l) : l.dropWhile (TG.hasWin d) = l := by
  cases l with
  | nil => rfl
  | cons t l => rw [List.dropWhile_cons_of_neg]; rw [(h t List.mem_cons_self).hasWin d]; exact Bool.false_ne_true

/-- a property of the tags transfers between buffers with the same tags -/
theorem forall_tags_congr (P : List Nat × List Nat → Prop) {l l' : List TG} (h : tagsOf l = tagsOf l')
    (hp : ∀ x ∈ l', P (x.inp, x.win)) : ∀ x ∈ l, P (x.inp, x.win) := by
  intro x hx
  have hm : (x.inp, x.win) ∈ tagsOf l := List.mem_map.mpr ⟨x, hx, rfl⟩
  rw [h] at hm
  obtain ⟨y, hy, hxy⟩ := List.mem_map.mp hm
  rw [← hxy]
  exact hp y hy

/-- a buffer tagged like `A ++ D`, `A` inside the window of the match at depth 0 and `D` clean -/
theorem window_split (X A D : List TG) (h : tagsOf X = tagsOf (A ++ D)) (hA : ∀ a ∈ A, Tagged0 a)
    (hD : AllClean D) :
    AllClean ((X.takeWhile (TG.hasWin 0)).map (TG.untag 0)) ∧
    AllClean (X.dropWhile (TG.hasWin 0)) ∧
    X.takeWhile (TG.hasWin 0) = X.take A.length ∧
    X.dropWhile (TG.hasWin 0) = X.drop A.length := by
  have h1 : tagsOf (X.take A.length) = tagsOf A := by
    rw [tagsOf_take, h, tagsOf_append]
    exact List.take_left' (by simp)
  have h2 : tagsOf (X.drop A.length) = tagsOf D := by
    rw [tagsOf_drop, h, tagsOf_append]
    exact List.drop_left' (by simp)
  have ht : ∀ x ∈ X.take A.length, Tagged0 x :=
    forall_tags_congr (fun p => p.2 = [0] ∧ (p.1 = [] ∨ p.1 = [0])) h1 hA
  have hd : AllClean (X.drop A.length) :=
    forall_tags_congr (fun p => p.1 = [] ∧ p.2 = []) h2 hD
  have e1 : X.takeWhile (TG.hasWin 0) = X.take A.length := by
    conv => lhs; rw [← List.take_append_drop A.length X]
    rw [List.takeWhile_append_of_pos (fun x hx => (ht x hx).hasWin), takeWhile_hasWin_clean 0 _ hd,
      List.append_nil]
  have e2 : X.dropWhile (TG.hasWin 0) = X.drop A.length := by
    conv => lhs; rw [← List.take_append_drop A.length X]
    rw [List.dropWhile_append_of_pos (fun x hx => (ht x hx).hasWin), dropWhile_hasWin_clean 0 _ hd]
  refine ⟨?_, ?_, e1, e2⟩
  · rw [e1]
    intro y hy
    obtain ⟨x, hx, hxy⟩ := List.mem_map.mp hy
    rw [← hxy]
    exact (ht x hx).untag
  · rw [e2]; exact hd

section ts0
variable (pre post : List TG) (cur : TG) (m : CtxMatch)

theorem window_tagged (hcur : Clean cur) (hpost : AllClean post) :
    ∀ a ∈ ({ cur with inp := 0 :: cur.inp, win := 0 :: cur.win } : TG) ::
      ((post.take m.wlen).zipIdx 0).map (tagRest 0 m), Tagged0 a := by
  intro a ha
  rcases List.mem_cons.mp ha with ha | ha
  · subst ha
    exact ⟨by simp only [hcur.2], Or.inr (by simp only [hcur.1])⟩
  · exact tagRest_tagged m _ 0 (fun t ht => hpost t (List.mem_of_mem_take ht)) a ha

theorem window_length (hw : m.wlen ≤ post.length) :
    (({ cur with inp := 0 :: cur.inp, win := 0 :: cur.win } : TG) ::
      ((post.take m.wlen).zipIdx 0).map (tagRest 0 m)).length = 1 + m.wlen := by
  simp only [List.length_cons, tagRest_length, List.length_take]
  omega

theorem untag_ts0 (hcur : Clean cur) (hpost : AllClean post) (hw : m.wlen ≤ post.length) :
    ∀ ts', tagsOf ts' = tagsOf (pre.reverse ++ tagWindow 0 m cur post ++ post.drop m.wlen) →
      AllClean (((ts'.drop pre.length).takeWhile (TG.hasWin 0)).map (TG.untag 0)) ∧
      AllClean ((ts'.drop pre.length).dropWhile (TG.hasWin 0)) ∧
      ((ts'.drop pre.length).takeWhile (TG.hasWin 0)) = (ts'.drop pre.length).take (1 + m.wlen) ∧
      ((ts'.drop pre.length).dropWhile (TG.hasWin 0)) = ts'.drop (pre.length + 1 + m.wlen) := by
  intro ts' h
  have hX : tagsOf (ts'.drop pre.length) = tagsOf
      ((({ cur with inp := 0 :: cur.inp, win := 0 :: cur.win } : TG) ::
        ((post.take m.wlen).zipIdx 0).map (tagRest 0 m)) ++ post.drop m.wlen) := by
    rw [tagsOf_drop, h, ← tagsOf_drop, drop_ts0]
  have hdr : AllClean (post.drop m.wlen) := fun t ht => hpost t (List.mem_of_mem_drop ht)
  obtain ⟨a1, a2, a3, a4⟩ := window_split _ _ _ hX (window_tagged post cur m hcur hpost) hdr
  rw [window_length post cur m hw] at a3 a4
  refine ⟨a1, a2, a3, ?_⟩
  rw [a4, List.drop_drop]
  congr 1
  omega

theorem window_ts0 (hcur : Clean cur) (hpost : AllClean post) (hw : m.wlen ≤ post.length) :
    (((pre.reverse ++ tagWindow 0 m cur post ++ post.drop m.wlen).drop pre.length).takeWhile
      (TG.hasWin 0)).length = 1 + m.wlen := by
  have h := (untag_ts0 pre post cur m hcur hpost hw _ rfl).2.2.1
  rw [h, List.length_take, List.length_drop, length_ts0 pre post cur m hw]
  omega

theorem windowEnd_ts0 (hcur : Clean cur) (hpost : AllClean post) (hw : m.wlen ≤ post.length) :
    windowEnd 0 (pre.reverse ++ tagWindow 0 m cur post ++ post.drop m.wlen) = pre.length + 1 + m.wlen := by
  unfold windowEnd
  rw [length_ts0 pre post cur m hw, ts0_eq, ← List.cons_append, ← List.append_assoc, List.reverse_append]
  have hdr : ∀ t ∈ (post.drop m.wlen).reverse, (!t.hasWin 0) = true := by
    intro t ht
    rw [(hpost t (List.mem_of_mem_drop (List.mem_reverse.mp ht))).hasWin 0]; rfl
  rw [List.takeWhile_append_of_pos hdr]
  have hstop : ((pre.reverse ++ (({ cur with inp := 0 :: cur.inp, win := 0 :: cur.win } : TG) ::
      ((post.take m.wlen).zipIdx 0).map (tagRest 0 m))).reverse.takeWhile fun t => !t.hasWin 0) = [] := by
    rw [List.reverse_append]
    generalize hA : (({ cur with inp := 0 :: cur.inp, win := 0 :: cur.win } : TG) ::
      ((post.take m.wlen).zipIdx 0).map (tagRest 0 m)) = A
    have hT : ∀ a ∈ A.reverse, Tagged0 a := by
      intro a ha; rw [← hA] at ha
      exact window_tagged post cur m hcur hpost a (List.mem_reverse.mp ha)
    have hne : A.reverse ≠ [] := by rw [← hA]; simp
    cases hr : A.reverse with
    | nil => exact absurd hr hne
    | cons a r =>
      rw [hr] at hT
      rw [List.cons_append, List.takeWhile_cons_of_neg]
      rw [(hT a List.mem_cons_self).hasWin]; decide
  rw [hstop, List.append_nil, List.length_reverse, List.length_drop]
  omega

end ts0

end SfntV.C06
