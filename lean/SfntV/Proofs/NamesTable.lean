/-
C14 — round trip of the name table model: `nameDecodeWith (nameEncodeWith …) ≈ id` on the view.
-/
import SfntV.Model.NamesTable
import SfntV.Proofs.NamesCodec
import SfntV.Proofs.NamesPost

namespace SfntV.Names

/-! ### slices of the string storage -/

def sliceL (d : List Nat) (a n : Nat) : List Nat := (d.drop a).take n

theorem sliceL_append_left (d x : List Nat) (a n : Nat) (h : a + n ≤ d.length) :
    sliceL (d ++ x) a n = sliceL d a n := by
  unfold sliceL
  rw [List.drop_append_of_le_length (by omega), List.take_append_of_le_length]
  simp only [List.length_drop]; omega

theorem sliceL_at_end (d s : List Nat) : sliceL (d ++ s) d.length s.length = s := by
  simp [sliceL]

/-! ### the builder -/

def BInv (b : Builder) : Prop :=
  ∀ s i, idxGet b.idx s = some i → sliceL b.data i s.length = s ∧ i + s.length ≤ b.data.length

theorem BInv_empty : BInv ⟨[], []⟩ := by
  intro s i h; simp [idxGet] at h

theorem add_extends (b : Builder) (s : List Nat) : ∃ ext, (b.add s).1.data = b.data ++ ext := by
  unfold Builder.add
  split
  · exact ⟨[], by simp⟩
  · exact ⟨s, rfl⟩

theorem add_spec (b : Builder) (s : List Nat) (hb : BInv b) (hF : (b.add s).1.data.length ≤ 65535) :
    BInv (b.add s).1 ∧ (b.add s).2.2 = s.length ∧
      sliceL (b.add s).1.data (b.add s).2.1 (b.add s).2.2 = s ∧
      (b.add s).2.1 + (b.add s).2.2 ≤ (b.add s).1.data.length := by
  unfold Builder.add at hF ⊢
  split
  · next i hi =>
    simp only [hi] at hF
    have := hb s i hi
    have hl : s.length % 65536 = s.length := Nat.mod_eq_of_lt (by omega)
    simp only [hl]
    exact ⟨hb, trivial, this.1, this.2⟩
  · next hi =>
    simp only [hi, List.length_append] at hF
    have h1 : b.data.length % 65536 = b.data.length := Nat.mod_eq_of_lt (by omega)
    have h2 : s.length % 65536 = s.length := Nat.mod_eq_of_lt (by omega)
    simp only [h1, h2]
    refine ⟨?_, trivial, sliceL_at_end _ _, by simp⟩
    intro s' i' h'
    simp only [idxGet] at h'
    split at h'
    · next heq =>
      cases h'; subst heq
      exact ⟨sliceL_at_end _ _, by simp⟩
    · have := hb s' i' h'
      refine ⟨?_, by simp only [List.length_append]; omega⟩
      rw [sliceL_append_left _ _ _ _ this.2]; exact this.1

/-! ### records produced for one table / one language map -/

/-- record `r` stands for string `kv.2` under name id `kv.1`, stored in `F` -/
def Src (pid eid : Nat) (enc : List Nat → List Nat) (F : List Nat) (lang : Nat)
    (kv : Nat × List Nat) (r : Rec) : Prop :=
  r.pid = pid ∧ r.eid = eid ∧ r.lang = lang ∧ r.nid = kv.1 ∧
    sliceL F r.off r.len = enc kv.2 ∧ r.off + r.len ≤ F.length

theorem Src_mono {pid eid enc F lang kv r} (ext : List Nat) (h : Src pid eid enc F lang kv r) :
    Src pid eid enc (F ++ ext) lang kv r := by
  obtain ⟨h1, h2, h3, h4, h5, h6⟩ := h
  refine ⟨h1, h2, h3, h4, ?_, by simp only [List.length_append]; omega⟩
  rw [sliceL_append_left _ _ _ _ h6]; exact h5

theorem addTable_extends (pid eid lang : Nat) (enc : List Nat → List Nat)
    (view : List (Nat × List Nat)) (b : Builder) :
    ∃ ext, (addTable pid eid lang enc view b).1.data = b.data ++ ext := by
  induction view generalizing b with
  | nil => exact ⟨[], by simp [addTable]⟩
  | cons kv rest ih =>
    obtain ⟨nid, val⟩ := kv
    simp only [addTable]
    obtain ⟨e1, h1⟩ := add_extends b (enc val)
    obtain ⟨e2, h2⟩ := ih (b.add (enc val)).1
    exact ⟨e1 ++ e2, by rw [h2, h1, List.append_assoc]⟩

theorem addTable_spec (pid eid lang : Nat) (enc : List Nat → List Nat)
    (view : List (Nat × List Nat)) (b : Builder) (hb : BInv b)
    (hF : (addTable pid eid lang enc view b).1.data.length ≤ 65535)
    (hid : ∀ kv ∈ view, kv.1 < 65536) :
    BInv (addTable pid eid lang enc view b).1 ∧
    (∀ r ∈ (addTable pid eid lang enc view b).2, ∃ kv ∈ view,
        Src pid eid enc (addTable pid eid lang enc view b).1.data lang kv r) ∧
    (∀ kv ∈ view, ∃ r ∈ (addTable pid eid lang enc view b).2,
        Src pid eid enc (addTable pid eid lang enc view b).1.data lang kv r) := by
  induction view generalizing b with
  | nil => simp [addTable, hb]
  | cons kv rest ih =>
    obtain ⟨nid, val⟩ := kv
    simp only [addTable] at hF ⊢
    obtain ⟨e2, h2⟩ := addTable_extends pid eid lang enc rest (b.add (enc val)).1
    have hF1 : (b.add (enc val)).1.data.length ≤ 65535 := by
      rw [h2, List.length_append] at hF; omega
    obtain ⟨hb1, hl, hs, hle⟩ := add_spec b (enc val) hb hF1
    obtain ⟨hb2, hS, hC⟩ := ih (b.add (enc val)).1 hb1 hF
      (fun kv hkv => hid kv (List.mem_cons_of_mem _ hkv))
    have hnid : nid % 65536 = nid := Nat.mod_eq_of_lt (hid (nid, val) List.mem_cons_self)
    have hhead : Src pid eid enc (addTable pid eid lang enc rest (b.add (enc val)).1).1.data lang
        (nid, val) ⟨pid, eid, lang, nid % 65536, (b.add (enc val)).2.1, (b.add (enc val)).2.2⟩ := by
      rw [h2]
      exact Src_mono e2 ⟨rfl, rfl, rfl, hnid, hs, hle⟩
    refine ⟨hb2, ?_, ?_⟩
    · intro r hr
      simp only [List.mem_cons] at hr
      rcases hr with rfl | hr
      · exact ⟨(nid, val), List.mem_cons_self, hhead⟩
      · obtain ⟨kv, hkv, hsrc⟩ := hS r hr
        exact ⟨kv, List.mem_cons_of_mem _ hkv, hsrc⟩
    · intro kv hkv
      simp only [List.mem_cons] at hkv
      rcases hkv with rfl | hkv
      · exact ⟨_, List.mem_cons_self, hhead⟩
      · obtain ⟨r, hr, hsrc⟩ := hC kv hkv
        exact ⟨r, List.mem_cons_of_mem _ hr, hsrc⟩

theorem addLangs_extends (pid eid : Nat) (enc : List Nat → List Nat) (info : List Entry)
    (order : List (Nat × String)) (b : Builder) :
    ∃ ext, (addLangs pid eid enc info order b).1.data = b.data ++ ext := by
  induction order generalizing b with
  | nil => exact ⟨[], by simp [addLangs]⟩
  | cons lt rest ih =>
    obtain ⟨lang, tag⟩ := lt
    simp only [addLangs]
    obtain ⟨e1, h1⟩ := addTable_extends pid eid lang enc (tableView info pid tag) b
    obtain ⟨e2, h2⟩ := ih (addTable pid eid lang enc (tableView info pid tag) b).1
    exact ⟨e1 ++ e2, by rw [h2, h1, List.append_assoc]⟩

theorem addLangs_spec (pid eid : Nat) (enc : List Nat → List Nat) (info : List Entry)
    (order : List (Nat × String)) (b : Builder) (hb : BInv b)
    (hF : (addLangs pid eid enc info order b).1.data.length ≤ 65535)
    (hid : ∀ tag, ∀ kv ∈ tableView info pid tag, kv.1 < 65536) :
    BInv (addLangs pid eid enc info order b).1 ∧
    (∀ r ∈ (addLangs pid eid enc info order b).2, ∃ lt ∈ order, ∃ kv ∈ tableView info pid lt.2,
        Src pid eid enc (addLangs pid eid enc info order b).1.data lt.1 kv r) ∧
    (∀ lt ∈ order, ∀ kv ∈ tableView info pid lt.2, ∃ r ∈ (addLangs pid eid enc info order b).2,
        Src pid eid enc (addLangs pid eid enc info order b).1.data lt.1 kv r) := by
  induction order generalizing b with
  | nil => simp [addLangs, hb]
  | cons lt rest ih =>
    obtain ⟨lang, tag⟩ := lt
    simp only [addLangs] at hF ⊢
    obtain ⟨e2, h2⟩ := addLangs_extends pid eid enc info rest
      (addTable pid eid lang enc (tableView info pid tag) b).1
    have hF1 : (addTable pid eid lang enc (tableView info pid tag) b).1.data.length ≤ 65535 := by
      rw [h2, List.length_append] at hF; omega
    obtain ⟨hb1, hS1, hC1⟩ := addTable_spec pid eid lang enc (tableView info pid tag) b hb hF1 (hid tag)
    obtain ⟨hb2, hS2, hC2⟩ := ih (addTable pid eid lang enc (tableView info pid tag) b).1 hb1 hF
    refine ⟨hb2, ?_, ?_⟩
    · intro r hr
      simp only [List.mem_append] at hr
      rcases hr with hr | hr
      · obtain ⟨kv, hkv, hsrc⟩ := hS1 r hr
        refine ⟨(lang, tag), List.mem_cons_self, kv, hkv, ?_⟩
        rw [h2]; exact Src_mono e2 hsrc
      · obtain ⟨lt, hlt, kv, hkv, hsrc⟩ := hS2 r hr
        exact ⟨lt, List.mem_cons_of_mem _ hlt, kv, hkv, hsrc⟩
    · intro lt hlt kv hkv
      simp only [List.mem_cons] at hlt
      rcases hlt with rfl | hlt
      · obtain ⟨r, hr, hsrc⟩ := hC1 kv hkv
        refine ⟨r, List.mem_append_left _ hr, ?_⟩
        rw [h2]; exact Src_mono e2 hsrc
      · obtain ⟨r, hr, hsrc⟩ := hC2 lt hlt kv hkv
        exact ⟨r, List.mem_append_right _ hr, hsrc⟩

/-! ### the view of one table -/

theorem mem_insertById (e x : Nat × List Nat) (l : List (Nat × List Nat)) :
    x ∈ insertById e l ↔ x = e ∨ x ∈ l := by
  induction l with
  | nil => simp [insertById]
  | cons y rest ih =>
    unfold insertById
    split
    · simp
    · simp only [List.mem_cons, ih]
      constructor
      · rintro (h | h | h)
        · exact Or.inr (Or.inl h)
        · exact Or.inl h
        · exact Or.inr (Or.inr h)
      · rintro (h | h | h)
        · exact Or.inr (Or.inl h)
        · exact Or.inl h
        · exact Or.inr (Or.inr h)

theorem mem_foldr_insertById (x : Nat × List Nat) (l : List (Nat × List Nat)) :
    x ∈ l.foldr insertById [] ↔ x ∈ l := by
  induction l with
  | nil => simp
  | cons y rest ih => simp only [List.foldr_cons, mem_insertById, ih, List.mem_cons]

theorem mem_tableView (info : List Entry) (p : Nat) (t : String) (kv : Nat × List Nat) :
    kv ∈ tableView info p t ↔
      ∃ e ∈ info, e.plat = p ∧ e.tag = t ∧ e.val ≠ [] ∧ kv = (e.id, e.val) := by
  unfold tableView
  rw [mem_foldr_insertById]
  simp only [List.mem_map, List.mem_filter, decide_eq_true_eq]
  constructor
  · rintro ⟨e, ⟨he, h1, h2, h3⟩, rfl⟩
    exact ⟨e, he, h1, h2, h3, rfl⟩
  · rintro ⟨e, he, h1, h2, h3, rfl⟩
    exact ⟨e, ⟨he, h1, h2, h3⟩, rfl⟩

/-! ### the decoder on encoder-shaped bytes -/

def RecFits (r : Rec) : Prop :=
  r.pid < 65536 ∧ r.eid < 65536 ∧ r.lang < 65536 ∧ r.nid < 65536 ∧ r.off < 65536 ∧ r.len < 65536

theorem recBytes_length (r : Rec) : (recBytes r).length = 12 := by simp [recBytes, u16]

theorem flatMap_recBytes_length (recs : List Rec) : (recs.flatMap recBytes).length = 12 * recs.length := by
  induction recs with
  | nil => rfl
  | cons r rest ih => simp only [List.flatMap_cons, List.length_append, recBytes_length, ih, List.length_cons]; omega

theorem parseRecs_flatMap (recs : List Rec) (rest : List Nat) (h : ∀ r ∈ recs, RecFits r) :
    parseRecs recs.length (recs.flatMap recBytes ++ rest) = recs := by
  induction recs with
  | nil => cases rest <;> simp [parseRecs]
  | cons r t ih =>
    obtain ⟨h1, h2, h3, h4, h5, h6⟩ := h r List.mem_cons_self
    simp only [List.flatMap_cons, List.length_cons, recBytes, u16, List.cons_append, List.nil_append,
      parseRecs]
    rw [ih (fun x hx => h x (List.mem_cons_of_mem _ hx))]
    congr 1
    obtain ⟨a, b, c, d, e, f⟩ := r
    simp only [Rec.mk.injEq] at *
    refine ⟨?_, ?_, ?_, ?_, ?_, ?_⟩ <;> omega

/-- the byte layout `Encode` produces from sorted records and the string storage -/
def encodeBytes (recs : List Rec) (F : List Nat) : List Nat :=
  [0, 0] ++ (u16 recs.length ++ (u16 (6 + 12 * recs.length) ++ (recs.flatMap recBytes ++ F)))

theorem encodeBytes_length (recs : List Rec) (F : List Nat) :
    (encodeBytes recs F).length = 6 + 12 * recs.length + F.length := by
  simp only [encodeBytes, u16, List.length_append, List.length_cons, List.length_nil,
    flatMap_recBytes_length]; omega

theorem drop_prefix (pre F : List Nat) (n a : Nat) (h : pre.length = n) :
    (pre ++ F).drop (n + a) = F.drop a := by
  subst h; rw [List.drop_append]; simp

theorem encodeBytes_drop (recs : List Rec) (F : List Nat) (a : Nat) :
    (encodeBytes recs F).drop (6 + 12 * recs.length + a) = F.drop a := by
  have : encodeBytes recs F =
      ([0, 0] ++ u16 recs.length ++ u16 (6 + 12 * recs.length) ++ recs.flatMap recBytes) ++ F := by
    simp [encodeBytes]
  rw [this]
  apply drop_prefix
  simp only [u16, List.length_append, List.length_cons, List.length_nil, flatMap_recBytes_length]

theorem u16_join (m : Nat) (h : m ≤ 65535) : m / 256 % 256 * 256 + m % 256 = m := by omega

theorem decode_encodeBytes (apple ms : List (Nat × String)) (recs : List Rec) (F : List Nat)
    (hn : 6 + 12 * recs.length ≤ 65535) (hfit : ∀ r ∈ recs, RecFits r) :
    nameDecodeWith apple ms (encodeBytes recs F) =
      decodeLoop apple ms (encodeBytes recs F) (6 + 12 * recs.length) recs [] := by
  have hlen := encodeBytes_length recs F
  unfold nameDecodeWith
  have h0 : (encodeBytes recs F).getD 0 0 = 0 := by simp [encodeBytes]
  have h1 : (encodeBytes recs F).getD 1 0 = 0 := by simp [encodeBytes]
  have h2 : (encodeBytes recs F).getD 2 0 = recs.length / 256 % 256 := by simp [encodeBytes, u16]
  have h3 : (encodeBytes recs F).getD 3 0 = recs.length % 256 := by simp [encodeBytes, u16]
  have h4 : (encodeBytes recs F).getD 4 0 = (6 + 12 * recs.length) / 256 % 256 := by simp [encodeBytes, u16]
  have h5 : (encodeBytes recs F).getD 5 0 = (6 + 12 * recs.length) % 256 := by simp [encodeBytes, u16]
  have hd : (encodeBytes recs F).drop 6 = recs.flatMap recBytes ++ F := by simp [encodeBytes, u16]
  have hnr := u16_join recs.length (by omega)
  have hso := u16_join (6 + 12 * recs.length) hn
  simp only [h0, h1, h2, h3, h4, h5, hnr, hso, hd, hlen]
  rw [parseRecs_flatMap recs F hfit]
  clear h0 h1 h2 h3 h4 h5 hnr hso hd hlen hfit
  have z : (0 * 256 + 0 : Nat) = 0 := rfl
  simp only [z]
  have c1 : ¬ (6 + 12 * recs.length + F.length < 6) := by omega
  have c2 : ¬ ((0 : Nat) > 1) := by omega
  have c3 : ¬ (6 + 12 * recs.length > 6 + 12 * recs.length + F.length) := by omega
  have c4 : ¬ ((0 : Nat) > 0) := by omega
  simp only [c1, c2, c3, c4, if_false, false_and, Nat.lt_irrefl, false_or]

/-! ### the record loop -/

def flat : Option (Option Entry) → Option Entry
  | some (some e) => some e
  | _ => none

theorem decodeLoop_ok (apple ms : List (Nat × String)) (data : List Nat) (so : Nat)
    (L : List Rec) (acc : List Entry) (h : ∀ r ∈ L, decodeRec apple ms data so r ≠ none) :
    decodeLoop apple ms data so L acc =
      some ((L.filterMap fun r => flat (decodeRec apple ms data so r)).reverse ++ acc) := by
  induction L generalizing acc with
  | nil => simp [decodeLoop]
  | cons r rest ih =>
    have hr := h r List.mem_cons_self
    have ih' := fun acc => ih acc (fun x hx => h x (List.mem_cons_of_mem _ hx))
    unfold decodeLoop
    cases hd : decodeRec apple ms data so r with
    | none => exact absurd hd hr
    | some o =>
      cases o with
      | none => simp only [ih', List.filterMap_cons, hd, flat]
      | some e =>
        simp only [ih', List.filterMap_cons, hd, flat, List.reverse_cons, List.append_assoc,
          List.singleton_append]

/-- language tables as Go map literals: ids are 16-bit, tags are not empty, keys distinct -/
def tableOK (tbl : List (Nat × String)) : Bool :=
  tbl.all fun p => decide (p.1 < 65536) && !(p.2 == "")

def keysDistinct : List (Nat × String) → Bool
  | [] => true
  | p :: rest => !(rest.any fun q => q.1 == p.1) && keysDistinct rest

theorem langGet_of_mem (tbl : List (Nat × String)) (hk : keysDistinct tbl = true)
    (lang : Nat) (tag : String) (h : (lang, tag) ∈ tbl) : langGet tbl lang = tag := by
  induction tbl with
  | nil => cases h
  | cons p rest ih =>
    obtain ⟨k, v⟩ := p
    simp only [keysDistinct, Bool.and_eq_true, Bool.not_eq_true', List.any_eq_false] at hk
    unfold langGet
    simp only [List.mem_cons, Prod.mk.injEq] at h
    rcases h with ⟨rfl, rfl⟩ | h
    · simp
    · have : k ≠ lang := by
        intro hkl
        have := hk.1 (lang, tag) h
        simp [hkl] at this
      simp only [this, if_false]
      exact ih hk.2 h

theorem tableOK_mem (tbl : List (Nat × String)) (hk : tableOK tbl = true) (lang : Nat) (tag : String)
    (h : (lang, tag) ∈ tbl) : lang < 65536 ∧ tag ≠ "" := by
  have := List.all_eq_true.mp hk (lang, tag) h
  simp only [Bool.and_eq_true, decide_eq_true_eq, Bool.not_eq_true', beq_eq_false_iff_ne] at this
  exact ⟨this.1, this.2⟩

/-- a record that stands for a Mac string is decoded to that string -/
theorem decodeRec_mac (apple ms : List (Nat × String)) (recs : List Rec) (F : List Nat)
    (lang : Nat) (tag : String) (kv : Nat × List Nat) (r : Rec)
    (hk : keysDistinct apple = true) (hok : tableOK apple = true) (hm : (lang, tag) ∈ apple)
    (hsrc : Src 1 0 macEncode F lang kv r)
    (hrep : ∀ c ∈ kv.2, macRepresentable c = true) (hne : kv.2 ≠ []) :
    decodeRec apple ms (encodeBytes recs F) (6 + 12 * recs.length) r =
      some (some ⟨1, tag, kv.1, kv.2⟩) := by
  obtain ⟨h1, h2, h3, h4, h5, h6⟩ := hsrc
  have hl := langGet_of_mem apple hk lang tag hm
  have ht := (tableOK_mem apple hok lang tag hm).2
  unfold decodeRec
  simp only [h1, h3, hl, if_true, ht, if_false, h2, encodeBytes_length, encodeBytes_drop]
  have : ¬ (6 + 12 * recs.length + r.off + r.len > 6 + 12 * recs.length + F.length) := by omega
  simp only [this, if_false]
  have hs : (F.drop r.off).take r.len = macEncode kv.2 := h5
  rw [hs, mac_decode_encode kv.2 hrep]
  simp [hne, h4]

/-- a record that stands for a Windows string is decoded to that string -/
theorem decodeRec_win (apple ms : List (Nat × String)) (recs : List Rec) (F : List Nat)
    (eid lang : Nat) (tag : String) (kv : Nat × List Nat) (r : Rec) (heid : eid = 1 ∨ eid = 10)
    (hk : keysDistinct ms = true) (hok : tableOK ms = true) (hm : (lang, tag) ∈ ms)
    (hsrc : Src 3 eid utf16Encode F lang kv r)
    (hsc : ∀ c ∈ kv.2, isScalar c = true) (hne : kv.2 ≠ []) :
    decodeRec apple ms (encodeBytes recs F) (6 + 12 * recs.length) r =
      some (some ⟨3, tag, kv.1, kv.2⟩) := by
  obtain ⟨h1, h2, h3, h4, h5, h6⟩ := hsrc
  have hl := langGet_of_mem ms hk lang tag hm
  have ht := (tableOK_mem ms hok lang tag hm).2
  unfold decodeRec
  simp only [h1, h3, hl, if_true, ht, if_false, h2, encodeBytes_length, encodeBytes_drop,
    show (3 : Nat) ≠ 1 by omega]
  have : ¬ (6 + 12 * recs.length + r.off + r.len > 6 + 12 * recs.length + F.length) := by omega
  simp only [this, if_false]
  have hs : (F.drop r.off).take r.len = utf16Encode kv.2 := h5
  rw [hs]
  simp only [heid, and_self, if_true, utf16_roundtrip kv.2 hsc]
  simp [hne, h4]

/-! ### the view after decoding -/

theorem getVal_of_all (l : List Entry) (p : Nat) (t : String) (i : Nat) (v : List Nat)
    (hs : ∀ x ∈ l, x.plat = p → x.tag = t → x.id = i → x.val = v)
    (hc : v ≠ [] → ∃ x ∈ l, x.plat = p ∧ x.tag = t ∧ x.id = i) :
    getVal l p t i = v := by
  induction l with
  | nil =>
    simp only [getVal]
    by_cases hv : v = []
    · exact hv.symm
    · obtain ⟨x, hx, _⟩ := hc hv; cases hx
  | cons e rest ih =>
    unfold getVal
    split
    · next hm => exact hs e List.mem_cons_self hm.1 hm.2.1 hm.2.2
    · next hm =>
      apply ih (fun x hx => hs x (List.mem_cons_of_mem _ hx))
      intro hv
      obtain ⟨x, hx, hx1, hx2, hx3⟩ := hc hv
      simp only [List.mem_cons] at hx
      rcases hx with rfl | hx
      · exact absurd ⟨hx1, hx2, hx3⟩ hm
      · exact ⟨x, hx, hx1, hx2, hx3⟩

/-- distinct keys (a Go map of Go maps): the view is a function of the key -/
def keysNodup (info : List Entry) : Prop :=
  info.Pairwise fun a b => ¬ (a.plat = b.plat ∧ a.tag = b.tag ∧ a.id = b.id)

theorem getVal_of_mem (info : List Entry) (hn : keysNodup info) (e : Entry) (he : e ∈ info) :
    getVal info e.plat e.tag e.id = e.val := by
  induction info with
  | nil => cases he
  | cons x rest ih =>
    unfold keysNodup at hn
    rw [List.pairwise_cons] at hn
    unfold getVal
    simp only [List.mem_cons] at he
    rcases he with rfl | he
    · simp
    · have := hn.1 e he
      simp only [this, if_false]
      exact ih hn.2 he

theorem getVal_ne_nil_mem (info : List Entry) (p : Nat) (t : String) (i : Nat)
    (h : getVal info p t i ≠ []) :
    ∃ e ∈ info, e.plat = p ∧ e.tag = t ∧ e.id = i ∧ e.val = getVal info p t i := by
  induction info with
  | nil => simp [getVal] at h
  | cons x rest ih =>
    unfold getVal at h ⊢
    split
    · next hm => exact ⟨x, List.mem_cons_self, hm.1, hm.2.1, hm.2.2, rfl⟩
    · next hm =>
      simp only [hm, if_false] at h
      obtain ⟨e, he, h'⟩ := ih h
      exact ⟨e, List.mem_cons_of_mem _ he, h'⟩

/-! ### the round trip -/

/-- The domain of the name-table round trip.  `apple`/`ms` are the language tables (Go map
literals), `macOrder`/`winOrder` the orders in which `Encode` happens to iterate over them. -/
structure NameDom (apple ms macOrder winOrder : List (Nat × String)) (info : List Entry)
    (winEid : Nat) : Prop where
  apple_ok : tableOK apple = true ∧ keysDistinct apple = true
  ms_ok : tableOK ms = true ∧ keysDistinct ms = true
  mac_order : ∀ lt, lt ∈ macOrder ↔ lt ∈ apple
  win_order : ∀ lt, lt ∈ winOrder ↔ lt ∈ ms
  keys : keysNodup info
  plat : ∀ e ∈ info, e.plat = 1 ∨ e.plat = 3
  mac : ∀ e ∈ info, e.plat = 1 → (∃ lang, (lang, e.tag) ∈ apple) ∧ ∀ c ∈ e.val, macRepresentable c = true
  win : ∀ e ∈ info, e.plat = 3 → (∃ lang, (lang, e.tag) ∈ ms) ∧ ∀ c ∈ e.val, isScalar c = true
  ids : ∀ e ∈ info, e.id < 65536
  eid : winEid = 1 ∨ winEid = 10
  fits_records : 6 + 12 * (nameBuild macOrder winOrder info winEid).2.length ≤ 65535
  fits_storage : (nameBuild macOrder winOrder info winEid).1.data.length ≤ 65535

theorem nameEncodeWith_eq (macOrder winOrder : List (Nat × String)) (info : List Entry) (winEid : Nat) :
    nameEncodeWith macOrder winOrder info winEid =
      encodeBytes ((nameBuild macOrder winOrder info winEid).2.mergeSort recLe)
        (nameBuild macOrder winOrder info winEid).1.data := rfl

theorem name_roundtrip_with (apple ms macOrder winOrder : List (Nat × String)) (info : List Entry)
    (winEid : Nat) (h : NameDom apple ms macOrder winOrder info winEid) :
    ∃ dec, nameDecodeWith apple ms (nameEncodeWith macOrder winOrder info winEid) = some dec ∧
      ∀ p t i, getVal dec p t i = getVal info p t i := by
  rw [nameEncodeWith_eq]
  have hfr := h.fits_records
  have hfs := h.fits_storage
  -- name the pieces
  generalize hrs : (nameBuild macOrder winOrder info winEid).2 = rs at hfr ⊢
  generalize hFd : (nameBuild macOrder winOrder info winEid).1.data = F at hfs ⊢
  have hid : ∀ pid tag, ∀ kv ∈ tableView info pid tag, kv.1 < 65536 := by
    intro pid tag kv hkv
    obtain ⟨e, he, _, _, _, rfl⟩ := (mem_tableView info pid tag kv).mp hkv
    exact h.ids e he
  -- the two passes of the encoder
  have hb1 := addLangs_spec 1 0 macEncode info macOrder ⟨[], []⟩ BInv_empty
  have hb2 := addLangs_spec 3 winEid utf16Encode info winOrder
    (addLangs 1 0 macEncode info macOrder ⟨[], []⟩).1
  obtain ⟨ext, hext⟩ := addLangs_extends 3 winEid utf16Encode info winOrder
    (addLangs 1 0 macEncode info macOrder ⟨[], []⟩).1
  have hF2 : (addLangs 3 winEid utf16Encode info winOrder
      (addLangs 1 0 macEncode info macOrder ⟨[], []⟩).1).1.data = F := by
    rw [← hFd]; rfl
  have hrs' : rs = (addLangs 1 0 macEncode info macOrder ⟨[], []⟩).2 ++
      (addLangs 3 winEid utf16Encode info winOrder
        (addLangs 1 0 macEncode info macOrder ⟨[], []⟩).1).2 := by
    rw [← hrs]; rfl
  rw [hF2] at hext hb2
  have hF1 : (addLangs 1 0 macEncode info macOrder ⟨[], []⟩).1.data.length ≤ 65535 := by
    have := congrArg List.length hext
    rw [List.length_append] at this; omega
  obtain ⟨hbi1, hS1, hC1⟩ := hb1 hF1 (hid 1)
  obtain ⟨_, hS2, hC2⟩ := hb2 hbi1 hfs (hid 3)
  -- every record decodes to an entry of the Info
  have hsound : ∀ r ∈ rs, RecFits r ∧ ∃ e ∈ info, e.val ≠ [] ∧
      decodeRec apple ms (encodeBytes (rs.mergeSort recLe) F) (6 + 12 * (rs.mergeSort recLe).length) r
        = some (some ⟨e.plat, e.tag, e.id, e.val⟩) := by
    intro r hr
    rw [hrs', List.mem_append] at hr
    rcases hr with hr | hr
    · obtain ⟨lt, hlt, kv, hkv, hsrc⟩ := hS1 r hr
      have hsrc' : Src 1 0 macEncode F lt.1 kv r := by rw [hext]; exact Src_mono ext hsrc
      obtain ⟨e, he, hp, ht, hne, rfl⟩ := (mem_tableView info 1 lt.2 kv).mp hkv
      have hm : (lt.1, lt.2) ∈ apple := (h.mac_order lt).mp hlt
      have hlang := (tableOK_mem apple h.apple_ok.1 lt.1 lt.2 hm).1
      obtain ⟨s1, s2, s3, s4, s5, s6⟩ := hsrc'
      refine ⟨⟨by omega, by omega, by omega, by rw [s4]; exact h.ids e he, by omega, by omega⟩,
        e, he, hne, ?_⟩
      have := decodeRec_mac apple ms (rs.mergeSort recLe) F lt.1 lt.2 (e.id, e.val) r
        h.apple_ok.2 h.apple_ok.1 hm ⟨s1, s2, s3, s4, s5, s6⟩ (h.mac e he hp).2 hne
      rw [this, hp, ht]
    · obtain ⟨lt, hlt, kv, hkv, hsrc'⟩ := hS2 r hr
      obtain ⟨e, he, hp, ht, hne, rfl⟩ := (mem_tableView info 3 lt.2 kv).mp hkv
      have hm : (lt.1, lt.2) ∈ ms := (h.win_order lt).mp hlt
      have hlang := (tableOK_mem ms h.ms_ok.1 lt.1 lt.2 hm).1
      obtain ⟨s1, s2, s3, s4, s5, s6⟩ := hsrc'
      have he' := h.eid
      refine ⟨⟨by omega, by omega, by omega, by rw [s4]; exact h.ids e he, by omega, by omega⟩,
        e, he, hne, ?_⟩
      have := decodeRec_win apple ms (rs.mergeSort recLe) F winEid lt.1 lt.2 (e.id, e.val) r h.eid
        h.ms_ok.2 h.ms_ok.1 hm ⟨s1, s2, s3, s4, s5, s6⟩ (h.win e he hp).2 hne
      rw [this, hp, ht]
  -- every non-empty entry of the Info has a record
  have hcomplete : ∀ e ∈ info, e.val ≠ [] → ∃ r ∈ rs,
      decodeRec apple ms (encodeBytes (rs.mergeSort recLe) F) (6 + 12 * (rs.mergeSort recLe).length) r
        = some (some ⟨e.plat, e.tag, e.id, e.val⟩) := by
    intro e he hne
    rcases h.plat e he with hp | hp
    · obtain ⟨⟨lang, hm⟩, hrep⟩ := h.mac e he hp
      have hlt : (lang, e.tag) ∈ macOrder := (h.mac_order _).mpr hm
      have hkv : (e.id, e.val) ∈ tableView info 1 e.tag :=
        (mem_tableView info 1 e.tag _).mpr ⟨e, he, hp, rfl, hne, rfl⟩
      obtain ⟨r, hr, hsrc⟩ := hC1 (lang, e.tag) hlt (e.id, e.val) hkv
      have hsrc' : Src 1 0 macEncode F lang (e.id, e.val) r := by rw [hext]; exact Src_mono ext hsrc
      refine ⟨r, by rw [hrs']; exact List.mem_append_left _ hr, ?_⟩
      have := decodeRec_mac apple ms (rs.mergeSort recLe) F lang e.tag (e.id, e.val) r
        h.apple_ok.2 h.apple_ok.1 hm hsrc' hrep hne
      rw [this, hp]
    · obtain ⟨⟨lang, hm⟩, hsc⟩ := h.win e he hp
      have hlt : (lang, e.tag) ∈ winOrder := (h.win_order _).mpr hm
      have hkv : (e.id, e.val) ∈ tableView info 3 e.tag :=
        (mem_tableView info 3 e.tag _).mpr ⟨e, he, hp, rfl, hne, rfl⟩
      obtain ⟨r, hr, hsrc'⟩ := hC2 (lang, e.tag) hlt (e.id, e.val) hkv
      refine ⟨r, by rw [hrs']; exact List.mem_append_right _ hr, ?_⟩
      have := decodeRec_win apple ms (rs.mergeSort recLe) F winEid lang e.tag (e.id, e.val) r h.eid
        h.ms_ok.2 h.ms_ok.1 hm hsrc' hsc hne
      rw [this, hp]
  -- the decoder on the encoder's bytes
  have hlen : (rs.mergeSort recLe).length = rs.length := List.length_mergeSort rs
  have hmem : ∀ r, r ∈ rs.mergeSort recLe ↔ r ∈ rs := fun r => List.mem_mergeSort
  rw [decode_encodeBytes apple ms (rs.mergeSort recLe) F (by rw [hlen]; exact hfr)
    (fun r hr => (hsound r ((hmem r).mp hr)).1)]
  rw [decodeLoop_ok _ _ _ _ _ _ (fun r hr => by
    obtain ⟨_, e, _, _, hd⟩ := hsound r ((hmem r).mp hr)
    rw [hd]; simp)]
  refine ⟨_, rfl, ?_⟩
  intro p t i
  apply getVal_of_all
  · intro x hx hp ht hi
    simp only [List.append_nil, List.mem_reverse, List.mem_filterMap] at hx
    obtain ⟨r, hr, hfx⟩ := hx
    obtain ⟨_, e, he, _, hd⟩ := hsound r ((hmem r).mp hr)
    rw [hd] at hfx
    simp only [flat, Option.some.injEq] at hfx
    subst hfx
    simp only at hp ht hi ⊢
    rw [← hp, ← ht, ← hi]
    exact (getVal_of_mem info h.keys e he).symm
  · intro hv
    obtain ⟨e, he, hp, ht, hi, hval⟩ := getVal_ne_nil_mem info p t i hv
    obtain ⟨r, hr, hd⟩ := hcomplete e he (by rw [hval]; exact hv)
    refine ⟨⟨e.plat, e.tag, e.id, e.val⟩, ?_, hp, ht, hi⟩
    simp only [List.append_nil, List.mem_reverse, List.mem_filterMap]
    exact ⟨r, (hmem r).mpr hr, by rw [hd]; rfl⟩

theorem mem_insertLang (e x : Nat × String) (l : List (Nat × String)) :
    x ∈ insertLang e l ↔ x = e ∨ x ∈ l := by
  induction l with
  | nil => simp [insertLang]
  | cons y rest ih =>
    unfold insertLang
    split
    · simp
    · simp only [List.mem_cons, ih]
      constructor
      · rintro (h | h | h)
        · exact Or.inr (Or.inl h)
        · exact Or.inl h
        · exact Or.inr (Or.inr h)
      · rintro (h | h | h)
        · exact Or.inr (Or.inl h)
        · exact Or.inl h
        · exact Or.inr (Or.inr h)

theorem mem_sortLangs (x : Nat × String) (l : List (Nat × String)) : x ∈ sortLangs l ↔ x ∈ l := by
  unfold sortLangs
  induction l with
  | nil => simp
  | cons y rest ih => simp only [List.foldr_cons, mem_insertLang, ih, List.mem_cons]

/-! ### the same under the exact capacity guard of the repaired encoder

`NameDom` bounds the whole storage by 65535 bytes; the repaired `Encode` refuses later: only when
a NEW string would start beyond offset 65535 or is longer than 65535 bytes (`nameFits`).  The
round trip holds under exactly that guard. -/

def BInv2 (b : Builder) : Prop :=
  ∀ s i, idxGet b.idx s = some i →
    sliceL b.data i s.length = s ∧ i + s.length ≤ b.data.length ∧ i ≤ 65535 ∧ s.length ≤ 65535

theorem BInv2_empty : BInv2 ⟨[], []⟩ := by
  intro s i h; simp [idxGet] at h

theorem add_spec2 (b : Builder) (s : List Nat) (hb : BInv2 b) (hok : b.addOk s = true) :
    BInv2 (b.add s).1 ∧ (b.add s).2.2 = s.length ∧
      sliceL (b.add s).1.data (b.add s).2.1 (b.add s).2.2 = s ∧
      (b.add s).2.1 + (b.add s).2.2 ≤ (b.add s).1.data.length ∧
      (b.add s).2.1 ≤ 65535 ∧ (b.add s).2.2 ≤ 65535 := by
  unfold Builder.addOk at hok
  unfold Builder.add
  split
  · next i hi =>
    obtain ⟨h1, h2, h3, h4⟩ := hb s i hi
    have hl : s.length % 65536 = s.length := Nat.mod_eq_of_lt (by omega)
    simp only [hl]
    exact ⟨hb, trivial, h1, h2, h3, h4⟩
  · next hi =>
    simp only [hi, Bool.and_eq_true, decide_eq_true_eq] at hok
    have h1 : b.data.length % 65536 = b.data.length := Nat.mod_eq_of_lt (by omega)
    have h2 : s.length % 65536 = s.length := Nat.mod_eq_of_lt (by omega)
    simp only [h1, h2]
    refine ⟨?_, trivial, sliceL_at_end _ _, by simp, hok.1, hok.2⟩
    intro s' i' h'
    simp only [idxGet] at h'
    split at h'
    · next heq =>
      cases h'; subst heq
      exact ⟨sliceL_at_end _ _, by simp, hok.1, hok.2⟩
    · obtain ⟨g1, g2, g3, g4⟩ := hb s' i' h'
      refine ⟨?_, by simp only [List.length_append]; omega, g3, g4⟩
      rw [sliceL_append_left _ _ _ _ g2]; exact g1

def Src2 (pid eid : Nat) (enc : List Nat → List Nat) (F : List Nat) (lang : Nat)
    (kv : Nat × List Nat) (r : Rec) : Prop :=
  Src pid eid enc F lang kv r ∧ r.off ≤ 65535 ∧ r.len ≤ 65535

theorem Src2_mono {pid eid enc F lang kv r} (ext : List Nat) (h : Src2 pid eid enc F lang kv r) :
    Src2 pid eid enc (F ++ ext) lang kv r := ⟨Src_mono ext h.1, h.2⟩

theorem addTable_spec2 (pid eid lang : Nat) (enc : List Nat → List Nat)
    (view : List (Nat × List Nat)) (b : Builder) (hb : BInv2 b)
    (hok : addTableOk enc view b = true) (hid : ∀ kv ∈ view, kv.1 < 65536) :
    BInv2 (addTable pid eid lang enc view b).1 ∧
    (∀ r ∈ (addTable pid eid lang enc view b).2, ∃ kv ∈ view,
        Src2 pid eid enc (addTable pid eid lang enc view b).1.data lang kv r) ∧
    (∀ kv ∈ view, ∃ r ∈ (addTable pid eid lang enc view b).2,
        Src2 pid eid enc (addTable pid eid lang enc view b).1.data lang kv r) := by
  induction view generalizing b with
  | nil => simp [addTable, hb]
  | cons kv rest ih =>
    obtain ⟨nid, val⟩ := kv
    simp only [addTableOk, Bool.and_eq_true] at hok
    simp only [addTable]
    obtain ⟨e2, h2⟩ := addTable_extends pid eid lang enc rest (b.add (enc val)).1
    obtain ⟨hb1, hl, hs, hle, ho, hn⟩ := add_spec2 b (enc val) hb hok.1
    obtain ⟨hb2, hS, hC⟩ := ih (b.add (enc val)).1 hb1 hok.2
      (fun kv hkv => hid kv (List.mem_cons_of_mem _ hkv))
    have hnid : nid % 65536 = nid := Nat.mod_eq_of_lt (hid (nid, val) List.mem_cons_self)
    have hhead : Src2 pid eid enc (addTable pid eid lang enc rest (b.add (enc val)).1).1.data lang
        (nid, val) ⟨pid, eid, lang, nid % 65536, (b.add (enc val)).2.1, (b.add (enc val)).2.2⟩ := by
      rw [h2]
      exact Src2_mono e2 ⟨⟨rfl, rfl, rfl, hnid, hs, hle⟩, ho, hn⟩
    refine ⟨hb2, ?_, ?_⟩
    · intro r hr
      simp only [List.mem_cons] at hr
      rcases hr with rfl | hr
      · exact ⟨(nid, val), List.mem_cons_self, hhead⟩
      · obtain ⟨kv, hkv, hsrc⟩ := hS r hr
        exact ⟨kv, List.mem_cons_of_mem _ hkv, hsrc⟩
    · intro kv hkv
      simp only [List.mem_cons] at hkv
      rcases hkv with rfl | hkv
      · exact ⟨_, List.mem_cons_self, hhead⟩
      · obtain ⟨r, hr, hsrc⟩ := hC kv hkv
        exact ⟨r, List.mem_cons_of_mem _ hr, hsrc⟩

theorem addLangs_spec2 (pid eid : Nat) (enc : List Nat → List Nat) (info : List Entry)
    (order : List (Nat × String)) (b : Builder) (hb : BInv2 b)
    (hok : addLangsOk pid eid enc info order b = true)
    (hid : ∀ tag, ∀ kv ∈ tableView info pid tag, kv.1 < 65536) :
    BInv2 (addLangs pid eid enc info order b).1 ∧
    (∀ r ∈ (addLangs pid eid enc info order b).2, ∃ lt ∈ order, ∃ kv ∈ tableView info pid lt.2,
        Src2 pid eid enc (addLangs pid eid enc info order b).1.data lt.1 kv r) ∧
    (∀ lt ∈ order, ∀ kv ∈ tableView info pid lt.2, ∃ r ∈ (addLangs pid eid enc info order b).2,
        Src2 pid eid enc (addLangs pid eid enc info order b).1.data lt.1 kv r) := by
  induction order generalizing b with
  | nil => simp [addLangs, hb]
  | cons lt rest ih =>
    obtain ⟨lang, tag⟩ := lt
    simp only [addLangsOk, Bool.and_eq_true] at hok
    simp only [addLangs]
    obtain ⟨e2, h2⟩ := addLangs_extends pid eid enc info rest
      (addTable pid eid lang enc (tableView info pid tag) b).1
    obtain ⟨hb1, hS1, hC1⟩ := addTable_spec2 pid eid lang enc (tableView info pid tag) b hb hok.1 (hid tag)
    obtain ⟨hb2, hS2, hC2⟩ := ih (addTable pid eid lang enc (tableView info pid tag) b).1 hb1 hok.2
    refine ⟨hb2, ?_, ?_⟩
    · intro r hr
      simp only [List.mem_append] at hr
      rcases hr with hr | hr
      · obtain ⟨kv, hkv, hsrc⟩ := hS1 r hr
        refine ⟨(lang, tag), List.mem_cons_self, kv, hkv, ?_⟩
        rw [h2]; exact Src2_mono e2 hsrc
      · obtain ⟨lt, hlt, kv, hkv, hsrc⟩ := hS2 r hr
        exact ⟨lt, List.mem_cons_of_mem _ hlt, kv, hkv, hsrc⟩
    · intro lt hlt kv hkv
      simp only [List.mem_cons] at hlt
      rcases hlt with rfl | hlt
      · obtain ⟨r, hr, hsrc⟩ := hC1 kv hkv
        refine ⟨r, List.mem_append_left _ hr, ?_⟩
        rw [h2]; exact Src2_mono e2 hsrc
      · obtain ⟨r, hr, hsrc⟩ := hC2 lt hlt kv hkv
        exact ⟨r, List.mem_append_right _ hr, hsrc⟩

/-- `NameDom` with the two capacity bounds replaced by the exact guard of the repaired encoder -/
structure NameDomC (apple ms macOrder winOrder : List (Nat × String)) (info : List Entry)
    (winEid : Nat) : Prop where
  apple_ok : tableOK apple = true ∧ keysDistinct apple = true
  ms_ok : tableOK ms = true ∧ keysDistinct ms = true
  mac_order : ∀ lt, lt ∈ macOrder ↔ lt ∈ apple
  win_order : ∀ lt, lt ∈ winOrder ↔ lt ∈ ms
  keys : keysNodup info
  plat : ∀ e ∈ info, e.plat = 1 ∨ e.plat = 3
  mac : ∀ e ∈ info, e.plat = 1 → (∃ lang, (lang, e.tag) ∈ apple) ∧ ∀ c ∈ e.val, macRepresentable c = true
  win : ∀ e ∈ info, e.plat = 3 → (∃ lang, (lang, e.tag) ∈ ms) ∧ ∀ c ∈ e.val, isScalar c = true
  ids : ∀ e ∈ info, e.id < 65536
  eid : winEid = 1 ∨ winEid = 10
  fits : nameFits macOrder winOrder info winEid = true

theorem name_roundtrip_fits (apple ms macOrder winOrder : List (Nat × String)) (info : List Entry)
    (winEid : Nat) (h : NameDomC apple ms macOrder winOrder info winEid) :
    ∃ dec, nameDecodeWith apple ms (nameEncodeWith macOrder winOrder info winEid) = some dec ∧
      ∀ p t i, getVal dec p t i = getVal info p t i := by
  rw [nameEncodeWith_eq]
  have hfits := h.fits
  simp only [nameFits, nameBuildOk, Bool.and_eq_true, decide_eq_true_eq] at hfits
  obtain ⟨⟨hok1, hok2⟩, hfr⟩ := hfits
  -- name the pieces
  generalize hrs : (nameBuild macOrder winOrder info winEid).2 = rs at hfr ⊢
  generalize hFd : (nameBuild macOrder winOrder info winEid).1.data = F
  have hid : ∀ pid tag, ∀ kv ∈ tableView info pid tag, kv.1 < 65536 := by
    intro pid tag kv hkv
    obtain ⟨e, he, _, _, _, rfl⟩ := (mem_tableView info pid tag kv).mp hkv
    exact h.ids e he
  -- the two passes of the encoder
  obtain ⟨hbi1, hS1', hC1'⟩ := addLangs_spec2 1 0 macEncode info macOrder ⟨[], []⟩ BInv2_empty hok1 (hid 1)
  obtain ⟨_, hS2', hC2'⟩ := addLangs_spec2 3 winEid utf16Encode info winOrder
    (addLangs 1 0 macEncode info macOrder ⟨[], []⟩).1 hbi1 hok2 (hid 3)
  obtain ⟨ext, hext⟩ := addLangs_extends 3 winEid utf16Encode info winOrder
    (addLangs 1 0 macEncode info macOrder ⟨[], []⟩).1
  have hF2 : (addLangs 3 winEid utf16Encode info winOrder
      (addLangs 1 0 macEncode info macOrder ⟨[], []⟩).1).1.data = F := by
    rw [← hFd]; rfl
  have hrs' : rs = (addLangs 1 0 macEncode info macOrder ⟨[], []⟩).2 ++
      (addLangs 3 winEid utf16Encode info winOrder
        (addLangs 1 0 macEncode info macOrder ⟨[], []⟩).1).2 := by
    rw [← hrs]; rfl
  rw [hF2] at hext hS2' hC2'
  have hS1 : ∀ r ∈ (addLangs 1 0 macEncode info macOrder ⟨[], []⟩).2, ∃ lt ∈ macOrder,
      ∃ kv ∈ tableView info 1 lt.2,
        Src 1 0 macEncode (addLangs 1 0 macEncode info macOrder ⟨[], []⟩).1.data lt.1 kv r := by
    intro r hr
    obtain ⟨lt, hlt, kv, hkv, hx⟩ := hS1' r hr
    exact ⟨lt, hlt, kv, hkv, hx.1⟩
  have hC1 : ∀ lt ∈ macOrder, ∀ kv ∈ tableView info 1 lt.2,
      ∃ r ∈ (addLangs 1 0 macEncode info macOrder ⟨[], []⟩).2,
        Src 1 0 macEncode (addLangs 1 0 macEncode info macOrder ⟨[], []⟩).1.data lt.1 kv r := by
    intro lt hlt kv hkv
    obtain ⟨r, hr, hx⟩ := hC1' lt hlt kv hkv
    exact ⟨r, hr, hx.1⟩
  have hS2 : ∀ r ∈ (addLangs 3 winEid utf16Encode info winOrder
      (addLangs 1 0 macEncode info macOrder ⟨[], []⟩).1).2, ∃ lt ∈ winOrder,
      ∃ kv ∈ tableView info 3 lt.2, Src 3 winEid utf16Encode F lt.1 kv r := by
    intro r hr
    obtain ⟨lt, hlt, kv, hkv, hx⟩ := hS2' r hr
    exact ⟨lt, hlt, kv, hkv, hx.1⟩
  have hC2 : ∀ lt ∈ winOrder, ∀ kv ∈ tableView info 3 lt.2,
      ∃ r ∈ (addLangs 3 winEid utf16Encode info winOrder
        (addLangs 1 0 macEncode info macOrder ⟨[], []⟩).1).2,
        Src 3 winEid utf16Encode F lt.1 kv r := by
    intro lt hlt kv hkv
    obtain ⟨r, hr, hx⟩ := hC2' lt hlt kv hkv
    exact ⟨r, hr, hx.1⟩
  have hbound : ∀ r ∈ rs, r.off ≤ 65535 ∧ r.len ≤ 65535 := by
    intro r hr
    rw [hrs', List.mem_append] at hr
    rcases hr with hr | hr
    · obtain ⟨_, _, _, _, hx⟩ := hS1' r hr; exact hx.2
    · obtain ⟨_, _, _, _, hx⟩ := hS2' r hr; exact hx.2
  -- every record decodes to an entry of the Info
  have hsound : ∀ r ∈ rs, RecFits r ∧ ∃ e ∈ info, e.val ≠ [] ∧
      decodeRec apple ms (encodeBytes (rs.mergeSort recLe) F) (6 + 12 * (rs.mergeSort recLe).length) r
        = some (some ⟨e.plat, e.tag, e.id, e.val⟩) := by
    intro r hr
    have hbd := hbound r hr
    rw [hrs', List.mem_append] at hr
    rcases hr with hr | hr
    · obtain ⟨lt, hlt, kv, hkv, hsrc⟩ := hS1 r hr
      have hsrc' : Src 1 0 macEncode F lt.1 kv r := by rw [hext]; exact Src_mono ext hsrc
      obtain ⟨e, he, hp, ht, hne, rfl⟩ := (mem_tableView info 1 lt.2 kv).mp hkv
      have hm : (lt.1, lt.2) ∈ apple := (h.mac_order lt).mp hlt
      have hlang := (tableOK_mem apple h.apple_ok.1 lt.1 lt.2 hm).1
      obtain ⟨s1, s2, s3, s4, s5, s6⟩ := hsrc'
      refine ⟨⟨by omega, by omega, by omega, by rw [s4]; exact h.ids e he, by omega, by omega⟩,
        e, he, hne, ?_⟩
      have := decodeRec_mac apple ms (rs.mergeSort recLe) F lt.1 lt.2 (e.id, e.val) r
        h.apple_ok.2 h.apple_ok.1 hm ⟨s1, s2, s3, s4, s5, s6⟩ (h.mac e he hp).2 hne
      rw [this, hp, ht]
    · obtain ⟨lt, hlt, kv, hkv, hsrc'⟩ := hS2 r hr
      obtain ⟨e, he, hp, ht, hne, rfl⟩ := (mem_tableView info 3 lt.2 kv).mp hkv
      have hm : (lt.1, lt.2) ∈ ms := (h.win_order lt).mp hlt
      have hlang := (tableOK_mem ms h.ms_ok.1 lt.1 lt.2 hm).1
      obtain ⟨s1, s2, s3, s4, s5, s6⟩ := hsrc'
      have he' := h.eid
      refine ⟨⟨by omega, by omega, by omega, by rw [s4]; exact h.ids e he, by omega, by omega⟩,
        e, he, hne, ?_⟩
      have := decodeRec_win apple ms (rs.mergeSort recLe) F winEid lt.1 lt.2 (e.id, e.val) r h.eid
        h.ms_ok.2 h.ms_ok.1 hm ⟨s1, s2, s3, s4, s5, s6⟩ (h.win e he hp).2 hne
      rw [this, hp, ht]
  -- every non-empty entry of the Info has a record
  have hcomplete : ∀ e ∈ info, e.val ≠ [] → ∃ r ∈ rs,
      decodeRec apple ms (encodeBytes (rs.mergeSort recLe) F) (6 + 12 * (rs.mergeSort recLe).length) r
        = some (some ⟨e.plat, e.tag, e.id, e.val⟩) := by
    intro e he hne
    rcases h.plat e he with hp | hp
    · obtain ⟨⟨lang, hm⟩, hrep⟩ := h.mac e he hp
      have hlt : (lang, e.tag) ∈ macOrder := (h.mac_order _).mpr hm
      have hkv : (e.id, e.val) ∈ tableView info 1 e.tag :=
        (mem_tableView info 1 e.tag _).mpr ⟨e, he, hp, rfl, hne, rfl⟩
      obtain ⟨r, hr, hsrc⟩ := hC1 (lang, e.tag) hlt (e.id, e.val) hkv
      have hsrc' : Src 1 0 macEncode F lang (e.id, e.val) r := by rw [hext]; exact Src_mono ext hsrc
      refine ⟨r, by rw [hrs']; exact List.mem_append_left _ hr, ?_⟩
      have := decodeRec_mac apple ms (rs.mergeSort recLe) F lang e.tag (e.id, e.val) r
        h.apple_ok.2 h.apple_ok.1 hm hsrc' hrep hne
      rw [this, hp]
    · obtain ⟨⟨lang, hm⟩, hsc⟩ := h.win e he hp
      have hlt : (lang, e.tag) ∈ winOrder := (h.win_order _).mpr hm
      have hkv : (e.id, e.val) ∈ tableView info 3 e.tag :=
        (mem_tableView info 3 e.tag _).mpr ⟨e, he, hp, rfl, hne, rfl⟩
      obtain ⟨r, hr, hsrc'⟩ := hC2 (lang, e.tag) hlt (e.id, e.val) hkv
      refine ⟨r, by rw [hrs']; exact List.mem_append_right _ hr, ?_⟩
      have := decodeRec_win apple ms (rs.mergeSort recLe) F winEid lang e.tag (e.id, e.val) r h.eid
        h.ms_ok.2 h.ms_ok.1 hm hsrc' hsc hne
      rw [this, hp]
  -- the decoder on the encoder's bytes
  have hlen : (rs.mergeSort recLe).length = rs.length := List.length_mergeSort rs
  have hmem : ∀ r, r ∈ rs.mergeSort recLe ↔ r ∈ rs := fun r => List.mem_mergeSort
  rw [decode_encodeBytes apple ms (rs.mergeSort recLe) F (by rw [hlen]; exact hfr)
    (fun r hr => (hsound r ((hmem r).mp hr)).1)]
  rw [decodeLoop_ok _ _ _ _ _ _ (fun r hr => by
    obtain ⟨_, e, _, _, hd⟩ := hsound r ((hmem r).mp hr)
    rw [hd]; simp)]
  refine ⟨_, rfl, ?_⟩
  intro p t i
  apply getVal_of_all
  · intro x hx hp ht hi
    simp only [List.append_nil, List.mem_reverse, List.mem_filterMap] at hx
    obtain ⟨r, hr, hfx⟩ := hx
    obtain ⟨_, e, he, _, hd⟩ := hsound r ((hmem r).mp hr)
    rw [hd] at hfx
    simp only [flat, Option.some.injEq] at hfx
    subst hfx
    simp only at hp ht hi ⊢
    rw [← hp, ← ht, ← hi]
    exact (getVal_of_mem info h.keys e he).symm
  · intro hv
    obtain ⟨e, he, hp, ht, hi, hval⟩ := getVal_ne_nil_mem info p t i hv
    obtain ⟨r, hr, hd⟩ := hcomplete e he (by rw [hval]; exact hv)
    refine ⟨⟨e.plat, e.tag, e.id, e.val⟩, ?_, hp, ht, hi⟩
    simp only [List.append_nil, List.mem_reverse, List.mem_filterMap]
    exact ⟨r, (hmem r).mpr hr, by rw [hd]; rfl⟩

/-- the domain of the name-table round trip WITHOUT any capacity bound -/
structure NameDomBase (apple ms macOrder winOrder : List (Nat × String)) (info : List Entry)
    (winEid : Nat) : Prop where
  apple_ok : tableOK apple = true ∧ keysDistinct apple = true
  ms_ok : tableOK ms = true ∧ keysDistinct ms = true
  mac_order : ∀ lt, lt ∈ macOrder ↔ lt ∈ apple
  win_order : ∀ lt, lt ∈ winOrder ↔ lt ∈ ms
  keys : keysNodup info
  plat : ∀ e ∈ info, e.plat = 1 ∨ e.plat = 3
  mac : ∀ e ∈ info, e.plat = 1 → (∃ lang, (lang, e.tag) ∈ apple) ∧ ∀ c ∈ e.val, macRepresentable c = true
  win : ∀ e ∈ info, e.plat = 3 → (∃ lang, (lang, e.tag) ∈ ms) ∧ ∀ c ∈ e.val, isScalar c = true
  ids : ∀ e ∈ info, e.id < 65536
  eid : winEid = 1 ∨ winEid = 10

/-- the checked encoder returns bytes exactly when the table fits, and then they are the bytes of
`nameEncodeWith` -/
theorem nameEncodeChecked_ok_iff (macOrder winOrder : List (Nat × String)) (info : List Entry)
    (winEid : Nat) (b : List Nat) :
    nameEncodeCheckedWith macOrder winOrder info winEid = .ok b ↔
      nameFits macOrder winOrder info winEid = true ∧ b = nameEncodeWith macOrder winOrder info winEid := by
  unfold nameEncodeCheckedWith
  cases hf : nameFits macOrder winOrder info winEid with
  | true =>
    simp only [if_true, Outcome.ok.injEq, true_and]
    exact eq_comm
  | false =>
    simp only [Bool.false_eq_true, if_false, false_and]
    constructor
    · intro h; cases h
    · intro h; exact h.elim

/-- **no silent loss**: for every Info of the domain — whatever its size — the encoder either
refuses loudly or writes a table from which `Decode` returns exactly the stored strings -/
theorem name_checked_roundtrip (apple ms macOrder winOrder : List (Nat × String)) (info : List Entry)
    (winEid : Nat) (h : NameDomBase apple ms macOrder winOrder info winEid) :
    (∃ s, nameEncodeCheckedWith macOrder winOrder info winEid = .panic s) ∨
    (∃ b dec, nameEncodeCheckedWith macOrder winOrder info winEid = .ok b ∧
      nameDecodeWith apple ms b = some dec ∧ ∀ p t i, getVal dec p t i = getVal info p t i) := by
  cases hf : nameFits macOrder winOrder info winEid with
  | false =>
    left
    exact ⟨"name.Encode", by simp [nameEncodeCheckedWith, hf]⟩
  | true =>
    right
    obtain ⟨dec, hd, hg⟩ := name_roundtrip_fits apple ms macOrder winOrder info winEid
      ⟨h.apple_ok, h.ms_ok, h.mac_order, h.win_order, h.keys, h.plat, h.mac, h.win, h.ids, h.eid, hf⟩
    exact ⟨nameEncodeWith macOrder winOrder info winEid, dec, by simp [nameEncodeCheckedWith, hf], hd, hg⟩

end SfntV.Names
