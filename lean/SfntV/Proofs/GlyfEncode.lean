/-
Proofs for C11, part 2: structure of the bytes `Encode` writes; `encode` and the loca theorem.
-/
import SfntV.Proofs.GlyfLoca

namespace SfntV.Glyf
open SfntV

/-- the bytes one glyph contributes -/
def encGlyph (g : Option Glyph) : Bytes := appendGlyph [] g

theorem be16_length (n : Nat) : (be16 n).length = 2 := rfl

theorem padBuf_length (b : Bytes) : (padBuf b).length = alignUp b.length := by
  have := alignUp_ge b.length
  simp [padBuf]; omega

theorem padBuf_append (buf x : Bytes) (h : buf.length % 2 = 0) :
    padBuf (buf ++ x) = buf ++ padBuf x := by
  have : alignUp (buf ++ x).length - (buf ++ x).length = alignUp x.length - x.length := by
    simp only [List.length_append]
    unfold alignUp glyfAlign
    split <;> split <;> omega
  simp only [padBuf, this, List.append_assoc]

theorem appendGlyph_eq (buf : Bytes) (g : Option Glyph) (h : buf.length % 2 = 0) :
    appendGlyph buf g = buf ++ encGlyph g := by
  cases g with
  | none => simp [appendGlyph, encGlyph]
  | some g =>
    show padBuf (buf ++ glyphHeader g ++ glyphBody g.data) =
      buf ++ padBuf ([] ++ glyphHeader g ++ glyphBody g.data)
    rw [List.append_assoc, padBuf_append _ _ h, List.nil_append]

theorem encComps_length (cs : List Component) :
    (cs.flatMap encComp).length = (cs.map fun c => 4 + c.data.length).sum := by
  induction cs with
  | nil => rfl
  | cons c cs ih =>
    simp only [List.flatMap_cons, List.length_append, ih, List.map_cons, List.sum_cons, encComp,
      be16_length]

theorem glyphHeader_length (g : Glyph) : (glyphHeader g).length = 10 := by
  simp [glyphHeader, be16_length]

theorem encGlyph_length (g : Option Glyph) : (encGlyph g).length = encodeLen g := by
  cases g with
  | none => rfl
  | some g =>
    simp only [encGlyph, appendGlyph, List.nil_append, padBuf_length, encodeLen, List.length_append,
      glyphHeader_length]
    congr 1
    cases g.data with
    | simple nc enc => simp [glyphBody]
    | composite cs ins =>
      simp only [glyphBody, List.length_append, encComps_length]
      cases ins <;> simp [encInstr, be16_length]

theorem encGlyphs_length (gs : Glyphs) : (gs.flatMap encGlyph).length = glyfSize gs := by
  induction gs with
  | nil => rfl
  | cons g gs ih => simp [glyfSize_cons, encGlyph_length, ih]

theorem foldl_appendGlyph (gs : Glyphs) (buf : Bytes) (h : buf.length % 2 = 0) :
    gs.foldl appendGlyph buf = buf ++ gs.flatMap encGlyph := by
  induction gs generalizing buf with
  | nil => simp
  | cons g gs ih =>
    simp only [List.foldl_cons, List.flatMap_cons]
    rw [appendGlyph_eq buf g h, ih]
    · simp
    · have := encodeLen_even g
      simp [encGlyph_length]; omega

/-- the glyf table is the concatenation of the per-glyph encodings -/
theorem encodedGlyf (gs : Glyphs) : gs.foldl appendGlyph [] = gs.flatMap encGlyph := by
  simpa using foldl_appendGlyph gs [] rfl

/-- `Encode` never fails; its three results in closed form -/
theorem encode_eq (gs : Glyphs) :
    encode gs = .ok ⟨gs.flatMap encGlyph,
      if glyfSize gs ≤ 0xffff then (offsets 0 gs).flatMap (fun o => be16 (o / 2))
      else (offsets 0 gs).flatMap be32,
      if glyfSize gs ≤ 0xffff then 0 else 1⟩ := by
  unfold encode encodeLoca
  rw [offsets_getLast, encodedGlyf]
  by_cases hs : glyfSize gs ≤ 0xffff <;> simp [hs]

/-- decoding the loca table that `Encode` wrote gives the offsets back -/
theorem decodeLoca_encode (gs : Glyphs) (hne : gs ≠ []) (hsize : glyfSize gs < 4294967296) :
    decodeLoca ((if glyfSize gs ≤ 0xffff then 0 else 1 : Nat) : Int)
      (if glyfSize gs ≤ 0xffff then (offsets 0 gs).flatMap (fun o => be16 (o / 2))
       else (offsets 0 gs).flatMap be32) (glyfSize gs) = .ok (offsets 0 gs) := by
  have hlen := offsets_length 0 gs
  have hgl : gs.length ≥ 1 := by
    cases gs with
    | nil => exact absurd rfl hne
    | cons _ _ => simp
  have hb := offsets_bounds 0 gs
  have hchk := locaCheck_offsets (glyfSize gs) 0 0 gs (Nat.le_refl _) (by omega)
  by_cases hs : glyfSize gs ≤ 0xffff
  · have h16 := words16_short (offsets 0 gs) (fun x hx =>
      ⟨offsets_even 0 rfl gs x hx, by have := hb x hx; omega⟩)
    simp only [hs, if_true]
    rw [show ((0 : Nat) : Int) = 0 from rfl]
    simp only [decodeLoca, if_true]
    rw [flatMap_be16_length, h16, hchk]
    have : ¬ (2 * (offsets 0 gs).length < 4 ∨ 2 * (offsets 0 gs).length % 2 ≠ 0) := by omega
    simp only [this, if_false, if_true]
  · have h32 := words32_long (offsets 0 gs) (fun x hx => by have := hb x hx; omega)
    simp only [hs, if_false]
    rw [show ((1 : Nat) : Int) = 1 from rfl]
    have h10 : (1 : Int) ≠ 0 := by decide
    simp only [decodeLoca, h10, if_false, if_true]
    rw [flatMap_be32_length, h32, hchk]
    have : ¬ (4 * (offsets 0 gs).length < 8 ∨ 4 * (offsets 0 gs).length % 4 ≠ 0) := by omega
    simp only [this, if_false, if_true]

/-- the loca facts of the specification hold for the loca table `Encode` wrote -/
theorem locaFacts_encode (gs : Glyphs) (hsize : glyfSize gs < 4294967296) :
    GlyfSpec.locaFactsErr (if glyfSize gs ≤ 0xffff then 0 else 1)
      (if glyfSize gs ≤ 0xffff then (offsets 0 gs).flatMap (fun o => be16 (o / 2))
       else (offsets 0 gs).flatMap be32) (glyfSize gs) gs.length = none := by
  have hb := offsets_bounds 0 gs
  have hread : GlyfSpec.readLoca (if glyfSize gs ≤ 0xffff then 0 else 1)
      (if glyfSize gs ≤ 0xffff then (offsets 0 gs).flatMap (fun o => be16 (o / 2))
       else (offsets 0 gs).flatMap be32) = some (offsets 0 gs) := by
    split
    · rename_i hs
      simp only [GlyfSpec.readLoca, if_true, flatMap_be16_length]
      rw [specOffsets16 _ (fun x hx => ⟨offsets_even 0 rfl gs x hx, by have := hb x hx; omega⟩)]
      simp
    · rename_i hs
      simp only [GlyfSpec.readLoca, if_true, flatMap_be32_length]
      rw [specOffsets32 _ (fun x hx => by have := hb x hx; omega)]
      simp
  have hodd : (offsets 0 gs).any (· % 2 ≠ 0) = false := by
    rw [List.any_eq_false]
    intro x hx
    simp [offsets_even 0 rfl gs x hx]
  have hout : (offsets 0 gs).any (· > glyfSize gs) = false := by
    rw [List.any_eq_false]
    intro x hx
    have := hb x hx
    simp; omega
  unfold GlyfSpec.locaFactsErr
  rw [hread]
  simp only [offsets_length, offsets_sorted, hodd, hout, offsets_head, offsets_getLast]
  have h2 : glyfSize gs ≤ 0xffff → ¬ glyfSize gs > 2 * 0xffff := by omega
  by_cases hs : glyfSize gs ≤ 0xffff <;> simp [hs] <;> omega

end SfntV.Glyf
