/-
C06: the contextual subtables (sequence context and chained sequence context, formats 1-3) of
the engine model agree with the reference `matchSub`, at any window limit and on any stack.
Format 3 of the chained context is the REPAIRED engine (C06-ch3skip: every ignored glyph is
skipped in the input and lookahead loops, and before the lookahead).
-/
import SfntV.Proofs.ShapeSpecMatch
namespace SfntV.Spec.Shape
open SfntV SfntV.Shape

/-! ## helpers -/

/-- the window of a match inside `W`: up to the last matched glyph, plus the unkept glyphs behind it -/
def winLen (kp : Nat → Bool) (offs : List Nat) (W : List TG) : Nat :=
  usedLen offs + ((W.drop (usedLen offs)).takeWhile fun t => !kp t.g.gid).length

theorem matchSeq_length (kp) (prs : List (Nat → Bool)) (ts : List TG) (i : Nat) (offs : List Nat)
    (h : matchSeq kp prs ts i = some offs) : offs.length = prs.length := by
  induction ts generalizing prs i offs with
  | nil =>
    cases prs with
    | nil => simp only [matchSeq] at h; cases h; rfl
    | cons p ps => simp [matchSeq] at h
  | cons t ts ih =>
    cases prs with
    | nil => simp only [matchSeq] at h; cases h; rfl
    | cons p ps =>
      simp only [matchSeq] at h
      split at h
      · split at h
        · cases hm : matchSeq kp ps ts (i + 1) with
          | none => rw [hm] at h; cases h
          | some offs' =>
            rw [hm] at h
            cases h
            simp only [List.length_cons, ih ps (i + 1) offs' hm]
        · cases h
      · exact ih (p :: ps) (i + 1) offs h

theorem usedLen_zero_cons (l : List Nat) : usedLen (0 :: l.map (· + 1)) = usedLen l + 1 := by
  unfold usedLen
  rw [List.getLast?_cons, List.getLast?_map]
  cases l.getLast? <;> rfl

theorem usedLen_shift (l : List Nat) (h : l ≠ []) : usedLen (l.map (· + 1)) = usedLen l + 1 := by
  unfold usedLen
  rw [List.getLast?_map]
  cases hl : l.getLast? with
  | none => exact absurd (List.getLast?_eq_none_iff.mp hl) h
  | some o => rfl

theorem drop_takeWhile_length {α : Type} (q : α → Bool) (l : List α) :
    l.drop (l.takeWhile q).length = l.dropWhile q := by
  induction l with
  | nil => rfl
  | cons x l ih =>
    simp only [List.takeWhile_cons, List.dropWhile_cons]
    split
    · simpa using ih
    · rfl

theorem takeWhile_length_le {α : Type} (q : α → Bool) (l : List α) :
    (l.takeWhile q).length ≤ l.length := by
  induction l with
  | nil => simp
  | cons x l ih =>
    simp only [List.takeWhile_cons]
    split
    · simp only [List.length_cons]; omega
    · simp

theorem dropWhile_head {α : Type} (q : α → Bool) (l : List α) (t : α) (r : List α)
    (h : l.dropWhile q = t :: r) : q t = false := by
  induction l with
  | nil => cases h
  | cons x l ih =>
    simp only [List.dropWhile_cons] at h
    split at h
    · exact ih h
    · rename_i hx
      cases h
      simpa using hx

/-- leading unkept glyphs do not matter for a match -/
theorem matchSeq_dropWhile_isSome (kp) (prs : List (Nat → Bool)) (l : List TG) :
    (matchSeq kp prs (l.dropWhile fun t => !kp t.g.gid) 0).isSome = (matchSeq kp prs l 0).isSome := by
  cases prs with
  | nil => simp [matchSeq]
  | cons p ps =>
    induction l with
    | nil => rfl
    | cons t l ih =>
      simp only [List.dropWhile_cons]
      by_cases hk : kp t.g.gid = true
      · simp [hk]
      · have hk' : kp t.g.gid = false := by simpa using hk
        simp only [hk', Bool.not_false, if_true, ih]
        conv => rhs; simp only [matchSeq, hk', Bool.false_eq_true, if_false]
        have hsh := matchSeq_shift kp (p :: ps) l 0 1
        rw [Nat.zero_add] at hsh
        rw [hsh, Option.isSome_map]


theorem dropWhile_drop_le {α : Type} (q : α → Bool) (l : List α) (k : Nat)
    (h : k ≤ (l.takeWhile q).length) : (l.drop k).dropWhile q = l.dropWhile q := by
  induction l generalizing k with
  | nil => simp
  | cons x l ih =>
    cases k with
    | zero => rfl
    | succ k =>
      simp only [List.takeWhile_cons] at h
      split at h
      · rename_i hx
        simp only [List.length_cons] at h
        simp only [List.drop_succ_cons, List.dropWhile_cons, hx, if_true]
        exact ih k (by omega)
      · simp at h

/-! ## chained context format 3: the input loop -/

/-- `chain3Input` after the test of the glyph at `p`: skip every ignored glyph, then the remaining sets -/
def tailC (kp : Nat → Bool) (seq : List Glyph) (cs : List GSet) (rest : List Glyph) (s : Nat)
    (limit : Int) : Outcome (Option (List Nat × Nat)) := do
  let q ← skipFwd kp rest s limit 0
  chain3Input kp seq cs q limit

theorem chain3Input_cons (kp) (seq : List Glyph) (c : GSet) (cs : List GSet) (p : Nat) (limit : Int) :
    chain3Input kp seq (c :: cs) p limit =
      (if (p : Int) + cs.length ≥ limit then .ok none else do
      let g ← idx "chain3:seq[p]" seq p
      if !setVal c g.gid then .ok none else
      match ← tailC kp seq cs (seq.drop (p + 1)) (p + 1) limit with
      | some (ps, last) => .ok (some (p :: ps, last))
      | none => .ok none) := by
  rw [chain3Input]
  split
  · rfl
  · cases idx "chain3:seq[p]" seq p with
    | ok g =>
      simp only [bind_ok_eq]
      split
      · rfl
      · simp only [tailC]
        cases skipFwd kp (seq.drop (p + 1)) (p + 1) limit 0 <;> rfl
    | err e => rfl
    | panic e => rfl

theorem tailC_eq (kp) (cs : List GSet) :
    ∀ (R : List TG) (L : List Glyph) (s lim : Nat), L.length = s → lim ≤ R.length →
      tailC kp (L ++ gl R) cs (gl R) s ((s + lim : Nat) : Int)
        = .ok ((matchSeq kp (cs.map setVal) (R.take lim) 0).map fun offs =>
            (offs.map (· + s), s + winLen kp offs (R.take lim))) := by
  induction cs with
  | nil =>
    intro R L s lim hL hlim
    simp only [tailC, skipFwd_gl kp R s lim 0 hlim, bind_ok_eq, chain3Input,
      List.map_nil, matchSeq, Option.map_some, winLen, usedLen, List.getLast?_nil, List.drop_zero,
      takeWhile_take_length, Nat.sub_zero, Nat.zero_add]
  | cons c cs ihc =>
    intro R
    induction R with
    | nil =>
      intro L s lim hL hlim
      simp only [List.length_nil] at hlim
      have : lim = 0 := by omega
      subst this
      simp only [tailC, gl_nil, skipFwd]
      rw [if_neg (by omega)]
      simp only [bind_ok_eq, chain3Input_cons]
      rw [if_pos (by omega)]
      rfl
    | cons t R ihR =>
      intro L s lim hL hlim
      simp only [List.length_cons] at hlim
      by_cases hshort : lim ≤ cs.length
      · -- not even room for the sets after this one: whatever the loop does, no match
        have hq : ∃ q, skipFwd kp (gl (t :: R)) s ((s + lim : Nat) : Int) 0 = .ok q ∧ s ≤ q := by
          rw [skipFwd_gl kp (t :: R) s lim 0 (by simp only [List.length_cons]; omega)]
          exact ⟨_, rfl, by omega⟩
        obtain ⟨q, hq, hsq⟩ := hq
        simp only [tailC, hq, bind_ok_eq, chain3Input_cons]
        rw [if_pos (by omega)]
        rw [matchSeq_short]
        · rfl
        · simp only [List.length_take, List.length_cons, List.length_map]
          omega
      · obtain ⟨lim', rfl⟩ : ∃ lim', lim = lim' + 1 := ⟨lim - 1, by omega⟩
        have e1 : L ++ t.g :: gl R = (L ++ [t.g]) ++ gl R := by simp
        have e2 : s + (lim' + 1) = s + 1 + lim' := by omega
        by_cases hk : kp t.g.gid = true
        · -- the loop stops at the kept glyph: it is tested
          have hidx : idx "chain3:seq[p]" (L ++ t.g :: gl R) s = .ok t.g := by
            simp [idx, hL]
          have hdrop : (L ++ t.g :: gl R).drop (s + 1) = gl R := by
            rw [e1, ← hL]
            have : L.length + 1 = (L ++ [t.g]).length := by simp
            rw [this, List.drop_left]
          have hskip : skipFwd kp (t.g :: gl R) s ((s + (lim' + 1) : Nat) : Int) 0 = .ok s := by
            simp only [skipFwd, hk, if_true]
            split <;> rfl
          simp only [tailC, gl_cons, hskip, bind_ok_eq]
          rw [chain3Input_cons, if_neg (by omega), hidx]
          simp only [bind_ok_eq, List.map_cons, List.take_succ_cons, matchSeq, hk, if_true]
          cases hv : setVal c t.g.gid with
          | false => simp
          | true =>
            simp only [Bool.not_true, Bool.false_eq_true, if_false, if_true, hdrop]
            rw [e1, e2, ihc R (L ++ [t.g]) (s + 1) lim' (by simp [hL]) (by omega)]
            have hsh := matchSeq_shift kp (cs.map setVal) (R.take lim') 0 1
            rw [Nat.zero_add] at hsh
            rw [hsh]
            cases matchSeq kp (cs.map setVal) (R.take lim') 0 with
            | none => rfl
            | some offs =>
              simp only [Option.map_some, bind_ok_eq, winLen, usedLen_zero_cons, List.drop_succ_cons,
                List.map_cons, List.map_map]
              congr 3
              · congr 1
                · omega
                · apply List.map_congr_left
                  intro a _
                  simp only [Function.comp]
                  omega
              · omega
        · -- the unkept glyph is passed over
          have hk' : kp t.g.gid = false := by simpa using hk
          have h := ihR (L ++ [t.g]) (s + 1) lim' (by simp [hL]) (by omega)
          simp only [tailC] at h
          simp only [tailC, gl_cons, skipFwd]
          rw [if_pos (by omega)]
          simp only [hk', Bool.false_eq_true, if_false]
          rw [e1, e2, h]
          simp only [List.map_cons, List.take_succ_cons, matchSeq, hk', Bool.false_eq_true, if_false]
          have hsh := matchSeq_shift kp (setVal c :: cs.map setVal) (R.take lim') 0 1
          rw [Nat.zero_add] at hsh
          rw [hsh]
          cases hm : matchSeq kp (setVal c :: cs.map setVal) (R.take lim') 0 with
          | none => rfl
          | some offs =>
            have hne : offs ≠ [] := by
              intro h0
              have := matchSeq_length kp _ _ _ _ hm
              rw [h0] at this
              simp at this
            simp only [Option.map_some, winLen, usedLen_shift offs hne, List.drop_succ_cons,
              List.map_map]
            congr 3
            · apply List.map_congr_left
              intro a _
              simp only [Function.comp]
              omega
            · omega

/-- the input sets of format 3 at the current position (any limit) -/
theorem chain3Input_eq (kp) (c0 : GSet) (cs : List GSet)
    (pre : List TG) (cur : TG) (post : List TG) (lim : Nat) (hlim : lim ≤ post.length) :
    chain3Input kp (gl (pre.reverse ++ cur :: post)) (c0 :: cs) pre.length
        ((pre.length + 1 + lim : Nat) : Int)
      = .ok (if setVal c0 cur.g.gid then
          (matchSeq kp (cs.map setVal) (post.take lim) 0).map fun offs =>
            (pre.length :: offs.map (· + (pre.length + 1)), pre.length + 1 + winLen kp offs (post.take lim))
        else none) := by
  rw [chain3Input_cons]
  by_cases hshort : lim < cs.length
  · rw [if_pos (by omega), matchSeq_short]
    · simp
    · simp only [List.length_take, List.length_map]; omega
  · rw [if_neg (by omega), seq_idx]
    simp only [bind_ok_eq]
    cases hv : setVal c0 cur.g.gid with
    | false => rfl
    | true =>
      have hd := seq_drop pre cur post 0
      rw [Nat.add_zero, List.drop_zero] at hd
      simp only [Bool.not_true, Bool.false_eq_true, if_false, if_true, hd]
      rw [seq_split, tailC_eq kp cs post _ (pre.length + 1) lim (by simp) hlim]
      cases matchSeq kp (cs.map setVal) (post.take lim) 0 <;> rfl

/-! ## chained context format 3: the lookahead loop -/

/-- the lookahead sets of format 3, tested from a position that is the end of the sequence or
holds a kept glyph, up to the end of the sequence -/
theorem chain3Look_eq (kp) (look : List GSet)
    (L : List Glyph) (R : List TG) (p : Nat) (hL : L.length = p)
    (hR : ∀ t r, R = t :: r → kp t.g.gid = true) :
    ∃ f, chain3Input kp (L ++ gl R) look p ((L ++ gl R).length : Int)
      = .ok ((matchSeq kp (look.map setVal) R 0).map f) := by
  cases look with
  | nil => exact ⟨fun _ => ([], p), by simp [chain3Input, matchSeq]⟩
  | cons l0 ls =>
    cases R with
    | nil =>
      refine ⟨fun _ => ([], p), ?_⟩
      rw [chain3Input_cons, if_pos (by simp [hL]; omega)]
      rfl
    | cons t R =>
      have hk := hR t R rfl
      rw [chain3Input_cons]
      simp only [List.map_cons, matchSeq, hk, if_true]
      by_cases hshort : R.length < ls.length
      · refine ⟨fun _ => ([], p), ?_⟩
        rw [if_pos (by simp [hL]; omega), matchSeq_short]
        · simp
        · simp only [List.length_map]; omega
      · have hlen : (L ++ gl (t :: R)).length = p + 1 + R.length := by simp [hL]; omega
        rw [if_neg (by rw [hlen]; omega)]
        have hidx : idx "chain3:seq[p]" (L ++ gl (t :: R)) p = .ok t.g := by
          simp [idx, hL]
        rw [hidx]
        simp only [bind_ok_eq]
        cases hv : setVal l0 t.g.gid with
        | false => exact ⟨fun _ => ([], p), rfl⟩
        | true =>
          have e1 : L ++ gl (t :: R) = (L ++ [t.g]) ++ gl R := by simp
          have hdrop : (L ++ gl (t :: R)).drop (p + 1) = gl R := by
            rw [e1, ← hL]
            have : L.length + 1 = (L ++ [t.g]).length := by simp
            rw [this, List.drop_left]
          simp only [Bool.not_true, Bool.false_eq_true, if_false, if_true, hdrop]
          rw [hlen, e1, tailC_eq kp ls R _ (p + 1) R.length (by simp [hL]) (Nat.le_refl _),
            List.take_length]
          have hsh := matchSeq_shift kp (ls.map setVal) R 0 1
          rw [Nat.zero_add] at hsh
          rw [hsh]
          cases matchSeq kp (ls.map setVal) R 0 with
          | none => exact ⟨fun _ => ([], p), rfl⟩
          | some offs => exact ⟨fun x => (p :: (offs.map (· + (p + 1))), p + 1 + winLen kp offs R), rfl⟩

/-- the start of the lookahead (ignored glyphs behind the window are passed over when there is a
lookahead) and the lookahead loop, from `w` glyphs behind the current one -/
theorem chain3Look_from (kp) (look : List GSet) (pre : List TG) (cur : TG) (post : List TG)
    (w : Nat) (hw : w ≤ post.length) :
    ∃ p0 f,
      (if look.isEmpty then (pure (pre.length + 1 + w) : Outcome Nat)
        else skipFwd kp ((gl (pre.reverse ++ cur :: post)).drop (pre.length + 1 + w)) (pre.length + 1 + w)
          ((gl (pre.reverse ++ cur :: post)).length : Int) 0) = .ok p0
      ∧ chain3Input kp (gl (pre.reverse ++ cur :: post)) look p0
          ((gl (pre.reverse ++ cur :: post)).length : Int)
        = .ok ((matchSeq kp (look.map setVal)
            ((post.drop w).dropWhile fun t => !kp t.g.gid) 0).map f) := by
  cases look with
  | nil =>
    exact ⟨pre.length + 1 + w, fun _ => ([], pre.length + 1 + w), rfl, by simp [chain3Input, matchSeq]⟩
  | cons l0 ls =>
    have hk := takeWhile_length_le (fun t : TG => !kp t.g.gid) (post.drop w)
    rw [List.length_drop] at hk
    have hR : (post.drop w).dropWhile (fun t => !kp t.g.gid)
        = post.drop (w + ((post.drop w).takeWhile fun t => !kp t.g.gid).length) := by
      rw [← drop_takeWhile_length, List.drop_drop]
    have hs : gl (pre.reverse ++ cur :: post)
        = ((gl pre).reverse ++ [cur.g]
            ++ gl (post.take (w + ((post.drop w).takeWhile fun t => !kp t.g.gid).length)))
          ++ gl ((post.drop w).dropWhile fun t => !kp t.g.gid) := by
      rw [hR, ← seq_take, ← seq_drop, List.take_append_drop]
    obtain ⟨f, hf⟩ := chain3Look_eq kp (l0 :: ls)
      ((gl pre).reverse ++ [cur.g]
        ++ gl (post.take (w + ((post.drop w).takeWhile fun t => !kp t.g.gid).length)))
      ((post.drop w).dropWhile fun t => !kp t.g.gid)
      (pre.length + 1 + w + ((post.drop w).takeWhile fun t => !kp t.g.gid).length)
      (by simp [List.length_take]; omega)
      (by
        intro t r htr
        simpa using dropWhile_head _ _ t r htr)
    rw [← hs] at hf
    refine ⟨_, f, ?_, hf⟩
    have hlen : (gl (pre.reverse ++ cur :: post)).length
        = (pre.length + 1 + w) + (post.drop w).length := by
      rw [seq_length, List.length_drop]; omega
    simp only [List.isEmpty_cons, Bool.false_eq_true, if_false]
    rw [seq_drop, hlen, skipFwd_gl kp (post.drop w) (pre.length + 1 + w) (post.drop w).length 0
      (Nat.le_refl _)]
    congr 2
    rw [List.length_drop]
    omega

/-! ## chained context format 3 -/

/-- Chained context format 3 (repaired engine): agreement with the reference at any window
limit, on any stack, for all coverage sets. -/
theorem chain3_eq (kp gd) (pre : List TG) (cur : TG) (post : List TG) (lim : Nat) (hlim : lim ≤ post.length)
    (stack : List Nested) (back input look : List GSet) (actions : List Action) :
    let seq := gl (pre.reverse ++ cur :: post)
    match matchSub kp gd pre cur post lim (.chain3 back input look actions) with
    | .error _ => True
    | .ok none =>
      applySub kp ⟨seq, stack⟩ pre.length ((pre.length + 1 + lim : Nat) : Int)
        (.chain3 back input look actions) = .ok none
    | .ok (some (.ctx m acts)) =>
      applySub kp ⟨seq, stack⟩ pre.length ((pre.length + 1 + lim : Nat) : Int)
        (.chain3 back input look actions)
        = .ok (some (pushMatch ⟨seq, stack⟩ (pre.length :: m.offs.map (· + (pre.length + 1))) acts
                (pre.length + 1 + m.wlen), pre.length + 1 + m.wlen))
    | .ok (some (.done _ _)) => False := by
  dsimp only
  cases input with
  | nil => simp only [matchSub, undef]
  | cons c0 cs =>
    have hin := chain3Input_eq kp c0 cs pre cur post lim hlim
    simp only [matchSub, applySub, seq_take_rev, matchBack_eq kp _ pre 0, hin, R_pure]
    cases hv : setVal c0 cur.g.gid with
    | false =>
      simp only [Bool.not_false, if_true, Bool.false_eq_true, if_false, bind_ok_eq]
      split <;> rfl
    | true =>
      simp only [Bool.not_true, Bool.false_eq_true, if_false, if_true, matchContext]
      cases hb : matchSeq kp (back.map setVal) pre 0 with
      | none => simp
      | some bo =>
        simp only [Option.isSome_some, Bool.not_true, Bool.false_eq_true, if_false, bind_ok_eq]
        cases hm : matchSeq kp (cs.map setVal) (post.take lim) 0 with
        | none => simp
        | some offs =>
          simp only [Option.map_some, winLen]
          have hu := usedLen_le kp _ _ offs hm
          rw [List.length_take] at hu
          have hk : (((post.take lim).drop (usedLen offs)).takeWhile fun t => !kp t.g.gid).length
              ≤ ((post.drop (usedLen offs)).takeWhile fun t => !kp t.g.gid).length := by
            rw [List.drop_take, takeWhile_take_length]; omega
          have hk2 := takeWhile_length_le (fun t : TG => !kp t.g.gid) (post.drop (usedLen offs))
          rw [List.length_drop] at hk2
          obtain ⟨p0, f, h1, h2⟩ := chain3Look_from kp look pre cur post
            (usedLen offs + (((post.take lim).drop (usedLen offs)).takeWhile fun t => !kp t.g.gid).length)
            (by omega)
          have hsome := matchSeq_dropWhile_isSome kp (look.map setVal) (post.drop (usedLen offs))
          rw [← dropWhile_drop_le _ _ _ hk, List.drop_drop] at hsome
          simp only [h1, h2, bind_ok_eq]
          cases hl1 : matchSeq kp (look.map setVal)
              ((post.drop (usedLen offs + (((post.take lim).drop (usedLen offs)).takeWhile
                fun t => !kp t.g.gid).length)).dropWhile fun t => !kp t.g.gid) 0 with
          | none =>
            rw [hl1] at hsome
            cases hl2 : matchSeq kp (look.map setVal) (post.drop (usedLen offs)) 0 with
            | none => rfl
            | some _ => rw [hl2] at hsome; cases hsome
          | some lo =>
            rw [hl1] at hsome
            cases hl2 : matchSeq kp (look.map setVal) (post.drop (usedLen offs)) 0 with
            | none => rw [hl2] at hsome; cases hsome
            | some _ => rfl

/-! ## all contextual subtables -/

/-- agreement of a contextual subtable with the reference at one position: window limit `lim`,
any stack -/
def CtxEq (kp : Nat → Bool) (gd : Gdef) (pre : List TG) (cur : TG) (post : List TG) (lim : Nat)
    (stack : List Nested) (s : Subtable) : Prop :=
  let seq := gl (pre.reverse ++ cur :: post)
  match matchSub kp gd pre cur post lim s with
  | .error _ => True
  | .ok none =>
    applySub kp ⟨seq, stack⟩ pre.length ((pre.length + 1 + lim : Nat) : Int) s = .ok none
  | .ok (some (.ctx m acts)) =>
    applySub kp ⟨seq, stack⟩ pre.length ((pre.length + 1 + lim : Nat) : Int) s
      = .ok (some (pushMatch ⟨seq, stack⟩ (pre.length :: m.offs.map (· + (pre.length + 1))) acts
              (pre.length + 1 + m.wlen), pre.length + 1 + m.wlen))
  | .ok (some (.done _ _)) => False

/-- the rule loop, in the shape `CtxEq` needs -/
theorem ctxEq_rules (kp) (mb mi ml : Nat → Nat → Bool) (pre : List TG) (cur : TG) (post : List TG)
    (lim : Nat) (hlim : lim ≤ post.length) (stack : List Nested) (rs : List Rule) :
    match (Except.ok ((SfntV.Spec.Shape.firstRule kp mb mi ml pre post lim rs).map
        fun (m, a) => Hit.ctx m a) : R (Option Hit)) with
    | .error _ => True
    | .ok none =>
      SfntV.Shape.firstRule kp ⟨gl (pre.reverse ++ cur :: post), stack⟩ pre.length
        ((pre.length + 1 + lim : Nat) : Int) mb mi ml rs = .ok none
    | .ok (some (.ctx m acts)) =>
      SfntV.Shape.firstRule kp ⟨gl (pre.reverse ++ cur :: post), stack⟩ pre.length
        ((pre.length + 1 + lim : Nat) : Int) mb mi ml rs
        = .ok (some (pushMatch ⟨gl (pre.reverse ++ cur :: post), stack⟩
              (pre.length :: m.offs.map (· + (pre.length + 1))) acts
              (pre.length + 1 + m.wlen), pre.length + 1 + m.wlen))
    | .ok (some (.done _ _)) => False := by
  rw [firstRule_eq kp mb mi ml pre cur post lim hlim stack rs]
  cases SfntV.Spec.Shape.firstRule kp mb mi ml pre post lim rs with
  | none => rfl
  | some r => obtain ⟨m, a⟩ := r; rfl

theorem ctxEq_ctx1 (kp gd pre cur post lim) (hlim : lim ≤ post.length) (stack) (cov : Cov)
    (rules : List (List Rule)) : CtxEq kp gd pre cur post lim stack (.ctx1 cov rules) := by
  unfold CtxEq
  simp only [matchSub, applySub, seq_idx, bind_ok_eq]
  cases covGet cov cur.g.gid with
  | none => simp only [R_pure]
  | some i =>
    simp only []
    cases hr : rules[i]? with
    | none => simp [need, undef, bind, Except.bind]
    | some rs =>
      simp only [need, R_pure, bind, Except.bind, idx, hr]
      exact ctxEq_rules kp _ _ _ pre cur post lim hlim stack rs

theorem ctxEq_chain1 (kp gd pre cur post lim) (hlim : lim ≤ post.length) (stack) (cov : Cov)
    (rules : List (List Rule)) : CtxEq kp gd pre cur post lim stack (.chain1 cov rules) := by
  unfold CtxEq
  simp only [matchSub, applySub, seq_idx, bind_ok_eq]
  cases covGet cov cur.g.gid with
  | none => simp only [R_pure]
  | some i =>
    simp only []
    cases hr : rules[i]? with
    | none => simp [need, undef, bind, Except.bind]
    | some rs =>
      simp only [need, R_pure, bind, Except.bind, idx, hr]
      exact ctxEq_rules kp _ _ _ pre cur post lim hlim stack rs

theorem ctxEq_ctx2 (kp gd pre cur post lim) (hlim : lim ≤ post.length) (stack) (cov : Cov)
    (cls : ClassDef) (rules : List (List Rule)) :
    CtxEq kp gd pre cur post lim stack (.ctx2 cov cls rules) := by
  unfold CtxEq
  simp only [matchSub, applySub, seq_idx, bind_ok_eq]
  cases covHas cov cur.g.gid with
  | false => simp only [Bool.not_false, if_true, R_pure]
  | true =>
    simp only [Bool.not_true, Bool.false_eq_true, if_false]
    cases rules[classOf cls cur.g.gid]? with
    | none => simp only [R_pure]
    | some rs =>
      simp only [R_pure]
      exact ctxEq_rules kp _ _ _ pre cur post lim hlim stack rs

theorem ctxEq_chain2 (kp gd pre cur post lim) (hlim : lim ≤ post.length) (stack) (cov : Cov)
    (bcls icls lcls : ClassDef) (rules : List (List Rule)) :
    CtxEq kp gd pre cur post lim stack (.chain2 cov bcls icls lcls rules) := by
  unfold CtxEq
  simp only [matchSub, applySub, seq_idx, bind_ok_eq]
  cases covHas cov cur.g.gid with
  | false => simp only [Bool.not_false, if_true, R_pure]
  | true =>
    simp only [Bool.not_true, Bool.false_eq_true, if_false]
    cases rules[classOf icls cur.g.gid]? with
    | none => simp only [R_pure]
    | some rs =>
      simp only [R_pure]
      exact ctxEq_rules kp _ _ _ pre cur post lim hlim stack rs

theorem ctxEq_ctx3 (kp gd pre cur post lim) (hlim : lim ≤ post.length) (stack) (input : List GSet)
    (actions : List Action) : CtxEq kp gd pre cur post lim stack (.ctx3 input actions) := by
  unfold CtxEq
  cases input with
  | nil => simp only [matchSub, undef]
  | cons c0 cs =>
    simp only [matchSub, applySub, seq_idx, bind_ok_eq,
      matchRule_eq kp [] (cs.map setVal) [] pre cur post lim hlim, R_pure]
    cases setVal c0 cur.g.gid with
    | false => simp only [Bool.not_false, if_true]
    | true =>
      simp only [Bool.not_true, Bool.false_eq_true, if_false]
      cases matchContext kp [] (cs.map setVal) [] pre post lim with
      | none => rfl
      | some m => rfl

theorem ctxEq_chain3 (kp gd pre cur post lim) (hlim : lim ≤ post.length) (stack)
    (back input look : List GSet) (actions : List Action) :
    CtxEq kp gd pre cur post lim stack (.chain3 back input look actions) :=
  chain3_eq kp gd pre cur post lim hlim stack back input look actions

/-- Every contextual subtable (sequence context and chained sequence context, formats 1-3)
agrees with the reference at any window limit and on any stack. -/
theorem ctx_eq (kp gd) (pre : List TG) (cur : TG) (post : List TG) (lim : Nat) (hlim : lim ≤ post.length)
    (stack : List Nested) (s : Subtable) (hs : s.contextual = true) :
    let seq := gl (pre.reverse ++ cur :: post)
    match matchSub kp gd pre cur post lim s with
    | .error _ => True
    | .ok none =>
      applySub kp ⟨seq, stack⟩ pre.length ((pre.length + 1 + lim : Nat) : Int) s = .ok none
    | .ok (some (.ctx m acts)) =>
      applySub kp ⟨seq, stack⟩ pre.length ((pre.length + 1 + lim : Nat) : Int) s
        = .ok (some (pushMatch ⟨seq, stack⟩ (pre.length :: m.offs.map (· + (pre.length + 1))) acts
                (pre.length + 1 + m.wlen), pre.length + 1 + m.wlen))
    | .ok (some (.done _ _)) => False := by
  have h : CtxEq kp gd pre cur post lim stack s := by
    cases s with
    | ctx1 cov rules => exact ctxEq_ctx1 kp gd pre cur post lim hlim stack cov rules
    | ctx2 cov cls rules => exact ctxEq_ctx2 kp gd pre cur post lim hlim stack cov cls rules
    | ctx3 input actions => exact ctxEq_ctx3 kp gd pre cur post lim hlim stack input actions
    | chain1 cov rules => exact ctxEq_chain1 kp gd pre cur post lim hlim stack cov rules
    | chain2 cov b i l rules => exact ctxEq_chain2 kp gd pre cur post lim hlim stack cov b i l rules
    | chain3 back input look actions =>
      exact ctxEq_chain3 kp gd pre cur post lim hlim stack back input look actions
    | _ => simp [Subtable.contextual] at hs
  exact h

/-! ## the former counterexamples (engine before C06-ch3skip), now in agreement
(glyph 9 is ignored by the lookup, glyphs 1 and 2 are kept) -/

/-- input `[{1},{9}]` on the glyphs `1 9`: no match on either side -/
example :
    applySub (fun g => g != 9) ⟨[⟨1, [], 0, 0, 0⟩, ⟨9, [], 0, 0, 0⟩], []⟩ 0 2
        (.chain3 [] [[(1, true)], [(9, true)]] [] []) = .ok none
    ∧ matchContext (fun g => g != 9) [] [setVal [(9, true)]] [] [] [{ g := ⟨9, [], 0, 0, 0⟩ }] 1 = none := by
  decide

/-- lookahead `[{2},{9}]` on the glyphs `1 2 9`: no match on either side -/
example :
    applySub (fun g => g != 9) ⟨[⟨1, [], 0, 0, 0⟩, ⟨2, [], 0, 0, 0⟩, ⟨9, [], 0, 0, 0⟩], []⟩ 0 3
        (.chain3 [] [[(1, true)]] [[(2, true)], [(9, true)]] []) = .ok none
    ∧ matchContext (fun g => g != 9) [] [] [setVal [(2, true)], setVal [(9, true)]] []
        [{ g := ⟨2, [], 0, 0, 0⟩ }, { g := ⟨9, [], 0, 0, 0⟩ }] 2 = none := by
  decide

/-- nested application (window = the first glyph) with lookahead `[{2}]` on the glyphs `1 9 2`:
both sides match, the window ends behind the first glyph -/
example :
    applySub (fun g => g != 9) ⟨[⟨1, [], 0, 0, 0⟩, ⟨9, [], 0, 0, 0⟩, ⟨2, [], 0, 0, 0⟩], []⟩ 0 1
        (.chain3 [] [[(1, true)]] [[(2, true)]] [])
      = .ok (some (⟨[⟨1, [], 0, 0, 0⟩, ⟨9, [], 0, 0, 0⟩, ⟨2, [], 0, 0, 0⟩], [⟨[0], [], 1⟩]⟩, 1))
    ∧ matchContext (fun g => g != 9) [] [] [setVal [(2, true)]] []
        [{ g := ⟨9, [], 0, 0, 0⟩ }, { g := ⟨2, [], 0, 0, 0⟩ }] 0 = some ⟨[], 0⟩ := by
  decide

end SfntV.Spec.Shape
