/-
C14 — script lists: composition of the tag conversions of C14 (`bcp47ToOtf`, `otfToBCP47`, string
level) with the binary script-list codec of C08 (`SL.encode`, `SL.readSized`,
Proofs/OtlScriptList: model and round-trip theorem of `ScriptListInfo.encode` / `readScriptList`
on the OpenType side of the conversion).
-/
import SfntV.Proofs.NamesLocale
import SfntV.Proofs.OtlScriptList

namespace SfntV.Names
open SfntV SfntV.Otl

def toBytes (l : List Nat) : Bytes := l.map UInt8.ofNat
def ofBytes (b : Bytes) : List Nat := b.map UInt8.toNat

theorem ofBytes_toBytes (l : List Nat) (h : ∀ x ∈ l, x < 256) : ofBytes (toBytes l) = l := by
  induction l with
  | nil => rfl
  | cons x t ih =>
    have hx := h x List.mem_cons_self
    simp only [ofBytes, toBytes, List.map_cons, List.map_map] at ih ⊢
    rw [ih (fun y hy => h y (List.mem_cons_of_mem _ hy))]
    congr 1
    simp only [UInt8.toNat_ofNat']
    omega

/-- one entry of a Go `ScriptListInfo`: the key (a `language.Tag`) as x/text presents it, and the
features stored under it -/
structure SLItem where
  key : TagView
  required : Nat
  optional : List Nat

/-- the first loop of `ScriptListInfo.encode`: every key goes through `bcp47ToOtf`; keys for which
it reports an error are skipped (`continue`) -/
def toEntries (so lo : List (List Nat × List Nat)) (m : List SLItem) : List SL.Entry :=
  m.filterMap fun it =>
    (bcp47ToOtfView so lo it.key).map fun sl => ⟨toBytes sl.1, toBytes sl.2, it.required, it.optional⟩

/-- the key the reader files an entry under: `otfToBCP47` of its tag pair (the string handed to
`language.Parse`) -/
def backString (e : SL.Entry) : Option (List Nat) :=
  otfToBCP47Str Gen.otScripts Gen.otLangs (ofBytes e.script) (ofBytes e.lang)

/-- The keys of the domain of the tag theorems, each with the string the round trip gives back:
* a tag built by `otfToBCP47` itself from a pair of the tables (it carries the `-x-` extension):
  the same string;
* a plain tag with script `S` and language `L` the tables can express (or `und`): "`L`-`S`" plus
  the extension naming the OpenType tags chosen (smallest twin). -/
inductive KeyOk (so lo : List (List Nat × List Nat)) : TagView → List Nat → Prop where
  | ext (p q : List Nat × List Nat) (hp : p ∈ Gen.otScripts)
      (hq : q ∈ ([], undS) :: Gen.otLangs) :
      KeyOk so lo (.ext (extString p.1 q.1)) (otfTagString p.2 q.2 p.1 q.1)
  | plain (S L : List Nat) (hS : ∃ k, (k, S) ∈ Gen.otScripts)
      (hL : (∃ k, (k, L) ∈ Gen.otLangs) ∨ L = undS) :
      KeyOk so lo (.plain 0 L S)
        (otfTagString S L (noExtToOtf so lo 0 L S).1 (noExtToOtf so lo 0 L S).2)

theorem tagKeys_bytes :
    (Gen.otScripts.all fun p => bytesB p.1) = true ∧ (Gen.otLangs.all fun p => bytesB p.1) = true := by
  constructor <;> decide +kernel

/-- the result of the reverse lookup is a key of the table or empty: bytes in either case -/
theorem revLookup_bytes (tbl order : List (List Nat × List Nat)) (val : List Nat)
    (hm : ∀ p, p ∈ order ↔ p ∈ tbl) (hk : ∀ p ∈ tbl, p.1 ≠ [])
    (hb : (tbl.all fun p => bytesB p.1) = true) : ∀ x ∈ revLookup order val, x < 256 := by
  rcases revLookup_spec order val (fun p hp => hk p ((hm p).mp hp)) with ⟨h0, _⟩ | ⟨_, ⟨w, hw, hw1, _⟩, _⟩
  · rw [h0]; intro x hx; cases hx
  · rw [← hw1]
    exact bytesB_sound _ (List.all_eq_true.mp hb w ((hm w).mp hw))

/-- what a key of the domain becomes on the OpenType side, and that `otfToBCP47` of it builds the
expected string -/
theorem keyOk_pair (so lo : List (List Nat × List Nat))
    (hso : ∀ p, p ∈ so ↔ p ∈ Gen.otScripts) (hlo : ∀ p, p ∈ lo ↔ p ∈ Gen.otLangs)
    (v : TagView) (str : List Nat) (h : KeyOk so lo v str) :
    ∃ s l, bcp47ToOtfView so lo v = some (s, l) ∧ (∀ x ∈ s, x < 256) ∧ (∀ x ∈ l, x < 256) ∧
      otfToBCP47Str Gen.otScripts Gen.otLangs s l = some str ∧
      (∃ val, (s, val) ∈ Gen.otScripts) ∧ (l = [] ∨ ∃ val, (l, val) ∈ Gen.otLangs) := by
  have ks := tagTableOK_keys _ otScripts_ok
  have kl := tagTableOK_keys _ otLangs_ok
  cases h with
  | ext p q hp hq =>
    have hs : OTScript p.1 := isOTScriptB_sound _ (List.all_eq_true.mp otScripts_shape p hp)
    have hsb := bytesB_sound _ (List.all_eq_true.mp tagKeys_bytes.1 p hp)
    have g1 : tagGet Gen.otScripts p.1 = some p.2 := tagGet_of_mem _ otScripts_ok _ _ hp
    simp only [List.mem_cons] at hq
    rcases hq with rfl | hq
    · refine ⟨p.1, [], tag_roundtrip p.1 [] hs (Or.inl rfl), hsb, ?_, ?_, ⟨p.2, hp⟩, Or.inl rfl⟩
      · intro x hx; cases hx
      · simp only [otfToBCP47Str, g1, tagGet_nil _ kl, if_true]
    · have hl : OTLang q.1 := isOTLangB_sound _ (List.all_eq_true.mp otLangs_shape q hq)
      have hlb := bytesB_sound _ (List.all_eq_true.mp tagKeys_bytes.2 q hq)
      refine ⟨p.1, q.1, tag_roundtrip p.1 q.1 hs hl, hsb, hlb, ?_, ⟨p.2, hp⟩, Or.inr ⟨q.2, hq⟩⟩
      have g2 : tagGet Gen.otLangs q.1 = some q.2 := tagGet_of_mem _ otLangs_ok _ _ hq
      simp only [otfToBCP47Str, g1, g2]
  | plain S L hS hL =>
    have e1 : (noExtToOtf so lo 0 L S).1 = revLookup so S := by simp [noExtToOtf]
    have e2 : (noExtToOtf so lo 0 L S).2 = revLookup lo L := by simp [noExtToOtf]
    refine ⟨(noExtToOtf so lo 0 L S).1, (noExtToOtf so lo 0 L S).2, rfl, ?_, ?_, ?_, ?_, ?_⟩
    rotate_left 3
    · rw [e1]
      obtain ⟨k, hk⟩ := hS
      rcases revLookup_spec so S (fun p hp => ks p ((hso p).mp hp)) with ⟨_, hno⟩ | ⟨_, ⟨w, hw, hw1, _⟩, _⟩
      · exact absurd rfl (hno (k, S) ((hso _).mpr hk))
      · exact ⟨w.2, by rw [← hw1]; exact (hso w).mp hw⟩
    · rw [e2]
      rcases revLookup_spec lo L (fun p hp => kl p ((hlo p).mp hp)) with ⟨h0, _⟩ | ⟨_, ⟨w, hw, hw1, _⟩, _⟩
      · exact Or.inl h0
      · exact Or.inr ⟨w.2, by rw [← hw1]; exact (hlo w).mp hw⟩
    · have : (noExtToOtf so lo 0 L S).1 = revLookup so S := by simp [noExtToOtf]
      rw [this]; exact revLookup_bytes Gen.otScripts so S hso ks tagKeys_bytes.1
    · have : (noExtToOtf so lo 0 L S).2 = revLookup lo L := by simp [noExtToOtf]
      rw [this]; exact revLookup_bytes Gen.otLangs lo L hlo kl tagKeys_bytes.2
    · apply noext_back Gen.otScripts Gen.otLangs so lo otScripts_ok otLangs_ok hso hlo S L hS
      rcases hL with h | h
      · exact Or.inl h
      · refine Or.inr ⟨h, fun p hp => ?_⟩
        have := List.all_eq_true.mp otTables_misc.1 p hp
        simpa using this

/-- **script list round trip, tags to tags**: keys → (`bcp47ToOtf`) → OpenType tag pairs →
(`SL.encode`, C08) → bytes → (`SL.readSized`, C08) → tag pairs → (`otfToBCP47`) → keys. -/
theorem scriptlist_roundtrip (so lo : List (List Nat × List Nat))
    (hso : ∀ p, p ∈ so ↔ p ∈ Gen.otScripts) (hlo : ∀ p, p ∈ lo ↔ p ∈ Gen.otLangs)
    (m : List SLItem) (strs : SLItem → List Nat) (hk : ∀ it ∈ m, KeyOk so lo it.key (strs it))
    (hin : SL.InputOk (toEntries so lo m)) (b : Bytes) (hb : SL.encode (toEntries so lo m) = .ok b)
    (tail : Bytes) (size : Nat) (hsize : (b ++ tail).length ≤ size) :
    ∃ r, SL.readSized size (b ++ tail) = .ok r ∧
      (∀ it ∈ m, ∃ e ∈ r, e.required = it.required ∧ e.optional = it.optional ∧
        backString e = some (strs it)) ∧
      (∀ e ∈ r, ∃ it ∈ m, e.required = it.required ∧ e.optional = it.optional ∧
        backString e = some (strs it)) := by
  obtain ⟨r, hr, hmem⟩ := SL.roundtrip (toEntries so lo m) hin b hb tail size hsize
  refine ⟨r, hr, ?_, ?_⟩
  · intro it hit
    obtain ⟨s, l, hv, hsb, hlb, hstr, _, _⟩ := keyOk_pair so lo hso hlo it.key (strs it) (hk it hit)
    refine ⟨⟨toBytes s, toBytes l, it.required, it.optional⟩, ?_, rfl, rfl, ?_⟩
    · apply (hmem _).mpr
      simp only [toEntries, List.mem_filterMap]
      exact ⟨it, hit, by rw [hv]; rfl⟩
    · simp only [backString, ofBytes_toBytes s hsb, ofBytes_toBytes l hlb, hstr]
  · intro e he
    have he' := (hmem e).mp he
    simp only [toEntries, List.mem_filterMap] at he'
    obtain ⟨it, hit, hmap⟩ := he'
    obtain ⟨s, l, hv, hsb, hlb, hstr, _, _⟩ := keyOk_pair so lo hso hlo it.key (strs it) (hk it hit)
    rw [hv] at hmap
    simp only [Option.map_some, Option.some.injEq] at hmap
    subst hmap
    refine ⟨it, hit, rfl, rfl, ?_⟩
    simp only [backString, ofBytes_toBytes s hsb, ofBytes_toBytes l hlb, hstr]

/-! ### C08's domain from this property's domain

C08's model recognises the tags `otfToBCP47` accepts through its own regenerated key lists
(`Gen.scriptBcp47Keys`, `Gen.langBcp47Keys`, strings in source order).  They are the same tables:
sorting them gives the key columns of `Gen.otScripts` / `Gen.otLangs` (kernel evaluation). -/

def insertKey (e : List Nat) : List (List Nat) → List (List Nat)
  | [] => [e]
  | x :: rest => if lexLe e x = true then e :: x :: rest else x :: insertKey e rest

def sortKeys (l : List (List Nat)) : List (List Nat) := l.foldr insertKey []

theorem mem_insertKey (e x : List Nat) (l : List (List Nat)) : x ∈ insertKey e l ↔ x = e ∨ x ∈ l := by
  induction l with
  | nil => simp [insertKey]
  | cons y rest ih =>
    unfold insertKey
    split
    · simp
    · simp only [List.mem_cons, ih]
      constructor
      · rintro (h | h | h)
        · exact Or.inr (Or.inl h)
        · exact Or.inl h
        · exact Or.inr (Or.inr h)
      · rintro (h | h | h)
        · exact Or.inr (Or.inl h)
        · exact Or.inl h
        · exact Or.inr (Or.inr h)

theorem mem_sortKeys (x : List Nat) (l : List (List Nat)) : x ∈ sortKeys l ↔ x ∈ l := by
  unfold sortKeys
  induction l with
  | nil => simp
  | cons y rest ih => simp only [List.foldr_cons, mem_insertKey, ih, List.mem_cons]

def strCodes (k : String) : List Nat := k.toUTF8.toList.map UInt8.toNat

theorem c08_keys_same :
    sortKeys (Gen.scriptBcp47Keys.map strCodes) = Gen.otScripts.map (·.1) ∧
    sortKeys (Gen.langBcp47Keys.map strCodes) = Gen.otLangs.map (·.1) := by
  constructor <;> decide +kernel

theorem toBytes_strCodes (k : String) : toBytes (strCodes k) = k.toUTF8.toList := by
  unfold toBytes strCodes
  rw [List.map_map]
  have : (UInt8.ofNat ∘ UInt8.toNat) = id := by
    funext x; simp
  rw [this, List.map_id]

theorem any_key (keys : List String) (t : List Nat) (h : t ∈ keys.map strCodes) :
    keys.any (fun k => k.toUTF8.toList == toBytes t) = true := by
  rw [List.mem_map] at h
  obtain ⟨k, hk, rfl⟩ := h
  rw [List.any_eq_true]
  exact ⟨k, hk, by rw [toBytes_strCodes]; exact beq_self_eq_true _⟩

/-- a pair of tags of this property's tables is `known` to C08's reader model -/
theorem known_of_tables (s l : List Nat) (hs : ∃ v, (s, v) ∈ Gen.otScripts)
    (hl : l = [] ∨ ∃ v, (l, v) ∈ Gen.otLangs) : SL.known (toBytes s) (toBytes l) = true := by
  unfold SL.known
  obtain ⟨v, hv⟩ := hs
  have h1 : s ∈ Gen.scriptBcp47Keys.map strCodes := by
    rw [← mem_sortKeys, c08_keys_same.1]
    exact List.mem_map.mpr ⟨(s, v), hv, rfl⟩
  rw [any_key _ s h1, Bool.true_and]
  rcases hl with rfl | ⟨w, hw⟩
  · simp [toBytes]
  · have h2 : l ∈ Gen.langBcp47Keys.map strCodes := by
      rw [← mem_sortKeys, c08_keys_same.2]
      exact List.mem_map.mpr ⟨(l, w), hw, rfl⟩
    rw [any_key _ l h2, Bool.or_true]

theorem otScript_len (s : List Nat) (h : ∃ v, (s, v) ∈ Gen.otScripts) : s.length = 4 := by
  obtain ⟨v, hv⟩ := h
  have hb := List.all_eq_true.mp otScripts_shape (s, v) hv
  unfold isOTScriptB at hb
  simp only [Bool.or_eq_true, Bool.and_eq_true, decide_eq_true_eq] at hb
  rcases hb with h | h
  · rw [h]; rfl
  · exact h.1.1.2

theorem otLang_len (l : List Nat) (h : ∃ v, (l, v) ∈ Gen.otLangs) : l.length = 4 := by
  obtain ⟨v, hv⟩ := h
  have hb := List.all_eq_true.mp otLangs_shape (l, v) hv
  have hne : l ≠ [] := tagTableOK_keys _ otLangs_ok (l, v) hv
  unfold isOTLangB at hb
  simp only [Bool.or_eq_true, Bool.and_eq_true, decide_eq_true_eq] at hb
  rcases hb with h | h
  · exact absurd h hne
  · exact h.1.1.2

/-- C08's domain follows from this property's domain: keys in `KeyOk`, 16-bit feature indices
(no optional index 0xFFFF) and distinct resulting tag pairs (distinct map keys that are not
twins of each other) -/
theorem inputOk_of_items (so lo : List (List Nat × List Nat))
    (hso : ∀ p, p ∈ so ↔ p ∈ Gen.otScripts) (hlo : ∀ p, p ∈ lo ↔ p ∈ Gen.otLangs)
    (m : List SLItem) (strs : SLItem → List Nat) (hk : ∀ it ∈ m, KeyOk so lo it.key (strs it))
    (hf : ∀ it ∈ m, it.required < 65536 ∧ it.optional.length < 65536 ∧ ∀ x ∈ it.optional, x < 65535)
    (hd : (toEntries so lo m).Pairwise fun a c => ¬ (a.script = c.script ∧ a.lang = c.lang)) :
    SL.InputOk (toEntries so lo m) := by
  refine ⟨?_, hd⟩
  intro e he
  simp only [toEntries, List.mem_filterMap] at he
  obtain ⟨it, hit, hmap⟩ := he
  obtain ⟨s, l, hv, _, _, _, hs, hl⟩ := keyOk_pair so lo hso hlo it.key (strs it) (hk it hit)
  rw [hv] at hmap
  simp only [Option.map_some, Option.some.injEq] at hmap
  subst hmap
  obtain ⟨f1, f2, f3⟩ := hf it hit
  refine ⟨⟨?_, f1, f2, f3, known_of_tables s l hs hl⟩, ?_⟩
  · simp only [toBytes, List.length_map]; exact otScript_len s hs
  · rcases hl with rfl | hl
    · exact Or.inl rfl
    · right; simp only [toBytes, List.length_map]; exact otLang_len l hl

end SfntV.Names
