/-
C19 — descriptions mixing lookups of different GSUB types: per-lookup items, the whole-text
lemma with per-lookup keyword and reader, and `roundtrip_gsub_lists`.
-/
import SfntV.Proofs.DslGsub4
set_option linter.unusedSimpArgs false
set_option linter.unusedVariables false
namespace SfntV.Dsl

/-! ### descriptions with lookups of different types -/

def normLookup (l : Lookup) : Lookup := { l with subtables := l.subtables.map normSub }

/-- a lookup whose keyword, dispatch and body are known to round-trip at fuel `F0` -/
def LookItemOk (f : Font) (F0 : Nat) (l : Lookup) : Prop :=
  ∃ (rd : PM Lookup),
    (TokOk tIdentifier (ascii ([71, 83, 85, 66] ++ decimal l.typ)) (some 58) ∧
      ∀ rb ∈ ascii ([71, 83, 85, 66] ++ decimal l.typ), Canon rb) ∧
    (∀ (t : Tok) (n : Nat) (acc : List Lookup) (s s1 : PS), readItem s = .ok (t, s1) →
      t.typ = tIdentifier → t.bytes = [71, 83, 85, 66] ++ decimal l.typ →
      parseLoop f F0 (n + 1) acc s = (rd >>= fun l' => parseLoop f F0 n (acc ++ [l'])) s1) ∧
    (∃ ps, bodyP f l = tk tColon [58] :: ps) ∧ Frag rd (bodyP f l) (normLookup l) LookStop Safe

def gsubText (f : Font) (ls : List Lookup) : List Piece :=
  ls.flatMap fun l => tk tIdentifier ([71, 83, 85, 66] ++ decimal l.typ) :: (bodyP f l ++ [eolP])

theorem parse_text_mixed (f : Font) (F0 : Nat) : ∀ (ls : List Lookup), (∀ l ∈ ls, LookItemOk f F0 l) →
    ChainOk (gsubText f ls) none ∧ (∀ rb ∈ render (gsubText f ls), Canon rb) ∧
    (∀ (line n : Nat) (acc : List Lookup) (s : PS) (e : Tok) (rest : List Tok), 2 * ls.length < n →
      s.stream = mkToks line (gsubText f ls) ++ e :: rest → e.typ = tEOF →
      ∃ s', parseLoop f F0 n acc s = .ok (acc ++ ls.map normLookup, s')) := by
  intro ls
  induction ls with
  | nil =>
    intro _
    refine ⟨trivial, by simp [render, gsubText], ?_⟩
    intro line n acc s e rest hn hs he
    cases n with
    | zero => omega
    | succ m =>
      obtain ⟨s1, e1, _⟩ := readItem_stream s e rest (by simpa [mkToks, gsubText] using hs)
      exact ⟨s1, by rw [parseLoop_eof f F0 m acc s s1 e e1 he]; simp⟩
  | cons l ls ih =>
    intro hall
    obtain ⟨rd, hkw, hdisp, ⟨ps, hq⟩, hfrag⟩ := hall l (by simp)
    obtain ⟨ih1, ih2, ih3⟩ := ih (fun x hx => hall x (by simp [hx]))
    have htext : gsubText f (l :: ls) =
        [tk tIdentifier ([71, 83, 85, 66] ++ decimal l.typ)] ++ (bodyP f l ++ ([eolP] ++ gsubText f ls)) := by
      simp [gsubText]
    rw [htext]
    refine ⟨?_, ?_, ?_⟩
    · have hnx : nextRune (bodyP f l ++ ([eolP] ++ gsubText f ls)) none = some 58 := by
        rw [hq]; simp [nextRune, render, tk, ascii, Piece.rbs]
      show ChainOk (Piece.tok tIdentifier (ascii ([71, 83, 85, 66] ++ decimal l.typ)) :: (bodyP f l ++ ([eolP] ++ gsubText f ls))) none
      refine ⟨by rw [hnx]; exact hkw.1, ?_⟩
      apply chain_append
      · have : nextRune ([eolP] ++ gsubText f ls) none = some 10 := by
          simp [nextRune, render, eolP, tk, ascii, Piece.rbs]
        rw [this]
        exact hfrag.chain _ safe_eol
      · exact ⟨eol_tokOk _, ih1⟩
    · intro rb hrb
      simp only [render_append, List.mem_append] at hrb
      rcases hrb with hrb | hrb | hrb | hrb
      · apply hkw.2; simpa [render, tk, Piece.rbs] using hrb
      · exact hfrag.canon rb hrb
      · simp [render, eolP, tk, ascii, Piece.rbs] at hrb; subst hrb; exact canon_ascii 10 (by decide)
      · exact ih2 rb hrb
    · intro line n acc s e rest hn hs he
      cases n with
      | zero => simp at hn
      | succ m =>
        cases m with
        | zero => simp at hn
        | succ m' =>
          simp only [mkToks_append, List.append_assoc] at hs
          have hk : mkToks line [tk tIdentifier ([71, 83, 85, 66] ++ decimal l.typ)] =
              [{ typ := tIdentifier, val := ascii ([71, 83, 85, 66] ++ decimal l.typ), line := line }] := by
            simp [mkToks, tk]
          rw [hk] at hs
          obtain ⟨s1, e1, hs1⟩ := readItem_stream s _ _ (by simpa using hs)
          rw [hdisp _ (m' + 1) acc s s1 e1 rfl (by simp [Tok.bytes, ascii_bytes])]
          have hl : ∀ s' : List Nat, endLine line [tk tIdentifier s'] = line := by
            intro s'; simp [endLine, tk, nextLine, tIdentifier, tEOL]
          simp only [hl] at hs1
          have hm : mkToks (endLine line (bodyP f l)) [eolP] =
              [{ typ := tEOL, val := [a1 10], line := endLine line (bodyP f l) }] := by
            simp [mkToks, eolP, tk, ascii, a1]
          rw [hm] at hs1
          obtain ⟨s2, e2, hs2⟩ := hfrag.runs line s1 _ _ (by simpa using hs1) (Or.inl rfl)
          rw [bind_run, e2]
          simp only []
          obtain ⟨s3, e3, hs3⟩ := readItem_stream s2 _ _ hs2
          rw [parseLoop_eol f F0 m' _ s2 s3 _ e3 rfl]
          obtain ⟨s4, e4⟩ := ih3 _ m' (acc ++ [normLookup l]) s3 e rest (by simp at hn; omega) (by simpa using hs3) he
          exact ⟨s4, by rw [e4]; simp⟩

/-- what a lookup type has to provide -/
structure LookForm (f : Font) (k : Nat) (rd : Nat → PM Lookup) (one : Nat → PM Subtable) (Ok : Subtable → Prop) : Prop where
  form : SubForm f one Ok
  hrd : ∀ fuel, rd fuel = (header fuel >>= fun flags => subtablesLoop (one fuel) fuel [] >>= fun subs =>
      pure ({ typ := k, flags := flags, subtables := subs } : Lookup))
  hkw : TokOk tIdentifier (ascii ([71, 83, 85, 66] ++ decimal k)) (some 58) ∧
      ∀ rb ∈ ascii ([71, 83, 85, 66] ++ decimal k), Canon rb
  hdisp : ∀ (fuel : Nat) (t : Tok) (n : Nat) (acc : List Lookup) (s s1 : PS), readItem s = .ok (t, s1) →
      t.typ = tIdentifier → t.bytes = [71, 83, 85, 66] ++ decimal k →
      parseLoop f fuel (n + 1) acc s = (rd fuel >>= fun l => parseLoop f fuel n (acc ++ [l])) s1

theorem item_of_form (f : Font) (k : Nat) (rd : Nat → PM Lookup) (one : Nat → PM Subtable) (Ok : Subtable → Prop)
    (F : LookForm f k rd one Ok) (l : Lookup) (h1 : l.typ = k) (h2 : l.flags < 16) (h3 : l.subtables ≠ [])
    (h4 : ∀ st ∈ l.subtables, Ok st) (F0 : Nat) (hF : tokCount (bodyP f l) + 5 ≤ F0) : LookItemOk f F0 l := by
  refine ⟨rd F0, by rw [h1]; exact F.hkw, by rw [h1]; exact F.hdisp F0, ?_⟩
  cases hs : l.subtables with
  | nil => exact absurd hs h3
  | cons st more =>
    have hb : bodyP f l = ([tk tColon [58]] ++ explainFlags l.flags) ++
        (((newExplainer f).subtable true st ++
          (more.map fun st' => ((newExplainer f).subtable false st', normSub st')).flatMap (fun q => orSep ++ q.1)) ++ []) := by
      simp [bodyP, hs]
    refine ⟨⟨_, by rw [hb]; rfl⟩, ?_⟩
    rw [hb] at hF ⊢
    rw [F.hrd]
    have hst : Ok st := h4 st (by rw [hs]; simp)
    have hmore : ∀ st' ∈ more, Ok st' := fun st' h' => h4 st' (by rw [hs]; simp [h'])
    simp only [tokCount_append, tokCount, tk] at hF
    have hflat : ∀ st' ∈ more, tokCount ((newExplainer f).subtable false st') ≤
        tokCount ((more.map fun st' => ((newExplainer f).subtable false st', normSub st')).flatMap (fun q => orSep ++ q.1)) := by
      intro st' h'
      have := tokCount_flatMap_mem (fun q : List Piece × Subtable => orSep ++ q.1)
        (more.map fun st' => ((newExplainer f).subtable false st', normSub st')) ((newExplainer f).subtable false st', normSub st')
        (List.mem_map.mpr ⟨st', h', rfl⟩)
      simp only [tokCount_append] at this
      omega
    have hlenm : more.length ≤ tokCount ((more.map fun st' => ((newExplainer f).subtable false st', normSub st')).flatMap (fun q => orSep ++ q.1)) := by
      have := length_le_tokCount_flatMap (fun q : List Piece × Subtable => orSep ++ q.1)
        (more.map fun st' => ((newExplainer f).subtable false st', normSub st')) (by
          intro x _; simp [tokCount_append, orSep, sp, tab, eolP, tk, tokCount])
      simpa using this
    have := frag_lookupBody (one F0) k l.flags h2 F0 ((newExplainer f).subtable true st) (normSub st)
      (more.map fun st' => ((newExplainer f).subtable false st', normSub st'))
      (F.form.frag st hst true F0 (by omega))
      (by
        intro q hq
        simp only [List.mem_map] at hq
        obtain ⟨st', h', rfl⟩ := hq
        exact F.form.frag st' (hmore st' h') false F0 (by have := hflat st' h'; omega))
      (F.form.start st hst true) (F.form.head st hst true)
      ⟨by have : Gen.dslExplainFlagsC.length = 4 := by decide
          omega, by simp; omega⟩
    simpa [List.map_map, Function.comp_def, h1, normLookup, hs] using this

theorem explainGsubP_text (f : Font) (ls : List Lookup) (h : ∀ l ∈ ls, l.subtables ≠ []) :
    explainGsubP f ls = gsubText f ls := by
  unfold explainGsubP gsubText
  apply flatMap_congr'
  intro l hl
  rw [lookupBody_eq f _ l (h l hl)]
  simp

/-- the round trip for a description whose lookups each satisfy `LookItemOk` at the fuel the
parser will use -/
theorem roundtrip_of_items (f : Font) (ls : List Lookup) (hne : ∀ l ∈ ls, l.subtables ≠ [])
    (hitems : ∀ l ∈ ls, LookItemOk f (tokCount (gsubText f ls) + 3) l) :
    parseBytes f (explainGsub f ls) = .ok (normalize ls) := by
  obtain ⟨hchain, hcanon, hparse⟩ := parse_text_mixed f _ ls hitems
  have htext := explainGsubP_text f ls hne
  obtain ⟨e, he, hlex⟩ := lex_render _ hchain hcanon
  unfold parseBytes parseRunes parseToks explainGsub
  rw [htext]
  have hlex' : lexRunes (decodeUtf8 (renderBytes (gsubText f ls))) = mkToks 1 (gsubText f ls) ++ [e] := hlex
  rw [hlex']
  have hlen : (mkToks 1 (gsubText f ls) ++ [e]).length + 2 = tokCount (gsubText f ls) + 3 := by
    simp [mkToks_length]
  simp only [hlen]
  have h2 : ∀ (l : List Lookup), 2 * l.length ≤ tokCount (gsubText f l) := by
    intro l
    induction l with
    | nil => simp [tokCount, gsubText]
    | cons x l ih => simp [gsubText, tokCount, tk, tokCount_append, eolP] at ih ⊢; omega
  obtain ⟨s', hs'⟩ := hparse 1 (tokCount (gsubText f ls) + 3) []
    { toks := mkToks 1 (gsubText f ls) ++ [e], backlog := [], last := zeroTok } e []
    (by have := h2 ls; omega) (by simp [PS.stream]) he
  simp only [StateT.run]
  rw [hs']
  simp [normalize, normLookup]

theorem form2 (f : Font) (hf : FontOk f) : LookForm f 2 (readGsub2 f) (gsub2Sub f) (Gsub2Sub f) :=
  ⟨gsub2_form f hf, fun _ => rfl, gsub_kw_ok 2 (by decide), gsub2_dispatch f⟩
theorem form3 (f : Font) (hf : FontOk f) : LookForm f 3 (readGsub3 f) (gsub3Sub f) (Gsub3Sub f) :=
  ⟨gsub3_form f hf, fun _ => rfl, gsub_kw_ok 3 (by decide), gsub3_dispatch f⟩
theorem form4 (f : Font) (hf : FontOk f) : LookForm f 4 (readGsub4 f) (gsub4Sub f) (Gsub4Sub f) :=
  ⟨gsub4_form f hf, fun _ => rfl, gsub_kw_ok 4 (by decide), gsub4_dispatch f⟩

/-- lookups of the GSUB types whose round trip is proved in general -/
def GsubLookOk (f : Font) (l : Lookup) : Prop := Lookup2Ok f l ∨ Lookup3Ok f l ∨ Lookup4Ok f l

theorem gsubLookOk_ne (f : Font) (l : Lookup) (h : GsubLookOk f l) : l.subtables ≠ [] := by
  rcases h with h | h | h <;> exact h.ne

theorem gsubLookOk_norm (f : Font) (l : Lookup) (h : GsubLookOk f l) : normLookup l = l := by
  have : l.subtables.map normSub = l.subtables := by
    rw [List.map_congr_left (g := id)]
    · simp
    · intro st hst
      rcases h with h | h | h
      · obtain ⟨_, _, rfl, _⟩ := h.subs st hst; rfl
      · obtain ⟨_, _, rfl, _⟩ := h.subs st hst; rfl
      · obtain ⟨_, _, rfl, _⟩ := h.subs st hst; rfl
  simp [normLookup, this]

/-- descriptions mixing lookups of GSUB types 2, 3 and 4 -/
theorem roundtrip_gsub_lists (f : Font) (hf : FontOk f) (ls : List Lookup) (h : ∀ l ∈ ls, GsubLookOk f l) :
    parseBytes f (explainGsub f ls) = .ok ls := by
  have hne : ∀ l ∈ ls, l.subtables ≠ [] := fun l hl => gsubLookOk_ne f l (h l hl)
  have := roundtrip_of_items f ls hne (by
    intro l hl
    have hb : tokCount (bodyP f l) + 5 ≤ tokCount (gsubText f ls) + 3 := by
      have := tokCount_flatMap_mem (fun l => tk tIdentifier ([71, 83, 85, 66] ++ decimal l.typ) :: (bodyP f l ++ [eolP])) ls l hl
      simp only [gsubText]
      simp [tokCount_append, tokCount, tk, eolP] at this ⊢
      omega
    rcases h l hl with h2 | h3 | h4
    · exact item_of_form f 2 _ _ _ (form2 f hf) l h2.typ h2.flags h2.ne h2.subs _ hb
    · exact item_of_form f 3 _ _ _ (form3 f hf) l h3.typ h3.flags h3.ne h3.subs _ hb
    · exact item_of_form f 4 _ _ _ (form4 f hf) l h4.typ h4.flags h4.ne h4.subs _ hb)
  have hn : normalize ls = ls := by
    unfold normalize
    rw [List.map_congr_left (g := id)]
    · simp
    · intro l hl
      exact gsubLookOk_norm f l (h l hl)
  rw [hn] at this
  exact this

end SfntV.Dsl
