/-
The drawing operators do not touch the transient array (C05: `get`).  Generated from the proofs of
T2Progress.lean (`Keeps`) with the relation `Sto`.
-/
import SfntV.Proofs.T2Progress

set_option linter.unusedSimpArgs false
set_option linter.unusedVariables false

namespace SfntV.T2
open SfntV SfntV.Spec.T2

/-- the drawing helpers do not touch the transient array -/
def Sto (s s' : St) : Prop := s'.storage = s.storage

theorem Sto.refl (s : St) : Sto s s := rfl

theorem Sto.trans {a b c : St} (h1 : Sto a b) (h2 : Sto b c) : Sto a c := by
  unfold Sto at *; rw [h2, h1]

theorem sto_rLineTo (q : Quirks) (s : St) (dx dy : Int) : Sto s (rLineTo q s dx dy) := rfl

theorem sto_rCurveTo (q : Quirks) (s : St) (a b c d e f : Int) : Sto s (rCurveTo q s a b c d e f) := rfl

theorem sto_rlineLoop (q : Quirks) (s : St) (l : List Int) : Sto s (rlineLoop q s l) := by
  fun_induction rlineLoop q s l with
  | case1 s dx dy t ih => exact (sto_rLineTo q s dx dy).trans ih
  | case2 s l hl => exact Sto.refl _

theorem sto_altLineLoop (q : Quirks) (h : Bool) (s : St) (l : List Int) : Sto s (altLineLoop q h s l) := by
  fun_induction altLineLoop q h s l with
  | case1 h s => exact Sto.refl _
  | case2 h s z t ih =>
    refine Sto.trans ?_ ih
    split
    · exact sto_rLineTo q s z 0
    · exact sto_rLineTo q s 0 z

theorem sto_curveLoop (q : Quirks) (s : St) (l : List Int) : Sto s (curveLoop q s l).1 := by
  fun_induction curveLoop q s l with
  | case1 s a b c d e f t ih => exact (sto_rCurveTo q s a b c d e f).trans ih
  | case2 s l hl => exact Sto.refl _

theorem sto_hhLoop (q : Quirks) (s : St) (d : Int) (l : List Int) : Sto s (hhLoop q s d l) := by
  fun_induction hhLoop q s d l with
  | case1 s dy1 a b c d t ih => exact (sto_rCurveTo q s _ _ _ _ _ _).trans ih
  | case2 s d l hl => exact Sto.refl _

theorem sto_vvLoop (q : Quirks) (s : St) (d : Int) (l : List Int) : Sto s (vvLoop q s d l) := by
  fun_induction vvLoop q s d l with
  | case1 s dx1 a b c d t ih => exact (sto_rCurveTo q s _ _ _ _ _ _).trans ih
  | case2 s d l hl => exact Sto.refl _

theorem sto_hvLoop (q : Quirks) (h : Bool) (s : St) (l : List Int) : Sto s (hvLoop q h s l) := by
  fun_induction hvLoop q h s l with
  | case1 h s a b c d t extra ih =>
    refine Sto.trans ?_ ih
    split
    · exact sto_rCurveTo q s _ _ _ _ _ _
    · exact sto_rCurveTo q s _ _ _ _ _ _
  | case2 h s l hl => exact Sto.refl _


theorem sto_flexMatch13 (q : Quirks) (s : St) : Sto s
    (match s.stack with
      | a0 :: a1 :: a2 :: a3 :: a4 :: a5 :: a6 :: a7 :: a8 :: a9 :: a10 :: a11 :: _ :: _ =>
        rCurveTo q (rCurveTo q s a0 a1 a2 a3 a4 a5) a6 a7 a8 a9 a10 a11
      | _ => s) := by
  split
  · exact (sto_rCurveTo q s _ _ _ _ _ _).trans (sto_rCurveTo q _ _ _ _ _ _ _)
  · exact Sto.refl _

/-- a path operator with a legal operand count is executed by the strict interpreter: the stack is
cleared and nothing but the path changes -/
theorem exec_pathop_sto (env : Env) (s : St) (op : Op) (code : List Nat)
    (hp : isPathOp op = true) (hl : legalCount op s.stack.length = true) :
    ∃ s', exec strict env s op code = .ok (.cont (clear s') code) ∧ Sto s s' := by
  cases op <;> simp only [isPathOp, Bool.false_eq_true] at hp <;>
    simp only [legalCount, Bool.and_eq_true, decide_eq_true_eq, beq_iff_eq] at hl <;>
    simp only [exec]
  case rlineto =>
    exact ⟨_, pathOp_ok s code _ _ _ (by omega) (by simp; omega), sto_rlineLoop _ _ _⟩
  case hlineto =>
    exact ⟨_, pathOp_ok s code _ _ _ (by omega) rfl, sto_altLineLoop _ _ _ _⟩
  case vlineto =>
    exact ⟨_, pathOp_ok s code _ _ _ (by omega) rfl, sto_altLineLoop _ _ _ _⟩
  case rrcurveto =>
    exact ⟨_, pathOp_ok s code _ _ _ (by omega) (by simp; omega), sto_curveLoop _ _ _⟩
  case rcurveline =>
    refine ⟨_, pathOp_ok s code _ _ _ (by omega) (by simp; omega), ?_⟩
    have hk := sto_curveLoop strict s s.stack
    split
    · rename_i s1 dx dy t heq
      rw [heq] at hk
      exact hk.trans (sto_rLineTo _ _ _ _)
    · rename_i s1 t hne heq
      rw [heq] at hk
      exact hk
  case rlinecurve =>
    refine ⟨_, pathOp_ok s code _ _ _ (by omega) (by simp; omega), ?_⟩
    have h1 := sto_rlineLoop strict s (s.stack.take (2 * ((s.stack.length - 6) / 2)))
    exact h1.trans (sto_curveLoop _ _ _)
  case hhcurveto =>
    refine ⟨_, pathOp_ok s code _ _ _ (by omega) (by simp; omega), ?_⟩
    split
    · split
      · exact sto_hhLoop _ _ _ _
      · exact Sto.refl _
    · exact sto_hhLoop _ _ _ _
  case vvcurveto =>
    refine ⟨_, pathOp_ok s code _ _ _ (by omega) (by simp; omega), ?_⟩
    split
    · split
      · exact sto_vvLoop _ _ _ _
      · exact Sto.refl _
    · exact sto_vvLoop _ _ _ _
  case hvcurveto =>
    exact ⟨_, pathOp_ok s code _ _ _ (by omega) (by simp; omega), sto_hvLoop _ _ _ _⟩
  case vhcurveto =>
    exact ⟨_, pathOp_ok s code _ _ _ (by omega) (by simp; omega), sto_hvLoop _ _ _ _⟩
  case flex =>
    refine ⟨_, pathOp_ok s code _ _ _ (by omega) (by simp; omega), ?_⟩
    split
    · exact (sto_rCurveTo _ s _ _ _ _ _ _).trans (sto_rCurveTo _ _ _ _ _ _ _ _)
    · exact Sto.refl _
  case flex1 =>
    refine ⟨_, pathOp_ok s code _ _ _ (by omega) (by simp; omega), ?_⟩
    split
    · split
      · exact (sto_rCurveTo _ s _ _ _ _ _ _).trans (sto_rCurveTo _ _ _ _ _ _ _ _)
      · exact (sto_rCurveTo _ s _ _ _ _ _ _).trans (sto_rCurveTo _ _ _ _ _ _ _ _)
    · exact Sto.refl _
  case hflex =>
    refine ⟨_, pathOp_ok s code _ _ _ (by omega) (by simp; omega), ?_⟩
    split
    · exact (sto_rCurveTo _ s _ _ _ _ _ _).trans (sto_rCurveTo _ _ _ _ _ _ _ _)
    · exact Sto.refl _
  case hflex1 =>
    refine ⟨_, pathOp_ok s code _ _ _ (by omega) (by simp; omega), ?_⟩
    split
    · exact (sto_rCurveTo _ s _ _ _ _ _ _).trans (sto_rCurveTo _ _ _ _ _ _ _ _)
    · exact Sto.refl _

end SfntV.T2
