/-
C02 (decoders are total), group gtablists: bridging lemmas from the checked-index models
(`SfntV.Total.GtabLists`) to the value-level models of C08 (`SfntV.Otl.SL`, Model/OtlScriptList.lean):
the read primitives (`readU16` = `u16b`, a word of a buffer just read = `u16b` of the input) and the
LangSys layer: erasing panic sites and costs from `readLangSysTable` gives `SL.readLangSys` on EVERY
input (`readLangSysTable_erase`).  The script-table / script-list / feature-list layers are not
bridged here (the differential stream `tmgtablists.*` compares them with the real code instead).
-/
import SfntV.Proofs.TotalGtabLists
import SfntV.Model.OtlScriptList

namespace SfntV.Total.GtabLists
open SfntV SfntV.Total SfntV.Total.Gdef
open SfntV.Otl (eIO eUnsupported)
open SfntV.Otl.SL (u16b wordsAt readLangSys)

/-- erasing the cost from an outcome -/
def eraseCost (f : α → β) : Outcome (α × Cost) → Outcome β
  | .ok (v, _) => .ok (f v)
  | .err e => .err e
  | .panic s => .panic s

theorem u16b_eq (b : Bytes) (p : Nat) :
    u16b b p = if h : p + 1 < b.length then .ok (be b[p] b[p+1]) else .err "io" := by
  unfold u16b
  by_cases h : p + 1 < b.length
  · rw [dif_pos h, List.getElem?_eq_getElem (show p < b.length by omega),
      List.getElem?_eq_getElem h]
    rfl
  · rw [dif_neg h]
    have : b[p + 1]? = none := List.getElem?_eq_none (by omega)
    rw [this]
    cases b[p]? <;> rfl

/-- a checked word read out of a buffer just read is the value-level read of the input -/
theorem w16_readBytes {site s : String} {b : Bytes} {q n k : Nat} {buf : Bytes}
    (h : readBytes site b q n = .ok buf) (hk : k + 2 ≤ n) : w16 s buf k = u16b b (q + k) := by
  obtain ⟨hl, hq⟩ := readBytes_ok_length h
  unfold readBytes at h
  split at h
  · cases h
  · cases h
    rw [u16b_eq, dif_pos (by omega)]
    unfold w16
    rw [idx_ok _ _ k (by omega), idx_ok _ _ (k + 1) (by omega)]
    simp only [List.getElem_take, List.getElem_drop]
    rfl

theorem readU16_eq_u16b (site : String) (b : Bytes) (q : Nat) : readU16 site b q = u16b b q := by
  unfold readU16
  cases h : readBytes site b q 2 with
  | ok w => exact w16_readBytes (k := 0) h (by omega)
  | err e =>
    unfold readBytes at h
    rw [if_neg (by omega)] at h
    split at h
    · cases h
    · cases h
      rw [u16b_eq, dif_neg (by omega)]
      rfl
  | panic s =>
    have := readBytes_noPanic site b q 2 (by omega)
    rw [h] at this
    exact this.elim

/-- the loop of `readLangSysTable` against `wordsAt`: the slots `i, i+1, …` of the zero-filled
slice receive the words read, with 0xFFFF left as 0 -/
theorem langSysLoop_erase (b : Bytes) : ∀ (n q : Nat) (pre : List Nat) (c : Cost),
    eraseCost id (langSysLoop b n q pre.length (pre ++ List.replicate n 0) c) =
      match wordsAt b q n with
      | .ok ws => .ok (pre ++ ws.map fun i => if i == 0xFFFF then 0 else i)
      | .err e => .err e
      | .panic s => .panic s
  | 0, q, pre, c => by
    simp [langSysLoop, wordsAt, eraseCost]
  | n+1, q, pre, c => by
    unfold langSysLoop wordsAt
    rw [readU16_eq_u16b]
    cases hv : u16b b q with
    | err e => rfl
    | panic s => rfl
    | ok v =>
      rw [ok_bind]
      have hrep : pre ++ List.replicate (n + 1) 0 = (pre ++ [0]) ++ List.replicate n 0 := by
        rw [List.replicate_succ, List.append_assoc]; rfl
      split
      · rename_i hff
        have ih := langSysLoop_erase b n (q + 2) (pre ++ [0]) c.tick
        rw [List.length_append, List.length_singleton] at ih
        rw [hrep, ih]
        cases wordsAt b (q + 2) n with
        | ok ws => simp [hff]
        | err e => rfl
        | panic s => rfl
      · rename_i hff
        rw [setIdx_ok _ _ _ _ (by simp), ok_bind]
        have hset : (pre ++ List.replicate (n + 1) 0).set pre.length v =
            (pre ++ [v]) ++ List.replicate n 0 := by
          rw [List.replicate_succ, List.set_append_right _ _ (by omega)]
          simp
        have ih := langSysLoop_erase b n (q + 2) (pre ++ [v]) c.tick
        rw [List.length_append, List.length_singleton] at ih
        rw [hset, ih]
        cases wordsAt b (q + 2) n with
        | ok ws => simp [hff]
        | err e => rfl
        | panic s => rfl

/-- BRIDGE: erasing sites and costs from the checked model of `readLangSysTable` gives the
value-level model `SfntV.Otl.SL.readLangSys` (C08) on every input -/
theorem readLangSysTable_erase (b : Bytes) (pos : Nat) :
    eraseCost (fun ff => (ff.required, ff.optional)) (readLangSysTable b pos) = readLangSys b pos := by
  unfold readLangSysTable readLangSys
  cases hd : readBytes "scriptlist.go:177#ReadBytes(6)" b pos 6 with
  | panic s =>
    have := readBytes_noPanic "scriptlist.go:177#ReadBytes(6)" b pos 6 (by omega)
    rw [hd] at this
    exact this.elim
  | err e =>
    unfold readBytes at hd
    rw [if_neg (by omega)] at hd
    split at hd
    · cases hd
    · cases hd
      -- one of the three words is missing
      have h3 : wordsAt b pos 3 = .err eIO := by
        simp only [wordsAt, u16b_eq]
        by_cases h0 : pos + 1 < b.length
        · rw [dif_pos h0]
          by_cases h1 : pos + 2 + 1 < b.length
          · rw [dif_pos h1, dif_neg (by omega)]; rfl
          · rw [dif_neg h1]; rfl
        · rw [dif_neg h0]; rfl
      rw [h3]; rfl
  | ok data =>
    obtain ⟨hl, hq⟩ := readBytes_ok_length hd
    rw [ok_bind, w16_readBytes (k := 0) hd (by omega), w16_readBytes (k := 2) hd (by omega),
      w16_readBytes (k := 4) hd (by omega)]
    simp only [wordsAt, Nat.add_zero]
    rw [show pos + 2 + 2 = pos + 4 from rfl]
    have e0 : u16b b pos = .ok (be b[pos] b[pos+1]) := by rw [u16b_eq, dif_pos (by omega)]
    have e1 : u16b b (pos + 2) = .ok (be b[pos+2] b[pos+2+1]) := by rw [u16b_eq, dif_pos (by omega)]
    have e2 : u16b b (pos + 4) = .ok (be b[pos+4] b[pos+4+1]) := by rw [u16b_eq, dif_pos (by omega)]
    rw [e0, e1, e2]
    simp only [ok_bind]
    have hlt : be b[pos+4] b[pos+4+1] < 65536 := by
      unfold be
      have h1 := b[pos+4].toNat_lt
      have h2 := b[pos+4+1].toNat_lt
      omega
    by_cases hz : be b[pos] b[pos+1] = 0
    · rw [if_neg (by omega), mkSlice_ok _ _ _ hlt, ok_bind]
      have hl := langSysLoop_erase b (be b[pos+4] b[pos+4+1]) (pos + 6) [] (Cost.zero.tick.mem (be b[pos+4] b[pos+4+1]))
      simp only [List.length_nil, List.nil_append] at hl
      have hne : (be b[pos] b[pos+1] != 0) = false := by simp [hz]
      rw [hne]
      simp only [Bool.false_eq_true, if_false]
      revert hl
      cases langSysLoop b (be b[pos+4] b[pos+4+1]) (pos + 6) 0 (List.replicate (be b[pos+4] b[pos+4+1]) 0) (Cost.zero.tick.mem (be b[pos+4] b[pos+4+1])) with
      | ok r =>
        obtain ⟨fi, c⟩ := r
        intro hl
        simp only [eraseCost, id] at hl
        cases hw : wordsAt b (pos + 6) (be b[pos+4] b[pos+4+1]) with
        | ok ws => rw [hw] at hl; cases hl; rfl
        | err e => rw [hw] at hl; cases hl
        | panic s => rw [hw] at hl; cases hl
      | err e =>
        intro hl
        simp only [eraseCost] at hl
        cases hw : wordsAt b (pos + 6) (be b[pos+4] b[pos+4+1]) with
        | ok ws => rw [hw] at hl; cases hl
        | err e' => rw [hw] at hl; cases hl; rfl
        | panic s => rw [hw] at hl; cases hl
      | panic s =>
        intro hl
        simp only [eraseCost] at hl
        cases hw : wordsAt b (pos + 6) (be b[pos+4] b[pos+4+1]) with
        | ok ws => rw [hw] at hl; cases hl
        | err e' => rw [hw] at hl; cases hl
        | panic s' => rw [hw] at hl; cases hl; rfl
    · rw [if_pos hz]
      have hne : (be b[pos] b[pos+1] != 0) = true := by simp [hz]
      rw [hne]
      rfl

end SfntV.Total.GtabLists
