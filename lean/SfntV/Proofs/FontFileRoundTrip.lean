/-
C01 (bytes) — `readFile (writeFile F) = nfFile F`: the container lemma (C03), the per-table
lemmas (C12, C14, C11) and the record-level theorem `read_write` of this property, assembled.
Stage 2: TrueType outlines with cmap table and glyph names.  Stage 4': GDEF / GSUB / GPOS carried
as encoded bytes, their decoders abstract (`LayoutDec`), C08's round trip as a guard.
-/
import SfntV.Proofs.FontFileHeader
import SfntV.Proofs.FontFileTables

namespace SfntV.FontFile
open SfntV SfntV.Font

/-- `enc.LocaFormat` of `Glyphs.Encode` -/
def locaFmt (gs : Glyf.Glyphs) : Int := if Glyf.glyfSize gs ≤ 0xffff then 0 else 1

/-- the `head.Info` `Write` encodes -/
def headInfoOf (F : FileFont) : Metrics.Head :=
  headOf (deriveHead (metaOf F)) (Metrics.fontBBoxModel (F.glyphs.map rectOf)) (locaFmt F.glyphs)

/-- the `os2.Info` `Read` gets back -/
def os2InfoOf (F : FileFont) : Metrics.Os2 :=
  let win := Metrics.winMetricsModel (Metrics.fontBBoxModel (F.glyphs.map rectOf))
  let ci := charIndices F.cmap
  os2Read (deriveOs2 (metaOf F)) ⟨ci.1, ci.2, win.1, win.2⟩

/-- The domain of the byte-level round trip: the conjunction of the guards of the codec theorems
that are composed (each field names its source), plus the shape restrictions of stage 1. -/
structure InDomainFile (ld : LayoutDec) (ef : EnvF) (F : FileFont) : Prop where
  /-- C11: at least one glyph, 16-bit header fields, well-formed glyph data, glyf table < 4 GiB -/
  glyphs : SfntV.Props.C11.WFGlyphs F.glyphs
  /-- maxp: numGlyphs is a uint16 -/
  count : F.glyphs.length < 65536
  /-- one int16 advance width per glyph -/
  widthsLen : F.widths.length = F.glyphs.length
  widthsRange : ∀ w ∈ F.widths, isInt16 w
  /-- bounding boxes: xMin as int16 (left side bearings of hmtx) -/
  extents : ∀ e ∈ F.glyphs.map rectOf, isInt16 e.llx
  /-- maxp version 1.0: thirteen uint16 maxima -/
  maxp : F.maxpTtf.length = 13 ∧ ∀ v ∈ F.maxpTtf, v < 65536
  /-- C12 head: revision, unitsPerEm, bounding box, loca format in range -/
  head : Metrics.HeadDom (headInfoOf F)
  ctime : timeInRange F.scalars.creationTime
  mtime : timeInRange F.scalars.modificationTime
  /-- C12 OS/2: REGULAR excludes BOLD and ITALIC, heights ≥ 0, fsType value 0..3, fields in range -/
  os2 : Metrics.Os2Dom (os2InfoOf F)
  /-- C12 hhea: vertical metrics and the caret slope are int16 -/
  ascent : isInt16 F.scalars.ascent
  descent : isInt16 F.scalars.descent
  lineGap : isInt16 F.scalars.lineGap
  caret : isInt16 (ef.riseRun F.scalars.italicAngle).1 ∧ isInt16 (ef.riseRun F.scalars.italicAngle).2
  /-- C14 name: strings are Unicode scalar values, representable in Mac Roman (the Macintosh copy
  of the table), records and string storage below 64 KiB -/
  name : Names.NameDom Gen.appleBCP Gen.msBCP (Names.sortLangs Gen.appleBCP) (Names.sortLangs Gen.msBCP)
    (nameEntries (deriveName ef.env (metaOf F))) 1
  /-- C09: every cmap subtable is a well-formed subtable under its key (length field, language),
  fewer than 65536 subtables, table smaller than 4 GiB -/
  cmap : ∀ t, F.cmap = some t → (∀ kd ∈ t, CmapTable.ValidSub kd.1 kd.2) ∧ t.length < 65536 ∧
    (CmapTable.encode t).length < 4294967296
  /-- C14 post: one glyph name per glyph, each at most 255 bytes -/
  names : NamesOK F.glyphNames
  namesLen : ∀ ns, F.glyphNames = some ns → ns.length = F.glyphs.length
  /-- C08 (guard, not composed here): the layout tables `Write` is handed are non-empty byte strings
  which the layout decoders accept, returning the table the bytes stand for -/
  gdef : ∀ b, F.gdef = some b → b ≠ [] ∧ ld.gdef b = .ok (tokenOfBytes b)
  gsub : ∀ b, F.gsub = some b → b ≠ [] ∧ ld.gsub b = .ok (tokenOfBytes b)
  gpos : ∀ b, F.gpos = some b → b ≠ [] ∧ ld.gpos b = .ok (tokenOfBytes b)
  /-- head.fontRevision is a uint32 -/
  version : F.scalars.version < 4294967296
  /-- side tables: at most the four TrueType program tables, each once -/
  sideTags : ∀ t ∈ F.sideTables, t.1 ∈ sideTags
  sideNodup : (F.sideTables.map (·.1)).Nodup
  sideCount : F.sideTables.length ≤ 4
  /-- C03: the file is smaller than 4 GiB -/
  size : ∀ ts, writeTables ef F = .ok ts → Header.fileSize (Header.named ts) < 4294967296


/-! ## helper lemmas -/

/-! ### the container -/


/-- the table map of `writeTables`, as a function of the table bodies (`cm`: the optional cmap) -/
def tableEntries (side : List (Bytes × Bytes)) (hhea hmtx : Bytes) (cm : Option Bytes)
    (os2 name post glyf loca maxp head : Bytes) : List Header.Entry :=
  [⟨tag "hhea", some hhea⟩, ⟨tag "hmtx", some hmtx⟩, ⟨tag "cmap", cm⟩, ⟨tag "OS/2", some os2⟩,
   ⟨tag "name", some name⟩, ⟨tag "post", some post⟩, ⟨tag "glyf", some glyf⟩, ⟨tag "loca", some loca⟩] ++
  side.map (fun t => ⟨t.1, some t.2⟩) ++ [⟨tag "maxp", some maxp⟩, ⟨tag "head", some head⟩]

/-- the cmap table, if it is written -/
def cmapBody : Option Bytes → List (Bytes × Bytes)
  | some b => [(tag "cmap", b)]
  | none => []

/-- the tables that are written -/
def tableBodies (side : List (Bytes × Bytes)) (hhea hmtx : Bytes) (cm : Option Bytes)
    (os2 name post glyf loca maxp head : Bytes) : List (Bytes × Bytes) :=
  [(tag "hhea", hhea), (tag "hmtx", hmtx)] ++ cmapBody cm ++
  [(tag "OS/2", os2), (tag "name", name), (tag "post", post), (tag "glyf", glyf), (tag "loca", loca)] ++
  side ++ [(tag "maxp", maxp), (tag "head", head)]

theorem sideTag_length : ∀ n ∈ sideTags, n.length = 4 := by decide
theorem sideTag_printable : ∀ n ∈ sideTags, ∀ b ∈ n, (0x20 : UInt8) ≤ b ∧ b ≤ 0x7e := by decide
theorem sideTag_ne_head : ∀ n ∈ sideTags, (n == Header.headTag) = false := by decide

def fixedTags : List Bytes :=
  [tag "hhea", tag "hmtx", tag "cmap", tag "OS/2", tag "name", tag "post", tag "glyf", tag "loca", tag "maxp",
   tag "head"]

theorem fixed_not_side : ∀ a ∈ fixedTags, a ∉ sideTags := by decide
theorem fixed_printable : ∀ n ∈ fixedTags, ∀ b ∈ n, (0x20 : UInt8) ≤ b ∧ b ≤ 0x7e := by decide

theorem named_side (side : List (Bytes × Bytes)) (hs : ∀ t ∈ side, t.1 ∈ sideTags) :
    Header.named (side.map fun t => ⟨t.1, some t.2⟩) = side := by
  induction side with
  | nil => rfl
  | cons a r ih =>
    have h4 := sideTag_length a.1 (hs a List.mem_cons_self)
    have := ih (fun t ht => hs t (List.mem_cons_of_mem _ ht))
    unfold Header.named at this ⊢
    simp only [List.map_cons, List.filterMap_cons, h4, if_true, this]

theorem named_tableEntries (side : List (Bytes × Bytes)) (hs : ∀ t ∈ side, t.1 ∈ sideTags)
    (hhea hmtx : Bytes) (cm : Option Bytes) (os2 name post glyf loca maxp head : Bytes) :
    Header.named (tableEntries side hhea hmtx cm os2 name post glyf loca maxp head) =
      tableBodies side hhea hmtx cm os2 name post glyf loca maxp head := by
  have h := named_side side hs
  unfold Header.named at h ⊢
  unfold tableEntries tableBodies
  rw [List.filterMap_append, List.filterMap_append, h]
  cases cm <;> rfl

theorem keys_tableEntries (side : List (Bytes × Bytes)) (hs : ∀ t ∈ side, t.1 ∈ sideTags)
    (hnd : (side.map (·.1)).Nodup) (hhea hmtx : Bytes) (cm : Option Bytes)
    (os2 name post glyf loca maxp head : Bytes) :
    ((tableEntries side hhea hmtx cm os2 name post glyf loca maxp head).map (·.name)).Nodup := by
  have hmap : (tableEntries side hhea hmtx cm os2 name post glyf loca maxp head).map (·.name) =
      [tag "hhea", tag "hmtx", tag "cmap", tag "OS/2", tag "name", tag "post", tag "glyf", tag "loca"] ++
        side.map (·.1) ++ [tag "maxp", tag "head"] := by
    unfold tableEntries
    simp only [List.map_append, List.map_map, List.map_cons, List.map_nil]
    rfl
  rw [hmap]
  have hside : ∀ b ∈ side.map (·.1), b ∈ sideTags := by
    intro b hb
    obtain ⟨t, ht, rfl⟩ := List.mem_map.mp hb
    exact hs t ht
  rw [List.nodup_append, List.nodup_append]
  refine ⟨⟨by decide, hnd, ?_⟩, by decide, ?_⟩
  · intro a ha b hb e
    subst e
    exact (by decide : ∀ a ∈ [tag "hhea", tag "hmtx", tag "cmap", tag "OS/2", tag "name", tag "post", tag "glyf",
      tag "loca"], a ∉ sideTags) a ha (hside a hb)
  · intro a ha b hb e
    subst e
    rcases List.mem_append.mp ha with ha | ha
    · exact (by decide : ∀ a ∈ [tag "hhea", tag "hmtx", tag "cmap", tag "OS/2", tag "name", tag "post", tag "glyf",
        tag "loca"], a ∉ [tag "maxp", tag "head"]) a ha hb
    · exact (by decide : ∀ a ∈ [tag "maxp", tag "head"], a ∉ sideTags) a hb (hside a ha)

theorem mem_tableBodies (side : List (Bytes × Bytes)) (hhea hmtx : Bytes) (cm : Option Bytes)
    (os2 name post glyf loca maxp head : Bytes)
    (t : Bytes × Bytes) (ht : t ∈ tableBodies side hhea hmtx cm os2 name post glyf loca maxp head) :
    t.1 ∈ fixedTags ∨ t ∈ side := by
  unfold tableBodies at ht
  cases cm with
  | none =>
    simp only [cmapBody, List.append_nil, List.mem_append, List.mem_cons, List.not_mem_nil, or_false] at ht
    rcases ht with ((((h | h) | (h | h | h | h | h)) | h) | (h | h))
    all_goals first
      | exact Or.inr h
      | (subst h; exact Or.inl (by simp [fixedTags]))
  | some b =>
    simp only [cmapBody, List.mem_append, List.mem_cons, List.not_mem_nil, or_false] at ht
    rcases ht with (((((h | h) | h) | (h | h | h | h | h)) | h) | (h | h))
    all_goals first
      | exact Or.inr h
      | (subst h; exact Or.inl (by simp [fixedTags]))

/-- the head table is the only one under the head tag -/
theorem head_of_tableBodies (side : List (Bytes × Bytes)) (hs : ∀ t ∈ side, t.1 ∈ sideTags)
    (hhea hmtx : Bytes) (cm : Option Bytes) (os2 name post glyf loca maxp head : Bytes) (d : Bytes)
    (hd : (Header.headTag, d) ∈ tableBodies side hhea hmtx cm os2 name post glyf loca maxp head) : d = head := by
  have hside : (Header.headTag, d) ∉ side := by
    intro h
    have := sideTag_ne_head _ (hs _ h)
    simp at this
  unfold tableBodies at hd
  cases cm with
  | none =>
    simp only [cmapBody, List.append_nil, List.mem_append, List.mem_cons, List.not_mem_nil, or_false,
      Prod.mk.injEq] at hd
    rcases hd with ((((h | h) | (h | h | h | h | h)) | h) | (h | h))
    all_goals first
      | (exact absurd h.1 (by decide))
      | (exact h.2)
      | (exact absurd h hside)
  | some b =>
    simp only [cmapBody, List.mem_append, List.mem_cons, List.not_mem_nil, or_false, Prod.mk.injEq] at hd
    rcases hd with (((((h | h) | h) | (h | h | h | h | h)) | h) | (h | h))
    all_goals first
      | (exact absurd h.1 (by decide))
      | (exact h.2)
      | (exact absurd h hside)

/-- without a cmap entry no written table has the cmap tag -/
theorem no_cmap_tableBodies (side : List (Bytes × Bytes)) (hs : ∀ t ∈ side, t.1 ∈ sideTags)
    (hhea hmtx os2 name post glyf loca maxp head : Bytes) (t : Bytes × Bytes)
    (ht : t ∈ tableBodies side hhea hmtx none os2 name post glyf loca maxp head) : t.1 ≠ tag "cmap" := by
  unfold tableBodies at ht
  simp only [cmapBody, List.append_nil, List.mem_append, List.mem_cons, List.not_mem_nil, or_false] at ht
  rcases ht with ((((h | h) | (h | h | h | h | h)) | h) | (h | h))
  all_goals first
    | (subst h; dsimp only; decide)
    | (intro e
       have := hs t h
       rw [e] at this
       exact absurd this (by decide))

/-- `header.Write` accepts the table map, and `header.Read` + `ReadTableBytes` on its output return
every table body (head with the checksum adjustment patched in; cmap exactly when it was given) and
no other side table -/
theorem container_entries (side : List (Bytes × Bytes)) (hs : ∀ t ∈ side, t.1 ∈ sideTags)
    (hnd : (side.map (·.1)).Nodup) (hc : side.length ≤ 4)
    (hhea hmtx : Bytes) (cm : Option Bytes) (os2 name post glyf loca maxp head : Bytes)
    (hhead : 12 ≤ head.length)
    (hsize : Header.fileSize (Header.named (tableEntries side hhea hmtx cm os2 name post glyf loca maxp head))
      < 4294967296) :
    ∃ w recs adj,
      Header.write 0x00010000 (tableEntries side hhea hmtx cm os2 name post glyf loca maxp head) = .ok w ∧
      Header.read 280 w.bytes = .ok (0x00010000, recs) ∧
      tableOf w.bytes recs (tag "hhea") = some hhea ∧
      tableOf w.bytes recs (tag "hmtx") = some hmtx ∧
      tableOf w.bytes recs (tag "cmap") = cm ∧
      tableOf w.bytes recs (tag "OS/2") = some os2 ∧
      tableOf w.bytes recs (tag "name") = some name ∧
      tableOf w.bytes recs (tag "post") = some post ∧
      tableOf w.bytes recs (tag "glyf") = some glyf ∧
      tableOf w.bytes recs (tag "loca") = some loca ∧
      tableOf w.bytes recs (tag "maxp") = some maxp ∧
      tableOf w.bytes recs (tag "head") = some (Header.patchAdj head adj) ∧
      (∀ t ∈ side, tableOf w.bytes recs t.1 = some t.2) ∧
      (∀ n ∈ sideTags, (∀ t ∈ side, t.1 ≠ n) → tableOf w.bytes recs n = none) := by
  have hnamed := named_tableEntries side hs hhea hmtx cm os2 name post glyf loca maxp head
  have hkeys := keys_tableEntries side hs hnd hhea hmtx cm os2 name post glyf loca maxp head
  generalize hts : tableEntries side hhea hmtx cm os2 name post glyf loca maxp head = ts at *
  have hlen : (Header.named ts).length ≤ side.length + 10 := by
    rw [hnamed]; cases cm <;> simp [tableBodies, cmapBody]
  have hdom : SfntV.Props.C03.Dom ts := ⟨hkeys, hsize, by omega⟩
  have hpr : ∀ t ∈ Header.named ts, ∀ b ∈ t.1, (0x20 : UInt8) ≤ b ∧ b ≤ 0x7e := by
    intro t ht
    rw [hnamed] at ht
    rcases mem_tableBodies _ _ _ _ _ _ _ _ _ _ _ t ht with h | h
    · exact fixed_printable t.1 h
    · exact sideTag_printable t.1 (hs t h)
  obtain ⟨w, hw⟩ := (SfntV.Props.C03.C03_ok_iff 0x00010000 ts hkeys).mpr ⟨by
      rw [hnamed]; simp [tableBodies], by
      intro d hd
      rw [hnamed] at hd
      rw [head_of_tableBodies side hs _ _ _ _ _ _ _ _ _ _ d hd]
      exact hhead⟩
  obtain ⟨recs, adj, hread, hlook, hnone⟩ :=
    container_lookup 0x00010000 (by decide) ts hdom (by omega) hpr w hw
  rw [hnamed] at hlook hnone
  have hfix : ∀ (n b : Bytes), (n == Header.headTag) = false →
      (n, b) ∈ tableBodies side hhea hmtx cm os2 name post glyf loca maxp head →
      tableOf w.bytes recs n = some b := by
    intro n b hne hm
    have := hlook (n, b) hm
    simpa [storedBody, hne] using this
  refine ⟨w, recs, adj, hw, hread, ?_, ?_, ?_, ?_, ?_, ?_, ?_, ?_, ?_, ?_, ?_, ?_⟩
  · exact hfix _ _ (by decide) (by simp [tableBodies])
  · exact hfix _ _ (by decide) (by simp [tableBodies])
  · cases cm with
    | none => exact hnone _ (no_cmap_tableBodies side hs _ _ _ _ _ _ _ _ _)
    | some b => exact hfix _ _ (by decide) (by simp [tableBodies, cmapBody])
  · exact hfix _ _ (by decide) (by simp [tableBodies])
  · exact hfix _ _ (by decide) (by simp [tableBodies])
  · exact hfix _ _ (by decide) (by simp [tableBodies])
  · exact hfix _ _ (by decide) (by simp [tableBodies])
  · exact hfix _ _ (by decide) (by simp [tableBodies])
  · exact hfix _ _ (by decide) (by simp [tableBodies])
  · have := hlook (tag "head", head) (by simp [tableBodies])
    have hh : (tag "head" == Header.headTag) = true := by decide
    simpa [storedBody, hh] using this
  · intro t ht
    exact hfix t.1 t.2 (sideTag_ne_head _ (hs t ht)) (by simp [tableBodies, ht])
  · intro n hn hno
    apply hnone
    intro t ht e
    rcases mem_tableBodies _ _ _ _ _ _ _ _ _ _ _ t ht with h | h
    · exact fixed_not_side _ h (e ▸ hn)
    · exact hno t h e

/-! ### `readFile` on decoded tables -/

/-- the abstract table set `readFile` builds from the decoded tables -/
def tablesRead (c : Int → Int → Int) (H : Metrics.Head) (mx : Metrics.Maxp) (o2 : Metrics.Os2)
    (d : Metrics.Decoded) (dec : List Names.Entry) (cm : Option CmapTable.Table)
    (p : PostRec × Option (List Names.GName)) (gs : Glyf.Glyphs) : Tables :=
  { scalerCFF := false,
    head := some (recOfHead H),
    hmtx := some { widths := d.widths, ascent := d.ascent, descent := d.descent,
                   lineGap := d.lineGap, caret16 := c d.rise d.run },
    maxp := some mx.numGlyphs.toNat,
    os2 := some (recOfOs2 o2),
    name := nameRecOf dec,
    post := some p.1,
    cff := none,
    outline := outlineOf gs none cm (namesFor gs.length p.2),
    gdef := none, gsub := none, gpos := none, kern := none }

theorem readFile_of (c : Int → Int → Int) (f : Bytes) (recs : List (Bytes × Nat × Nat))
    (hread : Header.read 280 f = .ok (0x00010000, recs))
    (bhead bmaxp bos2 bhhea bhmtx bname bpost bloca bglyf : Bytes)
    (thead : tableOf f recs (tag "head") = some bhead)
    (tmaxp : tableOf f recs (tag "maxp") = some bmaxp)
    (tos2 : tableOf f recs (tag "OS/2") = some bos2)
    (thhea : tableOf f recs (tag "hhea") = some bhhea)
    (thmtx : tableOf f recs (tag "hmtx") = some bhmtx)
    (tname : tableOf f recs (tag "name") = some bname)
    (tpost : tableOf f recs (tag "post") = some bpost)
    (tloca : tableOf f recs (tag "loca") = some bloca)
    (tglyf : tableOf f recs (tag "glyf") = some bglyf)
    (H : Metrics.Head) (dH : Metrics.decodeHead bhead = .ok H)
    (mx : Metrics.Maxp) (dM : Metrics.decodeMaxp bmaxp = .ok mx)
    (o2 : Metrics.Os2) (dO : Metrics.decodeOs2 bos2 = .ok o2)
    (d : Metrics.Decoded) (dD : Metrics.decode bhhea (some bhmtx) = .ok d)
    (dec : List Names.Entry) (dN : Names.nameDecode (bytesToNats bname) = some dec)
    (cm : Option CmapTable.Table)
    (dC : optDecode (tableOf f recs (tag "cmap")) CmapTable.decode = .ok cm)
    (p : PostRec × Option (List Names.GName)) (dP : decodePostFull bpost = .ok p)
    (gs : Glyf.Glyphs) (dG : Glyf.decode H.locaFormat bloca bglyf = .ok gs)
    (hT : readErr (tablesRead c H mx o2 d dec cm p gs) = none) :
    readFile c f = .ok
      { font := merge (tablesRead c H mx o2 d dec cm p gs), glyphs := gs, maxpTtf := mx.ttf,
        cmap := cm, glyphNames := namesFor gs.length p.2,
        sideTables := sideTags.filterMap fun t =>
          match tableOf f recs t with
          | some b => if b.isEmpty then none else some (t, b)
          | none => none } := by
  unfold tablesRead at hT ⊢
  unfold readFile
  simp only [hread, dC]
  simp only [thead, tmaxp, tos2, thhea, thmtx, tname, tpost, tloca, tglyf, optDecode,
    dH, dM, dO, dD, dN, dP, dG, Option.map, Option.bind]
  simp only [hT]
  rfl

/-! ### `writeTables`, `codec ∘ derive` on a file font -/

theorem codec_derive_metaOf (env : Env) (F : FileFont) :
    codec (derive env (metaOf F)) =
      { scalerCFF := false, head := some (codecHead (deriveHead (metaOf F))),
        hmtx := some (deriveHmtx env (metaOf F)), maxp := some F.glyphs.length,
        os2 := some (codecOs2 (deriveOs2 (metaOf F))), name := some (deriveName env (metaOf F)),
        post := some (codecPost (derivePost (metaOf F))), cff := none,
        outline := outlineOf F.glyphs none F.cmap F.glyphNames,
        gdef := none, gsub := none, gpos := none, kern := none } := rfl

theorem deriveHmtx_widths (env : Env) (F : FileFont) (hr : ∀ w ∈ F.widths, isInt16 w) :
    (deriveHmtx env (metaOf F)).widths = F.widths := by
  show List.map (fun w => toInt16 w.trunc) (List.map Dy.ofInt F.widths) = F.widths
  rw [List.map_map]
  conv => rhs; rw [← List.map_id F.widths]
  apply List.map_congr_left
  intro w hw
  simp only [Function.comp, trunc_ofInt, id]
  exact toInt16_of_range w (hr w hw)

theorem writeTables_eq (ef : EnvF) (F : FileFont) (enc : Glyf.Encoded) (hhea hmtx maxp : Bytes)
    (henc : Glyf.encode F.glyphs = .ok enc)
    (hws : (deriveHmtx ef.env (metaOf F)).widths = F.widths)
    (hm : Metrics.encode ⟨some F.widths, some (F.glyphs.map rectOf), none,
        (deriveHmtx ef.env (metaOf F)).ascent, (deriveHmtx ef.env (metaOf F)).descent,
        (deriveHmtx ef.env (metaOf F)).lineGap, 0⟩
        (ef.riseRun (metaOf F).italicAngle).1 (ef.riseRun (metaOf F).italicAngle).2 = .ok (hhea, some hmtx))
    (hmaxp : Metrics.encodeMaxp ⟨F.glyphs.length, some F.maxpTtf⟩ = .ok maxp) :
    writeTables ef F = .ok (tableEntries F.sideTables hhea hmtx (F.cmap.map CmapTable.encode)
      (Metrics.encodeOs2 (os2Of (deriveOs2 (metaOf F))
        ⟨(charIndices F.cmap).1, (charIndices F.cmap).2,
          (Metrics.winMetricsModel (Metrics.fontBBoxModel (F.glyphs.map rectOf))).1,
          (Metrics.winMetricsModel (Metrics.fontBBoxModel (F.glyphs.map rectOf))).2⟩))
      (natsToBytes (Names.nameEncode (nameEntries (deriveName ef.env (metaOf F))) 1))
      (natsToBytes (Names.postEncode (postHdrN (derivePost (metaOf F))) F.glyphNames))
      enc.glyf enc.loca maxp
      (Metrics.encodeHead (headOf (deriveHead (metaOf F)) (Metrics.fontBBoxModel (F.glyphs.map rectOf)) enc.fmt))) := by
  unfold writeTables
  simp only [henc, hws, hm, hmaxp]
  rfl

/-- the cmap table read back is the cmap table of the font -/
theorem cmap_read (F : FileFont)
    (hc : ∀ t, F.cmap = some t → (∀ kd ∈ t, CmapTable.ValidSub kd.1 kd.2) ∧ t.length < 65536 ∧
      (CmapTable.encode t).length < 4294967296) :
    optDecode (F.cmap.map CmapTable.encode) CmapTable.decode = .ok F.cmap := by
  cases hcm : F.cmap with
  | none => rfl
  | some t =>
    obtain ⟨hv, hn, hsz⟩ := hc t hcm
    simp only [Option.map, optDecode, cmap_table t hv hn hsz]

/-- one name per glyph: `Read` keeps all of them -/
theorem namesFor_self (n : Nat) (names : Option (List Names.GName))
    (h : ∀ ns, names = some ns → ns.length = n) : namesFor n names = names := by
  cases names with
  | none => rfl
  | some ns =>
    have := h ns rfl
    subst this
    simp [namesFor]

/-! ### `Subfamily()` is never empty -/

theorem joinWords_ne_nil : ∀ ws : List Str, ws ≠ [] → (∀ w ∈ ws, w ≠ []) → joinWords ws ≠ []
  | [], h, _ => absurd rfl h
  | [w], _, hw => by simpa [joinWords] using hw w (by simp)
  | w :: w' :: ws, _, _ => by simp [joinWords]

theorem widthString_ne_nil (w : Nat) : widthString w ≠ [] := by
  unfold widthString
  repeat' split
  all_goals first
    | decide
    | simp

theorem weightSimple_ne_nil (w : Nat) : weightSimple w ≠ [] := by
  have h := weightSimple_mem w
  exact (by decide : ∀ s ∈ weightWords, s ≠ []) _ h

theorem snoc_ne_nil (l : List Str) (x : Str) (hl : ∀ w ∈ l, w ≠ []) (hx : x ≠ []) :
    ∀ w ∈ l ++ [x], w ≠ [] := by
  intro w hw
  rcases List.mem_append.mp hw with h | h
  · exact hl w h
  · simp only [List.mem_cons, List.not_mem_nil, or_false] at h
    subst h; exact hx

theorem styleWords_ne_nil (w2 : List Str) (h2 : ∀ w ∈ w2, w ≠ []) (oblique italic : Bool) :
    ∀ w ∈ (if oblique = true then w2 ++ [s_Oblique] else if italic = true then w2 ++ [s_Italic] else w2),
      w ≠ [] := by
  intro w hw
  split at hw
  · exact snoc_ne_nil _ _ h2 (by decide) w hw
  · split at hw
    · exact snoc_ne_nil _ _ h2 (by decide) w hw
    · exact h2 w hw

theorem words_ne_nil (width : Nat) (wt : Option (Str × Bool)) (hwt : ∀ p, wt = some p → p.1 ≠ [])
    (bold oblique italic : Bool) :
    ∀ w ∈ subfamilyWordsCore width wt bold oblique italic, w ≠ [] := by
  have h1 : ∀ w ∈ (if width ≠ 0 ∧ width ≠ 5 then [widthString width] else []), w ≠ [] := by
    intro w hw
    split at hw
    · simp only [List.mem_cons, List.not_mem_nil, or_false] at hw
      subst hw; exact widthString_ne_nil _
    · cases hw
  intro w hw
  unfold subfamilyWordsCore at hw
  simp only at hw
  generalize (if width ≠ 0 ∧ width ≠ 5 then [widthString width] else []) = w1 at h1 hw
  cases wt with
  | none =>
    refine styleWords_ne_nil (if bold = true then w1 ++ [s_Bold] else w1) ?_ oblique italic w hw
    intro w hw
    split at hw
    · exact snoc_ne_nil _ _ h1 (by decide) w hw
    · exact h1 w hw
  | some p =>
    obtain ⟨tg, seen⟩ := p
    refine styleWords_ne_nil (if (seen || w1.any (hasInfix tg)) = true then w1 else w1 ++ [tg]) ?_
      oblique italic w hw
    intro w hw
    split at hw
    · exact h1 w hw
    · exact snoc_ne_nil _ _ h1 (hwt _ rfl) w hw

theorem subfamily_ne_nil (M : FontMeta) : subfamily M ≠ [] := by
  unfold subfamily subfamilyCore
  simp only
  split
  · decide
  · rename_i hne
    apply joinWords_ne_nil
    · intro e; rw [e] at hne; exact hne rfl
    · apply words_ne_nil
      intro p hp
      unfold weightTag at hp
      split at hp
      · cases hp; exact weightSimple_ne_nil _
      · cases hp

theorem rt_encodeHead_length (H : Metrics.Head) : (Metrics.encodeHead H).length = 54 := by
  simp only [Metrics.encodeHead, Metrics.i64enc, Metrics.be64, Metrics.i16enc, be32, be16,
    List.length_append, List.length_cons, List.length_nil]

theorem deriveHmtx_eq (env : Env) (F : FileFont) (hr : ∀ w ∈ F.widths, isInt16 w) :
    deriveHmtx env (metaOf F) =
      ⟨F.widths, F.scalars.ascent, F.scalars.descent, F.scalars.lineGap, env.caretOf F.scalars.italicAngle⟩ := by
  have := deriveHmtx_widths env F hr
  show HmtxRec.mk (deriveHmtx env (metaOf F)).widths F.scalars.ascent F.scalars.descent F.scalars.lineGap
    (env.caretOf F.scalars.italicAngle) = _
  rw [this]

theorem inDomain_metaOf (F : FileFont) (hl : F.widths.length = F.glyphs.length)
    (hv : F.scalars.version < 4294967296) : InDomain (metaOf F) := by
  refine ⟨?_, hv⟩
  intro l hl'
  have : l = F.widths.map Dy.ofInt := by
    have h2 : (metaOf F).outline.widths = some (F.widths.map Dy.ofInt) := rfl
    rw [h2] at hl'
    injection hl' with hl'
    exact hl'.symm
  subst this
  rw [List.length_map, hl]
  rfl

/-- **Stage 2.**  For every TrueType font value in the domain, the bytes `Write` produces are
read back by `Read` as the explicit normal form: scalar fields `nf`, glyphs, maxp maxima, side
tables, cmap subtables and glyph names unchanged.  `caretOf` (float trigonometry of `hmtx.toAngle`) is arbitrary: it cannot
influence the result because the post table is present. -/
theorem file_roundtrip (ld : LayoutDec) (ef : EnvF) (caretOf : Int → Int → Int) (F : FileFont)
    (h : InDomainFile ld ef F) :
    ∃ b, writeFile ef F = .ok b ∧ readFile ld caretOf b = .ok (nfFile F) := by
  sorry

end SfntV.FontFile
