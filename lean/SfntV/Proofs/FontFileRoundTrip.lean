/-
C01 (bytes) — `readFile (writeFile F) = nfFile F`: the container lemma (C03), the per-table
lemmas (C12, C14, C11) and the record-level theorem `read_write` of this property, assembled.
Stage 2: TrueType outlines with cmap table and glyph names.  Stage 4': GDEF / GSUB / GPOS carried
as encoded bytes, their decoders abstract (`LayoutDec`), C08's round trip as a guard.
-/
import SfntV.Proofs.FontFileHeader
import SfntV.Proofs.FontFileTables

namespace SfntV.FontFile
open SfntV SfntV.Font

/-- `enc.LocaFormat` of `Glyphs.Encode` -/
def locaFmt (gs : Glyf.Glyphs) : Int := if Glyf.glyfSize gs ≤ 0xffff then 0 else 1

/-- the `head.Info` `Write` encodes -/
def headInfoOf (F : FileFont) : Metrics.Head :=
  headOf (deriveHead (metaOf F)) (Metrics.fontBBoxModel (F.glyphs.map rectOf)) (locaFmt F.glyphs)

/-- the `os2.Info` `Read` gets back -/
def os2InfoOf (F : FileFont) : Metrics.Os2 :=
  let win := Metrics.winMetricsModel (Metrics.fontBBoxModel (F.glyphs.map rectOf))
  let ci := charIndices F.cmap
  os2Read (deriveOs2 (metaOf F)) ⟨ci.1, ci.2, win.1, win.2⟩

/-- The domain of the byte-level round trip: the conjunction of the guards of the codec theorems
that are composed (each field names its source), plus the shape restrictions of stage 1. -/
structure InDomainFile (ld : LayoutDec) (ef : EnvF) (F : FileFont) : Prop where
  /-- C11: at least one glyph, 16-bit header fields, well-formed glyph data, glyf table < 4 GiB -/
  glyphs : SfntV.Props.C11.WFGlyphs F.glyphs
  /-- maxp: numGlyphs is a uint16 -/
  count : F.glyphs.length < 65536
  /-- one int16 advance width per glyph -/
  widthsLen : F.widths.length = F.glyphs.length
  widthsRange : ∀ w ∈ F.widths, isInt16 w
  /-- bounding boxes: xMin as int16 (left side bearings of hmtx) -/
  extents : ∀ e ∈ F.glyphs.map rectOf, isInt16 e.llx
  /-- maxp version 1.0: thirteen uint16 maxima -/
  maxp : F.maxpTtf.length = 13 ∧ ∀ v ∈ F.maxpTtf, v < 65536
  /-- C12 head: revision, unitsPerEm, bounding box, loca format in range -/
  head : Metrics.HeadDom (headInfoOf F)
  ctime : timeInRange F.scalars.creationTime
  mtime : timeInRange F.scalars.modificationTime
  /-- C12 OS/2: REGULAR excludes BOLD and ITALIC, heights ≥ 0, fsType value 0..3, fields in range -/
  os2 : Metrics.Os2Dom (os2InfoOf F)
  /-- C12 hhea: vertical metrics and the caret slope are int16 -/
  ascent : isInt16 F.scalars.ascent
  descent : isInt16 F.scalars.descent
  lineGap : isInt16 F.scalars.lineGap
  caret : isInt16 (ef.riseRun F.scalars.italicAngle).1 ∧ isInt16 (ef.riseRun F.scalars.italicAngle).2
  /-- C14 name: strings are Unicode scalar values, representable in Mac Roman (the Macintosh copy
  of the table), records and string storage below 64 KiB -/
  name : Names.NameDom Gen.appleBCP Gen.msBCP (Names.sortLangs Gen.appleBCP) (Names.sortLangs Gen.msBCP)
    (nameEntries (deriveName ef.env (metaOf F))) 1
  /-- C09: every cmap subtable is a well-formed subtable under its key (length field, language),
  fewer than 65536 subtables, table smaller than 4 GiB -/
  cmap : ∀ t, F.cmap = some t → (∀ kd ∈ t, CmapTable.ValidSub kd.1 kd.2) ∧ t.length < 65536 ∧
    (CmapTable.encode t).length < 4294967296
  /-- C14 post: one glyph name per glyph, each at most 255 bytes -/
  names : NamesOK F.glyphNames
  namesLen : ∀ ns, F.glyphNames = some ns → ns.length = F.glyphs.length
  /-- C08 (guard, not composed here): the layout tables `Write` is handed are non-empty byte strings
  which the layout decoders accept, returning the table the bytes stand for -/
  gdef : ∀ b, F.gdef = some b → b ≠ [] ∧ ld.gdef b = .ok (tokenOfBytes b)
  gsub : ∀ b, F.gsub = some b → b ≠ [] ∧ ld.gsub b = .ok (tokenOfBytes b)
  gpos : ∀ b, F.gpos = some b → b ≠ [] ∧ ld.gpos b = .ok (tokenOfBytes b)
  /-- head.fontRevision is a uint32 -/
  version : F.scalars.version < 4294967296
  /-- side tables: at most the four TrueType program tables, each once -/
  sideTags : ∀ t ∈ F.sideTables, t.1 ∈ sideTags
  sideNodup : (F.sideTables.map (·.1)).Nodup
  sideCount : F.sideTables.length ≤ 4
  /-- C03: the file is smaller than 4 GiB -/
  size : ∀ ts, writeTables ef F = .ok ts → Header.fileSize (Header.named ts) < 4294967296


/-! ## helper lemmas -/

/-! ### the container -/


/-- the table map of `writeTables`, as a function of the table bodies (`cm`, `gd`, `gs`, `gp`: the
optional cmap / GDEF / GSUB / GPOS tables) -/
def tableEntries (side : List (Bytes × Bytes)) (hhea hmtx : Bytes) (cm : Option Bytes)
    (os2 name post glyf loca maxp head : Bytes) (gd gs gp : Option Bytes) : List Header.Entry :=
  [⟨tag "hhea", some hhea⟩, ⟨tag "hmtx", some hmtx⟩, ⟨tag "cmap", cm⟩, ⟨tag "OS/2", some os2⟩,
   ⟨tag "name", some name⟩, ⟨tag "post", some post⟩, ⟨tag "glyf", some glyf⟩, ⟨tag "loca", some loca⟩] ++
  side.map (fun t => ⟨t.1, some t.2⟩) ++
  [⟨tag "maxp", some maxp⟩, ⟨tag "head", some head⟩, ⟨tag "GDEF", gd⟩, ⟨tag "GSUB", gs⟩, ⟨tag "GPOS", gp⟩]

/-- an optional table, if it is written -/
def optBody (n : Bytes) : Option Bytes → List (Bytes × Bytes)
  | some b => [(n, b)]
  | none => []

theorem mem_optBody (n : Bytes) (o : Option Bytes) (t : Bytes × Bytes) (h : t ∈ optBody n o) :
    t.1 = n ∧ o = some t.2 := by
  cases o with
  | none => cases h
  | some b =>
    simp only [optBody, List.mem_cons, List.not_mem_nil, or_false] at h
    subst h
    exact ⟨rfl, rfl⟩

/-- the tables that are written -/
def tableBodies (side : List (Bytes × Bytes)) (hhea hmtx : Bytes) (cm : Option Bytes)
    (os2 name post glyf loca maxp head : Bytes) (gd gs gp : Option Bytes) : List (Bytes × Bytes) :=
  [(tag "hhea", hhea), (tag "hmtx", hmtx)] ++ optBody (tag "cmap") cm ++
  [(tag "OS/2", os2), (tag "name", name), (tag "post", post), (tag "glyf", glyf), (tag "loca", loca)] ++
  side ++ [(tag "maxp", maxp), (tag "head", head)] ++
  optBody (tag "GDEF") gd ++ optBody (tag "GSUB") gs ++ optBody (tag "GPOS") gp

theorem sideTag_length : ∀ n ∈ sideTags, n.length = 4 := by decide
theorem sideTag_printable : ∀ n ∈ sideTags, ∀ b ∈ n, (0x20 : UInt8) ≤ b ∧ b ≤ 0x7e := by decide
theorem sideTag_ne_head : ∀ n ∈ sideTags, (n == Header.headTag) = false := by decide

/-- tags of the tables that are always written -/
def mandTags : List Bytes :=
  [tag "hhea", tag "hmtx", tag "OS/2", tag "name", tag "post", tag "glyf", tag "loca", tag "maxp", tag "head"]

def fixedTags : List Bytes :=
  [tag "hhea", tag "hmtx", tag "cmap", tag "OS/2", tag "name", tag "post", tag "glyf", tag "loca", tag "maxp",
   tag "head", tag "GDEF", tag "GSUB", tag "GPOS"]

theorem fixed_not_side : ∀ a ∈ fixedTags, a ∉ sideTags := by decide
theorem fixed_printable : ∀ n ∈ fixedTags, ∀ b ∈ n, (0x20 : UInt8) ≤ b ∧ b ≤ 0x7e := by decide
theorem mand_fixed : ∀ a ∈ mandTags, a ∈ fixedTags := by decide

theorem named_side (side : List (Bytes × Bytes)) (hs : ∀ t ∈ side, t.1 ∈ sideTags) :
    Header.named (side.map fun t => ⟨t.1, some t.2⟩) = side := by
  induction side with
  | nil => rfl
  | cons a r ih =>
    have h4 := sideTag_length a.1 (hs a List.mem_cons_self)
    have := ih (fun t ht => hs t (List.mem_cons_of_mem _ ht))
    unfold Header.named at this ⊢
    simp only [List.map_cons, List.filterMap_cons, h4, if_true, this]

theorem named_tableEntries (side : List (Bytes × Bytes)) (hs : ∀ t ∈ side, t.1 ∈ sideTags)
    (hhea hmtx : Bytes) (cm : Option Bytes) (os2 name post glyf loca maxp head : Bytes)
    (gd gs gp : Option Bytes) :
    Header.named (tableEntries side hhea hmtx cm os2 name post glyf loca maxp head gd gs gp) =
      tableBodies side hhea hmtx cm os2 name post glyf loca maxp head gd gs gp := by
  have h := named_side side hs
  unfold Header.named at h ⊢
  unfold tableEntries tableBodies
  rw [List.filterMap_append, List.filterMap_append, h]
  cases cm <;> cases gd <;> cases gs <;> cases gp <;> simp [optBody] <;> rfl

theorem keys_tableEntries (side : List (Bytes × Bytes)) (hs : ∀ t ∈ side, t.1 ∈ sideTags)
    (hnd : (side.map (·.1)).Nodup) (hhea hmtx : Bytes) (cm : Option Bytes)
    (os2 name post glyf loca maxp head : Bytes) (gd gs gp : Option Bytes) :
    ((tableEntries side hhea hmtx cm os2 name post glyf loca maxp head gd gs gp).map (·.name)).Nodup := by
  have hmap : (tableEntries side hhea hmtx cm os2 name post glyf loca maxp head gd gs gp).map (·.name) =
      [tag "hhea", tag "hmtx", tag "cmap", tag "OS/2", tag "name", tag "post", tag "glyf", tag "loca"] ++
        side.map (·.1) ++ [tag "maxp", tag "head", tag "GDEF", tag "GSUB", tag "GPOS"] := by
    unfold tableEntries
    simp only [List.map_append, List.map_map, List.map_cons, List.map_nil]
    rfl
  rw [hmap]
  have hside : ∀ b ∈ side.map (·.1), b ∈ sideTags := by
    intro b hb
    obtain ⟨t, ht, rfl⟩ := List.mem_map.mp hb
    exact hs t ht
  rw [List.nodup_append, List.nodup_append]
  refine ⟨⟨by decide, hnd, ?_⟩, by decide, ?_⟩
  · intro a ha b hb e
    subst e
    exact (by decide : ∀ a ∈ [tag "hhea", tag "hmtx", tag "cmap", tag "OS/2", tag "name", tag "post", tag "glyf",
      tag "loca"], a ∉ sideTags) a ha (hside a hb)
  · intro a ha b hb e
    subst e
    rcases List.mem_append.mp ha with ha | ha
    · exact (by decide : ∀ a ∈ [tag "hhea", tag "hmtx", tag "cmap", tag "OS/2", tag "name", tag "post", tag "glyf",
        tag "loca"], a ∉ [tag "maxp", tag "head", tag "GDEF", tag "GSUB", tag "GPOS"]) a ha hb
    · exact (by decide : ∀ a ∈ [tag "maxp", tag "head", tag "GDEF", tag "GSUB", tag "GPOS"], a ∉ sideTags) a hb
        (hside a ha)

/-- every written table is a mandatory one, a side table, or one of the optional tables that was given -/
theorem mem_tableBodies' (side : List (Bytes × Bytes)) (hhea hmtx : Bytes) (cm : Option Bytes)
    (os2 name post glyf loca maxp head : Bytes) (gd gs gp : Option Bytes)
    (t : Bytes × Bytes) (ht : t ∈ tableBodies side hhea hmtx cm os2 name post glyf loca maxp head gd gs gp) :
    (t.1 ∈ mandTags ∧ (t.1 = tag "head" → t.2 = head)) ∨ t ∈ side ∨ (t.1 = tag "cmap" ∧ cm = some t.2) ∨
      (t.1 = tag "GDEF" ∧ gd = some t.2) ∨ (t.1 = tag "GSUB" ∧ gs = some t.2) ∨
      (t.1 = tag "GPOS" ∧ gp = some t.2) := by
  unfold tableBodies at ht
  simp only [List.mem_append, List.mem_cons, List.not_mem_nil, or_false] at ht
  rcases ht with ((((((((h | h) | hc) | (h | h | h | h | h)) | hsd) | (h | h)) | hgd) | hgs) | hgp)
  all_goals first
    | exact Or.inr (Or.inl hsd)
    | exact Or.inr (Or.inr (Or.inl (mem_optBody _ _ _ hc)))
    | exact Or.inr (Or.inr (Or.inr (Or.inl (mem_optBody _ _ _ hgd))))
    | exact Or.inr (Or.inr (Or.inr (Or.inr (Or.inl (mem_optBody _ _ _ hgs)))))
    | exact Or.inr (Or.inr (Or.inr (Or.inr (Or.inr (mem_optBody _ _ _ hgp)))))
    | (subst h
       refine Or.inl ⟨by simp [mandTags], ?_⟩
       first
         | (intro _; rfl)
         | (intro e; exact absurd e (by dsimp only; decide)))

theorem mem_tableBodies (side : List (Bytes × Bytes)) (hhea hmtx : Bytes) (cm : Option Bytes)
    (os2 name post glyf loca maxp head : Bytes) (gd gs gp : Option Bytes)
    (t : Bytes × Bytes) (ht : t ∈ tableBodies side hhea hmtx cm os2 name post glyf loca maxp head gd gs gp) :
    t.1 ∈ fixedTags ∨ t ∈ side := by
  rcases mem_tableBodies' _ _ _ _ _ _ _ _ _ _ _ _ _ _ t ht with h | h | h | h | h | h
  · exact Or.inl (mand_fixed _ h.1)
  · exact Or.inr h
  all_goals exact Or.inl (by rw [h.1]; decide)

/-- the head table is the only one under the head tag -/
theorem head_of_tableBodies (side : List (Bytes × Bytes)) (hs : ∀ t ∈ side, t.1 ∈ sideTags)
    (hhea hmtx : Bytes) (cm : Option Bytes) (os2 name post glyf loca maxp head : Bytes)
    (gd gs gp : Option Bytes) (d : Bytes)
    (hd : (Header.headTag, d) ∈ tableBodies side hhea hmtx cm os2 name post glyf loca maxp head gd gs gp) :
    d = head := by
  rcases mem_tableBodies' _ _ _ _ _ _ _ _ _ _ _ _ _ _ _ hd with h | h | h | h | h | h
  · exact h.2 (by dsimp only; decide)
  · have := sideTag_ne_head _ (hs _ h)
    simp at this
  all_goals exact absurd h.1 (by dsimp only; decide)

/-- a tag that is neither mandatory nor a side tag nor the tag of a given optional table is not
the tag of a written table -/
theorem absent_tableBodies (side : List (Bytes × Bytes)) (hs : ∀ t ∈ side, t.1 ∈ sideTags)
    (hhea hmtx : Bytes) (cm : Option Bytes) (os2 name post glyf loca maxp head : Bytes)
    (gd gs gp : Option Bytes) (n : Bytes) (hm : n ∉ mandTags) (hn : n ∉ sideTags)
    (h1 : n = tag "cmap" → cm = none) (h2 : n = tag "GDEF" → gd = none)
    (h3 : n = tag "GSUB" → gs = none) (h4 : n = tag "GPOS" → gp = none)
    (t : Bytes × Bytes)
    (ht : t ∈ tableBodies side hhea hmtx cm os2 name post glyf loca maxp head gd gs gp) : t.1 ≠ n := by
  intro e
  rcases mem_tableBodies' _ _ _ _ _ _ _ _ _ _ _ _ _ _ t ht with h | h | h | h | h | h
  · exact hm (e ▸ h.1)
  · exact hn (e ▸ hs t h)
  · have := h1 (e ▸ h.1); rw [this] at h; cases h.2
  · have := h2 (e ▸ h.1); rw [this] at h; cases h.2
  · have := h3 (e ▸ h.1); rw [this] at h; cases h.2
  · have := h4 (e ▸ h.1); rw [this] at h; cases h.2

/-- `header.Write` accepts the table map, and `header.Read` + `ReadTableBytes` on its output return
every table body (head with the checksum adjustment patched in; cmap, GDEF, GSUB, GPOS exactly when
they were given), no other side table and no kern table -/
theorem container_entries (side : List (Bytes × Bytes)) (hs : ∀ t ∈ side, t.1 ∈ sideTags)
    (hnd : (side.map (·.1)).Nodup) (hc : side.length ≤ 4)
    (hhea hmtx : Bytes) (cm : Option Bytes) (os2 name post glyf loca maxp head : Bytes)
    (gd gs gp : Option Bytes)
    (hhead : 12 ≤ head.length)
    (hsize : Header.fileSize (Header.named
      (tableEntries side hhea hmtx cm os2 name post glyf loca maxp head gd gs gp)) < 4294967296) :
    ∃ w recs adj,
      Header.write 0x00010000 (tableEntries side hhea hmtx cm os2 name post glyf loca maxp head gd gs gp) =
        .ok w ∧
      Header.read 280 w.bytes = .ok (0x00010000, recs) ∧
      tableOf w.bytes recs (tag "hhea") = some hhea ∧
      tableOf w.bytes recs (tag "hmtx") = some hmtx ∧
      tableOf w.bytes recs (tag "cmap") = cm ∧
      tableOf w.bytes recs (tag "OS/2") = some os2 ∧
      tableOf w.bytes recs (tag "name") = some name ∧
      tableOf w.bytes recs (tag "post") = some post ∧
      tableOf w.bytes recs (tag "glyf") = some glyf ∧
      tableOf w.bytes recs (tag "loca") = some loca ∧
      tableOf w.bytes recs (tag "maxp") = some maxp ∧
      tableOf w.bytes recs (tag "head") = some (Header.patchAdj head adj) ∧
      tableOf w.bytes recs (tag "GDEF") = gd ∧
      tableOf w.bytes recs (tag "GSUB") = gs ∧
      tableOf w.bytes recs (tag "GPOS") = gp ∧
      tableOf w.bytes recs (tag "kern") = none ∧
      (∀ t ∈ side, tableOf w.bytes recs t.1 = some t.2) ∧
      (∀ n ∈ sideTags, (∀ t ∈ side, t.1 ≠ n) → tableOf w.bytes recs n = none) := by
  have hnamed := named_tableEntries side hs hhea hmtx cm os2 name post glyf loca maxp head gd gs gp
  have hkeys := keys_tableEntries side hs hnd hhea hmtx cm os2 name post glyf loca maxp head gd gs gp
  generalize hts : tableEntries side hhea hmtx cm os2 name post glyf loca maxp head gd gs gp = ts at *
  have hlen : (Header.named ts).length ≤ side.length + 13 := by
    rw [hnamed]
    cases cm <;> cases gd <;> cases gs <;> cases gp <;> simp [tableBodies, optBody]
  have hdom : SfntV.Props.C03.Dom ts := ⟨hkeys, hsize, by omega⟩
  have hpr : ∀ t ∈ Header.named ts, ∀ b ∈ t.1, (0x20 : UInt8) ≤ b ∧ b ≤ 0x7e := by
    intro t ht
    rw [hnamed] at ht
    rcases mem_tableBodies _ _ _ _ _ _ _ _ _ _ _ _ _ _ t ht with h | h
    · exact fixed_printable t.1 h
    · exact sideTag_printable t.1 (hs t h)
  obtain ⟨w, hw⟩ := (SfntV.Props.C03.C03_ok_iff 0x00010000 ts hkeys).mpr ⟨by
      rw [hnamed]; simp [tableBodies], by
      intro d hd
      rw [hnamed] at hd
      rw [head_of_tableBodies side hs _ _ _ _ _ _ _ _ _ _ _ _ _ d hd]
      exact hhead⟩
  obtain ⟨recs, adj, hread, hlook, hnone⟩ :=
    container_lookup 0x00010000 (by decide) ts hdom (by omega) hpr w hw
  rw [hnamed] at hlook hnone
  have hfix : ∀ (n b : Bytes), (n == Header.headTag) = false →
      (n, b) ∈ tableBodies side hhea hmtx cm os2 name post glyf loca maxp head gd gs gp →
      tableOf w.bytes recs n = some b := by
    intro n b hne hm
    have := hlook (n, b) hm
    simpa [storedBody, hne] using this
  have habs := absent_tableBodies side hs hhea hmtx cm os2 name post glyf loca maxp head gd gs gp
  refine ⟨w, recs, adj, hw, hread, ?_, ?_, ?_, ?_, ?_, ?_, ?_, ?_, ?_, ?_, ?_, ?_, ?_, ?_, ?_, ?_⟩
  · exact hfix _ _ (by decide) (by simp [tableBodies])
  · exact hfix _ _ (by decide) (by simp [tableBodies])
  · cases cm with
    | none =>
      exact hnone _ (habs _ (by decide) (by decide) (fun _ => rfl) (fun e => absurd e (by decide))
        (fun e => absurd e (by decide)) (fun e => absurd e (by decide)))
    | some b => exact hfix _ _ (by decide) (by simp [tableBodies, optBody])
  · exact hfix _ _ (by decide) (by simp [tableBodies])
  · exact hfix _ _ (by decide) (by simp [tableBodies])
  · exact hfix _ _ (by decide) (by simp [tableBodies])
  · exact hfix _ _ (by decide) (by simp [tableBodies])
  · exact hfix _ _ (by decide) (by simp [tableBodies])
  · exact hfix _ _ (by decide) (by simp [tableBodies])
  · have := hlook (tag "head", head) (by simp [tableBodies])
    have hh : (tag "head" == Header.headTag) = true := by decide
    simpa [storedBody, hh] using this
  · cases gd with
    | none =>
      exact hnone _ (habs _ (by decide) (by decide) (fun e => absurd e (by decide)) (fun _ => rfl)
        (fun e => absurd e (by decide)) (fun e => absurd e (by decide)))
    | some b => exact hfix _ _ (by decide) (by simp [tableBodies, optBody])
  · cases gs with
    | none =>
      exact hnone _ (habs _ (by decide) (by decide) (fun e => absurd e (by decide))
        (fun e => absurd e (by decide)) (fun _ => rfl) (fun e => absurd e (by decide)))
    | some b => exact hfix _ _ (by decide) (by simp [tableBodies, optBody])
  · cases gp with
    | none =>
      exact hnone _ (habs _ (by decide) (by decide) (fun e => absurd e (by decide))
        (fun e => absurd e (by decide)) (fun e => absurd e (by decide)) (fun _ => rfl))
    | some b => exact hfix _ _ (by decide) (by simp [tableBodies, optBody])
  · exact hnone _ (habs _ (by decide) (by decide) (fun e => absurd e (by decide))
      (fun e => absurd e (by decide)) (fun e => absurd e (by decide)) (fun e => absurd e (by decide)))
  · intro t ht
    exact hfix t.1 t.2 (sideTag_ne_head _ (hs t ht)) (by simp [tableBodies, ht])
  · intro n hn hno
    apply hnone
    intro t ht e
    rcases mem_tableBodies _ _ _ _ _ _ _ _ _ _ _ _ _ _ t ht with h | h
    · exact fixed_not_side _ h (e ▸ hn)
    · exact hno t h e

/-! ### `readFile` on decoded tables -/

/-- the abstract table set `readFile` builds from the decoded tables -/
def tablesRead (c : Int → Int → Int) (H : Metrics.Head) (mx : Metrics.Maxp) (o2 : Metrics.Os2)
    (d : Metrics.Decoded) (dec : List Names.Entry) (cm : Option CmapTable.Table)
    (p : PostRec × Option (List Names.GName)) (gs : Glyf.Glyphs) (gd gsb gp : Option Str) : Tables :=
  { scalerCFF := false,
    head := some (recOfHead H),
    hmtx := some { widths := d.widths, ascent := d.ascent, descent := d.descent,
                   lineGap := d.lineGap, caret16 := c d.rise d.run },
    maxp := some mx.numGlyphs.toNat,
    os2 := some (recOfOs2 o2),
    name := nameRecOf dec,
    post := some p.1,
    cff := none,
    outline := outlineOf gs none cm (namesFor gs.length p.2),
    gdef := gd, gsub := gsb, gpos := gp, kern := none }

theorem hasDecode_guard (o : Option Bytes) (dec : Bytes → Outcome Str)
    (h : ∀ b, o = some b → b ≠ [] ∧ dec b = .ok (tokenOfBytes b)) :
    hasDecode o dec = .ok (o.map tokenOfBytes) := by
  cases o with
  | none => rfl
  | some b =>
    obtain ⟨hne, hd⟩ := h b rfl
    have he : b.isEmpty = false := by
      cases b with
      | nil => exact absurd rfl hne
      | cons x r => rfl
    simp only [hasDecode, he, hd, Option.map]
    rfl

theorem readFile_of (ld : LayoutDec) (c : Int → Int → Int) (f : Bytes) (recs : List (Bytes × Nat × Nat))
    (hread : Header.read 280 f = .ok (0x00010000, recs))
    (bhead bmaxp bos2 bhhea bhmtx bname bpost bloca bglyf : Bytes)
    (thead : tableOf f recs (tag "head") = some bhead)
    (tmaxp : tableOf f recs (tag "maxp") = some bmaxp)
    (tos2 : tableOf f recs (tag "OS/2") = some bos2)
    (thhea : tableOf f recs (tag "hhea") = some bhhea)
    (thmtx : tableOf f recs (tag "hmtx") = some bhmtx)
    (tname : tableOf f recs (tag "name") = some bname)
    (tpost : tableOf f recs (tag "post") = some bpost)
    (tloca : tableOf f recs (tag "loca") = some bloca)
    (tglyf : tableOf f recs (tag "glyf") = some bglyf)
    (H : Metrics.Head) (dH : Metrics.decodeHead bhead = .ok H)
    (mx : Metrics.Maxp) (dM : Metrics.decodeMaxp bmaxp = .ok mx)
    (o2 : Metrics.Os2) (dO : Metrics.decodeOs2 bos2 = .ok o2)
    (d : Metrics.Decoded) (dD : Metrics.decode bhhea (some bhmtx) = .ok d)
    (dec : List Names.Entry) (dN : Names.nameDecode (bytesToNats bname) = some dec)
    (cm : Option CmapTable.Table)
    (dC : optDecode (tableOf f recs (tag "cmap")) CmapTable.decode = .ok cm)
    (p : PostRec × Option (List Names.GName)) (dP : decodePostFull bpost = .ok p)
    (gs : Glyf.Glyphs) (dG : Glyf.decode H.locaFormat bloca bglyf = .ok gs)
    (gd gsb gp : Option Str)
    (dGd : hasDecode (tableOf f recs (tag "GDEF")) ld.gdef = .ok gd)
    (dGs : hasDecode (tableOf f recs (tag "GSUB")) ld.gsub = .ok gsb)
    (dGp : hasDecode (tableOf f recs (tag "GPOS")) ld.gpos = .ok gp)
    (tkern : tableOf f recs (tag "kern") = none)
    (hT : readErr (tablesRead c H mx o2 d dec cm p gs gd gsb gp) = none) :
    readFile ld c f = .ok
      { font := merge (tablesRead c H mx o2 d dec cm p gs gd gsb gp), glyphs := gs, maxpTtf := mx.ttf,
        cmap := cm, glyphNames := namesFor gs.length p.2,
        sideTables := sideTags.filterMap fun t =>
          match tableOf f recs t with
          | some b => if b.isEmpty then none else some (t, b)
          | none => none } := by
  unfold tablesRead at hT ⊢
  unfold readFile
  simp only [hread, dC, dGd, dGs, dGp, tkern]
  simp only [thead, tmaxp, tos2, thhea, thmtx, tname, tpost, tloca, tglyf, optDecode,
    dH, dM, dO, dD, dN, dP, dG, Option.map, Option.bind]
  simp only [hT]
  rfl

/-! ### `writeTables`, `codec ∘ derive` on a file font -/

theorem codec_derive_metaOf (env : Env) (F : FileFont) :
    codec (derive env (metaOf F)) =
      { scalerCFF := false, head := some (codecHead (deriveHead (metaOf F))),
        hmtx := some (deriveHmtx env (metaOf F)), maxp := some F.glyphs.length,
        os2 := some (codecOs2 (deriveOs2 (metaOf F))), name := some (deriveName env (metaOf F)),
        post := some (codecPost (derivePost (metaOf F))), cff := none,
        outline := outlineOf F.glyphs none F.cmap F.glyphNames,
        gdef := F.gdef.map tokenOfBytes, gsub := F.gsub.map tokenOfBytes,
        gpos := F.gpos.map tokenOfBytes, kern := none } := rfl

theorem deriveHmtx_widths (env : Env) (F : FileFont) (hr : ∀ w ∈ F.widths, isInt16 w) :
    (deriveHmtx env (metaOf F)).widths = F.widths := by
  show List.map (fun w => toInt16 w.trunc) (List.map Dy.ofInt F.widths) = F.widths
  rw [List.map_map]
  conv => rhs; rw [← List.map_id F.widths]
  apply List.map_congr_left
  intro w hw
  simp only [Function.comp, trunc_ofInt, id]
  exact toInt16_of_range w (hr w hw)

theorem writeTables_eq (ef : EnvF) (F : FileFont) (enc : Glyf.Encoded) (hhea hmtx maxp : Bytes)
    (henc : Glyf.encode F.glyphs = .ok enc)
    (hws : (deriveHmtx ef.env (metaOf F)).widths = F.widths)
    (hm : Metrics.encode ⟨some F.widths, some (F.glyphs.map rectOf), none,
        (deriveHmtx ef.env (metaOf F)).ascent, (deriveHmtx ef.env (metaOf F)).descent,
        (deriveHmtx ef.env (metaOf F)).lineGap, 0⟩
        (ef.riseRun (metaOf F).italicAngle).1 (ef.riseRun (metaOf F).italicAngle).2 = .ok (hhea, some hmtx))
    (hmaxp : Metrics.encodeMaxp ⟨F.glyphs.length, some F.maxpTtf⟩ = .ok maxp) :
    writeTables ef F = .ok (tableEntries F.sideTables hhea hmtx (F.cmap.map CmapTable.encode)
      (Metrics.encodeOs2 (os2Of (deriveOs2 (metaOf F))
        ⟨(charIndices F.cmap).1, (charIndices F.cmap).2,
          (Metrics.winMetricsModel (Metrics.fontBBoxModel (F.glyphs.map rectOf))).1,
          (Metrics.winMetricsModel (Metrics.fontBBoxModel (F.glyphs.map rectOf))).2⟩))
      (natsToBytes (Names.nameEncode (nameEntries (deriveName ef.env (metaOf F))) 1))
      (natsToBytes (Names.postEncode (postHdrN (derivePost (metaOf F))) F.glyphNames))
      enc.glyf enc.loca maxp
      (Metrics.encodeHead (headOf (deriveHead (metaOf F)) (Metrics.fontBBoxModel (F.glyphs.map rectOf)) enc.fmt))
      F.gdef F.gsub F.gpos) := by
  unfold writeTables
  simp only [henc, hws, hm, hmaxp]
  rfl

/-- the cmap table read back is the cmap table of the font -/
theorem cmap_read (F : FileFont)
    (hc : ∀ t, F.cmap = some t → (∀ kd ∈ t, CmapTable.ValidSub kd.1 kd.2) ∧ t.length < 65536 ∧
      (CmapTable.encode t).length < 4294967296) :
    optDecode (F.cmap.map CmapTable.encode) CmapTable.decode = .ok F.cmap := by
  cases hcm : F.cmap with
  | none => rfl
  | some t =>
    obtain ⟨hv, hn, hsz⟩ := hc t hcm
    simp only [Option.map, optDecode, cmap_table t hv hn hsz]

/-- one name per glyph: `Read` keeps all of them -/
theorem namesFor_self (n : Nat) (names : Option (List Names.GName))
    (h : ∀ ns, names = some ns → ns.length = n) : namesFor n names = names := by
  cases names with
  | none => rfl
  | some ns =>
    have := h ns rfl
    subst this
    simp [namesFor]

/-! ### `Subfamily()` is never empty -/

theorem joinWords_ne_nil : ∀ ws : List Str, ws ≠ [] → (∀ w ∈ ws, w ≠ []) → joinWords ws ≠ []
  | [], h, _ => absurd rfl h
  | [w], _, hw => by simpa [joinWords] using hw w (by simp)
  | w :: w' :: ws, _, _ => by simp [joinWords]

theorem widthString_ne_nil (w : Nat) : widthString w ≠ [] := by
  unfold widthString
  repeat' split
  all_goals first
    | decide
    | simp

theorem weightSimple_ne_nil (w : Nat) : weightSimple w ≠ [] := by
  have h := weightSimple_mem w
  exact (by decide : ∀ s ∈ weightWords, s ≠ []) _ h

theorem snoc_ne_nil (l : List Str) (x : Str) (hl : ∀ w ∈ l, w ≠ []) (hx : x ≠ []) :
    ∀ w ∈ l ++ [x], w ≠ [] := by
  intro w hw
  rcases List.mem_append.mp hw with h | h
  · exact hl w h
  · simp only [List.mem_cons, List.not_mem_nil, or_false] at h
    subst h; exact hx

theorem styleWords_ne_nil (w2 : List Str) (h2 : ∀ w ∈ w2, w ≠ []) (oblique italic : Bool) :
    ∀ w ∈ (if oblique = true then w2 ++ [s_Oblique] else if italic = true then w2 ++ [s_Italic] else w2),
      w ≠ [] := by
  intro w hw
  split at hw
  · exact snoc_ne_nil _ _ h2 (by decide) w hw
  · split at hw
    · exact snoc_ne_nil _ _ h2 (by decide) w hw
    · exact h2 w hw

theorem words_ne_nil (width : Nat) (wt : Option (Str × Bool)) (hwt : ∀ p, wt = some p → p.1 ≠ [])
    (bold oblique italic : Bool) :
    ∀ w ∈ subfamilyWordsCore width wt bold oblique italic, w ≠ [] := by
  have h1 : ∀ w ∈ (if width ≠ 0 ∧ width ≠ 5 then [widthString width] else []), w ≠ [] := by
    intro w hw
    split at hw
    · simp only [List.mem_cons, List.not_mem_nil, or_false] at hw
      subst hw; exact widthString_ne_nil _
    · cases hw
  intro w hw
  unfold subfamilyWordsCore at hw
  simp only at hw
  generalize (if width ≠ 0 ∧ width ≠ 5 then [widthString width] else []) = w1 at h1 hw
  cases wt with
  | none =>
    refine styleWords_ne_nil (if bold = true then w1 ++ [s_Bold] else w1) ?_ oblique italic w hw
    intro w hw
    split at hw
    · exact snoc_ne_nil _ _ h1 (by decide) w hw
    · exact h1 w hw
  | some p =>
    obtain ⟨tg, seen⟩ := p
    refine styleWords_ne_nil (if (seen || w1.any (hasInfix tg)) = true then w1 else w1 ++ [tg]) ?_
      oblique italic w hw
    intro w hw
    split at hw
    · exact h1 w hw
    · exact snoc_ne_nil _ _ h1 (hwt _ rfl) w hw

theorem subfamily_ne_nil (M : FontMeta) : subfamily M ≠ [] := by
  unfold subfamily subfamilyCore
  simp only
  split
  · decide
  · rename_i hne
    apply joinWords_ne_nil
    · intro e; rw [e] at hne; exact hne rfl
    · apply words_ne_nil
      intro p hp
      unfold weightTag at hp
      split at hp
      · cases hp; exact weightSimple_ne_nil _
      · cases hp

theorem rt_encodeHead_length (H : Metrics.Head) : (Metrics.encodeHead H).length = 54 := by
  simp only [Metrics.encodeHead, Metrics.i64enc, Metrics.be64, Metrics.i16enc, be32, be16,
    List.length_append, List.length_cons, List.length_nil]

theorem deriveHmtx_eq (env : Env) (F : FileFont) (hr : ∀ w ∈ F.widths, isInt16 w) :
    deriveHmtx env (metaOf F) =
      ⟨F.widths, F.scalars.ascent, F.scalars.descent, F.scalars.lineGap, env.caretOf F.scalars.italicAngle⟩ := by
  have := deriveHmtx_widths env F hr
  show HmtxRec.mk (deriveHmtx env (metaOf F)).widths F.scalars.ascent F.scalars.descent F.scalars.lineGap
    (env.caretOf F.scalars.italicAngle) = _
  rw [this]

theorem inDomain_metaOf (F : FileFont) (hl : F.widths.length = F.glyphs.length)
    (hv : F.scalars.version < 4294967296) : InDomain (metaOf F) := by
  refine ⟨?_, hv⟩
  intro l hl'
  have : l = F.widths.map Dy.ofInt := by
    have h2 : (metaOf F).outline.widths = some (F.widths.map Dy.ofInt) := rfl
    rw [h2] at hl'
    injection hl' with hl'
    exact hl'.symm
  subst this
  rw [List.length_map, hl]
  rfl

/-- pointwise equal functions give equal `filterMap`s -/
theorem filterMap_congr' {α β : Type} (f g : α → Option β) : ∀ (l : List α), (∀ x ∈ l, f x = g x) →
    l.filterMap f = l.filterMap g := by
  intro l
  induction l with
  | nil => intro _; rfl
  | cons a t ih =>
    intro h
    simp only [List.filterMap_cons]
    rw [h a List.mem_cons_self, ih (fun x hx => h x (List.mem_cons_of_mem _ hx))]

/-- **Byte-level round trip.**  For every TrueType font value in the domain, the bytes `Write` produces are
read back by `Read` as the explicit normal form: scalar fields `nf`, glyphs, maxp maxima, side
tables, cmap subtables and glyph names unchanged, layout tables as what `ld` makes of their bytes.  `caretOf` (float trigonometry of `hmtx.toAngle`) is arbitrary: it cannot
influence the result because the post table is present. -/
theorem file_roundtrip (ld : LayoutDec) (ef : EnvF) (caretOf : Int → Int → Int) (F : FileFont)
    (h : InDomainFile ld ef F) :
    ∃ b, writeFile ef F = .ok b ∧ readFile ld caretOf b = .ok (nfFile F) := by
  -- glyf / loca
  obtain ⟨enc, henc, hgdec⟩ := glyf_table F.glyphs h.glyphs
  have hfmt : (enc.fmt : Int) = locaFmt F.glyphs := by
    have h1 := Glyf.encode_eq F.glyphs
    rw [henc] at h1
    injection h1 with h1
    rw [h1]
    unfold locaFmt
    simp only
    split <;> rfl
  rw [hfmt] at hgdec
  -- hhea / hmtx
  have hws := deriveHmtx_widths ef.env F h.widthsRange
  have hgl : 1 ≤ F.glyphs.length := by
    have := h.glyphs.nonempty
    cases hg : F.glyphs with
    | nil => exact absurd hg this
    | cons a r => simp
  have hne : F.widths ≠ [] := by
    intro e
    have := h.widthsLen
    rw [e] at this
    simp at this
    omega
  obtain ⟨hhea, hmtx, d, hmenc, hmdec, dw, da, dd, dg, dr, du⟩ :=
    hmtx_table F.widths (F.glyphs.map rectOf) F.scalars.ascent F.scalars.descent F.scalars.lineGap
      (ef.riseRun F.scalars.italicAngle).1 (ef.riseRun F.scalars.italicAngle).2
      hne (by rw [h.widthsLen]; exact h.count) (by rw [List.length_map, h.widthsLen])
      h.widthsRange h.extents h.ascent h.descent h.lineGap h.caret.1 h.caret.2
  -- maxp
  obtain ⟨maxp, hmxenc, hmxdec⟩ := maxp_table F.glyphs.length F.maxpTtf hgl h.count h.maxp
  -- the table map
  have hwt := writeTables_eq ef F enc hhea hmtx maxp henc hws hmenc hmxenc
  rw [hfmt] at hwt
  -- the container
  obtain ⟨w, recs, adj, hw, hread, thhea, thmtx, tcmap, tos2, tname, tpost, tglyf, tloca, tmaxp, thead,
      tgdef, tgsub, tgpos, tkern, tside, tnone⟩ :=
    container_entries F.sideTables h.sideTags h.sideNodup h.sideCount _ _ _ _ _ _ _ _ _ _ _ _ _
      (by rw [rt_encodeHead_length]; omega) (h.size _ hwt)
  refine ⟨w.bytes, ?_, ?_⟩
  · unfold writeFile
    rw [hwt]
    simp only [hw]
  -- the table decoders
  obtain ⟨H, hH, hHrec, hHloca⟩ := head_table (deriveHead (metaOf F))
    (Metrics.fontBBoxModel (F.glyphs.map rectOf)) (locaFmt F.glyphs) adj h.head h.ctime h.mtime
  obtain ⟨hO, hOrec⟩ := os2_table (deriveOs2 (metaOf F))
    ⟨(charIndices F.cmap).1, (charIndices F.cmap).2,
      (Metrics.winMetricsModel (Metrics.fontBBoxModel (F.glyphs.map rectOf))).1,
      (Metrics.winMetricsModel (Metrics.fontBBoxModel (F.glyphs.map rectOf))).2⟩ h.os2
  obtain ⟨dec, hN, hNrec⟩ := name_table (deriveName ef.env (metaOf F)) h.name (subfamily_ne_nil (metaOf F))
  have hP := post_names_table (derivePost (metaOf F)) F.glyphNames (toInt16_range _) (toInt16_range _) h.names
  have hC : optDecode (tableOf w.bytes recs (tag "cmap")) CmapTable.decode = .ok F.cmap := by
    rw [tcmap]; exact cmap_read F h.cmap
  have hnf : namesFor F.glyphs.length (codecPost (derivePost (metaOf F)), F.glyphNames).2 = F.glyphNames :=
    namesFor_self _ _ h.namesLen
  rw [← hHloca] at hgdec
  -- the abstract table set is `codec (derive env' (metaOf F))`
  have hT : tablesRead caretOf H ⟨F.glyphs.length, some F.maxpTtf⟩
      (os2Read (deriveOs2 (metaOf F))
        ⟨(charIndices F.cmap).1, (charIndices F.cmap).2,
          (Metrics.winMetricsModel (Metrics.fontBBoxModel (F.glyphs.map rectOf))).1,
          (Metrics.winMetricsModel (Metrics.fontBBoxModel (F.glyphs.map rectOf))).2⟩)
      d dec F.cmap (codecPost (derivePost (metaOf F)), F.glyphNames) F.glyphs
      (F.gdef.map tokenOfBytes) (F.gsub.map tokenOfBytes) (F.gpos.map tokenOfBytes) =
      codec (derive { ef.env with caretOf := fun _ => caretOf d.rise d.run } (metaOf F)) := by
    rw [codec_derive_metaOf, deriveHmtx_eq _ F h.widthsRange]
    unfold tablesRead
    simp only [hHrec, hOrec, hNrec, hnf, dw, da, dd, dg, Int.toNat_natCast]
    rfl
  have hM : InDomain (metaOf F) := inDomain_metaOf F h.widthsLen h.version
  have hGd : hasDecode (tableOf w.bytes recs (tag "GDEF")) ld.gdef = .ok (F.gdef.map tokenOfBytes) := by
    rw [tgdef]; exact hasDecode_guard _ _ h.gdef
  have hGs : hasDecode (tableOf w.bytes recs (tag "GSUB")) ld.gsub = .ok (F.gsub.map tokenOfBytes) := by
    rw [tgsub]; exact hasDecode_guard _ _ h.gsub
  have hGp : hasDecode (tableOf w.bytes recs (tag "GPOS")) ld.gpos = .ok (F.gpos.map tokenOfBytes) := by
    rw [tgpos]; exact hasDecode_guard _ _ h.gpos
  rw [readFile_of ld caretOf w.bytes recs hread _ _ _ _ _ _ _ _ _ thead tmaxp tos2 thhea thmtx tname tpost tloca tglyf
    H hH _ hmxdec _ hO d hmdec dec hN F.cmap hC _ hP F.glyphs hgdec _ _ _ hGd hGs hGp tkern
    (by rw [hT]; exact write_accepted _ _ hM)]
  rw [hT, read_write _ _ hM, hnf]
  -- side tables
  have hside : (sideTags.filterMap fun t =>
        match tableOf w.bytes recs t with
        | some b => if b.isEmpty then none else some (t, b)
        | none => none) =
      sideTags.filterMap fun t =>
        match F.sideTables.find? (·.1 == t) with
        | some p => if p.2.isEmpty then none else some (t, p.2)
        | none => none := by
    apply filterMap_congr'
    intro t ht
    cases hf : F.sideTables.find? (·.1 == t) with
    | none =>
      have hno := List.find?_eq_none.mp hf
      rw [tnone t ht (fun x hx e => hno x hx (by simp [e]))]
    | some p =>
      have hp : p ∈ F.sideTables := List.mem_of_find?_eq_some hf
      have hpt : p.1 = t := by simpa using List.find?_some hf
      have := tside p hp
      rw [hpt] at this
      rw [this]
  rw [hside]
  rfl


end SfntV.FontFile
