import SfntV.Proofs.ShapeSpecBase
namespace SfntV.Spec.Shape
open SfntV SfntV.Shape

/-
C06: the GPOS subtables of the engine model agree with the reference semantics (`SubEq`).
The auxiliary lemmas live in the namespace `SfntV.Spec.Shape.Gpos`; the seven results
`subEq_gpos11 … subEq_gpos61` in `SfntV.Spec.Shape`.
-/
namespace Gpos

/-! ## list facts about a sequence split at the current glyph -/

private theorem at_mid {α} (l : List α) (x : α) (r : List α) (n : Nat) (hn : n = l.length) :
    (l ++ x :: r)[n]? = some x := by
  subst hn; simp

private theorem take_mid {α} (l : List α) (x : α) (r : List α) (n : Nat) (hn : n = l.length) :
    (l ++ x :: r).take n = l := by
  subst hn; simp

private theorem drop_mid {α} (l : List α) (x : α) (r : List α) (n : Nat) (hn : n = l.length) :
    (l ++ x :: r).drop (n + 1) = r := by
  subst hn; simp

private theorem set_mid {α} (l : List α) (x y : α) (r : List α) (n : Nat) (hn : n = l.length) :
    (l ++ x :: r).set n y = l ++ y :: r := by
  subst hn; simp

private theorem set_post {α} (l : List α) (x y : α) (r : List α) (n j : Nat) (hn : n = l.length) :
    (l ++ x :: r).set (n + 1 + j) y = l ++ x :: r.set j y := by
  subst hn
  rw [List.set_append_right _ _ (by omega)]
  have : l.length + 1 + j - l.length = j + 1 := by omega
  rw [this]; rfl

private theorem at_post {α} (l : List α) (x : α) (r : List α) (n j : Nat) (hn : n = l.length) :
    (l ++ x :: r)[n + 1 + j]? = r[j]? := by
  subst hn
  rw [List.getElem?_append_right (by omega)]
  have : l.length + 1 + j - l.length = j + 1 := by omega
  rw [this]; rfl

theorem seq_eq (pre : List TG) (cur : TG) (post : List TG) :
    gl (pre.reverse ++ cur :: post) = (gl pre).reverse ++ cur.g :: gl post := by
  simp [gl_reverse]

private theorem glrev_len (pre : List TG) : pre.length = (gl pre).reverse.length := by simp

/-! ## the two monads -/

theorem ebind_ok {α β} {x : R α} {f : α → R β} {r : β} (h : (x >>= f) = .ok r) :
    ∃ a, x = .ok a ∧ f a = .ok r := by
  cases x with
  | ok a => exact ⟨a, rfl, h⟩
  | error e => cases h

theorem epure_eq {α} {a : α} : (pure a : R α) = .ok a := rfl

theorem need_ok {α} {o : Option α} {why : String} {a : α} (h : need o why = .ok a) : o = some a := by
  unfold need at h
  cases o with
  | none => cases h
  | some b => cases h; rfl

theorem idx_some {α} {site : String} {xs : List α} {i : Nat} {v : α} (h : xs[i]? = some v) :
    idx site xs i = .ok v := by
  unfold idx; rw [h]

/-- reduce `SubEq` to the branches where the reference is defined -/
theorem subEq_of {kp : Nat → Bool} {gd : Gdef} {pre : List TG} {cur : TG} {post : List TG} {s : Subtable}
    (h : ∀ r, matchSub kp gd pre cur post post.length s = .ok r →
      match r with
      | none =>
        applySub kp ⟨(gl pre).reverse ++ cur.g :: gl post, []⟩ pre.length
          (((gl pre).reverse ++ cur.g :: gl post).length : Nat) s = .ok none
      | some (.done dn rest) =>
        applySub kp ⟨(gl pre).reverse ++ cur.g :: gl post, []⟩ pre.length
          (((gl pre).reverse ++ cur.g :: gl post).length : Nat) s
          = .ok (some (⟨gl (pre.reverse ++ dn ++ rest), []⟩, pre.length + dn.length))
      | some (.ctx _ _) => False) :
    SubEq kp gd pre cur post s := by
  unfold SubEq
  simp only [seq_eq]
  cases hm : matchSub kp gd pre cur post post.length s with
  | error e => trivial
  | ok r =>
    have := h r hm
    cases r with
    | none => exact this
    | some hit =>
      cases hit with
      | done dn rest => exact this
      | ctx m a => exact this

/-! ## value records -/

theorem addValue_ok {v : Option ValueRec} {g g' : Glyph} (h : addValue v g = .ok g') :
    applyValue v g = .ok g' := by
  unfold addValue at h
  unfold applyValue
  cases v with
  | none => cases h; rfl
  | some v =>
    simp only at h ⊢
    split at h
    · cases h
    · rename_i hu
      obtain ⟨x, hx, h⟩ := ebind_ok h
      obtain ⟨y, hy, h⟩ := ebind_ok h
      obtain ⟨a, ha, h⟩ := ebind_ok h
      obtain ⟨hx1, hx2⟩ := fit16_ok hx
      obtain ⟨hy1, hy2⟩ := fit16_ok hy
      obtain ⟨ha1, ha2⟩ := fit16_ok ha
      simp only [hu, hx2, hy2, ha2]
      subst hx1 hy1 ha1
      cases h
      simp

theorem _root_.SfntV.Spec.Shape.subEq_gpos11 (kp : Nat → Bool) (gd : Gdef) (pre : List TG) (cur : TG) (post : List TG)
    (cov : Cov) (adj : Option ValueRec) : SubEq kp gd pre cur post (.gpos11 cov adj) := by
  apply subEq_of
  intro r hr
  simp only [matchSub] at hr
  simp only [applySub, idx_some (at_mid _ _ _ _ (glrev_len pre)), bind_ok_eq]
  split at hr
  · rename_i hc
    cases hr
    simp only [hc, if_true]
  · rename_i hc
    obtain ⟨g, hg, hr⟩ := ebind_ok hr
    cases hr
    simp only [hc, addValue_ok hg, bind_ok_eq, set_mid _ _ _ _ _ (glrev_len pre)]
    simp [gl_reverse]


theorem _root_.SfntV.Spec.Shape.subEq_gpos12 (kp : Nat → Bool) (gd : Gdef) (pre : List TG) (cur : TG) (post : List TG)
    (cov : Cov) (adj : List (Option ValueRec)) : SubEq kp gd pre cur post (.gpos12 cov adj) := by
  apply subEq_of
  intro r hr
  simp only [matchSub] at hr
  simp only [applySub, idx_some (at_mid _ _ _ _ (glrev_len pre)), bind_ok_eq]
  split at hr
  · rename_i hc
    cases hr
    simp only [hc]
  · rename_i i hc
    obtain ⟨v, hv, hr⟩ := ebind_ok hr
    obtain ⟨g, hg, hr⟩ := ebind_ok hr
    cases hr
    simp only [hc, idx_some (need_ok hv), addValue_ok hg, bind_ok_eq, set_mid _ _ _ _ _ (glrev_len pre)]
    simp [gl_reverse]

/-! ## pairs -/

theorem nextKept_shift (kp : Nat → Bool) (ts : List TG) (i : Nat) :
    nextKept kp ts i = (nextKept kp ts 0).map fun p => (p.1 + i, p.2) := by
  induction ts generalizing i with
  | nil => rfl
  | cons t ts ih =>
    simp only [nextKept]
    split
    · simp
    · rw [ih (i + 1), ih (0 + 1)]
      cases nextKept kp ts 0 with
      | none => rfl
      | some p => simp only [Option.map_some]; congr 2; omega

theorem nextKept_some {kp : Nat → Bool} {ts : List TG} {j : Nat} {t : TG}
    (h : nextKept kp ts 0 = some (j, t)) : ts[j]? = some t := by
  induction ts generalizing j with
  | nil => cases h
  | cons u us ih =>
    simp only [nextKept] at h
    split at h
    · cases h; rfl
    · rw [nextKept_shift] at h
      cases hn : nextKept kp us 0 with
      | none => rw [hn] at h; cases h
      | some p =>
        obtain ⟨j', t'⟩ := p
        rw [hn] at h
        simp only [Option.map_some, Option.some.injEq, Prod.mk.injEq] at h
        obtain ⟨h1, h2⟩ := h
        subst h1 h2
        simpa using ih hn

theorem skipFwd_nextKept (kp : Nat → Bool) (post : List TG) (p : Nat) (L : Int)
    (hL : L = (p : Int) + (post.length : Nat)) :
    skipFwd kp (gl post) p L 0
      = .ok (match nextKept kp post 0 with
             | some (j, _) => p + j
             | none => p + post.length) := by
  induction post generalizing p with
  | nil =>
    simp only [gl_nil, skipFwd, nextKept]
    have : ¬ ((p : Int) + ((0 : Nat) : Int) < L) := by simp at hL; omega
    simp only [this, if_false]
    simp
  | cons t ts ih =>
    simp only [gl_cons, skipFwd, nextKept]
    have : ((p : Int) + ((0 : Nat) : Int) < L) := by simp at hL; omega
    simp only [this, if_true]
    split
    · simp
    · rw [ih (p + 1) (by simp at hL ⊢; omega), nextKept_shift kp ts (0 + 1)]
      cases nextKept kp ts 0 with
      | none => simp; omega
      | some q => simp; omega


private theorem seq_len (pre : List TG) (cur : TG) (post : List TG) :
    ((((gl pre).reverse ++ cur.g :: gl post).length : Nat) : Int)
      = ((pre.length + 1 : Nat) : Int) + (post.length : Nat) := by
  simp; omega

theorem lt_of_getElem? {α} {xs : List α} {j : Nat} {v : α} (h : xs[j]? = some v) : j < xs.length := by
  rcases Nat.lt_or_ge j xs.length with h' | h'
  · exact h'
  · rw [List.getElem?_eq_none h'] at h; cases h

/-- the engine's search for the second glyph of a pair -/
theorem skip_second (kp : Nat → Bool) (pre : List TG) (cur : TG) (post : List TG) :
    skipFwd kp (((gl pre).reverse ++ cur.g :: gl post).drop (pre.length + 1)) (pre.length + 1)
        ((((gl pre).reverse ++ cur.g :: gl post).length : Nat) : Int) 0
      = .ok (match nextKept kp post 0 with
             | some (j, _) => pre.length + 1 + j
             | none => pre.length + 1 + post.length) := by
  rw [drop_mid _ _ _ _ (glrev_len pre)]
  exact skipFwd_nextKept kp post (pre.length + 1) _ (seq_len pre cur post)

theorem pair_ok (pre : List TG) (cur : TG) (post : List TG) (adj : PairAdj) (j : Nat) (second : TG)
    (hj : post[j]? = some second) (r : Option Hit) (hr : pairAdjust adj cur post j second = .ok r) :
    ∃ dn rest, r = some (.done dn rest) ∧
      applyPair ⟨(gl pre).reverse ++ cur.g :: gl post, []⟩ pre.length (pre.length + 1 + j) cur.g second.g adj
        = .ok (some (⟨gl (pre.reverse ++ dn ++ rest), []⟩, pre.length + dn.length)) := by
  have hjl := lt_of_getElem? hj
  unfold pairAdjust at hr
  obtain ⟨g1, hg1, hr⟩ := ebind_ok hr
  unfold applyPair
  simp only [addValue_ok hg1, bind_ok_eq]
  cases hs : adj.second with
  | none =>
    rw [hs] at hr
    cases hr
    refine ⟨_, _, rfl, ?_⟩
    simp only [set_mid _ _ _ _ _ (glrev_len pre)]
    have hlen : ({ cur with g := g1 } :: List.take j post).length = 1 + j := by
      simp; omega
    rw [hlen]
    simp [gl_reverse]
    omega
  | some v =>
    rw [hs] at hr
    simp only at hr
    obtain ⟨g2, hg2, hr⟩ := ebind_ok hr
    cases hr
    refine ⟨_, _, rfl, ?_⟩
    simp only [addValue_ok hg2, bind_ok_eq, set_mid _ _ _ _ _ (glrev_len pre),
      set_post _ _ _ _ _ _ (glrev_len pre)]
    have hg : (gl post)[j]? = some second.g := by simp [gl, hj]
    rw [set_eq hg]
    have hlen : ({ cur with g := g1 } :: List.take j post ++ [{ second with g := g2 }]).length = 1 + j + 1 := by
      simp; omega
    rw [hlen]
    simp [gl_reverse, gl_take, gl_drop]
    omega

theorem _root_.SfntV.Spec.Shape.subEq_gpos21 (kp : Nat → Bool) (gd : Gdef) (pre : List TG) (cur : TG) (post : List TG)
    (pairs : List ((Nat × Nat) × Option PairAdj)) : SubEq kp gd pre cur post (.gpos21 pairs) := by
  apply subEq_of
  intro r hr
  simp only [matchSub, List.take_length] at hr
  simp only [applySub, idx_some (at_mid _ _ _ _ (glrev_len pre)), bind_ok_eq, skip_second]
  cases hn : nextKept kp post 0 with
  | none =>
    rw [hn] at hr
    cases hr
    simp only [seq_len]
    have : ((pre.length + 1 + post.length : Nat) : Int) ≥ ((pre.length + 1 : Nat) : Int) + (post.length : Nat) := by
      omega
    simp only [this, if_true]
  | some q =>
    obtain ⟨j, second⟩ := q
    rw [hn] at hr
    simp only at hr ⊢
    have hj := nextKept_some hn
    have hjl := lt_of_getElem? hj
    simp only [seq_len]
    have : ¬ (((pre.length + 1 + j : Nat) : Int) ≥ ((pre.length + 1 : Nat) : Int) + (post.length : Nat)) := by
      omega
    simp only [this, if_false]
    have hg : ((gl pre).reverse ++ cur.g :: gl post)[pre.length + 1 + j]? = some second.g := by
      rw [at_post _ _ _ _ _ (glrev_len pre)]; simp [gl, hj]
    simp only [idx_some hg, bind_ok_eq]
    split at hr
    · rename_i hl
      cases hr
      simp only [hl]
    · cases hr
    · rename_i adj hl
      simp only [hl]
      obtain ⟨dn, rest, h1, h2⟩ := pair_ok pre cur post adj j second hj r hr
      subst h1
      exact h2


theorem _root_.SfntV.Spec.Shape.subEq_gpos22 (kp : Nat → Bool) (gd : Gdef) (pre : List TG) (cur : TG) (post : List TG)
    (cov : GSet) (cls1 cls2 : ClassDef) (adj : List (List (Option PairAdj))) (h : setOk cov = true) :
    SubEq kp gd pre cur post (.gpos22 cov cls1 cls2 adj) := by
  apply subEq_of
  intro r hr
  simp only [matchSub, List.take_length] at hr
  simp only [applySub, idx_some (at_mid _ _ _ _ (glrev_len pre)), bind_ok_eq, skip_second,
    setHas_eq_setVal h]
  split at hr
  · rename_i hc
    cases hr
    simp only [hc, if_true]
  rename_i hc
  simp only [hc]
  cases hn : nextKept kp post 0 with
  | none =>
    rw [hn] at hr
    cases hr
    simp only [seq_len]
    have : ((pre.length + 1 + post.length : Nat) : Int) ≥ ((pre.length + 1 : Nat) : Int) + (post.length : Nat) := by
      omega
    simp
  | some q =>
    obtain ⟨j, second⟩ := q
    rw [hn] at hr
    simp only at hr ⊢
    have hj := nextKept_some hn
    have hjl := lt_of_getElem? hj
    simp only [seq_len]
    have : ¬ (((pre.length + 1 + j : Nat) : Int) ≥ ((pre.length + 1 : Nat) : Int) + (post.length : Nat)) := by
      omega
    simp only [this, if_false]
    have hg : ((gl pre).reverse ++ cur.g :: gl post)[pre.length + 1 + j]? = some second.g := by
      rw [at_post _ _ _ _ _ (glrev_len pre)]; simp [gl, hj]
    simp only [idx_some hg, bind_ok_eq]
    split at hr
    · rename_i hl
      cases hr
      simp [hl]
    · rename_i row hl
      simp only [hl]
      split at hr
      · rename_i hl2
        cases hr
        simp [hl2]
      · cases hr
      · rename_i pa hl2
        simp only [hl2]
        obtain ⟨dn, rest, h1, h2⟩ := pair_ok pre cur post pa j second hj r hr
        subst h1
        exact h2

theorem _root_.SfntV.Spec.Shape.subEq_gpos31 (kp : Nat → Bool) (gd : Gdef) (pre : List TG) (cur : TG) (post : List TG)
    (cov : Cov) (recs : List EntryExit) : SubEq kp gd pre cur post (.gpos31 cov recs) := by
  apply subEq_of
  intro r hr
  simp only [matchSub] at hr
  cases hr


/-! ## mark attachment -/

/-- the engine's backward search `findCand` stops at the first candidate glyph -/
theorem findCand_spec (skip : Nat → Bool) (isCand : TG → Bool) (hc : ∀ t, isCand t = !skip t.g.gid)
    (pre : List TG) (acc : Int) :
    match pre.findIdx? isCand with
    | none => findCand skip (gl pre) acc = none
    | some k => ∃ t, pre[k]? = some t ∧
        findCand skip (gl pre) acc = some (t.g, acc + advSum (pre.take (k + 1))) := by
  induction pre generalizing acc with
  | nil => simp [findCand]
  | cons u us ih =>
    rw [List.findIdx?_cons]
    cases hs : skip u.g.gid with
    | false =>
      have hu : isCand u = true := by rw [hc, hs]; rfl
      simp only [hu, if_true]
      refine ⟨u, by simp, ?_⟩
      simp [findCand, hs, advSum]
    | true =>
      have hu : isCand u = false := by rw [hc, hs]; rfl
      simp only [hu]
      have := ih (acc + u.g.adv)
      cases hf : us.findIdx? isCand with
      | none =>
        rw [hf] at this
        simp [findCand, hs, this]
      | some k =>
        rw [hf] at this
        obtain ⟨t, h1, h3⟩ := this
        simp only [Bool.false_eq_true, if_false, Option.map_some]
        refine ⟨t, by simpa using h1, ?_⟩
        simp only [gl_cons, findCand, hs, if_true, h3, List.take_succ_cons, advSum]
        congr 2; omega

theorem mark_ok (skip : Nat → Bool) (isCand : TG → Bool) (hc : ∀ t, isCand t = !skip t.g.gid)
    (mc bc : Cov) (marks : List MarkRec) (bases : List (List Anchor))
    (pre : List TG) (cur : TG) (post : List TG) (r : Option Hit) :
    markAttach isCand mc bc marks bases pre cur post = .ok r →
    match r with
    | none =>
      applyMark skip ⟨(gl pre).reverse ++ cur.g :: gl post, []⟩ pre.length mc bc marks bases = .ok none
    | some (.done dn rest) =>
      applyMark skip ⟨(gl pre).reverse ++ cur.g :: gl post, []⟩ pre.length mc bc marks bases
        = .ok (some (⟨gl (pre.reverse ++ dn ++ rest), []⟩, pre.length + dn.length))
    | some (.ctx _ _) => False := by
  intro hr
  unfold markAttach at hr
  unfold applyMark
  simp only [idx_some (at_mid _ _ _ _ (glrev_len pre)), bind_ok_eq, take_mid _ _ _ _ (glrev_len pre),
    List.reverse_reverse]
  cases hm : covGet mc cur.g.gid with
  | none =>
    rw [hm] at hr
    cases hr
    rfl
  | some mi =>
    rw [hm] at hr
    simp only at hr ⊢
    obtain ⟨mr, hmr, hr⟩ := ebind_ok hr
    simp only [idx_some (need_ok hmr), bind_ok_eq]
    unfold attachTarget at hr
    have fb := findCand_spec skip isCand hc pre 0
    cases hf : pre.findIdx? isCand with
    | none =>
      rw [hf] at hr fb
      cases hr
      simp only [fb]
      split <;> rfl
    | some k =>
      rw [hf] at hr fb
      obtain ⟨t, ht, hfb⟩ := fb
      simp only at hr
      rw [ht] at hr
      simp only at hr
      have hne : (pre.length == 0) = false := by
        cases pre with
        | nil => simp at ht
        | cons _ _ => rfl
      simp only [hne, hfb, Bool.false_eq_true, if_false]
      cases hi : covGet bc t.g.gid with
      | none =>
        rw [hi] at hr
        cases hr
        rfl
      | some i =>
        rw [hi] at hr
        simp only at hr ⊢
        obtain ⟨row, hrow, hr⟩ := ebind_ok hr
        simp only [idx_some (need_ok hrow), bind_ok_eq]
        cases hrw : row[mr.cls]? with
        | none =>
          rw [hrw] at hr
          cases hr
          rfl
        | some anchor =>
          rw [hrw] at hr
          simp only at hr ⊢
          split at hr
          · rename_i hz
            cases hr
            simp only [hz, if_true]
          · rename_i hz
            obtain ⟨g, hg, hr⟩ := ebind_ok hr
            cases hr
            unfold attach at hg
            obtain ⟨x, hx, hg⟩ := ebind_ok hg
            obtain ⟨y, hy, hg⟩ := ebind_ok hg
            cases hg
            obtain ⟨hx1, hx2⟩ := fit16_ok hx
            obtain ⟨hy1, hy2⟩ := fit16_ok hy
            have ex : t.g.xoff + (anchor.x - mr.x - (0 + advSum (List.take (k + 1) pre)))
                = t.g.xoff + anchor.x - mr.x - advSum (List.take (k + 1) pre) := by omega
            have ey : t.g.yoff + (anchor.y - mr.y) = t.g.yoff + anchor.y - mr.y := by omega
            simp only [hz, Bool.false_eq_true, if_false, ex, ey, hx2, hy2, set_mid _ _ _ _ _ (glrev_len pre)]
            subst hx1 hy1
            simp [gl_reverse]

theorem _root_.SfntV.Spec.Shape.subEq_gpos41 (kp : Nat → Bool) (gd : Gdef) (pre : List TG) (cur : TG) (post : List TG)
    (mc bc : Cov) (marks : List MarkRec) (bases : List (List Anchor)) (gclass : ClassDef) :
    SubEq kp gd pre cur post (.gpos41 mc bc marks bases gclass) := by
  apply subEq_of
  intro r hr
  simp only [matchSub] at hr
  simp only [applySub]
  exact mark_ok _ _ (fun _ => rfl) mc bc marks bases pre cur post r hr

theorem _root_.SfntV.Spec.Shape.subEq_gpos61 (kp : Nat → Bool) (gd : Gdef) (pre : List TG) (cur : TG) (post : List TG)
    (mc bc : Cov) (marks : List MarkRec) (bases : List (List Anchor)) :
    SubEq kp gd pre cur post (.gpos61 mc bc marks bases) := by
  apply subEq_of
  intro r hr
  simp only [matchSub] at hr
  simp only [applySub]
  exact mark_ok _ _ (fun t => (Bool.not_not (kp t.g.gid)).symm) mc bc marks bases pre cur post r hr

end Gpos
end SfntV.Spec.Shape
