import SfntV.Proofs.ShapeSpecGpos
import SfntV.Proofs.ShapeSpecSem
namespace SfntV.Spec.Shape
open SfntV SfntV.Shape

/-
C06: pair adjustment (GPOS 2.1 / 2.2) applied as a NESTED lookup: arbitrary stack, and a window
limit `lim ≤ post.length` instead of the whole rest of the sequence.  Auxiliary lemmas live in
`SfntV.Spec.Shape.PairLimAux`.
-/

/-- agreement of the engine's pair-adjustment subtables with the reference for a window of `lim`
following glyphs and any stack; the result also records the shape of `dn`/`rest` and that the new
glyphs carry the tags of the glyphs they replace. -/
def PairLim (kp : Nat → Bool) (gd : Gdef) (pre : List TG) (cur : TG) (post : List TG) (lim : Nat)
    (stk : List Nested) (s : Subtable) : Prop :=
  let seq := gl (pre.reverse ++ cur :: post)
  match matchSub kp gd pre cur post lim s with
  | .error _ => True
  | .ok none => applySub kp ⟨seq, stk⟩ pre.length ((pre.length + 1 + lim : Nat) : Int) s = .ok none
  | .ok (some (.ctx _ _)) => False
  | .ok (some (.done dn rest)) =>
    (∃ (jj : Nat) (second c' : TG), jj < lim ∧ post[jj]? = some second ∧ c'.inp = cur.inp ∧ c'.win = cur.win ∧
        ((dn = c' :: post.take jj ∧ rest = post.drop jj) ∨
         (∃ s' : TG, s'.inp = second.inp ∧ s'.win = second.win ∧ dn = c' :: post.take jj ++ [s'] ∧ rest = post.drop (jj + 1)))) ∧
    applySub kp ⟨seq, stk⟩ pre.length ((pre.length + 1 + lim : Nat) : Int) s
      = .ok (some (⟨gl (pre.reverse ++ dn ++ rest), stk⟩, pre.length + dn.length))

namespace PairLimAux
open Gpos

private theorem at_mid {α} (l : List α) (x : α) (r : List α) (n : Nat) (hn : n = l.length) :
    (l ++ x :: r)[n]? = some x := by
  subst hn; simp

private theorem drop_mid {α} (l : List α) (x : α) (r : List α) (n : Nat) (hn : n = l.length) :
    (l ++ x :: r).drop (n + 1) = r := by
  subst hn; simp

private theorem set_mid {α} (l : List α) (x y : α) (r : List α) (n : Nat) (hn : n = l.length) :
    (l ++ x :: r).set n y = l ++ y :: r := by
  subst hn; simp

private theorem set_post {α} (l : List α) (x y : α) (r : List α) (n j : Nat) (hn : n = l.length) :
    (l ++ x :: r).set (n + 1 + j) y = l ++ x :: r.set j y := by
  subst hn
  rw [List.set_append_right _ _ (by omega)]
  have : l.length + 1 + j - l.length = j + 1 := by omega
  rw [this]; rfl

private theorem at_post {α} (l : List α) (x : α) (r : List α) (n j : Nat) (hn : n = l.length) :
    (l ++ x :: r)[n + 1 + j]? = r[j]? := by
  subst hn
  rw [List.getElem?_append_right (by omega)]
  have : l.length + 1 + j - l.length = j + 1 := by omega
  rw [this]; rfl

private theorem glrev_len (pre : List TG) : pre.length = (gl pre).reverse.length := by simp

/-- reduce `PairLim` to the branches where the reference is defined -/
theorem pairLim_of {kp : Nat → Bool} {gd : Gdef} {pre : List TG} {cur : TG} {post : List TG} {lim : Nat}
    {stk : List Nested} {s : Subtable}
    (h : ∀ r, matchSub kp gd pre cur post lim s = .ok r →
      match r with
      | none =>
        applySub kp ⟨(gl pre).reverse ++ cur.g :: gl post, stk⟩ pre.length
          ((pre.length + 1 + lim : Nat) : Int) s = .ok none
      | some (.ctx _ _) => False
      | some (.done dn rest) =>
        (∃ (jj : Nat) (second c' : TG), jj < lim ∧ post[jj]? = some second ∧ c'.inp = cur.inp ∧ c'.win = cur.win ∧
            ((dn = c' :: post.take jj ∧ rest = post.drop jj) ∨
             (∃ s' : TG, s'.inp = second.inp ∧ s'.win = second.win ∧ dn = c' :: post.take jj ++ [s'] ∧ rest = post.drop (jj + 1)))) ∧
        applySub kp ⟨(gl pre).reverse ++ cur.g :: gl post, stk⟩ pre.length
          ((pre.length + 1 + lim : Nat) : Int) s
          = .ok (some (⟨gl (pre.reverse ++ dn ++ rest), stk⟩, pre.length + dn.length))) :
    PairLim kp gd pre cur post lim stk s := by
  unfold PairLim
  simp only [seq_eq]
  cases hm : matchSub kp gd pre cur post lim s with
  | error e => trivial
  | ok r =>
    have := h r hm
    cases r with
    | none => exact this
    | some hit =>
      cases hit with
      | done dn rest => exact this
      | ctx m a => exact this

/-- the engine's skip loop with a limit `p + lim`, `lim ≤ |post|`, is `nextKept` on the window -/
theorem skipFwd_nextKept_lim (kp : Nat → Bool) (post : List TG) (p lim : Nat) (L : Int)
    (hlim : lim ≤ post.length) (hL : L = (p : Int) + (lim : Nat)) :
    skipFwd kp (gl post) p L 0
      = .ok (match nextKept kp (post.take lim) 0 with
             | some (j, _) => p + j
             | none => p + lim) := by
  induction post generalizing p lim with
  | nil =>
    have : lim = 0 := by simpa using hlim
    subst this
    simp only [gl_nil, skipFwd, List.take_nil, nextKept]
    have : ¬ ((p : Int) + ((0 : Nat) : Int) < L) := by omega
    simp only [this, if_false]
    rfl
  | cons t ts ih =>
    cases lim with
    | zero =>
      simp only [gl_cons, skipFwd, List.take_zero, nextKept]
      have : ¬ ((p : Int) + ((0 : Nat) : Int) < L) := by omega
      simp only [this, if_false]
      rfl
    | succ l =>
      simp only [gl_cons, skipFwd, List.take_succ_cons, nextKept]
      have : ((p : Int) + ((0 : Nat) : Int) < L) := by omega
      simp only [this, if_true]
      split
      · simp
      · rw [ih (p + 1) l (by simpa using hlim) (by omega), nextKept_shift kp (ts.take l) (0 + 1)]
        cases nextKept kp (ts.take l) 0 with
        | none => simp; omega
        | some q => simp; omega

/-- what `nextKept` on the window says about `post` -/
theorem nextKept_take {kp : Nat → Bool} {post : List TG} {lim j : Nat} {t : TG}
    (h : nextKept kp (post.take lim) 0 = some (j, t)) : j < lim ∧ post[j]? = some t := by
  have h2 := nextKept_some h
  rw [List.getElem?_take] at h2
  split at h2
  · rename_i hlt; exact ⟨hlt, h2⟩
  · cases h2

theorem skip_second_lim (kp : Nat → Bool) (pre : List TG) (cur : TG) (post : List TG) (lim : Nat)
    (hlim : lim ≤ post.length) :
    skipFwd kp (((gl pre).reverse ++ cur.g :: gl post).drop (pre.length + 1)) (pre.length + 1)
        ((pre.length + 1 + lim : Nat) : Int) 0
      = .ok (match nextKept kp (post.take lim) 0 with
             | some (j, _) => pre.length + 1 + j
             | none => pre.length + 1 + lim) := by
  rw [drop_mid _ _ _ _ (glrev_len pre)]
  exact skipFwd_nextKept_lim kp post (pre.length + 1) lim _ hlim (by omega)

/-- `pairAdjust` against `applyPair`, any stack; with the shape and the tags of the result -/
theorem pair_ok_stk (pre : List TG) (cur : TG) (post : List TG) (stk : List Nested) (adj : PairAdj) (j : Nat)
    (second : TG) (hj : post[j]? = some second) (r : Option Hit)
    (hr : pairAdjust adj cur post j second = .ok r) :
    ∃ dn rest, r = some (.done dn rest) ∧
      (∃ c' : TG, c'.inp = cur.inp ∧ c'.win = cur.win ∧
        ((dn = c' :: post.take j ∧ rest = post.drop j) ∨
         (∃ s' : TG, s'.inp = second.inp ∧ s'.win = second.win ∧
            dn = c' :: post.take j ++ [s'] ∧ rest = post.drop (j + 1)))) ∧
      applyPair ⟨(gl pre).reverse ++ cur.g :: gl post, stk⟩ pre.length (pre.length + 1 + j) cur.g second.g adj
        = .ok (some (⟨gl (pre.reverse ++ dn ++ rest), stk⟩, pre.length + dn.length)) := by
  have hjl := lt_of_getElem? hj
  unfold pairAdjust at hr
  obtain ⟨g1, hg1, hr⟩ := ebind_ok hr
  unfold applyPair
  simp only [addValue_ok hg1, bind_ok_eq]
  cases hs : adj.second with
  | none =>
    rw [hs] at hr
    cases hr
    refine ⟨_, _, rfl, ⟨{ cur with g := g1 }, rfl, rfl, Or.inl ⟨rfl, rfl⟩⟩, ?_⟩
    simp only [set_mid _ _ _ _ _ (glrev_len pre)]
    have hlen : ({ cur with g := g1 } :: List.take j post).length = 1 + j := by
      simp; omega
    rw [hlen]
    simp [gl_reverse]
    omega
  | some v =>
    rw [hs] at hr
    simp only at hr
    obtain ⟨g2, hg2, hr⟩ := ebind_ok hr
    cases hr
    refine ⟨_, _, rfl, ⟨{ cur with g := g1 }, rfl, rfl,
      Or.inr ⟨{ second with g := g2 }, rfl, rfl, rfl, rfl⟩⟩, ?_⟩
    simp only [addValue_ok hg2, bind_ok_eq, set_mid _ _ _ _ _ (glrev_len pre),
      set_post _ _ _ _ _ _ (glrev_len pre)]
    have hg : (gl post)[j]? = some second.g := by simp [gl, hj]
    rw [set_eq hg]
    have hlen : ({ cur with g := g1 } :: List.take j post ++ [{ second with g := g2 }]).length = 1 + j + 1 := by
      simp; omega
    rw [hlen]
    simp [gl_reverse, gl_take, gl_drop]
    omega

end PairLimAux
open Gpos PairLimAux

theorem pairLim_gpos21 (kp : Nat → Bool) (gd : Gdef) (pre : List TG) (cur : TG) (post : List TG) (lim : Nat)
    (hlim : lim ≤ post.length) (stk : List Nested) (pairs : List ((Nat × Nat) × Option PairAdj)) :
    PairLim kp gd pre cur post lim stk (.gpos21 pairs) := by
  apply pairLim_of
  intro r hr
  simp only [matchSub] at hr
  simp only [applySub, idx_some (at_mid _ _ _ _ (glrev_len pre)), bind_ok_eq, skip_second_lim _ _ _ _ _ hlim]
  cases hn : nextKept kp (post.take lim) 0 with
  | none =>
    rw [hn] at hr
    cases hr
    simp
  | some q =>
    obtain ⟨j, second⟩ := q
    rw [hn] at hr
    simp only at hr ⊢
    obtain ⟨hjl, hj⟩ := nextKept_take hn
    have : ¬ (((pre.length + 1 + j : Nat) : Int) ≥ ((pre.length + 1 + lim : Nat) : Int)) := by
      omega
    simp only [this, if_false]
    have hg : ((gl pre).reverse ++ cur.g :: gl post)[pre.length + 1 + j]? = some second.g := by
      rw [at_post _ _ _ _ _ (glrev_len pre)]; simp [gl, hj]
    simp only [idx_some hg, bind_ok_eq]
    split at hr
    · rename_i hl
      cases hr
      simp only [hl]
    · cases hr
    · rename_i adj hl
      simp only [hl]
      obtain ⟨dn, rest, h1, ⟨c', hc1, hc2, hsh⟩, h2⟩ := pair_ok_stk pre cur post stk adj j second hj r hr
      subst h1
      exact ⟨⟨j, second, c', hjl, hj, hc1, hc2, hsh⟩, h2⟩

theorem pairLim_gpos22 (kp : Nat → Bool) (gd : Gdef) (pre : List TG) (cur : TG) (post : List TG) (lim : Nat)
    (hlim : lim ≤ post.length) (stk : List Nested) (cov : GSet) (cls1 cls2 : ClassDef)
    (adj : List (List (Option PairAdj))) (h : setOk cov = true) :
    PairLim kp gd pre cur post lim stk (.gpos22 cov cls1 cls2 adj) := by
  apply pairLim_of
  intro r hr
  simp only [matchSub] at hr
  simp only [applySub, idx_some (at_mid _ _ _ _ (glrev_len pre)), bind_ok_eq, skip_second_lim _ _ _ _ _ hlim,
    setHas_eq_setVal h]
  split at hr
  · rename_i hc
    cases hr
    simp only [hc, if_true]
  rename_i hc
  simp only [hc]
  cases hn : nextKept kp (post.take lim) 0 with
  | none =>
    rw [hn] at hr
    cases hr
    simp
  | some q =>
    obtain ⟨j, second⟩ := q
    rw [hn] at hr
    simp only at hr ⊢
    obtain ⟨hjl, hj⟩ := nextKept_take hn
    have : ¬ (((pre.length + 1 + j : Nat) : Int) ≥ ((pre.length + 1 + lim : Nat) : Int)) := by
      omega
    simp only [this, if_false]
    have hg : ((gl pre).reverse ++ cur.g :: gl post)[pre.length + 1 + j]? = some second.g := by
      rw [at_post _ _ _ _ _ (glrev_len pre)]; simp [gl, hj]
    simp only [idx_some hg, bind_ok_eq]
    split at hr
    · rename_i hl
      cases hr
      simp [hl]
    · rename_i row hl
      simp only [hl]
      split at hr
      · rename_i hl2
        cases hr
        simp [hl2]
      · cases hr
      · rename_i pa hl2
        simp only [hl2]
        obtain ⟨dn, rest, h1, ⟨c', hc1, hc2, hsh⟩, h2⟩ := pair_ok_stk pre cur post stk pa j second hj r hr
        subst h1
        exact ⟨⟨j, second, c', hjl, hj, hc1, hc2, hsh⟩, h2⟩

end SfntV.Spec.Shape
