/-
Lemmas about the GDEF model (C08): readers succeed unchanged when more data follows; assembly.
-/
import SfntV.Model.OtlGdef
import SfntV.Proofs.OtlClassDef
import SfntV.Proofs.OtlGsub

namespace SfntV.Otl

/-! ### a successful read is not disturbed by data that follows the table -/

namespace ClassDef

theorem read2_append_of_ok (t : List Nat) : ∀ (n : Nat) (rest : List Nat) (i p : Nat) (es : List (Nat × Nat)),
    read2 n rest i p = .ok es → read2 n (rest ++ t) i p = .ok es
  | 0, _, _, _, es, h => by simpa [read2] using h
  | n + 1, rest, i, p, es, h => by
    match rest, h with
    | s :: e :: c :: rest', h =>
      simp only [read2, List.cons_append] at h ⊢
      split at h
      · simp at h
      · rename_i hc
        rw [if_neg hc]
        split at h
        · simp at h
        · rename_i hc2
          rw [if_neg hc2]
          cases h2 : read2 n rest' (i + 1) e with
          | ok r =>
            rw [h2] at h
            rw [read2_append_of_ok t n rest' (i + 1) e r h2]
            exact h
          | err e' => rw [h2] at h; simp at h
          | panic s' => rw [h2] at h; simp at h
    | [], h => simp [read2] at h
    | [_], h => simp [read2] at h
    | [_, _], h => simp [read2] at h

theorem readW_append_of_ok (t : List Nat) (ws : List Nat) (es : List (Nat × Nat))
    (h : readW ws = .ok es) : readW (ws ++ t) = .ok es := by
  match ws, h with
  | 1 :: start :: count :: vals, h =>
    simp only [readW, List.cons_append] at h ⊢
    split at h
    · simp at h
    · rename_i h1
      rw [if_neg h1]
      split at h
      · rename_i h2
        rw [if_pos (by simp; omega), List.take_append_of_le_length h2]
        exact h
      · simp at h
  | 2 :: n :: rest, h =>
    simp only [readW, List.cons_append] at h ⊢
    exact read2_append_of_ok t n rest 0 0 es h
  | [], h => simp [readW] at h
  | [1], h => simp [readW] at h
  | [1, _], h => simp [readW] at h
  | [2], h => simp [readW] at h
  | (0 :: _), h => simp [readW] at h
  | ((_ + 3) :: _), h => simp [readW] at h

end ClassDef

namespace Cov

theorem readSet1_append_of_ok (t : List Nat) : ∀ (n : Nat) (rest : List Nat) (gs : List Nat),
    readSet1 n rest = .ok gs → readSet1 n (rest ++ t) = .ok gs
  | 0, _, gs, h => by simpa [readSet1] using h
  | n + 1, [], gs, h => by simp [readSet1] at h
  | n + 1, g :: rest, gs, h => by
    simp only [readSet1, List.cons_append] at h ⊢
    cases h2 : readSet1 n rest with
    | ok r => rw [h2] at h; rw [readSet1_append_of_ok t n rest r h2]; exact h
    | err e => rw [h2] at h; simp at h
    | panic s => rw [h2] at h; simp at h

theorem readSet2_append_of_ok (t : List Nat) : ∀ (n : Nat) (rest : List Nat) (pos : Nat) (prev : Int)
    (gs : List Nat), readSet2 n rest pos prev = .ok gs → readSet2 n (rest ++ t) pos prev = .ok gs
  | 0, _, _, _, gs, h => by simpa [readSet2] using h
  | n + 1, rest, pos, prev, gs, h => by
    match rest, h with
    | s :: e :: sci :: rest', h =>
      simp only [readSet2, List.cons_append] at h ⊢
      split at h
      · simp at h
      · rename_i hc
        rw [if_neg hc]
        cases h2 : readSet2 n rest' (pos + (e + 1 - s)) e with
        | ok r =>
          rw [h2] at h
          rw [readSet2_append_of_ok t n rest' _ _ r h2]
          exact h
        | err e' => rw [h2] at h; simp at h
        | panic s' => rw [h2] at h; simp at h
    | [], h => simp [readSet2] at h
    | [_], h => simp [readSet2] at h
    | [_, _], h => simp [readSet2] at h

theorem readSetW_append_of_ok (t : List Nat) (ws : List Nat) (gs : List Nat)
    (h : readSetW ws = .ok gs) : readSetW (ws ++ t) = .ok gs := by
  match ws, h with
  | 1 :: n :: rest, h =>
    simp only [readSetW, List.cons_append] at h ⊢
    exact readSet1_append_of_ok t n rest gs h
  | 2 :: n :: rest, h =>
    simp only [readSetW, List.cons_append] at h ⊢
    exact readSet2_append_of_ok t n rest 0 (-1) gs h
  | [], h => simp [readSetW] at h
  | [1], h => simp [readSetW] at h
  | [2], h => simp [readSetW] at h
  | (0 :: _), h => simp [readSetW] at h
  | ((_ + 3) :: _), h => simp [readSetW] at h

/-- `ReadSet` on an encoded coverage table followed by arbitrary bytes -/
theorem readSet_encode_append (gs : List Nat) (h : Valid gs) (tail : Bytes) :
    readSet (wordsToBytes (encodeW gs) ++ tail) = .ok gs := by
  unfold readSet
  rw [bytesToWords_append _ (encodeW_lt gs h)]
  exact readSetW_append_of_ok _ _ _ (readSetW_encodeW gs h)

end Cov

namespace Gdef
open SfntV SfntV.Otl

/-- a class definition table of the domain: empty, or well-typed and non-empty -/
def ClassGood (m : ClassDef.Tab) : Prop := m = [] ∨ ClassDef.TabOk m

def mkPart (m : ClassDef.Tab) : ClassPart := ⟨ClassDef.append m, ClassDef.appendLen m⟩

/-- what `Append` writes for a good table: words that read back as the table, of the declared size -/
theorem classPart_spec (m : ClassDef.Tab) (hm : ClassGood m) (cb : Bytes) (h : ClassDef.append m = .ok cb) :
    cb.length = ClassDef.appendLen m ∧ ∃ ws es, cb = wordsToBytes ws ∧ (∀ w ∈ ws, w < 65536) ∧
      ClassDef.readW ws = .ok es ∧ ∀ g, ClassDef.classOf es g = ClassDef.get m g := by
  rcases hm with rfl | hm
  · have : cb = wordsToBytes [2, 0] := by
      have : ClassDef.append [] = .ok (wordsToBytes [2, 0]) := by decide
      rw [this] at h; simpa using h.symm
    subst this
    exact ⟨by decide, [2, 0], [], rfl, by decide, by decide, fun g => rfl⟩
  · have d := ClassDef.dom_of_tab m hm
    have hne : m.isEmpty = false := by
      cases m with
      | nil => exact absurd rfl hm.nonempty
      | cons _ _ => rfl
    unfold ClassDef.append ClassDef.appendF at h
    unfold ClassDef.appendLen
    rw [hne] at h ⊢
    cases hw : ClassDef.appendWF false (ClassDef.get m) (ClassDef.minGid m) (ClassDef.maxGid m) with
    | ok ws =>
      rw [hw] at h
      simp only [Outcome.ok.injEq] at h
      subst h
      have sh := ClassDef.appendWF_shape _ _ _ d ws hw
      obtain ⟨es, h1, h2⟩ := ClassDef.shape_read _ _ _ d ws sh
      refine ⟨by rw [length_wordsToBytes]; exact ClassDef.shape_length _ _ _ ws sh, ws, es, rfl,
        ClassDef.shape_lt _ _ _ d ws sh, h1, fun g => (h2 g).1⟩
    | err e => rw [hw] at h; simp at h
    | panic s => rw [hw] at h; simp at h

/-- … and those words read back as the normal form of the table -/
theorem classPart_nf (m : ClassDef.Tab) (hm : ClassGood m) (cb : Bytes) (h : ClassDef.append m = .ok cb) :
    ∃ ws, cb = wordsToBytes ws ∧ (∀ w ∈ ws, w < 65536) ∧ ClassDef.readW ws = .ok (ClassDef.nfTab m) ∧
      ∀ g, ClassDef.classOf (ClassDef.nfTab m) g = ClassDef.get m g := by
  obtain ⟨_, ws, es, rfl, hlt, hr, hc⟩ := classPart_spec m hm cb h
  have : ClassDef.nfTab m = es := by
    unfold ClassDef.nfTab
    rw [h]
    simp only [ClassDef.read, bytesToWords_wordsToBytes _ hlt, hr]
  rw [this]
  exact ⟨ws, rfl, hlt, hr, hc⟩

/-- a class definition table is read back from where it was put -/
theorem classRead_at (pre post : Bytes) (ws : List Nat) (es : List (Nat × Nat))
    (hlt : ∀ w ∈ ws, w < 65536) (hr : ClassDef.readW ws = .ok es) :
    ClassDef.read ((pre ++ wordsToBytes ws ++ post).drop pre.length) = .ok es := by
  rw [List.append_assoc, List.drop_left]
  unfold ClassDef.read
  rw [bytesToWords_append _ hlt]
  exact ClassDef.readW_append_of_ok _ _ _ hr

/-! mark glyph sets -/

/-- the byte offsets of the coverage tables -/
def offsList : List (List Nat) → Nat → List Nat
  | [], _ => []
  | s :: ss, off => off :: offsList ss (off + 2 * (Cov.encodeW s).length)

theorem setOffsets_spec : ∀ (ss : List (List Nat)) (off : Nat) (ws : List Nat),
    (∀ s ∈ ss, Cov.Valid s) → setOffsets ss off = .ok ws →
    off + (ss.map fun s => 2 * (Cov.encodeW s).length).sum < 4294967296 →
    ws.length = 2 * ss.length ∧ (∀ w ∈ ws, w < 65536) ∧ pairUp ws = offsList ss off
  | [], _, ws, _, h, _ => by simp [setOffsets] at h; subst h; simp [pairUp, offsList]
  | s :: ss, off, ws, hv, h, hfit => by
    have hs := hv s (by simp)
    simp only [setOffsets, Cov.encodeLen_eq s hs, ← Cov.encodeW_length s hs] at h
    simp only [List.map_cons, List.sum_cons] at hfit
    cases h2 : setOffsets ss (off + 2 * (Cov.encodeW s).length) with
    | ok r =>
      rw [h2] at h
      simp only [Outcome.ok.injEq] at h
      subst h
      obtain ⟨i1, i2, i3⟩ := setOffsets_spec ss _ r (fun s' hs' => hv s' (by simp [hs'])) h2 (by omega)
      refine ⟨by simp [i1]; omega, ?_, ?_⟩
      · intro w hw
        simp only [List.mem_cons] at hw
        rcases hw with rfl | rfl | hw
        · exact w16_lt _
        · exact w16_lt _
        · exact i2 w hw
      · simp only [pairUp, offsList, i3]
        congr 1
        rw [w16_of_lt (by omega)]
        unfold w16
        have := Nat.div_add_mod off 65536
        omega
    | err e => rw [h2] at h; simp at h
    | panic p => rw [h2] at h; simp at h

theorem setsBytes_spec : ∀ (ss : List (List Nat)) (cb : Bytes), (∀ s ∈ ss, Cov.Valid s) →
    setsBytes ss = .ok cb → cb = ss.flatMap fun s => wordsToBytes (Cov.encodeW s)
  | [], cb, _, h => by simp [setsBytes] at h; simp [← h]
  | s :: ss, cb, hv, h => by
    simp only [setsBytes, Cov.encode_eq s (hv s (by simp))] at h
    cases h2 : setsBytes ss with
    | ok r =>
      rw [h2] at h
      simp only [Outcome.ok.injEq] at h
      rw [← h, setsBytes_spec ss r (fun s' hs' => hv s' (by simp [hs'])) h2]
      simp
    | err e => rw [h2] at h; simp at h
    | panic p => rw [h2] at h; simp at h

/-- every coverage set is read back from its offset -/
theorem readSets_spec (pos : Nat) : ∀ (ss : List (List Nat)) (pre post : Bytes) (off : Nat),
    (∀ s ∈ ss, Cov.Valid s) → pos + off = pre.length →
    readSets (pre ++ (ss.flatMap fun s => wordsToBytes (Cov.encodeW s)) ++ post) pos (offsList ss off) = .ok ss
  | [], _, _, _, _, _ => rfl
  | s :: ss, pre, post, off, hv, hp => by
    simp only [offsList, readSets, List.flatMap_cons]
    have h1 : Cov.readSet ((pre ++ (wordsToBytes (Cov.encodeW s) ++
        ss.flatMap fun s => wordsToBytes (Cov.encodeW s)) ++ post).drop (pos + off)) = .ok s := by
      rw [hp, List.append_assoc, List.drop_left, List.append_assoc]
      exact Cov.readSet_encode_append s (hv s (by simp)) _
    rw [h1]
    have ih := readSets_spec pos ss (pre ++ wordsToBytes (Cov.encodeW s)) post
      (off + 2 * (Cov.encodeW s).length) (fun s' hs' => hv s' (by simp [hs']))
      (by rw [List.length_append, length_wordsToBytes]; omega)
    have e : pre ++ wordsToBytes (Cov.encodeW s) ++ (ss.flatMap fun s => wordsToBytes (Cov.encodeW s)) ++ post =
        pre ++ (wordsToBytes (Cov.encodeW s) ++ ss.flatMap fun s => wordsToBytes (Cov.encodeW s)) ++ post := by
      simp
    rw [e] at ih
    rw [ih]

/-- how a written class definition table (or its absence) must come back -/
def ClassMatch : Option ClassDef.Tab → Option (List (Nat × Nat)) → Prop
  | none, none => True
  | some m, some es => ∀ g, ClassDef.classOf es g = ClassDef.get m g
  | _, _ => False

theorem readClassAt_spec (p : Option ClassDef.Tab) (hp : ∀ m, p = some m → ClassGood m)
    (pre post B : Bytes) (hB : outBytes (p.map mkPart) = .ok B) (hpre : 0 < pre.length) :
    B.length + pre.length = (partOff (p.map mkPart) pre.length).2 ∧
    ∃ r, readClassAt (pre ++ B ++ post) (partOff (p.map mkPart) pre.length).1 = .ok r ∧ ClassMatch p r ∧
      r = p.map ClassDef.nfTab := by
  cases p with
  | none =>
    simp only [Option.map_none, outBytes, Outcome.ok.injEq] at hB
    subst hB
    exact ⟨by simp [partOff], none, by simp [partOff, readClassAt], trivial, rfl⟩
  | some m =>
    simp only [Option.map_some, outBytes, mkPart] at hB
    obtain ⟨hlen, ws, es, rfl, hlt, hr, hcls⟩ := classPart_spec m (hp m rfl) B hB
    have hnf : ClassDef.nfTab m = es := by
      unfold ClassDef.nfTab
      rw [hB]
      simp only [ClassDef.read, bytesToWords_wordsToBytes _ hlt, hr]
    have hne : (pre.length != 0) = true := by simp only [bne_iff_ne, ne_eq]; omega
    refine ⟨?_, some es, ?_, hcls, by rw [Option.map_some, hnf]⟩
    · show (wordsToBytes ws).length + pre.length = pre.length + ClassDef.appendLen m
      omega
    · simp only [Option.map_some, partOff, readClassAt, hne, if_true, classRead_at pre post ws es hlt hr]

/-- GDEF tables without mark glyph sets (version 1.0) -/
theorem roundtrip_noSets (gcT macT : Option ClassDef.Tab)
    (hg : ∀ m, gcT = some m → ClassGood m) (hm : ∀ m, macT = some m → ClassGood m)
    (b : Bytes) (hb : encode (gcT.map mkPart) (macT.map mkPart) none = .ok b) :
    ∃ r, read b = .ok r ∧ ClassMatch gcT r.gc ∧ ClassMatch macT r.mac ∧ r.sets = none ∧
      r.gc = gcT.map ClassDef.nfTab ∧ r.mac = macT.map ClassDef.nfTab := by
  simp only [encode, Option.isSome_none, Bool.false_eq_true, if_false, List.append_nil] at hb
  split at hb
  · simp at hb
  rename_i hfit
  simp only [not_or, Nat.not_lt] at hfit
  cases hB1 : outBytes (gcT.map mkPart) with
  | err e => rw [hB1] at hb; cases hB2 : outBytes (macT.map mkPart) <;> rw [hB2] at hb <;> simp at hb
  | panic p => rw [hB1] at hb; cases hB2 : outBytes (macT.map mkPart) <;> rw [hB2] at hb <;> simp at hb
  | ok B1 =>
    cases hB2 : outBytes (macT.map mkPart) with
    | err e => rw [hB1, hB2] at hb; simp at hb
    | panic p => rw [hB1, hB2] at hb; simp at hb
    | ok B2 =>
      rw [hB1, hB2] at hb
      simp only [Outcome.ok.injEq] at hb
      -- header: six words
      have hH : (wordsToBytes [1, 0, w16 (partOff (gcT.map mkPart) 12).1, 0, 0,
          w16 (partOff (macT.map mkPart) (partOff (gcT.map mkPart) 12).2).1]).length = 12 := by
        rw [length_wordsToBytes]; rfl
      obtain ⟨hl1, r1, hr1, hm1, hn1⟩ := readClassAt_spec gcT hg _ (B2) B1 hB1 (by rw [hH]; omega)
      rw [hH] at hl1 hr1
      have hgoff : (partOff (gcT.map mkPart) 12).1 < 65536 := by
        cases gcT <;> simp [partOff]
      obtain ⟨hl2, r2, hr2, hm2, hn2⟩ := readClassAt_spec macT hm
        (wordsToBytes [1, 0, w16 (partOff (gcT.map mkPart) 12).1, 0, 0,
          w16 (partOff (macT.map mkPart) (partOff (gcT.map mkPart) 12).2).1] ++ B1) [] B2 hB2
        (by rw [List.length_append, hH]; omega)
      rw [List.length_append, hH] at hl2 hr2
      have e12 : 12 + B1.length = (partOff (gcT.map mkPart) 12).2 := by omega
      rw [e12] at hr2
      simp only [List.append_nil] at hr2
      have hw : bytesToWords (wordsToBytes [1, 0, w16 (partOff (gcT.map mkPart) 12).1, 0, 0,
          w16 (partOff (macT.map mkPart) (partOff (gcT.map mkPart) 12).2).1] ++ (B1 ++ B2)) =
          [1, 0, w16 (partOff (gcT.map mkPart) 12).1, 0, 0,
            w16 (partOff (macT.map mkPart) (partOff (gcT.map mkPart) 12).2).1] ++ bytesToWords (B1 ++ B2) := by
        rw [bytesToWords_append _ (by
          intro w hw
          simp only [List.mem_cons, List.not_mem_nil, or_false] at hw
          rcases hw with rfl | rfl | rfl | rfl | rfl | rfl <;> first | decide | exact w16_lt _)]
      have hb' : wordsToBytes [1, 0, w16 (partOff (gcT.map mkPart) 12).1, 0, 0,
          w16 (partOff (macT.map mkPart) (partOff (gcT.map mkPart) 12).2).1] ++ (B1 ++ B2) = b := hb
      rw [List.append_assoc, hb'] at hr1 hr2
      rw [hb'] at hw
      refine ⟨⟨r1, r2, none⟩, ?_, hm1, hm2, rfl, hn1, hn2⟩
      simp only [read, hw, List.cons_append, List.nil_append]
      rw [w16_of_lt hgoff, w16_of_lt (by omega), hr1, hr2]
      simp [readMgs]

/-- GDEF tables with mark glyph sets (version 1.2) -/
theorem roundtrip_sets (gcT macT : Option ClassDef.Tab) (ss : List (List Nat))
    (hg : ∀ m, gcT = some m → ClassGood m) (hm : ∀ m, macT = some m → ClassGood m)
    (hv : ∀ s ∈ ss, Cov.Valid s) (hn : ss.length < 65536)
    (hsz : 4 + 4 * ss.length + (ss.map fun s => 2 * (Cov.encodeW s).length).sum < 4294967296)
    (b : Bytes) (hb : encode (gcT.map mkPart) (macT.map mkPart) (some ss) = .ok b) :
    ∃ r, read b = .ok r ∧ ClassMatch gcT r.gc ∧ ClassMatch macT r.mac ∧ r.sets = some ss ∧
      r.gc = gcT.map ClassDef.nfTab ∧ r.mac = macT.map ClassDef.nfTab := by
  simp only [encode, Option.isSome_some, if_true] at hb
  split at hb
  rotate_left
  · simp at hb
  · simp at hb
  split at hb
  · simp at hb
  rename_i hfit
  simp only [not_or, Nat.not_lt] at hfit
  cases hB1 : outBytes (gcT.map mkPart) with
  | err e => rw [hB1] at hb; cases hB2 : outBytes (macT.map mkPart) <;> rw [hB2] at hb <;> simp at hb
  | panic p => rw [hB1] at hb; cases hB2 : outBytes (macT.map mkPart) <;> rw [hB2] at hb <;> simp at hb
  | ok B1 =>
    cases hB2 : outBytes (macT.map mkPart) with
    | err e => rw [hB1, hB2] at hb; simp at hb
    | panic p => rw [hB1, hB2] at hb; simp at hb
    | ok B2 =>
      rw [hB1, hB2] at hb
      simp only at hb
      cases hso : setOffsets ss (4 + 4 * ss.length) with
      | err e => rw [hso] at hb; cases hsb : setsBytes ss <;> rw [hsb] at hb <;> simp at hb
      | panic p => rw [hso] at hb; cases hsb : setsBytes ss <;> rw [hsb] at hb <;> simp at hb
      | ok offs =>
        cases hsb : setsBytes ss with
        | err e => rw [hso, hsb] at hb; simp at hb
        | panic p => rw [hso, hsb] at hb; simp at hb
        | ok cb =>
          rw [hso, hsb] at hb
          simp only [Outcome.ok.injEq] at hb
          obtain ⟨hol, holt, hpair⟩ := setOffsets_spec ss _ offs hv hso hsz
          have hcb := setsBytes_spec ss cb hv hsb
          -- abbreviations
          generalize hG : (partOff (gcT.map mkPart) 14) = G at hb hfit
          generalize hM : (partOff (macT.map mkPart) G.2) = M at hb hfit
          have hH : (wordsToBytes ([1, 2, w16 G.1, 0, 0, w16 M.1] ++ [w16 M.2])).length = 14 := by
            rw [length_wordsToBytes]; rfl
          have hgoff : G.1 < 65536 := by rw [← hG]; cases gcT <;> simp [partOff]
          obtain ⟨hl1, r1, hr1, hm1, hn1⟩ := readClassAt_spec gcT hg
            (wordsToBytes ([1, 2, w16 G.1, 0, 0, w16 M.1] ++ [w16 M.2]))
            (B2 ++ (wordsToBytes ([1, w16 ss.length] ++ offs) ++ cb)) B1 hB1 (by rw [hH]; omega)
          rw [hH, hG] at hl1 hr1
          obtain ⟨hl2, r2, hr2, hm2, hn2⟩ := readClassAt_spec macT hm
            (wordsToBytes ([1, 2, w16 G.1, 0, 0, w16 M.1] ++ [w16 M.2]) ++ B1)
            (wordsToBytes ([1, w16 ss.length] ++ offs) ++ cb) B2 hB2
            (by rw [List.length_append, hH]; omega)
          rw [List.length_append, hH] at hl2 hr2
          have e14 : 14 + B1.length = G.2 := by omega
          rw [e14, hM] at hl2 hr2
          have hb' : wordsToBytes ([1, 2, w16 G.1, 0, 0, w16 M.1] ++ [w16 M.2]) ++ B1 ++ B2 ++
              wordsToBytes ([1, w16 ss.length] ++ offs) ++ cb = b := hb
          have hw : bytesToWords b = [1, 2, w16 G.1, 0, 0, w16 M.1, w16 M.2] ++
              bytesToWords (B1 ++ B2 ++ wordsToBytes ([1, w16 ss.length] ++ offs) ++ cb) := by
            rw [← hb']
            simp only [List.append_assoc]
            rw [bytesToWords_append _ (by
              intro w hw
              simp only [List.cons_append, List.nil_append, List.mem_cons, List.not_mem_nil, or_false] at hw
              rcases hw with rfl | rfl | rfl | rfl | rfl | rfl | rfl <;> first | decide | exact w16_lt _)]
            rfl
          have hr1' : readClassAt b G.1 = .ok r1 := by rw [← hb']; simpa [List.append_assoc] using hr1
          have hr2' : readClassAt b M.1 = .ok r2 := by rw [← hb']; simpa [List.append_assoc] using hr2
          -- the mark glyph sets
          have hmgs : readMgs b M.2 = .ok (some ss) := by
            have hpre : (wordsToBytes ([1, 2, w16 G.1, 0, 0, w16 M.1] ++ [w16 M.2]) ++ B1 ++ B2).length = M.2 := by
              simp only [List.length_append, hH]; omega
            have hne : (M.2 != 0) = true := by simp only [bne_iff_ne, ne_eq]; omega
            have hdrop : bytesToWords (b.drop M.2) = 1 :: ss.length :: (offs ++ bytesToWords cb) := by
              have e : b = (wordsToBytes ([1, 2, w16 G.1, 0, 0, w16 M.1] ++ [w16 M.2]) ++ B1 ++ B2) ++
                  (wordsToBytes ([1, w16 ss.length] ++ offs) ++ cb) := by
                rw [← hb']; simp only [List.append_assoc]
              have hd : b.drop M.2 = wordsToBytes ([1, w16 ss.length] ++ offs) ++ cb := by
                have := List.drop_left
                  (l₁ := wordsToBytes ([1, 2, w16 G.1, 0, 0, w16 M.1] ++ [w16 M.2]) ++ B1 ++ B2)
                  (l₂ := wordsToBytes ([1, w16 ss.length] ++ offs) ++ cb)
                rw [hpre, ← e] at this
                exact this
              rw [hd,
                bytesToWords_append _ (by
                  intro w hw
                  simp only [List.cons_append, List.nil_append, List.mem_cons] at hw
                  rcases hw with rfl | rfl | hw
                  · decide
                  · exact w16_lt _
                  · exact holt w hw), w16_of_lt hn]
              rfl
            have hrs := readSets_spec M.2 ss
              (wordsToBytes ([1, 2, w16 G.1, 0, 0, w16 M.1] ++ [w16 M.2]) ++ B1 ++ B2 ++
                wordsToBytes ([1, w16 ss.length] ++ offs)) [] (4 + 4 * ss.length) hv
              (by simp only [List.length_append, hH, length_wordsToBytes, List.length_cons,
                    List.length_nil, hol]
                  simp only [List.length_append, hH] at hpre
                  omega)
            rw [← hcb, List.append_nil, hb'] at hrs
            simp only [readMgs, hne, if_true, hdrop]
            have hlen : ¬ (offs ++ bytesToWords cb).length < 2 * ss.length := by
              simp [hol]
            have htake : (offs ++ bytesToWords cb).take (2 * ss.length) = offs := by
              rw [← hol]; exact List.take_left
            simp only [hlen, if_false, htake, hpair, hrs]
            simp
          refine ⟨⟨r1, r2, some ss⟩, ?_, hm1, hm2, rfl, hn1, hn2⟩
          simp only [read, hw, List.cons_append, List.nil_append]
          rw [w16_of_lt hgoff, w16_of_lt (show M.1 < 65536 by omega), w16_of_lt (show M.2 < 65536 by omega)]
          simp [hr1', hr2', hmgs]

end Gdef
end SfntV.Otl
