/-
Lemmas about the GDEF model (C08): readers succeed unchanged when more data follows; assembly.
-/
import SfntV.Model.OtlGdef
import SfntV.Proofs.OtlClassDef
import SfntV.Proofs.OtlGsub

namespace SfntV.Otl

/-! ### a successful read is not disturbed by data that follows the table -/

namespace ClassDef

theorem read2_append_of_ok (t : List Nat) : ∀ (n : Nat) (rest : List Nat) (i p : Nat) (es : List (Nat × Nat)),
    read2 n rest i p = .ok es → read2 n (rest ++ t) i p = .ok es
  | 0, _, _, _, es, h => by simpa [read2] using h
  | n + 1, rest, i, p, es, h => by
    match rest, h with
    | s :: e :: c :: rest', h =>
      simp only [read2, List.cons_append] at h ⊢
      split at h
      · simp at h
      · rename_i hc
        rw [if_neg hc]
        cases h2 : read2 n rest' (i + 1) e with
        | ok r =>
          rw [h2] at h
          rw [read2_append_of_ok t n rest' (i + 1) e r h2]
          exact h
        | err e' => rw [h2] at h; simp at h
        | panic s' => rw [h2] at h; simp at h
    | [], h => simp [read2] at h
    | [_], h => simp [read2] at h
    | [_, _], h => simp [read2] at h

theorem readW_append_of_ok (t : List Nat) (ws : List Nat) (es : List (Nat × Nat))
    (h : readW ws = .ok es) : readW (ws ++ t) = .ok es := by
  match ws, h with
  | 1 :: start :: count :: vals, h =>
    simp only [readW, List.cons_append] at h ⊢
    split at h
    · simp at h
    · rename_i h1
      rw [if_neg h1]
      split at h
      · rename_i h2
        rw [if_pos (by simp; omega), List.take_append_of_le_length h2]
        exact h
      · simp at h
  | 2 :: n :: rest, h =>
    simp only [readW, List.cons_append] at h ⊢
    exact read2_append_of_ok t n rest 0 0 es h
  | [], h => simp [readW] at h
  | [1], h => simp [readW] at h
  | [1, _], h => simp [readW] at h
  | [2], h => simp [readW] at h
  | (0 :: _), h => simp [readW] at h
  | ((_ + 3) :: _), h => simp [readW] at h

end ClassDef

namespace Cov

theorem readSet1_append_of_ok (t : List Nat) : ∀ (n : Nat) (rest : List Nat) (gs : List Nat),
    readSet1 n rest = .ok gs → readSet1 n (rest ++ t) = .ok gs
  | 0, _, gs, h => by simpa [readSet1] using h
  | n + 1, [], gs, h => by simp [readSet1] at h
  | n + 1, g :: rest, gs, h => by
    simp only [readSet1, List.cons_append] at h ⊢
    cases h2 : readSet1 n rest with
    | ok r => rw [h2] at h; rw [readSet1_append_of_ok t n rest r h2]; exact h
    | err e => rw [h2] at h; simp at h
    | panic s => rw [h2] at h; simp at h

theorem readSet2_append_of_ok (t : List Nat) : ∀ (n : Nat) (rest : List Nat) (pos : Nat) (prev : Int)
    (gs : List Nat), readSet2 n rest pos prev = .ok gs → readSet2 n (rest ++ t) pos prev = .ok gs
  | 0, _, _, _, gs, h => by simpa [readSet2] using h
  | n + 1, rest, pos, prev, gs, h => by
    match rest, h with
    | s :: e :: sci :: rest', h =>
      simp only [readSet2, List.cons_append] at h ⊢
      split at h
      · simp at h
      · rename_i hc
        rw [if_neg hc]
        cases h2 : readSet2 n rest' (pos + (e + 1 - s)) e with
        | ok r =>
          rw [h2] at h
          rw [readSet2_append_of_ok t n rest' _ _ r h2]
          exact h
        | err e' => rw [h2] at h; simp at h
        | panic s' => rw [h2] at h; simp at h
    | [], h => simp [readSet2] at h
    | [_], h => simp [readSet2] at h
    | [_, _], h => simp [readSet2] at h

theorem readSetW_append_of_ok (t : List Nat) (ws : List Nat) (gs : List Nat)
    (h : readSetW ws = .ok gs) : readSetW (ws ++ t) = .ok gs := by
  match ws, h with
  | 1 :: n :: rest, h =>
    simp only [readSetW, List.cons_append] at h ⊢
    exact readSet1_append_of_ok t n rest gs h
  | 2 :: n :: rest, h =>
    simp only [readSetW, List.cons_append] at h ⊢
    exact readSet2_append_of_ok t n rest 0 (-1) gs h
  | [], h => simp [readSetW] at h
  | [1], h => simp [readSetW] at h
  | [2], h => simp [readSetW] at h
  | (0 :: _), h => simp [readSetW] at h
  | ((_ + 3) :: _), h => simp [readSetW] at h

/-- `ReadSet` on an encoded coverage table followed by arbitrary bytes -/
theorem readSet_encode_append (gs : List Nat) (h : Valid gs) (tail : Bytes) :
    readSet (wordsToBytes (encodeW gs) ++ tail) = .ok gs := by
  unfold readSet
  rw [bytesToWords_append _ (encodeW_lt gs h)]
  exact readSetW_append_of_ok _ _ _ (readSetW_encodeW gs h)

end Cov
end SfntV.Otl
