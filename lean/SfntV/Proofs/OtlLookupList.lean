/-
Lemmas about the lookup-list layout model (C08): positions of chunks, rendered content at those
positions, structure of the planned and of the reordered chunk list, evaluation of the
specification reader on the emitted bytes.
-/
import SfntV.Model.OtlLookupList
import SfntV.Proofs.OtlBase

namespace SfntV.Otl.LL
open SfntV SfntV.Otl

/-! ### layout and positions -/

def codes (cs : List Chunk) : List Code := cs.map (·.code)

theorem totalSize_nil : totalSize [] = 0 := rfl

theorem totalSize_cons (c : Chunk) (cs : List Chunk) : totalSize (c :: cs) = c.size + totalSize cs := by
  simp [totalSize]

theorem totalSize_append (xs ys : List Chunk) : totalSize (xs ++ ys) = totalSize xs + totalSize ys := by
  simp [totalSize]

theorem pos?_nil (s : Nat) (c : Code) : pos? (layout [] s) c = none := rfl

theorem pos?_cons (x : Chunk) (xs : List Chunk) (s : Nat) (c : Code) :
    pos? (layout (x :: xs) s) c = if x.code = c then some s else pos? (layout xs (s + x.size)) c := by
  simp only [layout, pos?, List.find?_cons]
  by_cases h : x.code = c
  · simp [h]
  · have hb : (x.code == c) = false := by simp [h]
    simp [h, hb]

theorem pos?_append (xs ys : List Chunk) (s : Nat) (c : Code) :
    pos? (layout (xs ++ ys) s) c =
      match pos? (layout xs s) c with
      | some p => some p
      | none => pos? (layout ys (s + totalSize xs)) c := by
  induction xs generalizing s with
  | nil => simp [pos?_nil, totalSize_nil]
  | cons x xs ih =>
    rw [List.cons_append, pos?_cons, pos?_cons]
    by_cases h : x.code = c
    · simp [h]
    · simp only [h, if_false]
      rw [ih, totalSize_cons]
      have : s + x.size + totalSize xs = s + (x.size + totalSize xs) := by omega
      rw [this]

theorem pos?_eq_none (xs : List Chunk) (s : Nat) (c : Code) :
    pos? (layout xs s) c = none ↔ c ∉ codes xs := by
  induction xs generalizing s with
  | nil => simp [pos?_nil, codes]
  | cons x xs ih =>
    rw [pos?_cons]
    by_cases h : x.code = c
    · simp [h, codes]
    · simp only [h, if_false, ih, codes, List.map_cons, List.mem_cons]
      constructor
      · intro h1 h2
        rcases h2 with h2 | h2
        · exact h h2.symm
        · exact h1 h2
      · intro h1 h2
        exact h1 (Or.inr h2)

theorem pos?_isSome (xs : List Chunk) (s : Nat) (c : Code) (h : c ∈ codes xs) :
    ∃ p, pos? (layout xs s) c = some p := by
  cases hp : pos? (layout xs s) c with
  | none => exact absurd h ((pos?_eq_none xs s c).mp hp)
  | some p => exact ⟨p, rfl⟩

theorem pos?_bounds (xs : List Chunk) (s : Nat) (c : Code) (p : Nat)
    (h : pos? (layout xs s) c = some p) : s ≤ p ∧ p ≤ s + totalSize xs := by
  induction xs generalizing s with
  | nil => simp [pos?_nil] at h
  | cons x xs ih =>
    rw [pos?_cons] at h
    rw [totalSize_cons]
    by_cases hc : x.code = c
    · simp only [hc, if_true, Option.some.injEq] at h
      omega
    · simp only [hc, if_false] at h
      have := ih _ h
      omega

/-- the first occurrence of a code: the chunk list splits there -/
theorem pos?_split (xs : List Chunk) (s : Nat) (c : Code) (p : Nat)
    (h : pos? (layout xs s) c = some p) :
    ∃ pre x post, xs = pre ++ x :: post ∧ x.code = c ∧ p = s + totalSize pre := by
  induction xs generalizing s with
  | nil => simp [pos?_nil] at h
  | cons x xs ih =>
    rw [pos?_cons] at h
    by_cases hc : x.code = c
    · simp only [hc, if_true, Option.some.injEq] at h
      exact ⟨[], x, xs, rfl, hc, by simp [totalSize_nil, h]⟩
    · simp only [hc, if_false] at h
      obtain ⟨pre, y, post, h1, h2, h3⟩ := ih _ h
      refine ⟨x :: pre, y, post, by rw [h1]; rfl, h2, ?_⟩
      rw [totalSize_cons]; omega

/-! ### rendering: every chunk occupies exactly its planned size -/

/-- a chunk's planned size is the size of what will be rendered for its code -/
def SizeOK (ll : List Lookup) (c : Chunk) : Prop :=
  match c.code with
  | .header => c.size = 2 + 2 * ll.length
  | .table i => ∃ l, ll[i]? = some l ∧ c.size = hdrLen l
  | .sub i j => ∃ l s, ll[i]? = some l ∧ l.subs[j]? = some s ∧ c.size = s.bytes.length
  | .ext i j => c.size = 8 ∧ ∃ l, ll[i]? = some l ∧ j < l.subs.length

theorem renderAll_cons_ok (ll : List Lookup) (ext : Nat) (lay : List (Code × Nat)) (c : Chunk)
    (cs : List Chunk) (b : Bytes) (h : renderAll ll ext lay (c :: cs) = .ok b) :
    ∃ r rest, render ll ext lay c.code = .ok r ∧ renderAll ll ext lay cs = .ok rest ∧ b = r ++ rest := by
  simp only [renderAll] at h
  cases h1 : render ll ext lay c.code with
  | ok r =>
    rw [h1] at h
    cases h2 : renderAll ll ext lay cs with
    | ok rest =>
      rw [h2] at h
      simp only [Outcome.ok.injEq] at h
      exact ⟨r, rest, rfl, rfl, h.symm⟩
    | err e => rw [h2] at h; simp at h
    | panic s => rw [h2] at h; simp at h
  | err e => rw [h1] at h; simp at h
  | panic s => rw [h1] at h; simp at h

theorem renderAll_split (ll : List Lookup) (ext : Nat) (lay : List (Code × Nat)) :
    ∀ (pre : List Chunk) (x : Chunk) (post : List Chunk) (b : Bytes),
    renderAll ll ext lay (pre ++ x :: post) = .ok b →
    ∃ bpre r bpost, renderAll ll ext lay pre = .ok bpre ∧ render ll ext lay x.code = .ok r ∧
      renderAll ll ext lay post = .ok bpost ∧ b = bpre ++ r ++ bpost
  | [], x, post, b, h => by
    obtain ⟨r, rest, h1, h2, h3⟩ := renderAll_cons_ok ll ext lay x post b h
    exact ⟨[], r, rest, rfl, h1, h2, by simp [h3]⟩
  | c :: pre, x, post, b, h => by
    obtain ⟨r0, rest, h1, h2, h3⟩ := renderAll_cons_ok ll ext lay c (pre ++ x :: post) b h
    obtain ⟨bpre, r, bpost, g1, g2, g3, g4⟩ := renderAll_split ll ext lay pre x post rest h2
    refine ⟨r0 ++ bpre, r, bpost, ?_, g2, g3, by simp [h3, g4]⟩
    simp [renderAll, h1, g1]

theorem subOffsets_length (lay : List (Code × Nat)) (i base : Nat) : ∀ (n j : Nat) (offs : List Nat),
    subOffsets lay i base n j = .ok offs → offs.length = n
  | 0, _, offs, h => by simp [subOffsets] at h; simp [← h]
  | n + 1, j, offs, h => by
    simp only [subOffsets] at h
    split at h
    · simp at h
    · cases h2 : subOffsets lay i base n (j + 1) with
      | ok r =>
        rw [h2] at h
        simp only [Outcome.ok.injEq] at h
        rw [← h, List.length_cons, subOffsets_length lay i base n (j + 1) r h2]
      | err e => rw [h2] at h; simp at h
      | panic s => rw [h2] at h; simp at h

theorem render_length (ll : List Lookup) (ext : Nat) (lay : List (Code × Nat)) (c : Chunk) (r : Bytes)
    (hs : SizeOK ll c) (h : render ll ext lay c.code = .ok r) : r.length = c.size := by
  unfold SizeOK at hs
  cases hc : c.code with
  | header =>
    rw [hc] at hs h
    simp only [render, Outcome.ok.injEq] at h
    rw [← h, length_wordsToBytes, hs]
    simp
    omega
  | table i =>
    rw [hc] at hs h
    obtain ⟨l, hl, hsz⟩ := hs
    simp only [render, hl] at h
    split at h
    · simp at h
    · cases ho : subOffsets lay i (pos lay (Code.table i)) l.subs.length 0 with
      | ok offs =>
        rw [ho] at h
        simp only [Outcome.ok.injEq] at h
        have := subOffsets_length _ _ _ _ _ _ ho
        rw [← h, length_wordsToBytes, hsz, hdrLen]
        simp only [List.length_append, List.length_cons, List.length_nil, this]
        split <;> simp <;> omega
      | err e => rw [ho] at h; simp at h
      | panic s => rw [ho] at h; simp at h
  | sub i j =>
    rw [hc] at hs h
    obtain ⟨l, st, hl, hst, hsz⟩ := hs
    simp only [render, hl, hst, Outcome.ok.injEq] at h
    rw [← h, hsz]
  | ext i j =>
    rw [hc] at hs h
    obtain ⟨hsz, l, hl, _⟩ := hs
    simp only [render, hl, Outcome.ok.injEq] at h
    rw [← h, length_wordsToBytes, hsz]
    rfl

theorem renderAll_length (ll : List Lookup) (ext : Nat) (lay : List (Code × Nat)) :
    ∀ (cs : List Chunk) (b : Bytes), (∀ c ∈ cs, SizeOK ll c) → renderAll ll ext lay cs = .ok b →
    b.length = totalSize cs
  | [], b, _, h => by simp [renderAll] at h; simp [← h, totalSize_nil]
  | c :: cs, b, hs, h => by
    obtain ⟨r, rest, h1, h2, h3⟩ := renderAll_cons_ok ll ext lay c cs b h
    rw [h3, List.length_append, render_length ll ext lay c r (hs c (by simp)) h1,
      renderAll_length ll ext lay cs rest (fun c' hc' => hs c' (by simp [hc'])) h2, totalSize_cons]

/-- what the encoder rendered for a code sits at the position the layout gives the code -/
theorem content_at (ll : List Lookup) (ext : Nat) (lay : List (Code × Nat)) (cs : List Chunk) (b : Bytes)
    (hs : ∀ c ∈ cs, SizeOK ll c) (h : renderAll ll ext lay cs = .ok b) (code : Code) (p : Nat)
    (hp : pos? (layout cs 0) code = some p) :
    ∃ r bpre bpost, render ll ext lay code = .ok r ∧ b = bpre ++ r ++ bpost ∧ bpre.length = p := by
  obtain ⟨pre, x, post, h1, h2, h3⟩ := pos?_split cs 0 code p hp
  rw [h1] at h
  obtain ⟨bpre, r, bpost, g1, g2, g3, g4⟩ := renderAll_split ll ext lay pre x post b h
  refine ⟨r, bpre, bpost, by rw [← h2]; exact g2, g4, ?_⟩
  rw [renderAll_length ll ext lay pre bpre (fun c hc => hs c (by rw [h1]; simp [hc])) g1, h3]
  omega

end SfntV.Otl.LL
