/-
Lemmas about the lookup-list layout model (C08): positions of chunks, rendered content at those
positions, structure of the planned and of the reordered chunk list, evaluation of the
specification reader on the emitted bytes.
-/
import SfntV.Model.OtlLookupList
import SfntV.Proofs.OtlBase

namespace SfntV.Otl.LL
open SfntV SfntV.Otl

/-! ### layout and positions -/

def codes (cs : List Chunk) : List Code := cs.map (·.code)

theorem totalSize_nil : totalSize [] = 0 := rfl

theorem totalSize_cons (c : Chunk) (cs : List Chunk) : totalSize (c :: cs) = c.size + totalSize cs := by
  simp [totalSize]

theorem totalSize_append (xs ys : List Chunk) : totalSize (xs ++ ys) = totalSize xs + totalSize ys := by
  simp [totalSize]

theorem pos?_nil (s : Nat) (c : Code) : pos? (layout [] s) c = none := rfl

theorem pos?_cons (x : Chunk) (xs : List Chunk) (s : Nat) (c : Code) :
    pos? (layout (x :: xs) s) c = if x.code = c then some s else pos? (layout xs (s + x.size)) c := by
  simp only [layout, pos?, List.find?_cons]
  by_cases h : x.code = c
  · simp [h]
  · have hb : (x.code == c) = false := by simp [h]
    simp [h, hb]

theorem pos?_append (xs ys : List Chunk) (s : Nat) (c : Code) :
    pos? (layout (xs ++ ys) s) c =
      match pos? (layout xs s) c with
      | some p => some p
      | none => pos? (layout ys (s + totalSize xs)) c := by
  induction xs generalizing s with
  | nil => simp [pos?_nil, totalSize_nil]
  | cons x xs ih =>
    rw [List.cons_append, pos?_cons, pos?_cons]
    by_cases h : x.code = c
    · simp [h]
    · simp only [h, if_false]
      rw [ih, totalSize_cons]
      have : s + x.size + totalSize xs = s + (x.size + totalSize xs) := by omega
      rw [this]

theorem pos?_eq_none (xs : List Chunk) (s : Nat) (c : Code) :
    pos? (layout xs s) c = none ↔ c ∉ codes xs := by
  induction xs generalizing s with
  | nil => simp [pos?_nil, codes]
  | cons x xs ih =>
    rw [pos?_cons]
    by_cases h : x.code = c
    · simp [h, codes]
    · simp only [h, if_false, ih, codes, List.map_cons, List.mem_cons]
      constructor
      · intro h1 h2
        rcases h2 with h2 | h2
        · exact h h2.symm
        · exact h1 h2
      · intro h1 h2
        exact h1 (Or.inr h2)

theorem pos?_isSome (xs : List Chunk) (s : Nat) (c : Code) (h : c ∈ codes xs) :
    ∃ p, pos? (layout xs s) c = some p := by
  cases hp : pos? (layout xs s) c with
  | none => exact absurd h ((pos?_eq_none xs s c).mp hp)
  | some p => exact ⟨p, rfl⟩

theorem pos?_bounds (xs : List Chunk) (s : Nat) (c : Code) (p : Nat)
    (h : pos? (layout xs s) c = some p) : s ≤ p ∧ p ≤ s + totalSize xs := by
  induction xs generalizing s with
  | nil => simp [pos?_nil] at h
  | cons x xs ih =>
    rw [pos?_cons] at h
    rw [totalSize_cons]
    by_cases hc : x.code = c
    · simp only [hc, if_true, Option.some.injEq] at h
      omega
    · simp only [hc, if_false] at h
      have := ih _ h
      omega

/-- the first occurrence of a code: the chunk list splits there -/
theorem pos?_split (xs : List Chunk) (s : Nat) (c : Code) (p : Nat)
    (h : pos? (layout xs s) c = some p) :
    ∃ pre x post, xs = pre ++ x :: post ∧ x.code = c ∧ p = s + totalSize pre := by
  induction xs generalizing s with
  | nil => simp [pos?_nil] at h
  | cons x xs ih =>
    rw [pos?_cons] at h
    by_cases hc : x.code = c
    · simp only [hc, if_true, Option.some.injEq] at h
      exact ⟨[], x, xs, rfl, hc, by simp [totalSize_nil, h]⟩
    · simp only [hc, if_false] at h
      obtain ⟨pre, y, post, h1, h2, h3⟩ := ih _ h
      refine ⟨x :: pre, y, post, by rw [h1]; rfl, h2, ?_⟩
      rw [totalSize_cons]; omega

/-! ### rendering: every chunk occupies exactly its planned size -/

/-- a chunk's planned size is the size of what will be rendered for its code -/
def SizeOK (ll : List Lookup) (c : Chunk) : Prop :=
  match c.code with
  | .header => c.size = 2 + 2 * ll.length
  | .table i => ∃ l, ll[i]? = some l ∧ c.size = hdrLen l
  | .sub i j => ∃ l s, ll[i]? = some l ∧ l.subs[j]? = some s ∧ c.size = s.bytes.length
  | .ext i j => c.size = 8 ∧ ∃ l, ll[i]? = some l ∧ j < l.subs.length

theorem renderAll_cons_ok (ll : List Lookup) (ext : Nat) (lay : List (Code × Nat)) (c : Chunk)
    (cs : List Chunk) (b : Bytes) (h : renderAll ll ext lay (c :: cs) = .ok b) :
    ∃ r rest, render ll ext lay c.code = .ok r ∧ renderAll ll ext lay cs = .ok rest ∧ b = r ++ rest := by
  simp only [renderAll] at h
  cases h1 : render ll ext lay c.code with
  | ok r =>
    rw [h1] at h
    cases h2 : renderAll ll ext lay cs with
    | ok rest =>
      rw [h2] at h
      simp only [Outcome.ok.injEq] at h
      exact ⟨r, rest, rfl, rfl, h.symm⟩
    | err e => rw [h2] at h; simp at h
    | panic s => rw [h2] at h; simp at h
  | err e => rw [h1] at h; simp at h
  | panic s => rw [h1] at h; simp at h

theorem renderAll_split (ll : List Lookup) (ext : Nat) (lay : List (Code × Nat)) :
    ∀ (pre : List Chunk) (x : Chunk) (post : List Chunk) (b : Bytes),
    renderAll ll ext lay (pre ++ x :: post) = .ok b →
    ∃ bpre r bpost, renderAll ll ext lay pre = .ok bpre ∧ render ll ext lay x.code = .ok r ∧
      renderAll ll ext lay post = .ok bpost ∧ b = bpre ++ r ++ bpost
  | [], x, post, b, h => by
    obtain ⟨r, rest, h1, h2, h3⟩ := renderAll_cons_ok ll ext lay x post b h
    exact ⟨[], r, rest, rfl, h1, h2, by simp [h3]⟩
  | c :: pre, x, post, b, h => by
    obtain ⟨r0, rest, h1, h2, h3⟩ := renderAll_cons_ok ll ext lay c (pre ++ x :: post) b h
    obtain ⟨bpre, r, bpost, g1, g2, g3, g4⟩ := renderAll_split ll ext lay pre x post rest h2
    refine ⟨r0 ++ bpre, r, bpost, ?_, g2, g3, by simp [h3, g4]⟩
    simp [renderAll, h1, g1]

theorem subOffsets_length (lay : List (Code × Nat)) (i base : Nat) : ∀ (n j : Nat) (offs : List Nat),
    subOffsets lay i base n j = .ok offs → offs.length = n
  | 0, _, offs, h => by simp [subOffsets] at h; simp [← h]
  | n + 1, j, offs, h => by
    simp only [subOffsets] at h
    split at h
    · simp at h
    · cases h2 : subOffsets lay i base n (j + 1) with
      | ok r =>
        rw [h2] at h
        simp only [Outcome.ok.injEq] at h
        rw [← h, List.length_cons, subOffsets_length lay i base n (j + 1) r h2]
      | err e => rw [h2] at h; simp at h
      | panic s => rw [h2] at h; simp at h

theorem render_length (ll : List Lookup) (ext : Nat) (lay : List (Code × Nat)) (c : Chunk) (r : Bytes)
    (hs : SizeOK ll c) (h : render ll ext lay c.code = .ok r) : r.length = c.size := by
  unfold SizeOK at hs
  cases hc : c.code with
  | header =>
    rw [hc] at hs h
    simp only [render, Outcome.ok.injEq] at h
    rw [← h, length_wordsToBytes, hs]
    simp
    omega
  | table i =>
    rw [hc] at hs h
    obtain ⟨l, hl, hsz⟩ := hs
    simp only [render, hl] at h
    split at h
    · simp at h
    · cases ho : subOffsets lay i (pos lay (Code.table i)) l.subs.length 0 with
      | ok offs =>
        rw [ho] at h
        simp only [Outcome.ok.injEq] at h
        have := subOffsets_length _ _ _ _ _ _ ho
        rw [← h, length_wordsToBytes, hsz, hdrLen]
        simp only [List.length_append, List.length_cons, List.length_nil, this]
        split <;> simp <;> omega
      | err e => rw [ho] at h; simp at h
      | panic s => rw [ho] at h; simp at h
  | sub i j =>
    rw [hc] at hs h
    obtain ⟨l, st, hl, hst, hsz⟩ := hs
    simp only [render, hl, hst, Outcome.ok.injEq] at h
    rw [← h, hsz]
  | ext i j =>
    rw [hc] at hs h
    obtain ⟨hsz, l, hl, _⟩ := hs
    simp only [render, hl, Outcome.ok.injEq] at h
    rw [← h, length_wordsToBytes, hsz]
    rfl

theorem renderAll_length (ll : List Lookup) (ext : Nat) (lay : List (Code × Nat)) :
    ∀ (cs : List Chunk) (b : Bytes), (∀ c ∈ cs, SizeOK ll c) → renderAll ll ext lay cs = .ok b →
    b.length = totalSize cs
  | [], b, _, h => by simp [renderAll] at h; simp [← h, totalSize_nil]
  | c :: cs, b, hs, h => by
    obtain ⟨r, rest, h1, h2, h3⟩ := renderAll_cons_ok ll ext lay c cs b h
    rw [h3, List.length_append, render_length ll ext lay c r (hs c (by simp)) h1,
      renderAll_length ll ext lay cs rest (fun c' hc' => hs c' (by simp [hc'])) h2, totalSize_cons]

/-- what the encoder rendered for a code sits at the position the layout gives the code -/
theorem content_at (ll : List Lookup) (ext : Nat) (lay : List (Code × Nat)) (cs : List Chunk) (b : Bytes)
    (hs : ∀ c ∈ cs, SizeOK ll c) (h : renderAll ll ext lay cs = .ok b) (code : Code) (p : Nat)
    (hp : pos? (layout cs 0) code = some p) :
    ∃ r bpre bpost, render ll ext lay code = .ok r ∧ b = bpre ++ r ++ bpost ∧ bpre.length = p := by
  obtain ⟨pre, x, post, h1, h2, h3⟩ := pos?_split cs 0 code p hp
  rw [h1] at h
  obtain ⟨bpre, r, bpost, g1, g2, g3, g4⟩ := renderAll_split ll ext lay pre x post b h
  refine ⟨r, bpre, bpost, by rw [← h2]; exact g2, g4, ?_⟩
  rw [renderAll_length ll ext lay pre bpre (fun c hc => hs c (by rw [h1]; simp [hc])) g1, h3]
  omega

/-! ### reading the emitted bytes -/

theorem mapM_some {α β} (f : α → Option β) (g : α → β) : ∀ (l : List α),
    (∀ x ∈ l, f x = some (g x)) → l.mapM f = some (l.map g)
  | [], _ => rfl
  | a :: l, h => by
    rw [List.mapM_cons, h a (by simp), mapM_some f g l (fun x hx => h x (by simp [hx]))]
    rfl

theorem u16at_eq (b : Bytes) (p : Nat) : u16at b p = (bytesToWords (b.drop p)).head? := by
  unfold u16at
  have h0 : b[p]? = (b.drop p)[0]? := by rw [List.getElem?_drop]; rfl
  have h1 : b[p + 1]? = (b.drop p)[1]? := by rw [List.getElem?_drop]
  rw [h0, h1]
  cases b.drop p with
  | nil => rfl
  | cons x r =>
    cases r with
    | nil => rfl
    | cons y r => rfl

/-- `b` holds `r` at byte position `p` -/
def BytesAt (b : Bytes) (p : Nat) (r : Bytes) : Prop :=
  ∃ bpre bpost, b = bpre ++ r ++ bpost ∧ bpre.length = p

theorem BytesAt.take_drop {b : Bytes} {p : Nat} {r : Bytes} (h : BytesAt b p r) :
    (b.drop p).take r.length = r := by
  obtain ⟨bpre, bpost, rfl, rfl⟩ := h
  rw [List.append_assoc, List.drop_left, List.take_left]

theorem u16at_wordsAt {b : Bytes} {p : Nat} {ws : List Nat} (h : BytesAt b p (wordsToBytes ws))
    (hlt : ∀ w ∈ ws, w < 65536) (k : Nat) (w : Nat) (hk : ws[k]? = some w) :
    u16at b (p + 2 * k) = some w := by
  obtain ⟨bpre, bpost, rfl, rfl⟩ := h
  have hkl : k < ws.length := by
    apply Classical.byContradiction
    intro hn
    rw [List.getElem?_eq_none (by omega)] at hk
    simp at hk
  rw [u16at_eq, List.append_assoc, ← List.drop_drop, List.drop_left,
    drop_wordsToBytes ws k bpost (by omega),
    bytesToWords_append _ (fun x hx => hlt x (List.mem_of_mem_drop hx))]
  rw [List.head?_append, List.head?_drop, hk]
  rfl

theorem u16s_wordsAt {b : Bytes} {p : Nat} {ws : List Nat} (h : BytesAt b p (wordsToBytes ws))
    (hlt : ∀ w ∈ ws, w < 65536) (k0 n : Nat) (hn : k0 + n ≤ ws.length) :
    u16s b (p + 2 * k0) n = some ((List.range n).map fun j => ws.getD (k0 + j) 0) := by
  unfold u16s
  apply mapM_some
  intro j hj
  rw [List.mem_range] at hj
  have : p + 2 * k0 + 2 * j = p + 2 * (k0 + j) := by omega
  rw [this]
  apply u16at_wordsAt h hlt
  rw [List.getD_eq_getElem?_getD]
  have hl : k0 + j < ws.length := by omega
  rw [List.getElem?_eq_getElem hl]
  rfl

/-! ### from a well-structured chunk list to recovery by the specification reader -/

/-- What the specification reader must find (Prop form of `recovers`). -/
def Recovered (b : Bytes) (extType : Nat) (ll : List Lookup) : Prop :=
  ∃ sl : List SpecLookup, specRead b extType = some sl ∧ sl.length = ll.length ∧
    ∀ (i : Nat) (l : Lookup), ll[i]? = some l → ∃ s : SpecLookup, sl[i]? = some s ∧
      s.type = l.type ∧ s.flags = l.flags ∧
      s.mfs = (if useMFS l then some l.mfs else none) ∧ s.subPos.length = l.subs.length ∧
      ∀ (j : Nat) (st : Sub), l.subs[j]? = some st →
        ∃ p, s.subPos[j]? = some p ∧ (b.drop p).take st.bytes.length = st.bytes

/-- the structural facts about the final chunk list that the argument needs -/
structure Good (ll : List Lookup) (cs : List Chunk) : Prop where
  sized : ∀ c ∈ cs, SizeOK ll c
  header : pos? (layout cs 0) .header = some 0
  table : ∀ i, i < ll.length → ∃ p, pos? (layout cs 0) (.table i) = some p ∧ p < 65536
  sub : ∀ i l j, ll[i]? = some l → j < l.subs.length → ∃ p, pos? (layout cs 0) (.sub i j) = some p
  ext_all : ∀ i l, ll[i]? = some l → (∃ p, pos? (layout cs 0) (.ext i 0) = some p) →
    ∀ j, j < l.subs.length → ∃ p, pos? (layout cs 0) (.ext i j) = some p
  ext_none : ∀ i, pos? (layout cs 0) (.ext i 0) = none → ∀ j, pos? (layout cs 0) (.ext i j) = none
  table_le_sub : ∀ i j pt ps, pos? (layout cs 0) (.table i) = some pt →
    pos? (layout cs 0) (.sub i j) = some ps → pt ≤ ps
  table_le_ext : ∀ i j pt pe, pos? (layout cs 0) (.table i) = some pt →
    pos? (layout cs 0) (.ext i j) = some pe → pt ≤ pe
  ext_le_sub : ∀ i j pe ps, pos? (layout cs 0) (.ext i j) = some pe →
    pos? (layout cs 0) (.sub i j) = some ps → pe ≤ ps

/-- the domain of the lookup lists: 16-bit fields -/
structure LLDom (ll : List Lookup) : Prop where
  fields : ∀ l ∈ ll, l.type < 65536 ∧ l.flags < 65536 ∧ l.mfs < 65536

theorem mapM_map_some {α β γ} (f : α → β) (h : β → Option γ) (g : α → γ) : ∀ (l : List α),
    (∀ x ∈ l, h (f x) = some (g x)) → (l.map f).mapM h = some (l.map g)
  | [], _ => rfl
  | a :: l, hh => by
    rw [List.map_cons, List.mapM_cons, hh a (by simp),
      mapM_map_some f h g l (fun x hx => hh x (by simp [hx]))]
    rfl

theorem subOffsets_spec (lay : List (Code × Nat)) (i base : Nat) : ∀ (n j0 : Nat) (offs : List Nat),
    subOffsets lay i base n j0 = .ok offs →
    ∀ k, k < n → offs[k]? = some (subPos lay i (j0 + k) - base) ∧ subPos lay i (j0 + k) - base ≤ 0xFFFF
  | 0, _, _, _, k, hk => by omega
  | n + 1, j0, offs, h, k, hk => by
    simp only [subOffsets] at h
    split at h
    · simp at h
    · rename_i hle
      cases h2 : subOffsets lay i base n (j0 + 1) with
      | ok r =>
        rw [h2] at h
        simp only [Outcome.ok.injEq] at h
        subst h
        cases k with
        | zero => exact ⟨by simp, by simpa using hle⟩
        | succ k =>
          have := subOffsets_spec lay i base n (j0 + 1) r h2 k (by omega)
          have e : j0 + 1 + k = j0 + (k + 1) := by omega
          rw [e] at this
          simpa using this
      | err e => rw [h2] at h; simp at h
      | panic s => rw [h2] at h; simp at h

theorem useMFS_eq (l : Lookup) : useMFS l = (l.flags / 16 % 2 == 1) := rfl

theorem range_map_getD (pre l post : List Nat) :
    (List.range l.length).map (fun j => (pre ++ l ++ post).getD (pre.length + j) 0) = l := by
  apply List.ext_getElem?
  intro j
  by_cases hj : j < l.length
  · rw [List.getElem?_map, List.getElem?_range hj]
    simp only [Option.map_some, List.getD_eq_getElem?_getD]
    rw [List.append_assoc, List.getElem?_append_right (by omega)]
    have : pre.length + j - pre.length = j := by omega
    rw [this, List.getElem?_append_left hj]
    simp [List.getElem?_eq_getElem hj]
  · rw [List.getElem?_eq_none (by simp; omega), List.getElem?_eq_none (by omega)]

/-- the specification reader on a lookup-table header given as words -/
theorem specLookup_words (b : Bytes) (extT pt tp flags mfs : Nat) (offs : List Nat)
    (hat : BytesAt b pt (wordsToBytes ([tp, flags, offs.length] ++ offs ++
      (if flags / 16 % 2 == 1 then [mfs] else []))))
    (htp : tp < 65536) (hfl : flags < 65536) (hn : offs.length < 65536) (hmfs : mfs < 65536)
    (hoffs : ∀ o ∈ offs, o < 65536) :
    specLookup b extT pt =
      specFinish b extT pt tp flags (if flags / 16 % 2 == 1 then some mfs else none) offs := by
  have hlt : ∀ w ∈ [tp, flags, offs.length] ++ offs ++ (if flags / 16 % 2 == 1 then [mfs] else []),
      w < 65536 := by
    intro w hw
    simp only [List.mem_append, List.mem_cons, List.not_mem_nil, or_false] at hw
    rcases hw with (((rfl | rfl | rfl) | hw) | hw)
    · exact htp
    · exact hfl
    · exact hn
    · exact hoffs w hw
    · split at hw
      · simp at hw; omega
      · simp at hw
  have h0 : u16at b pt = some tp := by
    have := u16at_wordsAt hat hlt 0 tp (by simp)
    simpa using this
  have h1 : u16at b (pt + 2) = some flags := by
    have := u16at_wordsAt hat hlt 1 flags (by simp)
    simpa using this
  have h2 : u16at b (pt + 4) = some offs.length := by
    have := u16at_wordsAt hat hlt 2 offs.length (by simp)
    simpa using this
  have h3 : u16s b (pt + 6) offs.length = some offs := by
    have := u16s_wordsAt hat hlt 3 offs.length (by simp; omega)
    have e : pt + 2 * 3 = pt + 6 := by omega
    rw [e] at this
    rw [this]
    congr 1
    exact range_map_getD [tp, flags, offs.length] offs _
  have h4 : (if flags / 16 % 2 == 1 then (u16at b (pt + 6 + 2 * offs.length)).map some else some none) =
      some (if flags / 16 % 2 == 1 then some mfs else none) := by
    split
    · rename_i hf
      have := u16at_wordsAt hat hlt (3 + offs.length) mfs (by
        rw [if_pos hf, List.getElem?_append_right (by simp; omega)]
        have e : 3 + offs.length - ([tp, flags, offs.length] ++ offs).length = 0 := by simp; omega
        rw [e]
        rfl)
      have e : pt + 2 * (3 + offs.length) = pt + 6 + 2 * offs.length := by omega
      rw [e] at this
      rw [this]
      rfl
    · rfl
  simp only [specLookup, h0, h1, h2, h3, h4]

theorem pos_of_pos? {lay : List (Code × Nat)} {c : Code} {p : Nat} (h : pos? lay c = some p) :
    pos lay c = p := by simp [pos, h]

/-- what the specification reader should produce for lookup `i` -/
def expectSL (lay : List (Code × Nat)) (i : Nat) (l : Lookup) : SpecLookup :=
  ⟨l.type, l.flags, if useMFS l then some l.mfs else none,
   (List.range l.subs.length).map fun j => pos lay (.sub i j)⟩

section
variable (ll : List Lookup) (cs : List Chunk) (ext extT : Nat) (b : Bytes)
  (G : Good ll cs) (D : LLDom ll)
  (hb : renderAll ll ext (layout cs 0) cs = .ok b)
  (hsz : totalSize cs < 4294967296)
  (hT : ∀ l ∈ ll, l.type ≠ extT) (hTlt : extT < 65536)
  (hE : ∀ i p, pos? (layout cs 0) (.ext i 0) = some p → ext = extT)
include G D hb hsz hT hTlt hE

omit hT hTlt hE in
/-- an extension record is found where the layout put it, and leads to the subtable -/
theorem specExtRec_at (i j : Nat) (l : Lookup) (hl : ll[i]? = some l) (pe ps : Nat)
    (hpe : pos? (layout cs 0) (.ext i j) = some pe) (hps : pos? (layout cs 0) (.sub i j) = some ps) :
    specExtRec b pe = some (l.type, ps) := by
  obtain ⟨r, bpre, bpost, hr, hbr, hlen⟩ := content_at ll ext _ cs b G.sized hb _ pe hpe
  have hle := G.ext_le_sub i j pe ps hpe hps
  have hps_le := (pos?_bounds cs 0 _ ps hps).2
  simp only [render, hl, pos_of_pos? hpe, pos_of_pos? hps, Outcome.ok.injEq] at hr
  have hd : ps - pe < 4294967296 := by omega
  have hat : BytesAt b pe (wordsToBytes [1, l.type, w16 ((ps - pe) / 65536), w16 (ps - pe)]) :=
    ⟨bpre, bpost, by rw [hr]; exact hbr, hlen⟩
  have hlt : ∀ w ∈ [1, l.type, w16 ((ps - pe) / 65536), w16 (ps - pe)], w < 65536 := by
    intro w hw
    simp only [List.mem_cons, List.not_mem_nil, or_false] at hw
    rcases hw with rfl | rfl | rfl | rfl
    · decide
    · exact (D.fields l (List.mem_of_getElem? hl)).1
    · exact w16_lt _
    · exact w16_lt _
  have h0 := u16at_wordsAt hat hlt 0 1 (by simp)
  have h1 := u16at_wordsAt hat hlt 1 l.type (by simp)
  have h2 := u16at_wordsAt hat hlt 2 _ (by simp; rfl)
  have h3 := u16at_wordsAt hat hlt 3 _ (by simp; rfl)
  simp only [Nat.mul_zero, Nat.add_zero, Nat.mul_one] at h0 h1 h2 h3
  simp only [specExtRec, h0, h1, h2, h3]
  have e : w16 ((ps - pe) / 65536) * 65536 + w16 (ps - pe) = ps - pe := by
    rw [w16_of_lt (by omega)]
    unfold w16
    have := Nat.div_add_mod (ps - pe) 65536
    omega
  rw [e]
  have e2 : pe + (ps - pe) = ps := by omega
  simp [e2]

/-- the specification reader on the header of lookup `i` -/
theorem specLookup_table (i : Nat) (l : Lookup) (hl : ll[i]? = some l) (hn : l.subs.length < 65536)
    (pt : Nat) (hpt : pos? (layout cs 0) (.table i) = some pt) :
    specLookup b extT pt = some (expectSL (layout cs 0) i l) := by
  obtain ⟨r, bpre, bpost, hr, hbr, hlen⟩ := content_at ll ext _ cs b G.sized hb _ pt hpt
  have hfields := D.fields l (List.mem_of_getElem? hl)
  simp only [render, hl, pos_of_pos? hpt] at hr
  split at hr
  · simp at hr
  · rename_i hnp
    cases ho : subOffsets (layout cs 0) i pt l.subs.length 0 with
    | err e => rw [ho] at hr; simp at hr
    | panic s => rw [ho] at hr; simp at hr
    | ok offs =>
      rw [ho] at hr
      simp only [Outcome.ok.injEq] at hr
      have holen := subOffsets_length _ _ _ _ _ _ ho
      have hospec := subOffsets_spec _ _ _ _ _ _ ho
      have hoffs : ∀ o ∈ offs, o < 65536 := by
        intro o ho'
        obtain ⟨k, hk, rfl⟩ := List.getElem_of_mem ho'
        have := hospec k (by omega)
        rw [List.getElem?_eq_getElem hk] at this
        simp only [Option.some.injEq] at this
        omega
      -- the words of the header, in the shape `specLookup_words` expects
      have hat : ∀ tp, r = wordsToBytes ([tp, l.flags, w16 l.subs.length] ++ offs ++
            (if useMFS l then [l.mfs] else [])) →
          BytesAt b pt (wordsToBytes ([tp, l.flags, offs.length] ++ offs ++
            (if l.flags / 16 % 2 == 1 then [l.mfs] else []))) := by
        intro tp hr'
        refine ⟨bpre, bpost, ?_, hlen⟩
        rw [hbr, hr', w16_of_lt hn, holen]
        rfl
      cases hrep : pos? (layout cs 0) (.ext i 0) with
      | none =>
        -- not replaced: plain subtable offsets
        simp only [hrep, Option.isSome_none, Bool.false_eq_true, if_false] at hr
        rw [specLookup_words b extT pt l.type l.flags l.mfs offs (hat _ hr.symm) hfields.1 hfields.2.1
          (by omega) hfields.2.2 hoffs]
        have hne : (l.type == extT) = false := by
          simp only [beq_eq_false_iff_ne]
          exact hT l (List.mem_of_getElem? hl)
        simp only [specFinish, hne, Bool.false_eq_true, if_false, expectSL, useMFS_eq]
        congr 2
        apply List.ext_getElem?
        intro j
        by_cases hj : j < l.subs.length
        · rw [List.getElem?_map, List.getElem?_map, List.getElem?_range hj]
          have h1 := (hospec j hj).1
          rw [Nat.zero_add] at h1
          rw [h1]
          obtain ⟨ps, hps⟩ := G.sub i l j hl hj
          have hsp : subPos (layout cs 0) i j = ps := by
            simp [subPos, G.ext_none i hrep j, pos_of_pos? hps]
          have hle := G.table_le_sub i j pt ps hpt hps
          simp only [Option.map_some, hsp, pos_of_pos? hps]
          congr 1
          omega
        · rw [List.getElem?_eq_none (by simp; omega), List.getElem?_eq_none (by simp; omega)]
      | some pe0 =>
        -- replaced: the offsets lead to extension records
        have hext := hE i pe0 hrep
        simp only [hrep, Option.isSome_some, if_true] at hr
        rw [specLookup_words b extT pt ext l.flags l.mfs offs (hat _ hr.symm) (by omega) hfields.2.1
          (by omega) hfields.2.2 hoffs]
        have hself : (ext == extT) = true := by simp [hext]
        -- the offsets as a function of the subtable index
        have hoffs_eq : offs = (List.range l.subs.length).map
            (fun j => pos (layout cs 0) (.ext i j) - pt) := by
          apply List.ext_getElem?
          intro j
          by_cases hj : j < l.subs.length
          · rw [List.getElem?_map, List.getElem?_range hj]
            have h1 := (hospec j hj).1
            rw [Nat.zero_add] at h1
            rw [h1]
            obtain ⟨pe, hpe⟩ := G.ext_all i l hl ⟨pe0, hrep⟩ j hj
            simp [subPos, hpe, pos_of_pos? hpe]
          · rw [List.getElem?_eq_none (by omega), List.getElem?_eq_none (by simp; omega)]
        have hrecs : offs.mapM (fun o => specExtRec b (pt + o)) =
            some ((List.range l.subs.length).map fun j => (l.type, pos (layout cs 0) (.sub i j))) := by
          rw [hoffs_eq]
          apply mapM_map_some
          intro j hj
          rw [List.mem_range] at hj
          obtain ⟨pe, hpe⟩ := G.ext_all i l hl ⟨pe0, hrep⟩ j hj
          obtain ⟨ps, hps⟩ := G.sub i l j hl hj
          have hle := G.table_le_ext i j pt pe hpt hpe
          rw [pos_of_pos? hpe, pos_of_pos? hps]
          have e : pt + (pe - pt) = pe := by omega
          rw [e]
          exact specExtRec_at ll cs ext b G D hb hsz i j l hl pe ps hpe hps
        -- at least one subtable, since an extension record for subtable 0 exists
        have hpos : 0 < l.subs.length := by
          obtain ⟨pre, x, post, hx1, hx2, _⟩ := pos?_split cs 0 _ pe0 hrep
          have hsz := G.sized x (by rw [hx1]; simp)
          unfold SizeOK at hsz
          rw [hx2] at hsz
          obtain ⟨_, l', hl', hj⟩ := hsz
          rw [hl] at hl'
          simp only [Option.some.injEq] at hl'
          subst hl'
          exact hj
        obtain ⟨m, hm⟩ : ∃ m, l.subs.length = m + 1 := ⟨l.subs.length - 1, by omega⟩
        have hne : (l.type != extT) = true := by
          simp only [bne_iff_ne]
          exact hT l (List.mem_of_getElem? hl)
        simp only [specFinish, hself, if_true, hrecs, expectSL, useMFS_eq]
        rw [hm, List.range_succ_eq_map]
        simp only [List.map_cons, List.map_map]
        simp only [List.all_cons, List.all_map, beq_self_eq_true, Bool.true_and, hne, Bool.and_true]
        have hall : ((List.range m).all ((fun x : Nat × Nat => x.fst == l.type) ∘
            ((fun j => (l.type, pos (layout cs 0) (Code.sub i j))) ∘ Nat.succ))) = true := by
          rw [List.all_eq_true]
          intro x _
          simp
        simp only [hall, if_true]
        rfl

/-- **Part 1**: for a well-structured final chunk list, the specification reader recovers every
lookup and every subtable from the rendered bytes. -/
theorem recovered_of_good (hlen : ll.length < 65536) (hsubs : ∀ l ∈ ll, l.subs.length < 65536) :
    Recovered b extT ll := by
  -- the LookupList header
  obtain ⟨r, bpre, bpost, hr, hbr, hl0⟩ := content_at ll ext _ cs b G.sized hb _ 0 G.header
  simp only [render, Outcome.ok.injEq] at hr
  have hat : BytesAt b 0 (wordsToBytes (w16 ll.length ::
      (List.range ll.length).map fun i => w16 (pos (layout cs 0) (.table i)))) :=
    ⟨bpre, bpost, by rw [hr]; exact hbr, hl0⟩
  have hlt : ∀ w ∈ w16 ll.length :: (List.range ll.length).map
      (fun i => w16 (pos (layout cs 0) (.table i))), w < 65536 := by
    intro w hw
    simp only [List.mem_cons, List.mem_map] at hw
    rcases hw with rfl | ⟨_, _, rfl⟩ <;> exact w16_lt _
  have h0 : u16at b 0 = some ll.length := by
    have := u16at_wordsAt hat hlt 0 (w16 ll.length) (by simp)
    rw [w16_of_lt hlen] at this
    simpa using this
  have h1 : u16s b 2 ll.length = some ((List.range ll.length).map fun i => pos (layout cs 0) (.table i)) := by
    have := u16s_wordsAt hat hlt 1 ll.length (by simp; omega)
    simp only [Nat.zero_add, Nat.mul_one] at this
    rw [this]
    congr 1
    apply List.map_congr_left
    intro j hj
    rw [List.mem_range] at hj
    rw [List.getD_eq_getElem?_getD]
    have e : 1 + j = j + 1 := by omega
    rw [e, List.getElem?_cons_succ, List.getElem?_map, List.getElem?_range hj]
    obtain ⟨p, hp, hplt⟩ := G.table j hj
    simp only [Option.map_some, Option.getD_some, pos_of_pos? hp]
    exact w16_of_lt hplt
  -- every Lookup table
  let g : Nat → SpecLookup := fun i =>
    match ll[i]? with
    | some l => expectSL (layout cs 0) i l
    | none => ⟨0, 0, none, []⟩
  have hg : ∀ i l, ll[i]? = some l → g i = expectSL (layout cs 0) i l := by
    intro i l hl
    simp only [g, hl]
  have h2 : ((List.range ll.length).map fun i => pos (layout cs 0) (.table i)).mapM (specLookup b extT) =
      some ((List.range ll.length).map g) := by
    apply mapM_map_some
    intro i hi
    rw [List.mem_range] at hi
    have hl : ll[i]? = some ll[i] := List.getElem?_eq_getElem hi
    obtain ⟨p, hp, _⟩ := G.table i hi
    rw [pos_of_pos? hp, hg i _ hl]
    exact specLookup_table ll cs ext extT b G D hb hsz hT hTlt hE i _ hl
      (hsubs _ (List.mem_of_getElem? hl)) p hp
  refine ⟨(List.range ll.length).map g, ?_, by simp, ?_⟩
  · simp only [specRead, h0, h1, h2]
  · intro i l hl
    have hi : i < ll.length := by
      apply Classical.byContradiction
      intro hn
      rw [List.getElem?_eq_none (by omega)] at hl
      simp at hl
    refine ⟨g i, ?_, ?_⟩
    · rw [List.getElem?_map, List.getElem?_range hi]; rfl
    · rw [hg i l hl]
      refine ⟨rfl, rfl, rfl, by simp [expectSL], ?_⟩
      intro j st hst
      have hj : j < l.subs.length := by
        apply Classical.byContradiction
        intro hn
        rw [List.getElem?_eq_none (by omega)] at hst
        simp at hst
      obtain ⟨ps, hps⟩ := G.sub i l j hl hj
      refine ⟨ps, ?_, ?_⟩
      · simp only [expectSL]
        rw [List.getElem?_map, List.getElem?_range hj]
        simp [pos_of_pos? hps]
      · obtain ⟨r', bpre', bpost', hr', hbr', hl'⟩ := content_at ll ext _ cs b G.sized hb _ ps hps
        simp only [render, hl, hst, Outcome.ok.injEq] at hr'
        have : BytesAt b ps st.bytes := ⟨bpre', bpost', by rw [hr']; exact hbr', hl'⟩
        exact this.take_drop

end

/-! ### grouped chunk lists: one group of chunks per lookup -/

/-- concatenation of one group per lookup, lookup indices starting at `i0` -/
def cat (G : Nat → Lookup → List Chunk) : List Lookup → Nat → List Chunk
  | [], _ => []
  | l :: ls, i => G i l ++ cat G ls (i + 1)

/-- a group builder only produces chunks of its own lookup -/
def TIdx (G : Nat → Lookup → List Chunk) : Prop :=
  ∀ i l c, c ∈ G i l → c.code ≠ .header ∧ c.code.tIdx = i

theorem tableChunks_eq_cat : ∀ (ll : List Lookup) (i0 : Nat), tableChunks ll i0 = cat lookupChunks ll i0
  | [], _ => rfl
  | l :: ls, i => by simp only [tableChunks, cat, tableChunks_eq_cat ls]

theorem mem_cat (G : Nat → Lookup → List Chunk) : ∀ (ll : List Lookup) (i0 : Nat) (c : Chunk),
    c ∈ cat G ll i0 ↔ ∃ k l, ll[k]? = some l ∧ c ∈ G (i0 + k) l
  | [], _, c => by simp [cat]
  | l :: ls, i0, c => by
    simp only [cat, List.mem_append, mem_cat G ls (i0 + 1) c]
    constructor
    · rintro (h | ⟨k, l', hk, hc⟩)
      · exact ⟨0, l, by simp, by simpa using h⟩
      · exact ⟨k + 1, l', by simpa using hk, by rw [show i0 + (k + 1) = i0 + 1 + k by omega]; exact hc⟩
    · rintro ⟨k, l', hk, hc⟩
      cases k with
      | zero =>
        simp only [List.getElem?_cons_zero, Option.some.injEq] at hk
        subst hk
        exact Or.inl (by simpa using hc)
      | succ k =>
        right
        refine ⟨k, l', by simpa using hk, ?_⟩
        have : i0 + 1 + k = i0 + (k + 1) := by omega
        rw [this]; exact hc

theorem mem_codes {cs : List Chunk} {c : Code} : c ∈ codes cs ↔ ∃ x ∈ cs, x.code = c := by
  simp [codes]

/-- a code of lookup `t` can only be found in group `t` -/
theorem mem_codes_cat (G : Nat → Lookup → List Chunk) (hG : TIdx G) (ll : List Lookup) (i0 : Nat)
    (c : Code) (hc : c ≠ .header) :
    c ∈ codes (cat G ll i0) ↔
      ∃ l, i0 ≤ c.tIdx ∧ ll[c.tIdx - i0]? = some l ∧ c ∈ codes (G c.tIdx l) := by
  rw [mem_codes]
  constructor
  · rintro ⟨x, hx, rfl⟩
    rw [mem_cat] at hx
    obtain ⟨k, l, hk, hxl⟩ := hx
    have := (hG _ _ _ hxl).2
    refine ⟨l, by omega, ?_, ?_⟩
    · rw [this]
      have : i0 + k - i0 = k := by omega
      rw [this]; exact hk
    · rw [this]; exact mem_codes.mpr ⟨x, hxl, rfl⟩
  · rintro ⟨l, h1, h2, h3⟩
    obtain ⟨x, hx, hxc⟩ := mem_codes.mp h3
    refine ⟨x, ?_, hxc⟩
    rw [mem_cat]
    refine ⟨c.tIdx - i0, l, h2, ?_⟩
    have : i0 + (c.tIdx - i0) = c.tIdx := by omega
    rw [this]; exact hx

/-! subtable chunks and extension-record chunks of one lookup -/

theorem mem_subChunks (i : Nat) : ∀ (subs : List Sub) (j0 : Nat) (c : Chunk),
    c ∈ subChunks i subs j0 ↔ ∃ k st, subs[k]? = some st ∧ c = ⟨.sub i (j0 + k), st.bytes.length⟩
  | [], _, c => by simp [subChunks]
  | s :: ss, j0, c => by
    simp only [subChunks, List.mem_cons, mem_subChunks i ss (j0 + 1) c]
    constructor
    · rintro (h | ⟨k, st, hk, hc⟩)
      · exact ⟨0, s, by simp, by simpa using h⟩
      · exact ⟨k + 1, st, by simpa using hk, by rw [show j0 + (k + 1) = j0 + 1 + k by omega]; exact hc⟩
    · rintro ⟨k, st, hk, hc⟩
      cases k with
      | zero =>
        simp only [List.getElem?_cons_zero, Option.some.injEq] at hk
        subst hk
        exact Or.inl (by simpa using hc)
      | succ k =>
        right
        refine ⟨k, st, by simpa using hk, ?_⟩
        have : j0 + 1 + k = j0 + (k + 1) := by omega
        rw [this]; exact hc

/-- extension-record chunks replacing the subtables `j0, j0+1, …` of lookup `i` -/
def extChunks (i : Nat) : List Sub → Nat → List Chunk
  | [], _ => []
  | _ :: ss, j => ⟨.ext i j, 8⟩ :: extChunks i ss (j + 1)

theorem mem_extChunks (i : Nat) : ∀ (subs : List Sub) (j0 : Nat) (c : Chunk),
    c ∈ extChunks i subs j0 ↔ ∃ k, k < subs.length ∧ c = ⟨.ext i (j0 + k), 8⟩
  | [], _, c => by simp [extChunks]
  | s :: ss, j0, c => by
    simp only [extChunks, List.mem_cons, mem_extChunks i ss (j0 + 1) c, List.length_cons]
    constructor
    · rintro (h | ⟨k, hk, hc⟩)
      · exact ⟨0, by omega, by simpa using h⟩
      · exact ⟨k + 1, by omega, by rw [show j0 + (k + 1) = j0 + 1 + k by omega]; exact hc⟩
    · rintro ⟨k, hk, hc⟩
      cases k with
      | zero => exact Or.inl (by simpa using hc)
      | succ k =>
        right
        refine ⟨k, by omega, ?_⟩
        have : j0 + 1 + k = j0 + (k + 1) := by omega
        rw [this]; exact hc

theorem tidx_lookupChunks : TIdx lookupChunks := by
  intro i l c hc
  simp only [lookupChunks, List.mem_cons] at hc
  rcases hc with rfl | hc
  · exact ⟨by simp, rfl⟩
  · rw [mem_subChunks] at hc
    obtain ⟨k, st, _, rfl⟩ := hc
    exact ⟨by simp, rfl⟩

/-! ### relative order of chunks -/

/-- wherever the list is laid out, the (first) chunk with code `a` does not start after the one
with code `b` -/
def Before (cs : List Chunk) (a b : Code) : Prop :=
  ∀ s pa pb, pos? (layout cs s) a = some pa → pos? (layout cs s) b = some pb → pa ≤ pb

theorem before_of_not_mem_left {cs : List Chunk} {a b : Code} (h : a ∉ codes cs) : Before cs a b := by
  intro s pa pb ha _
  rw [(pos?_eq_none cs s a).mpr h] at ha
  simp at ha

theorem before_of_not_mem_right {cs : List Chunk} {a b : Code} (h : b ∉ codes cs) : Before cs a b := by
  intro s pa pb _ hb
  rw [(pos?_eq_none cs s b).mpr h] at hb
  simp at hb

theorem before_cons_self (a b : Code) (sz : Nat) (xs : List Chunk) : Before (⟨a, sz⟩ :: xs) a b := by
  intro s pa pb ha hb
  rw [pos?_cons] at ha
  simp only [if_true, Option.some.injEq] at ha
  have := (pos?_bounds _ s b pb hb).1
  omega

theorem before_append {X Y : List Chunk} {a b : Code} (hX : Before X a b) (hY : Before Y a b)
    (hmem : b ∈ codes X → a ∈ codes X) : Before (X ++ Y) a b := by
  intro s pa pb ha hb
  rw [pos?_append] at ha hb
  cases hXa : pos? (layout X s) a with
  | none =>
    cases hXb : pos? (layout X s) b with
    | none =>
      rw [hXa] at ha; rw [hXb] at hb
      exact hY _ pa pb ha hb
    | some pb' =>
      have hbm : b ∈ codes X := by
        apply Classical.byContradiction
        intro hn
        rw [(pos?_eq_none X s b).mpr hn] at hXb
        simp at hXb
      have := (pos?_eq_none X s a).mp hXa
      exact absurd (hmem hbm) this
  | some pa' =>
    rw [hXa] at ha
    simp only [Option.some.injEq] at ha
    have h1 := (pos?_bounds X s a pa' hXa).2
    cases hXb : pos? (layout X s) b with
    | none =>
      rw [hXb] at hb
      have h2 := (pos?_bounds Y _ b pb hb).1
      omega
    | some pb' =>
      rw [hXb] at hb
      simp only [Option.some.injEq] at hb
      have := hX s pa' pb' hXa hXb
      omega

theorem before_cat (G : Nat → Lookup → List Chunk) (a b : Code)
    (hg : ∀ i l, Before (G i l) a b) (hmem : ∀ i l, b ∈ codes (G i l) → a ∈ codes (G i l)) :
    ∀ (ll : List Lookup) (i0 : Nat), Before (cat G ll i0) a b
  | [], _ => before_of_not_mem_left (by simp [cat, codes])
  | l :: ls, i0 => before_append (hg i0 l) (before_cat G a b hg hmem ls (i0 + 1)) (hmem i0 l)

/-! ### the groups `tryReorder` produces -/

/-- what stays in place for lookup `i` -/
def d1g (big : Nat) (rep : List Nat) (i : Nat) (l : Lookup) : List Chunk :=
  if i == big then []
  else if rep.contains i then ⟨.table i, hdrLen l⟩ :: extChunks i l.subs 0
  else lookupChunks i l

/-- the biggest lookup, moved to the end -/
def mg (big : Nat) (i : Nat) (l : Lookup) : List Chunk :=
  if i == big then lookupChunks i l else []

/-- the subtables of the replaced lookups, moved behind everything else -/
def eg (big : Nat) (rep : List Nat) (i : Nat) (l : Lookup) : List Chunk :=
  if i == big then [] else if rep.contains i then subChunks i l.subs 0 else []

theorem distribute_append (big : Nat) (rep : List Nat) (xs ys : List Chunk) :
    distribute big rep (xs ++ ys) =
      ((distribute big rep xs).1 ++ (distribute big rep ys).1,
       (distribute big rep xs).2.1 ++ (distribute big rep ys).2.1,
       (distribute big rep xs).2.2 ++ (distribute big rep ys).2.2) := by
  induction xs with
  | nil => simp [distribute]
  | cons c xs ih =>
    rw [List.cons_append]
    simp only [distribute]
    rw [ih]
    cases c.code <;> dsimp only <;> (repeat' split) <;> simp

theorem distribute_subChunks_big (big : Nat) (rep : List Nat) : ∀ (subs : List Sub) (j0 : Nat),
    distribute big rep (subChunks big subs j0) = ([], subChunks big subs j0, [])
  | [], _ => rfl
  | s :: ss, j0 => by
    simp only [subChunks, distribute, beq_self_eq_true, if_true,
      distribute_subChunks_big big rep ss (j0 + 1)]

theorem distribute_subChunks_rep (big : Nat) (rep : List Nat) (i : Nat) (hi : (i == big) = false)
    (hr : rep.contains i = true) : ∀ (subs : List Sub) (j0 : Nat),
    distribute big rep (subChunks i subs j0) = (extChunks i subs j0, [], subChunks i subs j0)
  | [], _ => rfl
  | s :: ss, j0 => by
    simp only [subChunks, distribute, hi, hr, Bool.false_eq_true, if_false, if_true,
      distribute_subChunks_rep big rep i hi hr ss (j0 + 1), extChunks]

theorem distribute_subChunks_keep (big : Nat) (rep : List Nat) (i : Nat) (hi : (i == big) = false)
    (hr : rep.contains i = false) : ∀ (subs : List Sub) (j0 : Nat),
    distribute big rep (subChunks i subs j0) = (subChunks i subs j0, [], [])
  | [], _ => rfl
  | s :: ss, j0 => by
    simp only [subChunks, distribute, hi, hr, Bool.false_eq_true, if_false,
      distribute_subChunks_keep big rep i hi hr ss (j0 + 1)]

theorem distribute_lookupChunks (big : Nat) (rep : List Nat) (i : Nat) (l : Lookup) :
    distribute big rep (lookupChunks i l) = (d1g big rep i l, mg big i l, eg big rep i l) := by
  simp only [lookupChunks, distribute, d1g, mg, eg]
  by_cases hi : (i == big) = true
  · have : i = big := by simpa using hi
    subst this
    simp [distribute_subChunks_big]
  · have hi' : (i == big) = false := by simpa using hi
    by_cases hr : rep.contains i = true
    · have hm : i ∈ rep := by simpa using hr
      simp [hi', hm, distribute_subChunks_rep big rep i hi' hr]
    · have hr' : rep.contains i = false := by simpa using hr
      have hm : i ∉ rep := by simpa using hr'
      simp [hi', hm, distribute_subChunks_keep big rep i hi' hr']

theorem distribute_cat (big : Nat) (rep : List Nat) : ∀ (ll : List Lookup) (i0 : Nat),
    distribute big rep (cat lookupChunks ll i0) =
      (cat (d1g big rep) ll i0, cat (mg big) ll i0, cat (eg big rep) ll i0)
  | [], _ => rfl
  | l :: ls, i0 => by
    simp only [cat]
    rw [distribute_append, distribute_lookupChunks, distribute_cat big rep ls (i0 + 1)]

/-! ### membership in the groups -/

theorem codes_subChunks (i : Nat) (subs : List Sub) (j0 : Nat) (c : Code) :
    c ∈ codes (subChunks i subs j0) ↔ ∃ k, k < subs.length ∧ c = .sub i (j0 + k) := by
  rw [mem_codes]
  constructor
  · rintro ⟨x, hx, rfl⟩
    rw [mem_subChunks] at hx
    obtain ⟨k, st, hk, rfl⟩ := hx
    refine ⟨k, ?_, rfl⟩
    apply Classical.byContradiction
    intro hn
    rw [List.getElem?_eq_none (by omega)] at hk
    simp at hk
  · rintro ⟨k, hk, rfl⟩
    exact ⟨⟨.sub i (j0 + k), (subs[k]).bytes.length⟩,
      (mem_subChunks i subs j0 _).mpr ⟨k, subs[k], List.getElem?_eq_getElem hk, rfl⟩, rfl⟩

theorem codes_extChunks (i : Nat) (subs : List Sub) (j0 : Nat) (c : Code) :
    c ∈ codes (extChunks i subs j0) ↔ ∃ k, k < subs.length ∧ c = .ext i (j0 + k) := by
  rw [mem_codes]
  constructor
  · rintro ⟨x, hx, rfl⟩
    rw [mem_extChunks] at hx
    obtain ⟨k, hk, rfl⟩ := hx
    exact ⟨k, hk, rfl⟩
  · rintro ⟨k, hk, rfl⟩
    exact ⟨⟨.ext i (j0 + k), 8⟩, (mem_extChunks i subs j0 _).mpr ⟨k, hk, rfl⟩, rfl⟩

theorem codes_lookupChunks (i : Nat) (l : Lookup) (c : Code) :
    c ∈ codes (lookupChunks i l) ↔ c = .table i ∨ ∃ j, j < l.subs.length ∧ c = .sub i j := by
  have := codes_subChunks i l.subs 0 c
  simp only [Nat.zero_add] at this
  simp only [lookupChunks, codes, List.map_cons, List.mem_cons] at this ⊢
  rw [this]

theorem sizeOK_lookupChunks (ll : List Lookup) (i : Nat) (l : Lookup) (hl : ll[i]? = some l)
    (c : Chunk) (hc : c ∈ lookupChunks i l) : SizeOK ll c := by
  simp only [lookupChunks, List.mem_cons] at hc
  rcases hc with rfl | hc
  · exact ⟨l, hl, rfl⟩
  · rw [mem_subChunks] at hc
    obtain ⟨k, st, hk, rfl⟩ := hc
    exact ⟨l, st, hl, by simpa using hk, rfl⟩

theorem before_lookupChunks_table (i i' : Nat) (l : Lookup) (b : Code) :
    Before (lookupChunks i' l) (.table i) b := by
  by_cases h : i' = i
  · subst h; exact before_cons_self _ _ _ _
  · apply before_of_not_mem_left
    rw [codes_lookupChunks]
    rintro (h1 | ⟨j, _, h1⟩)
    · simp only [Code.table.injEq] at h1; exact h h1.symm
    · simp at h1

/-! ### Part 2: the planned layout when no reordering is needed -/

theorem tooLarge_bound : ∀ (cs : List Chunk) (s : Nat), tooLarge cs s = false →
    ∀ (c : Code) (p : Nat), c.isTable = true → pos? (layout cs s) c = some p → p ≤ 0xFFFF
  | [], _, _, c, p, _, h => by simp [pos?_nil] at h
  | x :: xs, s, ht, c, p, hc, h => by
    simp only [tooLarge] at ht
    rw [pos?_cons] at h
    split at ht
    · simp at ht
    · rename_i hcond
      by_cases hx : x.code = c
      · simp only [hx, if_true, Option.some.injEq] at h
        rw [hx, hc] at hcond
        simp at hcond
        omega
      · simp only [hx, if_false] at h
        exact tooLarge_bound xs _ ht c p hc h

theorem header_not_mem_cat (G : Nat → Lookup → List Chunk) (hG : TIdx G) (ll : List Lookup) (i0 : Nat) :
    Code.header ∉ codes (cat G ll i0) := by
  intro h
  obtain ⟨x, hx, hxc⟩ := mem_codes.mp h
  rw [mem_cat] at hx
  obtain ⟨k, l, _, hxl⟩ := hx
  exact (hG _ _ _ hxl).1 hxc

theorem good_chunksOf (ll : List Lookup) (ht : tooLarge (chunksOf ll) 0 = false) :
    Good ll (chunksOf ll) := by
  have hcs : chunksOf ll = ⟨.header, 2 + 2 * ll.length⟩ :: cat lookupChunks ll 0 := by
    simp [chunksOf, tableChunks_eq_cat]
  have hmem : ∀ c : Code, c ≠ .header → (c ∈ codes (chunksOf ll) ↔
      ∃ l, ll[c.tIdx]? = some l ∧ c ∈ codes (lookupChunks c.tIdx l)) := by
    intro c hc
    rw [hcs]
    simp only [codes, List.map_cons, List.mem_cons]
    have := mem_codes_cat lookupChunks tidx_lookupChunks ll 0 c hc
    simp only [Nat.zero_le, Nat.sub_zero, true_and, codes] at this
    rw [this]
    constructor
    · rintro (h | h)
      · exact absurd h hc
      · exact h
    · exact Or.inr
  have hnoext : ∀ i j, Code.ext i j ∉ codes (chunksOf ll) := by
    intro i j h
    rw [hmem _ (by simp)] at h
    obtain ⟨l, _, h⟩ := h
    rw [codes_lookupChunks] at h
    rcases h with h | ⟨_, _, h⟩ <;> simp at h
  have hextnone : ∀ i j, pos? (layout (chunksOf ll) 0) (.ext i j) = none :=
    fun i j => (pos?_eq_none _ _ _).mpr (hnoext i j)
  refine ⟨?_, ?_, ?_, ?_, ?_, ?_, ?_, ?_, ?_⟩
  · intro c hc
    rw [hcs, List.mem_cons] at hc
    rcases hc with rfl | hc
    · exact rfl
    · rw [mem_cat] at hc
      obtain ⟨k, l, hk, hcl⟩ := hc
      rw [Nat.zero_add] at hcl
      exact sizeOK_lookupChunks ll k l hk c hcl
  · rw [hcs, pos?_cons]; simp
  · intro i hi
    have hl : ll[i]? = some ll[i] := List.getElem?_eq_getElem hi
    obtain ⟨p, hp⟩ := pos?_isSome (chunksOf ll) 0 (.table i)
      ((hmem _ (by simp)).mpr ⟨ll[i], hl, (codes_lookupChunks _ _ _).mpr (Or.inl rfl)⟩)
    exact ⟨p, hp, by have := tooLarge_bound _ _ ht (.table i) p rfl hp; omega⟩
  · intro i l j hl hj
    exact pos?_isSome (chunksOf ll) 0 (.sub i j)
      ((hmem _ (by simp)).mpr ⟨l, hl, (codes_lookupChunks _ _ _).mpr (Or.inr ⟨j, hj, rfl⟩)⟩)
  · intro i l _ ⟨p, hp⟩
    rw [hextnone] at hp
    simp at hp
  · intro i _ j
    exact hextnone i j
  · intro i j pt ps hpt hps
    have hB : Before (chunksOf ll) (.table i) (.sub i j) := by
      rw [hcs]
      apply @before_append [⟨Code.header, 2 + 2 * ll.length⟩] _ _ _
      · exact before_of_not_mem_left (by simp [codes])
      · apply before_cat
        · intro i' l; exact before_lookupChunks_table i i' l _
        · intro i' l h
          rw [codes_lookupChunks] at h ⊢
          rcases h with h | ⟨j', _, h⟩
          · simp at h
          · simp only [Code.sub.injEq] at h
            left; rw [h.1]
      · simp [codes]
    exact hB 0 pt ps hpt hps
  · intro i j pt pe _ hpe
    rw [hextnone] at hpe
    simp at hpe
  · intro i j pe ps hpe _
    rw [hextnone] at hpe
    simp at hpe

/-! ### the encoder -/

theorem encode_ok (ll : List Lookup) (b : Bytes) (h : encode ll = .ok b) :
    ll.length < 16384 ∧ (∀ l ∈ ll, l.subs.length < 16384) ∧
    ∃ cs, (if tooLarge (chunksOf ll) 0 then tryReorder ll (chunksOf ll) else .ok (chunksOf ll)) = .ok cs ∧
      renderAll ll (extLookupType ll) (layout cs 0) cs = .ok b := by
  unfold encode at h
  split at h
  · simp at h
  · rename_i h1
    split at h
    · simp at h
    · rename_i h2
      refine ⟨by omega, ?_, ?_⟩
      · intro l hl
        simp only [List.any_eq_true, decide_eq_true_eq, not_exists, not_and] at h2
        have := h2 l hl
        omega
      · dsimp only at h
        cases hc : (if tooLarge (chunksOf ll) 0 = true then tryReorder ll (chunksOf ll)
            else Outcome.ok (chunksOf ll)) with
        | ok cs => rw [hc] at h; exact ⟨cs, rfl, h⟩
        | err e => rw [hc] at h; simp at h
        | panic s => rw [hc] at h; simp at h

/-- **Part 2 assembled**: lookup lists that need no reordering -/
theorem recovered_noReorder (ll : List Lookup) (D : LLDom ll) (extT : Nat) (hTlt : extT < 65536)
    (hT : ∀ l ∈ ll, l.type ≠ extT) (hsz : totalSize (chunksOf ll) < 4294967296)
    (ht : tooLarge (chunksOf ll) 0 = false) (b : Bytes) (h : encode ll = .ok b) :
    Recovered b extT ll := by
  obtain ⟨h1, h2, cs, hcs, hr⟩ := encode_ok ll b h
  rw [ht] at hcs
  simp only [Bool.false_eq_true, if_false, Outcome.ok.injEq] at hcs
  subst hcs
  have G := good_chunksOf ll ht
  apply recovered_of_good ll (chunksOf ll) (extLookupType ll) extT b G D hr hsz hT hTlt
  · intro i p hp
    have := G.ext_none i
    -- no extension chunk exists in the planned layout
    have hnone : pos? (layout (chunksOf ll) 0) (.ext i 0) = none := by
      apply Classical.byContradiction
      intro hn
      cases hq : pos? (layout (chunksOf ll) 0) (.ext i 0) with
      | none => exact hn hq
      | some q =>
        obtain ⟨pre, x, post, hx1, hx2, _⟩ := pos?_split _ 0 _ q hq
        have hxm : x ∈ chunksOf ll := by rw [hx1]; simp
        simp only [chunksOf, List.mem_cons] at hxm
        rcases hxm with rfl | hxm
        · simp at hx2
        · rw [tableChunks_eq_cat, mem_cat] at hxm
          obtain ⟨k, l, _, hxl⟩ := hxm
          have := (codes_lookupChunks _ l x.code).mp (mem_codes.mpr ⟨x, hxl, rfl⟩)
          rw [hx2] at this
          rcases this with h | ⟨_, _, h⟩ <;> simp at h
    rw [hnone] at hp
    simp at hp
  · omega
  · intro l hl; have := h2 l hl; omega

/-! ### Part 3: the reordered layout -/

theorem codes_d1g (big : Nat) (rep : List Nat) (i : Nat) (l : Lookup) (c : Code) :
    c ∈ codes (d1g big rep i l) ↔ i ≠ big ∧ (c = .table i ∨
      (i ∈ rep ∧ ∃ j, j < l.subs.length ∧ c = .ext i j) ∨
      (i ∉ rep ∧ ∃ j, j < l.subs.length ∧ c = .sub i j)) := by
  unfold d1g
  by_cases hi : i = big
  · simp [hi, codes]
  · have hi' : (i == big) = false := by simpa using hi
    by_cases hr : i ∈ rep
    · have hr' : rep.contains i = true := by simpa using hr
      have := codes_extChunks i l.subs 0 c
      simp only [Nat.zero_add] at this
      simp only [hi', hr', Bool.false_eq_true, if_false, if_true, codes, List.map_cons, List.mem_cons] at this ⊢
      rw [this]
      simp [hi, hr]
    · have hr' : rep.contains i = false := by simpa using hr
      simp only [hi', hr', Bool.false_eq_true, if_false]
      rw [codes_lookupChunks]
      simp [hi, hr]

theorem codes_mg (big : Nat) (i : Nat) (l : Lookup) (c : Code) :
    c ∈ codes (mg big i l) ↔ i = big ∧ (c = .table i ∨ ∃ j, j < l.subs.length ∧ c = .sub i j) := by
  unfold mg
  by_cases hi : i = big
  · subst hi; simp [codes_lookupChunks]
  · have hi' : (i == big) = false := by simpa using hi
    simp [hi', hi, codes]

theorem codes_eg (big : Nat) (rep : List Nat) (i : Nat) (l : Lookup) (c : Code) :
    c ∈ codes (eg big rep i l) ↔ i ≠ big ∧ i ∈ rep ∧ ∃ j, j < l.subs.length ∧ c = .sub i j := by
  unfold eg
  by_cases hi : i = big
  · simp [hi, codes]
  · have hi' : (i == big) = false := by simpa using hi
    by_cases hr : i ∈ rep
    · have hr' : rep.contains i = true := by simpa using hr
      have := codes_subChunks i l.subs 0 c
      simp only [Nat.zero_add] at this
      simp only [hi', hr', Bool.false_eq_true, if_false, if_true]
      rw [this]
      simp [hi, hr]
    · have hr' : rep.contains i = false := by simpa using hr
      simp [hi', hi, hr, codes]

theorem tidx_of_codes (G : Nat → Lookup → List Chunk)
    (h : ∀ i l c, c ∈ codes (G i l) → c ≠ .header ∧ c.tIdx = i) : TIdx G := by
  intro i l x hx
  exact h i l x.code (mem_codes.mpr ⟨x, hx, rfl⟩)

theorem tidx_d1g (big : Nat) (rep : List Nat) : TIdx (d1g big rep) := by
  apply tidx_of_codes
  intro i l c hc
  rw [codes_d1g] at hc
  rcases hc.2 with rfl | ⟨_, j, _, rfl⟩ | ⟨_, j, _, rfl⟩ <;> exact ⟨by simp, rfl⟩

theorem tidx_mg (big : Nat) : TIdx (mg big) := by
  apply tidx_of_codes
  intro i l c hc
  rw [codes_mg] at hc
  rcases hc.2 with rfl | ⟨j, _, rfl⟩ <;> exact ⟨by simp, rfl⟩

theorem tidx_eg (big : Nat) (rep : List Nat) : TIdx (eg big rep) := by
  apply tidx_of_codes
  intro i l c hc
  rw [codes_eg] at hc
  obtain ⟨_, _, j, _, rfl⟩ := hc
  exact ⟨by simp, rfl⟩

theorem codes_append (xs ys : List Chunk) (c : Code) :
    c ∈ codes (xs ++ ys) ↔ c ∈ codes xs ∨ c ∈ codes ys := by
  simp [codes]

/-- if `a` occurs in the front part and `b` does not, `a` starts before `b` -/
theorem le_of_split (X Y : List Chunk) (a b : Code) (ha : a ∈ codes X) (hb : b ∉ codes X)
    (s pa pb : Nat) (hpa : pos? (layout (X ++ Y) s) a = some pa)
    (hpb : pos? (layout (X ++ Y) s) b = some pb) : pa ≤ pb := by
  rw [pos?_append] at hpa hpb
  obtain ⟨qa, hqa⟩ := pos?_isSome X s a ha
  rw [hqa] at hpa
  rw [(pos?_eq_none X s b).mpr hb] at hpb
  simp only [Option.some.injEq] at hpa
  have h1 := (pos?_bounds X s a qa hqa).2
  have h2 := (pos?_bounds Y _ b pb hpb).1
  omega

theorem pos?_cat_mg (big : Nat) : ∀ (ll : List Lookup) (i0 s : Nat), i0 ≤ big → big - i0 < ll.length →
    pos? (layout (cat (mg big) ll i0) s) (.table big) = some s
  | [], _, _, _, h => by simp at h
  | l :: ls, i0, s, h1, h2 => by
    simp only [cat]
    rw [pos?_append]
    by_cases hi : i0 = big
    · subst hi
      have : mg i0 i0 l = lookupChunks i0 l := by simp [mg]
      rw [this]
      simp only [lookupChunks]
      rw [pos?_cons]
      simp
    · have hi' : (i0 == big) = false := by simpa using hi
      have : mg big i0 l = [] := by simp [mg, hi']
      rw [this, pos?_nil]
      simp only [totalSize_nil, Nat.add_zero]
      exact pos?_cat_mg big ls (i0 + 1) s (by omega) (by simp only [List.length_cons] at h2; omega)

theorem sizeOK_extChunks (ll : List Lookup) (i : Nat) (l : Lookup) (hl : ll[i]? = some l)
    (c : Chunk) (hc : c ∈ extChunks i l.subs 0) : SizeOK ll c := by
  rw [mem_extChunks] at hc
  obtain ⟨k, hk, rfl⟩ := hc
  exact ⟨rfl, l, hl, by omega⟩

/-- the chunk list `tryReorder` returns for the biggest lookup `big` and the replaced lookups `rep` -/
def reordered (ll : List Lookup) (big : Nat) (rep : List Nat) : List Chunk :=
  ⟨.header, 2 + 2 * ll.length⟩ ::
    (cat (d1g big rep) ll 0 ++ cat (mg big) ll 0 ++ cat (eg big rep) ll 0)

theorem good_reordered (ll : List Lookup) (big : Nat) (rep : List Nat) (hbig : big < ll.length)
    (heff : totalSize (⟨.header, 2 + 2 * ll.length⟩ :: cat (d1g big rep) ll 0) ≤ 0xFFFF) :
    Good ll (reordered ll big rep) := by
  -- membership of codes in the three parts
  have hA : ∀ c : Code, c ≠ .header → (c ∈ codes (cat (d1g big rep) ll 0) ↔
      ∃ l, ll[c.tIdx]? = some l ∧ c ∈ codes (d1g big rep c.tIdx l)) := by
    intro c hc
    have := mem_codes_cat (d1g big rep) (tidx_d1g big rep) ll 0 c hc
    simpa using this
  have hB : ∀ c : Code, c ≠ .header → (c ∈ codes (cat (mg big) ll 0) ↔
      ∃ l, ll[c.tIdx]? = some l ∧ c ∈ codes (mg big c.tIdx l)) := by
    intro c hc
    have := mem_codes_cat (mg big) (tidx_mg big) ll 0 c hc
    simpa using this
  have hC : ∀ c : Code, c ≠ .header → (c ∈ codes (cat (eg big rep) ll 0) ↔
      ∃ l, ll[c.tIdx]? = some l ∧ c ∈ codes (eg big rep c.tIdx l)) := by
    intro c hc
    have := mem_codes_cat (eg big rep) (tidx_eg big rep) ll 0 c hc
    simpa using this
  have hcs : ∀ c : Code, c ≠ .header → (c ∈ codes (reordered ll big rep) ↔
      c ∈ codes (cat (d1g big rep) ll 0) ∨ c ∈ codes (cat (mg big) ll 0) ∨
        c ∈ codes (cat (eg big rep) ll 0)) := by
    intro c hc
    unfold reordered
    simp only [codes, List.map_cons, List.mem_cons, List.map_append, List.mem_append]
    constructor
    · rintro (h | (h | h) | h)
      · exact absurd h hc
      · exact Or.inl h
      · exact Or.inr (Or.inl h)
      · exact Or.inr (Or.inr h)
    · rintro (h | h | h)
      · exact Or.inr (Or.inl (Or.inl h))
      · exact Or.inr (Or.inl (Or.inr h))
      · exact Or.inr (Or.inr h)
  have hpres : ∀ c : Code, c ∈ codes (reordered ll big rep) →
      ∃ p, pos? (layout (reordered ll big rep) 0) c = some p := fun c h => pos?_isSome _ 0 c h
  have habs : ∀ c : Code, pos? (layout (reordered ll big rep) 0) c = none →
      c ∉ codes (reordered ll big rep) := fun c h => (pos?_eq_none _ 0 c).mp h
  -- extension records exist exactly for the subtables of replaced lookups
  have hext : ∀ i j, Code.ext i j ∈ codes (reordered ll big rep) ↔
      i ≠ big ∧ i ∈ rep ∧ ∃ l, ll[i]? = some l ∧ j < l.subs.length := by
    intro i j
    rw [hcs _ (by simp), hA _ (by simp), hB _ (by simp), hC _ (by simp)]
    simp only [Code.tIdx, codes_d1g, codes_mg, codes_eg]
    constructor
    · rintro (⟨l, hl, h1, h2⟩ | ⟨l, hl, h1, h2⟩ | ⟨l, hl, h1, h2, j', _, h3⟩)
      · rcases h2 with h2 | ⟨hr, j', hj', h3⟩ | ⟨_, j', _, h3⟩
        · simp at h2
        · simp only [Code.ext.injEq, true_and] at h3
          subst h3
          exact ⟨h1, hr, l, hl, hj'⟩
        · simp at h3
      · rcases h2 with h2 | ⟨j', _, h3⟩ <;> simp at *
      · simp at h3
    · rintro ⟨h1, hr, l, hl, hj⟩
      exact Or.inl ⟨l, hl, h1, Or.inr (Or.inl ⟨hr, j, hj, rfl⟩)⟩
  -- the split (header + kept part) ++ (moved + extension targets)
  have hsplit : reordered ll big rep =
      (⟨.header, 2 + 2 * ll.length⟩ :: cat (d1g big rep) ll 0) ++
        (cat (mg big) ll 0 ++ cat (eg big rep) ll 0) := by
    simp [reordered]
  have hsplit2 : reordered ll big rep =
      (⟨.header, 2 + 2 * ll.length⟩ :: (cat (d1g big rep) ll 0 ++ cat (mg big) ll 0)) ++
        cat (eg big rep) ll 0 := by
    simp [reordered]
  refine ⟨?_, ?_, ?_, ?_, ?_, ?_, ?_, ?_, ?_⟩
  · -- sizes
    intro c hc
    unfold reordered at hc
    simp only [List.mem_cons, List.mem_append] at hc
    rcases hc with rfl | (hc | hc) | hc
    · exact rfl
    · rw [mem_cat] at hc
      obtain ⟨k, l, hk, hcl⟩ := hc
      rw [Nat.zero_add] at hcl
      unfold d1g at hcl
      split at hcl
      · simp at hcl
      · split at hcl
        · rw [List.mem_cons] at hcl
          rcases hcl with rfl | hcl
          · exact ⟨l, hk, rfl⟩
          · exact sizeOK_extChunks ll k l hk c hcl
        · exact sizeOK_lookupChunks ll k l hk c hcl
    · rw [mem_cat] at hc
      obtain ⟨k, l, hk, hcl⟩ := hc
      rw [Nat.zero_add] at hcl
      unfold mg at hcl
      split at hcl
      · exact sizeOK_lookupChunks ll k l hk c hcl
      · simp at hcl
    · rw [mem_cat] at hc
      obtain ⟨k, l, hk, hcl⟩ := hc
      rw [Nat.zero_add] at hcl
      unfold eg at hcl
      split at hcl
      · simp at hcl
      · split at hcl
        · exact sizeOK_lookupChunks ll k l hk c (by simp [lookupChunks, hcl])
        · simp at hcl
  · unfold reordered; rw [pos?_cons]; simp
  · -- lookup tables are present, at 16-bit positions
    intro i hi
    have hl : ll[i]? = some ll[i] := List.getElem?_eq_getElem hi
    by_cases hib : i = big
    · subst hib
      have hnot : Code.table i ∉ codes (⟨.header, 2 + 2 * ll.length⟩ :: cat (d1g i rep) ll 0) := by
        simp only [codes, List.map_cons, List.mem_cons]
        rintro (h | h)
        · simp at h
        · have := (hA (.table i) (by simp)).mp h
          obtain ⟨l, _, h2⟩ := this
          rw [codes_d1g] at h2
          exact h2.1 rfl
      refine ⟨totalSize (⟨.header, 2 + 2 * ll.length⟩ :: cat (d1g i rep) ll 0), ?_, by omega⟩
      rw [hsplit, pos?_append, (pos?_eq_none _ 0 _).mpr hnot]
      dsimp only
      rw [pos?_append, pos?_cat_mg i ll 0 _ (Nat.zero_le _) (by omega)]
      simp
    · have hin : Code.table i ∈ codes (⟨.header, 2 + 2 * ll.length⟩ :: cat (d1g big rep) ll 0) := by
        simp only [codes, List.map_cons, List.mem_cons]
        right
        exact (hA (.table i) (by simp)).mpr ⟨ll[i], hl, (codes_d1g _ _ _ _ _).mpr ⟨hib, Or.inl rfl⟩⟩
      obtain ⟨q, hq⟩ := pos?_isSome _ 0 _ hin
      refine ⟨q, ?_, ?_⟩
      · rw [hsplit, pos?_append, hq]
      · have := (pos?_bounds _ 0 _ q hq).2
        omega
  · -- subtables are present
    intro i l j hl hj
    apply hpres
    rw [hcs _ (by simp), hA _ (by simp), hB _ (by simp), hC _ (by simp)]
    simp only [Code.tIdx, codes_d1g, codes_mg, codes_eg]
    by_cases hib : i = big
    · exact Or.inr (Or.inl ⟨l, hl, hib, Or.inr ⟨j, hj, rfl⟩⟩)
    · by_cases hr : i ∈ rep
      · exact Or.inr (Or.inr ⟨l, hl, hib, hr, j, hj, rfl⟩)
      · exact Or.inl ⟨l, hl, hib, Or.inr (Or.inr ⟨hr, j, hj, rfl⟩)⟩
  · -- a replaced lookup has an extension record for every subtable
    intro i l hl ⟨p, hp⟩ j hj
    apply hpres
    have h0 : Code.ext i 0 ∈ codes (reordered ll big rep) := by
      apply Classical.byContradiction
      intro hn
      rw [(pos?_eq_none _ 0 _).mpr hn] at hp
      simp at hp
    obtain ⟨h1, h2, _⟩ := (hext i 0).mp h0
    exact (hext i j).mpr ⟨h1, h2, l, hl, hj⟩
  · -- an unreplaced lookup has none
    intro i h0 j
    rw [pos?_eq_none]
    intro hj
    obtain ⟨h1, h2, l, hl, hlt⟩ := (hext i j).mp hj
    exact habs _ h0 ((hext i 0).mpr ⟨h1, h2, l, hl, by omega⟩)
  · -- a lookup table precedes its subtables
    intro i j pt ps hpt hps
    have hB' : Before (reordered ll big rep) (.table i) (.sub i j) := by
      rw [hsplit2]
      apply before_append
      · apply @before_append [⟨Code.header, 2 + 2 * ll.length⟩]
        · exact before_of_not_mem_left (by simp [codes])
        · apply before_append
          · apply before_cat
            · intro i' l
              unfold d1g
              split
              · exact before_of_not_mem_left (by simp [codes])
              · split
                · by_cases h : i' = i
                  · subst h; exact before_cons_self _ _ _ _
                  · apply before_of_not_mem_left
                    simp only [codes, List.map_cons, List.mem_cons]
                    rintro (h1 | h1)
                    · simp only [Code.table.injEq] at h1; exact h h1.symm
                    · have := (codes_extChunks i' l.subs 0 _).mp h1
                      obtain ⟨_, _, h2⟩ := this
                      simp at h2
                · exact before_lookupChunks_table i i' l _
            · intro i' l h
              rw [codes_d1g] at h ⊢
              obtain ⟨h1, h2⟩ := h
              rcases h2 with h2 | ⟨_, _, _, h2⟩ | ⟨_, _, _, h2⟩
              · simp at h2
              · simp at h2
              · simp only [Code.sub.injEq] at h2
                exact ⟨h1, Or.inl (by rw [h2.1])⟩
          · apply before_cat
            · intro i' l
              unfold mg
              split
              · exact before_lookupChunks_table i i' l _
              · exact before_of_not_mem_left (by simp [codes])
            · intro i' l h
              rw [codes_mg] at h ⊢
              obtain ⟨h1, h2⟩ := h
              rcases h2 with h2 | ⟨_, _, h2⟩
              · simp at h2
              · simp only [Code.sub.injEq] at h2
                exact ⟨h1, Or.inl (by rw [h2.1])⟩
          · intro h
            have := (hA _ (by simp)).mp h
            obtain ⟨l, hl, h2⟩ := this
            simp only [Code.tIdx] at hl h2
            apply (hA _ (by simp)).mpr
            refine ⟨l, hl, ?_⟩
            simp only [Code.tIdx]
            rw [codes_d1g] at h2 ⊢
            exact ⟨h2.1, Or.inl rfl⟩
        · simp [codes]
      · apply before_of_not_mem_left
        intro h
        have := (hC _ (by simp)).mp h
        obtain ⟨l, _, h2⟩ := this
        rw [codes_eg] at h2
        obtain ⟨_, _, _, _, h3⟩ := h2
        simp at h3
      · intro h
        simp only [codes, List.map_cons, List.mem_cons, List.map_append, List.mem_append] at h ⊢
        rcases h with h | h | h
        · simp at h
        · right; left
          have := (hA (.sub i j) (by simp)).mp h
          obtain ⟨l, hl, h2⟩ := this
          simp only [Code.tIdx] at hl h2
          apply (hA (.table i) (by simp)).mpr
          refine ⟨l, hl, ?_⟩
          simp only [Code.tIdx]
          rw [codes_d1g] at h2 ⊢
          exact ⟨h2.1, Or.inl rfl⟩
        · right; right
          have := (hB (.sub i j) (by simp)).mp h
          obtain ⟨l, hl, h2⟩ := this
          simp only [Code.tIdx] at hl h2
          apply (hB (.table i) (by simp)).mpr
          refine ⟨l, hl, ?_⟩
          simp only [Code.tIdx]
          rw [codes_mg] at h2 ⊢
          exact ⟨h2.1, Or.inl rfl⟩
    exact hB' 0 pt ps hpt hps
  · -- a lookup table precedes its extension records
    intro i j pt pe hpt hpe
    have hje : Code.ext i j ∈ codes (reordered ll big rep) := by
      apply Classical.byContradiction
      intro hn
      rw [(pos?_eq_none _ 0 _).mpr hn] at hpe
      simp at hpe
    obtain ⟨h1, h2, l, hl, hlt⟩ := (hext i j).mp hje
    have hB' : Before (cat (d1g big rep) ll 0) (.table i) (.ext i j) := by
      apply before_cat
      · intro i' l'
        unfold d1g
        split
        · exact before_of_not_mem_left (by simp [codes])
        · split
          · by_cases h : i' = i
            · subst h; exact before_cons_self _ _ _ _
            · apply before_of_not_mem_right
              simp only [codes, List.map_cons, List.mem_cons]
              rintro (h3 | h3)
              · simp at h3
              · have := (codes_extChunks i' l'.subs 0 _).mp h3
                obtain ⟨_, _, h4⟩ := this
                simp only [Code.ext.injEq] at h4
                exact h h4.1.symm
          · apply before_of_not_mem_right
            rw [codes_lookupChunks]
            rintro (h3 | ⟨_, _, h3⟩) <;> simp at h3
      · intro i' l' h
        rw [codes_d1g] at h ⊢
        obtain ⟨h3, h4⟩ := h
        rcases h4 with h4 | ⟨_, _, _, h4⟩ | ⟨_, _, _, h4⟩
        · simp at h4
        · simp only [Code.ext.injEq] at h4
          exact ⟨h3, Or.inl (by rw [h4.1])⟩
        · simp at h4
    -- both are in the kept part
    have hte : Code.ext i j ∈ codes (cat (d1g big rep) ll 0) :=
      (hA _ (by simp)).mpr ⟨l, hl, (codes_d1g _ _ _ _ _).mpr ⟨h1, Or.inr (Or.inl ⟨h2, j, hlt, rfl⟩)⟩⟩
    have htt : Code.table i ∈ codes (cat (d1g big rep) ll 0) :=
      (hA _ (by simp)).mpr ⟨l, hl, (codes_d1g _ _ _ _ _).mpr ⟨h1, Or.inl rfl⟩⟩
    unfold reordered at hpt hpe
    rw [pos?_cons] at hpt hpe
    simp only [reduceCtorEq, if_false] at hpt hpe
    rw [List.append_assoc, pos?_append] at hpt hpe
    obtain ⟨qt, hqt⟩ := pos?_isSome _ (0 + (2 + 2 * ll.length)) _ htt
    obtain ⟨qe, hqe⟩ := pos?_isSome _ (0 + (2 + 2 * ll.length)) _ hte
    rw [hqt] at hpt
    rw [hqe] at hpe
    simp only [Option.some.injEq] at hpt hpe
    have := hB' _ qt qe hqt hqe
    omega
  · -- an extension record precedes the subtable it points to
    intro i j pe ps hpe hps
    have hje : Code.ext i j ∈ codes (reordered ll big rep) := by
      apply Classical.byContradiction
      intro hn
      rw [(pos?_eq_none _ 0 _).mpr hn] at hpe
      simp at hpe
    obtain ⟨h1, h2, l, hl, hlt⟩ := (hext i j).mp hje
    rw [hsplit2] at hpe hps
    refine le_of_split _ _ (.ext i j) (.sub i j) ?_ ?_ 0 pe ps hpe hps
    · simp only [codes, List.map_cons, List.mem_cons, List.map_append, List.mem_append]
      right; left
      exact (hA _ (by simp)).mpr ⟨l, hl, (codes_d1g _ _ _ _ _).mpr ⟨h1, Or.inr (Or.inl ⟨h2, j, hlt, rfl⟩)⟩⟩
    · simp only [codes, List.map_cons, List.mem_cons, List.map_append, List.mem_append]
      rintro (h | h | h)
      · simp at h
      · have := (hA (.sub i j) (by simp)).mp h
        obtain ⟨l', _, h3⟩ := this
        rw [codes_d1g] at h3
        rcases h3.2 with h4 | ⟨_, _, _, h4⟩ | ⟨h4, _⟩
        · simp at h4
        · simp at h4
        · exact h4 h2
      · have := (hB (.sub i j) (by simp)).mp h
        obtain ⟨l', _, h3⟩ := this
        rw [codes_mg] at h3
        exact h1 h3.1

/-! ### the arithmetic of `tryReorder`: the kept part ends where `lastPos` says -/

theorem totalSize_extChunks (i : Nat) : ∀ (subs : List Sub) (j0 : Nat),
    totalSize (extChunks i subs j0) = 8 * subs.length
  | [], _ => rfl
  | _ :: ss, j0 => by
    simp only [extChunks, totalSize_cons, totalSize_extChunks i ss (j0 + 1), List.length_cons]
    omega

/-- size of lookup `i` after replacing its subtables by extension records -/
def nsz (l : Lookup) : Nat := hdrLen l + 8 * l.subs.length

theorem totalSize_d1g_big (big : Nat) (rep : List Nat) (l : Lookup) : totalSize (d1g big rep big l) = 0 := by
  simp [d1g, totalSize_nil]

theorem totalSize_d1g_rep (big : Nat) (rep : List Nat) (i : Nat) (l : Lookup) (hi : i ≠ big)
    (hr : i ∈ rep) : totalSize (d1g big rep i l) = nsz l := by
  have hi' : (i == big) = false := by simpa using hi
  have hr' : rep.contains i = true := by simpa using hr
  simp only [d1g, hi', hr', Bool.false_eq_true, if_false, if_true, totalSize_cons, totalSize_extChunks, nsz]

theorem totalSize_d1g_keep (big : Nat) (rep : List Nat) (i : Nat) (l : Lookup) (hi : i ≠ big)
    (hr : i ∉ rep) : totalSize (d1g big rep i l) = totalSize (lookupChunks i l) := by
  have hi' : (i == big) = false := by simpa using hi
  have hr' : rep.contains i = false := by simpa using hr
  simp only [d1g, hi', hr', Bool.false_eq_true, if_false]

theorem d1g_cons_ne (big t : Nat) (rep : List Nat) (i : Nat) (l : Lookup) (h : i ≠ t) :
    d1g big (t :: rep) i l = d1g big rep i l := by
  have : (t :: rep).contains i = rep.contains i := by
    simp only [List.contains_cons]
    have : (i == t) = false := by simpa using h
    simp [this]
  simp only [d1g, this]

theorem totalSize_cat_cons (G : Nat → Lookup → List Chunk) (l : Lookup) (ls : List Lookup) (i0 : Nat) :
    totalSize (cat G (l :: ls) i0) = totalSize (G i0 l) + totalSize (cat G ls (i0 + 1)) := by
  simp only [cat, totalSize_append]

/-- all lookups with index `< i0` are irrelevant for the groups from `i0` on -/
theorem cat_d1g_cons_lt (big t : Nat) (rep : List Nat) : ∀ (ll : List Lookup) (i0 : Nat), t < i0 →
    cat (d1g big (t :: rep)) ll i0 = cat (d1g big rep) ll i0
  | [], _, _ => rfl
  | l :: ls, i0, h => by
    simp only [cat]
    rw [d1g_cons_ne big t rep i0 l (by omega), cat_d1g_cons_lt big t rep ls (i0 + 1) (by omega)]

/-- (E0) without replacements, the kept part is everything but the biggest lookup -/
theorem eff_init (big : Nat) : ∀ (ll : List Lookup) (i0 : Nat) (l : Lookup), i0 ≤ big →
    ll[big - i0]? = some l →
    totalSize (cat (d1g big []) ll i0) + totalSize (lookupChunks big l) =
      totalSize (cat lookupChunks ll i0)
  | [], _, _, _, h => by simp at h
  | l' :: ls, i0, l, h1, h2 => by
    rw [totalSize_cat_cons, totalSize_cat_cons]
    by_cases hi : i0 = big
    · subst hi
      simp only [Nat.sub_self, List.getElem?_cons_zero, Option.some.injEq] at h2
      subst h2
      rw [totalSize_d1g_big]
      -- the later groups are all kept
      have : ∀ (ls : List Lookup) (j0 : Nat), i0 < j0 →
          totalSize (cat (d1g i0 []) ls j0) = totalSize (cat lookupChunks ls j0) := by
        intro ls
        induction ls with
        | nil => intro _ _; rfl
        | cons a as ih =>
          intro j0 hj
          rw [totalSize_cat_cons, totalSize_cat_cons, ih (j0 + 1) (by omega),
            totalSize_d1g_keep i0 [] j0 a (by omega) (by simp)]
      rw [this ls (i0 + 1) (by omega)]
      omega
    · have hlt : i0 < big := by omega
      have e : big - i0 = (big - (i0 + 1)) + 1 := by omega
      rw [e, List.getElem?_cons_succ] at h2
      have ih := eff_init big ls (i0 + 1) l (by omega) h2
      rw [totalSize_d1g_keep big [] i0 l' hi (by simp)]
      omega

/-- (E1) replacing one more lookup shrinks the kept part by the difference of its two sizes -/
theorem eff_step (big t : Nat) (rep : List Nat) (htb : t ≠ big) (htr : t ∉ rep) :
    ∀ (ll : List Lookup) (i0 : Nat) (l : Lookup), i0 ≤ t → ll[t - i0]? = some l →
    nsz l ≤ totalSize (lookupChunks t l) →
    totalSize (cat (d1g big (t :: rep)) ll i0) + (totalSize (lookupChunks t l) - nsz l) =
      totalSize (cat (d1g big rep) ll i0)
  | [], _, _, _, h, _ => by simp at h
  | l' :: ls, i0, l, h1, h2, h3 => by
    rw [totalSize_cat_cons, totalSize_cat_cons]
    by_cases hi : i0 = t
    · subst hi
      simp only [Nat.sub_self, List.getElem?_cons_zero, Option.some.injEq] at h2
      subst h2
      rw [cat_d1g_cons_lt big i0 rep ls (i0 + 1) (by omega),
        totalSize_d1g_rep big (i0 :: rep) i0 l' htb (by simp),
        totalSize_d1g_keep big rep i0 l' htb htr]
      omega
    · have e : t - i0 = (t - (i0 + 1)) + 1 := by omega
      rw [e, List.getElem?_cons_succ] at h2
      have ih := eff_step big t rep htb htr ls (i0 + 1) l (by omega) h2 h3
      rw [d1g_cons_ne big t rep i0 l' hi]
      omega

/-- the chunks of one lookup, selected from the grouped list by their table index -/
theorem filter_cat (G : Nat → Lookup → List Chunk) (hG : TIdx G) (t : Nat) :
    ∀ (ll : List Lookup) (i0 : Nat),
    totalSize ((cat G ll i0).filter fun c => c.code != .header && c.code.tIdx == t) =
      if i0 ≤ t then (match ll[t - i0]? with
        | some l => totalSize (G t l)
        | none => 0) else 0
  | [], i0 => by simp [cat, totalSize_nil]
  | l :: ls, i0 => by
    simp only [cat, List.filter_append, totalSize_append]
    rw [filter_cat G hG t ls (i0 + 1)]
    by_cases hi : i0 = t
    · subst hi
      have : (G i0 l).filter (fun c => c.code != .header && c.code.tIdx == i0) = G i0 l := by
        rw [List.filter_eq_self]
        intro c hc
        have := hG i0 l c hc
        simp [this.1, this.2]
      rw [this, if_neg (by omega)]
      simp
    · have : (G i0 l).filter (fun c => c.code != .header && c.code.tIdx == t) = [] := by
        rw [List.filter_eq_nil_iff]
        intro c hc
        have := hG i0 l c hc
        simp only [Bool.and_eq_true, bne_iff_ne, ne_eq, beq_iff_eq, not_and]
        intro _
        rw [this.2]; exact hi
      rw [this, totalSize_nil]
      by_cases hlt : i0 < t
      · have e : t - i0 = (t - (i0 + 1)) + 1 := by omega
        rw [e, List.getElem?_cons_succ]
        simp only [Nat.zero_add]
        rw [if_pos (by omega), if_pos (by omega)]
      · rw [if_neg (by omega), if_neg (by omega)]

theorem lookupSize_chunksOf (ll : List Lookup) (t : Nat) (l : Lookup) (hl : ll[t]? = some l) :
    lookupSize (chunksOf ll) t = totalSize (lookupChunks t l) := by
  unfold lookupSize chunksOf
  rw [tableChunks_eq_cat]
  simp only [List.filter_cons]
  have : ((Code.header != Code.header) && (Code.header.tIdx == t)) = false := by simp
  simp only [this, Bool.false_eq_true, if_false]
  rw [filter_cat lookupChunks tidx_lookupChunks t ll 0]
  simp [hl]

/-- where the kept part of the reordered layout ends -/
def effTotal (ll : List Lookup) (big : Nat) (rep : List Nat) : Nat :=
  totalSize (⟨.header, 2 + 2 * ll.length⟩ :: cat (d1g big rep) ll 0)

theorem replLoop_inv (ll : List Lookup) (big : Nat) (size newSize : Nat → Nat)
    (hsz : ∀ t l, ll[t]? = some l → size t = totalSize (lookupChunks t l) ∧ newSize t = nsz l) :
    ∀ (ts : List Nat) (lastPos : Nat) (rep : List Nat), ts.Nodup →
    (∀ t ∈ ts, t ∉ rep ∧ t ≠ big ∧ t < ll.length) → effTotal ll big rep ≤ lastPos →
    effTotal ll big (replLoop size newSize ts lastPos rep).1 ≤ (replLoop size newSize ts lastPos rep).2
  | [], _, _, _, _, h => by simp only [replLoop]; exact h
  | t :: ts, lastPos, rep, hnd, hts, h => by
    rw [List.nodup_cons] at hnd
    obtain ⟨htr, htb, htn⟩ := hts t (by simp)
    have hl : ll[t]? = some ll[t] := List.getElem?_eq_getElem htn
    obtain ⟨hs1, hs2⟩ := hsz t _ hl
    simp only [replLoop]
    split
    · split
      · rename_i hlt
        apply replLoop_inv ll big size newSize hsz ts _ _ hnd.2
        · intro t' ht'
          obtain ⟨h1, h2, h3⟩ := hts t' (by simp [ht'])
          refine ⟨?_, h2, h3⟩
          simp only [List.mem_cons, not_or]
          exact ⟨fun e => hnd.1 (e ▸ ht'), h1⟩
        · have := eff_step big t rep htb htr ll 0 ll[t] (Nat.zero_le _) (by simpa using hl)
            (by rw [← hs1, ← hs2]; omega)
          unfold effTotal at h ⊢
          rw [totalSize_cons] at h ⊢
          rw [hs1, hs2]
          omega
      · apply replLoop_inv ll big size newSize hsz ts _ _ hnd.2
        · intro t' ht'
          exact hts t' (by simp [ht'])
        · exact h
    · exact h

/-- what a successful `tryReorder` returns -/
theorem tryReorder_ok (ll : List Lookup) (cs : List Chunk)
    (h : tryReorder ll (chunksOf ll) = .ok cs) :
    ∃ big rep, big < ll.length ∧ cs = reordered ll big rep ∧ effTotal ll big rep ≤ 0xFFFF := by
  simp only [tryReorder] at h
  split at h
  · simp at h
  · rename_i big others hrev
    split at h
    · simp at h
    · rename_i hle
      simp only [Outcome.ok.injEq] at h
      -- the sorted list is a permutation of the lookup indices
      have hperm : (big :: others).Perm (List.range ll.length) := by
        rw [← hrev]
        exact (List.reverse_perm _).trans (List.mergeSort_perm _ _)
      have hnd : (big :: others).Nodup := hperm.nodup_iff.mpr List.nodup_range
      have hmem : ∀ t, t ∈ big :: others → t < ll.length := by
        intro t ht
        have := hperm.mem_iff.mp ht
        simpa using this
      have hbig : big < ll.length := hmem big (by simp)
      rw [List.nodup_cons] at hnd
      have hl : ll[big]? = some ll[big] := List.getElem?_eq_getElem hbig
      -- the two size functions of `tryReorder`
      have hsz : ∀ t l, ll[t]? = some l →
          ((List.range ll.length).map (lookupSize (chunksOf ll))).getD t 0 = totalSize (lookupChunks t l) ∧
          (match ll[t]? with
            | some l => hdrLen l + 8 * l.subs.length
            | none => 0) = nsz l := by
        intro t l hl'
        have ht : t < ll.length := by
          apply Classical.byContradiction
          intro hn
          rw [List.getElem?_eq_none (by omega)] at hl'
          simp at hl'
        constructor
        · rw [List.getD_eq_getElem?_getD, List.getElem?_map, List.getElem?_range ht]
          simp only [Option.map_some, Option.getD_some]
          exact lookupSize_chunksOf ll t l hl'
        · simp [hl', nsz]
      have hinv := replLoop_inv ll big _ _ hsz others
        (totalSize (chunksOf ll) - ((List.range ll.length).map (lookupSize (chunksOf ll))).getD big 0) []
        hnd.2
        (fun t ht => ⟨by simp, fun e => hnd.1 (e ▸ ht), hmem t (by simp [ht])⟩)
        (by
          rw [(hsz big _ hl).1]
          have := eff_init big ll 0 ll[big] (Nat.zero_le _) (by simpa using hl)
          unfold effTotal chunksOf
          rw [totalSize_cons, totalSize_cons, tableChunks_eq_cat]
          omega)
      generalize hR : replLoop
        (fun t => ((List.range ll.length).map (lookupSize (chunksOf ll))).getD t 0) _ others _ [] = R
        at h hle hinv
      refine ⟨big, R.1, hbig, ?_, by omega⟩
      rw [← h]
      unfold chunksOf reordered
      rw [tableChunks_eq_cat]
      simp only [distribute]
      rw [distribute_cat]
      simp

theorem totalSize_groups_le (big : Nat) (rep : List Nat) (i : Nat) (l : Lookup) :
    totalSize (d1g big rep i l) + totalSize (mg big i l) + totalSize (eg big rep i l) ≤
      totalSize (lookupChunks i l) + 8 * l.subs.length := by
  by_cases hi : i = big
  · subst hi
    rw [totalSize_d1g_big]
    simp [mg, eg, totalSize_nil]
  · have hi' : (i == big) = false := by simpa using hi
    by_cases hr : i ∈ rep
    · have hr' : rep.contains i = true := by simpa using hr
      rw [totalSize_d1g_rep big rep i l hi hr]
      simp only [mg, eg, hi', hr', Bool.false_eq_true, if_false, if_true, totalSize_nil, nsz,
        lookupChunks, totalSize_cons]
      omega
    · have hr' : rep.contains i = false := by simpa using hr
      rw [totalSize_d1g_keep big rep i l hi hr]
      simp only [mg, eg, hi', hr', Bool.false_eq_true, if_false, totalSize_nil]
      omega

theorem totalSize_reordered_le (big : Nat) (rep : List Nat) : ∀ (ll : List Lookup) (i0 : Nat),
    totalSize (cat (d1g big rep) ll i0) + totalSize (cat (mg big) ll i0) +
      totalSize (cat (eg big rep) ll i0) ≤
    totalSize (cat lookupChunks ll i0) + 8 * (ll.map (·.subs.length)).sum
  | [], _ => by simp [cat, totalSize_nil]
  | l :: ls, i0 => by
    rw [totalSize_cat_cons, totalSize_cat_cons, totalSize_cat_cons, totalSize_cat_cons]
    have h1 := totalSize_groups_le big rep i0 l
    have h2 := totalSize_reordered_le big rep ls (i0 + 1)
    simp only [List.map_cons, List.sum_cons]
    omega

/-- **the layout theorem on the model**: whenever the encoder returns bytes, the specification
reader recovers every lookup and every subtable from them -/
theorem recovered_of_encode (ll : List Lookup) (D : LLDom ll) (extT : Nat) (hTlt : extT < 65536)
    (hT : ∀ l ∈ ll, l.type ≠ extT) (hX : extLookupType ll = 0 ∨ extLookupType ll = extT)
    (hsz : totalSize (chunksOf ll) + 8 * (ll.map (·.subs.length)).sum < 4294967296)
    (b : Bytes) (h : encode ll = .ok b) : Recovered b extT ll := by
  by_cases ht : tooLarge (chunksOf ll) 0 = false
  · exact recovered_noReorder ll D extT hTlt hT (by omega) ht b h
  · have ht' : tooLarge (chunksOf ll) 0 = true := by simpa using ht
    obtain ⟨h1, h2, cs, hcs, hr⟩ := encode_ok ll b h
    rw [ht'] at hcs
    simp only [if_true] at hcs
    obtain ⟨big, rep, hbig, rfl, heff⟩ := tryReorder_ok ll cs hcs
    have G := good_reordered ll big rep hbig heff
    apply recovered_of_good ll _ (extLookupType ll) extT b G D hr _ hT hTlt
    · -- a replaced lookup was rendered, so the extension type was determined
      intro i p hp
      obtain ⟨q, hq, _⟩ := G.table i (by
        obtain ⟨pre, x, post, hx1, hx2, _⟩ := pos?_split _ 0 _ p hp
        have := G.sized x (by rw [hx1]; simp)
        unfold SizeOK at this
        rw [hx2] at this
        obtain ⟨_, l, hl, _⟩ := this
        apply Classical.byContradiction
        intro hn
        rw [List.getElem?_eq_none (by omega)] at hl
        simp at hl)
      obtain ⟨r, _, _, hrr, _, _⟩ := content_at ll _ _ _ b G.sized hr _ q hq
      have hi : i < ll.length := by
        apply Classical.byContradiction
        intro hn
        simp only [render, List.getElem?_eq_none (Nat.le_of_not_lt hn)] at hrr
        simp at hrr
      simp only [render, List.getElem?_eq_getElem hi, hp, Option.isSome_some, Bool.true_and] at hrr
      split at hrr
      · simp at hrr
      · rename_i hne
        rcases hX with h0 | h0
        · simp [h0] at hne
        · exact h0
    · omega
    · intro l hl; have := h2 l hl; omega
    · -- the reordered list is at most 8 bytes per subtable longer
      have := totalSize_reordered_le big rep ll 0
      unfold reordered
      unfold chunksOf at hsz
      rw [tableChunks_eq_cat] at hsz
      rw [totalSize_cons] at hsz ⊢
      rw [totalSize_append, totalSize_append]
      omega

/-- the executable predicate of the direct stream is implied by `Recovered` -/
theorem recovers_of_recovered (b : Bytes) (extT : Nat) (ll : List Lookup) (h : Recovered b extT ll) :
    recovers b extT ll = true := by
  obtain ⟨sl, h1, h2, h3⟩ := h
  unfold recovers
  rw [h1]
  simp only [h2, beq_self_eq_true, Bool.true_and, List.all_eq_true, List.mem_range]
  intro i hi
  have hl : ll[i]? = some ll[i] := List.getElem?_eq_getElem hi
  obtain ⟨s, hs, e1, e2, e3, e4, hsub⟩ := h3 i _ hl
  rw [hs, hl]
  simp only [expected, e1, e2, e3, e4, beq_self_eq_true, Bool.true_and, List.all_eq_true, List.mem_range]
  intro j hj
  have hst : ll[i].subs[j]? = some ll[i].subs[j] := List.getElem?_eq_getElem hj
  obtain ⟨p, hp, hb⟩ := hsub j _ hst
  rw [hp, hst]
  simp [hb]

/-! the encoder never returns an error value: it writes or panics -/

theorem subOffsets_not_err (lay : List (Code × Nat)) (i base : Nat) : ∀ (n j : Nat) (e : String),
    subOffsets lay i base n j ≠ .err e
  | 0, _, _ => by simp [subOffsets]
  | n + 1, j, e => by
    simp only [subOffsets]
    split
    · simp
    · have := subOffsets_not_err lay i base n (j + 1)
      cases h : subOffsets lay i base n (j + 1) with
      | ok r => simp
      | err e' => exact absurd h (this e')
      | panic s => simp

theorem render_not_err (ll : List Lookup) (ext : Nat) (lay : List (Code × Nat)) (c : Code) (e : String) :
    render ll ext lay c ≠ .err e := by
  cases c with
  | header => simp [render]
  | table i =>
    simp only [render]
    cases ll[i]? with
    | none => simp
    | some l =>
      dsimp only
      split
      · simp
      · cases h : subOffsets lay i (pos lay (Code.table i)) l.subs.length 0 with
        | ok r => simp
        | err e' => exact absurd h (subOffsets_not_err _ _ _ _ _ e')
        | panic s => simp
  | sub i j =>
    simp only [render]
    cases ll[i]? with
    | none => simp
    | some l =>
      dsimp only
      cases l.subs[j]? <;> simp
  | ext i j =>
    simp only [render]
    cases ll[i]? <;> simp

theorem renderAll_not_err (ll : List Lookup) (ext : Nat) (lay : List (Code × Nat)) :
    ∀ (cs : List Chunk) (e : String), renderAll ll ext lay cs ≠ .err e
  | [], _ => by simp [renderAll]
  | c :: cs, e => by
    simp only [renderAll]
    cases h : render ll ext lay c.code with
    | ok r =>
      dsimp only
      cases h2 : renderAll ll ext lay cs with
      | ok r2 => simp
      | err e' => exact absurd h2 (renderAll_not_err ll ext lay cs e')
      | panic s => simp
    | err e' => exact absurd h (render_not_err ll ext lay c.code e')
    | panic s => simp

theorem tryReorder_not_err (ll : List Lookup) (cs : List Chunk) (e : String) :
    tryReorder ll cs ≠ .err e := by
  simp only [tryReorder]
  split
  · simp
  · split <;> simp

theorem encode_not_err (ll : List Lookup) (e : String) : encode ll ≠ .err e := by
  unfold encode
  split
  · simp
  · split
    · simp
    · dsimp only
      split
      · rename_i cs hcs
        exact renderAll_not_err _ _ _ _ e
      · rename_i e' hcs
        split at hcs
        · exact absurd hcs (tryReorder_not_err _ _ e')
        · simp at hcs
      · simp

end SfntV.Otl.LL
