/-
C10 — meaning of the translated tables (cmap, kerning pairs, component references).
-/
import SfntV.Proofs.Subset

namespace SfntV.Subset

/-! ### meaning of the translated tables -/

/-- `c'` is `c` restricted to the glyphs of the subset and renumbered: `code ↦ n` in `c'` iff
`code ↦ g` in `c` for the glyph `g` that sits at position `n` of the subset -/
def CMapOK (order : List Gid) (c c' : CMap) : Prop :=
  ∀ (code n : Nat), (code, n) ∈ c' ↔ ∃ g, (code, g) ∈ c ∧ order[n]? = some g

/-- the same for kerning pairs -/
def PairsOK (order : List Gid) (ps ps' : Pairs) : Prop :=
  ∀ (nl nr adj : Nat), (nl, nr, adj) ∈ ps' ↔
    ∃ l r, (l, r, adj) ∈ ps ∧ order[nl]? = some l ∧ order[nr]? = some r

theorem subCMap_ok {s : St} (h : Inv s) (c : CMap) : CMapOK s.glyphs c (subCMap s.newGid c) := by
  intro code n
  simp only [subCMap, List.mem_filterMap, Option.map_eq_some_iff]
  constructor
  · rintro ⟨⟨c0, g⟩, hm, i, hi, he⟩
    simp only [Prod.mk.injEq] at he
    obtain ⟨rfl, rfl⟩ := he
    exact ⟨g, hm, (h g i).1 hi⟩
  · rintro ⟨g, hm, hn⟩
    exact ⟨(code, g), hm, n, (h g n).2 hn, rfl⟩

theorem subPairs_ok {s : St} (h : Inv s) (ps : Pairs) : PairsOK s.glyphs ps (subPairs s.newGid ps) := by
  intro nl nr adj
  simp only [subPairs, List.mem_filterMap]
  constructor
  · rintro ⟨⟨l, r, a⟩, hm, he⟩
    simp only at he
    cases h1 : s.newGid.lookup l with
    | none => rw [h1] at he; simp at he
    | some x =>
      cases h2 : s.newGid.lookup r with
      | none => rw [h1, h2] at he; simp at he
      | some y =>
        rw [h1, h2] at he
        simp only [Option.some.injEq, Prod.mk.injEq] at he
        obtain ⟨rfl, rfl, rfl⟩ := he
        exact ⟨l, r, hm, (h l x).1 h1, (h r y).1 h2⟩
  · rintro ⟨l, r, hm, h1, h2⟩
    refine ⟨(l, r, adj), hm, ?_⟩
    simp only [(h l nl).2 h1, (h r nr).2 h2]

theorem getElem?_map_lookup {s : St} (h : Inv s) {cs : List Gid} (hc : ∀ c ∈ cs, c ∈ s.glyphs)
    {k : Nat} {c : Gid} (hk : cs[k]? = some c) :
    ∃ c', (cs.map fun c => (s.newGid.lookup c).getD 0)[k]? = some c' ∧ s.glyphs[c']? = some c := by
  have hm : c ∈ s.glyphs := hc c (List.mem_of_getElem? hk)
  obtain ⟨i, hi⟩ := List.mem_iff_getElem?.1 hm
  refine ⟨i, ?_, hi⟩
  rw [List.getElem?_map, hk]
  simp [(h c i).2 hi]

end SfntV.Subset
