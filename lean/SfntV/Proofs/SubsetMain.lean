/-
C10 — unpacking a successful run of the `Subset` model into the facts the property theorems use.
-/
import SfntV.Proofs.Subset

namespace SfntV.Subset

/-- the result record as a function of the two subsetter states -/
def assemble (f : Font) (s1 s2 : St) (gsub : Option (Layout GsubOut)) : Sub :=
  let acc : PrivAcc := if f.isCFF then privLoop f s2.glyphs ⟨[], [], []⟩ else ⟨[], [], []⟩
  { order := s2.glyphs
    textGlyphs := s1.glyphs
    glyphs := s2.glyphs.map fun g =>
      if f.isCFF then f.glyph g else fixComponents s2.newGid (f.glyph g)
    hasNames := f.hasNames
    cmaps := f.cmaps.map fun t => t.map fun kc => (kc.1, subCMap s2.newGid kc.2)
    privates := acc.privates
    matrices := acc.matrices
    fdSelect := if f.isCFF then subFdSelect f acc s2.glyphs else []
    encoding := if f.isCFF then
        f.encoding.map fun e => e.map fun g => (s2.newGid.lookup g).getD 0
      else none
    gidToCID := if f.isCFF then
        f.gidToCID.map fun t => s2.glyphs.map fun g => t.getD g 0
      else none
    gsub := gsub
    gpos := f.gpos.map fun l => ⟨l.features, l.lookups.map fun subs => subs.map (subPairs s2.newGid)⟩ }

/-- facts about a successful run: `s1` is the subsetter when `SubsetGsub` returns, `s2` at the end -/
structure RunP (f : Font) (glyphs : List Gid) (o : Order) (sub : Sub) (s1 s2 : St) : Prop where
  inv1 : Inv s1
  inv2 : Inv s2
  ext1 : Ext (St.init glyphs) s1
  ext2 : Ext s1 s2
  closed : f.isCFF = false → ∀ g ∈ s2.glyphs, ∀ c ∈ (f.glyph g).comps, c ∈ s2.glyphs
  cff : f.isCFF = true → s2 = s1
  glyfRun : f.isCFF = false → closeGlyf f o.pops s1 s1.glyphs = some s2
  inRange : ∀ g ∈ s2.glyphs, g < f.glyphs.length
  gsubRun : (f.gsub = none ∧ sub.gsub = none ∧ s1 = St.init glyphs) ∨
    (∃ l lay, f.gsub = some l ∧ subsetGsub o (St.init glyphs) l = some (s1, lay) ∧ sub.gsub = some lay)
  eq : sub = assemble f s1 s2 sub.gsub

theorem subset_ok {f : Font} {glyphs : List Gid} {o : Order} {sub : Sub}
    (hnd : glyphs.Nodup) (h : subset f glyphs o = .ok sub) :
    ∃ s1 s2, RunP f glyphs o sub s1 s2 := by
  have h0 := init_inv hnd
  unfold subset at h
  simp only at h
  split at h
  · cases h
  · rename_i s1 gsub hg1
    split at h
    · cases h
    · rename_i s2 hs2
      split at h
      · cases h
      · rename_i hrange
        injection h with h
        -- GSUB stage
        have hg : (f.gsub = none ∧ gsub = none ∧ s1 = St.init glyphs) ∨
            (∃ l lay, f.gsub = some l ∧ subsetGsub o (St.init glyphs) l = some (s1, lay) ∧
              gsub = some lay) := by
          cases hgs : f.gsub with
          | none =>
            rw [hgs] at hg1; simp only at hg1
            injection hg1 with hg1
            left
            exact ⟨rfl, (congrArg (fun p => p.2) hg1).symm, (congrArg (fun p => p.1) hg1).symm⟩
          | some l =>
            rw [hgs] at hg1; simp only at hg1
            right
            cases hsg : subsetGsub o (St.init glyphs) l with
            | none => rw [hsg] at hg1; simp at hg1
            | some r =>
              rw [hsg] at hg1; simp only [Option.map_some] at hg1
              injection hg1 with hg1
              have e1 : r.1 = s1 := congrArg (fun p => p.1) hg1
              have e2 : some r.2 = gsub := congrArg (fun p => p.2) hg1
              exact ⟨l, r.2, rfl, by rw [← e1]; exact hsg, e2.symm⟩
        have hi1 : Inv s1 ∧ Ext (St.init glyphs) s1 := by
          rcases hg with ⟨_, _, e⟩ | ⟨l, lay, _, hr, _⟩
          · rw [e]; exact ⟨h0, Ext.refl _⟩
          · have := subsetGsub_good h0 hr; exact ⟨this.1, this.2.1⟩
        -- outline stage
        have hi2 : Inv s2 ∧ Ext s1 s2 ∧
            (f.isCFF = false → ∀ g ∈ s2.glyphs, ∀ c ∈ (f.glyph g).comps, c ∈ s2.glyphs) ∧
            (f.isCFF = true → s2 = s1) := by
          cases hc : f.isCFF with
          | true =>
            rw [hc] at hs2; simp only [if_true] at hs2
            injection hs2 with hs2; subst hs2
            exact ⟨hi1.1, Ext.refl _, by simp, fun _ => rfl⟩
          | false =>
            rw [hc] at hs2; simp only [Bool.false_eq_true, if_false] at hs2
            have hd : Done f s1 s1.glyphs := fun g hg hn => absurd hg hn
            have := closeGlyf_spec f o.pops s1 s1.glyphs s2 hi1.1 hd hs2
            exact ⟨this.1, this.2.1, fun _ => this.2.2, by simp⟩
        have hrun : f.isCFF = false → closeGlyf f o.pops s1 s1.glyphs = some s2 := by
          intro hc; rw [hc] at hs2; simpa using hs2
        refine ⟨s1, s2, ⟨hi1.1, hi2.1, hi1.2, hi2.2.1, hi2.2.2.1, hi2.2.2.2, hrun, ?_, ?_, ?_⟩⟩
        · intro g hg'
          rcases Nat.lt_or_ge g f.glyphs.length with hlt | hge
          · exact hlt
          · exfalso; apply hrange
            rw [List.any_eq_true]; exact ⟨g, hg', by simpa using hge⟩
        · rw [← h]; exact hg
        · rw [← h]; rfl

/-! ### meaning of the translated tables -/

/-- `c'` is `c` restricted to the glyphs of the subset and renumbered: `code ↦ n` in `c'` iff
`code ↦ g` in `c` for the glyph `g` that sits at position `n` of the subset -/
def CMapOK (order : List Gid) (c c' : CMap) : Prop :=
  ∀ (code n : Nat), (code, n) ∈ c' ↔ ∃ g, (code, g) ∈ c ∧ order[n]? = some g

/-- the same for kerning pairs -/
def PairsOK (order : List Gid) (ps ps' : Pairs) : Prop :=
  ∀ (nl nr adj : Nat), (nl, nr, adj) ∈ ps' ↔
    ∃ l r, (l, r, adj) ∈ ps ∧ order[nl]? = some l ∧ order[nr]? = some r

theorem subCMap_ok {s : St} (h : Inv s) (c : CMap) : CMapOK s.glyphs c (subCMap s.newGid c) := by
  intro code n
  simp only [subCMap, List.mem_filterMap, Option.map_eq_some_iff]
  constructor
  · rintro ⟨⟨c0, g⟩, hm, i, hi, he⟩
    simp only [Prod.mk.injEq] at he
    obtain ⟨rfl, rfl⟩ := he
    exact ⟨g, hm, (h g i).1 hi⟩
  · rintro ⟨g, hm, hn⟩
    exact ⟨(code, g), hm, n, (h g n).2 hn, rfl⟩

theorem subPairs_ok {s : St} (h : Inv s) (ps : Pairs) : PairsOK s.glyphs ps (subPairs s.newGid ps) := by
  intro nl nr adj
  simp only [subPairs, List.mem_filterMap]
  constructor
  · rintro ⟨⟨l, r, a⟩, hm, he⟩
    simp only at he
    cases h1 : s.newGid.lookup l with
    | none => rw [h1] at he; simp at he
    | some x =>
      cases h2 : s.newGid.lookup r with
      | none => rw [h1, h2] at he; simp at he
      | some y =>
        rw [h1, h2] at he
        simp only [Option.some.injEq, Prod.mk.injEq] at he
        obtain ⟨rfl, rfl, rfl⟩ := he
        exact ⟨l, r, hm, (h l x).1 h1, (h r y).1 h2⟩
  · rintro ⟨l, r, hm, h1, h2⟩
    refine ⟨(l, r, adj), hm, ?_⟩
    simp only [(h l nl).2 h1, (h r nr).2 h2]

theorem getElem?_map_lookup {s : St} (h : Inv s) {cs : List Gid} (hc : ∀ c ∈ cs, c ∈ s.glyphs)
    {k : Nat} {c : Gid} (hk : cs[k]? = some c) :
    ∃ c', (cs.map fun c => (s.newGid.lookup c).getD 0)[k]? = some c' ∧ s.glyphs[c']? = some c := by
  have hm : c ∈ s.glyphs := hc c (List.mem_of_getElem? hk)
  obtain ⟨i, hi⟩ := List.mem_iff_getElem?.1 hm
  refine ⟨i, ?_, hi⟩
  rw [List.getElem?_map, hk]
  simp [(h c i).2 hi]

end SfntV.Subset
