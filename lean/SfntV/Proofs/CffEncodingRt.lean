/-
Encoding: `readEncoding` applied to the bytes `encodeEncoding` wrote.
-/
import SfntV.Proofs.CffEncoding

namespace SfntV.Cff
open SfntV

theorem lookup_some_mem (es : List (Nat × Nat)) (c g : Nat) (h : es.lookup c = some g) : (c, g) ∈ es := by
  induction es with
  | nil => simp at h
  | cons e es ih =>
    obtain ⟨k, v⟩ := e
    simp only [List.lookup_cons] at h
    by_cases hk : c = k
    · subst hk
      simp at h
      subst h
      exact List.mem_cons_self ..
    · have : (c == k) = false := by simpa using hk
      simp only [this] at h
      exact List.mem_cons_of_mem _ (ih h)

theorem lookup_of_mem_nodup (es : List (Nat × Nat)) (c g : Nat) (hm : (c, g) ∈ es)
    (hn : (es.map (·.1)).Nodup) : es.lookup c = some g := by
  induction es with
  | nil => simp at hm
  | cons e es ih =>
    obtain ⟨k, v⟩ := e
    simp only [List.map_cons, List.nodup_cons] at hn
    simp only [List.lookup_cons]
    rcases List.mem_cons.mp hm with h | h
    · injection h with h1 h2
      subst h1; subst h2
      simp
    · have hk : c ≠ k := by
        intro heq; subst heq
        exact hn.1 (List.mem_map_of_mem (f := (·.1)) h)
      have : (c == k) = false := by simpa using hk
      simp only [this]
      exact ih h hn.2

/-- `readCodes` on a list of distinct free codes: code number `i` gets glyph `cur + i`, all
other entries are unchanged -/
theorem readCodes_nat : ∀ (Pn : List Nat) (res : List Nat) (cur : Nat),
    (∀ p ∈ Pn, p < 256 ∧ p < res.length ∧ res.getD p 0 = 0) → Pn.Nodup → 0 < cur →
    cur + Pn.length < 65536 →
    ∃ res', readCodes (Pn.map UInt8.ofNat) res cur = .ok (res', cur + Pn.length) ∧
      res'.length = res.length ∧
      (∀ i, i < Pn.length → res'.getD (Pn.getD i 0) 0 = cur + i) ∧
      (∀ c, c ∉ Pn → res'.getD c 0 = res.getD c 0) := by
  intro Pn
  induction Pn with
  | nil => intro res cur _ _ _ _; exact ⟨res, rfl, rfl, fun i hi => by simp at hi, fun c _ => rfl⟩
  | cons p ps ih =>
    intro res cur hP hnd hcur hmax
    obtain ⟨hp1, hp2, hp3⟩ := hP p (List.mem_cons_self ..)
    have hnd' := List.nodup_cons.mp hnd
    have hb : (UInt8.ofNat p).toNat = p := by simp [UInt8.toNat_ofNat']; omega
    simp only [List.map_cons, readCodes, hb, hp3, ne_eq, not_true_eq_false, if_false]
    have hmod : (cur + 1) % 65536 = cur + 1 := Nat.mod_eq_of_lt (by simp at hmax; omega)
    rw [hmod]
    obtain ⟨res', q1, q2, q3, q4⟩ := ih (res.set p cur) (cur + 1)
      (fun x hx => by
        obtain ⟨a1, a2, a3⟩ := hP x (List.mem_cons_of_mem _ hx)
        refine ⟨a1, by rw [List.length_set]; exact a2, ?_⟩
        rw [getD_set]
        have : ¬ (p = x ∧ p < res.length) := fun h => hnd'.1 (h.1 ▸ hx)
        simp only [this, if_false]; exact a3)
      hnd'.2 (by omega) (by simp at hmax ⊢; omega)
    refine ⟨res', by rw [q1]; simp; omega, by rw [q2, List.length_set], ?_, ?_⟩
    · intro i hi
      cases i with
      | zero =>
        simp only [List.getD_cons_zero]
        rw [q4 p hnd'.1, getD_set]
        simp [hp2]
      | succ j =>
        simp only [List.getD_cons_succ]
        rw [q3 j (by simp at hi; omega)]
        omega
    · intro c hc
      simp only [List.mem_cons, not_or] at hc
      rw [q4 c hc.2, getD_set]
      have : ¬ (p = c ∧ p < res.length) := fun h => hc.1 h.1.symm
      simp [this]


theorem nodup_map_on (l : List Nat) (f : Nat → Nat) (hl : l.Nodup)
    (hinj : ∀ a ∈ l, ∀ b ∈ l, f a = f b → a = b) : (l.map f).Nodup := by
  induction l with
  | nil => simp
  | cons x xs ih =>
    have hx := List.nodup_cons.mp hl
    simp only [List.map_cons, List.nodup_cons]
    refine ⟨?_, ih hx.2 (fun a ha b hb => hinj a (List.mem_cons_of_mem _ ha) b (List.mem_cons_of_mem _ hb))⟩
    intro hmem
    obtain ⟨y, hy, hfy⟩ := List.mem_map.mp hmem
    have := hinj y (List.mem_cons_of_mem _ hy) x (List.mem_cons_self ..) hfy
    exact hx.1 (this ▸ hy)

theorem length_rep256 : (List.replicate 256 (0 : Nat)).length = 256 := List.length_replicate

theorem getD_rep256 (c : Nat) : (List.replicate 256 (0 : Nat)).getD c 0 = 0 := by
  rw [List.getD_eq_getElem?_getD, List.getElem?_replicate]
  split <;> rfl

/-- everything the proof needs to know about the state after the scan, in the domain -/
structure EncCtx (enc : List Nat) (names : List Int) (codes extra : List (Nat × Nat)) (K : Nat) : Prop where
  len : enc.length = 256
  inv : ScanInv enc codes extra K
  lt_names : ∀ c, c < 256 → enc.getD c 0 < names.length
  contig : ∀ g, 1 ≤ g → g ≤ K → ∃ c, c < 256 ∧ enc.getD c 0 = g
  n1 : 1 ≤ names.length
  n16 : names.length < 65536
  nd : names.Nodup
  rng : ∀ x ∈ names, 0 ≤ x ∧ x ≤ 65535

namespace EncCtx
variable {enc : List Nat} {names : List Int} {codes extra : List (Nat × Nat)} {K : Nat}

/-- the primary code of glyph `g` -/
def cf (codes : List (Nat × Nat)) (g : Nat) : Nat := (codes.lookup g).getD 0

theorem K_lt (h : EncCtx enc names codes extra K) : K < names.length := by
  rcases h.inv.mx_att with h0 | ⟨c, hc, hk⟩
  · have := h.n1; omega
  · rw [← hk]; exact h.lt_names c (by rw [← h.len]; exact hc)

theorem look (h : EncCtx enc names codes extra K) (g : Nat) (h1 : 1 ≤ g) (hK : g ≤ K) :
    codes.lookup g = some (cf codes g) ∧ cf codes g < 256 ∧ enc.getD (cf codes g) 0 = g ∧
      ∀ c', c' < cf codes g → enc.getD c' 0 ≠ g := by
  obtain ⟨c, hc, hg⟩ := h.contig g h1 hK
  cases hl : codes.lookup g with
  | none =>
    exact absurd hg (h.inv.none_imp g (by omega) hl c (by rw [h.len]; exact hc))
  | some c0 =>
    obtain ⟨a1, a2, a3, a4⟩ := (h.inv.some_iff g c0).mp hl
    have : cf codes g = c0 := by simp [cf, hl]
    rw [this]
    exact ⟨rfl, by rw [← h.len]; exact a1, a2, a4⟩

/-- the primary codes of glyphs 1 … K -/
def Pn (codes : List (Nat × Nat)) (K : Nat) : List Nat := (List.range' 1 K).map (cf codes)

theorem Pn_length : (Pn codes K).length = K := by simp [Pn]

theorem Pn_getD (i : Nat) (hi : i < K) : (Pn codes K).getD i 0 = cf codes (i + 1) := by
  have hl : i < (Pn codes K).length := by rw [Pn_length]; exact hi
  rw [List.getD_eq_getElem?_getD, List.getElem?_eq_getElem hl]
  simp [Pn, List.getElem_range', Nat.add_comm]

theorem Pn_nodup (h : EncCtx enc names codes extra K) : (Pn codes K).Nodup := by
  apply nodup_map_on _ _ (List.nodup_range' 1)
  intro a ha b hb hab
  rw [List.mem_range'_1] at ha hb
  have ea := (h.look a ha.1 (by omega)).2.2.1
  have eb := (h.look b hb.1 (by omega)).2.2.1
  rw [hab] at ea
  omega

theorem mem_Pn (c : Nat) : c ∈ Pn codes K ↔ ∃ g, 1 ≤ g ∧ g ≤ K ∧ cf codes g = c := by
  simp only [Pn, List.mem_map, List.mem_range'_1]
  constructor
  · rintro ⟨g, ⟨h1, h2⟩, h3⟩; exact ⟨g, h1, by omega, h3⟩
  · rintro ⟨g, h1, h2, h3⟩; exact ⟨g, ⟨h1, by omega⟩, h3⟩

/-- `c` is the first code of its (non-zero) glyph -/
def First (enc : List Nat) (c : Nat) : Prop := enc.getD c 0 ≠ 0 ∧ ∀ c', c' < c → enc.getD c' 0 ≠ enc.getD c 0

/-- the vector after the primary part: first codes carry their glyph, everything else is 0 -/
def Primary (enc : List Nat) (res1 : List Nat) : Prop :=
  res1.length = 256 ∧ ∀ c, c < 256 → (First enc c → res1.getD c 0 = enc.getD c 0) ∧ (¬ First enc c → res1.getD c 0 = 0)

/-- assigning glyphs 1 … K to their primary codes gives the primary vector -/
theorem primary_of_readCodes (h : EncCtx enc names codes extra K) :
    ∃ res1, readCodes ((Pn codes K).map UInt8.ofNat) (List.replicate 256 0) 1 = .ok (res1, K + 1) ∧
      Primary enc res1 := by
  have hKn := h.K_lt
  have hn16 := h.n16
  obtain ⟨res1, q1, q2, q3, q4⟩ := readCodes_nat (Pn codes K) (List.replicate 256 0) 1
    (by
      intro p hp
      obtain ⟨g, g1, g2, g3⟩ := (mem_Pn p).mp hp
      have := (h.look g g1 g2).2.1
      rw [g3] at this
      exact ⟨this, by rw [length_rep256]; exact this, getD_rep256 p⟩)
    h.Pn_nodup (by omega) (by rw [Pn_length]; omega)
  rw [Pn_length] at q1 q3
  refine ⟨res1, by rw [q1]; congr 2; omega, by rw [q2]; exact length_rep256, ?_⟩
  intro c hc
  constructor
  · rintro ⟨f1, f2⟩
    have hgK : enc.getD c 0 ≤ K := h.inv.mx_ge c (by rw [h.len]; exact hc)
    have hlk : codes.lookup (enc.getD c 0) = some c :=
      (h.inv.some_iff _ c).mpr ⟨by rw [h.len]; exact hc, rfl, f1, f2⟩
    have hcf : cf codes (enc.getD c 0) = c := by
      show (codes.lookup (enc.getD c 0)).getD 0 = c
      rw [hlk]; rfl
    have := q3 (enc.getD c 0 - 1) (by omega)
    rw [Pn_getD _ (by omega)] at this
    have e : enc.getD c 0 - 1 + 1 = enc.getD c 0 := by omega
    rw [e, hcf] at this
    rw [this]; omega
  · intro hnf
    have hnot : c ∉ Pn codes K := by
      intro hm
      obtain ⟨g, g1, g2, g3⟩ := (mem_Pn c).mp hm
      obtain ⟨_, _, a3, a4⟩ := h.look g g1 g2
      rw [g3] at a3 a4
      exact hnf ⟨by omega, fun c' hc' => by rw [a3]; exact a4 c' hc'⟩
    rw [q4 c hnot]
    exact getD_rep256 c


theorem eq_of_primary_nil (h : EncCtx enc names codes extra K) (he : extra = []) (res1 : List Nat)
    (hp : Primary enc res1) : res1 = enc := by
  apply ext_getD _ _ (by rw [hp.1, h.len])
  intro c hc
  rw [hp.1] at hc
  by_cases hf : First enc c
  · exact (hp.2 c hc).1 hf
  · rw [(hp.2 c hc).2 hf]
    by_cases h0 : enc.getD c 0 = 0
    · exact h0.symm
    · rcases h.inv.complete c (by rw [h.len]; exact hc) h0 with h1 | h1
      · exact absurd ⟨h0, h1⟩ hf
      · rw [he] at h1; simp at h1

theorem sups_ok (h : EncCtx enc names codes extra K) (res1 : List Nat) (hp : Primary enc res1)
    (A B : Bytes) (pos : Nat) (hpos : pos = A.length) :
    readSups (A ++ supBytes names extra ++ B) names extra.length pos res1 (K + 1) = .ok enc := by
  obtain ⟨res', q1, q2, q3⟩ := readSups_spec names h.nd h.rng (by have := h.n16; omega) extra A B pos res1 (K + 1) hpos
    (by
      intro e he
      obtain ⟨a1, a2, a3, c0, a4, a5⟩ := h.inv.extra_mem e he
      rw [h.len] at a1
      have hK : e.2 ≤ K := by rw [← a2]; exact h.inv.mx_ge e.1 (by rw [h.len]; exact a1)
      have hn := h.lt_names e.1 a1
      rw [a2] at hn
      refine ⟨a1, by rw [hp.1]; exact a1, a3, by omega, hn, ?_⟩
      apply (hp.2 e.1 a1).2
      rintro ⟨_, f2⟩
      exact f2 c0 a4 (by rw [a5, a2]))
    h.inv.extra_nodup
  rw [q1]
  congr 1
  apply ext_getD _ _ (by rw [q2, hp.1, h.len])
  intro c hc
  rw [q2, hp.1] at hc
  rw [q3 c]
  cases hl : extra.lookup c with
  | some g =>
    have := lookup_some_mem extra c g hl
    exact ((h.inv.extra_mem _ this).2.1).symm
  | none =>
    simp only
    by_cases hf : First enc c
    · exact (hp.2 c hc).1 hf
    · rw [(hp.2 c hc).2 hf]
      by_cases h0 : enc.getD c 0 = 0
      · exact h0.symm
      · rcases h.inv.complete c (by rw [h.len]; exact hc) h0 with h1 | h1
        · exact absurd ⟨h0, h1⟩ hf
        · have := lookup_of_mem_nodup extra c _ h1 h.inv.extra_nodup
          rw [hl] at this; cases this

theorem extra_lt_names (h : EncCtx enc names codes extra K) : ∀ e ∈ extra, e.2 < names.length := by
  intro e he
  obtain ⟨a1, a2, _⟩ := h.inv.extra_mem e he
  rw [h.len] at a1
  have := h.lt_names e.1 a1
  rw [a2] at this; exact this

theorem extra_length (h : EncCtx enc names codes extra K) (hK : 1 ≤ K) : extra.length ≤ 255 := by
  have hc := h.inv.count
  rw [h.len] at hc
  have : 1 ≤ codes.length := by
    have := (h.look 1 (Nat.le_refl _) hK).1
    cases codes with
    | nil => simp at this
    | cons a b => simp
  omega

end EncCtx


/-! ### the primary part, both formats -/

theorem readPrimary_fmt0 {enc : List Nat} {names : List Int} {codes extra : List (Nat × Nat)} {K : Nat}
    (h : EncCtx enc names codes extra K) (hK : K ≤ 255) (fb : UInt8) (fmt : Nat) (hf : fmt % 128 = 0) (T : Bytes) :
    ∃ res1, readPrimary ([fb, UInt8.ofNat K] ++ (EncCtx.Pn codes K).map UInt8.ofNat ++ T) 0 fmt names.length
        = .ok (res1, K + 1, 2 + K) ∧ EncCtx.Primary enc res1 := by
  obtain ⟨res1, q1, q2⟩ := h.primary_of_readCodes
  refine ⟨res1, ?_, q2⟩
  unfold readPrimary
  simp only [hf, if_true]
  have hr1 : rd ([fb, UInt8.ofNat K] ++ (EncCtx.Pn codes K).map UInt8.ofNat ++ T) (0 + 1) 1 = some [UInt8.ofNat K] := by
    have : [fb, UInt8.ofNat K] ++ (EncCtx.Pn codes K).map UInt8.ofNat ++ T
        = [fb] ++ [UInt8.ofNat K] ++ ((EncCtx.Pn codes K).map UInt8.ofNat ++ T) := by simp
    rw [this]; exact rd_mid _ _ _ _ _ rfl rfl
  rw [hr1]; simp only
  have hv : beVal [UInt8.ofNat K] = K := by rw [beVal_single]; omega
  rw [hv]
  have hKn := h.K_lt
  have : ¬ K ≥ names.length := by omega
  simp only [this, if_false]
  have hr2 : rd ([fb, UInt8.ofNat K] ++ (EncCtx.Pn codes K).map UInt8.ofNat ++ T) (0 + 2) K
      = some ((EncCtx.Pn codes K).map UInt8.ofNat) :=
    rd_mid _ _ _ _ _ rfl (by simp [EncCtx.Pn_length])
  rw [hr2]; simp only
  rw [q1]

theorem readPrimary_fmt1 {enc : List Nat} {names : List Int} {codes extra : List (Nat × Nat)} {K : Nat}
    (h : EncCtx enc names codes extra K) (ss : List (Nat × Nat)) (hss : ss.length ≤ 255)
    (hexp : expandN ss = EncCtx.Pn codes K) (hb : ∀ s ∈ ss, s.1 + s.2 ≤ 255)
    (fb : UInt8) (fmt : Nat) (hf : fmt % 128 = 1) (T : Bytes) :
    ∃ res1, readPrimary ([fb, UInt8.ofNat ss.length] ++ ss.flatMap (fun s => [UInt8.ofNat s.1, UInt8.ofNat s.2]) ++ T)
        0 fmt names.length = .ok (res1, K + 1, 2 + 2 * ss.length) ∧ EncCtx.Primary enc res1 := by
  obtain ⟨res1, q1, q2⟩ := h.primary_of_readCodes
  refine ⟨res1, ?_, q2⟩
  unfold readPrimary
  have hf0 : ¬ fmt % 128 = 0 := by omega
  simp only [hf0, hf, if_false, if_true]
  have hr1 : rd ([fb, UInt8.ofNat ss.length] ++ ss.flatMap (fun s => [UInt8.ofNat s.1, UInt8.ofNat s.2]) ++ T) (0 + 1) 1
      = some [UInt8.ofNat ss.length] := by
    have : [fb, UInt8.ofNat ss.length] ++ ss.flatMap (fun s => [UInt8.ofNat s.1, UInt8.ofNat s.2]) ++ T
        = [fb] ++ [UInt8.ofNat ss.length] ++ (ss.flatMap (fun s => [UInt8.ofNat s.1, UInt8.ofNat s.2]) ++ T) := by simp
    rw [this]; exact rd_mid _ _ _ _ _ rfl rfl
  rw [hr1]; simp only
  have hv : beVal [UInt8.ofNat ss.length] = ss.length := by rw [beVal_single]; omega
  rw [hv]
  have hKn := h.K_lt
  have hlenc : (segCodes ss).length = K := by
    rw [segCodes_eq, List.length_map, hexp, EncCtx.Pn_length]
  rw [readEncRanges_eq names.length ss [fb, UInt8.ofNat ss.length] T (0 + 2) _ 1 rfl hb
    (by rw [hlenc]; omega) h.n16]
  rw [segCodes_eq, hexp, q1]
  simp

/-- all-zero vector -/
theorem enc_zero_of_K0 {enc : List Nat} {names : List Int} {codes extra : List (Nat × Nat)}
    (h : EncCtx enc names codes extra 0) : enc = List.replicate 256 0 ∧ extra = [] := by
  have hz : ∀ c, c < 256 → enc.getD c 0 = 0 := by
    intro c hc
    have := h.inv.mx_ge c (by rw [h.len]; exact hc); omega
  refine ⟨?_, ?_⟩
  · apply ext_getD _ _ (by rw [h.len, length_rep256])
    intro c hc
    rw [h.len] at hc
    rw [hz c hc, getD_rep256]
  · cases hx : extra with
    | nil => rfl
    | cons e es =>
      obtain ⟨a1, a2, a3, _⟩ := h.inv.extra_mem e (by rw [hx]; exact List.mem_cons_self ..)
      rw [h.len] at a1
      have := hz e.1 a1
      omega


theorem mkCtx (enc : List Nat) (names : List Int) (codes extra : List (Nat × Nat)) (K : Nat)
    (hs : scanEncoding 0 enc [] [] 0 = (codes, extra, K))
    (hlen : enc.length = 256) (hlt : ∀ g ∈ enc, g < names.length)
    (hcontig : ∀ g ∈ enc, ∀ g', 0 < g' → g' < g → g' ∈ enc)
    (hn1 : 1 ≤ names.length) (hn16 : names.length < 65536) (hnd : names.Nodup)
    (hr : ∀ x ∈ names, 0 ≤ x ∧ x ≤ 65535) : EncCtx enc names codes extra K := by
  have inv := scanInv_enc enc (by omega)
  rw [hs] at inv
  have hget : ∀ c, c < 256 → enc.getD c 0 ∈ enc := by
    intro c hc
    have hc' : c < enc.length := by rw [hlen]; exact hc
    rw [List.getD_eq_getElem?_getD, List.getElem?_eq_getElem hc']
    exact List.getElem_mem hc'
  exact {
    len := hlen, inv := inv, n1 := hn1, n16 := hn16, nd := hnd, rng := hr
    lt_names := fun c hc => hlt _ (hget c hc)
    contig := by
      intro g g1 gK
      rcases inv.mx_att with h0 | ⟨c, hc, hk⟩
      · simp only at h0; omega
      · simp only at hk
        rw [hlen] at hc
        have hgm : g ∈ enc := by
          rcases Nat.lt_or_ge g K with hlt' | hge
          · exact hcontig K (hk ▸ hget c hc) g (by omega) hlt'
          · have : g = K := by omega
            rw [this, ← hk]; exact hget c hc
        obtain ⟨i, hi, hgi⟩ := List.mem_iff_getElem.mp hgm
        refine ⟨i, by rw [← hlen]; exact hi, ?_⟩
        rw [List.getD_eq_getElem?_getD, List.getElem?_eq_getElem hi]; exact hgi }


theorem finish_read {enc : List Nat} {names : List Int} {codes extra : List (Nat × Nat)} {K : Nat}
    (ctx : EncCtx enc names codes extra K) (hK1 : 1 ≤ K) (body : Bytes) (fb : UInt8) (tl : Bytes)
    (hbody : body = fb :: tl) (fmt : Nat) (hfmt : fb.toNat = fmt) (hflag : fmt ≥ 128 ↔ extra.length > 0)
    (hprim : ∀ T, ∃ res1, readPrimary (body ++ T) 0 fmt names.length = .ok (res1, K + 1, body.length) ∧
      EncCtx.Primary enc res1) (rest : Bytes) :
    readEncoding ((if extra.length > 0 then body ++ [UInt8.ofNat extra.length] ++ supBytes names extra else body)
      ++ rest) 0 names = .ok enc := by
  have hbv : beVal [fb] = fmt := by simp [beVal, hfmt]
  by_cases hx : extra.length > 0
  · simp only [hx, if_true]
    have hdata : body ++ [UInt8.ofNat extra.length] ++ supBytes names extra ++ rest
        = body ++ ([UInt8.ofNat extra.length] ++ supBytes names extra ++ rest) := by simp [List.append_assoc]
    obtain ⟨res1, q1, q2⟩ := hprim ([UInt8.ofNat extra.length] ++ supBytes names extra ++ rest)
    have hr1 : rd (body ++ [UInt8.ofNat extra.length] ++ supBytes names extra ++ rest) 0 1 = some [fb] := by
      rw [hbody]
      exact rd_mid [] [fb] (tl ++ [UInt8.ofNat extra.length] ++ supBytes names extra ++ rest) 0 1 rfl rfl
    unfold readEncoding
    rw [hr1]; simp only [hbv]
    rw [hdata, q1]
    simp only
    have hge : fmt ≥ 128 := hflag.mpr hx
    simp only [hge, if_true]
    have hr2 : rd (body ++ ([UInt8.ofNat extra.length] ++ supBytes names extra ++ rest)) body.length 1
        = some [UInt8.ofNat extra.length] := by
      have : body ++ ([UInt8.ofNat extra.length] ++ supBytes names extra ++ rest)
          = body ++ [UInt8.ofNat extra.length] ++ (supBytes names extra ++ rest) := by simp [List.append_assoc]
      rw [this]; exact rd_mid _ _ _ _ _ rfl rfl
    rw [hr2]; simp only
    have hn := ctx.extra_length hK1
    have hv : beVal [UInt8.ofNat extra.length] = extra.length := by rw [beVal_single]; omega
    rw [hv]
    have : body ++ ([UInt8.ofNat extra.length] ++ supBytes names extra ++ rest)
        = (body ++ [UInt8.ofNat extra.length]) ++ supBytes names extra ++ rest := by simp [List.append_assoc]
    rw [this]
    exact ctx.sups_ok res1 q2 _ _ _ (by simp)
  · simp only [hx, if_false]
    have he : extra = [] := List.eq_nil_of_length_eq_zero (by omega)
    obtain ⟨res1, q1, q2⟩ := hprim rest
    have hr1 : rd (body ++ rest) 0 1 = some [fb] := by
      rw [hbody]; exact rd_mid [] [fb] (tl ++ rest) 0 1 rfl rfl
    unfold readEncoding
    rw [hr1]; simp only [hbv]
    rw [q1]
    simp only
    have hlt : ¬ fmt ≥ 128 := fun h => hx (hflag.mp h)
    simp only [hlt, if_false]
    rw [ctx.eq_of_primary_nil he res1 q2]

theorem length_flatMap_pairs (ss : List (Nat × Nat)) :
    (ss.flatMap fun s => [UInt8.ofNat s.1, UInt8.ofNat s.2]).length = 2 * ss.length := by
  induction ss with
  | nil => rfl
  | cons a b ih =>
    simp only [List.flatMap_cons, List.length_append, ih, List.length_cons, List.length_nil]; omega

theorem codes_bytes_eq (codes : List (Nat × Nat)) (K : Nat) :
    ((List.range K).map fun i => UInt8.ofNat ((codes.lookup (i + 1)).getD 0))
      = (EncCtx.Pn codes K).map UInt8.ofNat := by
  simp [EncCtx.Pn, EncCtx.cf, List.range'_eq_map_range, Nat.add_comm]

/-- `readEncoding` reads back every encoding vector that `encodeEncoding` accepted (contiguity
rule, glyph ids inside the font, pairwise distinct 16-bit glyph names). -/
theorem readEncoding_encodeEncoding (enc : List Nat) (names : List Int) (bs rest : Bytes)
    (hlen : enc.length = 256) (hlt : ∀ g ∈ enc, g < names.length)
    (hcontig : ∀ g ∈ enc, ∀ g', 0 < g' → g' < g → g' ∈ enc)
    (hn1 : 1 ≤ names.length) (hn16 : names.length < 65536) (hnd : names.Nodup)
    (hr : ∀ x ∈ names, 0 ≤ x ∧ x ≤ 65535)
    (h : encodeEncoding enc names = .ok bs) :
    readEncoding (bs ++ rest) 0 names = .ok enc := by
  rcases hs : scanEncoding 0 enc [] [] 0 with ⟨codes, extra, K⟩
  have ctx := mkCtx enc names codes extra K hs hlen hlt hcontig hn1 hn16 hnd hr
  unfold encodeEncoding at h
  rw [hs] at h
  simp only at h
  by_cases hK0 : K = 0
  · subst hK0
    obtain ⟨hz, hex⟩ := enc_zero_of_K0 ctx
    subst hex
    simp [segLoop] at h
    subst h
    have hr1 : rd ([0, 0] ++ rest) 0 1 = some [0] := rd_mid [] [0] ([0] ++ rest) 0 1 rfl rfl
    have hr2 : rd ([0, 0] ++ rest) (0 + 1) 1 = some [0] := rd_mid [0] [0] rest 1 1 rfl rfl
    have hr3 : rd ([0, 0] ++ rest) (0 + 2) 0 = some [] := by simp [rd]
    have hb : beVal ([0] : Bytes) = 0 := by simp [beVal]
    have hn : ¬ 0 ≥ names.length := by omega
    unfold readEncoding
    rw [hr1]; simp only [hb]
    unfold readPrimary
    simp only [Nat.zero_mod, if_true, hr2, hb, hn, if_false, hr3, readCodes]
    have : ¬ (0 ≥ 128) := by omega
    simp only [this, if_false]
    rw [hz]
  · have hK1 : 1 ≤ K := by omega
    have hKn := ctx.K_lt
    obtain ⟨ss, hseg, hexp, hbnd⟩ := segLoop_spec codes K (EncCtx.cf codes) hK1 (by omega)
      (fun g g1 gK => ⟨(ctx.look g g1 gK).1, (ctx.look g g1 gK).2.1⟩)
      K 1 1 ((codes.lookup 1).getD 0) [] (by omega) (Nat.le_refl _) (Nat.le_refl _) hK1 rfl
      (by intro g h1 h2; omega) (by simp [expandN]) (by simp)
    rw [hseg] at h
    simp only at h
    by_cases hss : ss.length > 255
    · simp only [hss, if_true] at h; cases h
    · simp only [hss, if_false] at h
      rw [extraBytes_eq names extra ctx.extra_lt_names] at h
      generalize hflagv : (if extra.length > 0 then 128 else 0 : Nat) = flag at h
      have hflag01 : (flag = 128 ∧ extra.length > 0) ∨ (flag = 0 ∧ ¬ extra.length > 0) := by
        by_cases hx : extra.length > 0
        · simp only [hx, if_true] at hflagv; exact Or.inl ⟨hflagv.symm, hx⟩
        · simp only [hx, if_false] at hflagv; exact Or.inr ⟨hflagv.symm, hx⟩
      rw [codes_bytes_eq] at h
      by_cases hfmt : 2 + K ≤ 2 + ss.length * 2 ∧ K ≤ 255
      · simp only [hfmt, and_self, if_true] at h
        have hbs : bs = (if extra.length > 0 then
              ([UInt8.ofNat (0 + flag), UInt8.ofNat K] ++ (EncCtx.Pn codes K).map UInt8.ofNat)
                ++ [UInt8.ofNat extra.length] ++ supBytes names extra
            else [UInt8.ofNat (0 + flag), UInt8.ofNat K] ++ (EncCtx.Pn codes K).map UInt8.ofNat) := by
          by_cases hx : extra.length > 0
          · simp only [hx, if_true] at h ⊢; injection h with h; exact h.symm
          · simp only [hx, if_false] at h ⊢; injection h with h; exact h.symm
        rw [hbs]
        have hfb : (UInt8.ofNat (0 + flag)).toNat = flag := by
          rcases hflag01 with ⟨hf, _⟩ | ⟨hf, _⟩ <;> subst hf <;> rfl
        apply finish_read ctx hK1 ([UInt8.ofNat (0 + flag), UInt8.ofNat K] ++ (EncCtx.Pn codes K).map UInt8.ofNat)
          (UInt8.ofNat (0 + flag)) ([UInt8.ofNat K] ++ (EncCtx.Pn codes K).map UInt8.ofNat) rfl flag hfb
          (by rcases hflag01 with ⟨hf, hx⟩ | ⟨hf, hx⟩ <;> subst hf <;> constructor <;> intro h' <;> first | exact hx | omega)
        intro T
        obtain ⟨res1, q1, q2⟩ := readPrimary_fmt0 ctx hfmt.2 (UInt8.ofNat (0 + flag)) flag
          (by rcases hflag01 with ⟨hf, _⟩ | ⟨hf, _⟩ <;> subst hf <;> rfl) T
        refine ⟨res1, ?_, q2⟩
        rw [q1]
        congr 3
        simp only [List.length_append, List.length_cons, List.length_nil, List.length_map, EncCtx.Pn_length]
      · simp only [hfmt, if_false] at h
        have hbs : bs = (if extra.length > 0 then
              ([UInt8.ofNat (1 + flag), UInt8.ofNat ss.length] ++ ss.flatMap (fun s => [UInt8.ofNat s.1, UInt8.ofNat s.2]))
                ++ [UInt8.ofNat extra.length] ++ supBytes names extra
            else [UInt8.ofNat (1 + flag), UInt8.ofNat ss.length] ++ ss.flatMap (fun s => [UInt8.ofNat s.1, UInt8.ofNat s.2])) := by
          by_cases hx : extra.length > 0
          · simp only [hx, if_true] at h ⊢; injection h with h; exact h.symm
          · simp only [hx, if_false] at h ⊢; injection h with h; exact h.symm
        rw [hbs]
        have hfb : (UInt8.ofNat (1 + flag)).toNat = 1 + flag := by
          rcases hflag01 with ⟨hf, _⟩ | ⟨hf, _⟩ <;> subst hf <;> rfl
        apply finish_read ctx hK1
          ([UInt8.ofNat (1 + flag), UInt8.ofNat ss.length] ++ ss.flatMap (fun s => [UInt8.ofNat s.1, UInt8.ofNat s.2]))
          (UInt8.ofNat (1 + flag)) ([UInt8.ofNat ss.length] ++ ss.flatMap (fun s => [UInt8.ofNat s.1, UInt8.ofNat s.2]))
          rfl (1 + flag) hfb
          (by rcases hflag01 with ⟨hf, hx⟩ | ⟨hf, hx⟩ <;> subst hf <;> constructor <;> intro h' <;> first | exact hx | omega)
        intro T
        obtain ⟨res1, q1, q2⟩ := readPrimary_fmt1 ctx ss (by omega) hexp hbnd (UInt8.ofNat (1 + flag)) (1 + flag)
          (by rcases hflag01 with ⟨hf, _⟩ | ⟨hf, _⟩ <;> subst hf <;> rfl) T
        refine ⟨res1, ?_, q2⟩
        rw [q1]
        congr 3
        simp only [List.length_append, List.length_cons, List.length_nil, length_flatMap_pairs]

end SfntV.Cff
