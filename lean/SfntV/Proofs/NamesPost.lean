/-
C14 — round trip of the glyph names through the "post" table model.
-/
import SfntV.Model.NamesPost

namespace SfntV.Names

theorem rd16_u16 (v : Nat) (rest : List Nat) (h : v < 65536) : rd16 (u16 v ++ rest) = some (v, rest) := by
  simp only [u16, List.cons_append, List.nil_append, rd16]
  congr 2; omega

theorem rd32_u32 (v : Nat) (rest : List Nat) (h : v < 4294967296) : rd32 (u32 v ++ rest) = some (v, rest) := by
  simp only [u32, List.cons_append, List.nil_append, rd32]
  congr 2; omega

theorem rd16s_flatMap (is rest : List Nat) (h : ∀ i ∈ is, i < 65536) :
    rd16s is.length (is.flatMap u16 ++ rest) = some (is, rest) := by
  induction is with
  | nil => rfl
  | cons i t ih =>
    simp only [List.flatMap_cons, List.length_cons, List.append_assoc, rd16s]
    rw [rd16_u16 _ _ (h i List.mem_cons_self)]
    simp only [ih (fun x hx => h x (List.mem_cons_of_mem _ hx))]

theorem rdBytes_append (n rest : List Nat) : rdBytes n.length (n ++ rest) = some (n, rest) := by
  simp [rdBytes]

theorem macIdx_some {tbl : List GName} {n : GName} {j : Nat} (h : macIdx tbl n = some j) :
    j < tbl.length ∧ tbl.getD j [] = n := by
  induction tbl generalizing j with
  | nil => simp [macIdx] at h
  | cons t rest ih =>
    unfold macIdx at h
    split at h
    · next j' hj' =>
      cases h
      have := ih hj'
      simp only [List.length_cons, List.getD_cons_succ]
      exact ⟨by omega, this.2⟩
    · split at h
      · next ht => cases h; simp [ht]
      · cases h

/-- number of names that are not standard Macintosh names (they go to the string data) -/
def customCount (tbl : List GName) (ns : List GName) : Nat :=
  (ns.filter fun n => (macIdx tbl n).isNone).length

theorem customCount_cons_some {tbl n rest j} (h : macIdx tbl n = some j) :
    customCount tbl (n :: rest) = customCount tbl rest := by
  simp [customCount, h]

theorem customCount_cons_none {tbl n rest} (h : macIdx tbl n = none) :
    customCount tbl (n :: rest) = customCount tbl rest + 1 := by
  simp [customCount, h]

theorem postEncodeNames_idx (tbl : List GName) (ns : List GName) (k : Nat)
    (hcap : tbl.length + k + customCount tbl ns ≤ 65536) :
    (postEncodeNames tbl ns k).1.length = ns.length ∧ ∀ i ∈ (postEncodeNames tbl ns k).1, i < 65536 := by
  induction ns generalizing k with
  | nil => simp [postEncodeNames]
  | cons n rest ih =>
    unfold postEncodeNames
    split
    · next j hj =>
      rw [customCount_cons_some hj] at hcap
      have := ih k hcap
      have hj' := macIdx_some hj
      refine ⟨by simp [this.1], ?_⟩
      intro i hi
      simp only [List.mem_cons] at hi
      rcases hi with rfl | hi
      · have : customCount tbl rest ≥ 0 := Nat.zero_le _
        omega
      · exact this.2 i hi
    · next hn =>
      rw [customCount_cons_none hn] at hcap
      have := ih (k + 1) (by omega)
      refine ⟨by simp [this.1], ?_⟩
      intro i hi
      simp only [List.mem_cons] at hi
      rcases hi with rfl | hi
      · omega
      · exact this.2 i hi

theorem postReadNames_encode (tbl : List GName) (ns : List GName) (custom : List GName)
    (hname : ∀ n ∈ ns, macIdx tbl n = none → n.length ≤ 255) :
    postReadNames tbl (postEncodeNames tbl ns custom.length).1 custom
      (postEncodeNames tbl ns custom.length).2 = some ns := by
  induction ns generalizing custom with
  | nil => simp [postEncodeNames, postReadNames]
  | cons n rest ih =>
    have hrest : ∀ m ∈ rest, macIdx tbl m = none → m.length ≤ 255 := fun x hx => hname x (List.mem_cons_of_mem _ hx)
    unfold postEncodeNames
    split
    · next j hj =>
      have hj' := macIdx_some hj
      simp only [postReadNames, hj'.1, if_true, ih custom hrest, hj'.2]
    · next hn =>
      have hl : n.length % 256 = n.length := Nat.mod_eq_of_lt (by have := hname n List.mem_cons_self hn; omega)
      have ih' := ih (custom ++ [n]) hrest
      simp only [List.length_append, List.length_singleton] at ih'
      simp only [postReadNames, Nat.not_lt.mpr (Nat.le_add_right _ _), if_false,
        Nat.add_sub_cancel_left]
      simp only [postFill, hl, rdBytes_append, ih']
      simp

theorem postHeader_read (tbl : List GName) (v : Nat) (h : PostHdr) (body : List Nat)
    (hv : v < 4294967296) (ha : h.angle < 4294967296) (hp : h.upos < 65536) (ht : h.uthick < 65536) :
    postReadWith tbl (postHeader v h ++ body) =
      (let hd : PostHdr := h
       if v = 0x00010000 then .ok hd (some tbl)
       else if v = 0x00020000 then
         match rd16 body with
         | none => .err
         | some (n, b1) =>
           match rd16s n b1 with
           | none => .err
           | some (idxs, b2) =>
             match postReadNames tbl idxs [] b2 with
             | none => .err
             | some names => .ok hd (some names)
       else if v = 0x00030000 || v = 0x00040000 then .ok hd none
       else .unsupported) := by
  have hf : (if h.fixed then 1 else 0 : Nat) < 4294967296 := by split <;> omega
  have hfx : ((if h.fixed then 1 else 0 : Nat) != 0) = h.fixed := by cases h.fixed <;> rfl
  unfold postReadWith postHeader
  simp only [List.append_assoc]
  rw [rd32_u32 _ _ hv]; simp only []
  rw [rd32_u32 _ _ ha]; simp only []
  rw [rd16_u16 _ _ hp]; simp only []
  rw [rd16_u16 _ _ ht]; simp only []
  rw [rd32_u32 _ _ hf]; simp only []
  have : rdBytes 16 (List.replicate 16 0 ++ body) = some (List.replicate 16 0, body) := by
    have := rdBytes_append (List.replicate 16 0) body
    simpa using this
  rw [this]; simp only [hfx]
  rfl

/-- header fields are bit patterns of the widths the table stores -/
def PostHdr.InRange (h : PostHdr) : Prop := h.angle < 4294967296 ∧ h.upos < 65536 ∧ h.uthick < 65536

theorem post_roundtrip_custom (tbl : List GName) (h : PostHdr) (hr : h.InRange) (ns : List GName)
    (hlen : ns.length ≤ 65535) (hname : ∀ n ∈ ns, macIdx tbl n = none → n.length ≤ 255)
    (hcap : tbl.length + customCount tbl ns ≤ 65536) :
    postReadWith tbl (postEncodeWith tbl h (some ns)) = .ok h (some ns) := by
  unfold postEncodeWith
  simp only []
  split
  · next heq =>
    have := postHeader_read tbl 0x00010000 h [] (by omega) hr.1 hr.2.1 hr.2.2
    simp only [List.append_nil] at this
    rw [this, heq]; simp
  · rw [postHeader_read tbl 0x00020000 h _ (by omega) hr.1 hr.2.1 hr.2.2]
    have hidx := postEncodeNames_idx tbl ns 0 (by omega)
    simp only [show (0x00020000 : Nat) ≠ 0x00010000 by omega, if_false, if_true]
    rw [rd16_u16 _ _ (by omega)]
    simp only []
    have h2 := rd16s_flatMap (postEncodeNames tbl ns 0).1 (postEncodeNames tbl ns 0).2 hidx.2
    rw [hidx.1] at h2
    rw [h2]
    simp only []
    have h3 := postReadNames_encode tbl ns [] hname
    simp only [List.length_nil] at h3
    rw [h3]

theorem post_roundtrip_with (tbl : List GName) (h : PostHdr) (hr : h.InRange) (ns : List GName)
    (hlen : ns.length ≤ 65535) (hname : ∀ n ∈ ns, n.length ≤ 255)
    (hcap : tbl.length + customCount tbl ns ≤ 65536) :
    postReadWith tbl (postEncodeWith tbl h (some ns)) = .ok h (some ns) :=
  post_roundtrip_custom tbl h hr ns hlen (fun n hn _ => hname n hn) hcap


theorem post_roundtrip_nil (tbl : List GName) (h : PostHdr) (hr : h.InRange) :
    postReadWith tbl (postEncodeWith tbl h none) = .ok h none := by
  unfold postEncodeWith
  have := postHeader_read tbl 0x00030000 h [] (by omega) hr.1 hr.2.1 hr.2.2
  simp only [List.append_nil] at this
  rw [this]; simp

theorem post_format1 (tbl : List GName) (h : PostHdr) :
    postEncodeWith tbl h (some tbl) = postHeader 0x00010000 h := by
  simp [postEncodeWith]

/-! ### the checked encoder -/

theorem postFits_iff (tbl ns : List GName) :
    postFits tbl ns = true ↔
      ns.length ≤ 65535 ∧ (∀ n ∈ ns, macIdx tbl n = none → n.length ≤ 255) ∧
        tbl.length + customCount tbl ns ≤ 65536 := by
  unfold postFits postCustom customCount
  simp only [Bool.and_eq_true, decide_eq_true_eq, List.all_eq_true, List.mem_filter, Option.isNone_iff_eq_none,
    and_imp]
  constructor
  · rintro ⟨⟨h1, h2⟩, h3⟩; exact ⟨h1, h2, h3⟩
  · rintro ⟨h1, h2, h3⟩; exact ⟨⟨h1, h2⟩, h3⟩

/-- the checked encoder returns bytes exactly when the list is the standard list or fits the
format, and then they are the bytes of `postEncodeWith` -/
theorem postEncodeChecked_ok_iff (tbl : List GName) (h : PostHdr) (ns : List GName) (b : List Nat) :
    postEncodeCheckedWith tbl h (some ns) = .ok b ↔
      (ns = tbl ∨ postFits tbl ns = true) ∧ b = postEncodeWith tbl h (some ns) := by
  unfold postEncodeCheckedWith
  by_cases h1 : ns = tbl
  · simp only [h1, if_true, Outcome.ok.injEq, true_or, true_and]
    exact eq_comm
  · by_cases h2 : postFits tbl ns = true
    · simp only [h1, h2, if_false, if_true, Outcome.ok.injEq, or_true, true_and]
      exact eq_comm
    · have h3 : postFits tbl ns = false := by
        cases hh : postFits tbl ns with
        | true => exact absurd hh h2
        | false => rfl
      simp only [h1, h3, if_false]
      constructor
      · intro h'; cases h'
      · rintro ⟨h' | h', _⟩
        · exact h'.elim
        · cases h'

/-- **no silent loss**: for every name list (any length, any names) the encoder either refuses
loudly or writes a table from which the reader returns the header fields and the list unchanged -/
theorem post_checked_roundtrip (tbl : List GName) (h : PostHdr) (hr : h.InRange)
    (names : Option (List GName)) :
    (∃ s, postEncodeCheckedWith tbl h names = .panic s) ∨
    (∃ b, postEncodeCheckedWith tbl h names = .ok b ∧ postReadWith tbl b = .ok h names) := by
  cases names with
  | none => exact Or.inr ⟨_, rfl, post_roundtrip_nil tbl h hr⟩
  | some ns =>
    unfold postEncodeCheckedWith
    by_cases h1 : ns = tbl
    · subst h1
      refine Or.inr ⟨postEncodeWith ns h (some ns), by simp, ?_⟩
      rw [post_format1]
      have := postHeader_read ns 0x00010000 h [] (by omega) hr.1 hr.2.1 hr.2.2
      simp only [List.append_nil] at this
      rw [this]; simp
    · by_cases h2 : postFits tbl ns = true
      · obtain ⟨a, b', c⟩ := (postFits_iff tbl ns).mp h2
        exact Or.inr ⟨postEncodeWith tbl h (some ns), by simp [h1, h2], post_roundtrip_custom tbl h hr ns a b' c⟩
      · exact Or.inl ⟨"post.Encode", by simp [h1, h2]⟩

end SfntV.Names
