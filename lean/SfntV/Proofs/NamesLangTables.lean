/-
C14 — table-level obligations on the regenerated language-id tables of name/locale.go
(`appleBCP`, `msBCP`): no two language ids share a BCP 47 tag (with the exact exceptions), and every
value has the shape of a BCP 47 tag.  Kernel evaluation over the whole tables; strings are compared
through the injective numeric code of Proofs/NamesLocale.
-/
import SfntV.Proofs.NamesLocale

namespace SfntV.Names

def strCode (s : String) : Nat := codeR (s.toUTF8.toList.map UInt8.toNat)

/-- no two entries (in list order) carry the same code, unless `exc` allows the pair of ids -/
def noAliasExcept (exc : Nat → Nat → Bool) : List (Nat × Nat) → Bool
  | [] => true
  | p :: rest => rest.all (fun q => !(Nat.beq p.2 q.2) || exc p.1 q.1) && noAliasExcept exc rest

theorem noAliasExcept_pairwise (exc : Nat → Nat → Bool) (l : List (Nat × Nat))
    (h : noAliasExcept exc l = true) : l.Pairwise fun p q => p.2 = q.2 → exc p.1 q.1 = true := by
  induction l with
  | nil => exact List.Pairwise.nil
  | cons p rest ih =>
    simp only [noAliasExcept, Bool.and_eq_true, List.all_eq_true, Bool.or_eq_true, Bool.not_eq_true'] at h
    refine List.pairwise_cons.mpr ⟨?_, ih h.2⟩
    intro q hq heq
    rcases h.1 q hq with hne | he
    · rw [heq, Nat.beq_refl] at hne; cases hne
    · exact he

/-- lifting to the table of strings: equal tags have equal codes -/
theorem table_injective (exc : Nat → Nat → Bool) (tbl : List (Nat × String))
    (h : noAliasExcept exc (tbl.map fun p => (p.1, strCode p.2)) = true) :
    tbl.Pairwise fun p q => p.2 = q.2 → exc p.1 q.1 = true := by
  have := noAliasExcept_pairwise exc _ h
  rw [List.pairwise_map] at this
  exact this.imp fun hpq heq => hpq (by simp only [heq])

/-- `language[-Script][-REGION]`: 2–3 lower-case letters, optionally a script (capital + 3 lower-case
letters), optionally a region (2 capitals or 3 digits); on the UTF-8 bytes of the tag -/
def isLowerB (c : Nat) : Bool := Nat.ble 97 c && Nat.ble c 122
def isUpperB (c : Nat) : Bool := Nat.ble 65 c && Nat.ble c 90
def isDigitB (c : Nat) : Bool := Nat.ble 48 c && Nat.ble c 57

def wfLang (l : List Nat) : Bool := (l.length == 2 || l.length == 3) && l.all isLowerB
def wfScript : List Nat → Bool
  | [a, b, c, d] => isUpperB a && isLowerB b && isLowerB c && isLowerB d
  | _ => false
def wfRegion (l : List Nat) : Bool :=
  (l.length == 2 && l.all isUpperB) || (l.length == 3 && l.all isDigitB)

def wfTag (s : String) : Bool :=
  match splitDash (s.toUTF8.toList.map UInt8.toNat) with
  | [l] => wfLang l
  | [l, x] => wfLang l && (wfScript x || wfRegion x)
  | [l, x, y] => wfLang l && wfScript x && wfRegion y
  | _ => false

def aliasMs (a b : Nat) : Bool := (a == 0x0C0A && b == 0x040A) || (a == 0x040A && b == 0x0C0A)

theorem appleBCP_injective : noAliasExcept (fun _ _ => false) (Gen.appleBCP.map fun p => (p.1, strCode p.2)) = true := by
  decide +kernel

theorem msBCP_injective : noAliasExcept aliasMs (Gen.msBCP.map fun p => (p.1, strCode p.2)) = true := by
  decide +kernel

theorem appleBCP_wellformed : (Gen.appleBCP.all fun p => wfTag p.2) = true := by decide +kernel
theorem msBCP_wellformed : (Gen.msBCP.all fun p => wfTag p.2) = true := by decide +kernel

end SfntV.Names
