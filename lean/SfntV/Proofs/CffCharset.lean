/-
Helper lemmas about the charset model (cff/charset.go).  Property theorems: Props/C13.lean.
-/
import SfntV.Model.CffCharset
import SfntV.Proofs.CffIndex

namespace SfntV.Cff
open SfntV

/-- the names `f, f+1, …` (`n` of them) -/
def runNames : Int → Nat → List Int
  | _, 0 => []
  | f, n+1 => f :: runNames (f + 1) n

theorem runNames_zero (f : Int) : runNames f 0 = [] := rfl

theorem runNames_succ (f : Int) (n : Nat) : runNames f (n + 1) = f :: runNames (f + 1) n := rfl

theorem length_runNames (f : Int) (n : Nat) : (runNames f n).length = n := by
  induction n generalizing f with
  | zero => rfl
  | succ n ih => simp [runNames, ih]

theorem runNames_add (f : Int) (a b : Nat) :
    runNames f (a + b) = runNames f a ++ runNames (f + a) b := by
  induction a generalizing f with
  | zero => simp [runNames_zero]
  | succ a ih =>
    have : a + 1 + b = (a + b) + 1 := by omega
    rw [this, runNames_succ, runNames_succ, ih (f + 1)]
    simp only [List.cons_append]
    congr 3
    omega

theorem mem_runNames (f : Int) (n : Nat) (y : Int) : y ∈ runNames f n ↔ f ≤ y ∧ y < f + n := by
  induction n generalizing f with
  | zero => simp [runNames]
  | succ n ih =>
    simp only [runNames, List.mem_cons, ih]
    omega

theorem nameRange_eq (f : Int) (n : Nat) (h : 0 ≤ f) : nameRange f.toNat n = runNames f n := by
  induction n generalizing f with
  | zero => rfl
  | succ n ih =>
    simp only [nameRange, runNames]
    have h1 : ((f.toNat : Nat) : Int) = f := by omega
    have h2 : f.toNat + 1 = (f + 1).toNat := by omega
    rw [h1, h2, ih (f + 1) (by omega)]

/-! ### runs -/

theorem groupRuns_eq_nil (tl : List Int) : groupRuns tl = [] ↔ tl = [] := by
  cases tl with
  | nil => simp [groupRuns]
  | cons x xs =>
    simp only [groupRuns]
    cases groupRuns xs with
    | nil => simp
    | cons r rs =>
      obtain ⟨f, n⟩ := r
      simp only
      split <;> simp

theorem expand_groupRuns (tl : List Int) :
    (groupRuns tl).flatMap (fun r => runNames r.1 r.2) = tl := by
  induction tl with
  | nil => simp [groupRuns]
  | cons x xs ih =>
    simp only [groupRuns]
    cases h : groupRuns xs with
    | nil =>
      have : xs = [] := (groupRuns_eq_nil xs).mp h
      subst this
      simp [runNames]
    | cons r rs =>
      obtain ⟨f, n⟩ := r
      rw [h] at ih
      simp only
      split
      · rename_i hf
        simp only [List.flatMap_cons] at ih ⊢
        rw [runNames_succ, ← hf, List.cons_append, ih]
      · simp only [List.flatMap_cons] at ih ⊢
        rw [ih]
        simp [runNames]

theorem groupRuns_pos (tl : List Int) : ∀ r ∈ groupRuns tl, 1 ≤ r.2 := by
  induction tl with
  | nil => simp [groupRuns]
  | cons x xs ih =>
    simp only [groupRuns]
    cases h : groupRuns xs with
    | nil => simp
    | cons r rs =>
      obtain ⟨f, n⟩ := r
      rw [h] at ih
      simp only
      split
      · intro r hr
        simp only [List.mem_cons] at hr
        rcases hr with rfl | hr
        · simp
        · exact ih r (List.mem_cons_of_mem _ hr)
      · intro r hr
        simp only [List.mem_cons] at hr
        rcases hr with rfl | hr
        · simp
        · exact ih r (by simpa using hr)

theorem sum_groupRuns (tl : List Int) : ((groupRuns tl).map (·.2)).sum = tl.length := by
  have h := congrArg List.length (expand_groupRuns tl)
  rw [List.length_flatMap] at h
  simpa [length_runNames] using h

/-- every run lies inside the range of the names -/
theorem groupRuns_bounds (tl : List Int) (lo hi : Int) (hb : ∀ x ∈ tl, lo ≤ x ∧ x ≤ hi) :
    ∀ r ∈ groupRuns tl, lo ≤ r.1 ∧ r.1 + r.2 ≤ hi + 1 := by
  intro r hr
  have hpos := groupRuns_pos tl r hr
  have hmem : ∀ y ∈ runNames r.1 r.2, y ∈ tl := by
    intro y hy
    rw [← expand_groupRuns tl]
    exact List.mem_flatMap.mpr ⟨r, hr, hy⟩
  have h1 := hb r.1 (hmem _ ((mem_runNames _ _ _).mpr (by omega)))
  have h2 := hb (r.1 + r.2 - 1) (hmem _ ((mem_runNames _ _ _).mpr (by omega)))
  omega


/-! ### bytes of a name and of a range -/

theorem length_nameBytes (x : Int) : (nameBytes x).length = 2 := rfl

theorem beVal_nameBytes (x : Int) (h : 0 ≤ x ∧ x ≤ 65535) : beVal (nameBytes x) = x.toNat := by
  simp only [nameBytes, beVal, List.length_cons, List.length_nil]
  have h1 : (UInt8.ofNat (x / 256 % 256).toNat).toNat = (x / 256 % 256).toNat :=
    by simp [UInt8.toNat_ofNat']; omega
  have h2 : (UInt8.ofNat (x % 256).toNat).toNat = (x % 256).toNat :=
    by simp [UInt8.toNat_ofNat']; omega
  rw [h1, h2]
  omega

/-- a range as written in formats 1 (`w = 1`) and 2 (`w = 2`): first name, then `count-1` -/
def segBytes (w : Nat) (s : Int × Nat) : Bytes := nameBytes s.1 ++ beN w (s.2 - 1)

theorem length_segBytes (w : Nat) (s : Int × Nat) : (segBytes w s).length = 2 + w := by
  simp [segBytes, length_nameBytes, length_beN]

theorem length_flatMap_segBytes (w : Nat) (segs : List (Int × Nat)) :
    (segs.flatMap (segBytes w)).length = segs.length * (2 + w) := by
  induction segs with
  | nil => simp
  | cons s segs ih => simp only [List.flatMap_cons, List.length_append, length_segBytes, ih, List.length_cons]; rw [Nat.succ_mul]; omega

/-- The range loop of `readCharset` reads back a list of written ranges. -/
theorem readRanges_written (w : Nat) (segs : List (Int × Nat)) :
    ∀ (A B : Bytes) (fuel need c : Nat), c = A.length →
      (∀ s ∈ segs, 1 ≤ s.2 ∧ 0 ≤ s.1 ∧ s.1 + s.2 ≤ 65536 ∧ s.2 - 1 < 256 ^ w) →
      need = (segs.map (·.2)).sum → need ≤ fuel →
      readRanges (A ++ segs.flatMap (segBytes w) ++ B) w fuel need c
        = .ok (segs.flatMap (fun s => runNames s.1 s.2), c + segs.length * (2 + w)) := by
  induction segs with
  | nil =>
    intro A B fuel need c _ _ hn _
    simp only [List.map_nil, List.sum_nil] at hn
    subst hn
    cases fuel <;> simp [readRanges]
  | cons s segs ih =>
    intro A B fuel need c hc hb hn hf
    have hs := hb s (List.mem_cons_self ..)
    simp only [List.map_cons, List.sum_cons] at hn
    obtain ⟨need', rfl⟩ : ∃ k, need = k + 1 := ⟨need - 1, by omega⟩
    obtain ⟨fuel', rfl⟩ : ∃ k, fuel = k + 1 := ⟨fuel - 1, by omega⟩
    simp only [readRanges]
    have hd1 : A ++ (s :: segs).flatMap (segBytes w) ++ B
        = A ++ nameBytes s.1 ++ (beN w (s.2 - 1) ++ segs.flatMap (segBytes w) ++ B) := by
      simp [List.flatMap_cons, segBytes, List.append_assoc]
    have hd2 : A ++ (s :: segs).flatMap (segBytes w) ++ B
        = (A ++ nameBytes s.1) ++ beN w (s.2 - 1) ++ (segs.flatMap (segBytes w) ++ B) := by
      simp [List.flatMap_cons, segBytes, List.append_assoc]
    have hd3 : A ++ (s :: segs).flatMap (segBytes w) ++ B
        = (A ++ segBytes w s) ++ segs.flatMap (segBytes w) ++ B := by
      simp [List.flatMap_cons, List.append_assoc]
    have hr1 : rd (A ++ (s :: segs).flatMap (segBytes w) ++ B) c 2 = some (nameBytes s.1) := by
      rw [hd1]; exact rd_mid _ _ _ _ _ hc rfl
    have hr2 : rd (A ++ (s :: segs).flatMap (segBytes w) ++ B) (c + 2) w = some (beN w (s.2 - 1)) := by
      rw [hd2]; exact rd_mid _ _ _ _ _ (by simp [length_nameBytes, hc]) (length_beN _ _).symm
    rw [hr1]; simp only
    rw [hr2]; simp only
    rw [beVal_nameBytes s.1 (by omega), beVal_beN_lt w (s.2 - 1) hs.2.2.2]
    have hcond : ¬ (s.1.toNat + (s.2 - 1) > 0xFFFF ∨ s.2 - 1 + 1 > need' + 1) := by omega
    simp only [hcond, if_false]
    have hrec := ih (A ++ segBytes w s) B fuel' (need' + 1 - (s.2 - 1 + 1)) (c + 2 + w)
      (by simp [length_segBytes, hc]; omega)
      (fun x hx => hb x (List.mem_cons_of_mem _ hx)) (by omega) (by omega)
    rw [hd3, hrec]
    simp only [List.flatMap_cons, List.length_cons]
    rw [nameRange_eq s.1 _ hs.2.1]
    have : s.2 - 1 + 1 = s.2 := by omega
    rw [this]
    congr 2
    rw [Nat.succ_mul]; omega

/-! ### format 0 -/

theorem readU16s_written (tl : List Int) :
    ∀ (A B : Bytes) (c : Nat), c = A.length → (∀ x ∈ tl, 0 ≤ x ∧ x ≤ 65535) →
      readU16s (A ++ tl.flatMap nameBytes ++ B) tl.length c = .ok tl := by
  induction tl with
  | nil => intro A B c _ _; rfl
  | cons x xs ih =>
    intro A B c hc hb
    have hx := hb x (List.mem_cons_self ..)
    simp only [List.length_cons, readU16s]
    have hd1 : A ++ (x :: xs).flatMap nameBytes ++ B = A ++ nameBytes x ++ (xs.flatMap nameBytes ++ B) := by
      simp [List.flatMap_cons, List.append_assoc]
    have hd2 : A ++ (x :: xs).flatMap nameBytes ++ B = (A ++ nameBytes x) ++ xs.flatMap nameBytes ++ B := by
      simp [List.flatMap_cons, List.append_assoc]
    have hr : rd (A ++ (x :: xs).flatMap nameBytes ++ B) c 2 = some (nameBytes x) := by
      rw [hd1]; exact rd_mid _ _ _ _ _ hc rfl
    rw [hr]; simp only
    have hrec := ih (A ++ nameBytes x) B (c + 2) (by simp [length_nameBytes, hc])
      (fun y hy => hb y (List.mem_cons_of_mem _ hy))
    rw [hd2, hrec, beVal_nameBytes x hx]
    simp only
    congr 2
    omega

theorem length_flatMap_nameBytes (tl : List Int) : (tl.flatMap nameBytes).length = 2 * tl.length := by
  induction tl with
  | nil => rfl
  | cons x xs ih => simp only [List.flatMap_cons, List.length_append, length_nameBytes, ih, List.length_cons]; omega


/-! ### format 1: chunks of at most 256 names -/

def chunks : Nat → Int → Nat → List (Int × Nat)
  | 0, _, _ => []
  | fuel+1, name, len =>
    if len > 0 then
      let chunk := if len > 256 then 256 else len
      (name, chunk) :: chunks fuel (name + chunk) (len - chunk)
    else []

theorem beN_one_lt (v : Nat) (h : v < 256) : beN 1 v = [UInt8.ofNat v] := by
  simp [beN, Nat.mod_eq_of_lt h]

theorem fmt1Run_eq (fuel : Nat) (name : Int) (len : Nat) :
    fmt1Run fuel name len = (chunks fuel name len).flatMap (segBytes 1) := by
  induction fuel generalizing name len with
  | zero => rfl
  | succ fuel ih =>
    simp only [fmt1Run, chunks]
    split
    · simp only [List.flatMap_cons, segBytes]
      rw [ih, beN_one_lt _ (by split <;> omega)]
    · rfl

theorem chunks_spec (fuel : Nat) (name : Int) (len : Nat) (hf : len ≤ fuel) :
    (chunks fuel name len).flatMap (fun s => runNames s.1 s.2) = runNames name len ∧
    ((chunks fuel name len).map (·.2)).sum = len ∧
    ∀ s ∈ chunks fuel name len, 1 ≤ s.2 ∧ s.2 ≤ 256 ∧ name ≤ s.1 ∧ s.1 + s.2 ≤ name + len := by
  induction fuel generalizing name len with
  | zero =>
    have : len = 0 := by omega
    subst this
    simp [chunks, runNames]
  | succ fuel ih =>
    simp only [chunks]
    split
    · rename_i hpos
      generalize hch : (if len > 256 then 256 else len) = chunk
      have hc1 : 1 ≤ chunk ∧ chunk ≤ 256 ∧ chunk ≤ len := by subst hch; split <;> omega
      obtain ⟨h1, h2, h3⟩ := ih (name + chunk) (len - chunk) (by omega)
      refine ⟨?_, ?_, ?_⟩
      · simp only [List.flatMap_cons, h1]
        have : len = chunk + (len - chunk) := by omega
        conv => rhs; rw [this]
        rw [runNames_add]
      · simp only [List.map_cons, List.sum_cons, h2]; omega
      · intro s hs
        simp only [List.mem_cons] at hs
        rcases hs with rfl | hs
        · simp only; omega
        · have := h3 s hs; omega
    · have : len = 0 := by omega
      subst this
      simp [runNames]

theorem fmt2Run_eq (name : Int) (len : Nat) : fmt2Run name len = segBytes 2 (name, len) := by
  simp [fmt2Run, segBytes, beN]

/-! ### write then read -/

theorem flatMap_sum_length {α β : Type} (l : List α) (f : α → List β) :
    (l.flatMap f).length = (l.map fun a => (f a).length).sum := by
  induction l with
  | nil => rfl
  | cons a l ih => simp [List.flatMap_cons, ih]

theorem flatMap_congr' {α β : Type} (l : List α) (f g : α → List β) (h : ∀ a ∈ l, f a = g a) :
    l.flatMap f = l.flatMap g := by
  induction l with
  | nil => rfl
  | cons a l ih =>
    simp only [List.flatMap_cons]
    rw [h a (List.mem_cons_self ..), ih (fun x hx => h x (List.mem_cons_of_mem _ hx))]

/-- reading a list of ranges placed behind a format byte -/
theorem readCharset_ranges (w : Nat) (hw : w = 1 ∨ w = 2) (tl : List Int) (segs : List (Int × Nat))
    (hlen : tl.length + 1 < 65536)
    (hexp : segs.flatMap (fun s => runNames s.1 s.2) = tl)
    (hb : ∀ s ∈ segs, 1 ≤ s.2 ∧ 0 ≤ s.1 ∧ s.1 + s.2 ≤ 65536 ∧ s.2 - 1 < 256 ^ w)
    (pre rest : Bytes) :
    readCharset (pre ++ (UInt8.ofNat w :: segs.flatMap (segBytes w)) ++ rest) pre.length (tl.length + 1)
      = .ok (0 :: tl, pre.length + (UInt8.ofNat w :: segs.flatMap (segBytes w)).length) := by
  unfold readCharset
  have hg : ¬ (tl.length + 1 < 1 ∨ tl.length + 1 ≥ 0x10000) := by omega
  simp only [hg, if_false]
  have hd1 : pre ++ (UInt8.ofNat w :: segs.flatMap (segBytes w)) ++ rest
      = pre ++ [UInt8.ofNat w] ++ (segs.flatMap (segBytes w) ++ rest) := by simp [List.append_assoc]
  have hd2 : pre ++ (UInt8.ofNat w :: segs.flatMap (segBytes w)) ++ rest
      = (pre ++ [UInt8.ofNat w]) ++ segs.flatMap (segBytes w) ++ rest := by simp [List.append_assoc]
  have hr : rd (pre ++ (UInt8.ofNat w :: segs.flatMap (segBytes w)) ++ rest) pre.length 1 = some [UInt8.ofNat w] := by
    rw [hd1]; exact rd_mid _ _ _ _ _ rfl rfl
  rw [hr]; simp only
  have hv : beVal [UInt8.ofNat w] = w := by rw [beVal_single]; omega
  rw [hv]
  have h0 : ¬ w = 0 := by omega
  simp only [h0, if_false, hw, if_true]
  have hsum : (segs.map (·.2)).sum = tl.length := by
    have := congrArg List.length hexp
    rw [flatMap_sum_length] at this
    simpa [length_runNames] using this
  have hrec := readRanges_written w segs (pre ++ [UInt8.ofNat w]) rest (tl.length + 1 - 1) (tl.length + 1 - 1)
    (pre.length + 1) (by simp) hb (by omega) (Nat.le_refl _)
  rw [hd2, hrec, hexp]
  simp only [List.length_cons, length_flatMap_segBytes]
  congr 2
  omega


/-- `readCharset` reads back what `encodeCharset` wrote, whichever of the three formats was
chosen, and stops right behind the charset data. -/
theorem readCharset_encodeCharset (tl : List Int) (hlen : tl.length + 1 < 65536)
    (hb : ∀ x ∈ tl, 0 ≤ x ∧ x ≤ 65535) (pre rest : Bytes) :
    ∃ bs, encodeCharset (0 :: tl) = .ok bs ∧
      readCharset (pre ++ bs ++ rest) pre.length (tl.length + 1) = .ok (0 :: tl, pre.length + bs.length) := by
  unfold encodeCharset
  have hany : tl.any (fun x => decide (x < 0 ∨ x > 0xFFFF)) = false := by
    rw [List.any_eq_false]
    intro x hx
    have := hb x hx
    simp only [decide_eq_true_eq]
    omega
  simp only [ne_eq, not_true_eq_false, if_false, hany, Bool.false_eq_true]
  have hruns := groupRuns_bounds tl 0 65535 hb
  have hpos := groupRuns_pos tl
  split
  · -- format 0
    refine ⟨_, rfl, ?_⟩
    unfold readCharset
    have hg : ¬ (tl.length + 1 < 1 ∨ tl.length + 1 ≥ 0x10000) := by omega
    simp only [hg, if_false]
    have hd1 : pre ++ (0 :: tl.flatMap nameBytes) ++ rest = pre ++ [0] ++ (tl.flatMap nameBytes ++ rest) := by
      simp [List.append_assoc]
    have hd2 : pre ++ (0 :: tl.flatMap nameBytes) ++ rest = (pre ++ [0]) ++ tl.flatMap nameBytes ++ rest := by
      simp [List.append_assoc]
    have hr : rd (pre ++ (0 :: tl.flatMap nameBytes) ++ rest) pre.length 1 = some [0] := by
      rw [hd1]; exact rd_mid _ _ _ _ _ rfl rfl
    rw [hr]; simp only
    have hv : beVal ([0] : Bytes) = 0 := by simp [beVal]
    rw [hv]
    simp only [if_true]
    have hrec := readU16s_written tl (pre ++ [0]) rest (pre.length + 1) (by simp) hb
    rw [hd2]
    simp only [Nat.add_sub_cancel]
    rw [hrec]
    simp only [List.length_cons, length_flatMap_nameBytes]
    congr 2
    omega
  · split
    · -- format 1
      refine ⟨_, rfl, ?_⟩
      have hsegs : ((groupRuns tl).flatMap fun r => fmt1Run r.2 r.1 r.2)
          = ((groupRuns tl).flatMap fun r => chunks r.2 r.1 r.2).flatMap (segBytes 1) := by
        rw [List.flatMap_assoc]
        apply flatMap_congr'
        intro r _
        exact fmt1Run_eq _ _ _
      rw [hsegs]
      have := readCharset_ranges 1 (Or.inl rfl) tl ((groupRuns tl).flatMap fun r => chunks r.2 r.1 r.2) hlen
        (by
          rw [List.flatMap_assoc]
          have : ((groupRuns tl).flatMap fun r => (chunks r.2 r.1 r.2).flatMap fun s => runNames s.1 s.2)
              = (groupRuns tl).flatMap fun r => runNames r.1 r.2 := by
            apply flatMap_congr'
            intro r _
            exact (chunks_spec r.2 r.1 r.2 (Nat.le_refl _)).1
          rw [this, expand_groupRuns])
        (by
          intro s hs
          obtain ⟨r, hr, hsr⟩ := List.mem_flatMap.mp hs
          have h1 := (chunks_spec r.2 r.1 r.2 (Nat.le_refl _)).2.2 s hsr
          have h2 := hruns r hr
          omega)
        pre rest
      exact this
    · -- format 2
      refine ⟨_, rfl, ?_⟩
      have hsegs : ((groupRuns tl).flatMap fun r => fmt2Run r.1 r.2) = (groupRuns tl).flatMap (segBytes 2) := by
        apply flatMap_congr'
        intro r _
        exact fmt2Run_eq _ _
      rw [hsegs]
      exact readCharset_ranges 2 (Or.inr rfl) tl (groupRuns tl) hlen (expand_groupRuns tl)
        (by
          intro s hs
          have h1 := hruns s hs
          have h2 := hpos s hs
          omega)
        pre rest

end SfntV.Cff
