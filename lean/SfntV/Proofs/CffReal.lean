/-
Helper lemmas about the nibble-coded reals of DICTs (cff/dict.go encodeFloat/decodeFloat).
-/
import SfntV.Model.CffDict

namespace SfntV.Cff
open SfntV

/-! ### nibble transport: `packNibbles` / `floatNibbles` -/

theorem floatNibbles_pack (rest : Bytes) : ∀ (ns : List Nat), (∀ x ∈ ns, x < 15) →
    floatNibbles (packNibbles ns ++ rest) = some (ns, rest)
  | [], _ => by
    simp [packNibbles, floatNibbles]
  | [a], h => by
    have ha : a < 15 := h a (List.mem_cons_self ..)
    have hv : (UInt8.ofNat (a * 16 + 15)).toNat = a * 16 + 15 := by
      simp [UInt8.toNat_ofNat']; omega
    simp only [packNibbles, List.cons_append, List.nil_append, floatNibbles, hv]
    have h1 : ¬ (a * 16 + 15) / 16 = 15 := by omega
    have h2 : (a * 16 + 15) % 16 = 15 := by omega
    have h3 : (a * 16 + 15) / 16 = a := by omega
    have h5 : ¬ a = 15 := by omega
    simp [h2, h3, h5]
  | a :: b :: r, h => by
    have ha : a < 15 := h a (List.mem_cons_self ..)
    have hb : b < 15 := h b (List.mem_cons_of_mem _ (List.mem_cons_self ..))
    have hv : (UInt8.ofNat (a * 16 + b)).toNat = a * 16 + b := by
      simp [UInt8.toNat_ofNat']; omega
    have ih := floatNibbles_pack rest r (fun x hx => h x (List.mem_cons_of_mem _ (List.mem_cons_of_mem _ hx)))
    simp only [packNibbles, List.cons_append, floatNibbles, hv]
    have h1 : ¬ (a * 16 + b) / 16 = 15 := by omega
    have h2 : ¬ (a * 16 + b) % 16 = 15 := by omega
    have h3 : (a * 16 + b) / 16 = a := by omega
    have h4 : (a * 16 + b) % 16 = b := by omega
    have h5 : ¬ a = 15 := by omega
    have h6 : ¬ b = 15 := by omega
    simp [h3, h4, h5, h6, ih]

/-! ### decimal digits -/

/-- value of a digit list, most significant first -/
def valOf (ds : List Nat) : Nat := ds.foldl (fun a d => a * 10 + d) 0

theorem foldl_val (ds : List Nat) (a : Nat) :
    ds.foldl (fun a d => a * 10 + d) a = a * 10 ^ ds.length + valOf ds := by
  induction ds generalizing a with
  | nil => simp [valOf]
  | cons d ds ih =>
    simp only [List.foldl_cons, List.length_cons, valOf]
    rw [ih (a * 10 + d), ih (0 * 10 + d)]
    simp only [Nat.zero_mul, Nat.zero_add, Nat.pow_succ]
    rw [Nat.add_mul, Nat.mul_assoc, Nat.mul_comm 10 (10 ^ ds.length)]
    omega

theorem valOf_cons (d : Nat) (ds : List Nat) : valOf (d :: ds) = d * 10 ^ ds.length + valOf ds := by
  simp only [valOf, List.foldl_cons, Nat.zero_mul, Nat.zero_add]
  rw [foldl_val]; rfl

theorem valOf_append (a b : List Nat) : valOf (a ++ b) = valOf a * 10 ^ b.length + valOf b := by
  simp only [valOf, List.foldl_append]
  rw [foldl_val]; rfl

theorem digitsAux_spec : ∀ (fuel x : Nat) (acc : List Nat), x < fuel →
    valOf (digitsAux fuel x acc) = x * 10 ^ acc.length + valOf acc ∧
    ((∀ d ∈ acc, d < 10) → ∀ d ∈ digitsAux fuel x acc, d < 10) := by
  intro fuel
  induction fuel with
  | zero => intro x acc h; omega
  | succ fuel ih =>
    intro x acc h
    simp only [digitsAux]
    by_cases hx : x = 0
    · simp [hx]
    · simp only [hx, if_false]
      have := ih (x / 10) (x % 10 :: acc) (by omega)
      refine ⟨?_, ?_⟩
      · rw [this.1, valOf_cons, List.length_cons, Nat.pow_succ]
        have h10 : x = x / 10 * 10 + x % 10 := by omega
        generalize 10 ^ acc.length = p at *
        have hm : x * p = x / 10 * (p * 10) + x % 10 * p := by
          conv => lhs; rw [h10]
          rw [Nat.add_mul, Nat.mul_assoc, Nat.mul_comm 10 p]
        omega
      · intro hacc
        apply this.2
        intro d hd
        simp only [List.mem_cons] at hd
        rcases hd with rfl | hd
        · omega
        · exact hacc d hd

theorem valOf_digitsOf (x : Nat) : valOf (digitsOf x) = x := by
  have := (digitsAux_spec (x + 1) x [] (by omega)).1
  simpa [digitsOf, valOf] using this

theorem digitsOf_lt (x : Nat) : ∀ d ∈ digitsOf x, d < 10 :=
  (digitsAux_spec (x + 1) x [] (by omega)).2 (by simp)

/-! ### scanning digits -/

theorem takeDigits_digits (ds : List Nat) (hd : ∀ d ∈ ds, d < 10) (tail : List Nat)
    (ht : ∀ c r, tail = c :: r → ¬ c < 10) (acc n : Nat) :
    takeDigits (ds ++ tail) acc n = (acc * 10 ^ ds.length + valOf ds, n + ds.length, tail) := by
  induction ds generalizing acc n with
  | nil =>
    simp only [List.nil_append, List.length_nil, Nat.pow_zero, Nat.mul_one, valOf, List.foldl_nil, Nat.add_zero]
    cases tail with
    | nil => rfl
    | cons c r =>
      have := ht c r rfl
      simp [takeDigits, isDig, this]
  | cons d ds ih =>
    have hdd : d < 10 := hd d (List.mem_cons_self ..)
    simp only [List.cons_append, takeDigits, isDig, hdd, decide_true, if_true]
    rw [ih (fun x hx => hd x (List.mem_cons_of_mem _ hx)), valOf_cons, List.length_cons, Nat.pow_succ]
    congr 1
    · rw [Nat.add_mul, Nat.mul_assoc, Nat.mul_comm 10 (10 ^ ds.length)]; omega
    · congr 1; omega

end SfntV.Cff
