/-
Helper lemmas about the nibble-coded reals of DICTs (cff/dict.go encodeFloat/decodeFloat).
-/
import SfntV.Model.CffDict

namespace SfntV.Cff
open SfntV

/-! ### nibble transport: `packNibbles` / `floatNibbles` -/

theorem floatNibbles_pack (rest : Bytes) : ∀ (ns : List Nat), (∀ x ∈ ns, x < 15) →
    floatNibbles (packNibbles ns ++ rest) = some (ns, rest)
  | [], _ => by
    simp [packNibbles, floatNibbles]
  | [a], h => by
    have ha : a < 15 := h a (List.mem_cons_self ..)
    have hv : (UInt8.ofNat (a * 16 + 15)).toNat = a * 16 + 15 := by
      simp [UInt8.toNat_ofNat']; omega
    simp only [packNibbles, List.cons_append, List.nil_append, floatNibbles, hv]
    have h1 : ¬ (a * 16 + 15) / 16 = 15 := by omega
    have h2 : (a * 16 + 15) % 16 = 15 := by omega
    have h3 : (a * 16 + 15) / 16 = a := by omega
    have h5 : ¬ a = 15 := by omega
    simp [h2, h3, h5]
  | a :: b :: r, h => by
    have ha : a < 15 := h a (List.mem_cons_self ..)
    have hb : b < 15 := h b (List.mem_cons_of_mem _ (List.mem_cons_self ..))
    have hv : (UInt8.ofNat (a * 16 + b)).toNat = a * 16 + b := by
      simp [UInt8.toNat_ofNat']; omega
    have ih := floatNibbles_pack rest r (fun x hx => h x (List.mem_cons_of_mem _ (List.mem_cons_of_mem _ hx)))
    simp only [packNibbles, List.cons_append, floatNibbles, hv]
    have h1 : ¬ (a * 16 + b) / 16 = 15 := by omega
    have h2 : ¬ (a * 16 + b) % 16 = 15 := by omega
    have h3 : (a * 16 + b) / 16 = a := by omega
    have h4 : (a * 16 + b) % 16 = b := by omega
    have h5 : ¬ a = 15 := by omega
    have h6 : ¬ b = 15 := by omega
    simp [h3, h4, h5, h6, ih]

/-! ### decimal digits -/

/-- value of a digit list, most significant first -/
def valOf (ds : List Nat) : Nat := ds.foldl (fun a d => a * 10 + d) 0

theorem foldl_val (ds : List Nat) (a : Nat) :
    ds.foldl (fun a d => a * 10 + d) a = a * 10 ^ ds.length + valOf ds := by
  induction ds generalizing a with
  | nil => simp [valOf]
  | cons d ds ih =>
    simp only [List.foldl_cons, List.length_cons, valOf]
    rw [ih (a * 10 + d), ih (0 * 10 + d)]
    simp only [Nat.zero_mul, Nat.zero_add, Nat.pow_succ]
    rw [Nat.add_mul, Nat.mul_assoc, Nat.mul_comm 10 (10 ^ ds.length)]
    omega

theorem valOf_cons (d : Nat) (ds : List Nat) : valOf (d :: ds) = d * 10 ^ ds.length + valOf ds := by
  simp only [valOf, List.foldl_cons, Nat.zero_mul, Nat.zero_add]
  rw [foldl_val]; rfl

theorem valOf_append (a b : List Nat) : valOf (a ++ b) = valOf a * 10 ^ b.length + valOf b := by
  simp only [valOf, List.foldl_append]
  rw [foldl_val]; rfl

theorem digitsAux_spec : ∀ (fuel x : Nat) (acc : List Nat), x < fuel →
    valOf (digitsAux fuel x acc) = x * 10 ^ acc.length + valOf acc ∧
    ((∀ d ∈ acc, d < 10) → ∀ d ∈ digitsAux fuel x acc, d < 10) := by
  intro fuel
  induction fuel with
  | zero => intro x acc h; omega
  | succ fuel ih =>
    intro x acc h
    simp only [digitsAux]
    by_cases hx : x = 0
    · simp [hx]
    · simp only [hx, if_false]
      have := ih (x / 10) (x % 10 :: acc) (by omega)
      refine ⟨?_, ?_⟩
      · rw [this.1, valOf_cons, List.length_cons, Nat.pow_succ]
        have h10 : x = x / 10 * 10 + x % 10 := by omega
        generalize 10 ^ acc.length = p at *
        have hm : x * p = x / 10 * (p * 10) + x % 10 * p := by
          conv => lhs; rw [h10]
          rw [Nat.add_mul, Nat.mul_assoc, Nat.mul_comm 10 p]
        omega
      · intro hacc
        apply this.2
        intro d hd
        simp only [List.mem_cons] at hd
        rcases hd with rfl | hd
        · omega
        · exact hacc d hd

theorem valOf_digitsOf (x : Nat) : valOf (digitsOf x) = x := by
  have := (digitsAux_spec (x + 1) x [] (by omega)).1
  simpa [digitsOf, valOf] using this

theorem digitsOf_lt (x : Nat) : ∀ d ∈ digitsOf x, d < 10 :=
  (digitsAux_spec (x + 1) x [] (by omega)).2 (by simp)

/-! ### scanning digits -/

theorem takeDigits_digits (ds : List Nat) (hd : ∀ d ∈ ds, d < 10) (tail : List Nat)
    (ht : ∀ c r, tail = c :: r → ¬ c < 10) (acc n : Nat) :
    takeDigits (ds ++ tail) acc n = (acc * 10 ^ ds.length + valOf ds, n + ds.length, tail) := by
  induction ds generalizing acc n with
  | nil =>
    simp only [List.nil_append, List.length_nil, Nat.pow_zero, Nat.mul_one, valOf, List.foldl_nil, Nat.add_zero]
    cases tail with
    | nil => rfl
    | cons c r =>
      have := ht c r rfl
      simp [takeDigits, isDig, this]
  | cons d ds ih =>
    have hdd : d < 10 := hd d (List.mem_cons_self ..)
    simp only [List.cons_append, takeDigits, isDig, hdd, decide_true, if_true]
    rw [ih (fun x hx => hd x (List.mem_cons_of_mem _ hx)), valOf_cons, List.length_cons, Nat.pow_succ]
    congr 1
    · rw [Nat.add_mul, Nat.mul_assoc, Nat.mul_comm 10 (10 ^ ds.length)]; omega
    · congr 1; omega


/-! ### the decimal string of a nibble string -/

theorem toks_digits (ds : List Nat) (hd : ∀ d ∈ ds, d < 10) : ds.flatMap nibChars = ds := by
  induction ds with
  | nil => rfl
  | cons d ds ih =>
    have : d < 10 := hd d (List.mem_cons_self ..)
    have h12 : ¬ d = 12 := by omega
    simp only [List.flatMap_cons, nibChars, h12, if_false, List.cons_append, List.nil_append]
    rw [ih (fun x hx => hd x (List.mem_cons_of_mem _ hx))]

theorem length_pos_of_valOf (ds : List Nat) (h : 0 < valOf ds) : ds ≠ [] := by
  intro h0; subst h0; simp [valOf] at h

/-- digits, optionally followed by `e[-]digits` -/
theorem parseUnsigned_int (D : List Nat) (hD : ∀ d ∈ D, d < 10) (hne : D ≠ []) :
    parseUnsigned D = some (valOf D, 0) := by
  have h := takeDigits_digits D hD [] (by intro c r h; cases h) 0 0
  simp only [List.append_nil, Nat.zero_mul, Nat.zero_add] at h
  have hl : D.length ≠ 0 := by
    intro h0; exact hne (List.eq_nil_of_length_eq_zero h0)
  simp [parseUnsigned, h, hl]

theorem parseUnsigned_exp (D E : List Nat) (hD : ∀ d ∈ D, d < 10) (hE : ∀ d ∈ E, d < 10)
    (hne : D ≠ []) (hEne : E ≠ []) (eneg : Bool) :
    parseUnsigned (D ++ (11 :: (if eneg then 14 :: E else E)))
      = some (valOf D, if eneg then -(valOf E : Int) else (valOf E : Int)) := by
  have h := takeDigits_digits D hD (11 :: (if eneg then 14 :: E else E))
    (by intro c r h; injection h with h1 _; omega) 0 0
  simp only [Nat.zero_mul, Nat.zero_add] at h
  have hl : D.length ≠ 0 := by
    intro h0; exact hne (List.eq_nil_of_length_eq_zero h0)
  have hE' := takeDigits_digits E hE [] (by intro c r h; cases h) 0 0
  simp only [List.append_nil, Nat.zero_mul, Nat.zero_add] at hE'
  have hle : E.length ≠ 0 := by
    intro h0; exact hEne (List.eq_nil_of_length_eq_zero h0)
  obtain ⟨e0, Er, rfl⟩ : ∃ e0 Er, E = e0 :: Er := by
    cases E with
    | nil => exact absurd rfl hEne
    | cons a b => exact ⟨a, b, rfl⟩
  have he0 : e0 < 10 := hE e0 (List.mem_cons_self ..)
  cases eneg with
  | true =>
    simp only [if_true] at h ⊢
    simp [parseUnsigned, h, hl, hE', hle]
  | false =>
    simp only [Bool.false_eq_true, if_false] at h ⊢
    have h14 : ¬ e0 = 14 := by omega
    simp [parseUnsigned, h, hl]
    split
    · rename_i r' heq; injection heq with h1 _; omega
    · simp [hE', hle]

/-- digits `.` digits (either part may be empty, not both) -/
theorem parseUnsigned_frac (D1 D2 : List Nat) (h1 : ∀ d ∈ D1, d < 10) (h2 : ∀ d ∈ D2, d < 10)
    (hne : D1.length + D2.length ≠ 0) :
    parseUnsigned (D1 ++ (10 :: D2)) = some (valOf (D1 ++ D2), -(D2.length : Int)) := by
  have h := takeDigits_digits D1 h1 (10 :: D2) (by intro c r h; injection h with h1 _; omega) 0 0
  simp only [Nat.zero_mul, Nat.zero_add] at h
  have h' := takeDigits_digits D2 h2 [] (by intro c r h; cases h) (valOf D1) 0
  simp only [List.append_nil, Nat.zero_add] at h'
  simp [parseUnsigned, h, h', valOf_append]
  intro hd1 hd2
  subst hd1; subst hd2
  simp at hne


/-! ### what the written nibble string denotes -/

theorem stripZeros_pos (fuel i : Nat) (h : 0 < i) : 0 < stripZeros fuel i := by
  induction fuel generalizing i with
  | zero => exact h
  | succ fuel ih =>
    simp only [stripZeros]
    split
    · apply ih; omega
    · exact h

theorem parseDec_sign (neg : Bool) (body : List Nat) (hb : ∀ r, body ≠ 14 :: r) :
    parseDec ((if neg then [14] else []) ++ body)
      = (parseUnsigned body).map fun v => (neg, v.1, v.2) := by
  cases neg with
  | true => simp [parseDec]
  | false =>
    simp only [Bool.false_eq_true, if_false, List.nil_append]
    cases body with
    | nil => rfl
    | cons c r =>
      have hc : ¬ c = 14 := fun h => hb r (by rw [h])
      simp [parseDec, hc]

theorem digits_head_ne (D : List Nat) (hD : ∀ d ∈ D, d < 10) (hne : D ≠ []) (tail : List Nat) :
    ∀ r, D ++ tail ≠ 14 :: r := by
  intro r h
  cases D with
  | nil => exact hne rfl
  | cons d ds =>
    simp only [List.cons_append] at h
    injection h with h1 _
    have := hD d (List.mem_cons_self ..)
    omega

theorem toks_head0 (neg : Bool) : (if neg then [14] else ([] : List Nat)).flatMap nibChars
    = if neg then [14] else [] := by
  cases neg <;> simp [nibChars]

/-- The decimal string written by `encodeFloat` for the nine-digit integer `i` and the position
`l` of the decimal point denotes exactly `±0.d₁d₂… · 10^l`: with `i'` the digits of `i` without
trailing zeros and `m` their number, `ParseFloat`'s grammar reads it as `i'·10^k · 10^(l-m-k)`
for some `k ≤ 2` (the layouts "digits 0" and "digits 00" append zeros to the mantissa). -/
theorem parseDec_realNibbles (neg : Bool) (i : Nat) (hi : 0 < i) (l : Int) :
    ∃ k : Nat, k ≤ 2 ∧ parseDec ((realNibbles neg i l).flatMap nibChars)
      = some (neg, stripZeros 20 i * 10 ^ k,
          l - ((digitsOf (stripZeros 20 i)).length : Int) - (k : Int)) := by
  have hpos := stripZeros_pos 20 i hi
  generalize hi' : stripZeros 20 i = i' at *
  have hD := digitsOf_lt i'
  have hval := valOf_digitsOf i'
  generalize hDD : digitsOf i' = D at *
  have hne : D ≠ [] := length_pos_of_valOf D (by omega)
  have hlen : D.length ≠ 0 := fun h0 => hne (List.eq_nil_of_length_eq_zero h0)
  unfold realNibbles
  simp only [hi', hDD]
  split
  · -- digits e+N
    rename_i h1
    refine ⟨0, by omega, ?_⟩
    have hk : 0 < (l - (D.length : Int)).toNat := by omega
    have hE := digitsOf_lt (l - (D.length : Int)).toNat
    have hEv := valOf_digitsOf (l - (D.length : Int)).toNat
    generalize digitsOf (l - (D.length : Int)).toNat = E at *
    have hEne : E ≠ [] := length_pos_of_valOf E (by omega)
    simp only [List.flatMap_append, toks_head0, toks_digits D hD, toks_digits E hE]
    have : ([11] : List Nat).flatMap nibChars = [11] := by simp [nibChars]
    rw [this]
    have hb := digits_head_ne D hD hne (11 :: E)
    simp only [List.append_assoc, List.singleton_append]
    rw [parseDec_sign neg _ hb]
    have := parseUnsigned_exp D E hD hE hne hEne false
    simp only [Bool.false_eq_true, if_false] at this
    rw [this, hval, hEv]
    simp only [Option.map_some, Nat.pow_zero, Nat.mul_one]
    congr 3
    omega
  · split
    · -- digits 00
      rename_i h1 h2
      refine ⟨2, by omega, ?_⟩
      simp only [List.flatMap_append, toks_head0, toks_digits D hD]
      have : ([0, 0] : List Nat).flatMap nibChars = [0, 0] := by simp [nibChars]
      rw [this]
      have hb := digits_head_ne D hD hne [0, 0]
      rw [parseDec_sign neg _ hb]
      have hD2 : ∀ d ∈ D ++ [0, 0], d < 10 := by
        intro d hd
        rcases List.mem_append.mp hd with h | h
        · exact hD d h
        · simp at h; omega
      rw [parseUnsigned_int (D ++ [0, 0]) hD2 (by simp), valOf_append, hval]
      have e0 : valOf [0, 0] = 0 := rfl
      have e1 : ([0, 0] : List Nat).length = 2 := rfl
      simp only [Option.map_some, e0, e1, Nat.add_zero]
      congr 3
      omega
    · split
      · -- digits 0
        rename_i h1 h2 h3
        refine ⟨1, by omega, ?_⟩
        simp only [List.flatMap_append, toks_head0, toks_digits D hD]
        have : ([0] : List Nat).flatMap nibChars = [0] := by simp [nibChars]
        rw [this]
        have hb := digits_head_ne D hD hne [0]
        rw [parseDec_sign neg _ hb]
        have hD2 : ∀ d ∈ D ++ [0], d < 10 := by
          intro d hd
          rcases List.mem_append.mp hd with h | h
          · exact hD d h
          · simp at h; omega
        rw [parseUnsigned_int (D ++ [0]) hD2 (by simp), valOf_append, hval]
        have e0 : valOf [0] = 0 := rfl
        have e1 : ([0] : List Nat).length = 1 := rfl
        simp only [Option.map_some, e0, e1, Nat.add_zero]
        congr 3
        omega
      · split
        · -- integer
          rename_i h1 h2 h3 h4
          refine ⟨0, by omega, ?_⟩
          simp only [List.flatMap_append, toks_head0, toks_digits D hD]
          have hb := digits_head_ne D hD hne []
          simp only [List.append_nil] at hb
          rw [parseDec_sign neg _ hb, parseUnsigned_int D hD hne, hval]
          simp only [Option.map_some, Nat.pow_zero, Nat.mul_one]
          congr 3
          omega
        · split
          · -- dd.ddd
            rename_i h1 h2 h3 h4 h5
            refine ⟨0, by omega, ?_⟩
            have hlt : l.toNat < D.length := by omega
            have hD1 : ∀ d ∈ D.take l.toNat, d < 10 := fun d hd => hD d (List.mem_of_mem_take hd)
            have hD2 : ∀ d ∈ D.drop l.toNat, d < 10 := fun d hd => hD d (List.mem_of_mem_drop hd)
            simp only [List.flatMap_append, toks_head0, toks_digits _ hD1, toks_digits _ hD2]
            have : ([10] : List Nat).flatMap nibChars = [10] := by simp [nibChars]
            rw [this]
            have hne1 : D.take l.toNat ≠ [] := by
              intro h0
              have hl0 := congrArg List.length h0
              rw [List.length_take] at hl0
              simp only [List.length_nil] at hl0
              have : min l.toNat D.length = l.toNat := Nat.min_eq_left (by omega)
              omega
            have hb := digits_head_ne (D.take l.toNat) hD1 hne1 (10 :: D.drop l.toNat)
            simp only [List.append_assoc, List.singleton_append]
            rw [parseDec_sign neg _ hb]
            have := parseUnsigned_frac (D.take l.toNat) (D.drop l.toNat) hD1 hD2
              (by simp [List.length_take, List.length_drop]; omega)
            rw [this, List.take_append_drop, hval]
            simp only [Option.map_some, Nat.pow_zero, Nat.mul_one, List.length_drop]
            congr 3
            omega
          · split
            · -- .ddd
              rename_i h1 h2 h3 h4 h5 h6
              refine ⟨0, by omega, ?_⟩
              simp only [List.flatMap_append, toks_head0, toks_digits D hD]
              have : ([10] : List Nat).flatMap nibChars = [10] := by simp [nibChars]
              rw [this]
              have hb : ∀ r, 10 :: D ≠ 14 :: r := by
                intro r h; simp at h
              simp only [List.append_assoc, List.singleton_append]
              rw [parseDec_sign neg _ hb]
              have := parseUnsigned_frac [] D (by simp) hD (by simp; exact hne)
              simp only [List.nil_append] at this
              rw [this, hval]
              simp only [Option.map_some, Nat.pow_zero, Nat.mul_one]
              congr 3
              omega
            · split
              · -- .0ddd
                rename_i h1 h2 h3 h4 h5 h6 h7
                refine ⟨0, by omega, ?_⟩
                simp only [List.flatMap_append, toks_head0, toks_digits D hD]
                have : ([10, 0] : List Nat).flatMap nibChars = [10, 0] := by simp [nibChars]
                rw [this]
                have hb : ∀ r, 10 :: 0 :: D ≠ 14 :: r := by
                  intro r h; simp at h
                simp only [List.append_assoc, List.cons_append, List.nil_append]
                rw [parseDec_sign neg _ hb]
                have hD0 : ∀ d ∈ 0 :: D, d < 10 := by
                  intro d hd
                  simp only [List.mem_cons] at hd
                  rcases hd with rfl | hd
                  · omega
                  · exact hD d hd
                have := parseUnsigned_frac [] (0 :: D) (by simp) hD0 (by simp)
                simp only [List.nil_append] at this
                rw [this, valOf_cons, hval]
                simp only [Option.map_some, Nat.pow_zero, Nat.mul_one, Nat.zero_mul, Nat.zero_add,
                  List.length_cons]
                congr 3
                omega
              · -- digits e-N
                rename_i h1 h2 h3 h4 h5 h6 h7
                refine ⟨0, by omega, ?_⟩
                have hk : 0 < (-l + (D.length : Int)).toNat := by omega
                have hE := digitsOf_lt (-l + (D.length : Int)).toNat
                have hEv := valOf_digitsOf (-l + (D.length : Int)).toNat
                generalize digitsOf (-l + (D.length : Int)).toNat = E at *
                have hEne : E ≠ [] := length_pos_of_valOf E (by omega)
                simp only [List.flatMap_append, toks_head0, toks_digits D hD, toks_digits E hE]
                have : ([12] : List Nat).flatMap nibChars = [11, 14] := by simp [nibChars]
                rw [this]
                have hb := digits_head_ne D hD hne (11 :: 14 :: E)
                simp only [List.append_assoc, List.cons_append, List.nil_append]
                rw [parseDec_sign neg _ hb]
                have := parseUnsigned_exp D E hD hE hne hEne true
                simp only [if_true] at this
                rw [this, hval, hEv]
                simp only [Option.map_some, Nat.pow_zero, Nat.mul_one]
                congr 3
                omega


/-! ### bytes: encodeFloat then decodeFloat -/

theorem realNibbles_lt (neg : Bool) (i : Nat) (l : Int) :
    ∀ x ∈ realNibbles neg i l, x < 15 ∧ x ≠ 13 := by
  have hD := digitsOf_lt (stripZeros 20 i)
  have hd : ∀ (ds : List Nat), (∀ d ∈ ds, d < 10) → ∀ x ∈ ds, x < 15 ∧ x ≠ 13 := by
    intro ds h x hx; have := h x hx; omega
  have hh : ∀ x ∈ (if neg then [14] else ([] : List Nat)), x < 15 ∧ x ≠ 13 := by
    intro x hx; cases neg <;> simp at hx; omega
  intro x hx
  unfold realNibbles at hx
  simp only at hx
  have hmem : ∀ (a b : List Nat), x ∈ a ++ b → x ∈ a ∨ x ∈ b := fun a b h => List.mem_append.mp h
  split at hx
  · rcases hmem _ _ hx with h | h
    · exact hh x h
    · rcases hmem _ _ h with h | h
      · rcases hmem _ _ h with h | h
        · exact hd _ hD x h
        · simp at h; omega
      · exact hd _ (digitsOf_lt _) x h
  · split at hx
    · rcases hmem _ _ hx with h | h
      · exact hh x h
      · rcases hmem _ _ h with h | h
        · exact hd _ hD x h
        · simp at h; omega
    · split at hx
      · rcases hmem _ _ hx with h | h
        · exact hh x h
        · rcases hmem _ _ h with h | h
          · exact hd _ hD x h
          · simp at h; omega
      · split at hx
        · rcases hmem _ _ hx with h | h
          · exact hh x h
          · exact hd _ hD x h
        · split at hx
          · rcases hmem _ _ hx with h | h
            · rcases hmem _ _ h with h | h
              · rcases hmem _ _ h with h | h
                · exact hh x h
                · exact hd _ hD x (List.mem_of_mem_take h)
              · simp at h; omega
            · exact hd _ hD x (List.mem_of_mem_drop h)
          · split at hx
            · rcases hmem _ _ hx with h | h
              · rcases hmem _ _ h with h | h
                · exact hh x h
                · simp at h; omega
              · exact hd _ hD x h
            · split at hx
              · rcases hmem _ _ hx with h | h
                · rcases hmem _ _ h with h | h
                  · exact hh x h
                  · simp at h; omega
                · exact hd _ hD x h
              · rcases hmem _ _ hx with h | h
                · exact hh x h
                · rcases hmem _ _ h with h | h
                  · rcases hmem _ _ h with h | h
                    · exact hd _ hD x h
                    · simp at h; omega
                  · exact hd _ (digitsOf_lt _) x h

/-- `decodeFloat` applied to the bytes `encodeFloat` wrote for the nine-digit integer `i` and
decimal-point position `l` delivers exactly what `ParseFloat` + clamping make of the decimal
`i'·10^k · 10^(l-m-k)` (`i'` = digits of `i` without trailing zeros, `m` their number, `k ≤ 2`),
and consumes exactly the bytes written. -/
theorem decodeReal_encodeReal (neg : Bool) (i : Nat) (hi : 0 < i) (l : Int) (rest : Bytes) :
    ∃ k : Nat, k ≤ 2 ∧ decodeReal (encodeReal neg i l ++ rest) =
      match clampValue (neg, stripZeros 20 i * 10 ^ k,
          l - ((digitsOf (stripZeros 20 i)).length : Int) - (k : Int)) with
      | .ok (ng, m, e) => .ok (.real ng m e, rest)
      | .err e => .err e
      | .panic s => .panic s := by
  obtain ⟨k, hk, hparse⟩ := parseDec_realNibbles neg i hi l
  refine ⟨k, hk, ?_⟩
  have hne : ¬ i = 0 := by omega
  unfold encodeReal decodeReal
  simp only [hne, if_false]
  have hlt := realNibbles_lt neg i l
  rw [floatNibbles_pack rest _ (fun x hx => (hlt x hx).1)]
  simp only
  have h13 : (realNibbles neg i l).any (fun x => decide (x = 13)) = false := by
    rw [List.any_eq_false]
    intro x hx
    have := (hlt x hx).2
    simpa using this
  rw [h13]
  simp only [Bool.false_eq_true, if_false, floatValue, hparse]
  generalize clampValue (neg, stripZeros 20 i * 10 ^ k,
    l - ((digitsOf (stripZeros 20 i)).length : Int) - (k : Int)) = cv
  cases cv with
  | ok v => obtain ⟨a, b, c⟩ := v; rfl
  | err e => rfl
  | panic s => rfl

end SfntV.Cff
