/-
Bridge between C04 and C05, part 3: header, masks, path section and whole charstring for the model of
the Go decoder.  The composition lemmas are the ones of T2Header / T2Masks / T2GlyphFull, re-run for
`goQuirks`; the end states are the SAME (strict-drawn) states.
-/
import SfntV.Proofs.T2Bridge

set_option linter.unusedSimpArgs false
set_option linter.unusedVariables false

namespace SfntV.T2Enc
open SfntV SfntV.T2 SfntV.Spec.T2

/-- every delta of the command within ±32000 (the range in which the Go decoder does not clamp) -/
def CmdBnd : EnCmd → Prop
  | .move dx dy => Bnd dx.val ∧ Bnd dy.val
  | .seg g => SegBnd g
  | .mask _ _ => True

theorem move_reaches_go (env : Env) (s : St) (dx dy : EncNum) (rest : List Nat) (hp : PendOK s)
    (hme : s.moveErr = false) (hdx : Decodes dx) (hdy : Decodes dy) (hbx : Bnd dx.val) (hby : Bnd dy.val) :
    Reaches goQuirks env s
      ((if dx.isZero then dy.code ++ opBytes .vmoveto
        else if dy.isZero then dx.code ++ opBytes .hmoveto
        else dx.code ++ dy.code ++ opBytes .rmoveto) ++ rest)
      (rMoveTo strict (widthDone env s) dx.val dy.val) rest := by
  have hlen : s.stack.length ≤ 1 := by rcases hp with h | ⟨wv, h, _⟩ <;> simp [h]
  have fin : ∀ (args : List EncNum) (op : Op) (tgt : St), (∀ a ∈ args, Decodes a) → args.length ≤ 2 →
      checkMove (T2.exec goQuirks env { s with stack := s.stack ++ vals args } op rest) = .ok (.cont tgt rest) →
      Reaches goQuirks env s (args.flatMap (·.code) ++ (opBytes op ++ rest)) tgt rest := by
    intro args op tgt hd hl hex
    refine (reaches_push goQuirks env args hd s (opBytes op ++ rest) (by omega)).trans ?_
    refine Reaches.single ?_ (by have := opBytes_pos op; simp only [List.length_append]; omega)
    rw [step_op' goQuirks env _ op rest (by simp [vals]; omega), hex]
  by_cases hzx : dx.isZero = true
  · have h0 : dx.val = 0 := isZero_val hzx
    simp only [hzx, if_true, h0]
    have := fin [dy] .vmoveto _ (by simpa using hdy) (by simp) (by
      have ht := exec_moveto_transfer env s .vmoveto [dy.val] rest hp (bndL_single hby) (Or.inr ⟨Or.inr rfl, rfl⟩)
      simp only [vals, List.map_cons, List.map_nil]
      rw [ht]
      simpa [vals] using exec_vmoveto env s dy.val rest hp hme)
    simpa [List.append_assoc] using this
  · by_cases hzy : dy.isZero = true
    · have h0 : dy.val = 0 := isZero_val hzy
      simp only [hzx, hzy, if_true, if_false, h0]
      have := fin [dx] .hmoveto _ (by simpa using hdx) (by simp) (by
        have ht := exec_moveto_transfer env s .hmoveto [dx.val] rest hp (bndL_single hbx) (Or.inr ⟨Or.inl rfl, rfl⟩)
        simp only [vals, List.map_cons, List.map_nil]
        rw [ht]
        simpa [vals] using exec_hmoveto env s dx.val rest hp hme)
      simpa [List.append_assoc] using this
    · simp only [hzx, hzy, if_false]
      have hbl : BndL [dx.val, dy.val] := by
        intro v hv
        simp only [List.mem_cons, List.not_mem_nil, or_false] at hv
        rcases hv with rfl | rfl <;> assumption
      have := fin [dx, dy] .rmoveto _ (by intro a ha; simp at ha; rcases ha with rfl | rfl <;> assumption) (by simp) (by
        have ht := exec_moveto_transfer env s .rmoveto [dx.val, dy.val] rest hp hbl (Or.inl ⟨rfl, rfl⟩)
        simp only [vals, List.map_cons, List.map_nil]
        rw [ht]
        simpa [vals] using exec_rmoveto env s dx.val dy.val rest hp hme)
      simpa [List.append_assoc] using this

theorem exec_stem_go (env : Env) (isV : Bool) (op : Op) (hop : stemOpOf isV op) (s : St) (v : List Int)
    (rest : List Nat) (hp : PendOK s) (hst : s.stage ≤ 1) (hme : s.moveErr = false)
    (hv2 : 2 ≤ v.length) (hev : v.length % 2 = 0) :
    checkMove (T2.exec goQuirks env { s with stack := s.stack ++ v } op rest) =
      .ok (.cont (stemDecl env isV s v) rest) := by
  have hng : ¬ s.stage > 1 := by omega
  have hodd : (v.length % 2 == 1) = false := by simp [hev]
  have hodd1 : ((v.length + 1) % 2 == 1) = true := by
    have : (v.length + 1) % 2 = 1 := by omega
    simp [this]
  have hme' : (stemDecl env isV s v).moveErr = false := by
    unfold stemDecl
    split <;> simp only [(widthDone_fields env s).2.2.1, hme]
  rw [show T2.exec goQuirks env { s with stack := s.stack ++ v } op rest = .ok (.cont (stemDecl env isV s v) rest) from ?_]
  · exact checkMove_cont _ _ hme'
  rcases hp with h | ⟨wv, h, hw⟩
  · rcases hop with ⟨rfl, rfl | rfl⟩ | ⟨rfl, rfl | rfl⟩ <;>
      (by_cases hws : s.widthSet = true <;>
        simp [T2.exec, h, hng, setWidth, strict, goQuirks, stemDecl, widthDone, hodd, hev, hws,
          show ¬ v.length < 2 by omega])
  · rcases hop with ⟨rfl, rfl | rfl⟩ | ⟨rfl, rfl | rfl⟩ <;>
      simp [T2.exec, h, hw, hng, setWidth, strict, goQuirks, stemDecl, widthDone, hodd1, hev,
        show ¬ v.length + 1 < 2 by omega]


theorem stemList_reaches_go (env : Env) (K : Nat) (op : Op) (isV mf : Bool) (hop : stemOpOf isV op) :
    ∀ (f extra : Nat) (stems : List Int) (s : St) (rest : List Nat),
      stems.length < f → stems.length % 2 = 0 → HintReady s → extra = s.stack.length →
      (∀ c ∈ stemChunksFuel K f extra stems, ∀ a ∈ c, Decodes a) →
      ∃ sEnd, Reaches goQuirks env s ((stemListFuel K op isV mf f extra stems).1 ++ rest) sEnd rest ∧
        ListEnd env isV (isV && mf) s (stemChunksFuel K f extra stems) sEnd := by
  intro f
  induction f with
  | zero => intro extra stems s rest h; omega
  | succ f ih =>
    intro extra stems s rest hf hev hr hex hdec
    by_cases h0 : stems.length = 0
    · have : stems = [] := List.eq_nil_of_length_eq_zero h0
      subst this
      rw [stemListFuel_nil, stemChunksFuel_nil]
      exact ⟨s, by simpa using Reaches.refl s rest, fun _ => rfl, fun _ h => absurd rfl h⟩
    · have hex1 : extra ≤ 1 := by
        rcases hr.1 with h | ⟨wv, h, _⟩ <;> simp [hex, h]
      have hlen2 : 2 ≤ stems.length := by omega
      simp only [stemListFuel, stemChunksFuel, h0, beq_iff_eq, if_false] at hdec ⊢
      obtain ⟨k, hk⟩ : ∃ k, k = min ((maxStack - extra) / 2) (stems.length / 2) := ⟨_, rfl⟩
      rw [← hk] at hdec ⊢
      rw [maxStack_48] at hk
      have hk1 : 1 ≤ k := by omega
      have hk2 : 2 * k ≤ stems.length := by omega
      have hk3 : extra + 2 * k ≤ 48 := by omega
      have hcl : (stemChunkCodes K 0 (stems.take (2 * k))).length = 2 * k := by
        rw [stemChunkCodes_length, List.length_take]; omega
      obtain ⟨c, hc⟩ : ∃ c, c = stemChunkCodes K 0 (stems.take (2 * k)) := ⟨_, rfl⟩
      rw [← hc] at hdec hcl ⊢
      have hdc : ∀ a ∈ c, Decodes a := hdec c List.mem_cons_self
      -- the operands of the chunk
      have hpush := fun tl => reaches_push goQuirks env c hdc s tl (by omega)
      have hrl : (stems.drop (2 * k)).length = stems.length - 2 * k := List.length_drop
      by_cases hom : (isV && (stems.drop (2 * k)).length == 0 && mf) = true
      · -- last chunk of the vstems, operator omitted
        simp only [hom, if_true, List.append_nil]
        have hrest : stems.drop (2 * k) = [] := by
          simp only [Bool.and_eq_true, beq_iff_eq] at hom
          exact List.eq_nil_of_length_eq_zero hom.1.2
        rw [hrest, stemListFuel_nil, stemChunksFuel_nil]
        simp only [List.append_nil]
        have hv : isV = true ∧ mf = true := by
          simp only [Bool.and_eq_true, beq_iff_eq] at hom
          exact ⟨hom.1.1, hom.2⟩
        refine ⟨_, hpush rest, fun h => ?_, fun _ _ => ⟨s, vals c, hr, ?_, ?_, ?_, rfl, ?_⟩⟩
        · rcases h with h | h
          · simp [hv.1, hv.2] at h
          · cases h
        · simp [vals]; omega
        · simp [vals]; omega
        · simp [vals]; omega
        · simp [declAll]
      · -- chunk with its operator
        have hom' : (isV && (stems.drop (2 * k)).length == 0 && mf) = false := by simpa using hom
        simp only [hom', Bool.false_eq_true, if_false]
        have hstep : Reaches goQuirks env { s with stack := s.stack ++ vals c }
            (opBytes op ++ ((stemListFuel K op isV mf f 0 (stems.drop (2 * k))).1 ++ rest))
            (stemDecl env isV s (vals c)) ((stemListFuel K op isV mf f 0 (stems.drop (2 * k))).1 ++ rest) := by
          refine Reaches.single ?_ (by have := opBytes_pos op; simp only [List.length_append]; omega)
          rw [step_op' goQuirks env _ op _ (by simp [vals]; omega)]
          exact exec_stem_go env isV op hop s (vals c) _ hr.1 hr.2.1 hr.2.2 (by simp [vals]; omega) (by simp [vals]; omega)
        obtain ⟨hr1, hs1⟩ := hintReady_stemDecl env isV s (vals c) hr
        obtain ⟨sEnd, k1, k2⟩ := ih 0 (stems.drop (2 * k)) (stemDecl env isV s (vals c)) rest (by omega) (by omega)
          hr1 (by rw [hs1]; rfl) (fun c' hc' => hdec c' (List.mem_cons_of_mem _ hc'))
        refine ⟨sEnd, ?_, ?_, ?_⟩
        · have := (hpush _).trans (hstep.trans k1)
          simpa [List.append_assoc] using this
        · intro h
          rcases h with h | h
          · rw [k2.1 (Or.inl h)]; rfl
          · cases h
        · intro ho _
          by_cases hne : stemChunksFuel K f 0 (stems.drop (2 * k)) = []
          · -- then the rest is empty and the operator would have been omitted
            exfalso
            have hrest : (stems.drop (2 * k)).length = 0 := by
              cases f with
              | zero => omega
              | succ f' =>
                simp only [stemChunksFuel] at hne
                split at hne
                · rename_i hz; simpa using hz
                · cases hne
            simp only [Bool.and_eq_true] at ho
            simp [ho.1, ho.2, hrest] at hom'
          · obtain ⟨sL, cL, a1, a2, a3, a4, a5, a6⟩ := k2.2 ho hne
            exact ⟨sL, cL, a1, a2, a3, a4, a5, by rw [a6]; rfl⟩


theorem header_reaches_go (env : Env) (K : Nat) (w : Int) (hs vs : List Int) (cmds : List InCmd)
    (paths : List (List (Nat × Op))) (bytes : List Nat)
    (h : encodeCharString K w hs vs cmds env.defaultWidth env.nominalWidth paths = some bytes)
    (hw : w ≠ env.defaultWidth * 2 ^ (K - 16) → Decodes (encNum (w - env.nominalWidth * 2 ^ (K - 16)) K))
    (hdh : ∀ c ∈ hChunks env K w hs, ∀ a ∈ c, Decodes a)
    (hdv : ∀ c ∈ vChunks env K w hs vs, ∀ a ∈ c, Decodes a) :
    ∃ pb sHdr, encodePaths (encodeArgs K cmds) paths = some pb ∧
      hs.length % 2 = 0 ∧ vs.length % 2 = 0 ∧
      Reaches goQuirks env (St.init env) bytes sHdr pb ∧
      ListEnd env true (maskFirst cmds) (hState env K w hs) (vChunks env K w hs vs) sHdr := by
  unfold encodeCharString at h
  simp only at h
  split at h
  · cases h
  rename_i hpar
  have hpar' : hs.length % 2 = 0 ∧ vs.length % 2 = 0 := by
    simp only [bne_iff_ne, ne_eq, Bool.or_eq_true, not_or, Decidable.not_not] at hpar
    exact hpar
  cases hp : encodePaths (encodeArgs K cmds) paths with
  | none => rw [hp] at h; cases h
  | some pb =>
    rw [hp] at h
    simp only [Option.map_some, Option.some.injEq] at h
    refine ⟨pb, ?_⟩
    obtain ⟨hr0, hx0⟩ := startState_ready env K w
    -- width operand
    have hW : Reaches goQuirks env (St.init env)
        ((if w != env.defaultWidth * 2 ^ (K - 16) then (encNum (w - env.nominalWidth * 2 ^ (K - 16)) K).code else []) ++
          ((stemListFuel K (if cmds.any isMask then .hstemhm else .hstem) false (maskFirst cmds) (hs.length + 1)
            (widthExtra env K w) hs).1 ++
           ((stemListFuel K (if cmds.any isMask then .vstemhm else .vstem) true (maskFirst cmds) (vs.length + 1)
            (stemListFuel K (if cmds.any isMask then .hstemhm else .hstem) false (maskFirst cmds) (hs.length + 1)
              (widthExtra env K w) hs).2 vs).1 ++ pb)))
        (startState env K w)
        ((stemListFuel K (if cmds.any isMask then .hstemhm else .hstem) false (maskFirst cmds) (hs.length + 1)
            (widthExtra env K w) hs).1 ++
           ((stemListFuel K (if cmds.any isMask then .vstemhm else .vstem) true (maskFirst cmds) (vs.length + 1)
            (stemListFuel K (if cmds.any isMask then .hstemhm else .hstem) false (maskFirst cmds) (hs.length + 1)
            (widthExtra env K w) hs).2 vs).1 ++ pb)) := by
      by_cases hwd : w = env.defaultWidth * 2 ^ (K - 16)
      · have hs0 : startState env K w = St.init env := by simp [startState, hwd]
        rw [hs0]
        simp only [hwd, bne_self_eq_false, Bool.false_eq_true, if_false, List.nil_append]
        exact Reaches.refl _ _
      · have hne : (w != env.defaultWidth * 2 ^ (K - 16)) = true := by simpa using hwd
        simp only [hne, if_true]
        have h1 := reaches_push goQuirks env [encNum (w - env.nominalWidth * 2 ^ (K - 16)) K]
          (by intro a ha; simp at ha; subst ha; exact hw hwd) (St.init env) 
          ((stemListFuel K (if cmds.any isMask then .hstemhm else .hstem) false (maskFirst cmds) (hs.length + 1)
            (widthExtra env K w) hs).1 ++
           ((stemListFuel K (if cmds.any isMask then .vstemhm else .vstem) true (maskFirst cmds) (vs.length + 1)
            (stemListFuel K (if cmds.any isMask then .hstemhm else .hstem) false (maskFirst cmds) (hs.length + 1)
              (widthExtra env K w) hs).2 vs).1 ++ pb)) (by simp [St.init])
        simp only [List.flatMap_cons, List.flatMap_nil, List.append_nil, vals, List.map_cons, List.map_nil] at h1
        have hs0 : startState env K w =
            { St.init env with stack := (St.init env).stack ++ [(encNum (w - env.nominalWidth * 2 ^ (K - 16)) K).val] } := by
          simp [startState, hne, St.init]
        rw [hs0]
        exact h1
    have hopH : stemOpOf false (if cmds.any isMask then Op.hstemhm else Op.hstem) := by
      left; refine ⟨rfl, ?_⟩; split <;> simp
    have hopV : stemOpOf true (if cmds.any isMask then Op.vstemhm else Op.vstem) := by
      right; refine ⟨rfl, ?_⟩; split <;> simp
    obtain ⟨sH, kH1, kH2⟩ := stemList_reaches_go env K _ false (maskFirst cmds) hopH (hs.length + 1) (widthExtra env K w) hs
      (startState env K w)
      ((stemListFuel K (if cmds.any isMask then .vstemhm else .vstem) true (maskFirst cmds) (vs.length + 1)
            (stemListFuel K (if cmds.any isMask then .hstemhm else .hstem) false (maskFirst cmds) (hs.length + 1)
              (widthExtra env K w) hs).2 vs).1 ++ pb)
      (by omega) hpar'.1 hr0 hx0.symm hdh
    have hsH : sH = hState env K w hs := kH2.1 (Or.inl rfl)
    subst hsH
    obtain ⟨hrH, hstH⟩ := hintReady_declAll env false (startState env K w) (hChunks env K w hs) hr0
    have hexV : (stemListFuel K (if cmds.any isMask then .hstemhm else .hstem) false (maskFirst cmds) (hs.length + 1)
              (widthExtra env K w) hs).2 = (hState env K w hs).stack.length ∧
        (stemListFuel K (if cmds.any isMask then .hstemhm else .hstem) false (maskFirst cmds) (hs.length + 1)
              (widthExtra env K w) hs).2 = (if hs.length = 0 then widthExtra env K w else 0) := by
      rw [stemListFuel_extra]
      refine ⟨?_, rfl⟩
      by_cases hh : hs.length = 0
      · have : hs = [] := List.eq_nil_of_length_eq_zero hh
        subst this
        simp only [hState, hChunks, stemChunksFuel_nil, declAll, List.foldl_nil, List.length_nil, if_true, hx0]
      · simp only [hh, if_false]
        have := hstH (stemChunksFuel_ne_nil K hs.length _ hs hh)
        unfold hState
        rw [this]
        rfl
    obtain ⟨sV, kV1, kV2⟩ := stemList_reaches_go env K _ true (maskFirst cmds) hopV (vs.length + 1) _ vs
      (hState env K w hs) pb (by omega) hpar'.2 hrH hexV.1 (by rw [hexV.2]; exact hdv)
    refine ⟨sV, rfl, hpar'.1, hpar'.2, ?_, ?_⟩
    · rw [← h]
      have := hW.trans (kH1.trans kV1)
      cases cmds <;> simpa [List.append_assoc, maskFirst, widthExtra] using this
    · rw [hexV.2] at kV2
      simpa [vChunks] using kV2


theorem exec_mask_go (env : Env) (s : St) (cn : Bool) (bs rest : List Nat) (hp : PendOK s)
    (hme : s.moveErr = false) (hst : 1 ≤ s.stage) (hn : 1 ≤ nStems s)
    (hb : bs.length = (nStems s + 7) / 8) (hrest : 0 < rest.length) :
    checkMove (T2.exec goQuirks env s (maskOp cn) (bs ++ rest)) =
      .ok (.cont (drawCmd strict (widthDone env s) (.mask cn bs)) rest) := by
  have hme' : (drawCmd strict (widthDone env s) (.mask cn bs)).moveErr = false := by
    simp only [drawCmd, (widthDone_fields env s).2.2.1, hme]
  rw [show T2.exec goQuirks env s (maskOp cn) (bs ++ rest) =
      .ok (.cont (drawCmd strict (widthDone env s) (.mask cn bs)) rest) from ?_]
  · exact checkMove_cont _ _ hme'
  unfold nStems at hn hb
  have hk : ¬ ((s.hstem.length + s.vstem.length) / 2 + 7) / 8 ≥ (bs ++ rest).length := by
    simp only [List.length_append]; omega
  have hk2 : ((s.hstem.length + s.vstem.length) / 2 + 7) / 8 < bs.length + rest.length := by omega
  have hn0 : ¬ (s.hstem.length + s.vstem.length) / 2 = 0 := by omega
  have hst0 : ¬ s.stage < 1 := by omega
  have htake : (bs ++ rest).take (((s.hstem.length + s.vstem.length) / 2 + 7) / 8) = bs := by
    rw [← hb]; simp
  have hdrop : (bs ++ rest).drop (((s.hstem.length + s.vstem.length) / 2 + 7) / 8) = rest := by
    rw [← hb]; simp
  rcases hp with h | ⟨wv, h, hw⟩
  · cases cn <;> by_cases hws : s.widthSet = true <;>
      simp [T2.exec, maskOp, h, setWidth, strict, goQuirks, stemPairs, hws, hk, hk2, hn0, hst0, htake, hdrop, drawCmd, widthDone]
  · cases cn <;>
      simp [T2.exec, maskOp, h, hw, setWidth, strict, goQuirks, stemPairs, hk, hk2, hn0, hst0, htake, hdrop, drawCmd, widthDone]


theorem mask_reaches_go (env : Env) (s : St) (cn : Bool) (bs rest : List Nat) (hp : PendOK s)
    (hme : s.moveErr = false) (hst : 1 ≤ s.stage) (hn : 1 ≤ nStems s)
    (hb : bs.length = (nStems s + 7) / 8) (hrest : 0 < rest.length) :
    Reaches goQuirks env s (opBytes (maskOp cn) ++ bs ++ rest)
      (drawCmd strict (widthDone env s) (.mask cn bs)) rest := by
  have hlen : s.stack.length ≤ 48 := by rcases hp with h | ⟨wv, h, _⟩ <;> simp [h]
  refine Reaches.single ?_ (by have := opBytes_pos (maskOp cn); simp only [List.length_append]; omega)
  rw [List.append_assoc, step_op' goQuirks env s (maskOp cn) (bs ++ rest) hlen]
  exact exec_mask_go env s cn bs rest hp hme hst hn hb hrest


theorem exec_mask_implicit_go (env : Env) (sL : St) (c : List Int) (cn : Bool) (code : List Nat)
    (hr : HintReady sL) (h2 : 2 ≤ c.length) (hev : c.length % 2 = 0) :
    T2.exec goQuirks env { sL with stack := sL.stack ++ c } (maskOp cn) code =
      T2.exec goQuirks env (stemDecl env true sL c) (maskOp cn) code := by
  obtain ⟨hp, hst, hme⟩ := hr
  have hng : ¬ sL.stage > 1 := by omega
  have hodd : (c.length % 2 == 1) = false := by simp [hev]
  have hodd1 : ((c.length + 1) % 2 == 1) = true := by
    have : (c.length + 1) % 2 = 1 := by omega
    simp [this]
  have hev1 : (c.length + 1) % 2 = 1 := by omega
  rcases hp with h | ⟨wv, h, hw⟩
  · cases cn <;> by_cases hws : sL.widthSet = true <;>
      simp [T2.exec, maskOp, h, hng, setWidth, strict, goQuirks, stemDecl, widthDone, hodd, hev, hws, stemPairs,
        show c.length ≥ 2 by omega, show 2 ≤ c.length by omega]
  · cases cn <;>
      simp [T2.exec, maskOp, h, hw, hng, setWidth, strict, goQuirks, stemDecl, widthDone, hodd1, hev, hev1, stemPairs,
        show c.length + 1 ≥ 2 by omega, show 2 ≤ c.length + 1 by omega]


theorem endchar_step_go (env : Env) (s : St) (hp : PendOK s) :
    ∃ s', step goQuirks env s (opBytes .endchar) = .ok (.done s') ∧ s'.glyph = (widthDone env s).glyph := by
  have hlen : s.stack.length ≤ 48 := by rcases hp with h | ⟨wv, h, _⟩ <;> simp [h]
  have := step_op' goQuirks env s .endchar [] hlen
  rw [List.append_nil] at this
  rw [this]
  rcases hp with h | ⟨wv, h, hw⟩
  · by_cases hws : s.widthSet = true <;>
      exact ⟨_, by simp [T2.exec, h, setWidth, strict, goQuirks, checkMove, hws]; rfl, by simp [widthDone, h, St.glyph]⟩
  · exact ⟨_, by simp [T2.exec, h, hw, setWidth, strict, goQuirks, checkMove]; rfl, by simp [widthDone, h, hw, St.glyph]⟩


theorem paths_reaches_full_go (env : Env) (nSt : Nat) (f : Nat) :
    ∀ (cmds : List EnCmd) (paths : List (List (Nat × Op))) (bytes : List Nat) (s : St),
      encodePathsFuel f cmds paths = some bytes → cmdsOKm s.hasMoved cmds = true →
      (∀ c ∈ cmds, CmdDecodes c) → (∀ c ∈ cmds, CmdBnd c) → PendOK s → (s.hasMoved = true → s.stack = []) → s.moveErr = false →
      nStems s = nSt → masksFitE nSt cmds = true → (hasMaskE cmds = true → 1 ≤ s.stage) →
      ∃ sEnd, Reaches goQuirks env s bytes sEnd (opBytes .endchar) ∧ PendOK sEnd ∧ sEnd.moveErr = false ∧
        widthDone env sEnd = drawCmds strict (widthDone env s) cmds := by
  induction f with
  | zero => intro cmds paths bytes s h; simp [encodePathsFuel] at h
  | succ f ih =>
    intro cmds paths bytes s h hok hdec hbnd hp hms hme hns hfit hstg
    cases cmds with
    | nil =>
      simp only [encodePathsFuel, Option.some.injEq] at h
      subst h
      exact ⟨s, Reaches.refl _ _, hp, hme, rfl⟩
    | cons c rest =>
      cases c with
      | mask cn bs =>
        simp only [encodePathsFuel] at h
        cases hr : encodePathsFuel f rest paths with
        | none => rw [hr] at h; cases h
        | some b' =>
          rw [hr] at h
          simp only [Option.map_some, Option.some.injEq] at h
          simp only [masksFitE, Bool.and_eq_true, decide_eq_true_eq, beq_iff_eq] at hfit
          obtain ⟨⟨hn1, hbl⟩, hfit'⟩ := hfit
          have hst1 : 1 ≤ s.stage := hstg rfl
          have h1 := mask_reaches_go env s cn bs b' hp hme hst1 (by rw [hns]; exact hn1) (by rw [hns]; exact hbl)
            (encodePathsFuel_pos f _ _ _ hr)
          obtain ⟨f1, f2, f3, f4, f5, f6, f7, f8⟩ := widthDone_fields env s
          have hs1 : (drawCmd strict (widthDone env s) (.mask cn bs)).stack = [] := f1
          have hw1 : (drawCmd strict (widthDone env s) (.mask cn bs)).widthSet = true := f2
          have hm1 : (drawCmd strict (widthDone env s) (.mask cn bs)).moveErr = false := by
            simp only [drawCmd, f3, hme]
          have hmv1 : (drawCmd strict (widthDone env s) (.mask cn bs)).hasMoved = s.hasMoved := f4
          obtain ⟨sEnd, k1, k2, k3, k4⟩ := ih rest paths b' _ hr (by rw [hmv1]; simpa [cmdsOKm] using hok)
            (fun c hc => hdec c (List.mem_cons_of_mem _ hc)) (fun c hc => hbnd c (List.mem_cons_of_mem _ hc)) (Or.inl hs1) (fun _ => hs1) hm1
            (by simp only [nStems, drawCmd, f6, f7]; exact hns) hfit'
            (fun _ => by simp only [drawCmd]; omega)
          refine ⟨sEnd, ?_, k2, k3, ?_⟩
          · rw [← h]; exact h1.trans k1
          · rw [k4, widthDone_id env _ hs1 hw1]; rfl
      | move dx dy =>
        simp only [encodePathsFuel] at h
        cases hr : encodePathsFuel f rest paths with
        | none => rw [hr] at h; cases h
        | some b' =>
          rw [hr] at h
          simp only [Option.map_some, Option.some.injEq] at h
          obtain ⟨hdx, hdy⟩ := hdec _ List.mem_cons_self
          have h1 := move_reaches_go env s dx dy b' hp hme hdx hdy (hbnd _ List.mem_cons_self).1 (hbnd _ List.mem_cons_self).2
          obtain ⟨f1, f2, f3, f4, f5, f6, f7, f8⟩ := widthDone_fields env s
          have hs1 : (rMoveTo strict (widthDone env s) dx.val dy.val).stack = [] := f1
          have hw1 : (rMoveTo strict (widthDone env s) dx.val dy.val).widthSet = true := f2
          have hm1 : (rMoveTo strict (widthDone env s) dx.val dy.val).moveErr = false := by
            simp only [rMoveTo, f3, hme]
          obtain ⟨sEnd, k1, k2, k3, k4⟩ := ih rest paths b' _ hr (by simpa [cmdsOKm, rMoveTo] using hok)
            (fun c hc => hdec c (List.mem_cons_of_mem _ hc)) (fun c hc => hbnd c (List.mem_cons_of_mem _ hc)) (Or.inl hs1) (fun _ => hs1) hm1
            (by simp only [nStems, rMoveTo, f6, f7]; exact hns) (by simpa [masksFitE] using hfit)
            (fun hm => by simp only [rMoveTo, f5]; exact hstg (by simpa [hasMaskE] using hm))
          refine ⟨sEnd, ?_, k2, k3, ?_⟩
          · rw [← h]; exact h1.trans k1
          · rw [k4, widthDone_id env _ hs1 hw1]; rfl
      | seg g =>
        simp only [encodePathsFuel] at h
        cases paths with
        | nil => simp at h
        | cons p ps =>
          simp only at h
          cases ha : assembleSubPath (takeSegs (EnCmd.seg g :: rest)).1 0 p with
          | none => rw [ha] at h; cases h
          | some b =>
            rw [ha] at h
            simp only at h
            cases hr : encodePathsFuel f (takeSegs (EnCmd.seg g :: rest)).2 ps with
            | none => rw [hr] at h; cases h
            | some b' =>
              rw [hr] at h
              simp only [Option.map_some, Option.some.injEq] at h
              have hspec := takeSegs_spec (EnCmd.seg g :: rest)
              generalize hr1 : (takeSegs (EnCmd.seg g :: rest)).1 = segs at *
              generalize hr2 : (takeSegs (EnCmd.seg g :: rest)).2 = tl at *
              have hne : segs ≠ [] := by
                rw [← hr1]; simp [takeSegs]
              rw [hspec] at hok hfit hstg
              obtain ⟨hmoved, hoktl⟩ := cmdsOKm_segs segs tl _ hok hne
              have hst := hms hmoved
              obtain ⟨path, hpath, hb⟩ := assemble_isPath segs p 0 b ha
              have hdseg : ∀ g ∈ segs, ∀ a ∈ g.args, Decodes a := by
                intro g' hg'
                have : EnCmd.seg g' ∈ EnCmd.seg g :: rest := by
                  rw [hspec]; exact List.mem_append_left _ (List.mem_map_of_mem hg')
                exact hdec _ this
              have hready : Ready s := ⟨hst, hmoved, hme⟩
              have hbseg : ∀ g ∈ segs, SegBnd g := by
                intro g' hg'
                have : EnCmd.seg g' ∈ EnCmd.seg g :: rest := by
                  rw [hspec]; exact List.mem_append_left _ (List.mem_map_of_mem hg')
                exact hbnd _ this
              have h1 := path_reaches_go env segs 0 path hpath hdseg hbseg s hready b'
              simp only [List.drop_zero] at h1
              have hr1' := ready_drawSegs strict s segs hready
              obtain ⟨q1, q2, q3, q4, q5, q6, q7, q8⟩ := keeps_drawSegs strict s segs
              obtain ⟨sEnd, k1, k2, k3, k4⟩ := ih tl ps b' (drawSegs strict s segs) hr
                (by rw [hr1'.2.1]; exact hoktl)
                (fun c hc => hdec c (by rw [hspec]; exact List.mem_append_right _ hc))
                (fun c hc => hbnd c (by rw [hspec]; exact List.mem_append_right _ hc))
                (Or.inl hr1'.1) (fun _ => hr1'.1) hr1'.2.2
                (by simp only [nStems, q6, q7]; exact hns)
                (by rw [masksFitE_segs] at hfit; exact hfit)
                (fun hm => by rw [q5]; exact hstg (by rw [hasMaskE_segs]; exact hm))
              refine ⟨sEnd, ?_, k2, k3, ?_⟩
              · rw [← h, hb]; exact h1.trans k1
              · rw [k4, hspec, drawCmds_segs, widthDone_drawSegs]


theorem glyph_sound_go (env : Env) (K : Nat) (w : Int) (hs vs : List Int) (cmds : List InCmd)
    (paths : List (List (Nat × Op))) (bytes : List Nat)
    (h : encodeCharString K w hs vs cmds env.defaultWidth env.nominalWidth paths = some bytes)
    (hwf : GlyphWF hs vs cmds = true)
    (hdec : ∀ c ∈ encodeArgs K cmds, CmdDecodes c) (hbnd : ∀ c ∈ encodeArgs K cmds, CmdBnd c)
    (hw : w ≠ env.defaultWidth * 2 ^ (K - 16) → Decodes (encNum (w - env.nominalWidth * 2 ^ (K - 16)) K))
    (hdh : ∀ c ∈ hChunks env K w hs, ∀ a ∈ c, Decodes a)
    (hdv : ∀ c ∈ vChunks env K w hs vs, ∀ a ∈ c, Decodes a) :
    T2.interp goQuirks env bytes =
      .ok (drawCmds strict (widthDone env (hdrState env K w hs vs)) (encodeArgs K cmds)).glyph := by
  obtain ⟨pb, sHdr, hp, hevh, hevv, hreach, hend⟩ := header_reaches_go env K w hs vs cmds paths bytes h hw hdh hdv
  simp only [GlyphWF, Bool.and_eq_true] at hwf
  obtain ⟨hdraw, hfit⟩ := hwf
  obtain ⟨x1, x2, x3, x4, x5, x6⟩ := hdrState_fields env K w hs vs
  obtain ⟨r0, rx0⟩ := startState_ready env K w
  have rH := (hintReady_declAll env false _ (hChunks env K w hs) r0).1
  have rX : HintReady (hdrState env K w hs vs) := (hintReady_declAll env true _ (vChunks env K w hs vs) rH).1
  have hex1 : widthExtra env K w ≤ 1 := by unfold widthExtra; split <;> omega
  have hnst : nStems (hdrState env K w hs vs) = (hs.length + vs.length) / 2 := by
    simp only [nStems, x3, x4, hChunks, vChunks]
    rw [decStems_length K _ _ hs (by omega) hevh hex1,
      decStems_length K _ _ vs (by omega) hevv (by split <;> omega)]
  obtain ⟨sEnd, k1, k2, k3, k4⟩ := paths_reaches_full_go env ((hs.length + vs.length) / 2) _ (encodeArgs K cmds) paths pb
    (hdrState env K w hs vs) hp (by rw [x1, encodeArgs, cmdsOKm_encodeArgs]; exact hdraw) hdec hbnd rX.1
    (by rw [x1]; intro hm; cases hm) rX.2.2 hnst (by rw [encodeArgs, masksFitE_encodeArgs]; exact hfit)
    (by
      intro hm
      have h1 := masksFitE_hasMask _ _ (by rw [encodeArgs, masksFitE_encodeArgs]; exact hfit) hm
      rw [x5 (by omega)]
      exact Nat.le_refl 1)
  obtain ⟨s', e1, e2⟩ := endchar_step_go env sEnd k2
  have hfin : Reaches goQuirks env sHdr pb sEnd (opBytes .endchar) := by
    by_cases hc : maskFirst cmds = false ∨ vChunks env K w hs vs = []
    · rw [hend.1 hc]; exact k1
    · have hmf : maskFirst cmds = true := by
        cases hb : maskFirst cmds with
        | true => rfl
        | false => exact absurd (Or.inl hb) hc
      have hvc : vChunks env K w hs vs ≠ [] := fun hv => hc (Or.inr hv)
      obtain ⟨sL, c, a1, a2, a3, a4, a5, a6⟩ := hend.2 hmf hvc
      obtain ⟨cn, bs, rest, hshape⟩ := maskFirst_shape K cmds hmf
      -- the path section starts with the mask operator
      have hpb : ∃ b', pb = opBytes (maskOp cn) ++ (bs ++ b') := by
        unfold encodePaths at hp
        rw [hshape] at hp
        simp only [List.length_cons, encodePathsFuel] at hp
        cases hr : encodePathsFuel (rest.length + 1) rest paths with
        | none => rw [hr] at hp; cases hp
        | some b' =>
          rw [hr] at hp
          simp only [Option.map_some, Option.some.injEq] at hp
          exact ⟨b', by rw [← hp]; simp [maskOp]⟩
      obtain ⟨b', hpb⟩ := hpb
      have hX : hdrState env K w hs vs = stemDecl env true sL c := a6.symm
      rw [hX] at k1
      refine Reaches.congr_first ?_ ?_ k1
      · rw [hpb, a5, step_op' goQuirks env _ _ _ (by simpa using a4),
          step_op' goQuirks env _ _ _ (by rw [(hintReady_stemDecl env true sL c a1).2]; simp),
          exec_mask_implicit_go env sL c cn _ a1 a2 a3]
      · rw [hpb]
        have := opBytes_pos (maskOp cn)
        have h1 : (opBytes Op.endchar).length = 1 := rfl
        have hb' : 0 < b'.length := by
          unfold encodePaths at hp
          rw [hshape] at hp
          simp only [List.length_cons, encodePathsFuel] at hp
          cases hr : encodePathsFuel (rest.length + 1) rest paths with
          | none => rw [hr] at hp; cases hp
          | some b'' =>
            rw [hr] at hp
            simp only [Option.map_some, Option.some.injEq] at hp
            have hpos := encodePathsFuel_pos _ _ _ _ hr
            have : b'' = b' := by
              rw [hpb] at hp
              simpa [maskOp] using hp
            rw [← this]; exact hpos
        simp only [List.length_append]
        omega
  rw [interp_of_reaches goQuirks env bytes sEnd s' _ (hreach.trans hfin) e1, e2, k4]


/-- On everything the compiler emits for a well-formed glyph whose deltas are within ±32000, the model of
the Go decoder and the specification interpreter return the same glyph. -/
theorem agrees_on_encoder_output (env : Env) (K : Nat) (w : Int) (hs vs : List Int) (cmds : List InCmd)
    (paths : List (List (Nat × Op))) (bytes : List Nat)
    (h : encodeCharString K w hs vs cmds env.defaultWidth env.nominalWidth paths = some bytes)
    (hwf : GlyphWF hs vs cmds = true)
    (hdec : ∀ c ∈ encodeArgs K cmds, CmdDecodes c) (hbnd : ∀ c ∈ encodeArgs K cmds, CmdBnd c)
    (hw : w ≠ env.defaultWidth * 2 ^ (K - 16) → Decodes (encNum (w - env.nominalWidth * 2 ^ (K - 16)) K))
    (hdh : ∀ c ∈ hChunks env K w hs, ∀ a ∈ c, Decodes a)
    (hdv : ∀ c ∈ vChunks env K w hs vs, ∀ a ∈ c, Decodes a) :
    T2.interp goQuirks env bytes = T2.interp strict env bytes := by
  rw [glyph_sound_go env K w hs vs cmds paths bytes h hwf hdec hbnd hw hdh hdv,
    glyph_sound env K w hs vs cmds paths bytes h hwf hdec hw hdh hdv]

/-- the round trip through the model of the library's own decoder -/
theorem glyph_roundtrip_go (env : Env) (K : Nat) (hK : 16 ≤ K) (w : Int) (hs vs : List Int) (cmds : List InCmd)
    (paths : List (List (Nat × Op))) (bytes : List Nat)
    (h : encodeCharString K w hs vs cmds env.defaultWidth env.nominalWidth paths = some bytes)
    (hwf : GlyphWF hs vs cmds = true) (hsteps : stepsSmall K 0 0 cmds = true)
    (hbnd : ∀ c ∈ encodeArgs K cmds, CmdBnd c)
    (hw : w ≠ env.defaultWidth * 2 ^ (K - 16) → Small K (w - env.nominalWidth * 2 ^ (K - 16)))
    (hhs : hStemsSmall env K w hs = true) (hvs : vStemsSmall env K w hs vs = true) :
    ∃ g, T2.interp goQuirks env bytes = .ok g ∧ CmdsClose K g.cmds cmds ∧
      CloseList K g.hstem hs ∧ CloseList K g.vstem vs ∧
      g.hstem = decStems (hChunks env K w hs) ∧ g.vstem = decStems (vChunks env K w hs vs) ∧
      g.width = (if w = env.defaultWidth * 2 ^ (K - 16) then env.defaultWidth
        else (encNum (w - env.nominalWidth * 2 ^ (K - 16)) K).val + env.nominalWidth) ∧
      (w ≠ env.defaultWidth * 2 ^ (K - 16) → Close K g.width w) := by
  obtain ⟨x0, y0⟩ := hdrState_xy env K w hs vs
  obtain ⟨hdec, _, _, _⟩ := drawCmds_close K hK cmds 0 0 (widthDone env (hdrState env K w hs vs)) x0 y0 hsteps
  have hdh := stemChunks_decodes K hK _ _ hs hhs
  have hdv := stemChunks_decodes K hK _ _ vs hvs
  obtain ⟨g, hg, rest⟩ := glyph_roundtrip env K hK w hs vs cmds paths bytes h hwf hsteps hw hhs hvs
  refine ⟨g, ?_, rest⟩
  rw [agrees_on_encoder_output env K w hs vs cmds paths bytes h hwf hdec hbnd
    (fun hne => encNum_decodes _ _ (hw hne)) hdh hdv]
  exact hg

end SfntV.T2Enc
