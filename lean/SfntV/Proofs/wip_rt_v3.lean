/-
Lemmas for C09 (cmap table container): Decode (Encode t) = t.
-/
import SfntV.Proofs.CmapxTable

namespace SfntV.CmapTable
open SfntV

/-- a subtable with a valid format/length header under a key obeying the language rule -/
def ValidSub (k : Key) (d : Bytes) : Prop :=
  k.p ≤ 4 ∧ k.e < 65536 ∧
  ∃ f, rd16 d 0 = .ok f ∧
    match hdrKind f with
    | .len16 => 10 ≤ d.length ∧ rd16 d 2 = .ok d.length ∧
        ∃ lang, rd16 d 4 = .ok lang ∧ k.l = if k.p ≠ 1 then 0 else lang
    | .len32 => 12 ≤ d.length ∧ rd32 d 4 = .ok d.length ∧
        ∃ lang, rd16 d 10 = .ok lang ∧ k.l = if k.p ≠ 1 then 0 else lang
    | .len14 => 10 ≤ d.length ∧ rd32 d 2 = .ok d.length ∧ k.l = 0
    | .bad => False

theorem ValidSub.len {k : Key} {d : Bytes} (h : ValidSub k d) : 10 ≤ d.length := by
  obtain ⟨_, _, f, _, hm⟩ := h
  cases hk : hdrKind f <;> rw [hk] at hm <;> simp only [] at hm
  · exact hm.1
  · have := hm.1; omega
  · exact hm.1

theorem rd16_of_slice (b d : Bytes) (o j : Nat) (hs : (b.drop o).take d.length = d) (hj : j + 2 ≤ d.length) :
    rd16 b (o + j) = rd16 d j := by
  have := rd16_slice b o d.length j hj
  rw [hs] at this
  exact this.symm

theorem rd32_of_slice (b d : Bytes) (o j : Nat) (hs : (b.drop o).take d.length = d) (hj : j + 4 ≤ d.length) :
    rd32 b (o + j) = rd32 d j := by
  unfold rd32
  rw [rd16_of_slice b d o j hs (by omega), show o + j + 2 = o + (j + 2) by omega,
    rd16_of_slice b d o (j+2) hs (by omega)]

/-- one iteration of Decode's loop on a record that points at a valid subtable -/
theorem record_valid (b : Bytes) (eoh i : Nat) (segs segs' : List Seg) (k : Key) (d : Bytes) (o : Nat)
    (h32 : b.length < 4294967296) (h12 : 12 ≤ b.length)
    (hp : rd16 b (4 + i*8) = .ok k.p) (he : rd16 b (6 + i*8) = .ok k.e) (ho : rd32 b (8 + i*8) = .ok o)
    (hs : (b.drop o).take d.length = d) (hfit : o + d.length ≤ b.length) (heoh : eoh ≤ o)
    (hv : ValidSub k d) (hov : overlap segs o d.length = some segs') :
    record b eoh b.length i segs = .ok ((k, d), segs') := by
  have hlen := hv.len
  obtain ⟨hp4, _, f, hf, hm⟩ := hv
  unfold record
  simp only [hp, he, ho]
  rw [if_neg (by omega)]
  have hs10 : sub32 b.length 10 = b.length - 10 := sub32_eq _ _ (by omega) h32
  have hs12 : sub32 b.length 12 = b.length - 12 := sub32_eq _ _ (by omega) h32
  have hso : sub32 b.length o = b.length - o := sub32_eq _ _ (by omega) h32
  rw [if_neg (by omega)]
  have hf' : rd16 b o = .ok f := by
    have := rd16_of_slice b d o 0 hs (by omega)
    rw [Nat.add_zero] at this
    rw [this, hf]
  simp only [hf']
  have hsl : slice b o d.length = .ok d := by
    unfold slice
    rw [if_neg (by omega), hs]
  cases hk : hdrKind f <;> rw [hk] at hm <;> simp only [] at hm
  · obtain ⟨_, h2, lang, h4, hl⟩ := hm
    unfold lenLang
    simp only [rd16_of_slice b d o 2 hs (by omega), rd16_of_slice b d o 4 hs (by omega), h2, h4]
    rw [if_neg (by omega)]
    simp only [hov, hsl]
    have hk' : (⟨k.p, k.e, if k.p ≠ 1 then 0 else lang⟩ : Key) = k := by
      rw [← hl]
    rw [hk']
  · obtain ⟨hd12, h2, lang, h4, hl⟩ := hm
    have h12o : ¬ (o > sub32 b.length 12) := by rw [hs12]; omega
    unfold lenLang
    dsimp only
    sorry
  · obtain ⟨_, h2, hl⟩ := hm
    unfold lenLang
    simp only [rd32_of_slice b d o 2 hs (by omega), h2]
    rw [if_neg (by omega)]
    simp only [hov, hsl]
    have hk' : (⟨k.p, k.e, if k.p ≠ 1 then 0 else 0⟩ : Key) = k := by
      have : (if k.p ≠ 1 then 0 else 0) = k.l := by rw [hl]; split <;> rfl
      rw [this]
    rw [hk']

end SfntV.CmapTable
