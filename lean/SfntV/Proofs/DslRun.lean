/-
C19 — running the parser model on a known item stream: `Runs m X r stop` says that `m`, started
on a stream that begins with the items `X` followed by an item satisfying `stop`, consumes
exactly `X` and returns `r`.  Primitives and sequencing.
-/
import SfntV.Proofs.DslTotal

set_option linter.unusedSimpArgs false
set_option linter.unusedVariables false

namespace SfntV.Dsl

/-- the items the parser will see next: pushed-back ones first -/
def PS.stream (s : PS) : List Tok := s.backlog ++ s.toks

def Runs {α : Type} (m : PM α) (X : List Tok) (r : α) (stop : Tok → Prop) : Prop :=
  ∀ (s : PS) (t : Tok) (rest : List Tok), s.stream = X ++ t :: rest → stop t →
    ∃ s', m s = .ok (r, s') ∧ s'.stream = t :: rest

abbrev anyTok : Tok → Prop := fun _ => True

theorem readItem_stream (s : PS) (t : Tok) (ts : List Tok) (h : s.stream = t :: ts) :
    ∃ s', readItem s = .ok (t, s') ∧ s'.stream = ts := by
  obtain ⟨toks, backlog, last⟩ := s
  unfold PS.stream at h
  simp only at h
  unfold readItem
  cases backlog with
  | cons b bs =>
    simp only [List.cons_append, List.cons.injEq] at h
    obtain ⟨rfl, h2⟩ := h
    exact ⟨_, rfl, h2⟩
  | nil =>
    simp only [List.nil_append] at h
    subst h
    exact ⟨_, rfl, rfl⟩

theorem pushBack_stream (s : PS) (t : Tok) :
    ∃ s', pushBack t s = .ok ((), s') ∧ s'.stream = t :: s.stream := ⟨_, rfl, rfl⟩

theorem runs_weaken {α : Type} {m : PM α} {X : List Tok} {r : α} {P Q : Tok → Prop}
    (h : Runs m X r P) (hq : ∀ t, Q t → P t) : Runs m X r Q :=
  fun s t rest hs ht => h s t rest hs (hq t ht)

theorem runs_pure {α : Type} (a : α) (P : Tok → Prop) : Runs (pure a : PM α) [] a P := by
  intro s t rest hs _
  exact ⟨s, rfl, by simpa using hs⟩

theorem runs_bind {α β : Type} {m : PM α} {f : α → PM β} {X1 X2 : List Tok} {a : α} {b : β}
    {P1 P : Tok → Prop} (h1 : Runs m X1 a P1) (h2 : Runs (f a) X2 b P)
    (hp : ∀ t, P t → P1 (X2.head?.getD t)) : Runs (m >>= f) (X1 ++ X2) b P := by
  intro s t rest hs ht
  cases X2 with
  | nil =>
    obtain ⟨s1, e1, hs1⟩ := h1 s t rest (by simpa using hs) (by simpa using hp t ht)
    obtain ⟨s2, e2, hs2⟩ := h2 s1 t rest (by simpa using hs1) ht
    exact ⟨s2, by rw [bind_run, e1]; exact e2, hs2⟩
  | cons x xs =>
    obtain ⟨s1, e1, hs1⟩ := h1 s x (xs ++ t :: rest) (by simpa using hs) (by simpa using hp t ht)
    obtain ⟨s2, e2, hs2⟩ := h2 s1 t rest (by simpa using hs1) ht
    exact ⟨s2, by rw [bind_run, e1]; exact e2, hs2⟩

theorem runs_readItem (t : Tok) : Runs readItem [t] t anyTok := by
  intro s u rest hs _
  exact readItem_stream s t _ (by simpa using hs)

theorem runs_required (t : Tok) (typ : Nat) (h : t.typ = typ) : Runs (required typ) [t] t anyTok := by
  intro s u rest hs _
  obtain ⟨s1, e1, hs1⟩ := readItem_stream s t _ (by simpa using hs)
  refine ⟨s1, ?_, hs1⟩
  unfold required
  rw [bind_run, e1]
  simp [h, pure_run]

theorem runs_optional_yes (t : Tok) (types : List Nat) (h : types.contains t.typ = true) :
    Runs (optional types) [t] true anyTok := by
  intro s u rest hs _
  obtain ⟨s1, e1, hs1⟩ := readItem_stream s t _ (by simpa using hs)
  refine ⟨s1, ?_, hs1⟩
  unfold optional
  rw [bind_run, e1]
  simp only [h, if_true, pure_run]

theorem runs_optional_no (types : List Nat) :
    Runs (optional types) [] false (fun t => types.contains t.typ = false) := by
  intro s u rest hs hu
  obtain ⟨s1, e1, hs1⟩ := readItem_stream s u rest (by simpa using hs)
  refine ⟨{ s1 with backlog := u :: s1.backlog }, ?_, ?_⟩
  · unfold optional
    rw [bind_run, e1]
    simp only [hu, Bool.false_eq_true, if_false, bind_run, pushBack_run, pure_run]
  · simp [PS.stream] at hs1 ⊢; exact hs1

theorem runs_takeIf_yes (t : Tok) (p : Tok → Bool) (h : p t = true) :
    Runs (takeIf p) [t] (some t) anyTok := by
  intro s u rest hs _
  obtain ⟨s1, e1, hs1⟩ := readItem_stream s t _ (by simpa using hs)
  refine ⟨s1, ?_, hs1⟩
  unfold takeIf
  rw [bind_run, e1]
  simp only [h, if_true, pure_run]

theorem runs_takeIf_no (p : Tok → Bool) : Runs (takeIf p) [] none (fun t => p t = false) := by
  intro s u rest hs hu
  obtain ⟨s1, e1, hs1⟩ := readItem_stream s u rest (by simpa using hs)
  refine ⟨{ s1 with backlog := u :: s1.backlog }, ?_, ?_⟩
  · unfold takeIf
    rw [bind_run, e1]
    simp only [hu, Bool.false_eq_true, if_false, bind_run, pushBack_run, pure_run]
  · simp [PS.stream] at hs1 ⊢; exact hs1

theorem runs_peek (t : Tok) : Runs peek [] t (fun u => u = t) := by
  intro s u rest hs hu
  subst hu
  obtain ⟨s1, e1, hs1⟩ := readItem_stream s u rest (by simpa using hs)
  refine ⟨{ s1 with backlog := u :: s1.backlog }, ?_, ?_⟩
  · unfold peek
    rw [bind_run, e1]
    simp only [bind_run, pushBack_run, pure_run]
  · simp [PS.stream] at hs1 ⊢; exact hs1

end SfntV.Dsl
