/-
C19 — fragments shared by all lookup forms: the arrow, the mapping loop, lookup flags and the
header, subtables separated by `||`.
-/
import SfntV.Proofs.DslFrag
set_option linter.unusedSimpArgs false
set_option linter.unusedVariables false
namespace SfntV.Dsl

theorem tk_canon (typ : Nat) (s : List Nat) (h : ∀ c ∈ s, c < 128) : ∀ rb ∈ ascii s, Canon rb :=
  ascii_canon s h

theorem arrow_tokOk (nx : Option Nat) : TokOk tArrow (ascii [45, 62]) nx := by
  right; right; right; right; left
  exact ⟨rfl, rfl⟩

/-- `" -> "` read by `required(itemArrow)`, then the rest -/
theorem frag_arrow_then {β : Type} {k : PM β} {X : List Piece} {y : β} {P : Tok → Prop} {N : Option Nat → Prop}
    (hb : Frag k X y P N) : Frag (required tArrow >>= fun _ => k) (arrow ++ X) y P N := by
  have h1 : FragU (required tArrow) [.tok tArrow (ascii [45, 62])] anyTok anyNext :=
    fragU_required tArrow _ anyNext (fun nx _ => arrow_tokOk nx) (tk_canon tArrow _ (by decide))
  have := frag_ws [a1 32] ws_sp (frag_then h1 (frag_ws [a1 32] ws_sp hb) (fun _ _ => trivial) (fun _ _ _ => trivial))
  simpa [arrow, sp, tk] using this

theorem comma_tokOk (nx : Option Nat) : TokOk tComma (ascii [44]) nx := by
  right; right; right; left
  exact ⟨44, rfl, by decide⟩

/-- the mapping loop of GSUB 1–4 and GPOS 1–2: `first {", " next}` -/
theorem frag_pairsLoop {σ ι : Type} (one : σ → PM σ) (pcs : ι → List Piece) (upd : σ → ι → σ)
    (P Pone : Tok → Prop) (N N1 : Option Nat → Prop)
    (hP : ∀ t, P t → [tComma].contains t.typ = false ∧ Pone t)
    (hcomma : ∀ t, t.typ = tComma → Pone t)
    (hN : ∀ nx, N nx → N1 nx) (hN44 : N1 (some 44)) :
    ∀ (items : List ι) (st0 : σ) (i0 : ι) (n : Nat), items.length < n →
      (∀ i ∈ items, ∀ line, ∃ t, (mkToks line (pcs i)).head? = some t ∧ [tEOL].contains t.typ = false) →
      (∀ pre i post, i0 :: items = pre ++ i :: post →
        Frag (one (pre.foldl upd st0)) (pcs i) ((pre ++ [i]).foldl upd st0) Pone N1) →
      Frag (pairsLoop one n st0) (pcs i0 ++ items.flatMap (fun y => [commaP, sp] ++ pcs y))
        ((i0 :: items).foldl upd st0) P N := by
  intro items
  induction items with
  | nil =>
    intro st0 i0 n hn hhead hone
    cases n with
    | zero => omega
    | succ m =>
      have h0 := hone [] i0 [] rfl
      simp only [List.foldl_nil, List.nil_append, List.foldl_cons] at h0
      unfold pairsLoop
      have hrest : Frag (optional [tComma] >>= fun b => if (!b) = true then pure (upd st0 i0) else
          (optional [tEOL] >>= fun _ => pairsLoop one m (upd st0 i0))) [] (upd st0 i0) P N := by
        have := frag_bind (frag_optional_no [tComma]) (frag_pure (upd st0 i0) P)
          (f := fun b => if (!b) = true then pure (upd st0 i0) else
            (optional [tEOL] >>= fun _ => pairsLoop one m (upd st0 i0)))
          (fun _ _ => trivial) (fun line t ht => by simpa [mkToks] using (hP t ht).1)
        exact frag_weaken (by simpa using this) (fun _ h => h) (fun _ _ => trivial)
      have := frag_bind (b := []) (f := fun st' => optional [tComma] >>= fun b => if (!b) = true then pure st' else
          (optional [tEOL] >>= fun _ => pairsLoop one m st')) h0 hrest (fun nx hnx => by simpa [nextRune, render] using hN nx hnx)
        (fun line t ht => by simpa [mkToks] using (hP t ht).2)
      simpa using this
  | cons j rest ih =>
    intro st0 i0 n hn hhead hone
    cases n with
    | zero => omega
    | succ m =>
      have h0 := hone [] i0 (j :: rest) rfl
      simp only [List.foldl_nil, List.nil_append, List.foldl_cons] at h0
      have hih := ih (upd st0 i0) j m (by simp at hn; omega) (fun i hi => hhead i (by simp [hi])) (by
        intro pre i post e
        have := hone (i0 :: pre) i post (by simp [e])
        simpa using this)
      -- after the comma: no line break, then the loop again
      have hafter : Frag (optional [tEOL] >>= fun _ => pairsLoop one m (upd st0 i0))
          (pcs j ++ rest.flatMap (fun y => [commaP, sp] ++ pcs y)) ((j :: rest).foldl upd (upd st0 i0)) P N := by
        have := frag_then (frag_optional_no [tEOL]).toU hih (fun _ _ => trivial) (fun line t ht => by
          obtain ⟨th, hth1, hth2⟩ := hhead j (by simp) line
          rw [mkToks_append]
          cases hm : mkToks line (pcs j) with
          | nil => rw [hm] at hth1; cases hth1
          | cons a as =>
            rw [hm] at hth1
            simp at hth1
            subst hth1
            simpa using hth2)
        simpa using this
      have hcomma' : Frag (optional [tComma] >>= fun b => if (!b) = true then pure (upd st0 i0) else
          (optional [tEOL] >>= fun _ => pairsLoop one m (upd st0 i0)))
          ([commaP, sp] ++ (pcs j ++ rest.flatMap (fun y => [commaP, sp] ++ pcs y)))
          ((j :: rest).foldl upd (upd st0 i0)) P N := by
        have hy := frag_optional_yes [tComma] tComma (ascii [44]) anyNext (by decide)
          (fun nx _ => comma_tokOk nx) (tk_canon tComma _ (by decide))
        have := frag_bind hy (frag_ws [a1 32] ws_sp hafter)
          (f := fun b => if (!b) = true then pure (upd st0 i0) else
            (optional [tEOL] >>= fun _ => pairsLoop one m (upd st0 i0)))
          (fun _ _ => trivial) (fun _ _ _ => trivial)
        simpa [commaP, sp, tk] using this
      unfold pairsLoop
      have := frag_bind (b := [commaP, sp] ++ (pcs j ++ rest.flatMap (fun y => [commaP, sp] ++ pcs y)))
        (f := fun st' => optional [tComma] >>= fun b => if (!b) = true then pure st' else
          (optional [tEOL] >>= fun _ => pairsLoop one m st')) h0 hcomma' (fun nx _ => by
          simpa [nextRune, render, commaP, tk, ascii, Piece.rbs, a1] using hN44)
        (fun line t _ => by
          apply hcomma
          simp [mkToks, commaP, tk])
      simpa [List.flatMap_cons, List.append_assoc] using this

/-! ### lookup flags and the header -/

def flagEntryOk (e : Nat × List Nat) : Bool :=
  e.2.take 2 == [32, 45] && (Gen.dslParseFlagsC.find? (·.1 == e.2.drop 2)).map (·.2) == some e.1 &&
  (e.2.drop 2) != [] && (e.2.drop 2).all (fun c => inR 97 122 c)

theorem flagEntries_ok : ∀ e ∈ Gen.dslExplainFlagsC, flagEntryOk e = true := by decide

def flagPieces (flags : Nat) (e : Nat × List Nat) : List Piece :=
  if flags &&& e.1 != 0 then [sp, hyphenP, tk tIdentifier (e.2.drop 2)] else []

def flagFold (flags : Nat) (acc : Nat) (tbl : List (Nat × List Nat)) : Nat :=
  tbl.foldl (fun a e => if flags &&& e.1 != 0 then a ||| e.1 else a) acc

theorem lower_ident (c : Nat) (h : inR 97 122 c = true) : isIdentStart c = true ∧ isIdentChar c = true := by
  have hb : 97 ≤ c ∧ c ≤ 122 := by simpa [inR] using h
  have lt : c < 128 := by omega
  have : isLetter c = true := by simp [isLetter, lt, inR]; omega
  simp [isIdentStart, isIdentChar, this]

/-- an identifier of lower-case ASCII letters, read by `readIdentifier` -/
theorem frag_readIdentifier (s : List Nat) (hne : s ≠ []) (hs : ∀ c ∈ s, inR 97 122 c = true) :
    Frag readIdentifier [tk tIdentifier s] s anyTok (fun nx => ∀ r, nx = some r → isIdentChar r = false) := by
  refine ⟨?_, ?_, ?_⟩
  · intro nx hn
    refine ⟨?_, trivial⟩
    left
    cases s with
    | nil => exact absurd rfl hne
    | cons c cs =>
      refine ⟨rfl, a1 c, ascii cs, rfl, (lower_ident c (hs c (by simp))).1, ?_, hn⟩
      intro x hx
      simp only [ascii, List.mem_map] at hx
      obtain ⟨d, hd, rfl⟩ := hx
      exact (lower_ident d (hs d (by simp [hd]))).2
  · intro rb hrb
    simp only [render, tk, List.flatMap_cons, Piece.rbs, List.flatMap_nil, List.append_nil] at hrb
    apply ascii_canon s _ rb hrb
    intro c hc
    have := hs c hc
    simp [inR] at this
    omega
  · intro line u t rest hs' _
    obtain ⟨s1, e1, hs1⟩ := readItem_stream u { typ := tIdentifier, val := ascii s, line := line } _
      (by simpa [mkToks, tk] using hs')
    refine ⟨s1, ?_, hs1⟩
    unfold readIdentifier
    rw [bind_run, e1]
    simp [pure_run, Tok.bytes, ascii_bytes]

theorem hyphen_tokOk (nx : Option Nat) (h : ∀ r, nx = some r → r ≠ 62 ∧ inR 48 57 r = false) :
    TokOk tHyphen (ascii [45]) nx := by
  right; right; right; right; right; right; right; left
  exact ⟨rfl, rfl, h⟩

theorem flags_head (flags : Nat) (tbl : List (Nat × List Nat)) :
    (render (tbl.flatMap (flagPieces flags))).head? = none ∨
    (render (tbl.flatMap (flagPieces flags))).head? = some (a1 32) := by
  induction tbl with
  | nil => left; simp [render]
  | cons e tbl ih =>
    simp only [List.flatMap_cons, render_append]
    unfold flagPieces
    split
    · right; simp [render, sp, Piece.rbs]
    · simp only [render, List.flatMap_nil, List.nil_append] at ih ⊢
      exact ih

theorem frag_flagsLoop (flags : Nat) : ∀ (tbl : List (Nat × List Nat)), (∀ e ∈ tbl, flagEntryOk e = true) →
    ∀ (n acc : Nat), tbl.length < n →
    Frag (readLookupFlagsLoop n acc) (tbl.flatMap (flagPieces flags)) (flagFold flags acc tbl)
      (fun t => [tHyphen].contains t.typ = false) Safe := by
  intro tbl
  induction tbl with
  | nil =>
    intro _ n acc hn
    cases n with
    | zero => omega
    | succ m =>
      unfold readLookupFlagsLoop
      show Frag _ ([] ++ []) _ _ _
      refine frag_weaken (N := anyNext) ?_ (fun _ h => h) (fun _ _ => trivial)
      refine frag_bind (frag_optional_no [tHyphen]) ?_ (fun _ _ => trivial)
        (fun line t ht => by simpa [mkToks] using ht)
      simp only [Bool.not_false, if_true]
      exact frag_pure _ _
  | cons e tbl ih =>
    intro hall n acc hn
    have he := hall e (by simp)
    by_cases hsel : (flags &&& e.1 != 0) = true
    · cases n with
      | zero => omega
      | succ m =>
        unfold flagEntryOk at he
        simp only [Bool.and_eq_true, beq_iff_eq, bne_iff_ne, List.all_eq_true] at he
        obtain ⟨⟨⟨_, hfind⟩, hne⟩, hlow⟩ := he
        have hih := ih (fun x hx => hall x (by simp [hx])) m (acc ||| e.1) (by simp at hn; omega)
        have hid := frag_readIdentifier (e.2.drop 2) hne hlow
        have hhy := frag_optional_yes [tHyphen] tHyphen (ascii [45])
          (fun nx => ∀ r, nx = some r → r ≠ 62 ∧ inR 48 57 r = false) (by decide)
          (fun nx h => hyphen_tokOk nx h) (tk_canon tHyphen _ (by decide))
        have hp : (e :: tbl).flatMap (flagPieces flags) =
            .ws [a1 32] :: ([.tok tHyphen (ascii [45])] ++ ([tk tIdentifier (e.2.drop 2)] ++ tbl.flatMap (flagPieces flags))) := by
          simp [flagPieces, hsel, sp, hyphenP, tk]
        have hsel' : ¬ (flags &&& e.1 = 0) := by simpa using hsel
        have hr : flagFold flags acc (e :: tbl) = flagFold flags (acc ||| e.1) tbl := by
          simp [flagFold, hsel']
        rw [hp, hr]
        unfold readLookupFlagsLoop
        apply frag_ws [a1 32] ws_sp
        refine frag_bind hhy ?_ ?_ (fun _ _ _ => trivial)
        · simp only [Bool.not_true, Bool.false_eq_true, if_false]
          refine frag_bind hid ?_ ?_ (fun _ _ _ => trivial)
          · cases hf : Gen.dslParseFlagsC.find? (·.1 == e.2.drop 2) with
            | none => rw [hf] at hfind; simp at hfind
            | some e' =>
              rw [hf] at hfind
              simp at hfind
              simp only []
              rw [hfind]; exact hih
          · intro nx hnx r hr
            unfold nextRune at hr
            rcases flags_head flags tbl with hh | hh
            · rw [hh] at hr; exact (hnx r hr).1
            · rw [hh] at hr
              simp [a1] at hr
              subst hr
              decide
        · intro nx _ r hr
          cases hd : e.2.drop 2 with
          | nil => exact absurd hd hne
          | cons c cs =>
            have hc := hlow c (by rw [hd]; simp)
            simp [nextRune, render, tk, ascii, Piece.rbs, hd] at hr
            subst hr
            simp [inR] at hc ⊢
            omega
    · have hih := ih (fun x hx => hall x (by simp [hx])) n acc (by simp at hn; omega)
      have hsel' : flags &&& e.1 = 0 := by simpa using hsel
      simpa [flagPieces, hsel', flagFold] using hih

theorem flags_head_tok (flags : Nat) (tbl : List (Nat × List Nat)) (line : Nat) :
    (mkToks line (tbl.flatMap (flagPieces flags))).head? = none ∨
    ∃ t, (mkToks line (tbl.flatMap (flagPieces flags))).head? = some t ∧ t.typ = tHyphen := by
  induction tbl with
  | nil => left; simp [mkToks]
  | cons e tbl ih =>
    simp only [List.flatMap_cons]
    by_cases hsel : flags &&& e.1 = 0
    · have : flagPieces flags e = [] := by simp [flagPieces, hsel]
      rw [this]; simpa using ih
    · have : flagPieces flags e = [sp, hyphenP, tk tIdentifier (e.2.drop 2)] := by simp [flagPieces, hsel]
      rw [this]; right; simp [mkToks, sp, hyphenP, tk]

theorem flags_value : ∀ fl : Fin 16, flagFold fl.val 0 Gen.dslExplainFlagsC = fl.val := by decide

theorem colon_tokOk (nx : Option Nat) : TokOk tColon (ascii [58]) nx := by
  right; right; right; left
  exact ⟨58, rfl, by decide⟩

/-- `":" flags` read by `header` -/
theorem frag_header (flags : Nat) (hfl : flags < 16) (fuel : Nat) (hfuel : Gen.dslExplainFlagsC.length < fuel) :
    Frag (header fuel) ([tk tColon [58]] ++ explainFlags flags) flags
      (fun t => [tHyphen].contains t.typ = false ∧ [tEOL].contains t.typ = false) Safe := by
  have hflags := frag_flagsLoop flags Gen.dslExplainFlagsC flagEntries_ok fuel 0 hfuel
  rw [flags_value ⟨flags, hfl⟩] at hflags
  have hexp : explainFlags flags = Gen.dslExplainFlagsC.flatMap (flagPieces flags) := rfl
  rw [hexp]
  unfold header
  have hc := (frag_optional_yes [tColon] tColon (ascii [58]) anyNext (by decide)
    (fun nx _ => colon_tokOk nx) (tk_canon tColon _ (by decide))).toU
  refine frag_then hc ?_ (fun _ _ => trivial) (fun _ _ _ => trivial)
  show Frag _ ([] ++ Gen.dslExplainFlagsC.flatMap (flagPieces flags)) _ _ _
  refine frag_then (frag_optional_no [tEOL]).toU ?_ (fun _ _ => trivial) ?_
  · unfold readLookupFlags
    have : Gen.dslExplainFlagsC.flatMap (flagPieces flags) = Gen.dslExplainFlagsC.flatMap (flagPieces flags) ++ [] := by simp
    rw [this]
    refine frag_bind hflags ?_ (fun nx h => by simpa [nextRune, render] using h)
      (fun line t ht => by simpa [mkToks] using ht.1)
    show Frag _ ([] ++ []) _ _ _
    refine frag_weaken (N := anyNext) ?_ (fun _ h => h) (fun _ _ => trivial)
    refine frag_then (frag_optional_no [tEOL]).toU (frag_pure _ _) (fun _ _ => trivial)
      (fun line t ht => by simpa [mkToks] using ht.2)
  · intro line t ht
    rcases flags_head_tok flags Gen.dslExplainFlagsC line with h | ⟨t', h, htyp⟩
    · rw [h]; simpa using ht.2
    · rw [h]; simp [htyp]; decide

/-! ### subtables separated by `||` -/

theorem or_tokOk (nx : Option Nat) : TokOk tOr (ascii [124, 124]) nx := by
  right; right; right; right; right; left
  exact ⟨rfl, rfl⟩

theorem frag_subtablesLoop (one : PM Subtable) (P Pone : Tok → Prop) (N N1 : Option Nat → Prop)
    (hP : ∀ t, P t → [tOr].contains t.typ = false ∧ Pone t)
    (hor : ∀ t, t.typ = tOr → Pone t)
    (hN : ∀ nx, N nx → N1 nx) (hN32 : N1 (some 32)) :
    ∀ (items : List (List Piece × Subtable)) (p0 : List Piece) (r0 : Subtable) (n : Nat) (acc : List Subtable),
      items.length < n → Frag one p0 r0 Pone N1 → (∀ q ∈ items, Frag one q.1 q.2 Pone N1) →
      Frag (subtablesLoop one n acc) (p0 ++ items.flatMap (fun q => orSep ++ q.1))
        (acc ++ r0 :: items.map (·.2)) P N := by
  intro items
  induction items with
  | nil =>
    intro p0 r0 n acc hn h0 _
    cases n with
    | zero => omega
    | succ m =>
      unfold subtablesLoop
      simp only [List.flatMap_nil, List.map_nil]
      refine frag_bind h0 ?_ (fun nx hnx => by simpa [nextRune, render] using hN nx hnx)
        (fun line t ht => by simpa [mkToks] using (hP t ht).2)
      show Frag _ ([] ++ []) _ _ _
      refine frag_weaken (N := anyNext) ?_ (fun _ h => h) (fun _ _ => trivial)
      refine frag_bind (frag_optional_no [tOr]) ?_ (fun _ _ => trivial)
        (fun line t ht => by simpa [mkToks] using (hP t ht).1)
      simp only [Bool.not_false, if_true]
      exact frag_pure _ _
  | cons q rest ih =>
    intro p0 r0 n acc hn h0 hall
    cases n with
    | zero => omega
    | succ m =>
      have hih := ih q.1 q.2 m (acc ++ [r0]) (by simp at hn; omega) (hall q (by simp))
        (fun x hx => hall x (by simp [hx]))
      unfold subtablesLoop
      have hp : p0 ++ (q :: rest).flatMap (fun q => orSep ++ q.1) =
          p0 ++ (.ws [a1 32] :: ([.tok tOr (ascii [124, 124])] ++ ([.tok tEOL (ascii [10])] ++
            (.ws [a1 9] :: (q.1 ++ rest.flatMap (fun q => orSep ++ q.1)))))) := by
        simp [orSep, sp, tab, eolP, tk]
      have hr : acc ++ r0 :: (q :: rest).map (·.2) = (acc ++ [r0]) ++ q.2 :: rest.map (·.2) := by simp
      rw [hp, hr]
      refine frag_bind h0 ?_ (fun nx _ => by simpa [nextRune, render, Piece.rbs, a1] using hN32)
        (fun line t _ => by apply hor; simp [mkToks])
      apply frag_ws [a1 32] ws_sp
      have hy := frag_optional_yes [tOr] tOr (ascii [124, 124]) anyNext (by decide)
        (fun nx _ => or_tokOk nx) (tk_canon tOr _ (by decide))
      refine frag_bind hy ?_ (fun _ _ => trivial) (fun _ _ _ => trivial)
      simp only [Bool.not_true, Bool.false_eq_true, if_false]
      have hy2 := (frag_optional_yes [tEOL] tEOL (ascii [10]) anyNext (by decide)
        (fun nx _ => eol_tokOk nx) (tk_canon tEOL _ (by decide))).toU
      refine frag_then hy2 ?_ (fun _ _ => trivial) (fun _ _ _ => trivial)
      exact frag_ws [a1 9] ws_tab hih

end SfntV.Dsl
