/-
Bridge between C04 and C05: on everything the charstring compiler can emit, the model of the Go decoder
(`interp goQuirks`) and the specification interpreter (`interp strict`) agree — provided every encoded
delta lies within ±32000, the range in which the Go decoder does not clamp (finding C05-clamp).
Part 1: one operator, same result under both configurations.
-/
import SfntV.Proofs.T2GlyphFull
import SfntV.Proofs.T2WF

set_option linter.unusedSimpArgs false
set_option linter.unusedVariables false

namespace SfntV.T2Enc
open SfntV SfntV.T2 SfntV.Spec.T2

theorem and_not_extra_strict (b : Bool) : (b && !strict.extraOperandsIgnored) = b := by
  simp [strict]
theorem and_not_extra_go (b : Bool) : (b && !goQuirks.extraOperandsIgnored) = false := by
  simp [goQuirks]

/-- stem, mask and endchar operators: whenever the specification interpreter accepts, the Go
configuration does exactly the same (they differ only in ignoring a stray operand) -/
theorem exec_hint_transfer (env : Env) (s : St) (op : Op) (c : List Nat) (r : Res)
    (hop : op = .hstem ∨ op = .hstemhm ∨ op = .vstem ∨ op = .vstemhm ∨ op = .hintmask ∨ op = .cntrmask ∨
      op = .endchar)
    (h : T2.exec strict env s op c = .ok r) : T2.exec goQuirks env s op c = .ok r := by
  rcases hop with rfl | rfl | rfl | rfl | rfl | rfl | rfl
  case inl | inr.inl | inr.inr.inl | inr.inr.inr.inl =>
    all_goals
      simp only [T2.exec, and_not_extra_strict, and_not_extra_go, Bool.false_eq_true, if_false] at h ⊢
      by_cases h1 : s.stage > 1
      · simp only [h1, if_true] at h; cases h
      · simp only [h1, if_false] at h ⊢
        by_cases h2 : s.stack.length < 2
        · simp only [h2, if_true] at h; cases h
        · simp only [h2, if_false] at h ⊢
          split at h
          · cases h
          · exact h
  case inr.inr.inr.inr.inl | inr.inr.inr.inr.inr.inl =>
    all_goals
      simp only [T2.exec, and_not_extra_strict, and_not_extra_go, Bool.false_eq_true, if_false] at h ⊢
      by_cases h1 : (decide (s.stack.length ≥ 2) && decide (s.stage > 1)) = true
      · simp only [h1, if_true] at h; cases h
      · simp only [h1, Bool.false_eq_true, if_false] at h ⊢
        generalize setWidth env (if s.stack.length ≥ 2 then { s with stage := 1 } else s) (s.stack.length % 2 == 1) = s1 at h ⊢
        by_cases h2 : (s1.stack.length % 2 != 0) = true
        · simp only [h2, if_true] at h; cases h
        · simp only [h2, Bool.false_eq_true, if_false] at h
          exact h
  case inr.inr.inr.inr.inr.inr =>
    simp only [T2.exec, and_not_extra_strict, and_not_extra_go, Bool.false_eq_true, if_false] at h ⊢
    split at h
    · cases h
    · exact h

/-- moveto with the width operand possibly pending below its operands: same result, given the operands
are within ±32000 (the width operand is not a delta and need not be) -/
theorem exec_moveto_transfer (env : Env) (s : St) (op : Op) (ops : List Int) (rest : List Nat)
    (hp : PendOK s) (hb : BndL ops)
    (hop : (op = .rmoveto ∧ ops.length = 2) ∨ ((op = .hmoveto ∨ op = .vmoveto) ∧ ops.length = 1)) :
    T2.exec goQuirks env { s with stack := s.stack ++ ops } op rest =
      T2.exec strict env { s with stack := s.stack ++ ops } op rest := by
  have hb2 : ∀ v ∈ ops, Bnd v := hb
  rcases hop with ⟨rfl, hl⟩ | ⟨hop, hl⟩
  · obtain ⟨a, b, rfl⟩ : ∃ a b, ops = [a, b] := by
      match ops, hl with
      | [a, b], _ => exact ⟨a, b, rfl⟩
    have ha := hb2 a (by simp)
    have hbb := hb2 b (by simp)
    rcases hp with h | ⟨wv, h, hw⟩
    · by_cases hws : s.widthSet = true <;>
        simp [T2.exec, h, hws, setWidth, countCheck, gq1, gq3, sq1, sq3, rMoveTo_bnd, ha, hbb]
    · simp [T2.exec, h, hw, setWidth, countCheck, gq1, gq3, sq1, sq3, rMoveTo_bnd, ha, hbb]
  · obtain ⟨a, rfl⟩ : ∃ a, ops = [a] := by
      match ops, hl with
      | [a], _ => exact ⟨a, rfl⟩
    have ha := hb2 a (by simp)
    rcases hop with rfl | rfl <;> rcases hp with h | ⟨wv, h, hw⟩
    · by_cases hws : s.widthSet = true <;>
        simp [T2.exec, h, hws, setWidth, countCheck, gq1, gq3, sq1, sq3, rMoveTo_bnd, ha, bnd_zero]
    · simp [T2.exec, h, hw, setWidth, countCheck, gq1, gq3, sq1, sq3, rMoveTo_bnd, ha, bnd_zero]
    · by_cases hws : s.widthSet = true <;>
        simp [T2.exec, h, hws, setWidth, countCheck, gq1, gq3, sq1, sq3, rMoveTo_bnd, ha, bnd_zero]
    · simp [T2.exec, h, hw, setWidth, countCheck, gq1, gq3, sq1, sq3, rMoveTo_bnd, ha, bnd_zero]

/-- hflex1 with its derived last delta within ±32000 -/
theorem exec_hflex1_transfer (env : Env) (s : St) (a0 a1 a2 a3 a4 a5 a6 a7 a8 : Int) (rest : List Nat)
    (hst : s.stack = [a0, a1, a2, a3, a4, a5, a6, a7, a8]) (hb : BndL s.stack) (hd : Bnd (-(a1 + a3 + a7))) :
    T2.exec goQuirks env s .hflex1 rest = T2.exec strict env s .hflex1 rest := by
  simp only [T2.exec]
  refine pathOp_agree s rest _ _ _ _ (by rw [hst]; simp) (by rw [hst]; rfl) ?_
  rw [hst] at hb
  have hb2 := hb
  simp only [BndL, List.mem_cons, forall_eq_or_imp] at hb2
  simp [hst, rCurveTo_bnd, hb2, bnd_zero, hd]

/-! Part 2: edges and paths of edges -/

def SegBnd (g : Seg) : Prop := ∀ a ∈ g.args, Bnd a.val

theorem appendEdges_op (frm : Nat) (cmds : List Seg) (e : Edge) (he : e ∈ appendEdges frm cmds) :
    (e.op ≠ .flex1 ∧ e.op ≠ .hflex1) ∨ e ∈ flexEdges frm cmds := by
  cases cmds with
  | nil => simp [appendEdges] at he
  | cons g t =>
    cases g with
    | line dx dy =>
      left
      simp only [appendEdges] at he
      obtain ⟨hE, _⟩ := rlineEdges_spec frm (.line dx dy :: t) [] (by simp)
      simp only [List.flatMap_nil, List.length_nil, List.nil_append] at hE
      rcases List.mem_append.mp he with he | he
      · rcases List.mem_append.mp he with he | he
        · rcases List.mem_append.mp he with he | he
          · obtain ⟨n, _, _, _, hop, _⟩ := hE e he
            rw [hop]; exact ⟨by decide, by decide⟩
          · split at he
            · split at he
              · simp only [List.mem_cons, List.not_mem_nil, or_false] at he; subst he; exact ⟨by simp, by simp⟩
              · simp at he
            · simp at he
        · split at he
          · simp only [List.mem_cons, List.not_mem_nil, or_false] at he; subst he; exact ⟨by simp, by simp⟩
          · simp at he
      · split at he
        · simp only [List.mem_cons, List.not_mem_nil, or_false] at he; subst he; exact ⟨by simp, by simp⟩
        · simp at he
    | curve c0 c1 c2 c3 c4 c5 =>
      simp only [appendEdges] at he
      obtain ⟨hE, _⟩ := rrcurveEdges_spec frm (.curve c0 c1 c2 c3 c4 c5 :: t) [] (by simp)
      simp only [List.flatMap_nil, List.length_nil, List.nil_append] at hE
      rcases List.mem_append.mp he with he | he
      · left
        rcases List.mem_append.mp he with he | he
        · rcases List.mem_append.mp he with he | he
          · rcases List.mem_append.mp he with he | he
            · rcases List.mem_append.mp he with he | he
              · rcases List.mem_append.mp he with he | he
                · obtain ⟨n, _, _, _, hop, _⟩ := hE e he
                  rw [hop]; exact ⟨by decide, by decide⟩
                · split at he
                  · split at he
                    · simp only [List.mem_cons, List.not_mem_nil, or_false] at he; subst he; exact ⟨by simp, by simp⟩
                    · simp at he
                  · simp at he
              · rw [hhvvEdges_op _ _ _ _ _ _ e he]; exact ⟨by decide, by decide⟩
            · rw [hhvvEdges_op _ _ _ _ _ _ e he]; exact ⟨by decide, by decide⟩
          · rw [hvvhEdges_op _ _ _ _ _ _ _ e he]; exact ⟨by decide, by decide⟩
        · rw [hvvhEdges_op _ _ _ _ _ _ _ e he]; exact ⟨by decide, by decide⟩
      · exact Or.inr he

/-- the operator of a proposed edge does the same under both configurations, when all deltas of the
sub-path are within ±32000 -/
theorem edge_exec_agree (frm : Nat) (cmds : List Seg) (e : Edge) (he : e ∈ appendEdges frm cmds)
    (hb : ∀ g ∈ cmds, SegBnd g) (env : Env) (s : St) (code : List Nat) (hs : s.stack = vals e.args) :
    T2.exec goQuirks env s e.op code = T2.exec strict env s e.op code := by
  have hS := appendEdges_sound frm cmds e he
  have hbl : BndL s.stack := by
    rw [hs]
    intro v hv
    obtain ⟨a, ha, rfl⟩ := List.mem_map.mp hv
    obtain ⟨g, hg, hag⟩ := hS.argsFrom a ha
    exact hb g hg a hag
  have hl : legalCount e.op s.stack.length = true := by rw [hs, vals_length]; exact hS.legal
  rcases appendEdges_op frm cmds e he with hne | hfl
  · exact exec_pathop_agree env s e.op code hS.isPath hl hbl hne
  · -- hflex / hflex1
    cases cmds with
    | nil => simp [flexEdges] at hfl
    | cons g1 t1 =>
      cases g1 with
      | line dx dy => simp [flexEdges] at hfl
      | curve a0 a1 a2 a3 a4 a5 =>
        cases t1 with
        | nil => simp [flexEdges] at hfl
        | cons g2 t2 =>
          cases g2 with
          | line dx dy => simp [flexEdges] at hfl
          | curve b0 b1 b2 b3 b4 b5 =>
            simp only [flexEdges] at hfl
            split at hfl
            · split at hfl
              · simp only [List.mem_cons, List.not_mem_nil, or_false] at hfl
                subst hfl
                exact exec_pathop_agree env s .hflex code rfl hl hbl ⟨by decide, by decide⟩
              · split at hfl
                · rename_i hf
                  simp only [beq_iff_eq] at hf
                  simp only [List.mem_cons, List.not_mem_nil, or_false] at hfl
                  subst hfl
                  have hb5 : Bnd b5.val := hb (.curve b0 b1 b2 b3 b4 b5) (by simp) b5 (by simp [Seg.args])
                  have hd : Bnd (-(a1.val + a3.val + b3.val)) := by
                    have : -(a1.val + a3.val + b3.val) = b5.val := by omega
                    rw [this]; exact hb5
                  exact exec_hflex1_transfer env s a0.val a1.val a2.val a3.val a4.val b0.val b2.val b3.val b4.val code
                    (by rw [hs]; simp [vals]) hbl hd
                · simp at hfl
            · simp at hfl

/-- `edge_reaches` for the model of the Go decoder: same end state -/
theorem edge_reaches_go (env : Env) (frm : Nat) (cmds : List Seg) (e : Edge) (he : e ∈ appendEdges frm cmds)
    (hd : ∀ g ∈ cmds, ∀ a ∈ g.args, Decodes a) (hb : ∀ g ∈ cmds, SegBnd g) (s : St) (hr : Ready s)
    (rest : List Nat) :
    Reaches goQuirks env s (e.bytes ++ rest) (drawSegs strict s (cmds.take (e.to - frm))) rest := by
  have hS := appendEdges_sound frm cmds e he
  have hdec : ∀ a ∈ e.args, Decodes a := by
    intro a ha
    obtain ⟨g, hg, hag⟩ := hS.argsFrom a ha
    exact hd g hg a hag
  have h1 := reaches_push goQuirks env e.args hdec s (opBytes e.op ++ rest) (by rw [hr.1]; have := hS.len; simp; omega)
  rw [hr.1, List.nil_append] at h1
  unfold Edge.bytes
  rw [List.append_assoc]
  refine h1.trans ?_
  have hst := step_op' goQuirks env { s with stack := vals e.args } e.op rest (by simp [vals]; exact hS.len)
  rw [edge_exec_agree frm cmds e he hb env { s with stack := vals e.args } rest rfl,
    hS.exec env { s with stack := vals e.args } rest rfl, clear_drawSegs _ _ _ _ hr.1] at hst
  have hme : (drawSegs strict s (cmds.take (e.to - frm))).moveErr = false := (ready_drawSegs _ _ _ hr).2.2
  simp only [checkMove, hme] at hst
  refine Reaches.step (by simpa using hst) ?_ (Reaches.refl _ _)
  have := opBytes_ne_nil e.op hS.isPath
  simp only [List.length_append]
  omega

theorem path_reaches_go (env : Env) (segs : List Seg) (node : Nat) (path : List Edge)
    (hp : IsPath segs node path)
    (hd : ∀ g ∈ segs, ∀ a ∈ g.args, Decodes a) (hb : ∀ g ∈ segs, SegBnd g) (s : St) (hr : Ready s)
    (rest : List Nat) :
    Reaches goQuirks env s (path.flatMap Edge.bytes ++ rest) (drawSegs strict s (segs.drop node)) rest := by
  induction hp generalizing s with
  | done => simpa [drawSegs] using Reaches.refl s rest
  | @step node e tl he _ ih =>
    have hS := appendEdges_sound node (segs.drop node) e he
    have hd' : ∀ g ∈ segs.drop node, ∀ a ∈ g.args, Decodes a := fun g hg => hd g (List.mem_of_mem_drop hg)
    have hb' : ∀ g ∈ segs.drop node, SegBnd g := fun g hg => hb g (List.mem_of_mem_drop hg)
    have h1 := edge_reaches_go env node (segs.drop node) e he hd' hb' s hr (tl.flatMap Edge.bytes ++ rest)
    have h2 := ih
      (drawSegs strict s ((segs.drop node).take (e.to - node))) (ready_drawSegs strict s _ hr)
    have hsplit : segs.drop node = (segs.drop node).take (e.to - node) ++ segs.drop e.to := by
      have := (List.take_append_drop (e.to - node) (segs.drop node)).symm
      rw [List.drop_drop] at this
      have hlt := hS.to_gt
      have e1 : node + (e.to - node) = e.to := by omega
      rw [e1] at this
      exact this
    rw [List.flatMap_cons, List.append_assoc]
    have : drawSegs strict s (segs.drop node) =
        drawSegs strict (drawSegs strict s ((segs.drop node).take (e.to - node))) (segs.drop e.to) := by
      rw [← drawSegs_append, ← hsplit]
    rw [this]
    exact h1.trans h2

end SfntV.T2Enc
