/-
Lemmas for C09 (format 12): grouping, byte packing, decoder checks.
-/
import SfntV.Model.Cmap12

namespace SfntV.Cmap12
open SfntV

/-- keys strictly ascending above `lo`, all below 2^32 -/
def Chain : Nat → KV → Prop
  | _, [] => True
  | lo, k :: rest => lo < k.1 ∧ k.1 < 4294967296 ∧ Chain k.1 rest

/-! ### grouping -/

theorem findGroup_groupAux (rest : KV) : ∀ (s p : Nat × Nat), s.1 ≤ p.1 → p.2 = s.2 + (p.1 - s.1) →
    p.1 < 4294967296 → Chain p.1 rest →
    ∀ c, findGroup (groupAux s p rest) c =
      if s.1 ≤ c ∧ c ≤ p.1 then s.2 + (c - s.1) else lookupKV rest c := by
  induction rest with
  | nil => intro s p _ _ _ _ c; simp [groupAux, findGroup, lookupKV]
  | cons k rest ih =>
    intro s p hsp hp2 hp hch c
    obtain ⟨hk1, hk2, hch'⟩ := hch
    unfold groupAux
    split
    · -- a new group starts at k
      simp only [findGroup]
      rw [ih k k (Nat.le_refl _) (by omega) hk2 hch']
      simp only [lookupKV]
      by_cases h1 : s.1 ≤ c ∧ c ≤ p.1
      · simp [h1]
      · simp only [h1, if_false]
        by_cases h2 : k.1 = c
        · subst h2; simp
        · have : ¬ (k.1 ≤ c ∧ c ≤ k.1) := by omega
          simp [this, h2]
    · rename_i hcont
      have hk : k.1 = p.1 + 1 ∧ k.2 = p.2 + 1 := by omega
      rw [ih s k (by omega) (by omega) hk2 hch']
      simp only [lookupKV]
      by_cases h1 : s.1 ≤ c ∧ c ≤ p.1
      · have : s.1 ≤ c ∧ c ≤ k.1 := by omega
        simp [h1, this]
      · simp only [h1, if_false]
        by_cases h2 : k.1 = c
        · have : s.1 ≤ c ∧ c ≤ k.1 := by omega
          rw [if_pos this, if_pos h2]
          omega
        · have : ¬ (s.1 ≤ c ∧ c ≤ k.1) := by omega
          simp [this, h2]

theorem findGroup_group (m : KV) (h : Chain 0 m ∨ m = [] ∨ ∃ k rest, m = k :: rest ∧ k.1 < 4294967296 ∧ Chain k.1 rest) :
    ∀ c, findGroup (group m) c = lookupKV m c := by
  intro c
  cases m with
  | nil => simp [group, findGroup, lookupKV]
  | cons k rest =>
    have hc : k.1 < 4294967296 ∧ Chain k.1 rest := by
      rcases h with h | h | ⟨k', rest', he, h1, h2⟩
      · exact ⟨h.2.1, h.2.2⟩
      · cases h
      · cases he; exact ⟨h1, h2⟩
    simp only [group]
    rw [findGroup_groupAux rest k k (Nat.le_refl _) (by omega) hc.1 hc.2]
    simp only [lookupKV]
    by_cases h2 : k.1 = c
    · subst h2; simp
    · have : ¬ (k.1 ≤ c ∧ c ≤ k.1) := by omega
      simp [this, h2]

theorem sdFrom_mono (gs : List Grp) : ∀ lo lo', lo' ≤ lo → sdFrom lo gs = true → sdFrom lo' gs = true := by
  cases gs with
  | nil => intros; rfl
  | cons g gs =>
    intro lo lo' h
    simp only [sdFrom, Bool.and_eq_true, decide_eq_true_eq]
    intro ⟨⟨a, b⟩, c⟩
    exact ⟨⟨by omega, b⟩, c⟩

theorem sdFrom_groupAux (rest : KV) : ∀ (s p : Nat × Nat), s.1 ≤ p.1 → p.1 < 4294967296 → Chain p.1 rest →
    sdFrom s.1 (groupAux s p rest) = true := by
  induction rest with
  | nil => intro s p h _ _; simp [groupAux, sdFrom, h]
  | cons k rest ih =>
    intro s p hsp hp hch
    obtain ⟨hk1, hk2, hch'⟩ := hch
    unfold groupAux
    split
    · simp only [sdFrom, Bool.and_eq_true, decide_eq_true_eq]
      refine ⟨⟨Nat.le_refl _, hsp⟩, ?_⟩
      exact sdFrom_mono _ k.1 (p.1 + 1) (by omega) (ih k k (Nat.le_refl _) hk2 hch')
    · exact ih s k (by omega) hk2 hch'

/-! ### byte packing -/

theorem u32At_lt (b : Bytes) (o : Nat) : u32At b o < 4294967296 := by
  unfold u32At
  split
  · rename_i a b c d _ _
    have := a.toNat_lt; have := b.toNat_lt; have := c.toNat_lt; have := d.toNat_lt
    omega
  · omega

theorem grpBytes_length (g : Grp) : (grpBytes g).length = 12 := by
  simp [grpBytes, be32, be16]

theorem flatMap_grpBytes_length (gs : List Grp) : (gs.flatMap grpBytes).length = gs.length * 12 := by
  induction gs with
  | nil => rfl
  | cons g gs ih => simp [List.flatMap_cons, grpBytes_length, ih]; omega

theorem header_length (lang n : Nat) : (header lang n).length = 16 := by
  simp [header, be32, be16]

theorem be32_val (x : Nat) (h : x < 4294967296) (a b c d : UInt8)
    (ha : a = UInt8.ofNat (x / 16777216 % 256)) (hb : b = UInt8.ofNat (x / 65536 % 256))
    (hc : c = UInt8.ofNat (x / 256 % 256)) (hd : d = UInt8.ofNat (x % 256)) :
    ((a.toNat * 256 + b.toNat) * 256 + c.toNat) * 256 + d.toNat = x := by
  subst ha hb hc hd
  simp only [UInt8.toNat_ofNat']
  omega

/-- reading the three fields of a record that sits at offset `o` -/
theorem read_record (pre : Bytes) (g : Grp) (post : Bytes) (o : Nat) (ho : o = pre.length)
    (h1 : g.start < 4294967296) (h2 : g.stop < 4294967296) (h3 : g.gid < 65536) :
    u32At (pre ++ (grpBytes g ++ post)) o = g.start ∧
    u32At (pre ++ (grpBytes g ++ post)) (o + 4) = g.stop ∧
    u32At (pre ++ (grpBytes g ++ post)) (o + 8) = g.gid := by
  subst ho
  have hd : ∀ k, (pre ++ (grpBytes g ++ post)).drop (pre.length + k) = (grpBytes g ++ post).drop k := by
    intro k
    rw [List.drop_append]
    simp [List.drop_eq_nil_of_le]
  refine ⟨?_, ?_, ?_⟩
  · have := hd 0
    simp only [Nat.add_zero, List.drop_zero] at this
    unfold u32At
    rw [this]
    simp only [grpBytes, be32, be16, List.cons_append, List.nil_append]
    exact be32_val _ h1 _ _ _ _ rfl rfl rfl rfl
  · unfold u32At
    rw [hd 4]
    simp only [grpBytes, be32, be16, List.cons_append, List.nil_append, List.drop_succ_cons, List.drop_zero]
    exact be32_val _ h2 _ _ _ _ rfl rfl rfl rfl
  · unfold u32At
    rw [hd 8]
    simp only [grpBytes, be32, be16, List.cons_append, List.nil_append, List.drop_succ_cons, List.drop_zero]
    simp only [UInt8.toNat_ofNat']
    show ((0 * 256 + 0) * 256 + g.gid / 256 % 256 % 256) * 256 + g.gid % 256 % 256 = g.gid
    omega

def GrpOk (g : Grp) : Prop := g.start < 4294967296 ∧ g.stop < 4294967296 ∧ g.gid < 65536

theorem readGroups_packed (hdr : Bytes) (hh : hdr.length = 16) (gs : List Grp) :
    ∀ (pre : Bytes) (i : Nat), pre.length = i * 12 → (∀ g ∈ gs, GrpOk g) →
    readGroups (hdr ++ (pre ++ gs.flatMap grpBytes)) i gs.length = gs := by
  induction gs with
  | nil => intros; rfl
  | cons g gs ih =>
    intro pre i hp hok
    simp only [List.length_cons, readGroups, List.flatMap_cons]
    have hg := hok g (List.mem_cons_self)
    have hb : hdr ++ (pre ++ (grpBytes g ++ gs.flatMap grpBytes)) =
        (hdr ++ pre) ++ (grpBytes g ++ gs.flatMap grpBytes) := by simp
    have hr := read_record (hdr ++ pre) g (gs.flatMap grpBytes) (16 + i * 12)
      (by simp [hh, hp]) hg.1 hg.2.1 hg.2.2
    rw [hb, hr.1, hr.2.1, hr.2.2]
    have := ih (pre ++ grpBytes g) (i + 1) (by simp [grpBytes_length, hp]; omega)
      (fun x hx => hok x (List.mem_cons_of_mem _ hx))
    have hb2 : hdr ++ pre ++ (grpBytes g ++ gs.flatMap grpBytes) =
        hdr ++ (pre ++ grpBytes g ++ gs.flatMap grpBytes) := by simp
    rw [hb2, this]

theorem readGroups_eq_map (b : Bytes) : ∀ n i, readGroups b i n =
    (List.range' i n).map fun i => ⟨u32At b (16 + i*12), u32At b (16 + i*12 + 4), u32At b (16 + i*12 + 8)⟩ := by
  intro n
  induction n with
  | zero => intro i; rfl
  | succ n ih => intro i; simp [readGroups, List.range'_succ, ih]

theorem specGroups_eq_read (b : Bytes) : specGroups b = readGroups b 0 (u32At b 12) := by
  rw [readGroups_eq_map, specGroups, List.range_eq_range']
  apply List.map_congr_left
  intro i _
  simp [Nat.mul_comm]

theorem u32At_header_n (lang n : Nat) (rest : Bytes) (h : n < 4294967296) :
    u32At (header lang n ++ rest) 12 = n := by
  unfold u32At
  simp only [header, be32, be16, List.cons_append, List.nil_append, List.drop_succ_cons, List.drop_zero]
  exact be32_val _ h _ _ _ _ rfl rfl rfl rfl

/-! ### decoder checks -/

theorem ite_false_eq_true (c : Prop) [Decidable c] (x : Bool) :
    (if c then false else x) = true ↔ ¬ c ∧ x = true := by
  by_cases h : c <;> simp [h]

/-- what the checks of `decodeFormat12` establish -/
theorem checkGroups_sound (gs : List Grp) : ∀ (first : Bool) (prevEnd size : Nat),
    checkGroups first prevEnd size gs = true →
    (first = true → size = 0) → (first = false → size ≤ prevEnd + 1) → prevEnd < 4294967296 →
    (∀ g ∈ gs, g.stop < 4294967296) →
    (∀ g ∈ gs, g.start ≤ g.stop ∧ g.gid + (g.stop - g.start) ≤ 65535 ∧ g.stop - g.start < 65536) ∧
    sdFrom (if first then 0 else prevEnd + 1) gs = true := by
  induction gs with
  | nil => intros; simp [sdFrom]
  | cons g gs ih =>
    intro first prevEnd size hc hf hnf hpe hstop
    unfold checkGroups at hc
    rw [ite_false_eq_true, ite_false_eq_true] at hc
    obtain ⟨hbad, hsz, hc⟩ := hc
    simp only [gidMax] at hbad
    · · have hgs := hstop g List.mem_cons_self
        have hb1 : first = false → prevEnd < g.start := by
          intro h; subst h; simp at hbad; omega
        have hb2 : g.start ≤ g.stop ∧ g.stop ≠ 4294967295 ∧
            g.gid ≤ 65535 ∧ (g.gid + (g.stop - g.start)) % 4294967296 ≤ 65535 := by
          cases first <;> simp at hbad <;> omega
        have hb := And.intro hb1 hb2
        have hsize : size ≤ g.start := by
          cases first with
          | true => have := hf rfl; omega
          | false => have := hnf rfl; have := hb.1 rfl; omega
        have hnw : size + (g.stop - g.start) + 1 < 4294967296 := by omega
        rw [Nat.mod_eq_of_lt hnw] at hsz hc
        have hd : g.stop - g.start < 65536 := by omega
        have hgid : g.gid + (g.stop - g.start) ≤ 65535 := by
          have h5 := hb.2.2.2.2
          rw [Nat.mod_eq_of_lt (by omega)] at h5
          exact h5
        have hrec := ih false g.stop _ hc (by intro h; cases h) (by intro _; omega) hgs
          (fun x hx => hstop x (List.mem_cons_of_mem _ hx))
        have hfacts : g.start ≤ g.stop ∧ g.gid + (g.stop - g.start) ≤ 65535 ∧ g.stop - g.start < 65536 ∧
            (first = false → prevEnd < g.start) := ⟨hb.2.1, hgid, hd, hb.1⟩
        refine ⟨?_, ?_⟩
        · intro x hx
          rcases List.mem_cons.mp hx with rfl | hx
          · exact ⟨hfacts.1, hfacts.2.1, hfacts.2.2.1⟩
          · exact hrec.1 x hx
        · simp only [sdFrom, Bool.and_eq_true, decide_eq_true_eq]
          refine ⟨⟨?_, hfacts.1⟩, ?_⟩
          · cases first with
            | true => simp
            | false => have := hfacts.2.2.2 rfl; simp; omega
          · simpa using hrec.2

theorem lookupKV_range_map (f : Nat → Nat) (rest : KV) (c : Nat) : ∀ n s,
    lookupKV ((List.range' s n).map (fun x => (x, f x)) ++ rest) c =
      if s ≤ c ∧ c < s + n then f c else lookupKV rest c := by
  intro n
  induction n with
  | zero =>
    intro s
    have : ¬ (s ≤ c ∧ c < s + 0) := by omega
    simp only [List.range'_zero, List.map_nil, List.nil_append]
    rw [if_neg this]
  | succ n ih =>
    intro s
    simp only [List.range'_succ, List.map_cons, List.cons_append, lookupKV]
    rw [ih (s+1)]
    by_cases h : s = c
    · subst h; simp
    · simp only [h, if_false]
      by_cases h2 : s + 1 ≤ c ∧ c < s + 1 + n
      · have : s ≤ c ∧ c < s + (n + 1) := by omega
        simp [h2, this]
      · have : ¬ (s ≤ c ∧ c < s + (n + 1)) := by omega
        simp [h2, this]

theorem lookupKV_expand (gs : List Grp)
    (h : ∀ g ∈ gs, g.start ≤ g.stop ∧ g.gid + (g.stop - g.start) ≤ 65535) :
    ∀ c, lookupKV (expand gs) c = findGroup gs c := by
  induction gs with
  | nil => intro c; rfl
  | cons g gs ih =>
    intro c
    have hg := h g List.mem_cons_self
    simp only [expand, List.flatMap_cons, expandOne, findGroup]
    rw [lookupKV_range_map (fun c => (g.gid + c - g.start) % 65536)]
    have := ih (fun x hx => h x (List.mem_cons_of_mem _ hx)) c
    simp only [expand] at this
    rw [this]
    by_cases hc : g.start ≤ c ∧ c ≤ g.stop
    · have : g.start ≤ c ∧ c < g.start + (g.stop + 1 - g.start) := by omega
      simp only [hc, this, and_self, if_true]
      omega
    · have : ¬ (g.start ≤ c ∧ c < g.start + (g.stop + 1 - g.start)) := by omega
      simp [hc, this]

theorem readGroups_stop_lt (b : Bytes) : ∀ n i, ∀ g ∈ readGroups b i n, g.stop < 4294967296 := by
  intro n
  induction n with
  | zero => intro i g hg; cases hg
  | succ n ih =>
    intro i g hg
    simp only [readGroups] at hg
    rcases List.mem_cons.mp hg with rfl | hg
    · exact u32At_lt _ _
    · exact ih _ g hg

/-! ### the decoder accepts what the encoder writes -/

/-- keys strictly ascending above `lo`, all below 0xFFFFFFFF, glyph ids 16-bit -/
def ChainLib : Nat → KV → Prop
  | _, [] => True
  | lo, k :: rest => lo < k.1 ∧ k.1 < 4294967295 ∧ k.2 ≤ 65535 ∧ ChainLib k.1 rest

theorem ChainLib.chain (rest : KV) : ∀ lo, ChainLib lo rest → Chain lo rest := by
  induction rest with
  | nil => intros; trivial
  | cons k rest ih => intro lo h; exact ⟨h.1, by have := h.2.1; omega, ih _ h.2.2.2⟩

theorem checkGroups_one (first : Bool) (prevEnd size : Nat) (g : Grp) (gs : List Grp)
    (h1 : first = false → prevEnd < g.start) (h2 : g.start ≤ g.stop) (h3 : g.stop < 4294967295)
    (h4 : g.gid + (g.stop - g.start) ≤ 65535) (h5 : size + (g.stop - g.start) + 1 ≤ 65536) :
    checkGroups first prevEnd size (g :: gs) = checkGroups false g.stop (size + (g.stop - g.start) + 1) gs := by
  rw [checkGroups]
  have e1 : (g.gid + (g.stop - g.start)) % 4294967296 = g.gid + (g.stop - g.start) := Nat.mod_eq_of_lt (by omega)
  have e2 : (size + (g.stop - g.start) + 1) % 4294967296 = size + (g.stop - g.start) + 1 := Nat.mod_eq_of_lt (by omega)
  simp only [e1, e2]
  have hnb : ¬ ((!first) = true ∧ g.start ≤ prevEnd ∨ g.stop < g.start ∨ g.stop = 4294967295 ∨ g.gid > gidMax ∨
      g.gid + (g.stop - g.start) > gidMax) := by
    simp only [gidMax]
    cases first with
    | true => simp; omega
    | false => have := h1 rfl; simp; omega
  rw [if_neg hnb, if_neg (by omega)]

theorem checkGroups_groupAux (rest : KV) : ∀ (s p : Nat × Nat) (first : Bool) (prevEnd size : Nat),
    s.1 ≤ p.1 → p.2 = s.2 + (p.1 - s.1) → p.2 ≤ 65535 → p.1 < 4294967295 → ChainLib p.1 rest →
    (first = false → prevEnd < s.1) → size + (p.1 - s.1 + 1) + rest.length ≤ 65536 →
    checkGroups first prevEnd size (groupAux s p rest) = true := by
  induction rest with
  | nil =>
    intro s p first prevEnd size h1 h2 h3 h4 _ h6 h7
    simp only [groupAux]
    rw [checkGroups_one first prevEnd size _ _ h6 h1 h4 (by simp only []; omega) (by simp only [List.length_nil] at h7; omega)]
    rfl
  | cons k rest ih =>
    intro s p first prevEnd size h1 h2 h3 h4 hch h6 h7
    obtain ⟨hk1, hk2, hk3, hch'⟩ := hch
    simp only [List.length_cons] at h7
    unfold groupAux
    split
    · rw [checkGroups_one first prevEnd size _ _ h6 h1 h4 (by simp only []; omega) (by simp only []; omega)]
      exact ih k k false p.1 _ (Nat.le_refl _) (by omega) hk3 hk2 hch' (fun _ => hk1) (by simp only []; omega)
    · rename_i hcont
      have hk : k.1 = p.1 + 1 ∧ k.2 = p.2 + 1 := by omega
      exact ih s k first prevEnd size (by omega) (by omega) hk3 hk2 hch' h6 (by omega)

theorem groupAux_length (rest : KV) : ∀ s p, (groupAux s p rest).length ≤ rest.length + 1 := by
  induction rest with
  | nil => intros; simp [groupAux]
  | cons k rest ih =>
    intro s p
    unfold groupAux
    split
    · have := ih k k; simp only [List.length_cons]; omega
    · have := ih s k; simp only [List.length_cons]; omega

theorem group_length (m : KV) : (group m).length ≤ m.length := by
  cases m with
  | nil => simp [group]
  | cons k rest => simp only [group, List.length_cons]; exact groupAux_length rest k k

theorem groupAux_ok (rest : KV) : ∀ s p : Nat × Nat, s.1 < 4294967296 → s.2 < 65536 → p.1 < 4294967296 →
    (∀ k ∈ rest, k.1 < 4294967296 ∧ k.2 < 65536) → ∀ g ∈ groupAux s p rest, GrpOk g := by
  induction rest with
  | nil =>
    intro s p h1 h2 h3 _ g hg
    simp only [groupAux, List.mem_singleton] at hg
    subst hg; exact ⟨h1, h3, h2⟩
  | cons k rest ih =>
    intro s p h1 h2 h3 hr g hg
    have hk := hr k List.mem_cons_self
    have hr' : ∀ x ∈ rest, x.1 < 4294967296 ∧ x.2 < 65536 := fun x hx => hr x (List.mem_cons_of_mem _ hx)
    unfold groupAux at hg
    split at hg
    · rcases List.mem_cons.mp hg with rfl | hg
      · exact ⟨h1, h3, h2⟩
      · exact ih k k hk.1 hk.2 hk.1 hr' g hg
    · exact ih s k h1 h2 hk.1 hr' g hg

theorem group_ok (m : KV) (h : ∀ k ∈ m, k.1 < 4294967296 ∧ k.2 < 65536) : ∀ g ∈ group m, GrpOk g := by
  cases m with
  | nil => intro g hg; cases hg
  | cons k rest =>
    have hk := h k List.mem_cons_self
    exact groupAux_ok rest k k hk.1 hk.2 hk.1 (fun x hx => h x (List.mem_cons_of_mem _ hx))

theorem chain_of_pairwise (rest : KV) : ∀ lo, (∀ k ∈ rest, lo < k.1 ∧ k.1 < 4294967296) →
    rest.Pairwise (fun a b => a.1 < b.1) → Chain lo rest := by
  induction rest with
  | nil => intros; trivial
  | cons k rest ih =>
    intro lo h hp
    have hk := h k List.mem_cons_self
    rw [List.pairwise_cons] at hp
    exact ⟨hk.1, hk.2, ih k.1 (fun x hx => ⟨hp.1 x hx, (h x (List.mem_cons_of_mem _ hx)).2⟩) hp.2⟩

theorem chainLib_of_pairwise (rest : KV) : ∀ lo, (∀ k ∈ rest, lo < k.1 ∧ k.1 < 4294967295 ∧ k.2 ≤ 65535) →
    rest.Pairwise (fun a b => a.1 < b.1) → ChainLib lo rest := by
  induction rest with
  | nil => intros; trivial
  | cons k rest ih =>
    intro lo h hp
    have hk := h k List.mem_cons_self
    rw [List.pairwise_cons] at hp
    exact ⟨hk.1, hk.2.1, hk.2.2, ih k.1 (fun x hx => ⟨hp.1 x hx, (h x (List.mem_cons_of_mem _ hx)).2⟩) hp.2⟩

end SfntV.Cmap12
