/-
Whole-charstring soundness of the compiler (C04): `Spec.T2.interp` on the bytes of
`encodeCharString` returns the glyph.
-/
import SfntV.Proofs.T2Path

set_option linter.unusedSimpArgs false
set_option linter.unusedVariables false

namespace SfntV.T2Enc
open SfntV SfntV.T2 SfntV.Spec.T2

/-! ### operators: bytes and one interpreter step -/

theorem opBytes_all (op : Op) :
    (∃ b, opBytes op = [b] ∧ b < 32 ∧ b ≠ 12 ∧ b ≠ 28 ∧ opOfCode b = some op) ∨
    (∃ b, opBytes op = [12, b] ∧ opOfCode (12 * 256 + b) = some op) := by
  cases op <;>
    first
    | exact Or.inl ⟨_, rfl, by decide, by decide, by decide, rfl⟩
    | exact Or.inr ⟨_, rfl, rfl⟩

theorem step_op (env : Env) (s : St) (op : Op) (rest : List Nat) (hs : s.stack.length ≤ 48) :
    step strict env s (opBytes op ++ rest) = checkMove (T2.exec strict env s op rest) := by
  have hov : ¬ s.stack.length > Gen.t2maxStack := by rw [maxStack_eq]; omega
  rcases opBytes_all op with ⟨b, hb, h32, h12, h28, hop⟩ | ⟨b, hb, hop⟩
  · rw [hb]
    simp only [List.cons_append, List.nil_append, step, hov, if_false]
    simp only [show ¬ (32 ≤ b ∧ b ≤ 246) by omega, show ¬ (247 ≤ b ∧ b ≤ 250) by omega,
      show ¬ (251 ≤ b ∧ b ≤ 254) by omega, h28, show ¬ (b = 255) by omega, h12, if_false, hop]
  · rw [hb]
    simp only [List.cons_append, List.nil_append, step, hov, if_false]
    simp only [show ¬ (32 ≤ 12 ∧ 12 ≤ 246) by omega, show ¬ (247 ≤ 12 ∧ 12 ≤ 250) by omega,
      show ¬ (251 ≤ 12 ∧ 12 ≤ 254) by omega, show ¬ (12 = 28) by omega, show ¬ (12 = 255) by omega,
      if_false, if_true, hop]

theorem opBytes_pos (op : Op) : 0 < (opBytes op).length := by
  rcases opBytes_all op with ⟨b, hb, _⟩ | ⟨b, hb, _⟩ <;> rw [hb] <;> simp

/-! ### what the decoder does with the encoded commands -/

/-- the effect of `setGlyphWidth` at the first stack-clearing operator, on a state whose stack holds
only the pending width operand (if any) -/
def widthDone (env : Env) (s : St) : St :=
  match s.stack with
  | [wv] => if s.widthSet then { s with stack := [], widthSet := true }
            else { s with width := wv + env.nominalWidth, stack := [], widthSet := true }
  | _ => { s with stack := [], widthSet := true }

def drawCmd (q : Quirks) (s : St) : EnCmd → St
  | .move dx dy => rMoveTo q s dx.val dy.val
  | .seg g => drawSeg q s g
  | .mask c bs => { s with stage := 2, cmds := s.cmds ++ [if c then Cmd.cntrMask bs else Cmd.hintMask bs] }

def drawCmds (q : Quirks) (s : St) (l : List EnCmd) : St := l.foldl (drawCmd q) s

theorem drawCmds_cons (q : Quirks) (s : St) (c : EnCmd) (l : List EnCmd) :
    drawCmds q s (c :: l) = drawCmds q (drawCmd q s c) l := rfl

theorem drawCmds_segs (q : Quirks) (s : St) (segs : List Seg) (l : List EnCmd) :
    drawCmds q s (segs.map EnCmd.seg ++ l) = drawCmds q (drawSegs q s segs) l := by
  induction segs generalizing s with
  | nil => rfl
  | cons g t ih => simp only [List.map_cons, List.cons_append, drawCmds_cons, drawCmd, drawSegs_cons]; exact ih _

theorem takeSegs_spec (l : List EnCmd) : l = (takeSegs l).1.map EnCmd.seg ++ (takeSegs l).2 := by
  induction l with
  | nil => simp [takeSegs]
  | cons c t ih =>
    cases c with
    | seg g => simp only [takeSegs, List.map_cons, List.cons_append]; rw [← ih]
    | move dx dy => simp [takeSegs]
    | mask c bs => simp [takeSegs]

/-- the path of an `assembleSubPath` that succeeded is a path of proposed edges -/
theorem assemble_isPath (segs : List Seg) (p : List (Nat × Op)) (node : Nat) (b : List Nat)
    (h : assembleSubPath segs node p = some b) :
    ∃ path, IsPath segs node path ∧ b = path.flatMap Edge.bytes := by
  induction p generalizing node b with
  | nil =>
    simp only [assembleSubPath] at h
    split at h
    · rename_i hn
      simp only [Option.some.injEq] at h
      have : node = segs.length := by simpa using hn
      subst this
      exact ⟨[], IsPath.done, by simp [← h]⟩
    · cases h
  | cons st rest ih =>
    obtain ⟨to, op⟩ := st
    simp only [assembleSubPath] at h
    split at h
    · rename_i e hfind
      split at h
      · rename_i hgt
        cases hr : assembleSubPath segs e.to rest with
        | none => rw [hr] at h; cases h
        | some b' =>
          rw [hr] at h
          simp only [Option.map_some, Option.some.injEq] at h
          obtain ⟨path, hp, hb⟩ := ih e.to b' hr
          exact ⟨e :: path, IsPath.step (List.mem_of_find?_eq_some hfind) hp, by rw [← h, hb]; simp⟩
      · cases h
    · cases h


/-- the stack holds nothing, or only the width operand that is still pending -/
def PendOK (s : St) : Prop := s.stack = [] ∨ ∃ wv, s.stack = [wv] ∧ s.widthSet = false

theorem checkMove_cont (s : St) (c : List Nat) (h : s.moveErr = false) :
    checkMove (.ok (.cont s c)) = .ok (.cont s c) := by simp [checkMove, h]

theorem exec_vmoveto (env : Env) (s : St) (dy : Int) (rest : List Nat) (hp : PendOK s) (hme : s.moveErr = false) :
    checkMove (T2.exec strict env { s with stack := s.stack ++ [dy] } .vmoveto rest) =
      .ok (.cont (rMoveTo strict (widthDone env s) 0 dy) rest) := by
  rcases hp with h | ⟨wv, h, hw⟩
  · rw [show T2.exec strict env { s with stack := s.stack ++ [dy] } .vmoveto rest = .ok (.cont (rMoveTo strict (widthDone env s) 0 dy) rest) by
      simp [T2.exec, h, setWidth, countCheck, strict, rMoveTo, clear, widthDone, fixq]
      split <;> simp_all]
    exact checkMove_cont _ _ (by simp [rMoveTo, widthDone, h, hme])
  · rw [show T2.exec strict env { s with stack := s.stack ++ [dy] } .vmoveto rest = .ok (.cont (rMoveTo strict (widthDone env s) 0 dy) rest) by
      simp [T2.exec, h, hw, setWidth, countCheck, strict, rMoveTo, clear, widthDone, fixq]]
    exact checkMove_cont _ _ (by simp [rMoveTo, widthDone, h, hw, hme])

theorem exec_hmoveto (env : Env) (s : St) (dx : Int) (rest : List Nat) (hp : PendOK s) (hme : s.moveErr = false) :
    checkMove (T2.exec strict env { s with stack := s.stack ++ [dx] } .hmoveto rest) =
      .ok (.cont (rMoveTo strict (widthDone env s) dx 0) rest) := by
  rcases hp with h | ⟨wv, h, hw⟩
  · rw [show T2.exec strict env { s with stack := s.stack ++ [dx] } .hmoveto rest = .ok (.cont (rMoveTo strict (widthDone env s) dx 0) rest) by
      simp [T2.exec, h, setWidth, countCheck, strict, rMoveTo, clear, widthDone, fixq]
      split <;> simp_all]
    exact checkMove_cont _ _ (by simp [rMoveTo, widthDone, h, hme])
  · rw [show T2.exec strict env { s with stack := s.stack ++ [dx] } .hmoveto rest = .ok (.cont (rMoveTo strict (widthDone env s) dx 0) rest) by
      simp [T2.exec, h, hw, setWidth, countCheck, strict, rMoveTo, clear, widthDone, fixq]]
    exact checkMove_cont _ _ (by simp [rMoveTo, widthDone, h, hw, hme])

theorem exec_rmoveto (env : Env) (s : St) (dx dy : Int) (rest : List Nat) (hp : PendOK s) (hme : s.moveErr = false) :
    checkMove (T2.exec strict env { s with stack := s.stack ++ [dx, dy] } .rmoveto rest) =
      .ok (.cont (rMoveTo strict (widthDone env s) dx dy) rest) := by
  rcases hp with h | ⟨wv, h, hw⟩
  · rw [show T2.exec strict env { s with stack := s.stack ++ [dx, dy] } .rmoveto rest = .ok (.cont (rMoveTo strict (widthDone env s) dx dy) rest) by
      simp [T2.exec, h, setWidth, countCheck, strict, rMoveTo, clear, widthDone, fixq]
      split <;> simp_all]
    exact checkMove_cont _ _ (by simp [rMoveTo, widthDone, h, hme])
  · rw [show T2.exec strict env { s with stack := s.stack ++ [dx, dy] } .rmoveto rest = .ok (.cont (rMoveTo strict (widthDone env s) dx dy) rest) by
      simp [T2.exec, h, hw, setWidth, countCheck, strict, rMoveTo, clear, widthDone, fixq]]
    exact checkMove_cont _ _ (by simp [rMoveTo, widthDone, h, hw, hme])

end SfntV.T2Enc
