/-
Whole-charstring soundness of the compiler (C04): `Spec.T2.interp` on the bytes of
`encodeCharString` returns the glyph.
-/
import SfntV.Proofs.T2Path

set_option linter.unusedSimpArgs false
set_option linter.unusedVariables false

namespace SfntV.T2Enc
open SfntV SfntV.T2 SfntV.Spec.T2

/-! ### operators: bytes and one interpreter step -/

theorem opBytes_all (op : Op) :
    (∃ b, opBytes op = [b] ∧ b < 32 ∧ b ≠ 12 ∧ b ≠ 28 ∧ opOfCode b = some op) ∨
    (∃ b, opBytes op = [12, b] ∧ opOfCode (12 * 256 + b) = some op) := by
  cases op <;>
    first
    | exact Or.inl ⟨_, rfl, by decide, by decide, by decide, rfl⟩
    | exact Or.inr ⟨_, rfl, rfl⟩

theorem step_op (env : Env) (s : St) (op : Op) (rest : List Nat) (hs : s.stack.length ≤ 48) :
    step strict env s (opBytes op ++ rest) = checkMove (T2.exec strict env s op rest) := by
  have hov : ¬ s.stack.length > Gen.t2maxStack := by rw [maxStack_eq]; omega
  rcases opBytes_all op with ⟨b, hb, h32, h12, h28, hop⟩ | ⟨b, hb, hop⟩
  · rw [hb]
    simp only [List.cons_append, List.nil_append, step, hov, if_false]
    simp only [show ¬ (32 ≤ b ∧ b ≤ 246) by omega, show ¬ (247 ≤ b ∧ b ≤ 250) by omega,
      show ¬ (251 ≤ b ∧ b ≤ 254) by omega, h28, show ¬ (b = 255) by omega, h12, if_false, hop]
  · rw [hb]
    simp only [List.cons_append, List.nil_append, step, hov, if_false]
    simp only [show ¬ (32 ≤ 12 ∧ 12 ≤ 246) by omega, show ¬ (247 ≤ 12 ∧ 12 ≤ 250) by omega,
      show ¬ (251 ≤ 12 ∧ 12 ≤ 254) by omega, show ¬ (12 = 28) by omega, show ¬ (12 = 255) by omega,
      if_false, if_true, hop]

theorem opBytes_pos (op : Op) : 0 < (opBytes op).length := by
  rcases opBytes_all op with ⟨b, hb, _⟩ | ⟨b, hb, _⟩ <;> rw [hb] <;> simp

/-! ### what the decoder does with the encoded commands -/

/-- the effect of `setGlyphWidth` at the first stack-clearing operator, on a state whose stack holds
only the pending width operand (if any) -/
def widthDone (env : Env) (s : St) : St :=
  match s.stack with
  | [wv] => if s.widthSet then { s with stack := [], widthSet := true }
            else { s with width := wv + env.nominalWidth, stack := [], widthSet := true }
  | _ => { s with stack := [], widthSet := true }

def drawCmd (q : Quirks) (s : St) : EnCmd → St
  | .move dx dy => rMoveTo q s dx.val dy.val
  | .seg g => drawSeg q s g
  | .mask c bs => { s with stage := 2, cmds := s.cmds ++ [if c then Cmd.cntrMask bs else Cmd.hintMask bs] }

def drawCmds (q : Quirks) (s : St) (l : List EnCmd) : St := l.foldl (drawCmd q) s

theorem drawCmds_cons (q : Quirks) (s : St) (c : EnCmd) (l : List EnCmd) :
    drawCmds q s (c :: l) = drawCmds q (drawCmd q s c) l := rfl

theorem drawCmds_segs (q : Quirks) (s : St) (segs : List Seg) (l : List EnCmd) :
    drawCmds q s (segs.map EnCmd.seg ++ l) = drawCmds q (drawSegs q s segs) l := by
  induction segs generalizing s with
  | nil => rfl
  | cons g t ih => simp only [List.map_cons, List.cons_append, drawCmds_cons, drawCmd, drawSegs_cons]; exact ih _

theorem takeSegs_spec (l : List EnCmd) : l = (takeSegs l).1.map EnCmd.seg ++ (takeSegs l).2 := by
  induction l with
  | nil => simp [takeSegs]
  | cons c t ih =>
    cases c with
    | seg g => simp only [takeSegs, List.map_cons, List.cons_append]; rw [← ih]
    | move dx dy => simp [takeSegs]
    | mask c bs => simp [takeSegs]

/-- the path of an `assembleSubPath` that succeeded is a path of proposed edges -/
theorem assemble_isPath (segs : List Seg) (p : List (Nat × Op)) (node : Nat) (b : List Nat)
    (h : assembleSubPath segs node p = some b) :
    ∃ path, IsPath segs node path ∧ b = path.flatMap Edge.bytes := by
  induction p generalizing node b with
  | nil =>
    simp only [assembleSubPath] at h
    split at h
    · rename_i hn
      simp only [Option.some.injEq] at h
      have : node = segs.length := by simpa using hn
      subst this
      exact ⟨[], IsPath.done, by simp [← h]⟩
    · cases h
  | cons st rest ih =>
    obtain ⟨to, op⟩ := st
    simp only [assembleSubPath] at h
    split at h
    · rename_i e hfind
      split at h
      · rename_i hgt
        cases hr : assembleSubPath segs e.to rest with
        | none => rw [hr] at h; cases h
        | some b' =>
          rw [hr] at h
          simp only [Option.map_some, Option.some.injEq] at h
          obtain ⟨path, hp, hb⟩ := ih e.to b' hr
          exact ⟨e :: path, IsPath.step (List.mem_of_find?_eq_some hfind) hp, by rw [← h, hb]; simp⟩
      · cases h
    · cases h


/-- the stack holds nothing, or only the width operand that is still pending -/
def PendOK (s : St) : Prop := s.stack = [] ∨ ∃ wv, s.stack = [wv] ∧ s.widthSet = false

theorem checkMove_cont (s : St) (c : List Nat) (h : s.moveErr = false) :
    checkMove (.ok (.cont s c)) = .ok (.cont s c) := by simp [checkMove, h]

theorem exec_vmoveto (env : Env) (s : St) (dy : Int) (rest : List Nat) (hp : PendOK s) (hme : s.moveErr = false) :
    checkMove (T2.exec strict env { s with stack := s.stack ++ [dy] } .vmoveto rest) =
      .ok (.cont (rMoveTo strict (widthDone env s) 0 dy) rest) := by
  rcases hp with h | ⟨wv, h, hw⟩
  · rw [show T2.exec strict env { s with stack := s.stack ++ [dy] } .vmoveto rest = .ok (.cont (rMoveTo strict (widthDone env s) 0 dy) rest) by
      simp [T2.exec, h, setWidth, countCheck, strict, rMoveTo, clear, widthDone, fixq]
      split <;> simp_all]
    exact checkMove_cont _ _ (by simp [rMoveTo, widthDone, h, hme])
  · rw [show T2.exec strict env { s with stack := s.stack ++ [dy] } .vmoveto rest = .ok (.cont (rMoveTo strict (widthDone env s) 0 dy) rest) by
      simp [T2.exec, h, hw, setWidth, countCheck, strict, rMoveTo, clear, widthDone, fixq]]
    exact checkMove_cont _ _ (by simp [rMoveTo, widthDone, h, hw, hme])

theorem exec_hmoveto (env : Env) (s : St) (dx : Int) (rest : List Nat) (hp : PendOK s) (hme : s.moveErr = false) :
    checkMove (T2.exec strict env { s with stack := s.stack ++ [dx] } .hmoveto rest) =
      .ok (.cont (rMoveTo strict (widthDone env s) dx 0) rest) := by
  rcases hp with h | ⟨wv, h, hw⟩
  · rw [show T2.exec strict env { s with stack := s.stack ++ [dx] } .hmoveto rest = .ok (.cont (rMoveTo strict (widthDone env s) dx 0) rest) by
      simp [T2.exec, h, setWidth, countCheck, strict, rMoveTo, clear, widthDone, fixq]
      split <;> simp_all]
    exact checkMove_cont _ _ (by simp [rMoveTo, widthDone, h, hme])
  · rw [show T2.exec strict env { s with stack := s.stack ++ [dx] } .hmoveto rest = .ok (.cont (rMoveTo strict (widthDone env s) dx 0) rest) by
      simp [T2.exec, h, hw, setWidth, countCheck, strict, rMoveTo, clear, widthDone, fixq]]
    exact checkMove_cont _ _ (by simp [rMoveTo, widthDone, h, hw, hme])

theorem exec_rmoveto (env : Env) (s : St) (dx dy : Int) (rest : List Nat) (hp : PendOK s) (hme : s.moveErr = false) :
    checkMove (T2.exec strict env { s with stack := s.stack ++ [dx, dy] } .rmoveto rest) =
      .ok (.cont (rMoveTo strict (widthDone env s) dx dy) rest) := by
  rcases hp with h | ⟨wv, h, hw⟩
  · rw [show T2.exec strict env { s with stack := s.stack ++ [dx, dy] } .rmoveto rest = .ok (.cont (rMoveTo strict (widthDone env s) dx dy) rest) by
      simp [T2.exec, h, setWidth, countCheck, strict, rMoveTo, clear, widthDone, fixq]
      split <;> simp_all]
    exact checkMove_cont _ _ (by simp [rMoveTo, widthDone, h, hme])
  · rw [show T2.exec strict env { s with stack := s.stack ++ [dx, dy] } .rmoveto rest = .ok (.cont (rMoveTo strict (widthDone env s) dx dy) rest) by
      simp [T2.exec, h, hw, setWidth, countCheck, strict, rMoveTo, clear, widthDone, fixq]]
    exact checkMove_cont _ _ (by simp [rMoveTo, widthDone, h, hw, hme])


theorem move_reaches (env : Env) (s : St) (dx dy : EncNum) (rest : List Nat) (hp : PendOK s)
    (hme : s.moveErr = false) (hdx : Decodes dx) (hdy : Decodes dy) :
    Reaches strict env s
      ((if dx.isZero then dy.code ++ opBytes .vmoveto
        else if dy.isZero then dx.code ++ opBytes .hmoveto
        else dx.code ++ dy.code ++ opBytes .rmoveto) ++ rest)
      (rMoveTo strict (widthDone env s) dx.val dy.val) rest := by
  have hlen : s.stack.length ≤ 1 := by rcases hp with h | ⟨wv, h, _⟩ <;> simp [h]
  have fin : ∀ (args : List EncNum) (op : Op) (tgt : St), (∀ a ∈ args, Decodes a) → args.length ≤ 2 →
      checkMove (T2.exec strict env { s with stack := s.stack ++ vals args } op rest) = .ok (.cont tgt rest) →
      Reaches strict env s (args.flatMap (·.code) ++ (opBytes op ++ rest)) tgt rest := by
    intro args op tgt hd hl hex
    refine (reaches_push strict env args hd s (opBytes op ++ rest) (by omega)).trans ?_
    refine Reaches.single ?_ (by have := opBytes_pos op; simp only [List.length_append]; omega)
    rw [step_op env _ op rest (by simp [vals]; omega), hex]
  by_cases hzx : dx.isZero = true
  · have h0 : dx.val = 0 := isZero_val hzx
    simp only [hzx, if_true, h0]
    have := fin [dy] .vmoveto _ (by simpa using hdy) (by simp) (by simpa [vals] using exec_vmoveto env s dy.val rest hp hme)
    simpa [List.append_assoc] using this
  · by_cases hzy : dy.isZero = true
    · have h0 : dy.val = 0 := isZero_val hzy
      simp only [hzx, hzy, if_true, if_false, h0]
      have := fin [dx] .hmoveto _ (by simpa using hdx) (by simp) (by simpa [vals] using exec_hmoveto env s dx.val rest hp hme)
      simpa [List.append_assoc] using this
    · simp only [hzx, hzy, if_false]
      have := fin [dx, dy] .rmoveto _ (by intro a ha; simp at ha; rcases ha with rfl | rfl <;> assumption) (by simp)
        (by simpa [vals] using exec_rmoveto env s dx.val dy.val rest hp hme)
      simpa [List.append_assoc] using this

/-- the command list is drawable: lines and curves only after a moveto; no masks (this theorem) -/
def cmdsOK : Bool → List EnCmd → Bool
  | _, [] => true
  | _, .move _ _ :: r => cmdsOK true r
  | m, .seg _ :: r => m && cmdsOK m r
  | _, .mask _ _ :: _ => false

def CmdDecodes : EnCmd → Prop
  | .move dx dy => Decodes dx ∧ Decodes dy
  | .seg g => ∀ a ∈ g.args, Decodes a
  | .mask _ _ => True

theorem cmdsOK_segs (segs : List Seg) (l : List EnCmd) (m : Bool) (h : cmdsOK m (segs.map EnCmd.seg ++ l) = true)
    (hne : segs ≠ []) : m = true ∧ cmdsOK true l = true := by
  induction segs with
  | nil => exact absurd rfl hne
  | cons g t ih =>
    simp only [List.map_cons, List.cons_append, cmdsOK, Bool.and_eq_true] at h
    obtain ⟨hm, ht⟩ := h
    subst hm
    cases t with
    | nil => exact ⟨rfl, by simpa using ht⟩
    | cons g2 t2 => exact ⟨rfl, (ih ht (by simp)).2⟩

theorem widthDone_rLineTo (env : Env) (q : Quirks) (s : St) (a b : Int) :
    widthDone env (rLineTo q s a b) = rLineTo q (widthDone env s) a b := by
  rcases hst : s.stack with _ | ⟨wv, _ | ⟨b, t⟩⟩ <;> by_cases hw : s.widthSet = true <;>
    simp [widthDone, rLineTo, hst, hw]

theorem widthDone_rCurveTo (env : Env) (q : Quirks) (s : St) (a b c d e f : Int) :
    widthDone env (rCurveTo q s a b c d e f) = rCurveTo q (widthDone env s) a b c d e f := by
  rcases hst : s.stack with _ | ⟨wv, _ | ⟨b, t⟩⟩ <;> by_cases hw : s.widthSet = true <;>
    simp [widthDone, rCurveTo, hst, hw]

theorem widthDone_drawSegs (env : Env) (q : Quirks) (s : St) (segs : List Seg) :
    widthDone env (drawSegs q s segs) = drawSegs q (widthDone env s) segs := by
  induction segs generalizing s with
  | nil => rfl
  | cons g t ih =>
    rw [drawSegs_cons, drawSegs_cons, ih]
    cases g with
    | line dx dy => simp only [drawSeg, widthDone_rLineTo]
    | curve a0 a1 a2 a3 a4 a5 => simp only [drawSeg, widthDone_rCurveTo]

theorem widthDone_id (env : Env) (s : St) (h1 : s.stack = []) (h2 : s.widthSet = true) : widthDone env s = s := by
  cases s
  simp only at h1 h2
  subst h1 h2
  rfl

theorem paths_reaches (env : Env) (f : Nat) :
    ∀ (cmds : List EnCmd) (paths : List (List (Nat × Op))) (bytes : List Nat) (s : St),
      encodePathsFuel f cmds paths = some bytes → cmdsOK s.hasMoved cmds = true →
      (∀ c ∈ cmds, CmdDecodes c) → PendOK s → (s.hasMoved = true → s.stack = []) → s.moveErr = false →
      ∃ sEnd, Reaches strict env s bytes sEnd (opBytes .endchar) ∧ PendOK sEnd ∧ sEnd.moveErr = false ∧
        widthDone env sEnd = drawCmds strict (widthDone env s) cmds := by
  induction f with
  | zero => intro cmds paths bytes s h; simp [encodePathsFuel] at h
  | succ f ih =>
    intro cmds paths bytes s h hok hdec hp hms hme
    cases cmds with
    | nil =>
      simp only [encodePathsFuel, Option.some.injEq] at h
      subst h
      exact ⟨s, Reaches.refl _ _, hp, hme, rfl⟩
    | cons c rest =>
      cases c with
      | mask cn bs => simp [cmdsOK] at hok
      | move dx dy =>
        simp only [encodePathsFuel] at h
        cases hr : encodePathsFuel f rest paths with
        | none => rw [hr] at h; cases h
        | some b' =>
          rw [hr] at h
          simp only [Option.map_some, Option.some.injEq] at h
          obtain ⟨hdx, hdy⟩ := hdec _ List.mem_cons_self
          have h1 := move_reaches env s dx dy b' hp hme hdx hdy
          have hs1 : (rMoveTo strict (widthDone env s) dx.val dy.val).stack = [] := by
            simp only [rMoveTo, widthDone]; split <;> (try split) <;> rfl
          have hw1 : (rMoveTo strict (widthDone env s) dx.val dy.val).widthSet = true := by
            simp only [rMoveTo, widthDone]; split <;> (try split) <;> rfl
          have hm1 : (rMoveTo strict (widthDone env s) dx.val dy.val).moveErr = false := by
            simp only [rMoveTo, widthDone]; split <;> (try split) <;> exact hme
          obtain ⟨sEnd, k1, k2, k3, k4⟩ := ih rest paths b' _ hr (by simpa [cmdsOK, rMoveTo] using hok)
            (fun c hc => hdec c (List.mem_cons_of_mem _ hc)) (Or.inl hs1) (fun _ => hs1) hm1
          refine ⟨sEnd, ?_, k2, k3, ?_⟩
          · rw [← h]; exact h1.trans k1
          · rw [k4, widthDone_id env _ hs1 hw1]; rfl
      | seg g =>
        simp only [encodePathsFuel] at h
        cases paths with
        | nil => simp at h
        | cons p ps =>
          simp only at h
          cases ha : assembleSubPath (takeSegs (EnCmd.seg g :: rest)).1 0 p with
          | none => rw [ha] at h; cases h
          | some b =>
            rw [ha] at h
            simp only at h
            cases hr : encodePathsFuel f (takeSegs (EnCmd.seg g :: rest)).2 ps with
            | none => rw [hr] at h; cases h
            | some b' =>
              rw [hr] at h
              simp only [Option.map_some, Option.some.injEq] at h
              have hspec := takeSegs_spec (EnCmd.seg g :: rest)
              generalize hr1 : (takeSegs (EnCmd.seg g :: rest)).1 = segs at *
              generalize hr2 : (takeSegs (EnCmd.seg g :: rest)).2 = tl at *
              have hne : segs ≠ [] := by
                rw [← hr1]; simp [takeSegs]
              rw [hspec] at hok
              obtain ⟨hmoved, hoktl⟩ := cmdsOK_segs segs tl _ hok hne
              have hst := hms hmoved
              obtain ⟨path, hpath, hb⟩ := assemble_isPath segs p 0 b ha
              have hdseg : ∀ g ∈ segs, ∀ a ∈ g.args, Decodes a := by
                intro g' hg'
                have : EnCmd.seg g' ∈ EnCmd.seg g :: rest := by
                  rw [hspec]; exact List.mem_append_left _ (List.mem_map_of_mem hg')
                exact hdec _ this
              have hready : Ready s := ⟨hst, hmoved, hme⟩
              have h1 := path_reaches env segs 0 path hpath hdseg s hready b'
              simp only [List.drop_zero] at h1
              have hr1' := ready_drawSegs strict s segs hready
              obtain ⟨sEnd, k1, k2, k3, k4⟩ := ih tl ps b' (drawSegs strict s segs) hr
                (by rw [hr1'.2.1]; exact hoktl)
                (fun c hc => hdec c (by rw [hspec]; exact List.mem_append_right _ hc))
                (Or.inl hr1'.1) (fun _ => hr1'.1) hr1'.2.2
              refine ⟨sEnd, ?_, k2, k3, ?_⟩
              · rw [← h, hb]; exact h1.trans k1
              · rw [k4, hspec, drawCmds_segs, widthDone_drawSegs]


theorem endchar_step (env : Env) (s : St) (hp : PendOK s) :
    ∃ s', step strict env s (opBytes .endchar) = .ok (.done s') ∧ s'.glyph = (widthDone env s).glyph := by
  have hlen : s.stack.length ≤ 48 := by rcases hp with h | ⟨wv, h, _⟩ <;> simp [h]
  have := step_op env s .endchar [] hlen
  rw [List.append_nil] at this
  rw [this]
  rcases hp with h | ⟨wv, h, hw⟩
  · by_cases hws : s.widthSet = true <;>
      exact ⟨_, by simp [T2.exec, h, setWidth, strict, checkMove, hws]; rfl, by simp [widthDone, h, St.glyph]⟩
  · exact ⟨_, by simp [T2.exec, h, hw, setWidth, strict, checkMove]; rfl, by simp [widthDone, h, hw, St.glyph]⟩

theorem drawCmds_frame (q : Quirks) (s : St) (l : List EnCmd) :
    (drawCmds q s l).width = s.width ∧ (drawCmds q s l).hstem = s.hstem ∧ (drawCmds q s l).vstem = s.vstem := by
  induction l generalizing s with
  | nil => exact ⟨rfl, rfl, rfl⟩
  | cons c t ih =>
    rw [drawCmds_cons]
    obtain ⟨h1, h2, h3⟩ := ih (drawCmd q s c)
    rw [h1, h2, h3]
    cases c with
    | move dx dy => exact ⟨rfl, rfl, rfl⟩
    | mask cn bs => exact ⟨rfl, rfl, rfl⟩
    | seg g =>
      cases g with
      | line dx dy => exact ⟨rfl, rfl, rfl⟩
      | curve a0 a1 a2 a3 a4 a5 => exact ⟨rfl, rfl, rfl⟩

/-- the state in front of the path section of a glyph without stem hints: the width operand, if the
width differs from the default width, is waiting on the stack -/
def startState (env : Env) (K : Nat) (w : Int) : St :=
  if w != env.defaultWidth * 2 ^ (K - 16) then
    { St.init env with stack := [(encNum (w - env.nominalWidth * 2 ^ (K - 16)) K).val] }
  else St.init env

/-- Whole charstring, glyphs without stem hints and masks: the specification interpreter, run on the
bytes `encodeCharString` emits for ANY choice of edge paths, ends normally (`endchar`) and returns the
glyph obtained by drawing the encoded commands. -/
theorem glyph_sound_nostems (env : Env) (K : Nat) (w : Int) (cmds : List InCmd)
    (paths : List (List (Nat × Op))) (bytes : List Nat)
    (h : encodeCharString K w [] [] cmds env.defaultWidth env.nominalWidth paths = some bytes)
    (hok : cmdsOK false (encodeArgs K cmds) = true) (hdec : ∀ c ∈ encodeArgs K cmds, CmdDecodes c)
    (hw : w ≠ env.defaultWidth * 2 ^ (K - 16) → Decodes (encNum (w - env.nominalWidth * 2 ^ (K - 16)) K)) :
    T2.interp strict env bytes =
      .ok (drawCmds strict (widthDone env (startState env K w)) (encodeArgs K cmds)).glyph := by
  simp only [encodeCharString, List.length_nil, Nat.zero_mod, bne_self_eq_false, Bool.or_self,
    Bool.false_eq_true, if_false, stemListFuel, beq_self_eq_true, if_true, List.append_nil] at h
  cases hp : encodePaths (encodeArgs K cmds) paths with
  | none => rw [hp] at h; cases h
  | some pb =>
    rw [hp] at h
    simp only [Option.map_some, Option.some.injEq] at h
    have hinit : (St.init env).moveErr = false ∧ (St.init env).hasMoved = false ∧ (St.init env).stack = [] ∧
        (St.init env).widthSet = false := ⟨rfl, rfl, rfl, rfl⟩
    by_cases hwd : w = env.defaultWidth * 2 ^ (K - 16)
    · -- default width: nothing in front of the path section
      have hs0 : startState env K w = St.init env := by simp [startState, hwd]
      simp only [hwd, bne_self_eq_false, Bool.false_eq_true, if_false, List.nil_append] at h
      obtain ⟨sEnd, k1, k2, k3, k4⟩ := paths_reaches env _ _ paths pb (St.init env) hp hok hdec (Or.inl rfl)
        (fun hm => by cases hm) rfl
      obtain ⟨s', e1, e2⟩ := endchar_step env sEnd k2
      rw [← h, interp_of_reaches strict env pb sEnd s' _ k1 e1, e2, k4, hs0]
    · have hne : (w != env.defaultWidth * 2 ^ (K - 16)) = true := by simpa using hwd
      simp only [hne, if_true] at h
      have hd := hw hwd
      have h1 := reaches_push strict env [encNum (w - env.nominalWidth * 2 ^ (K - 16)) K]
        (by intro a ha; simp at ha; subst ha; exact hd) (St.init env) pb (by simp [St.init])
      simp only [List.flatMap_cons, List.flatMap_nil, List.append_nil, vals, List.map_cons, List.map_nil] at h1
      have hs0 : startState env K w =
          { St.init env with stack := (St.init env).stack ++ [(encNum (w - env.nominalWidth * 2 ^ (K - 16)) K).val] } := by
        simp [startState, hne, St.init]
      rw [← hs0] at h1
      have hpend : PendOK (startState env K w) := by
        rw [hs0]; exact Or.inr ⟨_, rfl, rfl⟩
      obtain ⟨sEnd, k1, k2, k3, k4⟩ := paths_reaches env _ _ paths pb (startState env K w) hp
        (by rw [hs0]; exact hok) hdec hpend (by rw [hs0]; intro hm; cases hm) (by rw [hs0]; rfl)
      obtain ⟨s', e1, e2⟩ := endchar_step env sEnd k2
      rw [← h, interp_of_reaches strict env _ sEnd s' _ (h1.trans k1) e1, e2, k4]

end SfntV.T2Enc
