/-
Soundness of every proposal of `appendEdges`: all twelve operator forms (C04).
-/
import SfntV.Proofs.T2EdgesHH
import SfntV.Proofs.T2EdgesVV
import SfntV.Proofs.T2EdgesHV

set_option linter.unusedSimpArgs false
set_option linter.unusedVariables false

namespace SfntV.T2Enc
open SfntV SfntV.T2 SfntV.Spec.T2

/-- every edge proposed by `appendEdges` (all twelve operator forms) is sound -/
theorem appendEdges_sound (frm : Nat) (cmds : List Seg) :
    ∀ e ∈ appendEdges frm cmds, EdgeSound frm cmds e := by
  intro e he
  cases cmds with
  | nil => simp [appendEdges] at he
  | cons g t =>
    cases g with
    | line dx dy =>
      simp only [appendEdges] at he
      obtain ⟨hE, p, hp0, hp1, hp2, hp3, hp4, hp5⟩ := rlineEdges_spec frm (.line dx dy :: t) [] (by simp)
      simp only [List.flatMap_nil, List.length_nil, List.nil_append] at hE hp2 hp3 hp4 hp5 hp1
      rcases List.mem_append.mp he with he | he
      · rcases List.mem_append.mp he with he | he
        · rcases List.mem_append.mp he with he | he
          · exact sound_rlineto _ _ _ (hE e he)
          · -- rlinecurve
            rw [hp4] at he
            split at he
            · rename_i a0 a1 a2 a3 a4 a5 tl hdrop
              split at he
              · rename_i hlen
                simp only [List.mem_cons, List.not_mem_nil, or_false] at he
                subst he
                rw [hp2, hp3]
                have hnext := drop_succ_of_cons _ _ _ _ hdrop
                have hp : 0 < p := by
                  rcases Nat.eq_zero_or_pos p with h | h
                  · subst h; simp at hdrop
                  · exact h
                rw [hp2, maxStack_48] at hlen
                exact sound_rlinecurve frm _ p a0 a1 a2 a3 a4 a5 hp1 hp5 hp hnext hlen
              · simp at he
            · simp at he
        · -- vlineto
          obtain ⟨as, h1, h2, h3, h4⟩ := altLineArgs_spec (.line dx dy :: t) 0 [] (Or.inl rfl) (by simp)
          simp only [List.nil_append] at h1
          rw [h1] at he
          split at he
          · rename_i hpos
            simp only [List.mem_cons, List.not_mem_nil, or_false] at he
            subst he
            have := sound_altlines frm (.line dx dy :: t) false as (by simpa using h2) hpos (by simpa using h3) h4
            simpa using this
          · simp at he
      · -- hlineto
        obtain ⟨as, h1, h2, h3, h4⟩ := altLineArgs_spec (.line dx dy :: t) 1 [] (Or.inr rfl) (by simp)
        simp only [List.nil_append] at h1
        rw [h1] at he
        split at he
        · rename_i hpos
          simp only [List.mem_cons, List.not_mem_nil, or_false] at he
          subst he
          have := sound_altlines frm (.line dx dy :: t) true as (by simpa using h2) hpos (by simpa using h3) h4
          simpa using this
        · simp at he
    | curve c0 c1 c2 c3 c4 c5 =>
      simp only [appendEdges] at he
      obtain ⟨hE, p, hp0, hp1, hp2, hp3, hp4, hp5⟩ := rrcurveEdges_spec frm (.curve c0 c1 c2 c3 c4 c5 :: t) [] (by simp)
      simp only [List.flatMap_nil, List.length_nil, List.nil_append] at hE hp2 hp3 hp4 hp5 hp1
      rcases List.mem_append.mp he with he | he
      · rcases List.mem_append.mp he with he | he
        · rcases List.mem_append.mp he with he | he
          · rcases List.mem_append.mp he with he | he
            · rcases List.mem_append.mp he with he | he
              · rcases List.mem_append.mp he with he | he
                · exact sound_rrcurveto _ _ _ (hE e he)
                · -- rcurveline
                  rw [hp4] at he
                  split at he
                  · rename_i dx dy tl hdrop
                    split at he
                    · rename_i hlen
                      simp only [List.mem_cons, List.not_mem_nil, or_false] at he
                      subst he
                      rw [hp2, hp3]
                      have hnext := drop_succ_of_cons _ _ _ _ hdrop
                      have hp : 0 < p := by
                        rcases Nat.eq_zero_or_pos p with h | h
                        · subst h; simp at hdrop
                        · exact h
                      rw [hp2, maxStack_48] at hlen
                      exact sound_rcurveline frm _ p dx dy hp5 hp hnext hlen
                    · simp at he
                  · simp at he
              · exact vvEdges_sound frm _ e he
            · exact hhEdges_sound frm _ e he
          · exact hvEdges_sound frm _ e he
        · exact vhEdges_sound frm _ e he
      · -- flex
        cases t with
        | nil => simp [flexEdges] at he
        | cons g2 t2 =>
          cases g2 with
          | line dx dy => simp [flexEdges] at he
          | curve b0 b1 b2 b3 b4 b5 =>
            simp only [flexEdges] at he
            split at he
            · rename_i hz
              simp only [Bool.and_eq_true] at hz
              have h5 := isZero_val hz.1
              have g1 := isZero_val hz.2
              split at he
              · rename_i hf
                simp only [Bool.and_eq_true, beq_iff_eq] at hf
                simp only [List.mem_cons, List.not_mem_nil, or_false] at he
                subst he
                exact sound_hflex frm _ _ _ _ _ _ _ _ _ _ _ _ t2 (isZero_val hf.1.1) h5 g1 (isZero_val hf.1.2) hf.2
              · split at he
                · rename_i hf
                  simp only [beq_iff_eq] at hf
                  simp only [List.mem_cons, List.not_mem_nil, or_false] at he
                  subst he
                  exact sound_hflex1 frm _ _ _ _ _ _ _ _ _ _ _ _ t2 h5 g1 hf
                · simp at he
            · simp at he

end SfntV.T2Enc
