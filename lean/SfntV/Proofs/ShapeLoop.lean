/-
The two fuelled loops of the engine (C07): with the fuel the model supplies they never run
out of fuel, and every state they reach carries a permutation of the runes, a bounded
length, and an empty stack if they started with one.
-/
import SfntV.Proofs.ShapeNoErr

namespace SfntV.Shape
open SfntV

/-- Hoare-style postcondition: the outcome is not "out of fuel", and if it is a value the
value satisfies `P` (a panic satisfies everything: panics are the subject of C07_no_panic) -/
def Good (P : α → Prop) : Outcome α → Prop
  | .ok a => P a
  | .panic _ => True
  | .err _ => False

theorem Good.of_noErr {x : Outcome α} {P : α → Prop} (h : NoErr x) (hp : ∀ a, x = .ok a → P a) : Good P x := by
  cases x with
  | ok a => exact hp a rfl
  | err e => exact absurd rfl (h e)
  | panic s => trivial

theorem Good.bind {x : Outcome α} {f : α → Outcome β} {Q : α → Prop} {P : β → Prop}
    (hx : Good Q x) (hf : ∀ a, x = .ok a → Q a → Good P (f a)) : Good P (x >>= f) := by
  cases x with
  | ok a => exact hf a rfl hx
  | err e => exact hx.elim
  | panic s => trivial

theorem Good.mono {x : Outcome α} {P Q : α → Prop} (h : Good P x) (hpq : ∀ a, P a → Q a) : Good Q x := by
  cases x with
  | ok a => exact hpq a h
  | err e => exact h.elim
  | panic s => trivial

theorem Good.noErr {x : Outcome α} {P : α → Prop} (h : Good P x) : NoErr x := by
  intro e he; subst he; exact h

theorem Good.ok {x : Outcome α} {P : α → Prop} {a : α} (h : Good P x) (hx : x = .ok a) : P a := by
  subst hx; exact h

/-! ## growth bounds of a lookup list -/

def Lookup.growth (lk : Lookup) : Nat := lk.subtables.foldr (fun s m => max s.growth m) 0
/-- the longest replacement sequence of any multiple substitution in the list, minus one -/
def llGrowth (ll : LookupList) : Nat := ll.foldr (fun l m => max l.growth m) 0

theorem le_foldr_max {α : Type} (f : α → Nat) : ∀ (l : List α) (x : α), x ∈ l →
    f x ≤ l.foldr (fun s m => max (f s) m) 0 := by
  intro l
  induction l with
  | nil => intro x h; cases h
  | cons y ys ih =>
    intro x h
    simp only [List.foldr_cons]
    rcases List.mem_cons.mp h with h | h
    · subst h; exact Nat.le_max_left _ _
    · exact Nat.le_trans (ih x h) (Nat.le_max_right _ _)

theorem growth_le_lookup {lk : Lookup} {s : Subtable} (h : s ∈ lk.subtables) : s.growth ≤ lk.growth :=
  le_foldr_max Subtable.growth _ _ h

theorem growth_le_ll {ll : LookupList} {lk : Lookup} (h : lk ∈ ll) : lk.growth ≤ llGrowth ll :=
  le_foldr_max Lookup.growth _ _ h

/-- `applyAt` with the subtables of a lookup of the list: no error, and a step bounded by the list -/
theorem applyAt_good (kp : Nat → Bool) (st : St) (a : Nat) (b : Int) {ll : LookupList} {lk : Lookup} (hlk : lk ∈ ll) :
    Good (fun r => match r with
      | none => True
      | some (st', _) => StepOK (llGrowth ll) st st') (applyAt kp st a b lk.subtables) := by
  refine Good.of_noErr (applyAt_noErr _ _ _ _ _) ?_
  intro r hr
  cases r with
  | none => trivial
  | some r =>
    obtain ⟨st', n⟩ := r
    obtain ⟨s, hs, hok⟩ := applyAt_ok _ _ _ _ _ _ _ hr
    exact hok.mono (Nat.le_trans (growth_le_lookup hs) (growth_le_ll hlk))

/-! ## the loop over the nested actions -/

/-- postcondition of the engine's loops relative to the state they started from -/
structure Reach (extra : Nat) (st st' : St) : Prop where
  text : (textOf st'.seq).Perm (textOf st.seq)
  len : st'.seq.length ≤ st.seq.length + extra

theorem Reach.refl (st : St) (e : Nat) : Reach e st st := ⟨List.Perm.refl _, Nat.le_add_right _ _⟩

theorem nestedLoop_good (B : Nat) (ll : LookupList) (gd : Gdef) : ∀ (fuel : Nat) (st : St) (n : Nat) (next : Int),
    2 * (B - n) + st.stack.length ≤ fuel →
    Good (fun r => Reach ((B - n) * llGrowth ll) st r.1) (nestedLoop B ll gd fuel st n next) := by
  intro fuel
  induction fuel with
  | zero =>
    intro st n next hf
    simp only [nestedLoop]
    have h1 : st.stack.length = 0 := by omega
    have h2 : st.stack.isEmpty = true := by
      cases hs : st.stack with
      | nil => rfl
      | cons x xs => rw [hs] at h1; simp at h1
    simp only [h2, Bool.true_or, if_true]
    exact Reach.refl _ _
  | succ fuel ih =>
    intro st n next hf
    simp only [nestedLoop]
    split
    · exact Reach.refl _ _
    · rename_i top below hstack
      rw [hstack] at hf
      simp only [List.length_cons] at hf
      split
      · exact Reach.refl _ _
      · rename_i hn
        have hn' : n < B := by omega
        split
        · -- pop
          have := ih { st with stack := below } n (if below.isEmpty then top.endPos else next) (by simp; omega)
          exact this.mono fun r hr => ⟨hr.text, hr.len⟩
        · rename_i act acts hacts
          -- the common continuation with the unchanged sequence
          have hcont : ∀ next', Good (fun r => Reach ((B - n) * llGrowth ll) st r.1)
              (nestedLoop B ll gd fuel { st with stack := { top with actions := acts } :: below } (n + 1) next') := by
            intro next'
            have := ih { st with stack := { top with actions := acts } :: below } (n + 1) next' (by simp; omega)
            refine this.mono fun r hr => ⟨hr.text, Nat.le_trans hr.len ?_⟩
            apply Nat.add_le_add_left
            exact Nat.mul_le_mul_right _ (by omega)
          split
          · exact hcont _
          · split
            · exact hcont _
            · rename_i lk hlk
              have hmem : lk ∈ ll := List.mem_of_getElem? hlk
              refine Good.bind (Q := fun _ => True) (Good.of_noErr idxI_noErr (fun _ _ => trivial)) ?_
              intro g _ _
              split
              · refine Good.bind (applyAt_good _ _ _ _ hmem) ?_
                intro r _ hr
                cases r with
                | none => exact hcont _
                | some r =>
                  obtain ⟨st2, nx⟩ := r
                  have hst : StepOK (llGrowth ll) { st with stack := { top with actions := acts } :: below } st2 := hr
                  have := ih st2 (n + 1) next (by have := hst.stack; simp at this; omega)
                  refine this.mono fun r hr => ⟨hr.text.trans hst.text, ?_⟩
                  have h1 := hr.len
                  have h2 := hst.len
                  have h3 : (B - n) * llGrowth ll = llGrowth ll + (B - (n + 1)) * llGrowth ll := by
                    have : B - n = (B - (n + 1)) + 1 := by omega
                    rw [this, Nat.add_mul]; omega
                  simp at h2
                  omega
              · exact hcont _

/-! ## applyAtRecursively and the loop over the positions -/

/-- by how much one outer step can lengthen the sequence: the first application and at
most `B - 1` nested actions, each by at most `llGrowth ll` -/
def stepGrowth (B : Nat) (ll : LookupList) : Nat := llGrowth ll + (B - 1) * llGrowth ll

/-- postcondition of the outer levels: runes permuted, length bounded, an empty stack stays empty -/
structure Reach' (extra : Nat) (st st' : St) : Prop extends Reach extra st st' where
  stack : st.stack = [] → st'.stack = []

theorem applyAtRec_good (B : Nat) (ll : LookupList) (gd : Gdef) {lk : Lookup} (hlk : lk ∈ ll) (st : St) (pos : Int) :
    Good (fun r => Reach' (stepGrowth B ll) st r.1) (applyAtRec B ll gd lk st pos) := by
  unfold applyAtRec
  refine Good.bind (Q := fun _ => True) (Good.of_noErr idxI_noErr (fun _ _ => trivial)) ?_
  intro g _ _
  split
  · exact ⟨Reach.refl _ _, fun h => h⟩
  · refine Good.bind (applyAt_good _ _ _ _ hlk) ?_
    intro r _ hr
    cases r with
    | none => exact ⟨Reach.refl _ _, fun h => h⟩
    | some r =>
      obtain ⟨st1, next⟩ := r
      have hst : StepOK (llGrowth ll) st st1 := hr
      refine Good.bind (nestedLoop_good B ll gd (nestedFuel B st1) st1 1 next (by unfold nestedFuel; omega)) ?_
      intro r2 _ hr2
      obtain ⟨st2, next2⟩ := r2
      have hlen : st2.seq.length ≤ st.seq.length + stepGrowth B ll := by
        have h1 := hr2.len; have h2 := hst.len
        simp only at h1
        unfold stepGrowth; omega
      have htext : (textOf st2.seq).Perm (textOf st.seq) := hr2.text.trans hst.text
      show Good _ (match st2.stack.getLast? with
        | none => Outcome.ok (st2, next2)
        | some bottom => Outcome.ok ({ st2 with stack := [] }, bottom.endPos))
      split
      · rename_i hlast
        exact ⟨⟨htext, hlen⟩, fun _ => List.getLast?_eq_none_iff.mp hlast⟩
      · exact ⟨⟨htext, hlen⟩, fun _ => rfl⟩

theorem lookupLoop_good (B : Nat) (ll : LookupList) (gd : Gdef) {lk : Lookup} (hlk : lk ∈ ll) :
    ∀ (fuel : Nat) (st : St) (pos : Int), ((st.seq.length : Int) - pos).toNat ≤ fuel →
    Good (fun st' => Reach' (((st.seq.length : Int) - pos).toNat * stepGrowth B ll) st st')
      (lookupLoop B ll gd lk fuel st pos) := by
  intro fuel
  induction fuel with
  | zero =>
    intro st pos hf
    simp only [lookupLoop]
    split
    · omega
    · exact ⟨Reach.refl _ _, fun h => h⟩
  | succ fuel ih =>
    intro st pos hf
    simp only [lookupLoop]
    split
    · rename_i hpos
      refine Good.bind (applyAtRec_good B ll gd hlk st pos) ?_
      intro r _ hr
      obtain ⟨st1, p1⟩ := r
      simp only at hr
      -- the position after the progress guard
      generalize hp2 : (if (st1.seq.length : Int) - p1 ≥ (st.seq.length : Int) - pos
        then (st1.seq.length : Int) - ((st.seq.length : Int) - pos) + 1 else p1) = p2
      have hdec : ((st1.seq.length : Int) - p2).toNat + 1 ≤ ((st.seq.length : Int) - pos).toNat := by
        subst hp2; split <;> omega
      have := ih st1 p2 (by omega)
      refine this.mono fun st' h' => ⟨⟨h'.text.trans hr.text, ?_⟩, fun h => h'.stack (hr.stack h)⟩
      have h1 := h'.len
      have h2 := hr.len
      have h3 : (((st1.seq.length : Int) - p2).toNat + 1) * stepGrowth B ll
          ≤ ((st.seq.length : Int) - pos).toNat * stepGrowth B ll := Nat.mul_le_mul_right _ hdec
      rw [Nat.add_mul] at h3
      omega
    · exact ⟨Reach.refl _ _, fun h => h⟩

/-! ## the reverse loop of a GSUB type 8 lookup (REPAIRED #32) -/

/-- a GSUB 8.1 subtable replaces one glyph id: same length, same runes, same stack -/
theorem applyAt_rev (kp : Nat → Bool) (st : St) (a : Nat) (b : Int) : ∀ (ss : List Subtable) st' n,
    ss.all Subtable.isRev81 = true → applyAt kp st a b ss = .ok (some (st', n)) →
    st'.stack = st.stack ∧ st'.seq.length = st.seq.length ∧ textOf st'.seq = textOf st.seq := by
  intro ss
  induction ss with
  | nil => intro st' n _ h; simp only [applyAt] at h; cases h
  | cons s ss ih =>
    intro st' n hall h
    simp only [List.all_cons, Bool.and_eq_true] at hall
    simp only [applyAt] at h
    obtain ⟨r, hr, h⟩ := bind_ok h
    cases r with
    | none => exact ih st' n hall.2 h
    | some r =>
      injection h with h; injection h with h; subst h
      cases s with
      | gsub81 input back look subst =>
        simp only [applySub] at hr
        obtain ⟨g, hg, hr⟩ := bind_ok hr
        split at hr
        · cases hr
        · split at hr
          · cases hr
          · obtain ⟨m, hm, hr⟩ := bind_ok hr
            split at hr
            · cases hr
            · obtain ⟨v, hv, hr⟩ := bind_ok hr
              injection hr with hr; injection hr with hr; injection hr with h1 h2; subst h1
              exact ⟨rfl, by simp, textOf_set (idx_ok hg) rfl⟩
      | _ => simp [Subtable.isRev81] at hall

theorem revLoop_good (gd : Gdef) {lk : Lookup} (hrev : lk.reverse = true) :
    ∀ (n : Nat) (st : St),
    Good (fun st' => st'.stack = st.stack ∧ st'.seq.length = st.seq.length ∧ textOf st'.seq = textOf st.seq)
      (revLoop gd lk n st) := by
  have hall : lk.subtables.all Subtable.isRev81 = true := by
    unfold Lookup.reverse at hrev; simp only [Bool.and_eq_true] at hrev; exact hrev.2
  intro n
  induction n with
  | zero => intro st; simp only [revLoop]; exact ⟨rfl, rfl, rfl⟩
  | succ n ih =>
    intro st
    simp only [revLoop]
    refine Good.bind (Q := fun _ => True) (Good.of_noErr idx_noErr (fun _ _ => trivial)) ?_
    intro g _ _
    split
    · refine Good.bind (Q := fun r => ∀ st1 nx, r = some (st1, nx) →
          st1.stack = st.stack ∧ st1.seq.length = st.seq.length ∧ textOf st1.seq = textOf st.seq)
        (Good.of_noErr (applyAt_noErr _ _ _ _ _) ?_) ?_
      · intro r hr st1 nx he; subst he
        exact applyAt_rev _ _ _ _ _ _ _ hall hr
      · intro r _ hr
        cases r with
        | none => exact ih st
        | some r =>
          obtain ⟨st1, nx⟩ := r
          obtain ⟨h1, h2, h3⟩ := hr st1 nx rfl
          exact (ih st1).mono fun st' h => ⟨h.1.trans h1, h.2.1.trans h2, h.2.2.trans h3⟩
    · exact ih st

/-! ## Context.Apply -/

theorem applyLookups_good (B : Nat) (ll : LookupList) (gd : Gdef) : ∀ (lookups : List Nat) (st : St),
    Good (fun st' => (textOf st'.seq).Perm (textOf st.seq)
        ∧ st'.seq.length ≤ st.seq.length * (1 + stepGrowth B ll) ^ lookups.length
        ∧ (st.stack = [] → st'.stack = []))
      (applyLookups B ll gd lookups st) := by
  intro lookups
  induction lookups with
  | nil => intro st; simp only [applyLookups]; exact ⟨List.Perm.refl _, by simp, fun h => h⟩
  | cons i is ih =>
    intro st
    simp only [applyLookups]
    have hpow : ∀ n : Nat, n * (1 + stepGrowth B ll) ^ is.length ≤ n * (1 + stepGrowth B ll) ^ (i :: is).length := by
      intro n
      apply Nat.mul_le_mul_left
      simp only [List.length_cons, Nat.pow_succ]
      exact Nat.le_mul_of_pos_right _ (by omega)
    split
    · exact (ih st).mono fun st' h => ⟨h.1, Nat.le_trans h.2.1 (hpow _), h.2.2⟩
    · rename_i lk hlk
      have hmem : lk ∈ ll := List.mem_of_getElem? hlk
      have h0 : Good (fun st' => Reach' (((st.seq.length : Int) - 0).toNat * stepGrowth B ll) st st')
          (applyLookup B ll gd lk st) := by
        unfold applyLookup
        split
        · rename_i hrev
          exact (revLoop_good gd hrev _ st).mono fun st' h =>
            ⟨⟨by rw [h.2.2], by rw [h.2.1]; exact Nat.le_add_right _ _⟩,
             fun hs => by rw [h.1]; exact hs⟩
        · exact lookupLoop_good B ll gd hmem st.seq.length st 0 (by simp)
      refine Good.bind h0 ?_
      intro st1 _ h1
      refine (ih st1).mono fun st' h => ⟨h.1.trans h1.text, ?_, fun hs => h.2.2 (h1.stack hs)⟩
      have hl1 : st1.seq.length ≤ st.seq.length * (1 + stepGrowth B ll) := by
        have := h1.len
        simp only [Int.sub_zero, Int.toNat_natCast] at this
        rw [Nat.mul_add, Nat.mul_one]; exact this
      refine Nat.le_trans h.2.1 ?_
      simp only [List.length_cons, Nat.pow_succ]
      calc st1.seq.length * (1 + stepGrowth B ll) ^ is.length
          ≤ (st.seq.length * (1 + stepGrowth B ll)) * (1 + stepGrowth B ll) ^ is.length := Nat.mul_le_mul_right _ hl1
        _ = st.seq.length * ((1 + stepGrowth B ll) ^ is.length * (1 + stepGrowth B ll)) := by
          rw [Nat.mul_assoc, Nat.mul_comm (1 + stepGrowth B ll)]

end SfntV.Shape
