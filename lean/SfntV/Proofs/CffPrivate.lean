/-
Field-level round trip of the private DICT (`makePrivateDict` → `encode` → `decodeDict` →
`readPrivate`'s accessors).
-/
import SfntV.Model.CffWrite
import SfntV.Proofs.CffDictRt

namespace SfntV.Cff
open SfntV

/-! ### lookups in association lists -/

theorem find_optEntry_ne (c : Bool) (k op : Nat) (v : List Operand) (h : k ≠ op) :
    (optEntry c k v).find? (fun x => decide (x.1 = op)) = none := by
  cases c <;> simp [optEntry, h]

theorem find_optEntry_eq (c : Bool) (k : Nat) (v : List Operand) :
    (optEntry c k v).find? (fun x => decide (x.1 = k)) = if c then some (k, v) else none := by
  cases c <;> simp [optEntry]

/-- looking up a key gives the same answer in any permutation of a list with distinct keys -/
theorem find_perm {l1 l2 : List (Nat × List Operand)} (h : l1.Perm l2) (hn : (l1.map (·.1)).Nodup) (op : Nat) :
    l1.find? (fun x => decide (x.1 = op)) = l2.find? (fun x => decide (x.1 = op)) := by
  induction h with
  | nil => rfl
  | cons x _ ih =>
    simp only [List.map_cons, List.nodup_cons] at hn
    simp only [List.find?_cons]
    split
    · rfl
    · exact ih hn.2
  | swap x y l =>
    simp only [List.map_cons, List.nodup_cons, List.mem_cons, not_or] at hn
    simp only [List.find?_cons]
    by_cases hx : x.1 = op
    · by_cases hy : y.1 = op
      · exact absurd (hy.trans hx.symm) (fun h => hn.1.1 h)
      · simp [hx, hy]
    · by_cases hy : y.1 = op <;> simp [hx, hy]
  | trans h1 _ ih1 ih2 =>
    rw [ih1 hn, ih2 ((h1.map _).nodup_iff.mp hn)]

theorem dGet_decoded (d : DictL) (hn : (d.map (·.1)).Nodup) (op : Nat) :
    dGet ((sortDict d).map fun e => (e.1, e.2.map decOperand)) op = (dGet d op).map decOperand := by
  have hp := sortDict_perm d
  have hn' : ((sortDict d).map (·.1)).Nodup := (hp.map _).nodup_iff.mpr hn
  unfold dGet
  rw [List.find?_map]
  have : (fun x => decide (x.1 = op)) ∘ (fun (e : Nat × List Operand) => (e.1, e.2.map decOperand))
      = fun x => decide (x.1 = op) := by funext x; rfl
  rw [this, find_perm hp hn' op]
  cases d.find? (fun x => decide (x.1 = op)) <;> simp

/-! ### the delta-encoded arrays -/

theorem toI16_wrap (x : Int) (h : -32768 ≤ x ∧ x ≤ 32767) : toI16 (x % 65536).toNat = x := by
  unfold toI16; split <;> omega

/-- `getDeltaF16` (sums reduced modulo 2^16) on the deltas written by `setDeltaF16`: every int16 array
comes back, whatever the gaps between neighbouring values -/
theorem dDelta_go_deltas : ∀ (l : List Int) (prev : Int), (-32768 ≤ prev ∧ prev ≤ 32767) →
    (∀ x ∈ l, -32768 ≤ x ∧ x ≤ 32767) →
    dDelta.go ((deltas prev l).map decOperand) prev = some l := by
  intro l
  induction l with
  | nil => intro prev _ _; rfl
  | cons x xs ih =>
    intro prev hp hl
    have hx := hl x (List.mem_cons_self ..)
    simp only [deltas, List.map_cons, decOperand, dDelta.go]
    have hsum : toI16 ((x - prev + prev) % 65536).toNat = x := by
      have : x - prev + prev = x := by omega
      rw [this]; exact toI16_wrap x hx
    rw [hsum, ih x hx (fun y hy => hl y (List.mem_cons_of_mem _ hy))]
    rfl

/-- the same reader on the deltas the unrepaired writer produced (wrapped into int16): the library
read its own files back before the repair, too -/
theorem dDelta_go_deltasOld : ∀ (l : List Int) (prev : Int), (-32768 ≤ prev ∧ prev ≤ 32767) →
    (∀ x ∈ l, -32768 ≤ x ∧ x ≤ 32767) →
    dDelta.go ((deltasOld prev l).map decOperand) prev = some l := by
  intro l
  induction l with
  | nil => intro prev _ _; rfl
  | cons x xs ih =>
    intro prev hp hl
    have hx := hl x (List.mem_cons_self ..)
    simp only [deltasOld, List.map_cons, decOperand, dDelta.go]
    have hsum : toI16 ((toI16 ((x - prev) % 65536).toNat + prev) % 65536).toNat = x := by
      unfold toI16
      split <;> split <;> omega
    rw [hsum, ih x hx (fun y hy => hl y (List.mem_cons_of_mem _ hy))]
    rfl

theorem deltas_valid : ∀ (l : List Int) (prev : Int), (-32768 ≤ prev ∧ prev ≤ 32767) →
    (∀ x ∈ l, -32768 ≤ x ∧ x ≤ 32767) → ∀ o ∈ deltas prev l, ValidOperand o := by
  intro l
  induction l with
  | nil => intro prev _ _ o ho; simp [deltas] at ho
  | cons x xs ih =>
    intro prev hp hl o ho
    have hx := hl x (List.mem_cons_self ..)
    simp only [deltas, List.mem_cons] at ho
    rcases ho with rfl | ho
    · simp only [ValidOperand]; omega
    · exact ih x hx (fun y hy => hl y (List.mem_cons_of_mem _ hy)) o ho

/-! ### real-valued entries -/

/-- a decimal in normal form with at most nine digits, far from the ±1e300 clamps -/
def RealDom (d : Rl) : Prop :=
  (d.2.1 = 0 ∧ d.1 = false ∧ d.2.2 = 0) ∨
  (0 < d.2.1 ∧ d.2.1 % 10 ≠ 0 ∧ d.2.1 < 10 ^ 9 ∧ -280 ≤ (numDigits d.2.1 : Int) + d.2.2 ∧ (numDigits d.2.1 : Int) + d.2.2 ≤ 280)

theorem realOperand_valid (d : Rl) (h : RealDom d) : ValidOperand (realOperand d) := by
  rcases h with ⟨h1, h2, h3⟩ | ⟨h1, h2, h3, h4, h5⟩
  · simp [realOperand, h1, ValidOperand]
  · have h0 : ¬ d.2.1 = 0 := by omega
    simp only [realOperand, h0, if_false, ValidOperand]
    left
    have hnd := numDigits_le_of_lt d.2.1 9 h1 h3
    have hb := numDigits_bounds d.2.1 h1
    refine ⟨Nat.mul_pos h1 (pow10_pos _), ?_, h4, h5⟩
    have : d.2.1 * 10 ^ (9 - numDigits d.2.1) < 10 ^ numDigits d.2.1 * 10 ^ (9 - numDigits d.2.1) :=
      Nat.mul_lt_mul_of_pos_right hb.2.2 (pow10_pos _)
    rw [← Nat.pow_add] at this
    have e : numDigits d.2.1 + (9 - numDigits d.2.1) = 9 := by omega
    rw [e] at this
    exact this

theorem decOperand_realOperand (d : Rl) (h : RealDom d) : decOperand (realOperand d) = .real d.1 d.2.1 d.2.2 := by
  rcases h with ⟨h1, h2, h3⟩ | ⟨h1, h2, h3, h4, h5⟩
  · obtain ⟨n, m, e⟩ := d
    simp only at h1 h2 h3
    subst h1; subst h2; subst h3
    simp [realOperand, decOperand, stripZeros, numDigits, digitsOf, digitsAux]
  · have h0 : ¬ d.2.1 = 0 := by omega
    have hnd := numDigits_le_of_lt d.2.1 9 h1 h3
    simp only [realOperand, h0, if_false, decOperand]
    have hs : stripZeros 20 (d.2.1 * 10 ^ (9 - numDigits d.2.1)) = d.2.1 :=
      stripZeros_mul_pow d.2.1 h2 _ 20 (by omega)
    rw [hs]
    congr 1
    omega

theorem normReal_normal (d : Rl) (h : RealDom d) : normReal d.1 d.2.1 d.2.2 = d := by
  rcases h with ⟨h1, h2, h3⟩ | ⟨h1, h2, _⟩
  · obtain ⟨n, m, e⟩ := d
    simp only at h1 h2 h3
    subst h1; subst h2; subst h3
    simp [normReal]
  · have h0 : ¬ d.2.1 = 0 := by omega
    unfold normReal
    simp only [h0, if_false]
    have hs : stripZeros (numDigits d.2.1) d.2.1 = d.2.1 := by
      have := stripZeros_mul_pow d.2.1 h2 0 (numDigits d.2.1) (Nat.zero_le _)
      simpa using this
    rw [hs]
    obtain ⟨n, m, e⟩ := d
    simp


/-! ### the private DICT as a whole -/

theorem keys_optEntry (c : Bool) (k : Nat) (v : List Operand) : ((optEntry c k v).map (·.1)).Sublist [k] := by
  cases c <;> simp [optEntry]

/-- the complete private DICT written by `Write` -/
def privDictOf (p : PrivIn) (dw nw sub : Int) : DictL := makePrivateDict p dw nw ++ [(19, [.int sub])]

theorem privDict_keys_nodup (p : PrivIn) (dw nw sub : Int) : ((privDictOf p dw nw sub).map (·.1)).Nodup := by
  have hsub : ((privDictOf p dw nw sub).map (·.1)).Sublist [6, 7, 3082, 3083, 3086, 3081, 10, 11, 20, 21, 19] := by
    simp only [privDictOf, makePrivateDict, List.map_append]
    have e : ([6, 7, 3082, 3083, 3086, 3081, 10, 11, 20, 21, 19] : List Nat)
        = [6] ++ [7] ++ [3082] ++ [3083] ++ [3086] ++ [3081] ++ [10] ++ [11] ++ [20] ++ [21] ++ [19] := rfl
    rw [e]
    repeat' apply List.Sublist.append
    all_goals first | exact keys_optEntry _ _ _ | exact List.Sublist.refl _
  exact List.Nodup.sublist hsub (by decide)

structure PrivDom (p : PrivIn) (dw nw sub : Int) : Prop where
  bv : ∀ x ∈ p.blueValues, -32768 ≤ x ∧ x ≤ 32767
  ob : ∀ x ∈ p.otherBlues, -32768 ≤ x ∧ x ≤ 32767
  bs : -2147483648 ≤ p.blueShift ∧ p.blueShift ≤ 2147483647
  bf : -2147483648 ≤ p.blueFuzz ∧ p.blueFuzz ≤ 2147483647
  dw : -2147483648 ≤ dw ∧ dw ≤ 2147483647
  nw : -2147483648 ≤ nw ∧ nw ≤ 2147483647
  sub : -2147483648 ≤ sub ∧ sub ≤ 2147483647
  scale : RealDom p.blueScale
  hw : RealDom p.stdHW
  vw : RealDom p.stdVW

theorem mem_optEntry {c : Bool} {k : Nat} {v : List Operand} {e : Nat × List Operand}
    (h : e ∈ optEntry c k v) : e = (k, v) := by
  cases c <;> simp [optEntry] at h; exact h

theorem privDict_valid (p : PrivIn) (dw nw sub : Int) (h : PrivDom p dw nw sub) :
    ∀ e ∈ privDictOf p dw nw sub, ValidOp e.1 ∧ ∀ o ∈ e.2, ValidOperand o := by
  intro e he
  simp only [privDictOf, makePrivateDict, List.mem_append, List.mem_singleton] at he
  have vop : ∀ k, k ∈ [6, 7, 3082, 3083, 3086, 3081, 10, 11, 20, 21, 19] → ValidOp k := by
    intro k hk
    simp only [List.mem_cons, List.mem_nil_iff, or_false] at hk
    rcases hk with rfl | rfl | rfl | rfl | rfl | rfl | rfl | rfl | rfl | rfl | rfl <;>
      exact ⟨by decide, by omega⟩
  have one : ∀ (o : Operand), ValidOperand o → ∀ o' ∈ [o], ValidOperand o' := by
    intro o ho o' h'; simp at h'; subst h'; exact ho
  rcases he with ((((((((((he | he) | he) | he) | he) | he) | he) | he) | he) | he) | he)
  · rw [mem_optEntry he]; exact ⟨vop 6 (by simp), deltas_valid _ _ (by omega) h.bv⟩
  · rw [mem_optEntry he]; exact ⟨vop 7 (by simp), deltas_valid _ _ (by omega) h.ob⟩
  · rw [mem_optEntry he]; exact ⟨vop 3082 (by simp), one _ h.bs⟩
  · rw [mem_optEntry he]; exact ⟨vop 3083 (by simp), one _ h.bf⟩
  · rw [mem_optEntry he]; exact ⟨vop 3086 (by simp), one _ (by simp [ValidOperand])⟩
  · rw [mem_optEntry he]; exact ⟨vop 3081 (by simp), one _ (realOperand_valid _ h.scale)⟩
  · rw [mem_optEntry he]; exact ⟨vop 10 (by simp), one _ (realOperand_valid _ h.hw)⟩
  · rw [mem_optEntry he]; exact ⟨vop 11 (by simp), one _ (realOperand_valid _ h.vw)⟩
  · rw [mem_optEntry he]; exact ⟨vop 20 (by simp), one _ h.dw⟩
  · rw [mem_optEntry he]; exact ⟨vop 21 (by simp), one _ h.nw⟩
  · rw [he]; exact ⟨vop 19 (by simp), one _ h.sub⟩

/-- the entry stored for operator `op` by `makePrivateDict` (+ Subrs) -/
theorem dGet_privDict (p : PrivIn) (dw nw sub : Int) :
    dGet (privDictOf p dw nw sub) 6 = (if p.blueValues.isEmpty then [] else deltas 0 p.blueValues) ∧
    dGet (privDictOf p dw nw sub) 7 = (if p.otherBlues.isEmpty then [] else deltas 0 p.otherBlues) ∧
    dGet (privDictOf p dw nw sub) 3082 = (if p.blueShift ≠ 7 then [.int p.blueShift] else []) ∧
    dGet (privDictOf p dw nw sub) 3083 = (if p.blueFuzz ≠ 1 then [.int p.blueFuzz] else []) ∧
    dGet (privDictOf p dw nw sub) 3086 = (if p.forceBold then [.int 1] else []) ∧
    dGet (privDictOf p dw nw sub) 3081
      = (if farApart p.blueScale (false, 39625, -6) (-6) then [realOperand p.blueScale] else []) ∧
    dGet (privDictOf p dw nw sub) 10 = (if p.stdHW.2.1 ≠ 0 then [realOperand p.stdHW] else []) ∧
    dGet (privDictOf p dw nw sub) 11 = (if p.stdVW.2.1 ≠ 0 then [realOperand p.stdVW] else []) ∧
    dGet (privDictOf p dw nw sub) 20 = (if dw ≠ 0 then [.int dw] else []) ∧
    dGet (privDictOf p dw nw sub) 21 = (if nw ≠ 0 then [.int nw] else []) ∧
    dGet (privDictOf p dw nw sub) 19 = [.int sub] := by
  refine ⟨?_, ?_, ?_, ?_, ?_, ?_, ?_, ?_, ?_, ?_, ?_⟩ <;>
  · simp (disch := decide) only [privDictOf, makePrivateDict, dGet, List.find?_append, find_optEntry_eq,
      find_optEntry_ne, List.find?_cons, List.find?_nil, Option.or_none, Option.none_or]
    first
      | (split <;> simp_all)
      | simp


/-- every field of the private DICT survives `makePrivateDict` → `encode` → `decodeDict` → the
accessors `readPrivate` uses -/
theorem privatedict_fields (std custom : Array String) (p : PrivIn) (dw nw sub : Int) (h : PrivDom p dw nw sub) :
    ∃ pd, decodeDict std custom (encodeDict (privDictOf p dw nw sub)) = .ok pd ∧
      dDelta pd 6 = p.blueValues ∧ dDelta pd 7 = p.otherBlues ∧
      dInt pd 3082 7 = p.blueShift ∧ dInt pd 3083 1 = p.blueFuzz ∧
      (decide (dInt pd 3086 0 ≠ 0)) = p.forceBold ∧
      dFloat pd 3081 (false, 39625, -6)
        = (if farApart p.blueScale (false, 39625, -6) (-6) then p.blueScale else (false, 39625, -6)) ∧
      dFloat pd 10 Rl.zero = p.stdHW ∧ dFloat pd 11 Rl.zero = p.stdVW ∧
      dFloat pd 20 Rl.zero = Rl.ofInt dw ∧ dFloat pd 21 Rl.zero = Rl.ofInt nw ∧
      dInt pd 19 0 = sub := by
  have hn := privDict_keys_nodup p dw nw sub
  refine ⟨_, decodeDict_encodeDict_nodup std custom _ hn (privDict_valid p dw nw sub h), ?_⟩
  obtain ⟨g6, g7, g3082, g3083, g3086, g3081, g10, g11, g20, g21, g19⟩ := dGet_privDict p dw nw sub
  have key : ∀ op, dGet ((sortDict (privDictOf p dw nw sub)).map fun e => (e.1, e.2.map decOperand)) op
      = (dGet (privDictOf p dw nw sub) op).map decOperand := dGet_decoded _ hn
  refine ⟨?_, ?_, ?_, ?_, ?_, ?_, ?_, ?_, ?_, ?_, ?_⟩
  · unfold dDelta; rw [key, g6]
    cases hbv : p.blueValues with
    | nil => simp [dDelta.go]
    | cons x xs =>
      simp only [List.isEmpty_cons, Bool.false_eq_true, if_false]
      rw [← hbv, dDelta_go_deltas _ 0 (by omega) h.bv]; rfl
  · unfold dDelta; rw [key, g7]
    cases hbv : p.otherBlues with
    | nil => simp [dDelta.go]
    | cons x xs =>
      simp only [List.isEmpty_cons, Bool.false_eq_true, if_false]
      rw [← hbv, dDelta_go_deltas _ 0 (by omega) h.ob]; rfl
  · unfold dInt; rw [key, g3082]
    by_cases hc : p.blueShift = 7 <;> simp [hc, decOperand]
  · unfold dInt; rw [key, g3083]
    by_cases hc : p.blueFuzz = 1 <;> simp [hc, decOperand]
  · unfold dInt; rw [key, g3086]
    cases p.forceBold <;> simp [decOperand]
  · unfold dFloat; rw [key, g3081]
    cases farApart p.blueScale (false, 39625, -6) (-6) with
    | false => simp
    | true =>
      simp only [if_true, List.map_cons, List.map_nil, decOperand_realOperand _ h.scale]
      exact normReal_normal _ h.scale
  · unfold dFloat; rw [key, g10]
    by_cases hc : p.stdHW.2.1 = 0
    · have hz : p.stdHW = Rl.zero := by
        rcases h.hw with ⟨h1, h2, h3⟩ | ⟨h1, _⟩
        · generalize p.stdHW = q at *
          obtain ⟨n, m, e⟩ := q
          simp only at h1 h2 h3
          subst h1; subst h2; subst h3
          rfl
        · omega
      rw [hz]; rfl
    · simp only [hc, ne_eq, not_false_eq_true, if_true, List.map_cons, List.map_nil,
        decOperand_realOperand _ h.hw]
      exact normReal_normal _ h.hw
  · unfold dFloat; rw [key, g11]
    by_cases hc : p.stdVW.2.1 = 0
    · have hz : p.stdVW = Rl.zero := by
        rcases h.vw with ⟨h1, h2, h3⟩ | ⟨h1, _⟩
        · generalize p.stdVW = q at *
          obtain ⟨n, m, e⟩ := q
          simp only at h1 h2 h3
          subst h1; subst h2; subst h3
          rfl
        · omega
      rw [hz]; rfl
    · simp only [hc, ne_eq, not_false_eq_true, if_true, List.map_cons, List.map_nil,
        decOperand_realOperand _ h.vw]
      exact normReal_normal _ h.vw
  · unfold dFloat; rw [key, g20]
    by_cases hc : dw = 0
    · subst hc; simp [Rl.ofInt, Rl.zero, normReal]
    · simp [hc, decOperand]
  · unfold dFloat; rw [key, g21]
    by_cases hc : nw = 0
    · subst hc; simp [Rl.ofInt, Rl.zero, normReal]
    · simp [hc, decOperand]
  · unfold dInt; rw [key, g19]; simp [decOperand]

end SfntV.Cff
