/-
The converse of `readLL_spec`: whenever the specification reader finds a lookup list and the reader's
budget (lookups + subtables ≤ 6000) is respected, the model of the Go reader `readLookupList` accepts
the bytes and returns the same lookups; and the lifting from "a subtable is its position" to a
subtable reader `leaf` that succeeds at every position.
-/
import SfntV.Proofs.OtlLookupRead

namespace SfntV.Otl.LL
open SfntV SfntV.Otl

theorem u16at_rdAt {b : Bytes} {p v : Nat} (h : u16at b p = some v) : rdAt b p = .ok v := by
  simp [rdAt, h]

theorem mapM_some_all {α β} (f : α → Option β) : ∀ (l : List α) (r : List β), l.mapM f = some r →
    r.length = l.length ∧ ∀ (i : Nat) (x : α), l[i]? = some x → ∃ y, f x = some y ∧ r[i]? = some y
  | [], r, h => by
    simp only [List.mapM_nil] at h
    have : r = [] := by simpa using h.symm
    subst this
    exact ⟨rfl, by intro i x hi; simp at hi⟩
  | a :: l, r, h => by
    rw [List.mapM_cons] at h
    cases hfa : f a with
    | none => rw [hfa] at h; simp at h
    | some y =>
      rw [hfa] at h
      cases hl : l.mapM f with
      | none => rw [hl] at h; simp at h
      | some ys =>
        rw [hl] at h
        have : r = y :: ys := by simpa using h.symm
        subst this
        obtain ⟨i1, i2⟩ := mapM_some_all f l ys hl
        refine ⟨by simp [i1], ?_⟩
        intro i x hi
        cases i with
        | zero => simp only [List.getElem?_cons_zero, Option.some.injEq] at hi; subst hi; exact ⟨y, hfa, rfl⟩
        | succ i => simpa using i2 i x (by simpa using hi)

theorem rdAtN_of_all (b : Bytes) : ∀ (n p : Nat), (∀ j, j < n → ∃ v, u16at b (p + 2 * j) = some v) →
    ∃ ws, rdAtN b p n = .ok ws
  | 0, _, _ => ⟨[], rfl⟩
  | n + 1, p, h => by
    obtain ⟨v, hv⟩ := h 0 (by omega)
    obtain ⟨ws, hws⟩ := rdAtN_of_all b n (p + 2) (fun j hj => by
      obtain ⟨w, hw⟩ := h (j + 1) (by omega)
      exact ⟨w, by rw [← hw]; congr 1; omega⟩)
    simp only [Nat.mul_zero, Nat.add_zero] at hv
    exact ⟨v :: ws, by simp [rdAtN, u16at_rdAt hv, hws]⟩

/-- `u16s` and `rdAtN` read the same words -/
theorem u16s_rdAtN {b : Bytes} {p n : Nat} {ws : List Nat} (h : u16s b p n = some ws) : rdAtN b p n = .ok ws := by
  unfold u16s at h
  obtain ⟨_, hall⟩ := mapM_some_all _ _ _ h
  obtain ⟨ws', hws'⟩ := rdAtN_of_all b n p (fun j hj => by
    obtain ⟨y, hy, _⟩ := hall j j (by simp [hj])
    exact ⟨y, hy⟩)
  have := rdAtN_u16s hws'
  unfold u16s at this
  rw [h] at this
  simp only [Option.some.injEq] at this
  rw [this]; exact hws'

/-- an extension record the specification accepts is what the verification hook's reader returns -/
theorem srWith_of_spec (b : Bytes) (extType p et q : Nat) (h : specExtRec b p = some (et, q)) :
    ∃ eo, srWith (fun (_ : Nat) (x : Nat) => Outcome.ok x) b extType extType p = .ok (.inl (et, eo)) ∧ q = p + eo := by
  unfold specExtRec at h
  cases h0 : u16at b p with
  | none => rw [h0] at h; simp at h
  | some fmt =>
    cases h1 : u16at b (p + 2) with
    | none => rw [h0, h1] at h; simp at h
    | some e1 =>
      cases h2 : u16at b (p + 4) with
      | none => rw [h0, h1, h2] at h; simp at h
      | some hi =>
        cases h3 : u16at b (p + 6) with
        | none => rw [h0, h1, h2, h3] at h; simp at h
        | some lo =>
          rw [h0, h1, h2, h3] at h
          simp only at h
          split at h
          · rename_i hf
            simp only [Option.some.injEq, Prod.mk.injEq] at h
            obtain ⟨rfl, rfl⟩ := h
            have hfmt : fmt = 1 := by simpa using hf
            subst hfmt
            refine ⟨hi * 65536 + lo, ?_, rfl⟩
            have e4 : p + 2 + 2 = p + 4 := by omega
            have e6 : p + 2 + 2 + 2 = p + 6 := by omega
            simp [srWith, u16at_rdAt h0, rdAtN, u16at_rdAt h1, e4, u16at_rdAt h2, e6, u16at_rdAt h3]
          · simp at h

abbrev posLeaf : Nat → Nat → Outcome Nat := fun _ x => Outcome.ok x

/-- the records of an extension lookup the specification accepts pass both passes of the reader -/
theorem ext_accept (b : Bytes) (extType lp : Nat) : ∀ (offs : List Nat) (recs : List (Nat × Nat)),
    offs.mapM (fun o => specExtRec b (lp + o)) = some recs →
    ∃ subs, srAll posLeaf b extType extType lp offs = .ok subs ∧
      (∀ et eo rest, subs = .inl (et, eo) :: rest → ∃ q rs, recs = (et, q) :: rs) ∧
      (∀ x rest, subs = .inr x :: rest → False) ∧
      (subs = [] → recs = []) ∧
      ∀ et, (∀ r ∈ recs, r.1 = et) → resolveExt posLeaf lp et offs subs = .ok (recs.map (·.2))
  | [], recs, h => by
    simp only [List.mapM_nil] at h
    have : recs = [] := by simpa using h.symm
    subst this
    exact ⟨[], rfl, by intro _ _ _ h; simp at h, by intro _ _ h; simp at h, fun _ => rfl, fun _ _ => rfl⟩
  | o :: os, recs, h => by
    rw [List.mapM_cons] at h
    cases h1 : specExtRec b (lp + o) with
    | none => rw [h1] at h; simp at h
    | some r =>
      obtain ⟨et, q⟩ := r
      rw [h1] at h
      cases h2 : os.mapM (fun o => specExtRec b (lp + o)) with
      | none => rw [h2] at h; simp at h
      | some rs =>
        rw [h2] at h
        have : recs = (et, q) :: rs := by simpa using h.symm
        subst this
        obtain ⟨eo, hsr, hq⟩ := srWith_of_spec b extType (lp + o) et q h1
        obtain ⟨subs', hs', _, _, _, hres⟩ := ext_accept b extType lp os rs h2
        refine ⟨.inl (et, eo) :: subs', by simp [srAll, hsr, hs'], ?_, ?_, by intro h; simp at h, ?_⟩
        · intro et' eo' rest hh
          simp only [List.cons.injEq, Sum.inl.injEq, Prod.mk.injEq] at hh
          obtain ⟨⟨rfl, _⟩, _⟩ := hh
          exact ⟨q, rs, rfl⟩
        · intro x rest hh; simp at hh
        · intro et' hall
          have he : et = et' := hall (et, q) (by simp)
          subst he
          have := hres et (fun r hr => hall r (by simp [hr]))
          simp only [resolveExt, bne_self_eq_false, Bool.false_eq_true, if_false, this, List.map_cons, hq]

theorem inrOnly_map (lp : Nat) (offs : List Nat) :
    inrOnly (offs.map fun o => (Sum.inr (lp + o) : Sum (Nat × Nat) Nat)) = offs.map (lp + ·) :=
  inrOnly_map_inr lp offs

/-- one lookup the specification accepts is accepted by the reader, with the same result -/
theorem finish_accept (b : Bytes) (extType lp tp flags mfs : Nat) (mfsO : Option Nat) (offs : List Nat)
    (s : SpecLookup) (h : specFinish b extType lp tp flags mfsO offs = some s) :
    ∃ subs l, srAll posLeaf b extType tp lp offs = .ok subs ∧
      finishLookup posLeaf lp tp flags mfs offs subs = .ok l ∧
      l.type = s.type ∧ l.flags = flags ∧ s.flags = flags ∧ l.mfs = mfs ∧ s.mfs = mfsO ∧ l.subs = s.subPos ∧
      s.subPos.length = offs.length := by
  unfold specFinish at h
  by_cases hx : (tp == extType) = true
  · have htp : tp = extType := by simpa using hx
    subst htp
    rw [if_pos hx] at h
    cases hm : offs.mapM (fun o => specExtRec b (lp + o)) with
    | none => rw [hm] at h; simp at h
    | some recs =>
      rw [hm] at h
      obtain ⟨subs, hsr, hhead, hnoinr, hnil, hres⟩ := ext_accept b tp lp offs recs hm
      have hlen := (mapM_some_all _ _ _ hm).1
      cases recs with
      | nil =>
        simp only [Option.some.injEq] at h
        subst h
        have hoffs : offs = [] := List.eq_nil_of_length_eq_zero (by simpa using hlen.symm)
        subst hoffs
        simp only [srAll, Outcome.ok.injEq] at hsr
        subst hsr
        exact ⟨[], ⟨tp, flags, mfs, []⟩, rfl, rfl, rfl, rfl, rfl, rfl, rfl, rfl, rfl⟩
      | cons r rs =>
        obtain ⟨et, q⟩ := r
        simp only at h
        split at h
        · rename_i hc
          simp only [Bool.and_eq_true, List.all_eq_true, beq_iff_eq, bne_iff_ne, ne_eq] at hc
          simp only [Option.some.injEq] at h
          subst h
          have hr := hres et (fun r hr => hc.1 r hr)
          -- the shape of `subs`
          cases subs with
          | nil => have := hnil rfl; simp at this
          | cons x rest =>
            cases x with
            | inr v => exact absurd (hnoinr v rest rfl) id
            | inl pr =>
              obtain ⟨et', eo⟩ := pr
              obtain ⟨q', rs', hq⟩ := hhead et' eo rest rfl
              simp only [List.cons.injEq, Prod.mk.injEq] at hq
              obtain ⟨⟨rfl, _⟩, _⟩ := hq
              refine ⟨_, ⟨et, flags, mfs, ((et, q) :: rs).map (·.2)⟩, hsr, ?_, rfl, rfl, rfl, rfl, rfl, rfl, ?_⟩
              · simp only [finishLookup]
                rw [if_neg (by simpa using hc.2), hr]
              · simpa using hlen
        · simp at h
  · have hx' : (tp == extType) = false := by simpa using hx
    rw [if_neg hx] at h
    simp only [Option.some.injEq] at h
    subst h
    refine ⟨_, ⟨tp, flags, mfs, offs.map (lp + ·)⟩, srAll_plain b extType tp lp hx' offs, ?_, rfl, rfl, rfl, rfl, rfl,
      rfl, by simp⟩
    cases offs with
    | nil => rfl
    | cons o os =>
      have := inrOnly_map lp (o :: os)
      simp only [List.map_cons] at this
      simp only [finishLookup, List.map_cons, this]

/-- the reader's budget, on what the specification reader found: lookups + subtables ≤ 6000 -/
def budgetOk (sl : List SpecLookup) : Prop := sl.length + (sl.map (·.subPos.length)).sum ≤ 6000

theorem lookups_accept (b : Bytes) (extType : Nat) : ∀ (lps : List Nat) (numL numS : Nat) (sl : List SpecLookup),
    lps.mapM (specLookup b extType) = some sl →
    numL + numS + sl.length + (sl.map (·.subPos.length)).sum ≤ 6000 →
    ∃ ls, readLookups posLeaf b extType lps numL numS = .ok ls ∧ ls.map toSpec = sl ∧
      ∀ l ∈ ls, (l.flags / 16 % 2 == 1) = false → l.mfs = 0
  | [], _, _, sl, h, _ => by
    simp only [List.mapM_nil] at h
    have : sl = [] := by simpa using h.symm
    subst this
    exact ⟨[], rfl, rfl, by intro l hl; simp at hl⟩
  | lp :: lps, numL, numS, sl, h, hbud => by
    rw [List.mapM_cons] at h
    cases h1 : specLookup b extType lp with
    | none => rw [h1] at h; simp at h
    | some s =>
      rw [h1] at h
      cases h2 : lps.mapM (specLookup b extType) with
      | none => rw [h2] at h; simp at h
      | some ss =>
        rw [h2] at h
        have : sl = s :: ss := by simpa using h.symm
        subst this
        -- the fields of the lookup table
        unfold specLookup at h1
        cases a0 : u16at b lp with
        | none => rw [a0] at h1; simp at h1
        | some tp =>
          cases a1 : u16at b (lp + 2) with
          | none => rw [a0, a1] at h1; simp at h1
          | some flags =>
            cases a2 : u16at b (lp + 4) with
            | none => rw [a0, a1, a2] at h1; simp at h1
            | some cnt =>
              rw [a0, a1, a2] at h1
              simp only at h1
              cases a3 : u16s b (lp + 6) cnt with
              | none => rw [a3] at h1; simp at h1
              | some offs =>
                rw [a3] at h1
                have hol : offs.length = cnt := by
                  have := (mapM_some_all _ _ _ a3).1
                  simpa [u16s] using this
                -- mark filtering set
                obtain ⟨mfs, mfsO, hm1, hm2, hm3⟩ : ∃ mfs mfsO,
                    (if flags / 16 % 2 == 1 then rdAt b (lp + 6 + 2 * cnt) else Outcome.ok 0) = .ok mfs ∧
                    (if flags / 16 % 2 == 1 then (u16at b (lp + 6 + 2 * cnt)).map some else some none) = some mfsO ∧
                    mfsO = (if flags / 16 % 2 == 1 then some mfs else none) := by
                  by_cases hfl : (flags / 16 % 2 == 1) = true
                  · simp only [hfl, if_true] at h1 ⊢
                    cases a4 : u16at b (lp + 6 + 2 * cnt) with
                    | none => rw [a4] at h1; simp at h1
                    | some v => exact ⟨v, some v, u16at_rdAt a4, rfl, rfl⟩
                  · simp only [hfl, Bool.false_eq_true, if_false]
                    exact ⟨0, none, rfl, rfl, rfl⟩
                rw [hm2] at h1
                simp only at h1
                obtain ⟨subs, l, hsr, hfin, e1, e2, e3, e4, e5, e6, e7⟩ :=
                  finish_accept b extType lp tp flags mfs mfsO offs s h1
                have hcnt : s.subPos.length = cnt := by rw [e7, hol]
                simp only [List.length_cons, List.map_cons, List.sum_cons] at hbud
                obtain ⟨ls', hls', hmap, hmz⟩ := lookups_accept b extType lps (numL + 1) (numS + cnt) ss h2 (by omega)
                have hhdr : rdAtN b lp 3 = .ok [tp, flags, cnt] := by
                  have e4' : lp + 2 + 2 = lp + 4 := by omega
                  simp [rdAtN, u16at_rdAt a0, u16at_rdAt a1, e4', u16at_rdAt a2]
                have hmfs0 : (flags / 16 % 2 == 1) = false → mfs = 0 := by
                  intro hf
                  simp only [hf, Bool.false_eq_true, if_false, Outcome.ok.injEq] at hm1
                  exact hm1.symm
                refine ⟨l :: ls', ?_, ?_, ?_⟩
                · simp only [readLookups, hhdr]
                  rw [if_neg (by omega), u16s_rdAtN a3]
                  simp only [hm1, hsr, hfin, hls']
                · rw [List.map_cons, hmap]
                  congr 1
                  cases s with
                  | mk st sf sm sp =>
                    simp only at e1 e3 e5 e6
                    simp only [toSpec, e1, e2, e4, e6, SpecLookup.mk.injEq, true_and]
                    subst e3 e5 hm3
                    simp
                · intro l' hl'
                  rw [List.mem_cons] at hl'
                  rcases hl' with rfl | hl'
                  · rw [e2, e4]; exact hmfs0
                  · exact hmz l' hl'

/-- **acceptance**: what the specification reader finds within the budget, the model of the Go reader
accepts - and returns the same lookups -/
theorem readLL_accept (b : Bytes) (extType : Nat) (sl : List SpecLookup) (h : specRead b extType = some sl)
    (hb : budgetOk sl) : ∃ ls, readLL b extType = .ok ls ∧ ls.map toSpec = sl ∧
      ∀ l ∈ ls, (l.flags / 16 % 2 == 1) = false → l.mfs = 0 := by
  unfold specRead at h
  cases h0 : u16at b 0 with
  | none => rw [h0] at h; simp at h
  | some cnt =>
    rw [h0] at h
    simp only at h
    cases h1 : u16s b 2 cnt with
    | none => rw [h1] at h; simp at h
    | some lps =>
      rw [h1] at h
      simp only at h
      obtain ⟨ls, hls, hmap, hmz⟩ := lookups_accept b extType lps 0 0 sl h (by unfold budgetOk at hb; omega)
      exact ⟨ls, by simp [readLL, readLLWith, u16at_rdAt h0, u16s_rdAtN h1, hls], hmap, hmz⟩

/-! ### from positions to a subtable reader -/

section lift
variable {σ : Type} (leaf : Nat → Nat → Outcome σ)

/-- decode the subtables of one lookup (effective type `tp`) at the positions found -/
def liftSubs (tp : Nat) : List Nat → Outcome (List σ)
  | [] => .ok []
  | p :: ps =>
    match leaf tp p with
    | .ok v =>
      match liftSubs tp ps with
      | .ok vs => .ok (v :: vs)
      | o => o
    | .err e => .err e
    | .panic s => .panic s

def liftLookups : List (ReadLookup Nat) → Outcome (List (ReadLookup σ))
  | [] => .ok []
  | l :: ls =>
    match liftSubs leaf l.type l.subs with
    | .ok vs =>
      match liftLookups ls with
      | .ok r => .ok (⟨l.type, l.flags, l.mfs, vs⟩ :: r)
      | o => o
    | .err e => .err e
    | .panic s => .panic s

theorem srAll_plain_lift (b : Bytes) (extType tp lp : Nat) (hne : (tp == extType) = false) :
    ∀ (offs : List Nat) (vs : List σ), liftSubs leaf tp (offs.map (lp + ·)) = .ok vs →
    srAll leaf b extType tp lp offs = .ok (vs.map .inr)
  | [], vs, h => by simp only [List.map_nil, liftSubs, Outcome.ok.injEq] at h; subst h; rfl
  | o :: os, vs, h => by
    simp only [List.map_cons, liftSubs] at h
    cases h1 : leaf tp (lp + o) with
    | ok v =>
      rw [h1] at h
      cases h2 : liftSubs leaf tp (os.map (lp + ·)) with
      | ok vs' =>
        rw [h2] at h
        simp only [Outcome.ok.injEq] at h
        subst h
        simp only [srAll, srWith, hne, Bool.false_eq_true, if_false, h1, srAll_plain_lift b extType tp lp hne os vs' h2,
          List.map_cons]
      | err e => rw [h2] at h; simp at h
      | panic s => rw [h2] at h; simp at h
    | err e => rw [h1] at h; simp at h
    | panic s => rw [h1] at h; simp at h

/-- the first pass over an extension lookup does not call the subtable reader -/
theorem srAll_ext_shape (b : Bytes) (extType lp : Nat) : ∀ (offs : List Nat) (subs : List (Sum (Nat × Nat) Nat)),
    srAll posLeaf b extType extType lp offs = .ok subs →
    ∃ recs : List (Nat × Nat), subs = recs.map .inl ∧ srAll leaf b extType extType lp offs = .ok (recs.map .inl)
  | [], subs, h => by
    simp only [srAll, Outcome.ok.injEq] at h; subst h; exact ⟨[], rfl, rfl⟩
  | o :: os, subs, h => by
    simp only [srAll] at h
    cases h1 : srWith posLeaf b extType extType (lp + o) with
    | ok x =>
      rw [h1] at h
      cases h3 : srAll posLeaf b extType extType lp os with
      | ok xs =>
        rw [h3] at h
        simp only [Outcome.ok.injEq] at h
        subst h
        obtain ⟨et, eo, rfl, _⟩ := srWith_ext b extType (lp + o) x h1
        obtain ⟨recs, rfl, hl⟩ := srAll_ext_shape b extType lp os xs h3
        refine ⟨(et, eo) :: recs, rfl, ?_⟩
        -- `srWith` on an extension lookup is the same function for every leaf
        have hsame : srWith leaf b extType extType (lp + o) = .ok (.inl (et, eo)) := by
          simp only [srWith, beq_self_eq_true, if_true] at h1 ⊢
          cases hr : rdAt b (lp + o) with
          | ok fmt =>
            rw [hr] at h1
            simp only at h1 ⊢
            by_cases hf : (fmt != 1) = true
            · rw [if_pos hf] at h1; simp at h1
            · rw [if_neg hf] at h1 ⊢
              cases hn : rdAtN b (lp + o + 2) 3 with
              | ok ws =>
                rw [hn] at h1
                match ws, h1 with
                | [a, c, d], h1 => simpa using h1
                | [], h1 => simp at h1
                | [_], h1 => simp at h1
                | [_, _], h1 => simp at h1
                | _ :: _ :: _ :: _ :: _, h1 => simp at h1
              | err e => rw [hn] at h1; simp at h1
              | panic s => rw [hn] at h1; simp at h1
          | err e => rw [hr] at h1; simp at h1
          | panic s => rw [hr] at h1; simp at h1
        simp only [srAll, hsame, hl, List.map_cons]
      | err e => rw [h3] at h; simp at h
      | panic s => rw [h3] at h; simp at h
    | err e => rw [h1] at h; simp at h
    | panic s => rw [h1] at h; simp at h

theorem resolveExt_lift (lp et : Nat) : ∀ (offs : List Nat) (recs : List (Nat × Nat)) (ps : List Nat) (vs : List σ),
    resolveExt posLeaf lp et offs (recs.map .inl) = .ok ps → liftSubs leaf et ps = .ok vs →
    resolveExt leaf lp et offs (recs.map .inl) = .ok vs
  | [], recs, ps, vs, h, hl => by
    simp only [resolveExt, Outcome.ok.injEq] at h
    subst h
    simp only [liftSubs, Outcome.ok.injEq] at hl
    subst hl
    simp [resolveExt]
  | o :: os, [], ps, vs, h, hl => by
    simp only [List.map_nil, resolveExt, Outcome.ok.injEq] at h
    subst h
    simp only [liftSubs, Outcome.ok.injEq] at hl
    subst hl
    simp [resolveExt]
  | o :: os, (et', eo) :: recs, ps, vs, h, hl => by
    simp only [List.map_cons, resolveExt] at h ⊢
    by_cases hne : (et' != et) = true
    · rw [if_pos hne] at h; simp at h
    · rw [if_neg hne] at h ⊢
      cases h2 : resolveExt posLeaf lp et os (recs.map .inl) with
      | ok r =>
        rw [h2] at h
        simp only [posLeaf, Outcome.ok.injEq] at h
        subst h
        simp only [liftSubs] at hl
        cases h3 : leaf et (lp + o + eo) with
        | ok v =>
          rw [h3] at hl
          cases h4 : liftSubs leaf et r with
          | ok vs' =>
            rw [h4] at hl
            simp only [Outcome.ok.injEq] at hl
            subst hl
            simp only [resolveExt_lift lp et os recs r vs' h2 h4]
          | err e => rw [h4] at hl; simp at hl
          | panic s => rw [h4] at hl; simp at hl
        | err e => rw [h3] at hl; simp at hl
        | panic s => rw [h3] at hl; simp at hl
      | err e => rw [h2] at h; simp [posLeaf] at h
      | panic s => rw [h2] at h; simp [posLeaf] at h

end lift

section lift2
variable {σ : Type} (leaf : Nat → Nat → Outcome σ)

theorem inrOnly_map_inr' : ∀ (vs : List σ), inrOnly (vs.map fun v => (Sum.inr v : Sum (Nat × Nat) σ)) = vs
  | [] => rfl
  | v :: vs => by
    have := inrOnly_map_inr' vs
    simp only [inrOnly] at this
    simp [inrOnly, this]

theorem finish_lift (b : Bytes) (extType lp tp flags mfs : Nat) (offs : List Nat)
    (subsP : List (Sum (Nat × Nat) Nat)) (lP : ReadLookup Nat) (vs : List σ)
    (hsr : srAll posLeaf b extType tp lp offs = .ok subsP)
    (hfin : finishLookup posLeaf lp tp flags mfs offs subsP = .ok lP)
    (hl : liftSubs leaf lP.type lP.subs = .ok vs) :
    ∃ subsL, srAll leaf b extType tp lp offs = .ok subsL ∧
      finishLookup leaf lp tp flags mfs offs subsL = .ok ⟨lP.type, lP.flags, lP.mfs, vs⟩ := by
  by_cases hx : (tp == extType) = true
  · have htp : tp = extType := by simpa using hx
    subst htp
    obtain ⟨recs, rfl, hL⟩ := srAll_ext_shape leaf b tp lp offs subsP hsr
    refine ⟨recs.map .inl, hL, ?_⟩
    cases recs with
    | nil =>
      simp only [List.map_nil, finishLookup, inrOnly, List.filterMap_nil, Outcome.ok.injEq] at hfin
      subst hfin
      simp only [liftSubs, Outcome.ok.injEq] at hl
      subst hl
      simp [finishLookup, inrOnly]
    | cons r rs =>
      obtain ⟨et, eo⟩ := r
      simp only [List.map_cons, finishLookup] at hfin ⊢
      by_cases het : (et == tp) = true
      · rw [if_pos het] at hfin; simp at hfin
      · rw [if_neg het] at hfin ⊢
        cases h4 : resolveExt posLeaf lp et offs (.inl (et, eo) :: rs.map .inl) with
        | ok ps =>
          rw [h4] at hfin
          simp only [Outcome.ok.injEq] at hfin
          subst hfin
          have := resolveExt_lift leaf lp et offs ((et, eo) :: rs) ps vs (by simpa using h4) hl
          simp only [List.map_cons] at this
          rw [this]
        | err e => rw [h4] at hfin; simp at hfin
        | panic s => rw [h4] at hfin; simp at hfin
  · have hx' : (tp == extType) = false := by simpa using hx
    rw [srAll_plain b extType tp lp hx' offs] at hsr
    simp only [Outcome.ok.injEq] at hsr
    subst hsr
    have hP : finishLookup posLeaf lp tp flags mfs offs (offs.map fun o => Sum.inr (lp + o)) =
        .ok ⟨tp, flags, mfs, offs.map (lp + ·)⟩ := by
      cases offs with
      | nil => rfl
      | cons o os =>
        have := inrOnly_map lp (o :: os)
        simp only [List.map_cons] at this
        simp only [finishLookup, List.map_cons, this]
    rw [hP] at hfin
    simp only [Outcome.ok.injEq] at hfin
    subst hfin
    refine ⟨vs.map .inr, srAll_plain_lift leaf b extType tp lp hx' offs vs hl, ?_⟩
    cases vs with
    | nil => rfl
    | cons v vs' =>
      have := inrOnly_map_inr' (v :: vs')
      simp only [List.map_cons] at this
      simp only [finishLookup, List.map_cons, this]

theorem readLookups_lift (b : Bytes) (extType : Nat) : ∀ (lps : List Nat) (numL numS : Nat)
    (ps : List (ReadLookup Nat)) (ls : List (ReadLookup σ)),
    readLookups posLeaf b extType lps numL numS = .ok ps → liftLookups leaf ps = .ok ls →
    readLookups leaf b extType lps numL numS = .ok ls
  | [], _, _, ps, ls, h, hl => by
    simp only [readLookups, Outcome.ok.injEq] at h
    subst h
    simp only [liftLookups, Outcome.ok.injEq] at hl
    subst hl
    rfl
  | lp :: lps, numL, numS, ps, ls, h, hl => by
    simp only [readLookups] at h ⊢
    cases h1 : rdAtN b lp 3 with
    | ok ws =>
      rw [h1] at h
      obtain ⟨hlen, _⟩ := rdAtN_get b 3 _ ws h1
      match ws, hlen with
      | [tp, flags, cnt], _ =>
        simp only at h ⊢
        split at h
        · simp at h
        · rename_i hbud
          rw [if_neg hbud]
          cases h2 : rdAtN b (lp + 6) cnt with
          | ok offs =>
            rw [h2] at h
            simp only at h ⊢
            cases h3 : (if flags / 16 % 2 == 1 then rdAt b (lp + 6 + 2 * cnt) else Outcome.ok 0) with
            | ok mfs =>
              rw [h3] at h
              simp only at h ⊢
              cases h4 : srAll posLeaf b extType tp lp offs with
              | ok subsP =>
                rw [h4] at h
                simp only at h
                cases h5 : finishLookup posLeaf lp tp flags mfs offs subsP with
                | ok lP =>
                  rw [h5] at h
                  simp only at h
                  cases h6 : readLookups posLeaf b extType lps (numL + 1) (numS + cnt) with
                  | ok ps' =>
                    rw [h6] at h
                    simp only [Outcome.ok.injEq] at h
                    subst h
                    simp only [liftLookups] at hl
                    cases h7 : liftSubs leaf lP.type lP.subs with
                    | ok vs =>
                      rw [h7] at hl
                      cases h8 : liftLookups leaf ps' with
                      | ok ls' =>
                        rw [h8] at hl
                        simp only [Outcome.ok.injEq] at hl
                        subst hl
                        obtain ⟨subsL, g1, g2⟩ := finish_lift leaf b extType lp tp flags mfs offs subsP lP vs h4 h5 h7
                        simp only [g1, g2, readLookups_lift b extType lps _ _ ps' ls' h6 h8]
                      | err e => rw [h8] at hl; simp at hl
                      | panic s => rw [h8] at hl; simp at hl
                    | err e => rw [h7] at hl; simp at hl
                    | panic s => rw [h7] at hl; simp at hl
                  | err e => rw [h6] at h; simp at h
                  | panic s => rw [h6] at h; simp at h
                | err e => rw [h5] at h; simp at h
                | panic s => rw [h5] at h; simp at h
              | err e => rw [h4] at h; simp at h
              | panic s => rw [h4] at h; simp at h
            | err e => rw [h3] at h; simp at h
            | panic s => rw [h3] at h; simp at h
          | err e => rw [h2] at h; simp at h
          | panic s => rw [h2] at h; simp at h
    | err e => rw [h1] at h; simp at h
    | panic s => rw [h1] at h; simp at h

/-- **the model of the Go reader with a subtable reader** accepts what the specification reader finds
within the budget, provided the subtable reader succeeds at every position found -/
theorem readLLWith_accept (b : Bytes) (extType : Nat) (sl : List SpecLookup) (h : specRead b extType = some sl)
    (hb : budgetOk sl) (ps : List (ReadLookup Nat)) (hps : readLL b extType = .ok ps)
    (ls : List (ReadLookup σ)) (hl : liftLookups leaf ps = .ok ls) :
    readLLWith leaf b extType = .ok ls := by
  unfold readLL readLLWith at hps
  unfold readLLWith
  cases h0 : rdAt b 0 with
  | ok cnt =>
    rw [h0] at hps
    simp only at hps ⊢
    cases h1 : rdAtN b 2 cnt with
    | ok lps =>
      rw [h1] at hps
      simp only at hps ⊢
      exact readLookups_lift leaf b extType lps 0 0 ps ls hps hl
    | err e => rw [h1] at hps; simp at hps
    | panic s => rw [h1] at hps; simp at hps
  | err e => rw [h0] at hps; simp at hps
  | panic s => rw [h0] at hps; simp at hps

end lift2

end SfntV.Otl.LL

namespace SfntV.Otl.LL

/-- **completeness of the replacement loop of `tryReorder`**: if it gives up (the position of the
moved lookup is still above 0xFFFF), then it has gone through ALL other lookups - the smallest too -
and replaced every one that shrinks; so the layout with everything replaced is tried before refusing -/
theorem replLoop_complete (size newSize : Nat → Nat) : ∀ (ts : List Nat) (lastPos : Nat) (rep : List Nat),
    (replLoop size newSize ts lastPos rep).2 > 0xFFFF →
    (∀ t ∈ ts, newSize t < size t → t ∈ (replLoop size newSize ts lastPos rep).1) ∧
    (∀ t ∈ rep, t ∈ (replLoop size newSize ts lastPos rep).1)
  | [], _, rep, _ => ⟨by intro t ht; simp at ht, fun t ht => ht⟩
  | t :: ts, lastPos, rep, h => by
    simp only [replLoop] at h ⊢
    by_cases hp : lastPos > 0xFFFF
    · rw [if_pos hp] at h ⊢
      by_cases hs : newSize t < size t
      · rw [if_pos hs] at h ⊢
        obtain ⟨i1, i2⟩ := replLoop_complete size newSize ts _ (t :: rep) h
        refine ⟨?_, fun x hx => i2 x (by simp [hx])⟩
        intro x hx hsx
        rw [List.mem_cons] at hx
        rcases hx with rfl | hx
        · exact i2 x (by simp)
        · exact i1 x hx hsx
      · rw [if_neg hs] at h ⊢
        obtain ⟨i1, i2⟩ := replLoop_complete size newSize ts _ rep h
        refine ⟨?_, i2⟩
        intro x hx hsx
        rw [List.mem_cons] at hx
        rcases hx with rfl | hx
        · exact absurd hsx hs
        · exact i1 x hx hsx
    · rw [if_neg hp] at h
      exact absurd h hp

end SfntV.Otl.LL
