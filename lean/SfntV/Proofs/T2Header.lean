/-
Header of the charstring `(*Glyph).encodeCharString` emits (C04): width operand, stem chunks of at
most 24 pairs (23 pairs + width in the first chunk), hstem/vstem vs hstemhm/vstemhm, the omitted
vstem operator in front of a leading hintmask/cntrmask — run by the specification interpreter.
-/
import SfntV.Proofs.T2Glyph

set_option linter.unusedSimpArgs false
set_option linter.unusedVariables false

namespace SfntV.T2Enc
open SfntV SfntV.T2 SfntV.Spec.T2

/-! ### one stem operator -/

/-- what "v₀ v₁ … hstem" (`isV = false`) / "… vstem" means to the decoder in a state whose stack holds
only the pending width operand (if any): the width is taken, the edge pairs are declared -/
def stemDecl (env : Env) (isV : Bool) (s : St) (v : List Int) : St :=
  if isV then { widthDone env s with stage := 1, vstem := s.vstem ++ stemPairs 0 v }
  else { widthDone env s with stage := 1, hstem := s.hstem ++ stemPairs 0 v }

/-- the operator is a stem operator of the given direction -/
def stemOpOf (isV : Bool) (op : Op) : Prop :=
  (isV = false ∧ (op = .hstem ∨ op = .hstemhm)) ∨ (isV = true ∧ (op = .vstem ∨ op = .vstemhm))

theorem widthDone_fields (env : Env) (s : St) :
    (widthDone env s).stack = [] ∧ (widthDone env s).widthSet = true ∧
    (widthDone env s).moveErr = s.moveErr ∧ (widthDone env s).hasMoved = s.hasMoved ∧
    (widthDone env s).stage = s.stage ∧ (widthDone env s).hstem = s.hstem ∧
    (widthDone env s).vstem = s.vstem ∧ (widthDone env s).cmds = s.cmds := by
  simp only [widthDone]
  split <;> (try split) <;> exact ⟨rfl, rfl, rfl, rfl, rfl, rfl, rfl, rfl⟩

theorem exec_stem (env : Env) (isV : Bool) (op : Op) (hop : stemOpOf isV op) (s : St) (v : List Int)
    (rest : List Nat) (hp : PendOK s) (hst : s.stage ≤ 1) (hme : s.moveErr = false)
    (hv2 : 2 ≤ v.length) (hev : v.length % 2 = 0) :
    checkMove (T2.exec strict env { s with stack := s.stack ++ v } op rest) =
      .ok (.cont (stemDecl env isV s v) rest) := by
  have hng : ¬ s.stage > 1 := by omega
  have hodd : (v.length % 2 == 1) = false := by simp [hev]
  have hodd1 : ((v.length + 1) % 2 == 1) = true := by
    have : (v.length + 1) % 2 = 1 := by omega
    simp [this]
  have hme' : (stemDecl env isV s v).moveErr = false := by
    unfold stemDecl
    split <;> simp only [(widthDone_fields env s).2.2.1, hme]
  rw [show T2.exec strict env { s with stack := s.stack ++ v } op rest = .ok (.cont (stemDecl env isV s v) rest) from ?_]
  · exact checkMove_cont _ _ hme'
  rcases hp with h | ⟨wv, h, hw⟩
  · rcases hop with ⟨rfl, rfl | rfl⟩ | ⟨rfl, rfl | rfl⟩ <;>
      (by_cases hws : s.widthSet = true <;>
        simp [T2.exec, h, hng, setWidth, strict, stemDecl, widthDone, hodd, hev, hws,
          show ¬ v.length < 2 by omega])
  · rcases hop with ⟨rfl, rfl | rfl⟩ | ⟨rfl, rfl | rfl⟩ <;>
      simp [T2.exec, h, hw, hng, setWidth, strict, stemDecl, widthDone, hodd1, hev,
        show ¬ v.length + 1 < 2 by omega]

/-! ### the chunks of one stem list -/

/-- the operand lists of the chunks `stemListFuel` cuts a stem list into: at most
`(48 − extra) / 2` pairs in the first chunk, 24 pairs in the following ones -/
def stemChunksFuel (K : Nat) : Nat → Nat → List Int → List (List EncNum)
  | 0, _, _ => []
  | f + 1, extra, stems =>
    if stems.length == 0 then []
    else
      let k := min ((maxStack - extra) / 2) (stems.length / 2)
      stemChunkCodes K 0 (stems.take (2 * k)) :: stemChunksFuel K f 0 (stems.drop (2 * k))

theorem stemChunkCodes_length (K : Nat) (prev : Int) (l : List Int) :
    (stemChunkCodes K prev l).length = l.length := by
  induction l generalizing prev with
  | nil => rfl
  | cons x t ih => simp [stemChunkCodes, ih]

theorem stemChunksFuel_nil (K f extra : Nat) : stemChunksFuel K f extra [] = [] := by
  cases f <;> simp [stemChunksFuel]

theorem stemListFuel_nil (K : Nat) (op : Op) (isV mf : Bool) (f extra : Nat) :
    stemListFuel K op isV mf f extra [] = ([], extra) := by
  cases f <;> simp [stemListFuel]

theorem stemListFuel_extra0 (K : Nat) (op : Op) (isV mf : Bool) (f : Nat) (stems : List Int) :
    (stemListFuel K op isV mf f 0 stems).2 = 0 := by
  induction f generalizing stems with
  | zero => rfl
  | succ f ih =>
    simp only [stemListFuel]
    split
    · rfl
    · exact ih _

/-- `extra` after a stem list: the width operand is consumed by the first chunk -/
theorem stemListFuel_extra (K : Nat) (op : Op) (isV mf : Bool) (f extra : Nat) (stems : List Int) :
    (stemListFuel K op isV mf (f + 1) extra stems).2 = if stems.length = 0 then extra else 0 := by
  simp only [stemListFuel]
  by_cases h : stems.length = 0
  · simp [h]
  · simp only [h, beq_iff_eq, if_false]
    exact stemListFuel_extra0 K op isV mf f _

/-! ### a whole stem list -/

/-- the state the decoder is in after the chunks, each with its explicit stem operator -/
def declAll (env : Env) (isV : Bool) (s : St) (chunks : List (List EncNum)) : St :=
  chunks.foldl (fun s c => stemDecl env isV s (vals c)) s

/-- states in front of / between stem operators -/
def HintReady (s : St) : Prop := PendOK s ∧ s.stage ≤ 1 ∧ s.moveErr = false

theorem hintReady_stemDecl (env : Env) (isV : Bool) (s : St) (v : List Int) (h : HintReady s) :
    HintReady (stemDecl env isV s v) ∧ (stemDecl env isV s v).stack = [] := by
  obtain ⟨f1, f2, f3, f4, f5, f6, f7, f8⟩ := widthDone_fields env s
  unfold stemDecl
  split
  · exact ⟨⟨Or.inl f1, Nat.le_refl _, by simp only [f3, h.2.2]⟩, f1⟩
  · exact ⟨⟨Or.inl f1, Nat.le_refl _, by simp only [f3, h.2.2]⟩, f1⟩

/-- where the header bytes of one stem list lead: to the state `X` after all chunks (`om = false`, or
no chunk at all), or — the encoder left out the last vstem(hm) operator because a mask follows — to a
state whose stack still holds the operands of the last chunk; executing the operator there gives `X` -/
def ListEnd (env : Env) (isV om : Bool) (s : St) (chunks : List (List EncNum)) (sEnd : St) : Prop :=
  ((om = false ∨ chunks = []) → sEnd = declAll env isV s chunks) ∧
  (om = true → chunks ≠ [] → ∃ sL c, HintReady sL ∧ 2 ≤ c.length ∧ c.length % 2 = 0 ∧
      sL.stack.length + c.length ≤ 48 ∧ sEnd = { sL with stack := sL.stack ++ c } ∧
      stemDecl env isV sL c = declAll env isV s chunks)

theorem stemList_reaches (env : Env) (K : Nat) (op : Op) (isV mf : Bool) (hop : stemOpOf isV op) :
    ∀ (f extra : Nat) (stems : List Int) (s : St) (rest : List Nat),
      stems.length < f → stems.length % 2 = 0 → HintReady s → extra = s.stack.length →
      (∀ c ∈ stemChunksFuel K f extra stems, ∀ a ∈ c, Decodes a) →
      ∃ sEnd, Reaches strict env s ((stemListFuel K op isV mf f extra stems).1 ++ rest) sEnd rest ∧
        ListEnd env isV (isV && mf) s (stemChunksFuel K f extra stems) sEnd := by
  intro f
  induction f with
  | zero => intro extra stems s rest h; omega
  | succ f ih =>
    intro extra stems s rest hf hev hr hex hdec
    by_cases h0 : stems.length = 0
    · have : stems = [] := List.eq_nil_of_length_eq_zero h0
      subst this
      rw [stemListFuel_nil, stemChunksFuel_nil]
      exact ⟨s, by simpa using Reaches.refl s rest, fun _ => rfl, fun _ h => absurd rfl h⟩
    · have hex1 : extra ≤ 1 := by
        rcases hr.1 with h | ⟨wv, h, _⟩ <;> simp [hex, h]
      have hlen2 : 2 ≤ stems.length := by omega
      simp only [stemListFuel, stemChunksFuel, h0, beq_iff_eq, if_false] at hdec ⊢
      obtain ⟨k, hk⟩ : ∃ k, k = min ((maxStack - extra) / 2) (stems.length / 2) := ⟨_, rfl⟩
      rw [← hk] at hdec ⊢
      rw [maxStack_48] at hk
      have hk1 : 1 ≤ k := by omega
      have hk2 : 2 * k ≤ stems.length := by omega
      have hk3 : extra + 2 * k ≤ 48 := by omega
      have hcl : (stemChunkCodes K 0 (stems.take (2 * k))).length = 2 * k := by
        rw [stemChunkCodes_length, List.length_take]; omega
      obtain ⟨c, hc⟩ : ∃ c, c = stemChunkCodes K 0 (stems.take (2 * k)) := ⟨_, rfl⟩
      rw [← hc] at hdec hcl ⊢
      have hdc : ∀ a ∈ c, Decodes a := hdec c List.mem_cons_self
      -- the operands of the chunk
      have hpush := fun tl => reaches_push strict env c hdc s tl (by omega)
      have hrl : (stems.drop (2 * k)).length = stems.length - 2 * k := List.length_drop
      by_cases hom : (isV && (stems.drop (2 * k)).length == 0 && mf) = true
      · -- last chunk of the vstems, operator omitted
        simp only [hom, if_true, List.append_nil]
        have hrest : stems.drop (2 * k) = [] := by
          simp only [Bool.and_eq_true, beq_iff_eq] at hom
          exact List.eq_nil_of_length_eq_zero hom.1.2
        rw [hrest, stemListFuel_nil, stemChunksFuel_nil]
        simp only [List.append_nil]
        have hv : isV = true ∧ mf = true := by
          simp only [Bool.and_eq_true, beq_iff_eq] at hom
          exact ⟨hom.1.1, hom.2⟩
        refine ⟨_, hpush rest, fun h => ?_, fun _ _ => ⟨s, vals c, hr, ?_, ?_, ?_, rfl, ?_⟩⟩
        · rcases h with h | h
          · simp [hv.1, hv.2] at h
          · cases h
        · simp [vals]; omega
        · simp [vals]; omega
        · simp [vals]; omega
        · simp [declAll]
      · -- chunk with its operator
        have hom' : (isV && (stems.drop (2 * k)).length == 0 && mf) = false := by simpa using hom
        simp only [hom', Bool.false_eq_true, if_false]
        have hstep : Reaches strict env { s with stack := s.stack ++ vals c }
            (opBytes op ++ ((stemListFuel K op isV mf f 0 (stems.drop (2 * k))).1 ++ rest))
            (stemDecl env isV s (vals c)) ((stemListFuel K op isV mf f 0 (stems.drop (2 * k))).1 ++ rest) := by
          refine Reaches.single ?_ (by have := opBytes_pos op; simp only [List.length_append]; omega)
          rw [step_op env _ op _ (by simp [vals]; omega)]
          exact exec_stem env isV op hop s (vals c) _ hr.1 hr.2.1 hr.2.2 (by simp [vals]; omega) (by simp [vals]; omega)
        obtain ⟨hr1, hs1⟩ := hintReady_stemDecl env isV s (vals c) hr
        obtain ⟨sEnd, k1, k2⟩ := ih 0 (stems.drop (2 * k)) (stemDecl env isV s (vals c)) rest (by omega) (by omega)
          hr1 (by rw [hs1]; rfl) (fun c' hc' => hdec c' (List.mem_cons_of_mem _ hc'))
        refine ⟨sEnd, ?_, ?_, ?_⟩
        · have := (hpush _).trans (hstep.trans k1)
          simpa [List.append_assoc] using this
        · intro h
          rcases h with h | h
          · rw [k2.1 (Or.inl h)]; rfl
          · cases h
        · intro ho _
          by_cases hne : stemChunksFuel K f 0 (stems.drop (2 * k)) = []
          · -- then the rest is empty and the operator would have been omitted
            exfalso
            have hrest : (stems.drop (2 * k)).length = 0 := by
              cases f with
              | zero => omega
              | succ f' =>
                simp only [stemChunksFuel] at hne
                split at hne
                · rename_i hz; simpa using hz
                · cases hne
            simp only [Bool.and_eq_true] at ho
            simp [ho.1, ho.2, hrest] at hom'
          · obtain ⟨sL, cL, a1, a2, a3, a4, a5, a6⟩ := k2.2 ho hne
            exact ⟨sL, cL, a1, a2, a3, a4, a5, by rw [a6]; rfl⟩

/-! ### the whole header -/

/-- the first command is a hintmask/cntrmask -/
def maskFirst : List InCmd → Bool
  | c :: _ => isMask c
  | [] => false

/-- 1 if a width operand is written -/
def widthExtra (env : Env) (K : Nat) (w : Int) : Nat := if w != env.defaultWidth * 2 ^ (K - 16) then 1 else 0

/-- the operand chunks of the hstem list -/
def hChunks (env : Env) (K : Nat) (w : Int) (hs : List Int) : List (List EncNum) :=
  stemChunksFuel K (hs.length + 1) (widthExtra env K w) hs

/-- the operand chunks of the vstem list (the width operand goes into its first chunk if there are no hstems) -/
def vChunks (env : Env) (K : Nat) (w : Int) (hs vs : List Int) : List (List EncNum) :=
  stemChunksFuel K (vs.length + 1) (if hs.length = 0 then widthExtra env K w else 0) vs

/-- the decoder's state after the hstem section -/
def hState (env : Env) (K : Nat) (w : Int) (hs : List Int) : St :=
  declAll env false (startState env K w) (hChunks env K w hs)

/-- the decoder's state after the header (all stem operators written out) -/
def hdrState (env : Env) (K : Nat) (w : Int) (hs vs : List Int) : St :=
  declAll env true (hState env K w hs) (vChunks env K w hs vs)

theorem hintReady_declAll (env : Env) (isV : Bool) (s : St) (chunks : List (List EncNum)) (h : HintReady s) :
    HintReady (declAll env isV s chunks) ∧ (chunks ≠ [] → (declAll env isV s chunks).stack = []) := by
  induction chunks generalizing s with
  | nil => exact ⟨h, fun h => absurd rfl h⟩
  | cons c t ih =>
    obtain ⟨h1, h2⟩ := hintReady_stemDecl env isV s (vals c) h
    obtain ⟨i1, i2⟩ := ih (stemDecl env isV s (vals c)) h1
    refine ⟨i1, fun _ => ?_⟩
    by_cases ht : t = []
    · subst ht; exact h2
    · exact i2 ht

theorem startState_ready (env : Env) (K : Nat) (w : Int) :
    HintReady (startState env K w) ∧ (startState env K w).stack.length = widthExtra env K w := by
  unfold startState widthExtra
  split
  · exact ⟨⟨Or.inr ⟨_, rfl, rfl⟩, Nat.zero_le _, rfl⟩, rfl⟩
  · exact ⟨⟨Or.inl rfl, Nat.zero_le _, rfl⟩, rfl⟩

theorem stemChunksFuel_ne_nil (K f extra : Nat) (stems : List Int) (h : stems.length ≠ 0) :
    stemChunksFuel K (f + 1) extra stems ≠ [] := by
  simp [stemChunksFuel, h]

/-- C04_header, operational form: the header bytes of `encodeCharString` (everything in front of the path
section `pb`) lead the specification interpreter from its initial state to `hdrState` — or, when the
last vstem(hm) operator was left out in front of a leading mask, to the state `ListEnd` describes. -/
theorem header_reaches (env : Env) (K : Nat) (w : Int) (hs vs : List Int) (cmds : List InCmd)
    (paths : List (List (Nat × Op))) (bytes : List Nat)
    (h : encodeCharString K w hs vs cmds env.defaultWidth env.nominalWidth paths = some bytes)
    (hw : w ≠ env.defaultWidth * 2 ^ (K - 16) → Decodes (encNum (w - env.nominalWidth * 2 ^ (K - 16)) K))
    (hdh : ∀ c ∈ hChunks env K w hs, ∀ a ∈ c, Decodes a)
    (hdv : ∀ c ∈ vChunks env K w hs vs, ∀ a ∈ c, Decodes a) :
    ∃ pb sHdr, encodePaths (encodeArgs K cmds) paths = some pb ∧
      hs.length % 2 = 0 ∧ vs.length % 2 = 0 ∧
      Reaches strict env (St.init env) bytes sHdr pb ∧
      ListEnd env true (maskFirst cmds) (hState env K w hs) (vChunks env K w hs vs) sHdr := by
  unfold encodeCharString at h
  simp only at h
  split at h
  · cases h
  rename_i hpar
  have hpar' : hs.length % 2 = 0 ∧ vs.length % 2 = 0 := by
    simp only [bne_iff_ne, ne_eq, Bool.or_eq_true, not_or, Decidable.not_not] at hpar
    exact hpar
  cases hp : encodePaths (encodeArgs K cmds) paths with
  | none => rw [hp] at h; cases h
  | some pb =>
    rw [hp] at h
    simp only [Option.map_some, Option.some.injEq] at h
    refine ⟨pb, ?_⟩
    obtain ⟨hr0, hx0⟩ := startState_ready env K w
    -- width operand
    have hW : Reaches strict env (St.init env)
        ((if w != env.defaultWidth * 2 ^ (K - 16) then (encNum (w - env.nominalWidth * 2 ^ (K - 16)) K).code else []) ++
          ((stemListFuel K (if cmds.any isMask then .hstemhm else .hstem) false (maskFirst cmds) (hs.length + 1)
            (widthExtra env K w) hs).1 ++
           ((stemListFuel K (if cmds.any isMask then .vstemhm else .vstem) true (maskFirst cmds) (vs.length + 1)
            (stemListFuel K (if cmds.any isMask then .hstemhm else .hstem) false (maskFirst cmds) (hs.length + 1)
              (widthExtra env K w) hs).2 vs).1 ++ pb)))
        (startState env K w)
        ((stemListFuel K (if cmds.any isMask then .hstemhm else .hstem) false (maskFirst cmds) (hs.length + 1)
            (widthExtra env K w) hs).1 ++
           ((stemListFuel K (if cmds.any isMask then .vstemhm else .vstem) true (maskFirst cmds) (vs.length + 1)
            (stemListFuel K (if cmds.any isMask then .hstemhm else .hstem) false (maskFirst cmds) (hs.length + 1)
            (widthExtra env K w) hs).2 vs).1 ++ pb)) := by
      by_cases hwd : w = env.defaultWidth * 2 ^ (K - 16)
      · have hs0 : startState env K w = St.init env := by simp [startState, hwd]
        rw [hs0]
        simp only [hwd, bne_self_eq_false, Bool.false_eq_true, if_false, List.nil_append]
        exact Reaches.refl _ _
      · have hne : (w != env.defaultWidth * 2 ^ (K - 16)) = true := by simpa using hwd
        simp only [hne, if_true]
        have h1 := reaches_push strict env [encNum (w - env.nominalWidth * 2 ^ (K - 16)) K]
          (by intro a ha; simp at ha; subst ha; exact hw hwd) (St.init env) 
          ((stemListFuel K (if cmds.any isMask then .hstemhm else .hstem) false (maskFirst cmds) (hs.length + 1)
            (widthExtra env K w) hs).1 ++
           ((stemListFuel K (if cmds.any isMask then .vstemhm else .vstem) true (maskFirst cmds) (vs.length + 1)
            (stemListFuel K (if cmds.any isMask then .hstemhm else .hstem) false (maskFirst cmds) (hs.length + 1)
              (widthExtra env K w) hs).2 vs).1 ++ pb)) (by simp [St.init])
        simp only [List.flatMap_cons, List.flatMap_nil, List.append_nil, vals, List.map_cons, List.map_nil] at h1
        have hs0 : startState env K w =
            { St.init env with stack := (St.init env).stack ++ [(encNum (w - env.nominalWidth * 2 ^ (K - 16)) K).val] } := by
          simp [startState, hne, St.init]
        rw [hs0]
        exact h1
    have hopH : stemOpOf false (if cmds.any isMask then Op.hstemhm else Op.hstem) := by
      left; refine ⟨rfl, ?_⟩; split <;> simp
    have hopV : stemOpOf true (if cmds.any isMask then Op.vstemhm else Op.vstem) := by
      right; refine ⟨rfl, ?_⟩; split <;> simp
    obtain ⟨sH, kH1, kH2⟩ := stemList_reaches env K _ false (maskFirst cmds) hopH (hs.length + 1) (widthExtra env K w) hs
      (startState env K w)
      ((stemListFuel K (if cmds.any isMask then .vstemhm else .vstem) true (maskFirst cmds) (vs.length + 1)
            (stemListFuel K (if cmds.any isMask then .hstemhm else .hstem) false (maskFirst cmds) (hs.length + 1)
              (widthExtra env K w) hs).2 vs).1 ++ pb)
      (by omega) hpar'.1 hr0 hx0.symm hdh
    have hsH : sH = hState env K w hs := kH2.1 (Or.inl rfl)
    subst hsH
    obtain ⟨hrH, hstH⟩ := hintReady_declAll env false (startState env K w) (hChunks env K w hs) hr0
    have hexV : (stemListFuel K (if cmds.any isMask then .hstemhm else .hstem) false (maskFirst cmds) (hs.length + 1)
              (widthExtra env K w) hs).2 = (hState env K w hs).stack.length ∧
        (stemListFuel K (if cmds.any isMask then .hstemhm else .hstem) false (maskFirst cmds) (hs.length + 1)
              (widthExtra env K w) hs).2 = (if hs.length = 0 then widthExtra env K w else 0) := by
      rw [stemListFuel_extra]
      refine ⟨?_, rfl⟩
      by_cases hh : hs.length = 0
      · have : hs = [] := List.eq_nil_of_length_eq_zero hh
        subst this
        simp only [hState, hChunks, stemChunksFuel_nil, declAll, List.foldl_nil, List.length_nil, if_true, hx0]
      · simp only [hh, if_false]
        have := hstH (stemChunksFuel_ne_nil K hs.length _ hs hh)
        unfold hState
        rw [this]
        rfl
    obtain ⟨sV, kV1, kV2⟩ := stemList_reaches env K _ true (maskFirst cmds) hopV (vs.length + 1) _ vs
      (hState env K w hs) pb (by omega) hpar'.2 hrH hexV.1 (by rw [hexV.2]; exact hdv)
    refine ⟨sV, rfl, hpar'.1, hpar'.2, ?_, ?_⟩
    · rw [← h]
      have := hW.trans (kH1.trans kV1)
      cases cmds <;> simpa [List.append_assoc, maskFirst, widthExtra] using this
    · rw [hexV.2] at kV2
      simpa [vChunks] using kV2

/-! ### what the header state holds -/

/-- the stem edges the decoder declares for a list of operand chunks: every chunk starts again from 0,
the edges are the running sums of the chunk's deltas -/
def decStems (chunks : List (List EncNum)) : List Int := chunks.flatMap (fun c => stemPairs 0 (vals c))

theorem stemDecl_fields (env : Env) (isV : Bool) (s : St) (v : List Int) :
    (stemDecl env isV s v).hasMoved = s.hasMoved ∧ (stemDecl env isV s v).cmds = s.cmds ∧
    (stemDecl env isV s v).hstem = s.hstem ++ (if isV then [] else stemPairs 0 v) ∧
    (stemDecl env isV s v).vstem = s.vstem ++ (if isV then stemPairs 0 v else []) ∧
    (stemDecl env isV s v).stage = 1 ∧
    (widthDone env (stemDecl env isV s v)).width = (widthDone env s).width := by
  obtain ⟨f1, f2, f3, f4, f5, f6, f7, f8⟩ := widthDone_fields env s
  cases isV
  · refine ⟨f4, f8, by simp [stemDecl], by simp [stemDecl, f7], rfl, ?_⟩
    rw [widthDone_id env _ (by simpa [stemDecl] using f1) (by simpa [stemDecl] using f2)]
    simp [stemDecl]
  · refine ⟨f4, f8, by simp [stemDecl, f6], by simp [stemDecl], rfl, ?_⟩
    rw [widthDone_id env _ (by simpa [stemDecl] using f1) (by simpa [stemDecl] using f2)]
    simp [stemDecl]

theorem declAll_fields (env : Env) (isV : Bool) (s : St) (chunks : List (List EncNum)) :
    (declAll env isV s chunks).hasMoved = s.hasMoved ∧ (declAll env isV s chunks).cmds = s.cmds ∧
    (declAll env isV s chunks).hstem = s.hstem ++ (if isV then [] else decStems chunks) ∧
    (declAll env isV s chunks).vstem = s.vstem ++ (if isV then decStems chunks else []) ∧
    (chunks ≠ [] → (declAll env isV s chunks).stage = 1) ∧
    (widthDone env (declAll env isV s chunks)).width = (widthDone env s).width := by
  induction chunks generalizing s with
  | nil => simp [declAll, decStems]
  | cons c t ih =>
    obtain ⟨a1, a2, a3, a4, a5, a6⟩ := stemDecl_fields env isV s (vals c)
    obtain ⟨b1, b2, b3, b4, b5, b6⟩ := ih (stemDecl env isV s (vals c))
    have hd : declAll env isV s (c :: t) = declAll env isV (stemDecl env isV s (vals c)) t := rfl
    rw [hd]
    refine ⟨by rw [b1, a1], by rw [b2, a2], ?_, ?_, fun _ => ?_, by rw [b6, a6]⟩
    · rw [b3, a3]; cases isV <;> simp [decStems]
    · rw [b4, a4]; cases isV <;> simp [decStems]
    · by_cases ht : t = []
      · subst ht; exact a5
      · exact b5 ht

theorem stemPairs_length (p : Int) (v : List Int) : (stemPairs p v).length = 2 * (v.length / 2) := by
  fun_induction stemPairs p v with
  | case1 prev a b t ih => simp only [List.length_cons, ih]; omega
  | case2 l prev hl =>
    match l, hl with
    | [], _ => rfl
    | [a], _ => simp
    | a :: b :: t, hl => exact absurd rfl (hl a b t)

/-- the decoder declares as many stem edges as the glyph has -/
theorem decStems_length (K : Nat) : ∀ (f extra : Nat) (stems : List Int), stems.length < f →
    stems.length % 2 = 0 → extra ≤ 1 → (decStems (stemChunksFuel K f extra stems)).length = stems.length := by
  intro f
  induction f with
  | zero => intro extra stems h; omega
  | succ f ih =>
    intro extra stems hf hev hex
    by_cases h0 : stems.length = 0
    · have : stems = [] := List.eq_nil_of_length_eq_zero h0
      subst this
      simp [stemChunksFuel, decStems]
    · simp only [stemChunksFuel, h0, beq_iff_eq, if_false]
      obtain ⟨k, hk⟩ : ∃ k, k = min ((maxStack - extra) / 2) (stems.length / 2) := ⟨_, rfl⟩
      rw [← hk]
      rw [maxStack_48] at hk
      have hk1 : 1 ≤ k := by omega
      have hk2 : 2 * k ≤ stems.length := by omega
      have hrl : (stems.drop (2 * k)).length = stems.length - 2 * k := List.length_drop
      have := ih 0 (stems.drop (2 * k)) (by omega) (by omega) (by omega)
      simp only [decStems, List.flatMap_cons, List.length_append] at this ⊢
      rw [this, stemPairs_length]
      simp only [vals, List.length_map, stemChunkCodes_length, List.length_take]
      omega

theorem hdrState_fields (env : Env) (K : Nat) (w : Int) (hs vs : List Int) :
    (hdrState env K w hs vs).hasMoved = false ∧ (hdrState env K w hs vs).cmds = [] ∧
    (hdrState env K w hs vs).hstem = decStems (hChunks env K w hs) ∧
    (hdrState env K w hs vs).vstem = decStems (vChunks env K w hs vs) ∧
    ((hs.length ≠ 0 ∨ vs.length ≠ 0) → (hdrState env K w hs vs).stage = 1) ∧
    (widthDone env (hdrState env K w hs vs)).width =
      (if w = env.defaultWidth * 2 ^ (K - 16) then env.defaultWidth
       else (encNum (w - env.nominalWidth * 2 ^ (K - 16)) K).val + env.nominalWidth) := by
  obtain ⟨a1, a2, a3, a4, a5, a6⟩ := declAll_fields env false (startState env K w) (hChunks env K w hs)
  obtain ⟨b1, b2, b3, b4, b5, b6⟩ := declAll_fields env true (hState env K w hs) (vChunks env K w hs vs)
  have s1 : (startState env K w).hasMoved = false ∧ (startState env K w).cmds = [] ∧
      (startState env K w).hstem = [] ∧ (startState env K w).vstem = [] := by
    unfold startState; split <;> exact ⟨rfl, rfl, rfl, rfl⟩
  unfold hdrState
  refine ⟨by rw [b1]; unfold hState; rw [a1, s1.1], by rw [b2]; unfold hState; rw [a2, s1.2.1], ?_, ?_, ?_, ?_⟩
  · rw [b3]; unfold hState; rw [a3, s1.2.2.1]; simp
  · rw [b4]; unfold hState; rw [a4, s1.2.2.2]; simp
  · intro h
    by_cases hv : vs.length = 0
    · have hh : hs.length ≠ 0 := by omega
      have : vs = [] := List.eq_nil_of_length_eq_zero hv
      subst this
      simp only [vChunks, stemChunksFuel_nil, declAll, List.foldl_nil]
      exact a5 (stemChunksFuel_ne_nil K _ _ hs hh)
    · exact b5 (stemChunksFuel_ne_nil K _ _ vs hv)
  · rw [b6]; unfold hState; rw [a6]
    by_cases hw : w = env.defaultWidth * 2 ^ (K - 16)
    · simp [startState, hw, widthDone, T2.St.init]
    · have : (w != env.defaultWidth * 2 ^ (K - 16)) = true := by simpa using hw
      simp [startState, this, hw, widthDone, T2.St.init]

/-- Chunk sizes: every stem chunk has an even number ≥ 2 of operands, at most 48 — a TN5177-legal operand
count for hstem/vstem/hstemhm/vstemhm — and the first chunk leaves room for the width operand
(`extra`): at most 23 pairs next to a width. -/
theorem stemChunks_sizes (K : Nat) : ∀ (f extra : Nat) (stems : List Int), stems.length < f →
    stems.length % 2 = 0 → extra ≤ 1 →
    (∀ c ∈ stemChunksFuel K f extra stems, 2 ≤ c.length ∧ c.length % 2 = 0 ∧ c.length ≤ 48 ∧
      legalCount .hstem c.length = true ∧ legalCount .vstemhm c.length = true) ∧
    (∀ c t, stemChunksFuel K f extra stems = c :: t → c.length + extra ≤ 48) := by
  intro f
  induction f with
  | zero => intro extra stems h; omega
  | succ f ih =>
    intro extra stems hf hev hex
    by_cases h0 : stems.length = 0
    · have : stems = [] := List.eq_nil_of_length_eq_zero h0
      subst this
      simp [stemChunksFuel]
    · simp only [stemChunksFuel, h0, beq_iff_eq, if_false]
      obtain ⟨k, hk⟩ : ∃ k, k = min ((maxStack - extra) / 2) (stems.length / 2) := ⟨_, rfl⟩
      rw [← hk]
      rw [maxStack_48] at hk
      have hk1 : 1 ≤ k := by omega
      have hk2 : 2 * k ≤ stems.length := by omega
      have hcl : (stemChunkCodes K 0 (stems.take (2 * k))).length = 2 * k := by
        rw [stemChunkCodes_length, List.length_take]; omega
      have hrl : (stems.drop (2 * k)).length = stems.length - 2 * k := List.length_drop
      have hrest := (ih 0 (stems.drop (2 * k)) (by omega) (by omega) (by omega)).1
      constructor
      · intro c hc
        rcases List.mem_cons.mp hc with rfl | hc
        · rw [hcl]
          refine ⟨by omega, by omega, by omega, ?_, ?_⟩ <;>
            simp only [legalCount, Bool.and_eq_true, decide_eq_true_eq, beq_iff_eq] <;> omega
        · exact hrest c hc
      · intro c t hct
        simp only [List.cons.injEq] at hct
        rw [← hct.1, hcl]
        omega

end SfntV.T2Enc
