/-
C02 (decoders are total), group `chainctx`: facts about the basic loops of the checked-index model
`SfntV.Total.ChainCtx` (`wordsLoop`, `readSlice`, `readNested`, `readCRule`): no panic, and what a
successful run returns and costs.
-/
import SfntV.Model.TotalChainCtx
import SfntV.Proofs.TotalOtl
import SfntV.Proofs.OtlCoverage

namespace SfntV.Total.ChainCtx
open SfntV SfntV.Total SfntV.Total.Gdef SfntV.Total.Otl

/-! ## basic loops: no panic, and what a successful run returns -/

theorem wordsLoop_noPanic (site : String) (b : Bytes) : ∀ (n q : Nat) (acc : List Nat) (c : Cost),
    (wordsLoop site b n q acc c).noPanic
  | 0, _, _, _ => True.intro
  | n+1, q, acc, c => by
    unfold wordsLoop
    exact bind_noPanic (readU16_noPanic _ _ _) (fun v _ => wordsLoop_noPanic site b n _ _ _)

theorem wordsLoop_ok (site : String) (b : Bytes) : ∀ (n q : Nat) (acc : List Nat) (c : Cost)
    (xs : List Nat) (c' : Cost), wordsLoop site b n q acc c = .ok (xs, c') →
    xs.length = acc.length + n ∧ c'.steps = c.steps + n ∧ c'.alloc = c.alloc ∧
      (n = 0 ∨ q + 2 * n ≤ b.length)
  | 0, _, acc, c, xs, c', h => by
    unfold wordsLoop at h
    cases h
    simp
  | n+1, q, acc, c, xs, c', h => by
    unfold wordsLoop at h
    obtain ⟨v, hv, h⟩ := bind_eq_ok h
    obtain ⟨_, _, hq⟩ := readU16_ok hv
    have ih := wordsLoop_ok site b n _ _ _ _ _ h
    simp only [List.length_cons, Cost.tick] at ih
    omega

theorem readSlice_noPanic (tag : String) (b : Bytes) (q : Nat) (c : Cost) :
    (readSlice tag b q c).noPanic := by
  unfold readSlice
  refine bind_noPanic (readU16_noPanic _ _ _) (fun n hn => ?_)
  obtain ⟨_, hlt, _⟩ := readU16_ok hn
  rw [mkSlice_ok _ _ _ hlt, ok_bind]
  refine bind_noPanic (wordsLoop_noPanic _ _ _ _ _ _) (fun r _ => ?_)
  exact True.intro

theorem readSlice_ok {tag : String} {b : Bytes} {q : Nat} {c : Cost} {xs : List Nat} {q' : Nat}
    {c' : Cost} (h : readSlice tag b q c = .ok (xs, q', c')) :
    q' = q + 2 + 2 * xs.length ∧ q' ≤ b.length ∧ xs.length < 65536 ∧
      c'.steps = c.steps + 1 + xs.length ∧ c'.alloc = c.alloc + xs.length := by
  unfold readSlice at h
  obtain ⟨n, hn, h⟩ := bind_eq_ok h
  obtain ⟨_, hlt, hq⟩ := readU16_ok hn
  rw [mkSlice_ok _ _ _ hlt, ok_bind] at h
  obtain ⟨⟨ys, c1⟩, hw, h⟩ := bind_eq_ok h
  cases h
  have := wordsLoop_ok _ b n _ _ _ _ _ hw
  simp only [List.length_nil, Cost.tick, Cost.mem] at this
  omega

theorem nestedLoop_noPanic (b : Bytes) : ∀ (n q : Nat) (acc : List Action) (c : Cost),
    (nestedLoop b n q acc c).noPanic
  | 0, _, _, _ => True.intro
  | n+1, q, acc, c => by
    unfold nestedLoop
    refine bind_noPanic (readBytes_noPanic _ _ _ _ (by omega)) (fun buf hbuf => ?_)
    obtain ⟨hl, _⟩ := readBytes_ok_length hbuf
    obtain ⟨s, hs, _⟩ := w16_ok "nested.go:40#buf[0],buf[1]" buf 0 (by omega)
    obtain ⟨l, hl', _⟩ := w16_ok "nested.go:41#buf[2],buf[3]" buf 2 (by omega)
    rw [hs, ok_bind, hl', ok_bind]
    exact nestedLoop_noPanic b n _ _ _

theorem nestedLoop_ok (b : Bytes) : ∀ (n q : Nat) (acc : List Action) (c : Cost)
    (xs : List Action) (c' : Cost), nestedLoop b n q acc c = .ok (xs, c') →
    xs.length = acc.length + n ∧ c'.steps = c.steps + n ∧ c'.alloc = c.alloc ∧
      (n = 0 ∨ q + 4 * n ≤ b.length)
  | 0, _, acc, c, xs, c', h => by
    unfold nestedLoop at h
    cases h
    simp
  | n+1, q, acc, c, xs, c', h => by
    unfold nestedLoop at h
    obtain ⟨buf, hbuf, h⟩ := bind_eq_ok h
    obtain ⟨_, hq⟩ := readBytes_ok_length hbuf
    obtain ⟨s, _, h⟩ := bind_eq_ok h
    obtain ⟨l, _, h⟩ := bind_eq_ok h
    have ih := nestedLoop_ok b n _ _ _ _ _ h
    simp only [List.length_cons, Cost.tick] at ih
    omega

theorem readNested_noPanic (b : Bytes) (q n : Nat) (c : Cost) (hn : n < 65536) :
    (readNested b q n c).noPanic := by
  unfold readNested
  rw [mkSlice_ok _ _ _ hn, ok_bind]
  exact nestedLoop_noPanic b n _ _ _

theorem readNested_ok {b : Bytes} {q n : Nat} {c : Cost} {xs : List Action} {c' : Cost}
    (hn : n < 65536) (h : readNested b q n c = .ok (xs, c')) :
    xs.length = n ∧ c'.steps = c.steps + n ∧ c'.alloc = c.alloc + n ∧ (n = 0 ∨ q + 4 * n ≤ b.length) := by
  unfold readNested at h
  rw [mkSlice_ok _ _ _ hn, ok_bind] at h
  have := nestedLoop_ok b n _ _ _ _ _ h
  simp only [List.length_nil, Cost.mem] at this
  omega

theorem readCRuleG_noPanic (fixed : Bool) (S : RuleSites) (b : Bytes) (q : Nat) (c : Cost) :
    (readCRuleG fixed S b q c).noPanic := by
  unfold readCRuleG
  refine bind_noPanic (readSlice_noPanic _ _ _ _) (fun r1 _ => ?_)
  obtain ⟨back, q1, c1⟩ := r1
  dsimp only
  refine bind_noPanic (readU16_noPanic _ _ _) (fun igc _ => ?_)
  split
  · exact True.intro
  have hm : (igc + 65535) % 65536 < 65536 := by omega
  revert hm
  generalize (igc + 65535) % 65536 = n
  intro hm
  rw [mkSlice_ok _ _ _ hm, ok_bind]
  refine bind_noPanic (wordsLoop_noPanic _ _ _ _ _ _) (fun r2 _ => ?_)
  obtain ⟨input, c2⟩ := r2
  dsimp only
  refine bind_noPanic (readSlice_noPanic _ _ _ _) (fun r3 _ => ?_)
  obtain ⟨look, q3, c3⟩ := r3
  dsimp only
  refine bind_noPanic (readU16_noPanic _ _ _) (fun slc hslc => ?_)
  obtain ⟨_, hlt, _⟩ := readU16_ok hslc
  refine bind_noPanic (readNested_noPanic _ _ _ _ hlt) (fun r4 _ => ?_)
  exact True.intro

theorem readCRule_noPanic (S : RuleSites) (b : Bytes) (q : Nat) (c : Cost) :
    (readCRule S b q c).noPanic := readCRuleG_noPanic true S b q c

/-- a successfully read rule lies inside the data, and costs half its encoded length -/
theorem readCRuleG_ok {fixed : Bool} {S : RuleSites} {b : Bytes} {q : Nat} {c : Cost} {r : Rule} {c' : Cost}
    (h : readCRuleG fixed S b q c = .ok (r, c')) :
    q + SfntV.Otl.Ctx.cruleLen r ≤ b.length ∧
      c'.steps = c.steps + 4 + r.back.length + r.input.length + r.look.length + r.actions.length ∧
      c'.alloc = c.alloc + 1 + r.back.length + r.input.length + r.look.length + r.actions.length := by
  unfold readCRuleG at h
  obtain ⟨⟨back, q1, c1⟩, h1, h⟩ := bind_eq_ok h
  dsimp only at h
  obtain ⟨igc, higc, h⟩ := bind_eq_ok h
  obtain ⟨_, _, hq1⟩ := readU16_ok higc
  split at h
  · cases h
  have hm : (igc + 65535) % 65536 < 65536 := by omega
  revert hm h
  generalize (igc + 65535) % 65536 = n
  intro h hm
  rw [mkSlice_ok _ _ _ hm, ok_bind] at h
  obtain ⟨⟨input, c2⟩, h2, h⟩ := bind_eq_ok h
  dsimp only at h
  obtain ⟨⟨look, q3, c3⟩, h3, h⟩ := bind_eq_ok h
  dsimp only at h
  obtain ⟨slc, hslc, h⟩ := bind_eq_ok h
  obtain ⟨_, hlt, hq3⟩ := readU16_ok hslc
  obtain ⟨⟨acts, c4⟩, h4, h⟩ := bind_eq_ok h
  cases h
  have e1 := readSlice_ok h1
  have e2 := wordsLoop_ok _ _ _ _ _ _ _ _ h2
  have e3 := readSlice_ok h3
  have e4 := readNested_ok hlt h4
  simp only [List.length_nil, Cost.tick, Cost.mem] at e2
  simp only [Cost.tick] at e4
  simp only [SfntV.Otl.Ctx.cruleLen, Cost.mem]
  omega

theorem readCRule_ok {S : RuleSites} {b : Bytes} {q : Nat} {c : Cost} {r : Rule} {c' : Cost}
    (h : readCRule S b q c = .ok (r, c')) :
    q + SfntV.Otl.Ctx.cruleLen r ≤ b.length ∧
      c'.steps = c.steps + 4 + r.back.length + r.input.length + r.look.length + r.actions.length ∧
      c'.alloc = c.alloc + 1 + r.back.length + r.input.length + r.look.length + r.actions.length :=
  readCRuleG_ok h

end SfntV.Total.ChainCtx
