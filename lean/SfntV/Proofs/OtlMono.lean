/-
"A reader only looks at a prefix": every subtable reader that accepts a byte string returns the same
value on any extension of it.  With the round trips on exact bytes this gives the codec law
`dec tp (enc s ++ tail) = ok (nf s)` of `InfoA.SubCodec`.
-/
import SfntV.Proofs.OtlGdef
import SfntV.Model.OtlGposMark
import SfntV.Model.OtlContext

namespace SfntV.Otl
open SfntV

/-! ### words of an extended byte string -/

theorem bw_append : ∀ (x t : Bytes), ∃ e, bytesToWords (x ++ t) = bytesToWords x ++ e
  | [], t => ⟨bytesToWords t, rfl⟩
  | [a], t => ⟨bytesToWords (a :: t), rfl⟩
  | a :: b :: r, t => by
    obtain ⟨e, he⟩ := bw_append r t
    exact ⟨e, by simp [bytesToWords, he]⟩

/-- the words from position `p` on, in an extended byte string -/
theorem bw_drop_append (b t : Bytes) (p : Nat) :
    ∃ e, bytesToWords ((b ++ t).drop p) = bytesToWords (b.drop p) ++ e := by
  by_cases hp : p ≤ b.length
  · rw [List.drop_append_of_le_length hp]
    exact bw_append _ _
  · have : b.drop p = [] := List.drop_eq_nil_of_le (by omega)
    rw [this]
    exact ⟨_, rfl⟩

/-- word-level form of "only a prefix is looked at" -/
def WMono {α} (F : List Nat → Outcome α) : Prop := ∀ ws e r, F ws = .ok r → F (ws ++ e) = .ok r

/-- a word-monotone reader applied at a byte position is byte-monotone -/
theorem at_mono {α} (F : List Nat → Outcome α) (hF : WMono F) (b t : Bytes) (p : Nat) (r : α)
    (h : F (bytesToWords (b.drop p)) = .ok r) : F (bytesToWords ((b ++ t).drop p)) = .ok r := by
  obtain ⟨e, he⟩ := bw_drop_append b t p
  rw [he]
  exact hF _ e r h

theorem take_app {α} (l e : List α) (n : Nat) (h : ¬ l.length < n) : (l ++ e).take n = l.take n :=
  List.take_append_of_le_length (by omega)

theorem len_app {α} (l e : List α) (n : Nat) (h : ¬ l.length < n) : ¬ (l ++ e).length < n := by
  rw [List.length_append]; omega

/-! ### coverage tables -/

namespace Cov

theorem read1_mono (t : List Nat) : ∀ (n : Nat) (rest : List Nat) (i : Nat) (prev : Int) (r : List (Nat × Nat)),
    read1 n rest i prev = .ok r → read1 n (rest ++ t) i prev = .ok r
  | 0, _, _, _, r, h => by simpa [read1] using h
  | n + 1, [], _, _, _, h => by simp [read1] at h
  | n + 1, g :: rest, i, prev, r, h => by
    simp only [read1, List.cons_append] at h ⊢
    split at h
    · simp at h
    · rename_i hc
      rw [if_neg hc]
      cases h2 : read1 n rest (i + 1) g with
      | ok r' => rw [h2] at h; rw [read1_mono t n rest _ _ r' h2]; exact h
      | err e => rw [h2] at h; simp at h
      | panic s => rw [h2] at h; simp at h

theorem read2_mono (t : List Nat) : ∀ (n : Nat) (rest : List Nat) (pos : Nat) (prev : Int) (r : List (Nat × Nat)),
    read2 n rest pos prev = .ok r → read2 n (rest ++ t) pos prev = .ok r
  | 0, _, _, _, r, h => by simpa [read2] using h
  | n + 1, s :: e :: sci :: rest, pos, prev, r, h => by
    simp only [read2, List.cons_append] at h ⊢
    split at h
    · simp at h
    · rename_i hc
      rw [if_neg hc]
      cases h2 : read2 n rest (pos + (e + 1 - s)) e with
      | ok r' => rw [h2] at h; rw [read2_mono t n rest _ _ r' h2]; exact h
      | err e' => rw [h2] at h; simp at h
      | panic s' => rw [h2] at h; simp at h
  | n + 1, [], _, _, _, h => by simp [read2] at h
  | n + 1, [_], _, _, _, h => by simp [read2] at h
  | n + 1, [_, _], _, _, _, h => by simp [read2] at h

theorem readW_mono : WMono readW := by
  intro ws e r h
  match ws, h with
  | 1 :: n :: rest, h => exact read1_mono e n rest 0 (-1) r h
  | 2 :: n :: rest, h => exact read2_mono e n rest 0 (-1) r h
  | [1], h => simp [readW] at h
  | [2], h => simp [readW] at h
  | [], h => simp [readW] at h
  | 0 :: _, h => simp [readW] at h
  | (_ + 3) :: _, h => simp [readW] at h

theorem readSetW_mono : WMono readSetW := fun ws e r h => readSetW_append_of_ok e ws r h

/-- `coverage.Read` at a position -/
theorem read_mono (b t : Bytes) (p : Nat) (r : List (Nat × Nat)) (h : read (b.drop p) = .ok r) :
    read ((b ++ t).drop p) = .ok r := at_mono readW readW_mono b t p r h

theorem readSet_mono (b t : Bytes) (p : Nat) (r : List Nat) (h : readSet (b.drop p) = .ok r) :
    readSet ((b ++ t).drop p) = .ok r := at_mono readSetW readSetW_mono b t p r h

end Cov

theorem ClassDef.readW_mono : WMono ClassDef.readW := fun ws e r h => ClassDef.readW_append_of_ok e ws r h

theorem ClassDef.read_mono (b t : Bytes) (p : Nat) (r : List (Nat × Nat)) (h : ClassDef.read (b.drop p) = .ok r) :
    ClassDef.read ((b ++ t).drop p) = .ok r := at_mono ClassDef.readW ClassDef.readW_mono b t p r h

/-! ### GSUB readers -/

namespace Gsub

theorem readCounted_mono (b t : Bytes) (off : Nat) (r : List Nat) (h : readCounted b off = .ok r) :
    readCounted (b ++ t) off = .ok r := by
  obtain ⟨e, he⟩ := bw_drop_append b t off
  unfold readCounted at h ⊢
  rw [he]
  generalize bytesToWords (b.drop off) = ws at h
  match ws, h with
  | n :: rest, h =>
    simp only [List.cons_append] at h ⊢
    split at h
    · simp at h
    · rename_i hn
      rw [if_neg (len_app _ _ _ hn), take_app _ _ _ hn]
      exact h
  | [], h => simp at h

theorem readSeqs_mono (b t : Bytes) : ∀ (offs : List Nat) (r : List (List Nat)),
    readSeqs b offs = .ok r → readSeqs (b ++ t) offs = .ok r
  | [], r, h => by simpa [readSeqs] using h
  | o :: os, r, h => by
    simp only [readSeqs] at h ⊢
    cases h1 : readCounted b o with
    | ok x =>
      rw [h1] at h
      rw [readCounted_mono b t o x h1]
      cases h2 : readSeqs b os with
      | ok rs => rw [h2] at h; rw [readSeqs_mono b t os rs h2]; exact h
      | err e => rw [h2] at h; simp at h
      | panic s => rw [h2] at h; simp at h
    | err e => rw [h1] at h; simp at h
    | panic s => rw [h1] at h; simp at h

theorem read11_mono (b t : Bytes) (r : List Nat × Nat) (h : read11 b = .ok r) : read11 (b ++ t) = .ok r := by
  obtain ⟨e, he⟩ := bw_append b t
  unfold read11 at h ⊢
  rw [he]
  generalize bytesToWords b = ws at h
  match ws, h with
  | _ :: covOff :: delta :: _, h =>
    simp only [List.cons_append] at h ⊢
    cases hc : Cov.readSet (b.drop covOff) with
    | ok c => rw [hc] at h; rw [Cov.readSet_mono b t covOff c hc]; exact h
    | err e => rw [hc] at h; simp at h
    | panic s => rw [hc] at h; simp at h
  | [], h => simp at h
  | [_], h => simp at h
  | [_, _], h => simp at h

theorem read12_mono (b t : Bytes) (r : List (Nat × Nat) × List Nat) (h : read12 b = .ok r) :
    read12 (b ++ t) = .ok r := by
  obtain ⟨e, he⟩ := bw_append b t
  unfold read12 at h ⊢
  rw [he]
  generalize bytesToWords b = ws at h
  match ws, h with
  | _ :: covOff :: n :: rest, h =>
    simp only [List.cons_append] at h ⊢
    split at h
    · simp at h
    · rename_i hn
      rw [if_neg (len_app _ _ _ hn), take_app _ _ _ hn]
      cases hc : Cov.read (b.drop covOff) with
      | ok c => rw [hc] at h; rw [Cov.read_mono b t covOff c hc]; exact h
      | err e => rw [hc] at h; simp at h
      | panic s => rw [hc] at h; simp at h
  | [], h => simp at h
  | [_], h => simp at h
  | [_, _], h => simp at h

theorem readSeq_mono (b t : Bytes) (r : List (Nat × Nat) × List (List Nat)) (h : readSeq b = .ok r) :
    readSeq (b ++ t) = .ok r := by
  obtain ⟨e, he⟩ := bw_append b t
  unfold readSeq at h ⊢
  rw [he]
  generalize bytesToWords b = ws at h
  match ws, h with
  | _ :: covOff :: n :: rest, h =>
    simp only [List.cons_append] at h ⊢
    split at h
    · simp at h
    · rename_i hn
      rw [if_neg (len_app _ _ _ hn), take_app _ _ _ hn]
      cases hc : Cov.read (b.drop covOff) with
      | ok c =>
        rw [hc] at h; rw [Cov.read_mono b t covOff c hc]
        simp only at h ⊢
        cases h2 : readSeqs b (prune c (rest.take n)).2 with
        | ok ss => rw [h2] at h; rw [readSeqs_mono b t _ ss h2]; exact h
        | err e => rw [h2] at h; simp at h
        | panic s => rw [h2] at h; simp at h
      | err e => rw [hc] at h; simp at h
      | panic s => rw [hc] at h; simp at h
  | [], h => simp at h
  | [_], h => simp at h
  | [_, _], h => simp at h

theorem readLig_mono (b t : Bytes) (off : Nat) (r : Lig) (h : readLig b off = .ok r) :
    readLig (b ++ t) off = .ok r := by
  obtain ⟨e, he⟩ := bw_drop_append b t off
  unfold readLig at h ⊢
  rw [he]
  generalize bytesToWords (b.drop off) = ws at h
  match ws, h with
  | out :: cc :: rest, h =>
    simp only [List.cons_append] at h ⊢
    split at h
    · simp at h
    · rename_i hz
      rw [if_neg hz]
      split at h
      · simp at h
      · rename_i hn
        rw [if_neg (len_app _ _ _ hn), take_app _ _ _ hn]
        exact h
  | [], h => simp at h
  | [_], h => simp at h

theorem readLigs_mono (b t : Bytes) (setPos : Nat) : ∀ (offs : List Nat) (r : List Lig),
    readLigs b setPos offs = .ok r → readLigs (b ++ t) setPos offs = .ok r
  | [], r, h => by simpa [readLigs] using h
  | o :: os, r, h => by
    simp only [readLigs] at h ⊢
    cases h1 : readLig b (setPos + o) with
    | ok x =>
      rw [h1] at h
      rw [readLig_mono b t _ x h1]
      cases h2 : readLigs b setPos os with
      | ok rs => rw [h2] at h; rw [readLigs_mono b t setPos os rs h2]; exact h
      | err e => rw [h2] at h; simp at h
      | panic s => rw [h2] at h; simp at h
    | err e => rw [h1] at h; simp at h
    | panic s => rw [h1] at h; simp at h

theorem readLigSets_mono (b t : Bytes) : ∀ (offs : List Nat) (r : List (List Lig)),
    readLigSets b offs = .ok r → readLigSets (b ++ t) offs = .ok r
  | [], r, h => by simpa [readLigSets] using h
  | o :: os, r, h => by
    obtain ⟨e, he⟩ := bw_drop_append b t o
    simp only [readLigSets] at h ⊢
    rw [he]
    generalize bytesToWords (b.drop o) = ws at h
    match ws, h with
    | n :: rest, h =>
      simp only [List.cons_append] at h ⊢
      split at h
      · simp at h
      · rename_i hn
        rw [if_neg (len_app _ _ _ hn), take_app _ _ _ hn]
        cases h1 : readLigs b o (rest.take n) with
        | ok x =>
          rw [h1] at h
          rw [readLigs_mono b t o _ x h1]
          cases h2 : readLigSets b os with
          | ok rs => rw [h2] at h; rw [readLigSets_mono b t os rs h2]; exact h
          | err e => rw [h2] at h; simp at h
          | panic s => rw [h2] at h; simp at h
        | err e => rw [h1] at h; simp at h
        | panic s => rw [h1] at h; simp at h
    | [], h => simp at h

theorem read41_mono (b t : Bytes) (r : List (Nat × Nat) × List (List Lig)) (h : read41 b = .ok r) :
    read41 (b ++ t) = .ok r := by
  obtain ⟨e, he⟩ := bw_append b t
  unfold read41 at h ⊢
  rw [he]
  generalize bytesToWords b = ws at h
  match ws, h with
  | _ :: covOff :: n :: rest, h =>
    simp only [List.cons_append] at h ⊢
    split at h
    · simp at h
    · rename_i hn
      rw [if_neg (len_app _ _ _ hn), take_app _ _ _ hn]
      cases hc : Cov.read (b.drop covOff) with
      | ok c =>
        rw [hc] at h; rw [Cov.read_mono b t covOff c hc]
        simp only at h ⊢
        cases h2 : readLigSets b (prune c (rest.take n)).2 with
        | ok ss => rw [h2] at h; rw [readLigSets_mono b t _ ss h2]; exact h
        | err e => rw [h2] at h; simp at h
        | panic s => rw [h2] at h; simp at h
      | err e => rw [hc] at h; simp at h
      | panic s => rw [hc] at h; simp at h
  | [], h => simp at h
  | [_], h => simp at h
  | [_, _], h => simp at h

theorem readCovs_mono (b t : Bytes) : ∀ (offs : List Nat) (r : List (List (Nat × Nat))),
    readCovs b offs = .ok r → readCovs (b ++ t) offs = .ok r
  | [], r, h => by simpa [readCovs] using h
  | o :: os, r, h => by
    simp only [readCovs] at h ⊢
    cases h1 : Cov.read (b.drop o) with
    | ok x =>
      rw [h1] at h
      rw [Cov.read_mono b t o x h1]
      cases h2 : readCovs b os with
      | ok rs => rw [h2] at h; rw [readCovs_mono b t os rs h2]; exact h
      | err e => rw [h2] at h; simp at h
      | panic s => rw [h2] at h; simp at h
    | err e => rw [h1] at h; simp at h
    | panic s => rw [h1] at h; simp at h

end Gsub

theorem drop_app {α} (l e : List α) (n : Nat) (h : ¬ l.length < n) : (l ++ e).drop n = l.drop n ++ e :=
  List.drop_append_of_le_length (by omega)

namespace Gsub

theorem read81_mono (b t : Bytes) (r : Rev81) (h : read81 b = .ok r) : read81 (b ++ t) = .ok r := by
  obtain ⟨e, he⟩ := bw_append b t
  unfold read81 at h ⊢
  rw [he]
  generalize bytesToWords b = ws at h
  match ws, h with
  | _ :: covOff :: nb :: r1, h =>
    simp only [List.cons_append] at h ⊢
    split at h
    · simp at h
    · rename_i h1
      rw [if_neg (len_app _ _ _ h1), drop_app _ _ _ h1, take_app _ _ _ h1]
      generalize hd1 : r1.drop nb = d1 at h
      match d1, h with
      | nl :: r2, h =>
        simp only [List.cons_append] at h ⊢
        split at h
        · simp at h
        · rename_i h2
          rw [if_neg (len_app _ _ _ h2), drop_app _ _ _ h2, take_app _ _ _ h2]
          generalize hd2 : r2.drop nl = d2 at h
          match d2, h with
          | n :: r3, h =>
            simp only [List.cons_append] at h ⊢
            split at h
            · simp at h
            · rename_i h3
              rw [if_neg (len_app _ _ _ h3), take_app _ _ _ h3]
              cases hc : Cov.read (b.drop covOff) with
              | ok c =>
                rw [hc] at h; rw [Cov.read_mono b t covOff c hc]
                simp only at h ⊢
                cases hb : readCovs b (r1.take nb) with
                | ok bk =>
                  rw [hb] at h; rw [readCovs_mono b t _ bk hb]
                  simp only at h ⊢
                  cases hl : readCovs b (r2.take nl) with
                  | ok lk => rw [hl] at h; rw [readCovs_mono b t _ lk hl]; exact h
                  | err e' => rw [hl] at h; simp at h
                  | panic s => rw [hl] at h; simp at h
                | err e' => rw [hb] at h; simp at h
                | panic s => rw [hb] at h; simp at h
              | err e' => rw [hc] at h; simp at h
              | panic s => rw [hc] at h; simp at h
          | [], h => simp at h
      | [], h => simp at h
  | [], h => simp at h
  | [_], h => simp at h
  | [_, _], h => simp at h

/-- the GSUB dispatcher (`readGsubSubtable`, lookup types 1-4 and 8) -/
theorem readSubtable_mono (tp : Nat) (b t : Bytes) (r : Sub) (h : readSubtable tp b = .ok r) :
    readSubtable tp (b ++ t) = .ok r := by
  obtain ⟨e, he⟩ := bw_append b t
  unfold readSubtable at h ⊢
  rw [he]
  generalize hws : bytesToWords b = ws at h
  match ws, h with
  | [], h => simp at h
  | fmt :: rest, h =>
    simp only [List.cons_append] at h ⊢
    split at h
    · rename_i c1
      rw [if_pos c1]
      cases h1 : read11 b with
      | ok x => rw [h1] at h; rw [read11_mono b t x h1]; exact h
      | err e' => rw [h1] at h; simp at h
      | panic s => rw [h1] at h; simp at h
    · rename_i c1
      rw [if_neg c1]
      split at h
      · rename_i c2
        rw [if_pos c2]
        cases h1 : read12 b with
        | ok x => rw [h1] at h; rw [read12_mono b t x h1]; exact h
        | err e' => rw [h1] at h; simp at h
        | panic s => rw [h1] at h; simp at h
      · rename_i c2
        rw [if_neg c2]
        split at h
        · rename_i c3
          rw [if_pos c3]
          cases h1 : readSeq b with
          | ok x => rw [h1] at h; rw [readSeq_mono b t x h1]; exact h
          | err e' => rw [h1] at h; simp at h
          | panic s => rw [h1] at h; simp at h
        · rename_i c3
          rw [if_neg c3]
          split at h
          · rename_i c4
            rw [if_pos c4]
            cases h1 : read41 b with
            | ok x => rw [h1] at h; rw [read41_mono b t x h1]; exact h
            | err e' => rw [h1] at h; simp at h
            | panic s => rw [h1] at h; simp at h
          · rename_i c4
            rw [if_neg c4]
            split at h
            · rename_i c5
              rw [if_pos c5]
              cases h1 : read81 b with
              | ok x => rw [h1] at h; rw [read81_mono b t x h1]; exact h
              | err e' => rw [h1] at h; simp at h
              | panic s => rw [h1] at h; simp at h
            · simp at h

end Gsub

/-! ### contextual lookups -/

namespace Ctx

theorem takeN_app (ws e : List Nat) (n : Nat) (a r : List Nat) (h : takeN ws n = .ok (a, r)) :
    takeN (ws ++ e) n = .ok (a, r ++ e) := by
  unfold takeN at h ⊢
  split at h
  · simp at h
  · rename_i hn
    simp only [Outcome.ok.injEq, Prod.mk.injEq] at h
    rw [if_neg (len_app _ _ _ hn), take_app _ _ _ hn, drop_app _ _ _ hn, h.1, h.2]

theorem counted_app (ws e : List Nat) (a r : List Nat) (h : counted ws = .ok (a, r)) :
    counted (ws ++ e) = .ok (a, r ++ e) := by
  match ws, h with
  | n :: rest, h => exact takeN_app rest e n a r h
  | [], h => simp [counted] at h

theorem readRule_mono (b t : Bytes) (off : Nat) (r : Rule) (h : readRule b off = .ok r) :
    readRule (b ++ t) off = .ok r := by
  obtain ⟨e, he⟩ := bw_drop_append b t off
  unfold readRule at h ⊢
  rw [he]
  generalize bytesToWords (b.drop off) = ws at h
  match ws, h with
  | gc :: lc :: rest, h =>
    simp only [List.cons_append] at h ⊢
    split at h
    · simp at h
    · rename_i hz
      rw [if_neg hz]
      cases h1 : takeN rest (gc - 1) with
      | ok x =>
        obtain ⟨inp, r1⟩ := x
        rw [h1] at h; rw [takeN_app rest e _ inp r1 h1]
        simp only at h ⊢
        cases h2 : takeN r1 (2 * lc) with
        | ok y =>
          obtain ⟨acts, r2⟩ := y
          rw [h2] at h; rw [takeN_app r1 e _ acts r2 h2]
          exact h
        | err e' => rw [h2] at h; simp at h
        | panic s => rw [h2] at h; simp at h
      | err e' => rw [h1] at h; simp at h
      | panic s => rw [h1] at h; simp at h
  | [], h => simp at h
  | [_], h => simp at h

theorem readCRule_mono (b t : Bytes) (off : Nat) (r : Rule) (h : readCRule b off = .ok r) :
    readCRule (b ++ t) off = .ok r := by
  obtain ⟨e, he⟩ := bw_drop_append b t off
  unfold readCRule at h ⊢
  rw [he]
  generalize bytesToWords (b.drop off) = ws at h
  cases h0 : counted ws with
  | ok x =>
    obtain ⟨back, r1⟩ := x
    rw [h0] at h; rw [counted_app ws e back r1 h0]
    simp only at h ⊢
    match r1, h with
    | ic :: r2, h =>
      simp only [List.cons_append] at h ⊢
      split at h
      · simp at h
      · rename_i hz
        rw [if_neg hz]
        cases h1 : takeN r2 (ic - 1) with
        | ok y =>
          obtain ⟨inp, r3⟩ := y
          rw [h1] at h; rw [takeN_app r2 e _ inp r3 h1]
          simp only at h ⊢
          cases h2 : counted r3 with
          | ok z =>
            obtain ⟨look, r4⟩ := z
            rw [h2] at h; rw [counted_app r3 e look r4 h2]
            simp only at h ⊢
            match r4, h with
            | lc :: r5, h =>
              simp only [List.cons_append] at h ⊢
              cases h3 : takeN r5 (2 * lc) with
              | ok u =>
                obtain ⟨acts, r6⟩ := u
                rw [h3] at h; rw [takeN_app r5 e _ acts r6 h3]
                exact h
              | err e' => rw [h3] at h; simp at h
              | panic s => rw [h3] at h; simp at h
            | [], h => simp at h
          | err e' => rw [h2] at h; simp at h
          | panic s => rw [h2] at h; simp at h
        | err e' => rw [h1] at h; simp at h
        | panic s => rw [h1] at h; simp at h
    | [], h => simp at h
  | err e' => rw [h0] at h; simp at h
  | panic s => rw [h0] at h; simp at h

theorem readRules_mono (rd : Bytes → Nat → Outcome Rule) (b t : Bytes)
    (hrd : ∀ off r, rd b off = .ok r → rd (b ++ t) off = .ok r) (base : Nat) :
    ∀ (offs : List Nat) (r : List Rule), readRules rd b base offs = .ok r → readRules rd (b ++ t) base offs = .ok r
  | [], r, h => by simpa [readRules] using h
  | o :: os, r, h => by
    simp only [readRules] at h ⊢
    cases h1 : rd b (base + o) with
    | ok x =>
      rw [h1] at h
      rw [hrd _ x h1]
      cases h2 : readRules rd b base os with
      | ok rs => rw [h2] at h; rw [readRules_mono rd b t hrd base os rs h2]; exact h
      | err e => rw [h2] at h; simp at h
      | panic s => rw [h2] at h; simp at h
    | err e => rw [h1] at h; simp at h
    | panic s => rw [h1] at h; simp at h

theorem readSet_mono (rd : Bytes → Nat → Outcome Rule) (b t : Bytes)
    (hrd : ∀ off r, rd b off = .ok r → rd (b ++ t) off = .ok r) (base : Nat) (r : List Rule)
    (h : readSet rd b base = .ok r) : readSet rd (b ++ t) base = .ok r := by
  obtain ⟨e, he⟩ := bw_drop_append b t base
  unfold readSet at h ⊢
  rw [he]
  generalize bytesToWords (b.drop base) = ws at h
  cases h0 : counted ws with
  | ok x =>
    obtain ⟨offs, r1⟩ := x
    rw [h0] at h; rw [counted_app ws e offs r1 h0]
    exact readRules_mono rd b t hrd base offs r h
  | err e' => rw [h0] at h; simp at h
  | panic s => rw [h0] at h; simp at h

theorem readSets_mono (rd : Bytes → Nat → Outcome Rule) (b t : Bytes)
    (hrd : ∀ off r, rd b off = .ok r → rd (b ++ t) off = .ok r) :
    ∀ (offs : List Nat) (r : List (Option (List Rule))), readSets rd b offs = .ok r →
      readSets rd (b ++ t) offs = .ok r
  | [], r, h => by simpa [readSets] using h
  | o :: os, r, h => by
    simp only [readSets] at h ⊢
    by_cases hz : (o == 0) = true
    · simp only [hz, if_true] at h ⊢
      cases h2 : readSets rd b os with
      | ok rs => rw [h2] at h; rw [readSets_mono rd b t hrd os rs h2]; exact h
      | err e => rw [h2] at h; simp at h
      | panic s => rw [h2] at h; simp at h
    · simp only [hz, Bool.false_eq_true, if_false] at h ⊢
      cases h1 : readSet rd b o with
      | ok x =>
        rw [h1] at h
        rw [readSet_mono rd b t hrd o x h1]
        simp only at h ⊢
        cases h2 : readSets rd b os with
        | ok rs => rw [h2] at h; rw [readSets_mono rd b t hrd os rs h2]; exact h
        | err e => rw [h2] at h; simp at h
        | panic s => rw [h2] at h; simp at h
      | err e => rw [h1] at h; simp at h
      | panic s => rw [h1] at h; simp at h

end Ctx

namespace Ctx

theorem read1_mono (b t : Bytes) (r : Sub) (h : read1 b = .ok r) : read1 (b ++ t) = .ok r := by
  obtain ⟨e, he⟩ := bw_append b t
  unfold read1 at h ⊢
  rw [he]
  generalize bytesToWords b = ws at h
  match ws, h with
  | _ :: covOff :: rest, h =>
    simp only [List.cons_append] at h ⊢
    cases h0 : counted rest with
    | ok x =>
      obtain ⟨offs, r1⟩ := x
      rw [h0] at h; rw [counted_app rest e offs r1 h0]
      simp only at h ⊢
      cases hc : Cov.read (b.drop covOff) with
      | ok c =>
        rw [hc] at h; rw [Cov.read_mono b t covOff c hc]
        simp only at h ⊢
        cases h2 : readSets readRule b (pruneC c offs).2 with
        | ok ss => rw [h2] at h; rw [readSets_mono readRule b t (readRule_mono b t) _ ss h2]; exact h
        | err e' => rw [h2] at h; simp at h
        | panic s => rw [h2] at h; simp at h
      | err e' => rw [hc] at h; simp at h
      | panic s => rw [hc] at h; simp at h
    | err e' => rw [h0] at h; simp at h
    | panic s => rw [h0] at h; simp at h
  | [], h => simp at h
  | [_], h => simp at h

theorem read2_mono (b t : Bytes) (r : Sub) (h : read2 b = .ok r) : read2 (b ++ t) = .ok r := by
  obtain ⟨e, he⟩ := bw_append b t
  unfold read2 at h ⊢
  rw [he]
  generalize bytesToWords b = ws at h
  match ws, h with
  | _ :: covOff :: cdOff :: rest, h =>
    simp only [List.cons_append] at h ⊢
    cases h0 : counted rest with
    | ok x =>
      obtain ⟨offs, r1⟩ := x
      rw [h0] at h; rw [counted_app rest e offs r1 h0]
      simp only at h ⊢
      cases hc : Cov.read (b.drop covOff) with
      | ok c =>
        rw [hc] at h; rw [Cov.read_mono b t covOff c hc]
        simp only at h ⊢
        cases hd : ClassDef.read (b.drop cdOff) with
        | ok cd =>
          rw [hd] at h; rw [ClassDef.read_mono b t cdOff cd hd]
          simp only at h ⊢
          cases h2 : readSets readRule b (offs.take (numClasses cd)) with
          | ok ss => rw [h2] at h; rw [readSets_mono readRule b t (readRule_mono b t) _ ss h2]; exact h
          | err e' => rw [h2] at h; simp at h
          | panic s => rw [h2] at h; simp at h
        | err e' => rw [hd] at h; simp at h
        | panic s => rw [hd] at h; simp at h
      | err e' => rw [hc] at h; simp at h
      | panic s => rw [hc] at h; simp at h
    | err e' => rw [h0] at h; simp at h
    | panic s => rw [h0] at h; simp at h
  | [], h => simp at h
  | [_], h => simp at h
  | [_, _], h => simp at h

theorem readCovSets_mono (b t : Bytes) : ∀ (offs : List Nat) (r : List (List Nat)),
    readCovSets b offs = .ok r → readCovSets (b ++ t) offs = .ok r
  | [], r, h => by simpa [readCovSets] using h
  | o :: os, r, h => by
    simp only [readCovSets] at h ⊢
    cases h1 : Cov.readSet (b.drop o) with
    | ok x =>
      rw [h1] at h
      rw [Cov.readSet_mono b t o x h1]
      cases h2 : readCovSets b os with
      | ok rs => rw [h2] at h; rw [readCovSets_mono b t os rs h2]; exact h
      | err e => rw [h2] at h; simp at h
      | panic s => rw [h2] at h; simp at h
    | err e => rw [h1] at h; simp at h
    | panic s => rw [h1] at h; simp at h

theorem read3_mono (b t : Bytes) (r : Sub) (h : read3 b = .ok r) : read3 (b ++ t) = .ok r := by
  obtain ⟨e, he⟩ := bw_append b t
  unfold read3 at h ⊢
  rw [he]
  generalize bytesToWords b = ws at h
  match ws, h with
  | _ :: gc :: lc :: rest, h =>
    simp only [List.cons_append] at h ⊢
    split at h
    · simp at h
    · rename_i hz
      rw [if_neg hz]
      cases h1 : takeN rest gc with
      | ok x =>
        obtain ⟨offs, r1⟩ := x
        rw [h1] at h; rw [takeN_app rest e _ offs r1 h1]
        simp only at h ⊢
        cases h2 : takeN r1 (2 * lc) with
        | ok y =>
          obtain ⟨acts, r2⟩ := y
          rw [h2] at h; rw [takeN_app r1 e _ acts r2 h2]
          simp only at h ⊢
          cases h3 : readCovSets b offs with
          | ok cs => rw [h3] at h; rw [readCovSets_mono b t offs cs h3]; exact h
          | err e' => rw [h3] at h; simp at h
          | panic s => rw [h3] at h; simp at h
        | err e' => rw [h2] at h; simp at h
        | panic s => rw [h2] at h; simp at h
      | err e' => rw [h1] at h; simp at h
      | panic s => rw [h1] at h; simp at h
  | [], h => simp at h
  | [_], h => simp at h
  | [_, _], h => simp at h

theorem goC1_mono (b t : Bytes) (o : Nat) : ∀ (ros : List Nat) (size : Nat) (r : List Rule × Nat),
    readSetsC1.go b o ros size = .ok r → readSetsC1.go (b ++ t) o ros size = .ok r
  | [], size, r, h => by simpa [readSetsC1.go] using h
  | ro :: rest, size, r, h => by
    simp only [readSetsC1.go] at h ⊢
    cases h1 : readCRule b (o + ro) with
    | ok x =>
      rw [h1] at h
      rw [readCRule_mono b t _ x h1]
      simp only at h ⊢
      split at h
      · simp at h
      · rename_i hs
        rw [if_neg hs]
        cases h2 : readSetsC1.go b o rest (size + cruleLen x) with
        | ok y => rw [h2] at h; rw [goC1_mono b t o rest _ y h2]; exact h
        | err e => rw [h2] at h; simp at h
        | panic s => rw [h2] at h; simp at h
    | err e => rw [h1] at h; simp at h
    | panic s => rw [h1] at h; simp at h

theorem readSetsC1_mono (b t : Bytes) : ∀ (offs : List Nat) (total : Nat) (r : List (Option (List Rule))),
    readSetsC1 b offs total = .ok r → readSetsC1 (b ++ t) offs total = .ok r
  | [], _, r, h => by simpa [readSetsC1] using h
  | o :: os, total, r, h => by
    obtain ⟨e, he⟩ := bw_drop_append b t o
    simp only [readSetsC1] at h ⊢
    by_cases hz : (o == 0) = true
    · simp only [hz, if_true] at h ⊢
      cases h2 : readSetsC1 b os total with
      | ok rs => rw [h2] at h; rw [readSetsC1_mono b t os total rs h2]; exact h
      | err e' => rw [h2] at h; simp at h
      | panic s => rw [h2] at h; simp at h
    · simp only [hz, Bool.false_eq_true, if_false] at h ⊢
      rw [he]
      generalize bytesToWords (b.drop o) = ws at h
      cases h0 : counted ws with
      | ok x =>
        obtain ⟨ro, r1⟩ := x
        rw [h0] at h; rw [counted_app ws e ro r1 h0]
        simp only at h ⊢
        split at h
        · simp at h
        · rename_i ht
          rw [if_neg ht]
          cases h1 : readSetsC1.go b o ro (2 + 2 * ro.length) with
          | ok y =>
            obtain ⟨rules, size⟩ := y
            rw [h1] at h; rw [goC1_mono b t o ro _ _ h1]
            simp only at h ⊢
            cases h2 : readSetsC1 b os (total + size) with
            | ok rs => rw [h2] at h; rw [readSetsC1_mono b t os _ rs h2]; exact h
            | err e' => rw [h2] at h; simp at h
            | panic s => rw [h2] at h; simp at h
          | err e' => rw [h1] at h; simp at h
          | panic s => rw [h1] at h; simp at h
      | err e' => rw [h0] at h; simp at h
      | panic s => rw [h0] at h; simp at h

theorem readC1_mono (b t : Bytes) (r : Sub) (h : readC1 b = .ok r) : readC1 (b ++ t) = .ok r := by
  obtain ⟨e, he⟩ := bw_append b t
  unfold readC1 at h ⊢
  rw [he]
  generalize bytesToWords b = ws at h
  match ws, h with
  | _ :: covOff :: rest, h =>
    simp only [List.cons_append] at h ⊢
    cases h0 : counted rest with
    | ok x =>
      obtain ⟨offs, r1⟩ := x
      rw [h0] at h; rw [counted_app rest e offs r1 h0]
      simp only at h ⊢
      cases hc : Cov.read (b.drop covOff) with
      | ok c =>
        rw [hc] at h; rw [Cov.read_mono b t covOff c hc]
        simp only at h ⊢
        cases h2 : readSetsC1 b (pruneC c offs).2 (6 + 2 * (pruneC c offs).2.length + covLenOf (pruneC c offs).1) with
        | ok ss => rw [h2] at h; rw [readSetsC1_mono b t _ _ ss h2]; exact h
        | err e' => rw [h2] at h; simp at h
        | panic s => rw [h2] at h; simp at h
      | err e' => rw [hc] at h; simp at h
      | panic s => rw [hc] at h; simp at h
    | err e' => rw [h0] at h; simp at h
    | panic s => rw [h0] at h; simp at h
  | [], h => simp at h
  | [_], h => simp at h

end Ctx

namespace Ctx

theorem readC2_mono (b t : Bytes) (r : Sub) (h : readC2 b = .ok r) : readC2 (b ++ t) = .ok r := by
  obtain ⟨e, he⟩ := bw_append b t
  unfold readC2 at h ⊢
  rw [he]
  generalize bytesToWords b = ws at h
  match ws, h with
  | _ :: covOff :: bOff :: iOff :: lOff :: rest, h =>
    simp only [List.cons_append] at h ⊢
    cases h0 : counted rest with
    | ok x =>
      obtain ⟨offs, r1⟩ := x
      rw [h0] at h; rw [counted_app rest e offs r1 h0]
      simp only at h ⊢
      cases hc : Cov.read (b.drop covOff) with
      | ok c =>
        rw [hc] at h; rw [Cov.read_mono b t covOff c hc]
        simp only at h ⊢
        cases hd1 : ClassDef.read (b.drop bOff) with
        | ok cb =>
          rw [hd1] at h; rw [ClassDef.read_mono b t bOff cb hd1]
          simp only at h ⊢
          cases hd2 : ClassDef.read (b.drop iOff) with
          | ok ci =>
            rw [hd2] at h; rw [ClassDef.read_mono b t iOff ci hd2]
            simp only at h ⊢
            cases hd3 : ClassDef.read (b.drop lOff) with
            | ok cl =>
              rw [hd3] at h; rw [ClassDef.read_mono b t lOff cl hd3]
              simp only at h ⊢
              cases h2 : readSets readCRule b (offs.take (numClasses ci)) with
              | ok ss => rw [h2] at h; rw [readSets_mono readCRule b t (readCRule_mono b t) _ ss h2]; exact h
              | err e' => rw [h2] at h; simp at h
              | panic s => rw [h2] at h; simp at h
            | err e' => rw [hd3] at h; simp at h
            | panic s => rw [hd3] at h; simp at h
          | err e' => rw [hd2] at h; simp at h
          | panic s => rw [hd2] at h; simp at h
        | err e' => rw [hd1] at h; simp at h
        | panic s => rw [hd1] at h; simp at h
      | err e' => rw [hc] at h; simp at h
      | panic s => rw [hc] at h; simp at h
    | err e' => rw [h0] at h; simp at h
    | panic s => rw [h0] at h; simp at h
  | [], h => simp at h
  | [_], h => simp at h
  | [_, _], h => simp at h
  | [_, _, _], h => simp at h
  | [_, _, _, _], h => simp at h

theorem readC3_mono (b t : Bytes) (r : Sub) (h : readC3 b = .ok r) : readC3 (b ++ t) = .ok r := by
  obtain ⟨e, he⟩ := bw_append b t
  unfold readC3 at h ⊢
  rw [he]
  generalize bytesToWords b = ws at h
  match ws, h with
  | _ :: rest, h =>
    simp only [List.cons_append] at h ⊢
    cases h0 : counted rest with
    | ok x =>
      obtain ⟨bo, r1⟩ := x
      rw [h0] at h; rw [counted_app rest e bo r1 h0]
      simp only at h ⊢
      cases h1 : counted r1 with
      | ok y =>
        obtain ⟨io, r2⟩ := y
        rw [h1] at h; rw [counted_app r1 e io r2 h1]
        simp only at h ⊢
        cases h2 : counted r2 with
        | ok z =>
          obtain ⟨lo, r3⟩ := z
          rw [h2] at h; rw [counted_app r2 e lo r3 h2]
          simp only at h ⊢
          split at h
          · simp at h
          · rename_i hz
            rw [if_neg hz]
            match r3, h with
            | lc :: r4, h =>
              simp only [List.cons_append] at h ⊢
              cases h3 : takeN r4 (2 * lc) with
              | ok u =>
                obtain ⟨acts, r5⟩ := u
                rw [h3] at h; rw [takeN_app r4 e _ acts r5 h3]
                simp only at h ⊢
                cases c1 : readCovSets b bo with
                | ok cb =>
                  rw [c1] at h; rw [readCovSets_mono b t bo cb c1]
                  simp only at h ⊢
                  cases c2 : readCovSets b io with
                  | ok ci =>
                    rw [c2] at h; rw [readCovSets_mono b t io ci c2]
                    simp only at h ⊢
                    cases c3 : readCovSets b lo with
                    | ok cl => rw [c3] at h; rw [readCovSets_mono b t lo cl c3]; exact h
                    | err e' => rw [c3] at h; simp at h
                    | panic s => rw [c3] at h; simp at h
                  | err e' => rw [c2] at h; simp at h
                  | panic s => rw [c2] at h; simp at h
                | err e' => rw [c1] at h; simp at h
                | panic s => rw [c1] at h; simp at h
              | err e' => rw [h3] at h; simp at h
              | panic s => rw [h3] at h; simp at h
            | [], h => simp at h
        | err e' => rw [h2] at h; simp at h
        | panic s => rw [h2] at h; simp at h
      | err e' => rw [h1] at h; simp at h
      | panic s => rw [h1] at h; simp at h
    | err e' => rw [h0] at h; simp at h
    | panic s => rw [h0] at h; simp at h
  | [], h => simp at h

/-- the dispatcher for lookup types 5 and 6 -/
theorem readSubtable_mono (tp : Nat) (b t : Bytes) (r : Sub) (h : readSubtable tp b = .ok r) :
    readSubtable tp (b ++ t) = .ok r := by
  obtain ⟨e, he⟩ := bw_append b t
  unfold readSubtable at h ⊢
  rw [he]
  generalize hws : bytesToWords b = ws at h
  match ws, h with
  | [], h => simp at h
  | fmt :: rest, h =>
    simp only [List.cons_append] at h ⊢
    split at h
    · rename_i c; rw [if_pos c]; exact read1_mono b t r h
    · rename_i c1; rw [if_neg c1]
      split at h
      · rename_i c; rw [if_pos c]; exact read2_mono b t r h
      · rename_i c2; rw [if_neg c2]
        split at h
        · rename_i c; rw [if_pos c]; exact read3_mono b t r h
        · rename_i c3; rw [if_neg c3]
          split at h
          · rename_i c; rw [if_pos c]; exact readC1_mono b t r h
          · rename_i c4; rw [if_neg c4]
            split at h
            · rename_i c; rw [if_pos c]; exact readC2_mono b t r h
            · rename_i c5; rw [if_neg c5]
              split at h
              · rename_i c; rw [if_pos c]; exact readC3_mono b t r h
              · simp at h

end Ctx

/-! ### GPOS value records, 1.1, 1.2, 2.1 -/

namespace Gpos

theorem vrReadFields_app (fmt : Nat) (e : List Nat) : ∀ (fuel k : Nat) (ws fs r : List Nat),
    vrReadFields fmt k fuel ws = .ok (fs, r) → vrReadFields fmt k fuel (ws ++ e) = .ok (fs, r ++ e)
  | 0, _, ws, fs, r, h => by
    simp only [vrReadFields, Outcome.ok.injEq, Prod.mk.injEq] at h ⊢
    exact ⟨h.1, by rw [h.2]⟩
  | fuel + 1, k, ws, fs, r, h => by
    simp only [vrReadFields] at h ⊢
    split at h
    · rename_i hb
      rw [if_pos hb]
      match ws, h with
      | [], h => simp at h
      | w :: rest, h =>
        simp only [List.cons_append] at h ⊢
        cases h1 : vrReadFields fmt (k + 1) fuel rest with
        | ok x =>
          obtain ⟨fs', r'⟩ := x
          rw [h1] at h; rw [vrReadFields_app fmt e fuel (k + 1) rest fs' r' h1]
          simp only [Outcome.ok.injEq, Prod.mk.injEq] at h ⊢
          exact ⟨h.1, by rw [h.2]⟩
        | err e' => rw [h1] at h; simp at h
        | panic s => rw [h1] at h; simp at h
    · rename_i hb
      rw [if_neg hb]
      cases h1 : vrReadFields fmt (k + 1) fuel ws with
      | ok x =>
        obtain ⟨fs', r'⟩ := x
        rw [h1] at h; rw [vrReadFields_app fmt e fuel (k + 1) ws fs' r' h1]
        simp only [Outcome.ok.injEq, Prod.mk.injEq] at h ⊢
        exact ⟨h.1, by rw [h.2]⟩
      | err e' => rw [h1] at h; simp at h
      | panic s => rw [h1] at h; simp at h

theorem vrRead_app (fmt : Nat) (ws e : List Nat) (vr : VR) (r : List Nat) (h : vrRead fmt ws = .ok (vr, r)) :
    vrRead fmt (ws ++ e) = .ok (vr, r ++ e) := by
  unfold vrRead at h ⊢
  split at h
  · rename_i hz
    rw [if_pos hz]
    simp only [Outcome.ok.injEq, Prod.mk.injEq] at h ⊢
    exact ⟨h.1, by rw [h.2]⟩
  · rename_i hz
    rw [if_neg hz]
    cases h1 : vrReadFields fmt 0 8 ws with
    | ok x =>
      obtain ⟨fs, r'⟩ := x
      rw [h1] at h; rw [vrReadFields_app fmt e 8 0 ws fs r' h1]
      simp only [Outcome.ok.injEq, Prod.mk.injEq] at h ⊢
      exact ⟨h.1, by rw [h.2]⟩
    | err e' => rw [h1] at h; simp at h
    | panic s => rw [h1] at h; simp at h

theorem vrReadN_app (fmt : Nat) (e : List Nat) : ∀ (n : Nat) (ws : List Nat) (vrs : List VR) (r : List Nat),
    vrReadN fmt n ws = .ok (vrs, r) → vrReadN fmt n (ws ++ e) = .ok (vrs, r ++ e)
  | 0, ws, vrs, r, h => by
    simp only [vrReadN, Outcome.ok.injEq, Prod.mk.injEq] at h ⊢
    exact ⟨h.1, by rw [h.2]⟩
  | n + 1, ws, vrs, r, h => by
    simp only [vrReadN] at h ⊢
    cases h1 : vrRead fmt ws with
    | ok x =>
      obtain ⟨vr, rest⟩ := x
      rw [h1] at h; rw [vrRead_app fmt ws e vr rest h1]
      simp only at h ⊢
      cases h2 : vrReadN fmt n rest with
      | ok y =>
        obtain ⟨vs, r'⟩ := y
        rw [h2] at h; rw [vrReadN_app fmt e n rest vs r' h2]
        simp only [Outcome.ok.injEq, Prod.mk.injEq] at h ⊢
        exact ⟨h.1, by rw [h.2]⟩
      | err e' => rw [h2] at h; simp at h
      | panic s => rw [h2] at h; simp at h
    | err e' => rw [h1] at h; simp at h
    | panic s => rw [h1] at h; simp at h

theorem read11_mono (b t : Bytes) (r : List (Nat × Nat) × VR) (h : read11 b = .ok r) : read11 (b ++ t) = .ok r := by
  obtain ⟨e, he⟩ := bw_append b t
  unfold read11 at h ⊢
  rw [he]
  generalize bytesToWords b = ws at h
  match ws, h with
  | _ :: covOff :: fmt :: rest, h =>
    simp only [List.cons_append] at h ⊢
    cases h1 : vrRead fmt rest with
    | ok x =>
      obtain ⟨vr, r'⟩ := x
      rw [h1] at h; rw [vrRead_app fmt rest e vr r' h1]
      simp only at h ⊢
      cases hc : Cov.read (b.drop covOff) with
      | ok c => rw [hc] at h; rw [Cov.read_mono b t covOff c hc]; exact h
      | err e' => rw [hc] at h; simp at h
      | panic s => rw [hc] at h; simp at h
    | err e' => rw [h1] at h; simp at h
    | panic s => rw [h1] at h; simp at h
  | [], h => simp at h
  | [_], h => simp at h
  | [_, _], h => simp at h

theorem read12_mono (b t : Bytes) (r : List (Nat × Nat) × List VR) (h : read12 b = .ok r) :
    read12 (b ++ t) = .ok r := by
  obtain ⟨e, he⟩ := bw_append b t
  unfold read12 at h ⊢
  rw [he]
  generalize bytesToWords b = ws at h
  match ws, h with
  | _ :: covOff :: fmt :: n :: rest, h =>
    simp only [List.cons_append] at h ⊢
    cases h1 : vrReadN fmt n rest with
    | ok x =>
      obtain ⟨vrs, r'⟩ := x
      rw [h1] at h; rw [vrReadN_app fmt e n rest vrs r' h1]
      simp only at h ⊢
      cases hc : Cov.read (b.drop covOff) with
      | ok c => rw [hc] at h; rw [Cov.read_mono b t covOff c hc]; exact h
      | err e' => rw [hc] at h; simp at h
      | panic s => rw [hc] at h; simp at h
    | err e' => rw [h1] at h; simp at h
    | panic s => rw [h1] at h; simp at h
  | [], h => simp at h
  | [_], h => simp at h
  | [_, _], h => simp at h
  | [_, _, _], h => simp at h

theorem readPairs_mono (f1 f2 : Nat) (e : List Nat) : ∀ (n : Nat) (ws : List Nat) (r : PairSet),
    readPairs f1 f2 n ws = .ok r → readPairs f1 f2 n (ws ++ e) = .ok r
  | 0, _, r, h => by simpa [readPairs] using h
  | n + 1, [], r, h => by simp [readPairs] at h
  | n + 1, g :: ws, r, h => by
    simp only [readPairs, List.cons_append] at h ⊢
    cases h1 : vrRead f1 ws with
    | ok x =>
      obtain ⟨v1, r1⟩ := x
      rw [h1] at h; rw [vrRead_app f1 ws e v1 r1 h1]
      simp only at h ⊢
      cases h2 : vrRead f2 r1 with
      | ok y =>
        obtain ⟨v2, r2⟩ := y
        rw [h2] at h; rw [vrRead_app f2 r1 e v2 r2 h2]
        simp only at h ⊢
        cases h3 : readPairs f1 f2 n r2 with
        | ok ps => rw [h3] at h; rw [readPairs_mono f1 f2 e n r2 ps h3]; exact h
        | err e' => rw [h3] at h; simp at h
        | panic s => rw [h3] at h; simp at h
      | err e' => rw [h2] at h; simp at h
      | panic s => rw [h2] at h; simp at h
    | err e' => rw [h1] at h; simp at h
    | panic s => rw [h1] at h; simp at h

theorem readPairSets_mono (b t : Bytes) (f1 f2 : Nat) : ∀ (offs : List Nat) (r : List PairSet),
    readPairSets b f1 f2 offs = .ok r → readPairSets (b ++ t) f1 f2 offs = .ok r
  | [], r, h => by simpa [readPairSets] using h
  | o :: os, r, h => by
    obtain ⟨e, he⟩ := bw_drop_append b t o
    simp only [readPairSets] at h ⊢
    rw [he]
    generalize bytesToWords (b.drop o) = ws at h
    match ws, h with
    | [], h => simp at h
    | n :: rest, h =>
      simp only [List.cons_append] at h ⊢
      cases h1 : readPairs f1 f2 n rest with
      | ok ps =>
        rw [h1] at h; rw [readPairs_mono f1 f2 e n rest ps h1]
        simp only at h ⊢
        cases h2 : readPairSets b f1 f2 os with
        | ok rs => rw [h2] at h; rw [readPairSets_mono b t f1 f2 os rs h2]; exact h
        | err e' => rw [h2] at h; simp at h
        | panic s => rw [h2] at h; simp at h
      | err e' => rw [h1] at h; simp at h
      | panic s => rw [h1] at h; simp at h

theorem read21_mono (b t : Bytes) (r : List (Nat × Nat) × List PairSet) (h : read21 b = .ok r) :
    read21 (b ++ t) = .ok r := by
  obtain ⟨e, he⟩ := bw_append b t
  unfold read21 at h ⊢
  rw [he]
  generalize bytesToWords b = ws at h
  match ws, h with
  | _ :: covOff :: f1 :: f2 :: n :: rest, h =>
    simp only [List.cons_append] at h ⊢
    split at h
    · simp at h
    · rename_i hn
      rw [if_neg (len_app _ _ _ hn), take_app _ _ _ hn]
      cases hc : Cov.read (b.drop covOff) with
      | ok c =>
        rw [hc] at h; rw [Cov.read_mono b t covOff c hc]
        simp only at h ⊢
        generalize hpr : (if (rest.take n).length > c.length then (c, (rest.take n).take c.length)
          else if (rest.take n).length < c.length then (c.filter (fun p => p.2 < (rest.take n).length), rest.take n)
          else (c, rest.take n)) = pr at h ⊢
        cases h2 : readPairSets b f1 f2 pr.2 with
        | ok ss => rw [h2] at h; rw [readPairSets_mono b t f1 f2 _ ss h2]; exact h
        | err e' => rw [h2] at h; simp at h
        | panic s => rw [h2] at h; simp at h
      | err e' => rw [hc] at h; simp at h
      | panic s => rw [hc] at h; simp at h
  | [], h => simp at h
  | [_], h => simp at h
  | [_, _], h => simp at h
  | [_, _, _], h => simp at h
  | [_, _, _, _], h => simp at h

theorem readSubtable_mono (tp : Nat) (b t : Bytes) (r : Sub) (h : readSubtable tp b = .ok r) :
    readSubtable tp (b ++ t) = .ok r := by
  obtain ⟨e, he⟩ := bw_append b t
  unfold readSubtable at h ⊢
  rw [he]
  generalize hws : bytesToWords b = ws at h
  match ws, h with
  | [], h => simp at h
  | fmt :: rest, h =>
    simp only [List.cons_append] at h ⊢
    split at h
    · rename_i c1
      rw [if_pos c1]
      cases h1 : read11 b with
      | ok x => rw [h1] at h; rw [read11_mono b t x h1]; exact h
      | err e' => rw [h1] at h; simp at h
      | panic s => rw [h1] at h; simp at h
    · rename_i c1
      rw [if_neg c1]
      split at h
      · rename_i c2
        rw [if_pos c2]
        cases h1 : read12 b with
        | ok x => rw [h1] at h; rw [read12_mono b t x h1]; exact h
        | err e' => rw [h1] at h; simp at h
        | panic s => rw [h1] at h; simp at h
      · rename_i c2
        rw [if_neg c2]
        split at h
        · rename_i c3
          rw [if_pos c3]
          cases h1 : read21 b with
          | ok x => rw [h1] at h; rw [read21_mono b t x h1]; exact h
          | err e' => rw [h1] at h; simp at h
          | panic s => rw [h1] at h; simp at h
        · simp at h

end Gpos

/-! ### anchors, mark arrays, GPOS 2.2, 3.1, 4.1 / 6.1 -/

namespace GposMark

theorem readAnchor_mono (b t : Bytes) (off : Nat) (r : Anchor) (h : readAnchor b off = .ok r) :
    readAnchor (b ++ t) off = .ok r := by
  obtain ⟨e, he⟩ := bw_drop_append b t off
  unfold readAnchor at h ⊢
  rw [he]
  generalize bytesToWords (b.drop off) = ws at h
  match ws, h with
  | fmt :: x :: y :: _, h => simpa using h
  | [], h => simp at h
  | [_], h => simp at h
  | [_, _], h => simp at h

theorem readAnchors_mono (b t : Bytes) (pos : Nat) : ∀ (offs : List Nat) (r : List Anchor),
    readAnchors b pos offs = .ok r → readAnchors (b ++ t) pos offs = .ok r
  | [], r, h => by simpa [readAnchors] using h
  | o :: os, r, h => by
    simp only [readAnchors] at h ⊢
    cases h1 : readAnchor b (pos + o) with
    | ok x =>
      rw [h1] at h
      rw [readAnchor_mono b t _ x h1]
      cases h2 : readAnchors b pos os with
      | ok rs => rw [h2] at h; rw [readAnchors_mono b t pos os rs h2]; exact h
      | err e => rw [h2] at h; simp at h
      | panic s => rw [h2] at h; simp at h
    | err e => rw [h1] at h; simp at h
    | panic s => rw [h1] at h; simp at h

theorem readMarkArray_mono (b t : Bytes) (pos numMarks : Nat) (r : List Mark)
    (h : readMarkArray b pos numMarks = .ok r) : readMarkArray (b ++ t) pos numMarks = .ok r := by
  obtain ⟨e, he⟩ := bw_drop_append b t pos
  unfold readMarkArray at h ⊢
  rw [he]
  generalize bytesToWords (b.drop pos) = ws at h
  match ws, h with
  | cnt :: rest, h =>
    simp only [List.cons_append] at h ⊢
    split at h
    · simp at h
    · rename_i hn
      rw [if_neg (len_app _ _ _ hn), take_app _ _ _ hn]
      cases h1 : readAnchors b pos ((pairs (rest.take (2 * min cnt numMarks))).map (·.2)) with
      | ok as => rw [h1] at h; rw [readAnchors_mono b t pos _ as h1]; exact h
      | err e' => rw [h1] at h; simp at h
      | panic s => rw [h1] at h; simp at h
  | [], h => simp at h

theorem readRow_mono (b t : Bytes) (pos : Nat) : ∀ (offs : List Nat) (r : List Anchor),
    readRow b pos offs = .ok r → readRow (b ++ t) pos offs = .ok r
  | [], r, h => by simpa [readRow] using h
  | o :: os, r, h => by
    simp only [readRow] at h ⊢
    by_cases hz : (o == 0) = true
    · simp only [hz, if_true] at h ⊢
      cases h2 : readRow b pos os with
      | ok rs => rw [h2] at h; rw [readRow_mono b t pos os rs h2]; exact h
      | err e => rw [h2] at h; simp at h
      | panic s => rw [h2] at h; simp at h
    · simp only [hz, Bool.false_eq_true, if_false] at h ⊢
      cases h1 : readAnchor b (pos + o) with
      | ok x =>
        rw [h1] at h
        rw [readAnchor_mono b t _ x h1]
        simp only at h ⊢
        cases h2 : readRow b pos os with
        | ok rs => rw [h2] at h; rw [readRow_mono b t pos os rs h2]; exact h
        | err e => rw [h2] at h; simp at h
        | panic s => rw [h2] at h; simp at h
      | err e => rw [h1] at h; simp at h
      | panic s => rw [h1] at h; simp at h

theorem readRows_mono (b t : Bytes) (pos cc : Nat) : ∀ (n : Nat) (offs : List Nat) (r : List (List Anchor)),
    readRows b pos cc n offs = .ok r → readRows (b ++ t) pos cc n offs = .ok r
  | 0, _, r, h => by simpa [readRows] using h
  | n + 1, offs, r, h => by
    simp only [readRows] at h ⊢
    cases h1 : readRow b pos (offs.take cc) with
    | ok row =>
      rw [h1] at h; rw [readRow_mono b t pos _ row h1]
      cases h2 : readRows b pos cc n (offs.drop cc) with
      | ok rs => rw [h2] at h; rw [readRows_mono b t pos cc n _ rs h2]; exact h
      | err e => rw [h2] at h; simp at h
      | panic s => rw [h2] at h; simp at h
    | err e => rw [h1] at h; simp at h
    | panic s => rw [h1] at h; simp at h

theorem read41_mono (b t : Bytes) (r : MarkBase) (h : read41 b = .ok r) : read41 (b ++ t) = .ok r := by
  obtain ⟨e, he⟩ := bw_append b t
  unfold read41 at h ⊢
  rw [he]
  generalize bytesToWords b = ws at h
  match ws, h with
  | _ :: mcOff :: bcOff :: cc :: maOff :: baOff :: _, h =>
    simp only [List.cons_append] at h ⊢
    cases hc1 : Cov.read (b.drop mcOff) with
    | ok mc =>
      rw [hc1] at h; rw [Cov.read_mono b t mcOff mc hc1]
      simp only at h ⊢
      cases hc2 : Cov.read (b.drop bcOff) with
      | ok bc =>
        rw [hc2] at h; rw [Cov.read_mono b t bcOff bc hc2]
        simp only at h ⊢
        cases hm : readMarkArray b maOff mc.length with
        | ok marks =>
          rw [hm] at h; rw [readMarkArray_mono b t maOff _ marks hm]
          simp only at h ⊢
          obtain ⟨e2, he2⟩ := bw_drop_append b t baOff
          rw [he2]
          generalize bytesToWords (b.drop baOff) = ws2 at h
          match ws2, h with
          | cnt :: rest, h =>
            simp only [List.cons_append] at h ⊢
            generalize hbc : (if cnt > bc.length then bc.length else cnt) = bcnt at h ⊢
            by_cases hno : bcnt * cc > 32764
            · rw [if_pos hno] at h; simp at h
            · rw [if_neg hno] at h ⊢
              by_cases hn : rest.length < bcnt * cc
              · rw [if_pos hn] at h; simp at h
              · rw [if_neg hn] at h
                rw [if_neg (len_app _ _ _ hn), take_app _ _ _ hn]
                cases hr : readRows b baOff cc bcnt (rest.take (bcnt * cc)) with
                | ok rows => rw [hr] at h; rw [readRows_mono b t baOff cc _ _ rows hr]; exact h
                | err e' => rw [hr] at h; simp at h
                | panic s => rw [hr] at h; simp at h
          | [], h => simp at h
        | err e' => rw [hm] at h; simp at h
        | panic s => rw [hm] at h; simp at h
      | err e' => rw [hc2] at h; simp at h
      | panic s => rw [hc2] at h; simp at h
    | err e' => rw [hc1] at h; simp at h
    | panic s => rw [hc1] at h; simp at h
  | [], h => simp at h
  | [_], h => simp at h
  | [_, _], h => simp at h
  | [_, _, _], h => simp at h
  | [_, _, _, _], h => simp at h
  | [_, _, _, _, _], h => simp at h

theorem readEE_mono (b t : Bytes) : ∀ (offs : List (Nat × Nat)) (r : List EntryExit),
    readEE b offs = .ok r → readEE (b ++ t) offs = .ok r
  | [], r, h => by simpa [readEE] using h
  | (eo, xo) :: rest, r, h => by
    simp only [readEE] at h ⊢
    have hA : ∀ (o : Nat) (a : Anchor), (if (o != 0) = true then readAnchor b o else Outcome.ok (0, 0)) = .ok a →
        (if (o != 0) = true then readAnchor (b ++ t) o else Outcome.ok (0, 0)) = .ok a := by
      intro o a ha
      by_cases hz : (o != 0) = true
      · rw [if_pos hz] at ha ⊢; exact readAnchor_mono b t o a ha
      · rw [if_neg hz] at ha ⊢; exact ha
    cases h1 : (if (eo != 0) = true then readAnchor b eo else Outcome.ok (0, 0)) with
    | ok en =>
      rw [h1] at h; rw [hA eo en h1]
      simp only at h ⊢
      cases h2 : (if (xo != 0) = true then readAnchor b xo else Outcome.ok (0, 0)) with
      | ok ex =>
        rw [h2] at h; rw [hA xo ex h2]
        simp only at h ⊢
        cases h3 : readEE b rest with
        | ok rs => rw [h3] at h; rw [readEE_mono b t rest rs h3]; exact h
        | err e => rw [h3] at h; simp at h
        | panic s => rw [h3] at h; simp at h
      | err e => rw [h2] at h; simp at h
      | panic s => rw [h2] at h; simp at h
    | err e => rw [h1] at h; simp at h
    | panic s => rw [h1] at h; simp at h

theorem read31_mono (b t : Bytes) (r : List (Nat × Nat) × List EntryExit) (h : read31 b = .ok r) :
    read31 (b ++ t) = .ok r := by
  obtain ⟨e, he⟩ := bw_append b t
  unfold read31 at h ⊢
  rw [he]
  generalize bytesToWords b = ws at h
  match ws, h with
  | _ :: covOff :: cnt :: rest, h =>
    simp only [List.cons_append] at h ⊢
    split at h
    · simp at h
    · rename_i hn
      rw [if_neg (len_app _ _ _ hn), take_app _ _ _ hn]
      cases h1 : readEE b (pairs (rest.take (2 * cnt))) with
      | ok recs =>
        rw [h1] at h; rw [readEE_mono b t _ recs h1]
        simp only at h ⊢
        cases hc : Cov.read (b.drop covOff) with
        | ok c => rw [hc] at h; rw [Cov.read_mono b t covOff c hc]; exact h
        | err e' => rw [hc] at h; simp at h
        | panic s => rw [hc] at h; simp at h
      | err e' => rw [h1] at h; simp at h
      | panic s => rw [h1] at h; simp at h
  | [], h => simp at h
  | [_], h => simp at h
  | [_, _], h => simp at h

theorem readRecs22_mono (f1 f2 : Nat) (e : List Nat) : ∀ (n : Nat) (ws : List Nat) (r : List (Gpos.VR × Gpos.VR)),
    readRecs22 f1 f2 n ws = .ok r → readRecs22 f1 f2 n (ws ++ e) = .ok r
  | 0, _, r, h => by simpa [readRecs22] using h
  | n + 1, ws, r, h => by
    simp only [readRecs22] at h ⊢
    cases h1 : Gpos.vrRead f1 ws with
    | ok x =>
      obtain ⟨v1, r1⟩ := x
      rw [h1] at h; rw [Gpos.vrRead_app f1 ws e v1 r1 h1]
      simp only at h ⊢
      cases h2 : Gpos.vrRead f2 r1 with
      | ok y =>
        obtain ⟨v2, r2⟩ := y
        rw [h2] at h; rw [Gpos.vrRead_app f2 r1 e v2 r2 h2]
        simp only at h ⊢
        cases h3 : readRecs22 f1 f2 n r2 with
        | ok ps => rw [h3] at h; rw [readRecs22_mono f1 f2 e n r2 ps h3]; exact h
        | err e' => rw [h3] at h; simp at h
        | panic s => rw [h3] at h; simp at h
      | err e' => rw [h2] at h; simp at h
      | panic s => rw [h2] at h; simp at h
    | err e' => rw [h1] at h; simp at h
    | panic s => rw [h1] at h; simp at h

theorem read22_mono (b t : Bytes) (r : Read22) (h : read22 b = .ok r) : read22 (b ++ t) = .ok r := by
  obtain ⟨e, he⟩ := bw_append b t
  unfold read22 at h ⊢
  rw [he]
  generalize bytesToWords b = ws at h
  match ws, h with
  | _ :: covOff :: f1 :: f2 :: cd1Off :: cd2Off :: n1 :: n2 :: rest, h =>
    simp only [List.cons_append] at h ⊢
    split at h
    · simp at h
    · rename_i hn
      rw [if_neg hn]
      cases h1 : readRecs22 f1 f2 (n1 * n2) rest with
      | ok recs =>
        rw [h1] at h; rw [readRecs22_mono f1 f2 e _ rest recs h1]
        simp only at h ⊢
        cases hc : Cov.readSet (b.drop covOff) with
        | ok c =>
          rw [hc] at h; rw [Cov.readSet_mono b t covOff c hc]
          simp only at h ⊢
          cases hd1 : ClassDef.read (b.drop cd1Off) with
          | ok k1 =>
            rw [hd1] at h; rw [ClassDef.read_mono b t cd1Off k1 hd1]
            simp only at h ⊢
            cases hd2 : ClassDef.read (b.drop cd2Off) with
            | ok k2 => rw [hd2] at h; rw [ClassDef.read_mono b t cd2Off k2 hd2]; exact h
            | err e' => rw [hd2] at h; simp at h
            | panic s => rw [hd2] at h; simp at h
          | err e' => rw [hd1] at h; simp at h
          | panic s => rw [hd1] at h; simp at h
        | err e' => rw [hc] at h; simp at h
        | panic s => rw [hc] at h; simp at h
      | err e' => rw [h1] at h; simp at h
      | panic s => rw [h1] at h; simp at h
  | [], h => simp at h
  | [_], h => simp at h
  | [_, _], h => simp at h
  | [_, _, _], h => simp at h
  | [_, _, _, _], h => simp at h
  | [_, _, _, _, _], h => simp at h
  | [_, _, _, _, _, _], h => simp at h
  | [_, _, _, _, _, _, _], h => simp at h

end GposMark

end SfntV.Otl
