/-
Soundness of the hvcurveto / vhcurveto edges (C04).
-/
import SfntV.Proofs.T2Edges

set_option linter.unusedSimpArgs false
set_option linter.unusedVariables false

namespace SfntV.T2Enc
open SfntV SfntV.T2 SfntV.Spec.T2

/-- operands of an hvcurveto (`h = true`) / vhcurveto (`h = false`) covering `segs`: start tangents
alternate, every end tangent is perpendicular to the start tangent, except that the last curve may
carry its otherwise-zero end delta as a trailing operand -/
inductive HV : Bool → List Seg → List EncNum → Prop
  | nil (h : Bool) : HV h [] []
  | hor (a0 a1 a2 a3 a4 a5 : EncNum) (t : List Seg) (as : List EncNum) : a1.val = 0 → a4.val = 0 →
      HV false t as → HV true (.curve a0 a1 a2 a3 a4 a5 :: t) (a0 :: a2 :: a3 :: a5 :: as)
  | ver (a0 a1 a2 a3 a4 a5 : EncNum) (t : List Seg) (as : List EncNum) : a0.val = 0 → a5.val = 0 →
      HV true t as → HV false (.curve a0 a1 a2 a3 a4 a5 :: t) (a1 :: a2 :: a3 :: a4 :: as)
  | horLast (a0 a1 a2 a3 a4 a5 : EncNum) : a1.val = 0 →
      HV true [.curve a0 a1 a2 a3 a4 a5] [a0, a2, a3, a5, a4]
  | verLast (a0 a1 a2 a3 a4 a5 : EncNum) : a0.val = 0 →
      HV false [.curve a0 a1 a2 a3 a4 a5] [a1, a2, a3, a4, a5]

theorem HV.len {h : Bool} {segs : List Seg} {as : List EncNum} (hv : HV h segs as) :
    as.length = 4 * segs.length ∨ as.length = 4 * segs.length + 1 := by
  induction hv with
  | nil h => simp
  | hor _ _ _ _ _ _ t as _ _ _ ih => rcases ih with h | h <;> simp [h] <;> omega
  | ver _ _ _ _ _ _ t as _ _ _ ih => rcases ih with h | h <;> simp [h] <;> omega
  | horLast => simp
  | verLast => simp

theorem HV.len_ne_one {h : Bool} {segs : List Seg} {as : List EncNum} (hv : HV h segs as) : as.length ≠ 1 := by
  cases hv <;> simp

theorem extra_zero (l : List Int) (h : l.length ≠ 1) :
    (match l with
      | [e] => e
      | _ => 0) = 0 := by
  match l, h with
  | [], _ => rfl
  | [e], h => simp at h
  | _ :: _ :: _, _ => rfl

theorem hvLoop_rel (q : Quirks) (s : St) (h : Bool) (segs : List Seg) (as : List EncNum) (hv : HV h segs as) :
    hvLoop q h s (vals as) = drawSegs q s segs := by
  induction hv generalizing s with
  | nil h => simp [vals, hvLoop, drawSegs]
  | hor a0 a1 a2 a3 a4 a5 t as h1 h4 htl ih =>
    have he := extra_zero (vals as) (by rw [vals_length]; exact htl.len_ne_one)
    simp only [vals] at he
    simp only [vals, List.map_cons, hvLoop, if_true, drawSegs_cons, drawSeg, h1, h4]
    rw [he]
    exact ih _
  | ver a0 a1 a2 a3 a4 a5 t as h0 h5 htl ih =>
    have he := extra_zero (vals as) (by rw [vals_length]; exact htl.len_ne_one)
    simp only [vals] at he
    simp only [vals, List.map_cons, hvLoop, Bool.false_eq_true, if_false, drawSegs_cons, drawSeg, h0, h5]
    rw [he]
    exact ih _
  | horLast a0 a1 a2 a3 a4 a5 h1 =>
    simp [vals, hvLoop, drawSegs, drawSeg, h1]
  | verLast a0 a1 a2 a3 a4 a5 h0 =>
    simp [vals, hvLoop, drawSegs, drawSeg, h0]

theorem HV.argsFrom {h : Bool} {segs : List Seg} {as : List EncNum} (hv : HV h segs as) :
    ∀ a ∈ as, ∃ g ∈ segs, a ∈ g.args := by
  induction hv with
  | nil h => simp
  | hor a0 a1 a2 a3 a4 a5 t as _ _ _ ih =>
    intro a ha
    simp only [List.mem_cons] at ha
    rcases ha with h | h | h | h | h
    · exact ⟨_, List.mem_cons_self, by simp [Seg.args, h]⟩
    · exact ⟨_, List.mem_cons_self, by simp [Seg.args, h]⟩
    · exact ⟨_, List.mem_cons_self, by simp [Seg.args, h]⟩
    · exact ⟨_, List.mem_cons_self, by simp [Seg.args, h]⟩
    · obtain ⟨g, hg, hag⟩ := ih a h
      exact ⟨g, List.mem_cons_of_mem _ hg, hag⟩
  | ver a0 a1 a2 a3 a4 a5 t as _ _ _ ih =>
    intro a ha
    simp only [List.mem_cons] at ha
    rcases ha with h | h | h | h | h
    · exact ⟨_, List.mem_cons_self, by simp [Seg.args, h]⟩
    · exact ⟨_, List.mem_cons_self, by simp [Seg.args, h]⟩
    · exact ⟨_, List.mem_cons_self, by simp [Seg.args, h]⟩
    · exact ⟨_, List.mem_cons_self, by simp [Seg.args, h]⟩
    · obtain ⟨g, hg, hag⟩ := ih a h
      exact ⟨g, List.mem_cons_of_mem _ hg, hag⟩
  | horLast a0 a1 a2 a3 a4 a5 _ =>
    intro a ha
    simp only [List.mem_cons, List.not_mem_nil, or_false] at ha
    exact ⟨_, List.mem_cons_self, by rcases ha with h | h | h | h | h <;> simp [Seg.args, h]⟩
  | verLast a0 a1 a2 a3 a4 a5 _ =>
    intro a ha
    simp only [List.mem_cons, List.not_mem_nil, or_false] at ha
    exact ⟨_, List.mem_cons_self, by rcases ha with h | h | h | h | h <;> simp [Seg.args, h]⟩

theorem sound_hv (frm : Nat) (cmds : List Seg) (h : Bool) (n : Nat) (args : List EncNum) (hn0 : 0 < n)
    (hn : n ≤ cmds.length) (hr : HV h (cmds.take n) args) (h48 : args.length ≤ 48) :
    EdgeSound frm cmds ⟨args, if h then .hvcurveto else .vhcurveto, frm + n⟩ := by
  have htl : (cmds.take n).length = n := by simp; omega
  have hlen := hr.len
  rw [htl] at hlen
  refine ⟨by simp; omega, by simp; omega, h48, ?_, by cases h <;> rfl, ?_, ?_⟩
  · cases h <;> simp [legalCount] <;> omega
  · intro a ha
    obtain ⟨g, hg, hag⟩ := hr.argsFrom a ha
    exact ⟨g, List.mem_of_mem_take hg, hag⟩
  · intro env s code hs
    simp only at hs
    have hsl : s.stack.length = args.length := by rw [hs, vals_length]
    have e : frm + n - frm = n := by omega
    cases h
    · simp only [Bool.false_eq_true, if_false, T2.exec]
      rw [pathOp_ok s code _ _ _ (by omega) (by simp; omega), hs, hvLoop_rel _ _ _ _ _ hr, e]
    · simp only [if_true, T2.exec]
      rw [pathOp_ok s code _ _ _ (by omega) (by simp; omega), hs, hvLoop_rel _ _ _ _ _ hr, e]

end SfntV.T2Enc
