/-
Soundness of the hvcurveto / vhcurveto edges (C04).
-/
import SfntV.Proofs.T2Edges

set_option linter.unusedSimpArgs false
set_option linter.unusedVariables false

namespace SfntV.T2Enc
open SfntV SfntV.T2 SfntV.Spec.T2

/-- operands of an hvcurveto (`h = true`) / vhcurveto (`h = false`) covering `segs`: start tangents
alternate, every end tangent is perpendicular to the start tangent, except that the last curve may
carry its otherwise-zero end delta as a trailing operand -/
inductive HV : Bool → List Seg → List EncNum → Prop
  | nil (h : Bool) : HV h [] []
  | hor (a0 a1 a2 a3 a4 a5 : EncNum) (t : List Seg) (as : List EncNum) : a1.val = 0 → a4.val = 0 →
      HV false t as → HV true (.curve a0 a1 a2 a3 a4 a5 :: t) (a0 :: a2 :: a3 :: a5 :: as)
  | ver (a0 a1 a2 a3 a4 a5 : EncNum) (t : List Seg) (as : List EncNum) : a0.val = 0 → a5.val = 0 →
      HV true t as → HV false (.curve a0 a1 a2 a3 a4 a5 :: t) (a1 :: a2 :: a3 :: a4 :: as)
  | horLast (a0 a1 a2 a3 a4 a5 : EncNum) : a1.val = 0 →
      HV true [.curve a0 a1 a2 a3 a4 a5] [a0, a2, a3, a5, a4]
  | verLast (a0 a1 a2 a3 a4 a5 : EncNum) : a0.val = 0 →
      HV false [.curve a0 a1 a2 a3 a4 a5] [a1, a2, a3, a4, a5]

theorem HV.len {h : Bool} {segs : List Seg} {as : List EncNum} (hv : HV h segs as) :
    as.length = 4 * segs.length ∨ as.length = 4 * segs.length + 1 := by
  induction hv with
  | nil h => simp
  | hor _ _ _ _ _ _ t as _ _ _ ih => rcases ih with h | h <;> simp [h] <;> omega
  | ver _ _ _ _ _ _ t as _ _ _ ih => rcases ih with h | h <;> simp [h] <;> omega
  | horLast => simp
  | verLast => simp

theorem HV.len_ne_one {h : Bool} {segs : List Seg} {as : List EncNum} (hv : HV h segs as) : as.length ≠ 1 := by
  cases hv <;> simp

theorem hvLoop_step (q : Quirks) (h : Bool) (s : St) (a b c d : Int) (t : List Int) (ht : t.length ≠ 1) :
    hvLoop q h s (a :: b :: c :: d :: t) =
      hvLoop q (!h) (if h then rCurveTo q s a 0 b c 0 d else rCurveTo q s 0 a b c d 0) t := by
  match t, ht with
  | [], _ => simp [hvLoop]
  | [e], ht => simp at ht
  | x :: y :: r, _ => simp [hvLoop]

theorem hvLoop_rel (q : Quirks) (s : St) (h : Bool) (segs : List Seg) (as : List EncNum) (hv : HV h segs as) :
    hvLoop q h s (vals as) = drawSegs q s segs := by
  induction hv generalizing s with
  | nil h => simp [vals, hvLoop, drawSegs]
  | hor a0 a1 a2 a3 a4 a5 t as h1 h4 htl ih =>
    have hs := hvLoop_step q true s a0.val a2.val a3.val a5.val (vals as) (by rw [vals_length]; exact htl.len_ne_one)
    simp only [vals, List.map_cons] at hs ⊢
    rw [hs]
    simp only [if_true, drawSegs_cons, drawSeg, h1, h4]
    exact ih _
  | ver a0 a1 a2 a3 a4 a5 t as h0 h5 htl ih =>
    have hs := hvLoop_step q false s a1.val a2.val a3.val a4.val (vals as) (by rw [vals_length]; exact htl.len_ne_one)
    simp only [vals, List.map_cons] at hs ⊢
    rw [hs]
    simp only [Bool.false_eq_true, if_false, drawSegs_cons, drawSeg, h0, h5]
    exact ih _
  | horLast a0 a1 a2 a3 a4 a5 h1 =>
    simp [vals, hvLoop, drawSegs, drawSeg, h1]
  | verLast a0 a1 a2 a3 a4 a5 h0 =>
    simp [vals, hvLoop, drawSegs, drawSeg, h0]

theorem HV.argsFrom {h : Bool} {segs : List Seg} {as : List EncNum} (hv : HV h segs as) :
    ∀ a ∈ as, ∃ g ∈ segs, a ∈ g.args := by
  induction hv with
  | nil h => simp
  | hor a0 a1 a2 a3 a4 a5 t as _ _ _ ih =>
    intro a ha
    simp only [List.mem_cons] at ha
    rcases ha with h | h | h | h | h
    · exact ⟨_, List.mem_cons_self, by simp [Seg.args, h]⟩
    · exact ⟨_, List.mem_cons_self, by simp [Seg.args, h]⟩
    · exact ⟨_, List.mem_cons_self, by simp [Seg.args, h]⟩
    · exact ⟨_, List.mem_cons_self, by simp [Seg.args, h]⟩
    · obtain ⟨g, hg, hag⟩ := ih a h
      exact ⟨g, List.mem_cons_of_mem _ hg, hag⟩
  | ver a0 a1 a2 a3 a4 a5 t as _ _ _ ih =>
    intro a ha
    simp only [List.mem_cons] at ha
    rcases ha with h | h | h | h | h
    · exact ⟨_, List.mem_cons_self, by simp [Seg.args, h]⟩
    · exact ⟨_, List.mem_cons_self, by simp [Seg.args, h]⟩
    · exact ⟨_, List.mem_cons_self, by simp [Seg.args, h]⟩
    · exact ⟨_, List.mem_cons_self, by simp [Seg.args, h]⟩
    · obtain ⟨g, hg, hag⟩ := ih a h
      exact ⟨g, List.mem_cons_of_mem _ hg, hag⟩
  | horLast a0 a1 a2 a3 a4 a5 _ =>
    intro a ha
    simp only [List.mem_cons, List.not_mem_nil, or_false] at ha
    exact ⟨_, List.mem_cons_self, by rcases ha with h | h | h | h | h <;> simp [Seg.args, h]⟩
  | verLast a0 a1 a2 a3 a4 a5 _ =>
    intro a ha
    simp only [List.mem_cons, List.not_mem_nil, or_false] at ha
    exact ⟨_, List.mem_cons_self, by rcases ha with h | h | h | h | h <;> simp [Seg.args, h]⟩

theorem sound_hv (frm : Nat) (cmds : List Seg) (h : Bool) (n : Nat) (args : List EncNum) (hn0 : 0 < n)
    (hn : n ≤ cmds.length) (hr : HV h (cmds.take n) args) (h48 : args.length ≤ 48) :
    EdgeSound frm cmds ⟨args, if h then .hvcurveto else .vhcurveto, frm + n⟩ := by
  have htl : (cmds.take n).length = n := by simp; omega
  have hlen := hr.len
  rw [htl] at hlen
  refine ⟨by simp; omega, by simp; omega, h48, ?_, by cases h <;> rfl, ?_, ?_⟩
  · cases h <;> simp [legalCount] <;> omega
  · intro a ha
    obtain ⟨g, hg, hag⟩ := hr.argsFrom a ha
    exact ⟨g, List.mem_of_mem_take hg, hag⟩
  · intro env s code hs
    simp only at hs
    have hsl : s.stack.length = args.length := by rw [hs, vals_length]
    have e : frm + n - frm = n := by omega
    cases h
    · simp only [Bool.false_eq_true, if_false, T2.exec]
      rw [pathOp_ok s code _ _ _ (by omega) (by simp; omega), hs, hvLoop_rel _ _ _ _ _ hr, e]
    · simp only [if_true, T2.exec]
      rw [pathOp_ok s code _ _ _ (by omega) (by simp; omega), hs, hvLoop_rel _ _ _ _ _ hr, e]


/-! ### the proposing loop -/

/-- a chain of curves whose end tangents are all perpendicular to their start tangents -/
inductive HVA : Bool → List Seg → List EncNum → Prop
  | nil (h : Bool) : HVA h [] []
  | hor (a0 a1 a2 a3 a4 a5 : EncNum) (t : List Seg) (as : List EncNum) : a1.val = 0 → a4.val = 0 →
      HVA false t as → HVA true (.curve a0 a1 a2 a3 a4 a5 :: t) (a0 :: a2 :: a3 :: a5 :: as)
  | ver (a0 a1 a2 a3 a4 a5 : EncNum) (t : List Seg) (as : List EncNum) : a0.val = 0 → a5.val = 0 →
      HVA true t as → HVA false (.curve a0 a1 a2 a3 a4 a5 :: t) (a1 :: a2 :: a3 :: a4 :: as)

/-- start direction of the curve after `n` alternations -/
def dirAfter (h : Bool) (n : Nat) : Bool := if n % 2 = 0 then h else !h

theorem dirAfter_zero (h : Bool) : dirAfter h 0 = h := rfl
theorem dirAfter_succ (h : Bool) (n : Nat) : dirAfter h (n + 1) = dirAfter (!h) n := by
  unfold dirAfter
  rcases Nat.mod_two_eq_zero_or_one n with h0 | h1
  · have : (n + 1) % 2 = 1 := by omega
    simp [h0, this]
  · have : (n + 1) % 2 = 0 := by omega
    simp [h1, this]
theorem dirAfter_succ' (h : Bool) (n : Nat) : dirAfter h (n + 1) = !(dirAfter h n) := by
  unfold dirAfter
  rcases Nat.mod_two_eq_zero_or_one n with h0 | h1
  · have : (n + 1) % 2 = 1 := by omega
    simp [h0, this]
  · have : (n + 1) % 2 = 0 := by omega
    simp [h1, this]

theorem HVA.append_HV {h : Bool} {pre : List Seg} {code : List EncNum} (ha : HVA h pre code)
    {tl : List Seg} {tas : List EncNum} (hv : HV (dirAfter h pre.length) tl tas) :
    HV h (pre ++ tl) (code ++ tas) := by
  induction ha with
  | nil h => simpa [dirAfter_zero] using hv
  | hor a0 a1 a2 a3 a4 a5 t as h1 h4 _ ih =>
    simp only [List.length_cons, dirAfter_succ, Bool.not_true] at hv
    exact HV.hor _ _ _ _ _ _ _ _ h1 h4 (ih hv)
  | ver a0 a1 a2 a3 a4 a5 t as h0 h5 _ ih =>
    simp only [List.length_cons, dirAfter_succ, Bool.not_false] at hv
    exact HV.ver _ _ _ _ _ _ _ _ h0 h5 (ih hv)

theorem HVA.append {h : Bool} {pre : List Seg} {code : List EncNum} (ha : HVA h pre code)
    {tl : List Seg} {tas : List EncNum} (hv : HVA (dirAfter h pre.length) tl tas) :
    HVA h (pre ++ tl) (code ++ tas) := by
  induction ha with
  | nil h => simpa [dirAfter_zero] using hv
  | hor a0 a1 a2 a3 a4 a5 t as h1 h4 _ ih =>
    simp only [List.length_cons, dirAfter_succ, Bool.not_true] at hv
    exact HVA.hor _ _ _ _ _ _ _ _ h1 h4 (ih hv)
  | ver a0 a1 a2 a3 a4 a5 t as h0 h5 _ ih =>
    simp only [List.length_cons, dirAfter_succ, Bool.not_false] at hv
    exact HVA.ver _ _ _ _ _ _ _ _ h0 h5 (ih hv)

theorem HVA.toHV {h : Bool} {l : List Seg} {as : List EncNum} (ha : HVA h l as) : HV h l as := by
  have := ha.append_HV (tl := []) (tas := []) (HV.nil _)
  simpa using this

theorem HVA.len {h : Bool} {l : List Seg} {as : List EncNum} (ha : HVA h l as) : as.length = 4 * l.length := by
  induction ha <;> simp [*] <;> omega

theorem hv_single_aligned (offs : Nat) (hoffs : offs = 0 ∨ offs = 1) (a0 a1 a2 a3 a4 a5 : EncNum)
    (hz : ((Seg.curve a0 a1 a2 a3 a4 a5).arg (1 - offs)).isZero = true)
    (hal : ((Seg.curve a0 a1 a2 a3 a4 a5).arg (4 + offs)).isZero = true) :
    HVA (offs == 0) [.curve a0 a1 a2 a3 a4 a5]
      [(Seg.curve a0 a1 a2 a3 a4 a5).arg offs, a2, a3, (Seg.curve a0 a1 a2 a3 a4 a5).arg (5 - offs)] := by
  rcases hoffs with rfl | rfl
  · simp only [Seg.arg, Seg.args, List.getD_cons_succ, List.getD_cons_zero] at hz hal ⊢
    exact HVA.hor _ _ _ _ _ _ _ _ (isZero_val hz) (isZero_val hal) (HVA.nil _)
  · simp only [Seg.arg, Seg.args, List.getD_cons_succ, List.getD_cons_zero] at hz hal ⊢
    exact HVA.ver _ _ _ _ _ _ _ _ (isZero_val hz) (isZero_val hal) (HVA.nil _)

theorem hv_single_last (offs : Nat) (hoffs : offs = 0 ∨ offs = 1) (a0 a1 a2 a3 a4 a5 : EncNum)
    (hz : ((Seg.curve a0 a1 a2 a3 a4 a5).arg (1 - offs)).isZero = true) :
    HV (offs == 0) [.curve a0 a1 a2 a3 a4 a5]
      ([(Seg.curve a0 a1 a2 a3 a4 a5).arg offs, a2, a3, (Seg.curve a0 a1 a2 a3 a4 a5).arg (5 - offs)] ++
        [(Seg.curve a0 a1 a2 a3 a4 a5).arg (4 + offs)]) := by
  rcases hoffs with rfl | rfl
  · simp only [Seg.arg, Seg.args, List.getD_cons_succ, List.getD_cons_zero] at hz ⊢
    exact HV.horLast _ _ _ _ _ _ (isZero_val hz)
  · simp only [Seg.arg, Seg.args, List.getD_cons_succ, List.getD_cons_zero] at hz ⊢
    exact HV.verLast _ _ _ _ _ _ (isZero_val hz)

theorem hvEdges_spec (frm orig : Nat) (op : Op) (rest pre : List Seg) (code : List EncNum) (offs : Nat)
    (hA : HVA (orig == 0) pre code) (hdir : (offs == 0) = dirAfter (orig == 0) pre.length)
    (hoffs : offs = 0 ∨ offs = 1) (horig : orig = 0 ∨ orig = 1) :
    ∀ e ∈ hvvhEdges frm orig op offs rest code pre.length,
      ∃ n, 0 < n ∧ n ≤ (pre ++ rest).length ∧ e = ⟨e.args, op, frm + n⟩ ∧
        HV (orig == 0) ((pre ++ rest).take n) e.args ∧ e.args.length ≤ 48 := by
  induction rest generalizing pre code offs with
  | nil => simp [hvvhEdges]
  | cons g t ih =>
    cases g with
    | line dx dy => simp [hvvhEdges]
    | curve a0 a1 a2 a3 a4 a5 =>
      have hc : pre ++ Seg.curve a0 a1 a2 a3 a4 a5 :: t = (pre ++ [Seg.curve a0 a1 a2 a3 a4 a5]) ++ t := by simp
      have hpos : pre.length + 1 = (pre ++ [Seg.curve a0 a1 a2 a3 a4 a5]).length := by simp
      have hoffs' : 1 - offs = 0 ∨ 1 - offs = 1 := by omega
      have hdir' : ((1 - offs) == 0) = dirAfter (orig == 0) (pre ++ [Seg.curve a0 a1 a2 a3 a4 a5]).length := by
        rw [← hpos, dirAfter_succ', ← hdir]
        rcases hoffs with rfl | rfl <;> rfl
      simp only [hvvhEdges]
      by_cases hz : (!((Seg.curve a0 a1 a2 a3 a4 a5).arg (1 - offs)).isZero) = true
      · simp [hz]
      · have hz' : ((Seg.curve a0 a1 a2 a3 a4 a5).arg (1 - offs)).isZero = true := by simpa using hz
        simp only [hz, if_false]
        by_cases h2 : (offs != orig && !((Seg.curve a0 a1 a2 a3 a4 a5).arg (4 + offs)).isZero) = true
        · simp [h2]
        · simp only [h2, if_false]
          by_cases h3 : (decide (code.length + 4 > maxStack) ||
              !((Seg.curve a0 a1 a2 a3 a4 a5).arg (4 + offs)).isZero && decide (code.length + 5 > maxStack)) = true
          · simp [h3]
          · simp only [h3, if_false]
            rw [maxStack_48] at h3
            -- the two shapes of the operand list
            by_cases hal : ((Seg.curve a0 a1 a2 a3 a4 a5).arg (4 + offs)).isZero = true
            · have hrel : HVA (orig == 0) (pre ++ [Seg.curve a0 a1 a2 a3 a4 a5])
                  (code ++ [(Seg.curve a0 a1 a2 a3 a4 a5).arg offs, a2, a3, (Seg.curve a0 a1 a2 a3 a4 a5).arg (5 - offs)]) :=
                hA.append (by rw [← hdir]; exact hv_single_aligned offs hoffs _ _ _ _ _ _ hz' hal)
              have hlen : (code ++ [(Seg.curve a0 a1 a2 a3 a4 a5).arg offs, a2, a3, (Seg.curve a0 a1 a2 a3 a4 a5).arg (5 - offs)]).length ≤ 48 := by
                simp at h3 ⊢; omega
              simp only [hal, if_true, List.append_nil]
              have hrec := fun e he => ih (pre ++ [Seg.curve a0 a1 a2 a3 a4 a5]) _ (1 - offs) hrel hdir' hoffs' e (by rw [← hpos]; exact he)
              by_cases hq : ((1 - offs) == orig) = true
              · simp only [hq, if_true]
                intro e he
                obtain ⟨n, k1, k2, k3, k4, k5⟩ := hrec e he
                exact ⟨n, k1, by rw [hc]; exact k2, k3, by rw [hc]; exact k4, k5⟩
              · simp only [hq, if_false]
                intro e he
                rcases List.mem_cons.mp he with rfl | h
                · refine ⟨pre.length + 1, by omega, by simp, rfl, ?_, hlen⟩
                  simp only
                  rw [hc, hpos, take_append_len]
                  exact hrel.toHV
                · obtain ⟨n, k1, k2, k3, k4, k5⟩ := hrec e h
                  exact ⟨n, k1, by rw [hc]; exact k2, k3, by rw [hc]; exact k4, k5⟩
            · have hal' : ((Seg.curve a0 a1 a2 a3 a4 a5).arg (4 + offs)).isZero = false := by simpa using hal
              have hrel : HV (orig == 0) (pre ++ [Seg.curve a0 a1 a2 a3 a4 a5])
                  (code ++ ([(Seg.curve a0 a1 a2 a3 a4 a5).arg offs, a2, a3, (Seg.curve a0 a1 a2 a3 a4 a5).arg (5 - offs)] ++
                    [(Seg.curve a0 a1 a2 a3 a4 a5).arg (4 + offs)])) :=
                hA.append_HV (by rw [← hdir]; exact hv_single_last offs hoffs _ _ _ _ _ _ hz')
              -- not aligned: offs = orig (else pruned), so an edge is proposed and the loop stops
              have hoo : offs = orig := by
                simp only [hal', Bool.not_false, Bool.and_true, bne_iff_ne, ne_eq, Decidable.not_not] at h2
                exact h2
              have hne : ((1 - offs) == orig) = false := by
                rw [hoo]; rcases horig with rfl | rfl <;> rfl
              simp only [hal', Bool.false_eq_true, if_false, hne]
              intro e he
              simp only [List.mem_cons, List.not_mem_nil, or_false] at he
              subst he
              refine ⟨pre.length + 1, by omega, by simp, rfl, ?_, ?_⟩
              · simp only
                rw [hc, hpos, take_append_len]
                simpa [List.append_assoc] using hrel
              · simp [hal'] at h3 ⊢; omega

/-- every hvcurveto and vhcurveto edge proposed by `appendEdges` is sound -/
theorem hvEdges_sound (frm : Nat) (cmds : List Seg) :
    ∀ e ∈ hvvhEdges frm 0 .hvcurveto 0 cmds [] 0, EdgeSound frm cmds e := by
  intro e he
  obtain ⟨n, h1, h2, h3, h4, h5⟩ := hvEdges_spec frm 0 .hvcurveto cmds [] [] 0 (HVA.nil _) rfl (Or.inl rfl) (Or.inl rfl) e he
  rw [h3]
  have := sound_hv frm cmds true n e.args h1 (by simpa using h2) (by simpa using h4) h5
  simpa using this

theorem vhEdges_sound (frm : Nat) (cmds : List Seg) :
    ∀ e ∈ hvvhEdges frm 1 .vhcurveto 1 cmds [] 0, EdgeSound frm cmds e := by
  intro e he
  obtain ⟨n, h1, h2, h3, h4, h5⟩ := hvEdges_spec frm 1 .vhcurveto cmds [] [] 1 (HVA.nil _) rfl (Or.inr rfl) (Or.inr rfl) e he
  rw [h3]
  have := sound_hv frm cmds false n e.args h1 (by simpa using h2) (by simpa using h4) h5
  simpa using this

end SfntV.T2Enc
