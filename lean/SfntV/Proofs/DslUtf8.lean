/-
C19 — UTF-8: decoding the bytes of a sequence of canonically encoded runes gives the runes back
(each with its bytes), whatever follows.  Used to turn statements about the bytes the printer
writes into statements about runes.
-/
import SfntV.Model.DslExplain

set_option linter.unusedSimpArgs false

namespace SfntV.Dsl

/-- decoding `rb`'s bytes, followed by anything, yields `rb` first -/
def Canon (rb : RB) : Prop := ∀ x, decodeUtf8 (rb.2 ++ x) = rb :: decodeUtf8 x

theorem decode_canon (rbs : List RB) (h : ∀ rb ∈ rbs, Canon rb) (x : List Nat) :
    decodeUtf8 (rbs.flatMap (·.2) ++ x) = rbs ++ decodeUtf8 x := by
  induction rbs with
  | nil => simp
  | cons rb rest ih =>
    have h1 := h rb (by simp)
    have h2 := ih (fun r hr => h r (by simp [hr]))
    simp only [List.flatMap_cons, List.append_assoc, List.cons_append]
    rw [h1, h2]

theorem decode_canon' (rbs : List RB) (h : ∀ rb ∈ rbs, Canon rb) :
    decodeUtf8 (rbs.flatMap (·.2)) = rbs := by
  have := decode_canon rbs h []
  simpa [decodeUtf8, decodeAux] using this

/-- a scalar value: what `utf8Encode` encodes faithfully -/
def validRune (r : Nat) : Prop := r ≤ 0x10FFFF ∧ ¬ (0xD800 ≤ r ∧ r < 0xE000)

theorem canon_ascii (c : Nat) (h : c < 128) : Canon (a1 c) := by
  intro x
  simp [a1, decodeUtf8, decodeAux, decodeRune1, h]

theorem dr2 (b0 b1 : Nat) (x : List Nat) (h0 : 0xC2 ≤ b0) (h0' : b0 ≤ 0xDF) (h1 : 0x80 ≤ b1)
    (h1' : b1 ≤ 0xBF) : decodeRune1 b0 (b1 :: x) = ((b0 % 32) * 64 + b1 % 64, 2) := by
  have e1 : ¬ b0 < 0x80 := by omega
  have e2 : (decide (b0 < 0xC2) || decide (b0 > 0xF4)) = false := by simp; omega
  have e3 : (b0 == 0xE0) = false := by simp; omega
  have e4 : (b0 == 0xF0) = false := by simp; omega
  have e5 : (b0 == 0xED) = false := by simp; omega
  have e6 : (b0 == 0xF4) = false := by simp; omega
  have e7 : b0 < 0xE0 := by omega
  have e8 : inR 0x80 0xBF b1 = true := by simp [inR]; omega
  simp [decodeRune1, e1, e2, e3, e4, e5, e6, e7, e8]

theorem dr3 (b0 b1 b2 : Nat) (x : List Nat) (h0 : 0xE0 ≤ b0) (h0' : b0 ≤ 0xEF)
    (h1 : (if b0 = 0xE0 then 0xA0 else 0x80) ≤ b1) (h1' : b1 ≤ (if b0 = 0xED then 0x9F else 0xBF))
    (h2 : 0x80 ≤ b2) (h2' : b2 ≤ 0xBF) :
    decodeRune1 b0 (b1 :: b2 :: x) = ((b0 % 16) * 4096 + (b1 % 64) * 64 + b2 % 64, 3) := by
  have e1 : ¬ b0 < 0x80 := by omega
  have e2 : (decide (b0 < 0xC2) || decide (b0 > 0xF4)) = false := by simp; omega
  have e4 : (b0 == 0xF0) = false := by simp; omega
  have e6 : (b0 == 0xF4) = false := by simp; omega
  have e7 : ¬ b0 < 0xE0 := by omega
  have e7' : b0 < 0xF0 := by omega
  have e9 : inR 0x80 0xBF b2 = true := by simp [inR]; omega
  by_cases c1 : b0 = 0xE0
  · subst c1
    have e8 : inR 0xA0 0xBF b1 = true := by simp [inR]; simp at h1 h1'; omega
    simp [decodeRune1, e8, e9]
  · by_cases c2 : b0 = 0xED
    · subst c2
      have e8 : inR 0x80 0x9F b1 = true := by simp [inR]; simp at h1 h1'; omega
      simp [decodeRune1, e8, e9]
    · have e3 : (b0 == 0xE0) = false := by simp [c1]
      have e5 : (b0 == 0xED) = false := by simp [c2]
      have e8 : inR 0x80 0xBF b1 = true := by simp [inR]; simp [c1, c2] at h1 h1'; omega
      simp [decodeRune1, e1, e2, e3, e4, e5, e6, e7, e7', e8, e9]

theorem dr4 (b0 b1 b2 b3 : Nat) (x : List Nat) (h0 : 0xF0 ≤ b0) (h0' : b0 ≤ 0xF4)
    (h1 : (if b0 = 0xF0 then 0x90 else 0x80) ≤ b1) (h1' : b1 ≤ (if b0 = 0xF4 then 0x8F else 0xBF))
    (h2 : 0x80 ≤ b2) (h2' : b2 ≤ 0xBF) (h3 : 0x80 ≤ b3) (h3' : b3 ≤ 0xBF) :
    decodeRune1 b0 (b1 :: b2 :: b3 :: x) =
      ((b0 % 8) * 262144 + (b1 % 64) * 4096 + (b2 % 64) * 64 + b3 % 64, 4) := by
  have e1 : ¬ b0 < 0x80 := by omega
  have e2 : (decide (b0 < 0xC2) || decide (b0 > 0xF4)) = false := by simp; omega
  have e3 : (b0 == 0xE0) = false := by simp; omega
  have e5 : (b0 == 0xED) = false := by simp; omega
  have e7 : ¬ b0 < 0xE0 := by omega
  have e7' : ¬ b0 < 0xF0 := by omega
  have e9 : inR 0x80 0xBF b2 = true := by simp [inR]; omega
  have e10 : inR 0x80 0xBF b3 = true := by simp [inR]; omega
  by_cases c1 : b0 = 0xF0
  · subst c1
    have e8 : inR 0x90 0xBF b1 = true := by simp [inR]; simp at h1 h1'; omega
    simp [decodeRune1, e8, e9, e10]
  · by_cases c2 : b0 = 0xF4
    · subst c2
      have e8 : inR 0x80 0x8F b1 = true := by simp [inR]; simp at h1 h1'; omega
      simp [decodeRune1, e8, e9, e10]
    · have e4 : (b0 == 0xF0) = false := by simp [c1]
      have e6 : (b0 == 0xF4) = false := by simp [c2]
      have e8 : inR 0x80 0xBF b1 = true := by simp [inR]; simp [c1, c2] at h1 h1'; omega
      simp [decodeRune1, e1, e2, e3, e4, e5, e6, e7, e7', e8, e9, e10]

/-- every scalar value is decoded from its encoding -/
theorem canon_encode (r : Nat) (h : validRune r) : Canon (r, utf8Encode r) := by
  obtain ⟨hmax, hsur⟩ := h
  intro x
  unfold utf8Encode
  by_cases c1 : r < 0x80
  · simp only [c1, if_true]
    simp [decodeUtf8, decodeAux, decodeRune1, c1]
  · by_cases c2 : r < 0x800
    · simp only [c1, c2, if_true, if_false]
      have := dr2 (0xC0 + r / 64) (0x80 + r % 64) x (by omega) (by omega) (by omega) (by omega)
      simp only [decodeUtf8, List.cons_append, List.nil_append, decodeAux, this]
      simp [decodeAux]
      omega
    · have c3 : ((decide (0xD800 ≤ r) && decide (r < 0xE000)) || decide (r > 0x10FFFF)) = false := by
        simp; omega
      by_cases c4 : r < 0x10000
      · simp only [c1, c2, c3, c4, if_true, if_false, Bool.false_eq_true]
        have := dr3 (0xE0 + r / 4096) (0x80 + r / 64 % 64) (0x80 + r % 64) x (by omega) (by omega)
          (by split <;> omega) (by split <;> omega) (by omega) (by omega)
        simp only [decodeUtf8, List.cons_append, List.nil_append, decodeAux, this]
        simp [decodeAux]
        omega
      · simp only [c1, c2, c3, c4, if_true, if_false, Bool.false_eq_true]
        have := dr4 (0xF0 + r / 262144) (0x80 + r / 4096 % 64) (0x80 + r / 64 % 64) (0x80 + r % 64) x
          (by omega) (by omega) (by split <;> omega) (by split <;> omega) (by omega) (by omega)
          (by omega) (by omega)
        simp only [decodeUtf8, List.cons_append, List.nil_append, decodeAux, this]
        simp [decodeAux]
        omega

end SfntV.Dsl
