/-
C19 — GSUB 1 (single substitution): the range printer as a segmentation into single mappings
and runs, reading `a - b`, inserting whole runs, the 1.1/1.2 decision of the parser, and the
theorems `roundtrip_gsub1` and `roundtrip_gsub14_lists`.
-/
import SfntV.Proofs.DslMixed
set_option linter.unusedSimpArgs false
set_option linter.unusedVariables false
namespace SfntV.Dsl

/-! ### GSUB 1: segments (single mappings and ranges) -/

def sing (p : Nat × Nat) : Mapping := ([p.1], [p.2])

def runLenP (delta : Nat) : Nat → List (Nat × Nat) → Nat
  | _, [] => 0
  | prev, p :: r =>
    if p.1 != (prev + 1) % 65536 || p.2 != (p.1 + delta) % 65536 then 0 else 1 + runLenP delta p.1 r

theorem rangeLenAux_map (delta : Nat) : ∀ (ps : List (Nat × Nat)) (prev : Nat),
    rangeLenAux delta prev (ps.map sing) = runLenP delta prev ps := by
  intro ps
  induction ps with
  | nil => intro prev; rfl
  | cons p ps ih => intro prev; simp [rangeLenAux, runLenP, sing, ih]

theorem runLenP_le (delta : Nat) : ∀ (ps : List (Nat × Nat)) (prev : Nat), runLenP delta prev ps ≤ ps.length := by
  intro ps
  induction ps with
  | nil => intro prev; simp [runLenP]
  | cons p ps ih =>
    intro prev
    simp only [runLenP]
    split
    · omega
    · have := ih p.1; simp only [List.length_cons]; omega

def segLen (p : Nat × Nat) (rest : List (Nat × Nat)) : Nat :=
  if rest.length + 1 > 2 then 1 + runLenP ((p.2 + 65536 - p.1) % 65536) p.1 rest else 1

def segsAux : Nat → List (Nat × Nat) → List (List (Nat × Nat))
  | 0, _ => []
  | _, [] => []
  | n + 1, p :: rest =>
    if segLen p rest > 2 then (p :: rest).take (segLen p rest) :: segsAux n ((p :: rest).drop (segLen p rest))
    else [p] :: segsAux n rest

/-- the pieces of one segment: a single mapping, or `a - b -> c - d` -/
def pcSeg (e : Explainer) (seg : List (Nat × Nat)) : List Piece :=
  match seg with
  | [] => []
  | p :: more =>
    if (p :: more).length > 2 then
      e.rangeP p.1 (more.getLast?.getD p).1 ++ arrow ++ e.rangeP p.2 (more.getLast?.getD p).2
    else e.writeGlyphList [p.1] ++ arrow ++ e.writeGlyphList [p.2]

theorem all_sing (ps : List (Nat × Nat)) :
    (ps.map sing).all (fun x => x.1.length == 1 && x.2.length == 1) = true := by
  induction ps with
  | nil => rfl
  | cons p ps ih => simp [sing] at ih ⊢

theorem seq_eq_segs (e : Explainer) : ∀ (n : Nat) (ps : List (Nat × Nat)) (sep : List Piece),
    e.seqMappingsAux true n (ps.map sing) sep =
      match segsAux n ps with
      | [] => []
      | s :: ss => sep ++ pcSeg e s ++ ss.flatMap (fun y => [commaP, sp] ++ pcSeg e y) := by
  intro n
  induction n with
  | zero => intro ps sep; cases ps <;> simp [Explainer.seqMappingsAux, segsAux]
  | succ n ih =>
    intro ps sep
    cases ps with
    | nil => simp [Explainer.seqMappingsAux, segsAux]
    | cons p rest =>
      have hall := all_sing (p :: rest)
      simp only [List.map_cons] at hall
      unfold Explainer.seqMappingsAux
      simp only [List.map_cons, hall, Bool.and_true, Bool.true_and, List.length_cons, List.length_map]
      have hrl : (if (decide (rest.length + 1 > 2)) = true then
            1 + rangeLenAux (((sing p).2.headD 0 + 65536 - (sing p).1.headD 0) % 65536) ((sing p).1.headD 0) (rest.map sing)
          else 1) = segLen p rest := by
        simp [segLen, rangeLenAux_map, sing]
      rw [hrl]
      unfold segsAux
      by_cases hr : segLen p rest > 2
      · simp only [hr, if_true]
        have hle : segLen p rest ≤ (p :: rest).length := by
          unfold segLen
          split
          · have := runLenP_le ((p.2 + 65536 - p.1) % 65536) rest p.1; simp only [List.length_cons]; omega
          · simp
        obtain ⟨k, hk⟩ : ∃ k, segLen p rest = k + 1 := ⟨segLen p rest - 1, by omega⟩
        rw [hk] at hr hle ⊢
        simp only [List.length_cons] at hle
        have hk2 : 2 ≤ k := by omega
        have hkl : k ≤ rest.length := by omega
        simp only [List.drop_succ_cons, List.take_succ_cons, Nat.add_sub_cancel]
        rw [← List.map_drop, ih]
        have hlast : (sing p :: rest.map sing).getD k (sing p) = sing ((rest.take k).getLast?.getD p) := by
          cases k with
          | zero => omega
          | succ j =>
            have hj : j < rest.length := by omega
            simp only [List.getD_cons_succ]
            rw [List.getD_eq_getElem?_getD, List.getElem?_map, List.getElem?_eq_getElem hj]
            rw [List.getLast?_eq_getElem?]
            simp only [List.length_take, Nat.min_eq_left hkl, Nat.add_sub_cancel]
            rw [List.getElem?_take_of_lt (by omega), List.getElem?_eq_getElem hj]
            simp
        rw [hlast]
        have hlen3 : (p :: rest.take k).length > 2 := by
          simp only [List.length_cons, List.length_take, Nat.min_eq_left hkl]; omega
        simp only [pcSeg, hlen3, if_true, sing, List.headD_cons]
        cases segsAux n (rest.drop k) <;> simp [List.append_assoc]
      · simp only [hr, if_false]
        rw [ih]
        simp only [pcSeg, List.length_singleton, show ¬ (1 > 2) by omega, if_false, sing]
        cases segsAux n rest <;> simp [List.append_assoc]

/-- a run found by the printer consists of consecutive glyphs on both sides -/
theorem run_struct (N delta : Nat) (hN : N < 65536) : ∀ (k : Nat) (rest : List (Nat × Nat)) (a c : Nat),
    a < N → c < N → (a + delta) % 65536 = c → k ≤ runLenP delta a rest →
    (∀ q ∈ rest, q.1 < N ∧ q.2 < N) →
    rest.take k = (List.range k).map (fun i => (a + 1 + i, c + 1 + i)) := by
  intro k
  induction k with
  | zero => intro rest a c _ _ _ _ _; simp
  | succ j ih =>
    intro rest a c ha hc hac hk hall
    cases rest with
    | nil => simp [runLenP] at hk
    | cons q r =>
      simp only [runLenP] at hk
      have hq := hall q (by simp)
      split at hk
      · omega
      · rename_i hcond
        simp only [Bool.or_eq_true, bne_iff_ne, ne_eq, not_or, Decidable.not_not] at hcond
        have h1 : q.1 = a + 1 := by have := hcond.1; omega
        have h2 : q.2 = c + 1 := by have := hcond.2; omega
        have := ih r (a + 1) (c + 1) (by omega) (by omega) (by omega) (by rw [← h1]; omega)
          (fun x hx => hall x (by simp [hx]))
        rw [List.take_succ_cons, this, List.range_succ_eq_map]
        simp only [List.map_cons, List.map_map]
        congr 1
        · cases q; simp_all
        · apply List.map_congr_left
          intro i _
          simp; omega

theorem zipInsert_fresh : ∀ (froms tos : List Nat) (m : List (Nat × Nat)) (s : PS),
    froms.length = tos.length → (∀ g ∈ froms, aget m g = none) → froms.Nodup →
    zipInsert froms tos m s = .ok (m ++ froms.zip tos, s) := by
  intro froms
  induction froms with
  | nil => intro tos m s h _ _; cases tos <;> simp [zipInsert, pure_run] at h ⊢
  | cons g gs ih =>
    intro tos m s hlen hfresh hnd
    cases tos with
    | nil => simp at hlen
    | cons t ts =>
      unfold zipInsert
      have hg := hfresh g (by simp)
      simp only [hg, Option.isSome_none, Bool.false_eq_true, if_false]
      rw [ih ts (m ++ [(g, t)]) s (by simpa using hlen) ?_ (List.nodup_cons.mp hnd).2]
      · simp
      · intro x hx
        have hx1 := hfresh x (by simp [hx])
        have hne : g ≠ x := fun e => (List.nodup_cons.mp hnd).1 (e ▸ hx)
        unfold aget at hx1 ⊢
        simp only [List.find?_append]
        cases hf : m.find? (·.1 == x) with
        | some p => rw [hf] at hx1; simp at hx1
        | none => simp [List.find?_cons, hne]

/-- one glyph item taken by the loop of `readGlyphList` -/
theorem loop_step_tok (f : Font) (t : Tok) (gs : List Nat) (h : GlyphTok f t gs) (n : Nat) (res : List Nat) (hy : Bool)
    (s : PS) (ts : List Tok) (hs : s.stream = t :: ts) :
    ∃ s1, s1.stream = ts ∧ readGlyphListLoop f (n + 1) res hy s =
      (addGids gs res hy >>= fun x => readGlyphListLoop f n x.1 x.2) s1 := by
  cases ts with
  | nil =>
    obtain ⟨s1, e1, hs1⟩ := readItem_stream s t [] hs
    refine ⟨s1, hs1, ?_⟩
    conv => lhs; unfold readGlyphListLoop
    have htake : takeIf (glyphItem f) s = .ok (some t, s1) := by
      unfold takeIf; rw [bind_run, e1]; simp [glyphTok_item f t gs h, pure_run]
    rw [bind_run, htake]
    simp only []
    rcases h with ⟨h1, g, h2, rfl⟩ | ⟨h1, g, h2, h3, h4, rfl⟩ | ⟨h1, h2, rfl, h4⟩
    · simp only [h1, beq_self_eq_true, if_true, h2]
    · have e3 : (tInteger == tIdentifier) = false := by decide
      have e4 : (tInteger == tString) = false := by decide
      have e5 : (decide (g ≥ 65536) || decide (g ≥ f.numGlyphs)) = false := by simp; omega
      simp only [h1, e3, e4, Bool.false_eq_true, if_false, beq_self_eq_true, if_true, h2, e5]
    · have e3 : (tString == tIdentifier) = false := by decide
      simp only [h1, e3, Bool.false_eq_true, if_false, beq_self_eq_true, if_true, h2, bind_run,
        mapRunes_ok f _ s1 h4]
  | cons u us =>
    obtain ⟨s1, e1, hs1⟩ := readItem_stream s t (u :: us) hs
    refine ⟨s1, hs1, ?_⟩
    conv => lhs; unfold readGlyphListLoop
    have htake : takeIf (glyphItem f) s = .ok (some t, s1) := by
      unfold takeIf; rw [bind_run, e1]; simp [glyphTok_item f t gs h, pure_run]
    rw [bind_run, htake]
    simp only []
    rcases h with ⟨h1, g, h2, rfl⟩ | ⟨h1, g, h2, h3, h4, rfl⟩ | ⟨h1, h2, rfl, h4⟩
    · simp only [h1, beq_self_eq_true, if_true, h2]
    · have e3 : (tInteger == tIdentifier) = false := by decide
      have e4 : (tInteger == tString) = false := by decide
      have e5 : (decide (g ≥ 65536) || decide (g ≥ f.numGlyphs)) = false := by simp; omega
      simp only [h1, e3, e4, Bool.false_eq_true, if_false, beq_self_eq_true, if_true, h2, e5]
    · have e3 : (tString == tIdentifier) = false := by decide
      simp only [h1, e3, Bool.false_eq_true, if_false, beq_self_eq_true, if_true, h2, bind_run,
        mapRunes_ok f _ s1 h4]

theorem loop_step_hyphen (f : Font) (t : Tok) (ht : t.typ = tHyphen) (n : Nat) (res : List Nat)
    (s : PS) (ts : List Tok) (hs : s.stream = t :: ts) :
    ∃ s1, s1.stream = ts ∧ readGlyphListLoop f (n + 1) res false s = readGlyphListLoop f n res true s1 := by
  obtain ⟨s1, e1, hs1⟩ := readItem_stream s t ts hs
  refine ⟨s1, hs1, ?_⟩
  conv => lhs; unfold readGlyphListLoop
  have htake : takeIf (glyphItem f) s = .ok (some t, s1) := by
    unfold takeIf; rw [bind_run, e1]; simp [glyphItem, ht, pure_run]
  rw [bind_run, htake]
  simp [ht, tHyphen, tIdentifier, tString, tInteger]

theorem loop_step_stop (f : Font) (t : Tok) (ht : glyphItem f t = false) (n : Nat) (res : List Nat)
    (s : PS) (ts : List Tok) (hs : s.stream = t :: ts) :
    ∃ s1, s1.stream = t :: ts ∧ readGlyphListLoop f (n + 1) res false s = .ok (res, s1) := by
  obtain ⟨s1, e1, hs1⟩ := runs_takeIf_no (glyphItem f) s t ts (by simpa using hs) ht
  refine ⟨s1, hs1, ?_⟩
  unfold readGlyphListLoop
  rw [bind_run, e1]
  simp [pure_run]

theorem hyphen_space_ok : TokOk tHyphen (ascii [45]) (some 32) :=
  hyphen_tokOk _ (by intro r hr; cases hr; exact ⟨by decide, by decide⟩)

/-- `a - b` with `a < b`, read by `readGlyphList` as `a, a+1, …, b` -/
theorem frag_range (f : Font) (hf : FontOk f) (a b : Nat) (hab : a < b) (hb : b < f.numGlyphs) (fuel : Nat)
    (hfuel : 4 ≤ fuel) :
    Frag (readGlyphList f fuel) ((newExplainer f).rangeP a b) ((List.range (b - a + 1)).map (a + ·))
      (fun t => glyphItem f t = false) Safe := by
  obtain ⟨⟨typA, valA, hpA, htokA, hokA⟩, hcanA⟩ := nameP_piece f hf a (by omega)
  obtain ⟨⟨typB, valB, hpB, htokB, hokB⟩, hcanB⟩ := nameP_piece f hf b hb
  have hneA : ∀ line, nextLine typA line = line := by
    intro line
    have := glyphTok_not_eol f _ _ (htokA line)
    simp only [nextLine] at this ⊢
    rw [if_neg this]
  have hpieces : (newExplainer f).rangeP a b =
      [.tok typA valA, .ws [a1 32], .tok tHyphen (ascii [45]), .ws [a1 32], .tok typB valB] := by
    simp [Explainer.rangeP, hpA, hpB, sp, hyphenP, tk]
  rw [hpieces]
  refine ⟨?_, ?_, ?_⟩
  · intro nx hnx
    refine ⟨hokA _ ?_, ⟨fun c hc => (ws_sp c hc).1, ⟨?_, ⟨fun c hc => (ws_sp c hc).1, ⟨hokB _ ?_, trivial⟩⟩⟩⟩⟩
    · simpa [nextRune, render, Piece.rbs, a1] using safe_space
    · simpa [nextRune, render, Piece.rbs, a1] using hyphen_space_ok
    · simpa [nextRune, render] using hnx
  · intro rb hrb
    simp only [render, List.flatMap_cons, List.flatMap_nil, Piece.rbs, List.append_nil, List.mem_append] at hrb
    rcases hrb with h | h | h | h | h
    · apply hcanA; rw [hpA]; exact h
    · exact (ws_sp rb h).2
    · exact ascii_canon [45] (by decide) rb h
    · exact (ws_sp rb h).2
    · apply hcanB; rw [hpB]; exact h
  · intro line s t rest hs ht
    have htoks : mkToks line [.tok typA valA, .ws [a1 32], .tok tHyphen (ascii [45]), .ws [a1 32], .tok typB valB] =
        [{ typ := typA, val := valA, line := line }, { typ := tHyphen, val := ascii [45], line := line },
         { typ := typB, val := valB, line := line }] := by
      have := hneA line
      simp only [mkToks, this]
      simp [nextLine, tHyphen, tEOL]
    rw [htoks] at hs
    obtain ⟨n, rfl⟩ : ∃ n, fuel = n + 4 := ⟨fuel - 4, by omega⟩
    unfold readGlyphList
    obtain ⟨s1, hs1, e1⟩ := loop_step_tok f _ [a] (htokA line) (n + 3) [] false s _ (by simpa using hs)
    rw [e1, bind_run, addGids_nohy]
    simp only [List.nil_append]
    obtain ⟨s2, hs2, e2⟩ := loop_step_hyphen f _ rfl (n + 2) [a] s1 _ hs1
    rw [e2]
    obtain ⟨s3, hs3, e3⟩ := loop_step_tok f _ [b] (htokB line) (n + 1) [a] true s2 _ hs2
    rw [e3, bind_run]
    have hadd : addGids [b] [a] true s3 = .ok (([a] ++ rangeTo a b, false), s3) := by
      simp [addGids, pure_run]
    rw [hadd]
    simp only []
    obtain ⟨s4, hs4, e4⟩ := loop_step_stop f t ht n ([a] ++ rangeTo a b) s3 rest hs3
    refine ⟨s4, ?_, hs4⟩
    rw [e4]
    have : [a] ++ rangeTo a b = (List.range (b - a + 1)).map (a + ·) := by
      unfold rangeTo
      have : ¬ b < a := by omega
      simp only [this, if_false]
      rw [List.range_succ_eq_map]
      simp only [List.map_cons, List.map_map, Nat.add_zero, List.singleton_append]
      congr 1
      apply List.map_congr_left
      intro i _
      simp; omega
    rw [this]

/-- what a segment found by the printer looks like -/
def SegOk (N : Nat) (seg : List (Nat × Nat)) : Prop :=
  (∃ p, seg = [p] ∧ p.1 < N ∧ p.2 < N) ∨
  (∃ a c k, 2 ≤ k ∧ seg = (List.range (k + 1)).map (fun i => (a + i, c + i)) ∧ a + k < N ∧ c + k < N ∧
    ∀ e : Explainer, pcSeg e seg = e.rangeP a (a + k) ++ arrow ++ e.rangeP c (c + k))

theorem segs_ok (N : Nat) (hN : N < 65536) : ∀ (n : Nat) (ps : List (Nat × Nat)),
    (∀ q ∈ ps, q.1 < N ∧ q.2 < N) → ∀ seg ∈ segsAux n ps, SegOk N seg := by
  intro n
  induction n with
  | zero => intro ps _ seg h; cases ps <;> simp [segsAux] at h
  | succ n ih =>
    intro ps hall seg hseg
    cases ps with
    | nil => simp [segsAux] at hseg
    | cons p rest =>
      have hp := hall p (by simp)
      unfold segsAux at hseg
      by_cases hr : segLen p rest > 2
      · simp only [hr, if_true, List.mem_cons] at hseg
        rcases hseg with rfl | hseg
        · right
          unfold segLen at hr ⊢
          split at hr
          · rename_i hlen
            simp only [hlen, if_true]
            let k := runLenP ((p.2 + 65536 - p.1) % 65536) p.1 rest
            have hk2 : 2 ≤ k := by simp only [k]; omega
            have hst := run_struct N ((p.2 + 65536 - p.1) % 65536) hN k rest p.1 p.2 hp.1 hp.2 (by omega)
              (Nat.le_refl _) (fun q hq => hall q (by simp [hq]))
            have hkl : k ≤ rest.length := runLenP_le _ rest p.1
            have hlastmem : (p.1 + k, p.2 + k) ∈ rest := by
              have : (p.1 + k, p.2 + k) ∈ rest.take k := by
                rw [hst]
                simp only [List.mem_map, List.mem_range]
                exact ⟨k - 1, by omega, by simp; omega⟩
              exact List.mem_of_mem_take this
            have hb := hall _ (List.mem_cons_of_mem p hlastmem)
            have hseq : (p :: rest).take (1 + k) = (List.range (k + 1)).map (fun i => (p.1 + i, p.2 + i)) := by
              rw [Nat.add_comm 1 k, List.take_succ_cons, hst, List.range_succ_eq_map]
              simp only [List.map_cons, List.map_map, Nat.add_zero]
              congr 1
              apply List.map_congr_left
              intro i _
              simp; omega
            refine ⟨p.1, p.2, k, hk2, hseq, hb.1, hb.2, ?_⟩
            intro e
            rw [Nat.add_comm 1 k, List.take_succ_cons]
            have hlen3 : (p :: rest.take k).length > 2 := by
              simp only [List.length_cons, List.length_take, Nat.min_eq_left hkl]; omega
            have hlast : (rest.take k).getLast?.getD p = (p.1 + k, p.2 + k) := by
              rw [hst, List.getLast?_eq_getElem?]
              simp only [List.length_map, List.length_range]
              rw [List.getElem?_map, List.getElem?_range (by omega)]
              simp; omega
            simp only [pcSeg, hlen3, if_true, hlast]
          · omega
        · exact ih _ (fun q hq => hall q (List.mem_of_mem_drop hq)) seg hseg
      · simp only [hr, if_false, List.mem_cons] at hseg
        rcases hseg with rfl | hseg
        · left; exact ⟨p, rfl, hp.1, hp.2⟩
        · exact ih rest (fun q hq => hall q (by simp [hq])) seg hseg

theorem segs_flatten : ∀ (n : Nat) (ps : List (Nat × Nat)), ps.length ≤ n → (segsAux n ps).flatten = ps := by
  intro n
  induction n with
  | zero => intro ps h; cases ps <;> simp_all [segsAux]
  | succ n ih =>
    intro ps h
    cases ps with
    | nil => simp [segsAux]
    | cons p rest =>
      unfold segsAux
      by_cases hr : segLen p rest > 2
      · simp only [hr, if_true, List.flatten_cons]
        rw [ih _ (by simp at h ⊢; omega)]
        exact List.take_append_drop _ _
      · simp only [hr, if_false, List.flatten_cons]
        rw [ih rest (by simp at h; omega)]
        rfl

theorem segs_ne (n : Nat) (p : Nat × Nat) (rest : List (Nat × Nat)) : segsAux (n + 1) (p :: rest) ≠ [] := by
  unfold segsAux
  split <;> simp

theorem foldl_append_flatten {β : Type} (l : List (List β)) : ∀ acc : List β,
    l.foldl (fun m s => m ++ s) acc = acc ++ l.flatten := by
  induction l with
  | nil => intro acc; simp
  | cons x l ih => intro acc; simp [ih, List.append_assoc]

theorem aget_none_of_lt {β : Type} (pre : List (Nat × β)) (k : Nat) (h : ∀ p ∈ pre, p.1 < k) : aget pre k = none := by
  unfold aget
  cases hf : pre.find? (·.1 == k) with
  | none => rfl
  | some p =>
    exfalso
    have hm := List.mem_of_find?_eq_some hf
    have he := List.find?_some hf
    simp at he
    have := h p hm
    omega

theorem zip_map_same {α β γ : Type} (l : List α) (f : α → β) (g : α → γ) :
    (l.map f).zip (l.map g) = l.map fun i => (f i, g i) := by
  induction l with
  | nil => rfl
  | cons x l ih => simp [ih]

/-- what `readGsub1` builds from the mappings it has collected -/
def gsub1Result (res : List (Nat × Nat)) : Subtable :=
  let cov := keysAsc res
  let deltas := res.map fun p => (p.2 + 65536 - p.1) % 65536
  let d0 := deltas.headD 0
  if deltas.all (· == d0) then Subtable.gsub1_1 cov d0
  else Subtable.gsub1_2 cov (cov.map fun g => (aget res g).getD 0)

theorem frag_gsub1P (f : Font) (hf : FontOk f) (ps : List (Nat × Nat)) (hne : ps ≠ [])
    (hasc : Asc (ps.map (·.1))) (hin : ∀ q ∈ ps, q.1 < f.numGlyphs ∧ q.2 < f.numGlyphs) (fuel : Nat)
    (hfuel : tokCount ((newExplainer f).seqMappings (ps.map sing) true) < fuel) :
    Frag (gsub1Sub f fuel) ((newExplainer f).seqMappings (ps.map sing) true) (gsub1Result ps) SubStop Safe := by
  have hN := hf.small
  cases ps with
  | nil => exact absurd rfl hne
  | cons p0 prest =>
    have hsegsne := segs_ne prest.length p0 prest
    have hseq : (newExplainer f).seqMappings ((p0 :: prest).map sing) true =
        match segsAux (prest.length + 1) (p0 :: prest) with
        | [] => []
        | s :: ss => [sp] ++ pcSeg (newExplainer f) s ++ ss.flatMap (fun y => [commaP, sp] ++ pcSeg (newExplainer f) y) := by
      unfold Explainer.seqMappings
      rw [List.length_map, List.length_cons, seq_eq_segs]
    rw [hseq] at hfuel ⊢
    have hflat := segs_flatten (prest.length + 1) (p0 :: prest) (by simp)
    have hok := segs_ok f.numGlyphs hN (prest.length + 1) (p0 :: prest) hin
    cases hsegs : segsAux (prest.length + 1) (p0 :: prest) with
    | nil => exact absurd hsegs hsegsne
    | cons s0 ss =>
      rw [hsegs] at hflat hok hfuel
      simp only at hfuel ⊢
      let pc := pcSeg (newExplainer f)
      have hpieces : [sp] ++ pc s0 ++ ss.flatMap (fun y => [commaP, sp] ++ pc y) =
          .ws [a1 32] :: ((pc s0 ++ ss.flatMap (fun y => [commaP, sp] ++ pc y)) ++ []) := by simp [sp]
      show Frag _ ([sp] ++ pc s0 ++ ss.flatMap (fun y => [commaP, sp] ++ pc y)) _ _ _
      have hfuel' : tokCount (pc s0 ++ ss.flatMap (fun y => [commaP, sp] ++ pc y)) < fuel := by
        have : tokCount ([sp] ++ pc s0 ++ ss.flatMap (fun y => [commaP, sp] ++ pc y)) < fuel := hfuel
        simpa [tokCount_append, tokCount, sp] using this
      rw [hpieces]
      have hpc_le : ∀ sg ∈ s0 :: ss, tokCount (pc sg) < fuel := by
        intro sg hsg
        simp only [List.mem_cons] at hsg
        rw [tokCount_append] at hfuel'
        rcases hsg with rfl | hsg
        · omega
        · have := tokCount_flatMap_mem (fun y => [commaP, sp] ++ pc y) ss sg hsg
          simp only [tokCount_append] at this
          omega
      have hlenr : ss.length < fuel := by
        have := length_le_tokCount_flatMap (fun y => [commaP, sp] ++ pc y) ss (by
          intro x _; simp [tokCount_append, commaP, tk, tokCount])
        rw [tokCount_append] at hfuel'
        omega
      apply frag_ws [a1 32] ws_sp
      unfold gsub1Sub
      have hres : (s0 :: ss).foldl (fun (m : List (Nat × Nat)) (sg : List (Nat × Nat)) => m ++ sg) [] = p0 :: prest := by
        rw [foldl_append_flatten]; simpa using hflat
      refine frag_bind (frag_pairsLoop _ pc (fun (m : List (Nat × Nat)) (sg : List (Nat × Nat)) => m ++ sg)
        SubStop (fun t => glyphItem f t = false) Safe Safe
        (fun t ht => ⟨by rcases ht with h | h | h <;> simp [h, tOr, tEOL, tEOF, tComma], subStop_noGlyph f t ht⟩)
        (fun t ht => comma_noGlyph f t ht) (fun _ h => h) safe_comma
        ss [] s0 fuel hlenr (fun i hi line => ?_) ?_) ?_ (fun nx h => by simpa [nextRune, render] using h)
          (fun line t ht => by simpa [mkToks] using ht)
      · -- the first item of a segment is a glyph name
        have hsi := hok i (by simp [hi])
        rcases hsi with ⟨p, rfl, _, _⟩ | ⟨a, c, k, _, _, _, _, hpcs⟩
        · obtain ⟨typ, val, hw, hty⟩ := writeGlyph_isTok (newExplainer f) p.1
          refine ⟨{ typ := typ, val := val, line := line }, ?_, by simpa using hty⟩
          simp [pc, pcSeg, Explainer.writeGlyphList, hw, mkToks]
        · obtain ⟨typ, val, hw, hty⟩ := nameP_typ (newExplainer f) a
          refine ⟨{ typ := typ, val := val, line := line }, ?_, ?_⟩
          · simp [pc, hpcs, Explainer.rangeP, hw, mkToks]
          · rcases hty with h | h | h <;> simp [h, tIdentifier, tInteger, tString, tEOL]
      · intro pre sg post e
        have hsg : sg ∈ s0 :: ss := by rw [e]; simp
        have hpre : pre.foldl (fun (m : List (Nat × Nat)) (sg : List (Nat × Nat)) => m ++ sg) [] = pre.flatten := by
          rw [foldl_append_flatten]; simp
        have hpre' : (pre ++ [sg]).foldl (fun (m : List (Nat × Nat)) (sg : List (Nat × Nat)) => m ++ sg) [] = pre.flatten ++ sg := by
          rw [foldl_append_flatten]; simp
        rw [hpre, hpre']
        -- the glyphs of this segment have not been mapped before
        have hfl : p0 :: prest = pre.flatten ++ (sg ++ post.flatten) := by
          rw [← hflat, e]; simp
        have hascf : Asc ((pre.flatten ++ (sg ++ post.flatten)).map (·.1)) := by rw [← hfl]; exact hasc
        have hfresh : ∀ q ∈ sg, aget pre.flatten q.1 = none := by
          intro q hq
          apply aget_none_of_lt
          intro p hp
          simp only [Asc, List.map_append, List.pairwise_append] at hascf
          exact hascf.2.2 p.1 (List.mem_map.mpr ⟨p, hp, rfl⟩) q.1
            (List.mem_append.mpr (Or.inl (List.mem_map.mpr ⟨q, hq, rfl⟩)))
        have hnd : (sg.map (·.1)).Nodup := by
          simp only [Asc, List.map_append, List.pairwise_append] at hascf
          exact (hascf.2.1.1).imp (fun h => Nat.ne_of_lt h)
        have hfi := hpc_le sg hsg
        rcases hok sg hsg with ⟨p, rfl, hp1, hp2⟩ | ⟨a, c, k, hk, rfl, ha, hc, hpcs⟩
        · -- a single mapping
          have h3 : 3 ≤ tokCount (pc [p]) := by
            obtain ⟨t1, v1, hw1, _⟩ := writeGlyph_isTok (newExplainer f) p.1
            obtain ⟨t2, v2, hw2, _⟩ := writeGlyph_isTok (newExplainer f) p.2
            simp [pc, pcSeg, Explainer.writeGlyphList, hw1, hw2, tokCount_append, tokCount, arrow, sp, tk]
          have hg := frag_glyph f hf p.1 hp1 fuel (by omega)
          have hl := frag_glyph f hf p.2 hp2 fuel (by omega)
          have hpcs : pc [p] = [(newExplainer f).writeGlyph p.1] ++ (arrow ++ ([(newExplainer f).writeGlyph p.2] ++ [])) := by
            simp [pc, pcSeg, Explainer.writeGlyphList]
          rw [hpcs]
          refine frag_bind hg ?_ (fun nx _ => by
              have : nextRune (arrow ++ ([(newExplainer f).writeGlyph p.2] ++ [])) nx = some 32 := by
                simp [nextRune, render, arrow, sp, Piece.rbs, a1]
              rw [this]; exact safe_space)
            (fun line t _ => by apply arrow_noGlyph; simp [mkToks, arrow, sp, tk])
          apply frag_arrow_then
          refine frag_bind hl ?_ (fun nx h => by simpa [nextRune, render] using h)
            (fun line t ht => by simpa [mkToks] using ht)
          simp only [List.length_singleton, bne_self_eq_false, Bool.false_eq_true, if_false]
          have hz : ∀ s, zipInsert [p.1] [p.2] pre.flatten s = .ok (pre.flatten ++ [p], s) := by
            intro s
            have := zipInsert_fresh [p.1] [p.2] pre.flatten s rfl (by
              intro g hg; simp at hg; subst hg; exact hfresh p (by simp)) (by simp)
            simpa using this
          refine ⟨fun _ _ => trivial, by simp [render], fun line s t rest hs _ => ⟨s, hz s, by simpa [mkToks] using hs⟩⟩
        · -- a range
          rw [show pc ((List.range (k + 1)).map fun i => (a + i, c + i)) = _ from hpcs (newExplainer f)] at hfi ⊢
          have h7 : 7 ≤ tokCount ((newExplainer f).rangeP a (a + k) ++ arrow ++ (newExplainer f).rangeP c (c + k)) := by
            obtain ⟨t1, v1, hw1, _⟩ := nameP_typ (newExplainer f) a
            obtain ⟨t2, v2, hw2, _⟩ := nameP_typ (newExplainer f) (a + k)
            obtain ⟨t3, v3, hw3, _⟩ := nameP_typ (newExplainer f) c
            obtain ⟨t4, v4, hw4, _⟩ := nameP_typ (newExplainer f) (c + k)
            simp [Explainer.rangeP, hw1, hw2, hw3, hw4, tokCount_append, tokCount, arrow, sp, tk, hyphenP]
          have hg := frag_range f hf a (a + k) (by omega) ha fuel (by omega)
          have hl := frag_range f hf c (c + k) (by omega) hc fuel (by omega)
          have e1 : a + k - a + 1 = k + 1 := by omega
          have e2 : c + k - c + 1 = k + 1 := by omega
          rw [e1] at hg
          rw [e2] at hl
          have hpc2 : (newExplainer f).rangeP a (a + k) ++ arrow ++ (newExplainer f).rangeP c (c + k) =
              (newExplainer f).rangeP a (a + k) ++ (arrow ++ ((newExplainer f).rangeP c (c + k) ++ [])) := by simp
          rw [hpc2]
          refine frag_bind hg ?_ (fun nx _ => by
              have : nextRune (arrow ++ ((newExplainer f).rangeP c (c + k) ++ [])) nx = some 32 := by
                simp [nextRune, render, arrow, sp, Piece.rbs, a1]
              rw [this]; exact safe_space)
            (fun line t _ => by apply arrow_noGlyph; simp [mkToks, arrow, sp, tk])
          apply frag_arrow_then
          refine frag_bind hl ?_ (fun nx h => by simpa [nextRune, render] using h)
            (fun line t ht => by simpa [mkToks] using ht)
          simp only [List.length_map, List.length_range, bne_self_eq_false, Bool.false_eq_true, if_false]
          have hzip : ((List.range (k + 1)).map (a + ·)).zip ((List.range (k + 1)).map (c + ·)) =
              (List.range (k + 1)).map fun i => (a + i, c + i) := by
            exact zip_map_same _ _ _
          have hz : ∀ s, zipInsert ((List.range (k + 1)).map (a + ·)) ((List.range (k + 1)).map (c + ·)) pre.flatten s =
              .ok (pre.flatten ++ ((List.range (k + 1)).map fun i => (a + i, c + i)), s) := by
            intro s
            have := zipInsert_fresh ((List.range (k + 1)).map (a + ·)) ((List.range (k + 1)).map (c + ·)) pre.flatten s
              (by simp) (by
                intro g hg
                simp only [List.mem_map, List.mem_range] at hg
                obtain ⟨i, hi, rfl⟩ := hg
                exact hfresh (a + i, c + i) (by simp only [List.mem_map, List.mem_range]; exact ⟨i, hi, rfl⟩))
              (by simpa [List.map_map, Function.comp_def] using hnd)
            rw [hzip] at this
            exact this
          refine ⟨fun _ _ => trivial, by simp [render], fun line s t rest hs _ => ⟨s, hz s, by simpa [mkToks] using hs⟩⟩
      · rw [hres]
        simp only [List.isEmpty_cons, Bool.false_eq_true, if_false]
        exact frag_weaken (frag_pure _ SubStop) (fun _ h => h) (fun _ _ => trivial)

structure Gsub11Ok (f : Font) (cov : List Nat) (delta : Nat) : Prop where
  ne : cov ≠ []
  asc : Asc cov
  dlt : delta < 65536
  covIn : ∀ g ∈ cov, g < f.numGlyphs ∧ (g + delta) % 65536 < f.numGlyphs

structure Gsub12Ok (f : Font) (cov subst : List Nat) : Prop where
  ne : cov ≠ []
  asc : Asc cov
  len : cov.length = subst.length
  covIn : ∀ g ∈ cov, g < f.numGlyphs
  substIn : ∀ g ∈ subst, g < f.numGlyphs

def Gsub1Sub (f : Font) (st : Subtable) : Prop :=
  (∃ cov delta, st = .gsub1_1 cov delta ∧ Gsub11Ok f cov delta) ∨
  (∃ cov subst, st = .gsub1_2 cov subst ∧ Gsub12Ok f cov subst)

/-- the mappings a GSUB 1 subtable stands for -/
def gsub1Pairs : Subtable → List (Nat × Nat)
  | .gsub1_1 cov delta => cov.map fun g => (g, (g + delta) % 65536)
  | .gsub1_2 cov subst => cov.zip subst
  | _ => []

theorem gsub1_pieces (f : Font) (hf : FontOk f) (first : Bool) (st : Subtable) (h : Gsub1Sub f st) :
    (newExplainer f).subtable first st = (newExplainer f).seqMappings ((gsub1Pairs st).map sing) true ∧
    gsub1Pairs st ≠ [] ∧ Asc ((gsub1Pairs st).map (·.1)) ∧
    (∀ q ∈ gsub1Pairs st, q.1 < f.numGlyphs ∧ q.2 < f.numGlyphs) ∧ gsub1Result (gsub1Pairs st) = normSub st := by
  have hN := hf.small
  rcases h with ⟨cov, delta, rfl, hok⟩ | ⟨cov, subst, rfl, hok⟩
  · obtain ⟨hne, hasc, hd, hcov⟩ := hok
    have hfst : (cov.map fun g => (g, (g + delta) % 65536)).map (·.1) = cov := by simp [List.map_map, Function.comp_def]
    refine ⟨by simp [Explainer.subtable, gsub1Pairs, List.map_map, Function.comp_def, sing], ?_, ?_, ?_, ?_⟩
    · simpa [gsub1Pairs] using hne
    · simp only [gsub1Pairs]; rw [hfst]; exact hasc
    · intro q hq
      simp only [gsub1Pairs, List.mem_map] at hq
      obtain ⟨g, hg, rfl⟩ := hq
      exact hcov g hg
    · have hdel : (cov.map fun g => (g, (g + delta) % 65536)).map (fun p => (p.2 + 65536 - p.1) % 65536) =
          cov.map fun _ => delta := by
        rw [List.map_map]
        apply List.map_congr_left
        intro g hg
        have := (hcov g hg).1
        simp only [Function.comp_apply]
        omega
      cases cov with
      | nil => exact absurd rfl hne
      | cons g0 cov' =>
        simp only [gsub1Pairs, gsub1Result, normSub, keysAsc]
        simp only [hfst, sortUnique_asc _ hasc, hdel]
        simp
  · obtain ⟨hne, hasc, hlen, hcov, hsub⟩ := hok
    refine ⟨by simp only [Explainer.subtable, gsub1Pairs]; rfl, ?_, ?_, ?_, ?_⟩
    · cases cov with
      | nil => exact absurd rfl hne
      | cons g cov' => cases subst with
        | nil => simp at hlen
        | cons t subst' => simp [gsub1Pairs]
    · simp only [gsub1Pairs]; rw [List.map_fst_zip (by omega)]; exact hasc
    · intro q hq
      have := List.of_mem_zip hq
      exact ⟨hcov _ this.1, hsub _ this.2⟩
    · simp only [gsub1Pairs, gsub1Result, normSub]
      rw [keys_zip cov subst hasc hlen, aget_zip 0 cov subst hasc hlen]
      rfl

theorem gsub1_form (f : Font) (hf : FontOk f) : SubForm f (gsub1Sub f) (Gsub1Sub f) := by
  refine ⟨?_, ?_, ?_⟩
  · intro st hst first fuel hfuel
    obtain ⟨hp, hne, hasc, hin, hres⟩ := gsub1_pieces f hf first st hst
    rw [hp] at hfuel ⊢
    rw [← hres]
    exact frag_gsub1P f hf _ hne hasc hin fuel hfuel
  · intro st hst first
    obtain ⟨hp, hne, _, _, _⟩ := gsub1_pieces f hf first st hst
    rw [hp]
    cases hps : gsub1Pairs st with
    | nil => exact absurd hps hne
    | cons p0 prest =>
      unfold Explainer.seqMappings
      rw [List.length_map, List.length_cons, seq_eq_segs]
      cases hsegs : segsAux (prest.length + 1) (p0 :: prest) with
      | nil => exact absurd hsegs (segs_ne _ _ _)
      | cons s0 ss =>
        exact ⟨pcSeg (newExplainer f) s0 ++ ss.flatMap (fun y => [commaP, sp] ++ pcSeg (newExplainer f) y), by simp [sp]⟩
  · intro st hst first line
    obtain ⟨hp, hne, _, hin, _⟩ := gsub1_pieces f hf first st hst
    rw [hp]
    cases hps : gsub1Pairs st with
    | nil => exact absurd hps hne
    | cons p0 prest =>
      unfold Explainer.seqMappings
      rw [List.length_map, List.length_cons, seq_eq_segs]
      have hok := segs_ok f.numGlyphs hf.small (prest.length + 1) (p0 :: prest) (by rw [← hps]; exact hin)
      cases hsegs : segsAux (prest.length + 1) (p0 :: prest) with
      | nil => exact absurd hsegs (segs_ne _ _ _)
      | cons s0 ss =>
        rw [hsegs] at hok
        simp only
        rcases hok s0 (by simp) with ⟨p, rfl, _, _⟩ | ⟨a, c, k, _, _, _, _, hpcs⟩
        · obtain ⟨typ, val, hw, hty⟩ := writeGlyph_typ (newExplainer f) p.1
          refine ⟨{ typ := typ, val := val, line := line }, by simp [pcSeg, Explainer.writeGlyphList, hw, mkToks, sp], ?_⟩
          rcases hty with h | h | h <;> simp [h, tIdentifier, tInteger, tString, tHyphen, tEOL]
        · obtain ⟨typ, val, hw, hty⟩ := nameP_typ (newExplainer f) a
          refine ⟨{ typ := typ, val := val, line := line }, by simp [hpcs, Explainer.rangeP, hw, mkToks, sp], ?_⟩
          rcases hty with h | h | h <;> simp [h, tIdentifier, tInteger, tString, tHyphen, tEOL]

theorem gsub1_dispatch (f : Font) (fuel : Nat) (t : Tok) (n : Nat) (acc : List Lookup) (s s1 : PS)
    (h : readItem s = .ok (t, s1)) (ht : t.typ = tIdentifier) (hb : t.bytes = [71, 83, 85, 66] ++ decimal 1) :
    parseLoop f fuel (n + 1) acc s = (readGsub1 f fuel >>= fun l => parseLoop f fuel n (acc ++ [l])) s1 := by
  have hd : decimal 1 = [49] := by decide
  rw [hd] at hb
  conv => lhs; unfold parseLoop
  rw [bind_run, h]
  simp [ht, isIdent, hb, kwGSUB, tIdentifier, tEOF, tError, tSemicolon, tEOL]

structure Lookup1Ok (f : Font) (l : Lookup) : Prop where
  typ : l.typ = 1
  flags : l.flags < 16
  ne : l.subtables ≠ []
  subs : ∀ st ∈ l.subtables, Gsub1Sub f st

theorem form1 (f : Font) (hf : FontOk f) : LookForm f 1 (readGsub1 f) (gsub1Sub f) (Gsub1Sub f) :=
  ⟨gsub1_form f hf, fun _ => rfl, gsub_kw_ok 1 (by decide), gsub1_dispatch f⟩

/-- GSUB 1: a 1.2 table with constant offset comes back as 1.1 (`normalize`) -/
theorem roundtrip_gsub1 (f : Font) (hf : FontOk f) (ls : List Lookup) (h : ∀ l ∈ ls, Lookup1Ok f l) :
    parseBytes f (explainGsub f ls) = .ok (normalize ls) :=
  roundtrip_gsub_generic f 1 (readGsub1 f) (gsub1Sub f) (Gsub1Sub f) (gsub1_form f hf)
    (fun fuel => rfl) (gsub_kw_ok 1 (by decide)) (gsub1_dispatch f) ls
    (fun l hl => ⟨(h l hl).typ, (h l hl).flags, (h l hl).ne, (h l hl).subs⟩)

/-- lookups of any of the GSUB types 1–4 -/
def Gsub14Ok (f : Font) (l : Lookup) : Prop := Lookup1Ok f l ∨ GsubLookOk f l

/-- descriptions mixing lookups of GSUB types 1, 2, 3 and 4 -/
theorem roundtrip_gsub14_lists (f : Font) (hf : FontOk f) (ls : List Lookup) (h : ∀ l ∈ ls, Gsub14Ok f l) :
    parseBytes f (explainGsub f ls) = .ok (normalize ls) := by
  have hne : ∀ l ∈ ls, l.subtables ≠ [] := by
    intro l hl
    rcases h l hl with h1 | h2
    · exact h1.ne
    · exact gsubLookOk_ne f l h2
  refine roundtrip_of_items f ls hne ?_
  intro l hl
  have hb : tokCount (bodyP f l) + 5 ≤ tokCount (gsubText f ls) + 3 := by
    have := tokCount_flatMap_mem (fun l => tk tIdentifier ([71, 83, 85, 66] ++ decimal l.typ) :: (bodyP f l ++ [eolP])) ls l hl
    simp only [gsubText]
    simp [tokCount_append, tokCount, tk, eolP] at this ⊢
    omega
  rcases h l hl with h1 | h2 | h3 | h4
  · exact item_of_form f 1 _ _ _ (form1 f hf) l h1.typ h1.flags h1.ne h1.subs _ hb
  · exact item_of_form f 2 _ _ _ (form2 f hf) l h2.typ h2.flags h2.ne h2.subs _ hb
  · exact item_of_form f 3 _ _ _ (form3 f hf) l h3.typ h3.flags h3.ne h3.subs _ hb
  · exact item_of_form f 4 _ _ _ (form4 f hf) l h4.typ h4.flags h4.ne h4.subs _ hb

end SfntV.Dsl
