/-
Lemmas about the coverage-table model (C08).
-/
import SfntV.Model.OtlCoverage
import SfntV.Proofs.OtlBase

namespace SfntV.Otl.Cov
open SfntV SfntV.Otl

/-- The valid coverage tables: glyph ids strictly increasing, each a 16-bit value. -/
structure Valid (gs : List Nat) : Prop where
  sorted : gs.Pairwise (· < ·)
  small : ∀ g ∈ gs, g < 65536

theorem increasing_of_pairwise : ∀ (gs : List Nat), gs.Pairwise (· < ·) → increasing gs = true
  | [], _ => rfl
  | [_], _ => rfl
  | a :: b :: r, h => by
    rw [List.pairwise_cons] at h
    simp only [increasing, Bool.and_eq_true, decide_eq_true_eq]
    exact ⟨h.1 b (by simp), increasing_of_pairwise (b :: r) h.2⟩

theorem rangeCount_succ_eq_numRuns : ∀ (g : Nat) (gs : List Nat),
    rangeCountFrom g gs + 1 = numRuns (g :: gs)
  | _, [] => rfl
  | g, b :: r => by
    simp only [rangeCountFrom, numRuns]
    have := rangeCount_succ_eq_numRuns b r
    omega

theorem rangeCount_first (g : Nat) (gs : List Nat) (hg : g < 65536) :
    rangeCountFrom 0xFFFF (g :: gs) = 1 + rangeCountFrom g gs := by
  simp only [rangeCountFrom]
  have : ¬ g = 65535 + 1 := by omega
  simp [this]

theorem rangeCount_eq_numRuns (gs : List Nat) (h : ∀ g ∈ gs, g < 65536) :
    rangeCountFrom 0xFFFF gs = numRuns gs := by
  cases gs with
  | nil => rfl
  | cons g gs =>
    rw [rangeCount_first g gs (h g (by simp))]
    have := rangeCount_succ_eq_numRuns g gs
    omega

/-- every range but the first needs a gap: `#glyphs + #ranges` is bounded by the id space -/
theorem count_bound (N : Nat) : ∀ (l : List Nat) (prev : Nat), prev < N → (∀ x ∈ l, x < N) →
    (prev :: l).Pairwise (· < ·) → l.length + rangeCountFrom prev l + prev + 1 ≤ N
  | [], prev, hp, _, _ => by simp [rangeCountFrom]; omega
  | g :: gs, prev, _, hl, hs => by
    rw [List.pairwise_cons] at hs
    have hg : prev < g := hs.1 g (by simp)
    have ih := count_bound N gs g (hl g (by simp)) (fun x hx => hl x (by simp [hx])) hs.2
    simp only [rangeCountFrom, List.length_cons]
    split <;> omega

theorem total_bound (gs : List Nat) (h : Valid gs) :
    gs.length + rangeCountFrom 0xFFFF gs ≤ 65537 := by
  cases gs with
  | nil => simp [rangeCountFrom]
  | cons g gs =>
    rw [rangeCount_first g gs (h.small g (by simp))]
    have := count_bound 65536 gs g (h.small g (by simp)) (fun x hx => h.small x (by simp [hx])) h.sorted
    simp only [List.length_cons]
    omega

theorem rangesLoop_length : ∀ (gs : List Nat) (s sidx prev i : Nat),
    (rangesLoop s sidx prev i gs).length = 1 + rangeCountFrom prev gs
  | [], _, _, _, _ => rfl
  | g :: gs, s, sidx, prev, i => by
    simp only [rangesLoop, rangeCountFrom]
    split
    · rw [rangesLoop_length gs]; omega
    · simp only [List.length_cons]; rw [rangesLoop_length gs]; omega

theorem ranges_length (gs : List Nat) (h : ∀ g ∈ gs, g < 65536) :
    (ranges gs).length = rangeCountFrom 0xFFFF gs := by
  cases gs with
  | nil => rfl
  | cons g gs =>
    rw [rangeCount_first g gs (h g (by simp))]
    simp only [ranges]
    rw [rangesLoop_length]

/-! ### reading back format 1 -/

theorem read1_spec (tail : List Nat) : ∀ (gs : List Nat) (i : Nat) (prev : Int),
    gs.Pairwise (· < ·) → (∀ g ∈ gs, prev < (g : Int)) →
    read1 gs.length (gs ++ tail) i prev = .ok (gs.zipIdx i)
  | [], _, _, _, _ => rfl
  | g :: gs, i, prev, hs, hp => by
    rw [List.pairwise_cons] at hs
    have hg : prev < (g : Int) := hp g (by simp)
    simp only [List.length_cons, List.cons_append, read1]
    rw [if_neg (by omega)]
    rw [read1_spec tail gs (i + 1) g hs.2 (fun x hx => by have := hs.1 x hx; omega)]
    simp [List.zipIdx_cons]

/-! ### reading back format 2 -/

theorem zipIdx_range'_succ (s k c : Nat) :
    (List.range' s (k + 1)).zipIdx c = (List.range' s k).zipIdx c ++ [(s + k, c + k)] := by
  rw [List.range'_concat, List.zipIdx_append]
  simp

/-- Invariant of the format-2 loop: `[s..prev]` is the open range with first index `sidx`, `i` the
next index; the reader, started at that range, returns the open range followed by the rest. -/
theorem read2_rangesLoop (tail : List Nat) : ∀ (gs : List Nat) (s sidx prev i : Nat) (prevR : Int),
    s ≤ prev → i = sidx + (prev + 1 - s) → (prev :: gs).Pairwise (· < ·) →
    (∀ g ∈ gs, g < 65536) → prev < 65536 → i + gs.length ≤ 65536 → prevR < (s : Int) →
    read2 (rangesLoop s sidx prev i gs).length ((rangesLoop s sidx prev i gs).flatMap recWords ++ tail)
      sidx prevR = .ok ((List.range' s (prev + 1 - s)).zipIdx sidx ++ gs.zipIdx i)
  | [], s, sidx, prev, i, prevR, hsp, hi, _, _, hprev, hlen, hR => by
    simp only [rangesLoop, List.length_cons, List.length_nil, List.flatMap_cons, List.flatMap_nil,
      recWords, List.append_nil, List.cons_append, List.nil_append]
    rw [w16_of_lt (by omega : s < 65536), w16_of_lt hprev, w16_of_lt (by simp at hlen; omega : sidx < 65536)]
    simp only [read2]
    rw [if_neg (by omega)]
    simp
  | g :: gs, s, sidx, prev, i, prevR, hsp, hi, hs, hsm, hprev, hlen, hR => by
    have hs' := hs
    rw [List.pairwise_cons] at hs'
    have hpg : prev < g := hs'.1 g (by simp)
    have hg : g < 65536 := hsm g (by simp)
    have hsm' : ∀ x ∈ gs, x < 65536 := fun x hx => hsm x (by simp [hx])
    simp only [List.length_cons] at hlen
    simp only [rangesLoop]
    split
    · -- the range continues
      rename_i hc
      subst hc
      have ih := read2_rangesLoop tail gs s sidx (prev + 1) (i + 1) prevR (by omega) (by omega)
        hs'.2 hsm' hg (by omega) hR
      rw [ih]
      have e : prev + 1 + 1 - s = (prev + 1 - s) + 1 := by omega
      rw [e, zipIdx_range'_succ, List.zipIdx_cons]
      have e2 : s + (prev + 1 - s) = prev + 1 := by omega
      have e3 : sidx + (prev + 1 - s) = i := by omega
      simp [e2, e3]
    · -- a new range starts at g
      rename_i hc
      have ih := read2_rangesLoop tail gs g i g (i + 1) (prev : Int) (Nat.le_refl g) (by omega)
        hs'.2 hsm' hg (by omega) (by omega)
      simp only [List.length_cons, List.flatMap_cons, recWords, List.cons_append, List.nil_append]
      rw [w16_of_lt (by omega : s < 65536), w16_of_lt hprev, w16_of_lt (by omega : sidx < 65536)]
      simp only [read2]
      rw [if_neg (by omega)]
      have e3 : sidx + (prev + 1 - s) = i := by omega
      rw [e3, ih]
      have e4 : g + 1 - g = 1 := by omega
      simp [e4, List.zipIdx_cons]

/-! ### the specification reader on the emitted records -/

theorem specMap_eq_zipIdx : ∀ (k s c : Nat),
    (List.range' s k).map (fun g => (g, c + (g - s))) = (List.range' s k).zipIdx c
  | 0, _, _ => rfl
  | k + 1, s, c => by
    rw [List.range'_succ, List.map_cons, List.zipIdx_cons]
    have ih := specMap_eq_zipIdx k (s + 1) (c + 1)
    rw [← ih]
    simp only [Nat.sub_self, Nat.add_zero, List.cons.injEq, true_and]
    apply List.map_congr_left
    intro a ha
    rw [List.mem_range'] at ha
    obtain ⟨j, _, rfl⟩ := ha
    simp only [Prod.mk.injEq, true_and]
    omega

theorem specRecs_rangesLoop (tail : List Nat) : ∀ (gs : List Nat) (s sidx prev i : Nat),
    s ≤ prev → i = sidx + (prev + 1 - s) → (prev :: gs).Pairwise (· < ·) →
    (∀ g ∈ gs, g < 65536) → prev < 65536 → i + gs.length ≤ 65536 →
    specRecs (rangesLoop s sidx prev i gs).length ((rangesLoop s sidx prev i gs).flatMap recWords ++ tail)
      = some ((List.range' s (prev + 1 - s)).zipIdx sidx ++ gs.zipIdx i)
  | [], s, sidx, prev, i, hsp, hi, _, _, hprev, hlen => by
    simp only [rangesLoop, List.length_cons, List.length_nil, List.flatMap_cons, List.flatMap_nil,
      recWords, List.append_nil, List.cons_append, List.nil_append]
    rw [w16_of_lt (by omega : s < 65536), w16_of_lt hprev, w16_of_lt (by simp at hlen; omega : sidx < 65536)]
    simp only [specRecs, Option.map_some, specMap_eq_zipIdx]
    simp
  | g :: gs, s, sidx, prev, i, hsp, hi, hs, hsm, hprev, hlen => by
    have hs' := hs
    rw [List.pairwise_cons] at hs'
    have hpg : prev < g := hs'.1 g (by simp)
    have hg : g < 65536 := hsm g (by simp)
    have hsm' : ∀ x ∈ gs, x < 65536 := fun x hx => hsm x (by simp [hx])
    simp only [List.length_cons] at hlen
    simp only [rangesLoop]
    split
    · rename_i hc
      subst hc
      have ih := specRecs_rangesLoop tail gs s sidx (prev + 1) (i + 1) (by omega) (by omega)
        hs'.2 hsm' hg (by omega)
      rw [ih]
      have e : prev + 1 + 1 - s = (prev + 1 - s) + 1 := by omega
      rw [e, zipIdx_range'_succ, List.zipIdx_cons]
      have e2 : s + (prev + 1 - s) = prev + 1 := by omega
      have e3 : sidx + (prev + 1 - s) = i := by omega
      simp [e2, e3]
    · rename_i hc
      have ih := specRecs_rangesLoop tail gs g i g (i + 1) (Nat.le_refl g) (by omega)
        hs'.2 hsm' hg (by omega)
      simp only [List.length_cons, List.flatMap_cons, recWords, List.cons_append, List.nil_append]
      rw [w16_of_lt (by omega : s < 65536), w16_of_lt hprev, w16_of_lt (by omega : sidx < 65536)]
      simp only [specRecs]
      rw [ih]
      have e4 : g + 1 - g = 1 := by omega
      simp [e4, List.zipIdx_cons, specMap_eq_zipIdx]

/-! ### assembly -/

theorem flatMap_recWords_length (l : List (Nat × Nat × Nat)) :
    (l.flatMap recWords).length = 3 * l.length := by
  induction l with
  | nil => rfl
  | cons a l ih => simp only [List.flatMap_cons, List.length_append, ih, recWords, List.length_cons,
      List.length_nil]; omega

theorem flatMap_recWords_lt (l : List (Nat × Nat × Nat)) : ∀ w ∈ l.flatMap recWords, w < 65536 := by
  intro w hw
  rw [List.mem_flatMap] at hw
  obtain ⟨r, _, hr⟩ := hw
  simp only [recWords, List.mem_cons, List.not_mem_nil, or_false] at hr
  rcases hr with rfl | rfl | rfl <;> exact w16_lt _

theorem encodeW_lt (gs : List Nat) (h : Valid gs) : ∀ w ∈ encodeW gs, w < 65536 := by
  intro w hw
  unfold encodeW at hw
  split at hw
  · simp only [List.mem_cons] at hw
    rcases hw with rfl | rfl | hw
    · decide
    · exact w16_lt _
    · exact h.small w hw
  · simp only [List.mem_cons] at hw
    rcases hw with rfl | rfl | hw
    · decide
    · exact w16_lt _
    · exact flatMap_recWords_lt _ w hw

theorem encode_eq (gs : List Nat) (h : Valid gs) : encode gs = .ok (wordsToBytes (encodeW gs)) := by
  simp [encode, increasing_of_pairwise gs h.sorted]

theorem encodeLen_eq (gs : List Nat) (h : Valid gs) :
    encodeLen gs = .ok (if fmt1Len gs ≤ fmt2Len gs then fmt1Len gs else fmt2Len gs) := by
  simp [encodeLen, increasing_of_pairwise gs h.sorted]

theorem encodeW_length (gs : List Nat) (h : Valid gs) :
    2 * (encodeW gs).length = if fmt1Len gs ≤ fmt2Len gs then fmt1Len gs else fmt2Len gs := by
  unfold encodeW
  split
  · simp only [List.length_cons, fmt1Len]; omega
  · simp only [List.length_cons, flatMap_recWords_length, ranges_length gs h.small, fmt2Len]; omega

/-- the two readers (model of `coverage.Read`, specification) on the emitted words -/
theorem readW_encodeW (gs : List Nat) (h : Valid gs) :
    readW (encodeW gs) = .ok gs.zipIdx ∧ specEntries (encodeW gs) = some gs.zipIdx := by
  have hb := total_bound gs h
  unfold encodeW
  split
  · rename_i hf
    simp only [fmt1Len, fmt2Len] at hf
    have hn : gs.length < 65536 := by omega
    rw [w16_of_lt hn]
    constructor
    · simp only [readW]
      have := read1_spec [] gs 0 (-1) h.sorted (fun g _ => by omega)
      rwa [List.append_nil] at this
    · simp [specEntries]
  · rename_i hf
    simp only [fmt1Len, fmt2Len, Nat.not_le] at hf
    have e : (4 + 6 * rangeCountFrom 65535 gs - 4) / 6 = rangeCountFrom 65535 gs := by omega
    simp only [fmt2Len, e]
    have hr : rangeCountFrom 65535 gs < 65536 := by omega
    rw [w16_of_lt hr]
    cases gs with
    | nil => simp [rangeCountFrom] at hf
    | cons g gs' =>
      have hg : g < 65536 := h.small g (by simp)
      have hlen : (ranges (g :: gs')).length = rangeCountFrom 65535 (g :: gs') :=
        ranges_length _ h.small
      have hd := rangeCount_first g gs' hg
      simp only [List.length_cons] at hb hf
      constructor
      · simp only [readW]
        rw [← hlen]
        simp only [ranges]
        have := read2_rangesLoop [] gs' g 0 g 1 (-1) (Nat.le_refl g) (by omega) h.sorted
          (fun x hx => h.small x (by simp [hx])) hg (by omega) (by omega)
        rw [List.append_nil] at this
        rw [this]
        have e4 : g + 1 - g = 1 := by omega
        simp [e4, List.zipIdx_cons]
      · simp only [specEntries]
        rw [← hlen]
        simp only [ranges]
        have := specRecs_rangesLoop [] gs' g 0 g 1 (Nat.le_refl g) (by omega) h.sorted
          (fun x hx => h.small x (by simp [hx])) hg (by omega)
        rw [List.append_nil] at this
        rw [this]
        have e4 : g + 1 - g = 1 := by omega
        simp [e4, List.zipIdx_cons]

end SfntV.Otl.Cov
