/-
Lemmas about the coverage-table model (C08).
-/
import SfntV.Model.OtlCoverage
import SfntV.Proofs.OtlBase

namespace SfntV.Otl.Cov
open SfntV SfntV.Otl

/-- The valid coverage tables: glyph ids strictly increasing, each a 16-bit value. -/
structure Valid (gs : List Nat) : Prop where
  sorted : gs.Pairwise (· < ·)
  small : ∀ g ∈ gs, g < 65536

theorem increasing_of_pairwise : ∀ (gs : List Nat), gs.Pairwise (· < ·) → increasing gs = true
  | [], _ => rfl
  | [_], _ => rfl
  | a :: b :: r, h => by
    rw [List.pairwise_cons] at h
    simp only [increasing, Bool.and_eq_true, decide_eq_true_eq]
    exact ⟨h.1 b (by simp), increasing_of_pairwise (b :: r) h.2⟩

theorem rangeCount_succ_eq_numRuns : ∀ (g : Nat) (gs : List Nat),
    rangeCountFrom g gs + 1 = numRuns (g :: gs)
  | _, [] => rfl
  | g, b :: r => by
    simp only [rangeCountFrom, numRuns]
    have := rangeCount_succ_eq_numRuns b r
    omega

theorem rangeCount_first (g : Nat) (gs : List Nat) (hg : g < 65536) :
    rangeCountFrom 0xFFFF (g :: gs) = 1 + rangeCountFrom g gs := by
  simp only [rangeCountFrom]
  have : ¬ g = 65535 + 1 := by omega
  simp [this]

theorem rangeCount_eq_numRuns (gs : List Nat) (h : ∀ g ∈ gs, g < 65536) :
    rangeCountFrom 0xFFFF gs = numRuns gs := by
  cases gs with
  | nil => rfl
  | cons g gs =>
    rw [rangeCount_first g gs (h g (by simp))]
    have := rangeCount_succ_eq_numRuns g gs
    omega

/-- every range but the first needs a gap: `#glyphs + #ranges` is bounded by the id space -/
theorem count_bound (N : Nat) : ∀ (l : List Nat) (prev : Nat), prev < N → (∀ x ∈ l, x < N) →
    (prev :: l).Pairwise (· < ·) → l.length + rangeCountFrom prev l + prev + 1 ≤ N
  | [], prev, hp, _, _ => by simp [rangeCountFrom]; omega
  | g :: gs, prev, _, hl, hs => by
    rw [List.pairwise_cons] at hs
    have hg : prev < g := hs.1 g (by simp)
    have ih := count_bound N gs g (hl g (by simp)) (fun x hx => hl x (by simp [hx])) hs.2
    simp only [rangeCountFrom, List.length_cons]
    split <;> omega

theorem total_bound (gs : List Nat) (h : Valid gs) :
    gs.length + rangeCountFrom 0xFFFF gs ≤ 65537 := by
  cases gs with
  | nil => simp [rangeCountFrom]
  | cons g gs =>
    rw [rangeCount_first g gs (h.small g (by simp))]
    have := count_bound 65536 gs g (h.small g (by simp)) (fun x hx => h.small x (by simp [hx])) h.sorted
    simp only [List.length_cons]
    omega

theorem rangesLoop_length : ∀ (gs : List Nat) (s sidx prev i : Nat),
    (rangesLoop s sidx prev i gs).length = 1 + rangeCountFrom prev gs
  | [], _, _, _, _ => rfl
  | g :: gs, s, sidx, prev, i => by
    simp only [rangesLoop, rangeCountFrom]
    split
    · rw [rangesLoop_length gs]; omega
    · simp only [List.length_cons]; rw [rangesLoop_length gs]; omega

theorem ranges_length (gs : List Nat) (h : ∀ g ∈ gs, g < 65536) :
    (ranges gs).length = rangeCountFrom 0xFFFF gs := by
  cases gs with
  | nil => rfl
  | cons g gs =>
    rw [rangeCount_first g gs (h g (by simp))]
    simp only [ranges]
    rw [rangesLoop_length]

/-! ### reading back format 1 -/

theorem read1_spec (tail : List Nat) : ∀ (gs : List Nat) (i : Nat) (prev : Int),
    gs.Pairwise (· < ·) → (∀ g ∈ gs, prev < (g : Int)) →
    read1 gs.length (gs ++ tail) i prev = .ok (gs.zipIdx i)
  | [], _, _, _, _ => rfl
  | g :: gs, i, prev, hs, hp => by
    rw [List.pairwise_cons] at hs
    have hg : prev < (g : Int) := hp g (by simp)
    simp only [List.length_cons, List.cons_append, read1]
    rw [if_neg (by omega)]
    rw [read1_spec tail gs (i + 1) g hs.2 (fun x hx => by have := hs.1 x hx; omega)]
    simp [List.zipIdx_cons]

/-! ### reading back format 2 -/

theorem zipIdx_range'_succ (s k c : Nat) :
    (List.range' s (k + 1)).zipIdx c = (List.range' s k).zipIdx c ++ [(s + k, c + k)] := by
  rw [List.range'_concat, List.zipIdx_append]
  simp

/-- Invariant of the format-2 loop: `[s..prev]` is the open range with first index `sidx`, `i` the
next index; the reader, started at that range, returns the open range followed by the rest. -/
theorem read2_rangesLoop (tail : List Nat) : ∀ (gs : List Nat) (s sidx prev i : Nat) (prevR : Int),
    s ≤ prev → i = sidx + (prev + 1 - s) → (prev :: gs).Pairwise (· < ·) →
    (∀ g ∈ gs, g < 65536) → prev < 65536 → i + gs.length ≤ 65536 → prevR < (s : Int) →
    read2 (rangesLoop s sidx prev i gs).length ((rangesLoop s sidx prev i gs).flatMap recWords ++ tail)
      sidx prevR = .ok ((List.range' s (prev + 1 - s)).zipIdx sidx ++ gs.zipIdx i)
  | [], s, sidx, prev, i, prevR, hsp, hi, _, _, hprev, hlen, hR => by
    simp only [rangesLoop, List.length_cons, List.length_nil, List.flatMap_cons, List.flatMap_nil,
      recWords, List.append_nil, List.cons_append, List.nil_append]
    rw [w16_of_lt (by omega : s < 65536), w16_of_lt hprev, w16_of_lt (by simp at hlen; omega : sidx < 65536)]
    simp only [read2]
    rw [if_neg (by omega)]
    simp
  | g :: gs, s, sidx, prev, i, prevR, hsp, hi, hs, hsm, hprev, hlen, hR => by
    have hs' := hs
    rw [List.pairwise_cons] at hs'
    have hpg : prev < g := hs'.1 g (by simp)
    have hg : g < 65536 := hsm g (by simp)
    have hsm' : ∀ x ∈ gs, x < 65536 := fun x hx => hsm x (by simp [hx])
    simp only [List.length_cons] at hlen
    simp only [rangesLoop]
    split
    · -- the range continues
      rename_i hc
      subst hc
      have ih := read2_rangesLoop tail gs s sidx (prev + 1) (i + 1) prevR (by omega) (by omega)
        hs'.2 hsm' hg (by omega) hR
      rw [ih]
      have e : prev + 1 + 1 - s = (prev + 1 - s) + 1 := by omega
      rw [e, zipIdx_range'_succ, List.zipIdx_cons]
      have e2 : s + (prev + 1 - s) = prev + 1 := by omega
      have e3 : sidx + (prev + 1 - s) = i := by omega
      simp [e2, e3]
    · -- a new range starts at g
      rename_i hc
      have ih := read2_rangesLoop tail gs g i g (i + 1) (prev : Int) (Nat.le_refl g) (by omega)
        hs'.2 hsm' hg (by omega) (by omega)
      simp only [List.length_cons, List.flatMap_cons, recWords, List.cons_append, List.nil_append]
      rw [w16_of_lt (by omega : s < 65536), w16_of_lt hprev, w16_of_lt (by omega : sidx < 65536)]
      simp only [read2]
      rw [if_neg (by omega)]
      have e3 : sidx + (prev + 1 - s) = i := by omega
      rw [e3, ih]
      have e4 : g + 1 - g = 1 := by omega
      simp [e4, List.zipIdx_cons]

/-! ### the specification reader on the emitted records -/

theorem specMap_eq_zipIdx : ∀ (k s c : Nat),
    (List.range' s k).map (fun g => (g, c + (g - s))) = (List.range' s k).zipIdx c
  | 0, _, _ => rfl
  | k + 1, s, c => by
    rw [List.range'_succ, List.map_cons, List.zipIdx_cons]
    have ih := specMap_eq_zipIdx k (s + 1) (c + 1)
    rw [← ih]
    simp only [Nat.sub_self, Nat.add_zero, List.cons.injEq, true_and]
    apply List.map_congr_left
    intro a ha
    rw [List.mem_range'] at ha
    obtain ⟨j, _, rfl⟩ := ha
    simp only [Prod.mk.injEq, true_and]
    omega

theorem specRecs_rangesLoop (tail : List Nat) : ∀ (gs : List Nat) (s sidx prev i : Nat),
    s ≤ prev → i = sidx + (prev + 1 - s) → (prev :: gs).Pairwise (· < ·) →
    (∀ g ∈ gs, g < 65536) → prev < 65536 → i + gs.length ≤ 65536 →
    specRecs (rangesLoop s sidx prev i gs).length ((rangesLoop s sidx prev i gs).flatMap recWords ++ tail)
      = some ((List.range' s (prev + 1 - s)).zipIdx sidx ++ gs.zipIdx i)
  | [], s, sidx, prev, i, hsp, hi, _, _, hprev, hlen => by
    simp only [rangesLoop, List.length_cons, List.length_nil, List.flatMap_cons, List.flatMap_nil,
      recWords, List.append_nil, List.cons_append, List.nil_append]
    rw [w16_of_lt (by omega : s < 65536), w16_of_lt hprev, w16_of_lt (by simp at hlen; omega : sidx < 65536)]
    simp only [specRecs, Option.map_some, specMap_eq_zipIdx]
    simp
  | g :: gs, s, sidx, prev, i, hsp, hi, hs, hsm, hprev, hlen => by
    have hs' := hs
    rw [List.pairwise_cons] at hs'
    have hpg : prev < g := hs'.1 g (by simp)
    have hg : g < 65536 := hsm g (by simp)
    have hsm' : ∀ x ∈ gs, x < 65536 := fun x hx => hsm x (by simp [hx])
    simp only [List.length_cons] at hlen
    simp only [rangesLoop]
    split
    · rename_i hc
      subst hc
      have ih := specRecs_rangesLoop tail gs s sidx (prev + 1) (i + 1) (by omega) (by omega)
        hs'.2 hsm' hg (by omega)
      rw [ih]
      have e : prev + 1 + 1 - s = (prev + 1 - s) + 1 := by omega
      rw [e, zipIdx_range'_succ, List.zipIdx_cons]
      have e2 : s + (prev + 1 - s) = prev + 1 := by omega
      have e3 : sidx + (prev + 1 - s) = i := by omega
      simp [e2, e3]
    · rename_i hc
      have ih := specRecs_rangesLoop tail gs g i g (i + 1) (Nat.le_refl g) (by omega)
        hs'.2 hsm' hg (by omega)
      simp only [List.length_cons, List.flatMap_cons, recWords, List.cons_append, List.nil_append]
      rw [w16_of_lt (by omega : s < 65536), w16_of_lt hprev, w16_of_lt (by omega : sidx < 65536)]
      simp only [specRecs]
      rw [ih]
      have e4 : g + 1 - g = 1 := by omega
      simp [e4, List.zipIdx_cons, specMap_eq_zipIdx]

/-! ### assembly -/

theorem flatMap_recWords_length (l : List (Nat × Nat × Nat)) :
    (l.flatMap recWords).length = 3 * l.length := by
  induction l with
  | nil => rfl
  | cons a l ih => simp only [List.flatMap_cons, List.length_append, ih, recWords, List.length_cons,
      List.length_nil]; omega

theorem flatMap_recWords_lt (l : List (Nat × Nat × Nat)) : ∀ w ∈ l.flatMap recWords, w < 65536 := by
  intro w hw
  rw [List.mem_flatMap] at hw
  obtain ⟨r, _, hr⟩ := hw
  simp only [recWords, List.mem_cons, List.not_mem_nil, or_false] at hr
  rcases hr with rfl | rfl | rfl <;> exact w16_lt _

theorem encodeW_lt (gs : List Nat) (h : Valid gs) : ∀ w ∈ encodeW gs, w < 65536 := by
  intro w hw
  unfold encodeW at hw
  split at hw
  · simp only [List.mem_cons] at hw
    rcases hw with rfl | rfl | hw
    · decide
    · exact w16_lt _
    · exact h.small w hw
  · simp only [List.mem_cons] at hw
    rcases hw with rfl | rfl | hw
    · decide
    · exact w16_lt _
    · exact flatMap_recWords_lt _ w hw

theorem encode_eq (gs : List Nat) (h : Valid gs) : encode gs = .ok (wordsToBytes (encodeW gs)) := by
  simp [encode, increasing_of_pairwise gs h.sorted]

theorem encodeLen_eq (gs : List Nat) (h : Valid gs) :
    encodeLen gs = .ok (if fmt1Len gs ≤ fmt2Len gs then fmt1Len gs else fmt2Len gs) := by
  simp [encodeLen, increasing_of_pairwise gs h.sorted]

theorem encodeW_length (gs : List Nat) (h : Valid gs) :
    2 * (encodeW gs).length = if fmt1Len gs ≤ fmt2Len gs then fmt1Len gs else fmt2Len gs := by
  unfold encodeW
  split
  · simp only [List.length_cons, fmt1Len]; omega
  · simp only [List.length_cons, flatMap_recWords_length, ranges_length gs h.small, fmt2Len]; omega

/-- the model of `coverage.Read` on the emitted words, whatever follows them -/
theorem readW_encodeW_append (gs : List Nat) (h : Valid gs) (tail : List Nat) :
    readW (encodeW gs ++ tail) = .ok gs.zipIdx := by
  have hb := total_bound gs h
  unfold encodeW
  split
  · rename_i hf
    simp only [fmt1Len, fmt2Len] at hf
    have hn : gs.length < 65536 := by omega
    rw [w16_of_lt hn]
    simp only [List.cons_append, readW]
    exact read1_spec tail gs 0 (-1) h.sorted (fun g _ => by omega)
  · rename_i hf
    simp only [fmt1Len, fmt2Len, Nat.not_le] at hf
    have e : (4 + 6 * rangeCountFrom 65535 gs - 4) / 6 = rangeCountFrom 65535 gs := by omega
    simp only [fmt2Len, e]
    have hr : rangeCountFrom 65535 gs < 65536 := by omega
    rw [w16_of_lt hr]
    cases gs with
    | nil => simp [rangeCountFrom] at hf
    | cons g gs' =>
      have hg : g < 65536 := h.small g (by simp)
      have hlen : (ranges (g :: gs')).length = rangeCountFrom 65535 (g :: gs') :=
        ranges_length _ h.small
      have hd := rangeCount_first g gs' hg
      simp only [List.length_cons] at hb hf
      simp only [List.cons_append, readW]
      rw [← hlen]
      simp only [ranges]
      rw [read2_rangesLoop tail gs' g 0 g 1 (-1) (Nat.le_refl g) (by omega) h.sorted
        (fun x hx => h.small x (by simp [hx])) hg (by omega) (by omega)]
      have e4 : g + 1 - g = 1 := by omega
      simp [e4, List.zipIdx_cons]

/-- the two readers (model of `coverage.Read`, specification) on the emitted words -/
theorem readW_encodeW (gs : List Nat) (h : Valid gs) :
    readW (encodeW gs) = .ok gs.zipIdx ∧ specEntries (encodeW gs) = some gs.zipIdx := by
  constructor
  · have := readW_encodeW_append gs h []
    rwa [List.append_nil] at this
  have hb := total_bound gs h
  unfold encodeW
  split
  · rename_i hf
    simp only [fmt1Len, fmt2Len] at hf
    have hn : gs.length < 65536 := by omega
    rw [w16_of_lt hn]
    simp [specEntries]
  · rename_i hf
    simp only [fmt1Len, fmt2Len, Nat.not_le] at hf
    have e : (4 + 6 * rangeCountFrom 65535 gs - 4) / 6 = rangeCountFrom 65535 gs := by omega
    simp only [fmt2Len, e]
    have hr : rangeCountFrom 65535 gs < 65536 := by omega
    rw [w16_of_lt hr]
    cases gs with
    | nil => simp [rangeCountFrom] at hf
    | cons g gs' =>
      have hg : g < 65536 := h.small g (by simp)
      have hlen : (ranges (g :: gs')).length = rangeCountFrom 65535 (g :: gs') :=
        ranges_length _ h.small
      have hd := rangeCount_first g gs' hg
      simp only [List.length_cons] at hb hf
      simp only [specEntries]
      rw [← hlen]
      simp only [ranges]
      have := specRecs_rangesLoop [] gs' g 0 g 1 (Nat.le_refl g) (by omega) h.sorted
        (fun x hx => h.small x (by simp [hx])) hg (by omega)
      rw [List.append_nil] at this
      rw [this]
      have e4 : g + 1 - g = 1 := by omega
      simp [e4, List.zipIdx_cons]

/-! ### from a Go `coverage.Table` (a map, iterated in any order) to the glyph list -/

/-- the entries of the table `{gs[i] ↦ i}` -/
def tableOf (gs : List Nat) : List (Nat × Int) := gs.zipIdx.map fun p => (p.1, (p.2 : Int))

theorem revOf_fold : ∀ (m : List (Nat × Int)) (rev0 : List Nat),
    (∀ e ∈ m, 0 ≤ e.2 ∧ e.2 < (rev0.length : Int)) → (m.map (·.2)).Nodup →
    ∃ rev, m.foldl revStep (.ok rev0) = .ok rev ∧
      rev.length = rev0.length ∧ (∀ e ∈ m, rev[e.2.toNat]? = some e.1) ∧
      (∀ j, (∀ e ∈ m, e.2.toNat ≠ j) → rev[j]? = rev0[j]?)
  | [], rev0, _, _ => ⟨rev0, rfl, rfl, by simp, fun _ _ => rfl⟩
  | e :: m, rev0, hr, hnd => by
    obtain ⟨h0, h1⟩ := hr e (by simp)
    simp only [List.map_cons, List.nodup_cons] at hnd
    simp only [List.foldl_cons, revStep]
    have hcond : ¬ (e.2 < (0 : Int) ∨ e.2 ≥ Int.ofNat rev0.length) := by
      simp only [Int.ofNat_eq_natCast]; omega
    rw [if_neg hcond]
    obtain ⟨rev, hf, hl, hm, hu⟩ := revOf_fold m (rev0.set e.2.toNat e.1)
      (fun e' he' => by
        have := hr e' (by simp [he'])
        rw [List.length_set]; exact this)
      hnd.2
    refine ⟨rev, hf, by rw [hl, List.length_set], ?_, ?_⟩
    · intro e' he'
      rw [List.mem_cons] at he'
      rcases he' with rfl | he'
      · -- not overwritten later: its index does not occur in `m`
        rw [hu e'.2.toNat (fun e'' he'' heq => by
          apply hnd.1
          rw [List.mem_map]
          refine ⟨e'', he'', ?_⟩
          have h2 := (hr e'' (by simp [he''])).1
          omega)]
        exact List.getElem?_set_self (by omega)
      · exact hm e' he'
    · intro j hj
      rw [hu j (fun e' he' => hj e' (by simp [he']))]
      exact List.getElem?_set_ne (hj e (by simp))

/-- Whatever order the Go map is iterated in, `encInfo` computes the glyph list of a valid table. -/
theorem revOf_table (gs : List Nat) (m : List (Nat × Int)) (hp : m.Perm (tableOf gs)) :
    revOf m = .ok gs := by
  have hlen : m.length = gs.length := by
    rw [hp.length_eq]; simp [tableOf]
  have hmem : ∀ e, e ∈ m ↔ ∃ i, i < gs.length ∧ e = (gs[i]?.getD 0, (i : Int)) := by
    intro e
    rw [hp.mem_iff]
    simp only [tableOf, List.mem_map]
    constructor
    · rintro ⟨p, hp', rfl⟩
      obtain ⟨g, i⟩ := p
      have := List.mem_zipIdx hp'
      simp only [Nat.zero_le, Nat.zero_add, Nat.sub_zero, true_and] at this
      refine ⟨i, this.1, ?_⟩
      simp [this.2, List.getElem?_eq_getElem this.1]
    · rintro ⟨i, hi, rfl⟩
      refine ⟨(gs[i], i), ?_, by simp [List.getElem?_eq_getElem hi]⟩
      rw [List.mk_mem_zipIdx_iff_le_and_getElem?_sub]
      simp [List.getElem?_eq_getElem hi]
  have hnd : (m.map (·.2)).Nodup := by
    have : (m.map (·.2)).Perm ((tableOf gs).map (·.2)) := hp.map _
    rw [this.nodup_iff]
    have e : (tableOf gs).map (·.2) = (List.range gs.length).map (fun (i : Nat) => (i : Int)) := by
      simp only [tableOf, List.map_map]
      apply List.ext_getElem?
      intro j
      by_cases hj : j < gs.length
      · simp [List.getElem?_map, List.getElem?_zipIdx, List.getElem?_eq_getElem hj, List.getElem?_range hj]
      · rw [List.getElem?_eq_none (by simp; omega), List.getElem?_eq_none (by simp; omega)]
    rw [e]
    exact List.Pairwise.map (fun (i : Nat) => (i : Int))
      (fun a b h => by intro hc; exact h (Int.ofNat.inj hc)) List.nodup_range
  obtain ⟨rev, hf, hl, hm, _⟩ := revOf_fold m (List.replicate m.length 0)
    (fun e he => by
      obtain ⟨i, hi, rfl⟩ := (hmem e).mp he
      simp only [List.length_replicate]
      omega)
    hnd
  unfold revOf
  rw [hf]
  congr 1
  apply List.ext_getElem?
  intro j
  by_cases hj : j < gs.length
  · have := hm (gs[j]?.getD 0, (j : Int)) ((hmem _).mpr ⟨j, hj, rfl⟩)
    simp only [Int.toNat_natCast] at this
    rw [this, List.getElem?_eq_getElem hj]
    simp
  · rw [List.getElem?_eq_none (by rw [hl, List.length_replicate, hlen]; omega),
      List.getElem?_eq_none (by omega)]

end SfntV.Otl.Cov
