/-
C19 — proofs about the process model: the diamond property of the step function, confluence
of maximal schedules, termination, and the invariant that excludes a blocked process for the
repaired structure.
-/
import SfntV.Model.DslProc

set_option linter.unusedSimpArgs false

namespace SfntV.Dsl.Proc

/-- two different actors that can both move can move in either order, with the same result -/
theorem diamond (a b : Actor) (hab : a ≠ b) (s s1 s2 : Sys)
    (h1 : step a s = some s1) (h2 : step b s = some s2) :
    ∃ s3, step b s1 = some s3 ∧ step a s2 = some s3 := by
  obtain ⟨p, c, d, dOn, cT, cS⟩ := s
  cases a <;> cases b <;> (try (exact absurd rfl hab))
  all_goals
    rcases p with _ | ⟨ip, p⟩ <;> rcases c with _ | ⟨ic, c⟩ <;> rcases d with _ | ⟨id, d⟩ <;>
      (try cases ip) <;> (try cases ic) <;> (try cases id) <;>
      cases dOn <;> cases cT <;> cases cS <;>
      simp [step] at h1 h2 <;>
      (subst h1; subst h2; simp [step])

theorem run_nil (s : Sys) : run [] s = some s := rfl

theorem run_cons (a : Actor) (σ : List Actor) (s : Sys) :
    run (a :: σ) s = (step a s).bind (run σ) := rfl

/-- if `a` can move from `s`, any maximal schedule from `s` can be re-ordered to start with `a` -/
theorem strip (σ : List Actor) : ∀ (s f : Sys), run σ s = some f → Final f →
    ∀ (a : Actor) (s1 : Sys), step a s = some s1 →
      ∃ σ', run σ' s1 = some f ∧ σ'.length + 1 = σ.length := by
  induction σ with
  | nil =>
    intro s f h hf a s1 ha
    simp [run] at h
    subst h
    rw [hf a] at ha
    cases ha
  | cons b τ ih =>
    intro s f h hf a s1 ha
    rw [run_cons] at h
    cases hb : step b s with
    | none => rw [hb] at h; simp at h
    | some s2 =>
      rw [hb] at h
      simp at h
      by_cases hab : a = b
      · subst hab
        rw [ha] at hb
        cases hb
        exact ⟨τ, h, rfl⟩
      · obtain ⟨s3, h31, h32⟩ := diamond a b hab s s1 s2 ha hb
        obtain ⟨τ', hτ', hl⟩ := ih s2 f h hf a s3 h32
        refine ⟨b :: τ', ?_, by simp [hl]⟩
        rw [run_cons, h31]
        simpa using hτ'

/-- all maximal schedules from a state end in the same state, after the same number of steps -/
theorem confluent (σ1 : List Actor) : ∀ (σ2 : List Actor) (s f1 f2 : Sys),
    run σ1 s = some f1 → Final f1 → run σ2 s = some f2 → Final f2 →
    f1 = f2 ∧ σ1.length = σ2.length := by
  induction σ1 with
  | nil =>
    intro σ2 s f1 f2 h1 hf1 h2 _
    simp [run] at h1
    subst h1
    cases σ2 with
    | nil => simp [run] at h2; exact ⟨h2, rfl⟩
    | cons b τ =>
      rw [run_cons, hf1 b] at h2
      simp at h2
  | cons a τ1 ih =>
    intro σ2 s f1 f2 h1 hf1 h2 hf2
    rw [run_cons] at h1
    cases ha : step a s with
    | none => rw [ha] at h1; simp at h1
    | some s1 =>
      rw [ha] at h1
      simp at h1
      obtain ⟨σ2', h2', hl⟩ := strip σ2 s f2 h2 hf2 a s1 ha
      obtain ⟨e, hl'⟩ := ih σ2' s1 f1 f2 h1 hf1 h2' hf2
      exact ⟨e, by simp [hl', ← hl]⟩

/-- every step consumes an instruction -/
theorem step_size (a : Actor) (s s' : Sys) (h : step a s = some s') : size s' < size s := by
  obtain ⟨p, c, d, dOn, cT, cS⟩ := s
  cases a <;>
    rcases p with _ | ⟨ip, p⟩ <;> rcases c with _ | ⟨ic, c⟩ <;> rcases d with _ | ⟨id, d⟩ <;>
      (try cases ip) <;> (try cases ic) <;> (try cases id) <;>
      cases dOn <;> cases cT <;> cases cS <;>
      simp [step] at h <;>
      (subst h; simp [size] <;> omega)

/-- schedules are finite: no schedule is longer than the number of instructions -/
theorem run_length (σ : List Actor) : ∀ (s f : Sys), run σ s = some f → σ.length + size f ≤ size s := by
  induction σ with
  | nil => intro s f h; simp [run] at h; subst h; simp
  | cons a τ ih =>
    intro s f h
    rw [run_cons] at h
    cases ha : step a s with
    | none => rw [ha] at h; simp at h
    | some s1 =>
      rw [ha] at h
      simp at h
      have := ih s1 f h
      have := step_size a s s1 ha
      simp
      omega

/-! ### the repaired structure: invariant excluding a blocked process -/

/-- the lexer's program: sends and internal steps, then exactly one `close`, at the end -/
def okP : List PInstr → Bool
  | [] => false
  | [.close] => true
  | .close :: _ => false
  | _ :: p => okP p

def sends : List PInstr → Nat
  | [] => 0
  | .send :: p => sends p + 1
  | _ :: p => sends p

def recvs : List CInstr → Nat
  | [] => 0
  | .recvT :: c => recvs c + 1
  | _ :: c => recvs c

def hasDrain : List CInstr → Bool
  | [] => false
  | .drainT :: _ => true
  | _ :: c => hasDrain c

/-- the parser's program in the repaired code: no decoder goroutine, no second channel -/
def plainC : List CInstr → Bool
  | [] => true
  | .spawn :: _ => false
  | .recvS :: _ => false
  | _ :: c => plainC c

structure Inv (s : Sys) : Prop where
  noD : s.dOn = false
  plain : plainC s.c = true
  prog : if s.closedT then s.p = [] else okP s.p = true
  /-- either the parser drains the channel, or it takes at least as many items as are sent -/
  enough : hasDrain s.c = true ∨ sends s.p ≤ recvs s.c

theorem inv_step (a : Actor) (s s' : Sys) (hi : Inv s) (h : step a s = some s') : Inv s' := by
  obtain ⟨p, c, d, dOn, cT, cS⟩ := s
  obtain ⟨h1, h2, h3, h4⟩ := hi
  simp at h1 h2 h3 h4
  subst h1
  cases a <;>
    rcases p with _ | ⟨ip, p⟩ <;> rcases c with _ | ⟨ic, c⟩ <;>
      (try cases ip) <;> (try cases ic) <;> cases cT <;>
      simp [step] at h <;>
      (try (cases cS <;> simp at h)) <;>
      (try subst h) <;>
      (first
        | (refine ⟨rfl, ?_, ?_, ?_⟩ <;>
            simp_all [okP, sends, recvs, hasDrain, plainC] <;>
            (try (rcases p with _ | ⟨ip2, p2⟩ <;> simp_all [okP])) <;>
            (try omega))
        | (exfalso; simp_all [okP, sends, recvs, hasDrain, plainC]))

theorem inv_run (σ : List Actor) : ∀ (s f : Sys), Inv s → run σ s = some f → Inv f := by
  induction σ with
  | nil => intro s f hi h; simp [run] at h; subst h; exact hi
  | cons a τ ih =>
    intro s f hi h
    rw [run_cons] at h
    cases ha : step a s with
    | none => rw [ha] at h; simp at h
    | some s1 =>
      rw [ha] at h
      simp at h
      exact ih s1 f (inv_step a s s1 hi ha) h

/-- in a final state satisfying the invariant both processes have finished -/
theorem inv_final (s : Sys) (hi : Inv s) (hf : Final s) : s.p = [] ∧ s.c = [] := by
  obtain ⟨p, c, d, dOn, cT, cS⟩ := s
  obtain ⟨h1, h2, h3, h4⟩ := hi
  have hP := hf .P
  have hC := hf .C
  simp at h1 h2 h3 h4
  subst h1
  rcases p with _ | ⟨ip, p⟩ <;> rcases c with _ | ⟨ic, c⟩ <;>
    (try cases ip) <;> (try cases ic) <;> cases cT <;>
    simp_all [step, okP, sends, recvs, hasDrain, plainC]

end SfntV.Dsl.Proc
