/-
Composition for CID-keyed fonts: `readFont (writeFont f) = nfCid f` — ROS, FDArray with one
Font DICT and one Private DICT per FD, FDSelect, charset of CIDs.
-/
import SfntV.Proofs.CffFontRt

namespace SfntV.Cff
open SfntV

/-- `readPrivate` on a DICT whose Private entry points at section `i`, the (empty) local subrs
being section `isub` -/
theorem readPrivate_at (std custom : Array String) (B : List Bytes) (D : DictL) (i isub : Nat)
    (hi : i < B.length) (hsub : isub < B.length) (hle : i < isub) (p : PrivIn) (dw nw : Int)
    (hB : B.getD i [] = encodeDict (privDictOf p dw nw ((secPos B isub : Int) - (secPos B i : Int))))
    (hBs : B.getD isub [] = [0, 0]) (h4 : 4 ≤ secPos B i)
    (hpair : dPair D 18 = some (((B.getD i []).length : Int), (secPos B i : Int)))
    (hdom : PrivDom p dw nw ((secPos B isub : Int) - (secPos B i : Int)))
    (hsize : B.flatten.length < 2147483648) :
    readPrivate std custom B.flatten D = .ok (nfPriv p dw nw) := by
  have hPi : secPos B (i + 1) = secPos B i + (B.getD i []).length := secPos_succ B i hi
  have hmono : secPos B (i + 1) ≤ secPos B isub := secPos_mono _ _ _ (by omega)
  have hPle : secPos B isub ≤ B.flatten.length := secPos_le _ _
  obtain ⟨pd, hpd, f6, f7, f3082, f3083, f3086, f3081, f10, f11, f20, f21, f19⟩ :=
    privatedict_fields std custom p dw nw _ hdom
  have hrdP : rd B.flatten (secPos B i) (B.getD i []).length = some (B.getD i []) := rd_section B i hi
  have hsubrs : (if dInt pd 19 0 > 0 then readIndexAt B.flatten (wrap32 ((secPos B i : Int) + dInt pd 19 0)) else .ok [])
      = (.ok [] : Outcome (List Bytes)) := by
    rw [f19]
    split
    · have e : wrap32 ((secPos B i : Int) + ((secPos B isub : Int) - (secPos B i : Int))) = (secPos B isub : Int) := by
        unfold wrap32 toI32; split <;> omega
      rw [e]
      unfold readIndexAt
      rw [if_neg (by omega)]
      have := readIndex_empty_section B isub hsub hBs
      simp only [Int.toNat_natCast, this]
    · rfl
  unfold readPrivate
  rw [hpair]
  simp only
  rw [if_neg (by omega), if_neg (by omega)]
  simp only [Int.toNat_natCast, hrdP]
  rw [hB, hpd]
  simp only
  rw [hsubrs]
  simp only [nfPriv, f6, f7, f3082, f3083, f3081, f10, f11, f20, f21]
  congr 1
  simpa using f3086

/-! ### what `prepare` and the loop body produce for a CID-keyed font -/

def top0 (f : FontIn) : DictL :=
  optEntry (decide (f.strs.getD 0 "" ≠ "")) 0 [.str (f.strs.getD 0 "")] ++
  optEntry (decide (f.strs.getD 1 "" ≠ "")) 1 [.str (f.strs.getD 1 "")] ++
  optEntry (decide (f.strs.getD 2 "" ≠ "")) 3072 [.str (f.strs.getD 2 "")] ++
  optEntry (decide (f.strs.getD 3 "" ≠ "")) 2 [.str (f.strs.getD 3 "")] ++
  optEntry (decide (f.strs.getD 4 "" ≠ "")) 3 [.str (f.strs.getD 4 "")] ++
  optEntry (decide (f.strs.getD 5 "" ≠ "")) 4 [.str (f.strs.getD 5 "")] ++
  optEntry f.isFixedPitch 3073 [.int 1] ++
  optEntry (decide (f.italicAngle.2.1 ≠ 0)) 3074 [realOperand f.italicAngle] ++
  optEntry (!f.ulPosDefault) 3075 [f.ulPos] ++
  optEntry (!f.ulThickDefault) 3076 [f.ulThick]

/-- the custom strings after the registry and ordering have been looked up -/
def rosCustom (std : List String) (r o : String) : List String :=
  (stringsLookup std (stringsLookup std [] r).2 o).2

def topBaseCid (std : List String) (f : FontIn) (r o : String) (sup : Int) : DictL :=
  top0 f ++ [(3102, [.int (stringsLookup std [] r).1, .int (stringsLookup std (stringsLookup std [] r).2 o).1, .int sup]),
             (3106, [.int (f.charStrings.length % 65536)])]
    ++ fontMatrixEntry (f.fontMatrix.getD identityFM) true

theorem prepare_cid (std : List String) (f : FontIn) (r o : String) (sup : Int) (hros : f.ros = some (r, o, sup))
    (cs : Bytes) (hcs : encodeCharset f.cids = .ok cs)
    (hi1 : idxOk [f.fontName] = true) (hi2 : idxOk f.charStrings = true) :
    prepare std f = .ok
      ({ nameIndex := outOk (indexEncode [f.fontName]), encoding := none, charsets := cs,
         fdSelect := some (fdEncode f.fds),
         charStrings := outOk (indexEncode f.charStrings), custom0 := rosCustom std r o,
         topBase := topBaseCid std f r o sup, expert := false,
         privBase := f.privs.map fun p => makePrivateDict p f.defWidth f.nomWidth,
         fdBase := (List.range f.privs.length).map fun i => fontMatrixEntry (f.fdMatrices.getD i defaultFM) false },
       mkSecs f) := by
  unfold prepare
  simp [hros, hcs, hi1, hi2, topBaseCid, top0, rosCustom]


def topCid (std : List String) (f : FontIn) (r o : String) (sup : Int) (csOffs cstrOffs fdsOffs fdaOffs : Int) : DictL :=
  topBaseCid std f r o sup ++ [(15, [.int csOffs])] ++ [(17, [.int cstrOffs])] ++
    [(3109, [.int fdsOffs]), (3108, [.int fdaOffs])]

structure CidSecs where
  privBlobs : List Bytes
  fdDicts : List Bytes
  top : DictL
  topData : Bytes
  custom : List String
  B : List Bytes

def cidSecs (std : List String) (f : FontIn) (r o : String) (sup : Int) (cs : Bytes) (offs : List Int) : CidSecs :=
  let off (i : Nat) : Int := offs.getD i 0
  let np := f.privs.length
  let privBlobs : List Bytes := (List.range np).map fun i =>
    (encodeDictS std [] (((f.privs.map fun p => makePrivateDict p f.defWidth f.nomWidth).getD i []) ++
      [(19, [.int (off (10 + np) - off (10 + i))])])).1
  let fdDicts : List Bytes := (List.range np).map fun i =>
    (encodeDictS std [] ((((List.range np).map fun i => fontMatrixEntry (f.fdMatrices.getD i defaultFM) false).getD i []) ++
      [(18, [.int ((privBlobs.getD i []).length), .int (off (10 + i))])])).1
  let top := topCid std f r o sup (off 6) (off 8) (off 7) (off 9)
  let e := encodeDictS std (rosCustom std r o) top
  { privBlobs := privBlobs, fdDicts := fdDicts, top := top, topData := e.1, custom := e.2,
    B := [[1, 0, 4, UInt8.ofNat (offsSize (off (11 + np)))], outOk (indexEncode [f.fontName]), outOk (indexEncode [e.1]),
          outOk (indexEncode (e.2.map strToBlob)), [0, 0], [], cs, fdEncode f.fds, outOk (indexEncode f.charStrings),
          outOk (indexEncode fdDicts)] ++ privBlobs ++ [[0, 0]] }

theorem mkBlobs_cid (std : List String) (f : FontIn) (r o : String) (sup : Int) (cs : Bytes) (offs : List Int) :
    mkBlobs std true
      { nameIndex := outOk (indexEncode [f.fontName]), encoding := none, charsets := cs,
        fdSelect := some (fdEncode f.fds),
        charStrings := outOk (indexEncode f.charStrings), custom0 := rosCustom std r o,
        topBase := topBaseCid std f r o sup, expert := false,
        privBase := f.privs.map fun p => makePrivateDict p f.defWidth f.nomWidth,
        fdBase := (List.range f.privs.length).map fun i => fontMatrixEntry (f.fdMatrices.getD i defaultFM) false }
      (mkSecs f) offs = (cidSecs std f r o sup cs offs).B := by
  simp [mkBlobs, mkSecs, cidSecs, topCid]


/-! ### the Top DICT of a CID-keyed font -/

def expectCid (r o : String) (sup : Int) (e : Nat × List Operand) : Nat × List Operand :=
  if e.1 = 3102 then (3102, [.str r, .str o, .int sup]) else (e.1, e.2.map decOperand)

theorem expectCid_key (r o : String) (sup : Int) (e : Nat × List Operand) : (expectCid r o sup e).1 = e.1 := by
  unfold expectCid; split
  · rename_i h; simp [h]
  · rfl

theorem dGet_cid (r o : String) (sup : Int) (d : DictL) (hn : (d.map (·.1)).Nodup) (op : Nat) (hop : op ≠ 3102) :
    dGet ((sortDict d).map (expectCid r o sup)) op = (dGet d op).map decOperand := by
  unfold dGet
  rw [dGet_expected d _ (expectCid_key r o sup) hn op]
  cases h : d.find? (fun x => decide (x.1 = op)) with
  | none => simp
  | some e =>
    have := List.find?_some h
    simp only [decide_eq_true_eq] at this
    simp [expectCid, this, hop]

theorem topCid_keys_nodup (std : List String) (f : FontIn) (r o : String) (sup : Int) (a b c d : Int) :
    ((topCid std f r o sup a b c d).map (·.1)).Nodup := by
  have hsub : ((topCid std f r o sup a b c d).map (·.1)).Sublist
      [0, 1, 3072, 2, 3, 4, 3073, 3074, 3075, 3076, 3102, 3106, 3079, 15, 17, 3109, 3108] := by
    simp only [topCid, topBaseCid, top0, List.map_append]
    have e : ([0, 1, 3072, 2, 3, 4, 3073, 3074, 3075, 3076, 3102, 3106, 3079, 15, 17, 3109, 3108] : List Nat)
        = ([0] ++ [1] ++ [3072] ++ [2] ++ [3] ++ [4] ++ [3073] ++ [3074] ++ [3075] ++ [3076]) ++ [3102, 3106]
          ++ [3079] ++ [15] ++ [17] ++ [3109, 3108] := rfl
    rw [e]
    repeat' apply List.Sublist.append
    all_goals first
      | exact keys_optEntry _ _ _
      | exact keys_fontMatrixEntry _ _
      | exact List.Sublist.refl _
  exact List.Nodup.sublist hsub (by decide)

/-- the domain of the Top DICT of a CID-keyed font -/
structure TopDomCid (f : FontIn) : Prop where
  ulPos : ValidOperand f.ulPos
  ulThick : ValidOperand f.ulThick
  angle : RealDom f.italicAngle
  fm : ∀ x ∈ f.fontMatrix.getD identityFM, RealDom x

theorem topCid_kinds (std : List String) (f : FontIn) (r o : String) (sup : Int) (h : TopDomCid f)
    (hstd : std.length + 2 < 2147483647) (hsup : I32 sup) (a b cc d : Int)
    (ha : I32 a) (hb : I32 b) (hc : I32 cc) (hd : I32 d) :
    ∀ e ∈ topCid std f r o sup a b cc d, EntryKind std (rosCustom std r o) e (expectCid r o sup e) := by
  intro e he'
  have one : ∀ (o : Operand), ValidOperand o → ∀ o' ∈ [o], ValidOperand o' := by
    intro o ho o' h'; simp at h'; subst h'; exact ho
  have strK : ∀ (op : Nat) (s : String), op ∈ [0, 1, 3072, 2, 3, 4] →
      EntryKind std (rosCustom std r o) (op, [.str s]) (expectCid r o sup (op, [Operand.str s])) := by
    intro op s hop
    simp only [List.mem_cons, List.mem_nil_iff, or_false] at hop
    rcases hop with rfl | rfl | rfl | rfl | rfl | rfl <;>
      exact .single _ s (by unfold EncOp; omega) (by decide) (by decide)
  have plainK : ∀ (op : Nat) (args : List Operand), op ∈ [3073, 3074, 3075, 3076, 3079, 3106, 15, 17, 3109, 3108] →
      (∀ o ∈ args, ValidOperand o) → EntryKind std (rosCustom std r o) (op, args) (expectCid r o sup (op, args)) := by
    intro op args hop hv
    simp only [List.mem_cons, List.mem_nil_iff, or_false] at hop
    rcases hop with rfl | rfl | rfl | rfl | rfl | rfl | rfl | rfl | rfl | rfl <;>
      exact .plain _ args (by unfold EncOp; omega) (by decide) hv
  simp only [topCid, topBaseCid, top0, List.mem_append, List.mem_cons, List.mem_nil_iff, or_false, or_assoc] at he'
  rcases he' with he' | he' | he' | he' | he' | he' | he' | he' | he' | he' | he' | he' | he' | he' | he' | he' | he'
  · rw [mem_optEntry he']; exact strK 0 _ (by simp)
  · rw [mem_optEntry he']; exact strK 1 _ (by simp)
  · rw [mem_optEntry he']; exact strK 3072 _ (by simp)
  · rw [mem_optEntry he']; exact strK 2 _ (by simp)
  · rw [mem_optEntry he']; exact strK 3 _ (by simp)
  · rw [mem_optEntry he']; exact strK 4 _ (by simp)
  · rw [mem_optEntry he']; exact plainK 3073 _ (by simp) (one _ (by simp [ValidOperand]))
  · rw [mem_optEntry he']; exact plainK 3074 _ (by simp) (one _ (realOperand_valid _ h.angle))
  · rw [mem_optEntry he']; exact plainK 3075 _ (by simp) (one _ h.ulPos)
  · rw [mem_optEntry he']; exact plainK 3076 _ (by simp) (one _ h.ulThick)
  · -- ROS
    rw [he']
    obtain ⟨g1, ext1, hext1⟩ := stringsGet_lookup std [] r
    obtain ⟨g2, ext2, hext2⟩ := stringsGet_lookup std (stringsLookup std [] r).2 o
    have b1 := stringsLookup_bound std [] r
    have b2 := stringsLookup_bound std (stringsLookup std [] r).2 o
    simp only [List.length_nil] at b1
    have hg1 : stringsGet std.toArray (rosCustom std r o).toArray ((stringsLookup std [] r).1 : Int) = some r := by
      unfold rosCustom
      rw [hext2]
      exact stringsGet_mono std _ ext2 _ r g1
    exact .ros _ _ sup r o hg1 g2 (by omega) (by omega) hsup
  · rw [he']
    exact plainK 3106 _ (by simp) (one _ (by simp only [ValidOperand]; omega))
  · rw [mem_fontMatrixEntry he']
    exact plainK 3079 _ (by simp) (by
      intro o ho
      obtain ⟨x, hx, rfl⟩ := List.mem_map.mp ho
      exact realOperand_valid _ (h.fm x hx))
  · rw [he']; exact plainK 15 _ (by simp) (one _ ha)
  · rw [he']; exact plainK 17 _ (by simp) (one _ hb)
  · rw [he']; exact plainK 3109 _ (by simp) (one _ hc)
  · rw [he']; exact plainK 3108 _ (by simp) (one _ hd)


theorem topCid_decode (std : List String) (f : FontIn) (r o : String) (sup : Int) (h : TopDomCid f)
    (hstd : std.length + 2 < 2147483647) (hsup : I32 sup) (a b cc d : Int)
    (ha : I32 a) (hb : I32 b) (hc : I32 cc) (hd : I32 d)
    (hlen : std.length + (encodeDictS std (rosCustom std r o) (topCid std f r o sup a b cc d)).2.length < 2147483647) :
    decodeDict std.toArray (encodeDictS std (rosCustom std r o) (topCid std f r o sup a b cc d)).2.toArray
        (encodeDictS std (rosCustom std r o) (topCid std f r o sup a b cc d)).1
      = .ok ((sortDict (topCid std f r o sup a b cc d)).map (expectCid r o sup)) := by
  have := decode_encodeDictS std (rosCustom std r o) (topCid std f r o sup a b cc d) (expectCid r o sup)
    (expectCid_key r o sup) (topCid_keys_nodup std f r o sup a b cc d)
    (topCid_kinds std f r o sup h hstd hsup a b cc d ha hb hc hd) hlen []
  simpa using this

theorem dGet_topCid (std : List String) (f : FontIn) (r o : String) (sup : Int) (a b c d : Int) :
    dGet (topCid std f r o sup a b c d) 17 = [.int b] ∧ dGet (topCid std f r o sup a b c d) 15 = [.int a] ∧
    dGet (topCid std f r o sup a b c d) 3109 = [.int c] ∧ dGet (topCid std f r o sup a b c d) 3108 = [.int d] ∧
    dGet (topCid std f r o sup a b c d) 3078 = [] ∧
    (topCid std f r o sup a b c d).find? (fun x => decide (x.1 = 3102))
      = some (3102, [.int (stringsLookup std [] r).1, .int (stringsLookup std (stringsLookup std [] r).2 o).1, .int sup]) ∧
    dGet (topCid std f r o sup a b c d) 3079
      = (if fontMatrixNeeded (f.fontMatrix.getD identityFM) true then (f.fontMatrix.getD identityFM).map realOperand else []) ∧
    dGet (topCid std f r o sup a b c d) 3073 = (if f.isFixedPitch then [.int 1] else []) ∧
    dGet (topCid std f r o sup a b c d) 3074 = (if f.italicAngle.2.1 ≠ 0 then [realOperand f.italicAngle] else []) ∧
    dGet (topCid std f r o sup a b c d) 3075 = (if f.ulPosDefault then [] else [f.ulPos]) ∧
    dGet (topCid std f r o sup a b c d) 3076 = (if f.ulThickDefault then [] else [f.ulThick]) ∧
    (∀ (i op : Nat), (i, op) ∈ [(0, 0), (1, 1), (2, 3072), (3, 2), (4, 3), (5, 4)] →
      dGet (topCid std f r o sup a b c d) op = (if f.strs.getD i "" ≠ "" then [.str (f.strs.getD i "")] else [])) := by
  refine ⟨?_, ?_, ?_, ?_, ?_, ?_, ?_, ?_, ?_, ?_, ?_, ?_⟩
  all_goals first
    | (intro i op hm
       simp only [List.mem_cons, List.mem_nil_iff, or_false, Prod.mk.injEq] at hm
       rcases hm with ⟨rfl, rfl⟩ | ⟨rfl, rfl⟩ | ⟨rfl, rfl⟩ | ⟨rfl, rfl⟩ | ⟨rfl, rfl⟩ | ⟨rfl, rfl⟩ <;>
       · simp (disch := decide) only [topCid, topBaseCid, top0, fontMatrixEntry, dGet, List.find?_append,
           find_optEntry_eq, find_optEntry_ne, List.find?_cons, List.find?_nil, Option.or_none, Option.none_or]
         first | (split <;> simp_all) | simp)
    | (simp (disch := decide) only [topCid, topBaseCid, top0, fontMatrixEntry, dGet, List.find?_append,
         find_optEntry_eq, find_optEntry_ne, List.find?_cons, List.find?_nil, Option.or_none, Option.none_or]
       first
         | (cases fontMatrixNeeded (f.fontMatrix.getD identityFM) true <;> simp; done)
         | (split <;> simp_all)
         | simp)


/-! ### a Font DICT of the FDArray -/

def fdDictOf (fm : List Rl) (len off : Int) : DictL := fontMatrixEntry fm false ++ [(18, [.int len, .int off])]

theorem fdDict_keys_nodup (fm : List Rl) (len off : Int) : ((fdDictOf fm len off).map (·.1)).Nodup := by
  have hsub : ((fdDictOf fm len off).map (·.1)).Sublist [3079, 18] := by
    simp only [fdDictOf, List.map_append]
    have e : ([3079, 18] : List Nat) = [3079] ++ [18] := rfl
    rw [e]
    apply List.Sublist.append
    · exact keys_fontMatrixEntry _ _
    · exact List.Sublist.refl _
  exact List.Nodup.sublist hsub (by decide)

theorem fdDict_valid (fm : List Rl) (len off : Int) (hfm : ∀ x ∈ fm, RealDom x) (hl : I32 len) (ho : I32 off) :
    ∀ e ∈ fdDictOf fm len off, ValidOp e.1 ∧ ∀ o ∈ e.2, ValidOperand o := by
  intro e he
  simp only [fdDictOf, List.mem_append, List.mem_singleton] at he
  rcases he with he | he
  · rw [mem_fontMatrixEntry he]
    refine ⟨(show ValidOp 3079 from ⟨by decide, by omega⟩), ?_⟩
    intro o ho'
    obtain ⟨x, hx, rfl⟩ := List.mem_map.mp ho'
    exact realOperand_valid _ (hfm x hx)
  · rw [he]
    refine ⟨(show ValidOp 18 from ⟨by decide, by omega⟩), ?_⟩
    intro o ho'
    simp only [List.mem_cons, List.mem_nil_iff, or_false] at ho'
    rcases ho' with rfl | rfl
    · exact hl
    · exact ho

theorem fdDict_nostr (fm : List Rl) (len off : Int) (hfm : ∀ x ∈ fm, RealDom x) (hl : I32 len) (ho : I32 off) :
    ∀ e ∈ fdDictOf fm len off, NoStr e.2 := by
  intro e he o ho' s hs
  subst hs
  exact absurd ((fdDict_valid fm len off hfm hl ho e he).2 _ ho') (by simp [ValidOperand])

theorem fdDict_read (std custom : Array String) (fm : List Rl) (len off : Int) (hfm : ∀ x ∈ fm, RealDom x)
    (hfmLen : fm.length = 6) (hl : I32 len) (ho : I32 off) :
    ∃ fd, decodeDict std custom (encodeDict (fdDictOf fm len off)) = .ok fd ∧
      dPair fd 18 = some (len, off) ∧
      dFontMatrix fd 3079 false = (if fontMatrixNeeded fm false then fm else defaultFM) := by
  have hn := fdDict_keys_nodup fm len off
  refine ⟨_, decodeDict_encodeDict_nodup std custom _ hn (fdDict_valid fm len off hfm hl ho), ?_, ?_⟩
  · unfold dPair
    rw [dGet_decoded _ hn]
    have : dGet (fdDictOf fm len off) 18 = [.int len, .int off] := by
      simp (disch := decide) only [fdDictOf, fontMatrixEntry, dGet, List.find?_append,
        find_optEntry_eq, find_optEntry_ne, List.find?_cons, List.find?_nil, Option.or_none, Option.none_or]
      simp
    rw [this]; rfl
  · unfold dFontMatrix
    rw [dGet_decoded _ hn]
    have : dGet (fdDictOf fm len off) 3079 = (if fontMatrixNeeded fm false then fm.map realOperand else []) := by
      simp (disch := decide) only [fdDictOf, fontMatrixEntry, dGet, List.find?_append,
        find_optEntry_eq, find_optEntry_ne, List.find?_cons, List.find?_nil, Option.or_none, Option.none_or]
      cases fontMatrixNeeded fm false <;> simp
    rw [this]
    cases fontMatrixNeeded fm false with
    | false => simp
    | true =>
      simp only [if_true, List.length_map, hfmLen, ne_eq, not_true_eq_false, if_false, Bool.false_eq_true,
        List.map_map]
      have := mapM_real_back fm hfm
      simp only [Function.comp_def] at this ⊢
      rw [this]


/-! ### the composition for CID-keyed fonts -/

theorem mapOutcomeL_map_ok {α β γ : Type} (g : β → Outcome γ) (h : α → β) (k : α → γ) :
    ∀ (l : List α), (∀ x ∈ l, g (h x) = .ok (k x)) → mapOutcomeL g (l.map h) = .ok (l.map k) := by
  intro l
  induction l with
  | nil => intro _; rfl
  | cons x xs ih =>
    intro hx
    simp only [List.map_cons, mapOutcomeL, hx x (List.mem_cons_self ..),
      ih (fun y hy => hx y (List.mem_cons_of_mem _ hy))]

/-- the domain: a CID-keyed font with 1..256 private DICTs -/
structure CidDom (std : List String) (f : FontIn) (r o : String) (sup : Int) : Prop where
  ros : f.ros = some (r, o, sup)
  sup : I32 sup
  top : TopDomCid f
  npPos : 1 ≤ f.privs.length
  npMax : f.privs.length ≤ 256
  priv : ∀ p ∈ f.privs, ∀ sub, I32 sub → PrivDom p f.defWidth f.nomWidth sub
  nameLen : f.fontName.length + 1 < 4294967296
  nCids : f.cids.length = f.charStrings.length
  nFds : f.fds.length = f.charStrings.length
  nPos : 1 ≤ f.charStrings.length
  nMax : f.charStrings.length < 65536
  stdMax : std.length + 16 < 65536
  csBody : bodyLength f.charStrings + 1 < 4294967296
  notdef : f.cids.head? = some 0
  cidR : ∀ x ∈ f.cids, 0 ≤ x ∧ x ≤ 65535
  fdR : ∀ x ∈ f.fds, 0 ≤ x ∧ x < f.privs.length
  latin : ∀ s, s ∈ f.strs ∨ s = r ∨ s = o → ∀ c ∈ s.toList, c.toNat < 256
  fmLen : (f.fontMatrix.getD identityFM).length = 6
  fdm : ∀ i, i < f.privs.length → (f.fdMatrices.getD i defaultFM).length = 6 ∧
    ∀ x ∈ f.fdMatrices.getD i defaultFM, RealDom x

/-- the normal form of a CID-keyed font: what `Read` is expected to deliver -/
def nfCid (f : FontIn) (r o : String) (sup : Int) : FontOut :=
  { fontName := f.fontName,
    strs := (List.range 6).map fun i => f.strs.getD i "",
    isFixedPitch := f.isFixedPitch,
    italicAngle := normaliseAngle f.italicAngle,
    ulPos := if f.ulPosDefault then Rl.ofInt (-100) else operandRl f.ulPos,
    ulThick := if f.ulThickDefault then Rl.ofInt 50 else operandRl f.ulThick,
    fontMatrix := if fontMatrixNeeded (f.fontMatrix.getD identityFM) true then f.fontMatrix.getD identityFM else identityFM,
    charStrings := f.charStrings, isCID := true, ros := (r, o, sup),
    fontMatrices := (List.range f.privs.length).map fun i =>
      if fontMatrixNeeded (f.fdMatrices.getD i defaultFM) false then f.fdMatrices.getD i defaultFM else defaultFM,
    privs := f.privs.map fun p => nfPriv p f.defWidth f.nomWidth,
    fds := f.fds.map Int.toNat,
    charset := f.cids,
    names := [],
    encoding := [],
    gsubrs := [] }

theorem prepare_ok_inv_cid (std : List String) (f : FontIn) (r o : String) (sup : Int)
    (hros : f.ros = some (r, o, sup)) (v : Fixed × Secs) (h : prepare std f = .ok v) :
    ∃ cs, encodeCharset f.cids = .ok cs := by
  unfold prepare at h
  cases hcs : encodeCharset f.cids with
  | ok cs => exact ⟨cs, rfl⟩
  | err x => simp [hros, hcs] at h
  | panic x => simp [hros, hcs] at h

theorem cid_layout (std : List String) (f : FontIn) (r o : String) (sup : Int) (hd : CidDom std f r o sup)
    (file : Bytes) (passes : Nat) (h : writeFont std f = .ok (file, passes)) :
    ∃ cs offs,
      encodeCharset f.cids = .ok cs ∧
      file = (cidSecs std f r o sup cs offs).B.flatten ∧
      idxOk (cidSecs std f r o sup cs offs).fdDicts = true ∧
      idxOk [(cidSecs std f r o sup cs offs).topData] = true ∧
      idxOk ((cidSecs std f r o sup cs offs).custom.map strToBlob) = true ∧
      ∀ i, i < 11 + f.privs.length → offs.getD i 0 = (secPos (cidSecs std f r o sup cs offs).B i : Int) := by
  have hi1 : idxOk [f.fontName] = true := idxOk_of_bounds _ (by simp) (by simp [bodyLength]; exact hd.nameLen)
  have hi2 : idxOk f.charStrings = true := idxOk_of_bounds _ hd.nMax hd.csBody
  obtain ⟨fx, sc, offs, hprep, hfile, hfits, hoffs⟩ := writeFont_exit std f file passes h
  obtain ⟨cs, hcs⟩ := prepare_ok_inv_cid std f r o sup hd.ros _ hprep
  rw [prepare_cid std f r o sup hd.ros cs hcs hi1 hi2] at hprep
  injection hprep with hprep
  injection hprep with hfx hsc
  subst hfx; subst hsc
  simp only [hd.ros, Option.isSome_some] at hfile hoffs hfits
  rw [mkBlobs_cid std f r o sup cs offs] at hfile hoffs
  have hf2 : idxOk (cidSecs std f r o sup cs offs).fdDicts = true ∧
      idxOk [(cidSecs std f r o sup cs offs).topData] = true ∧
      idxOk ((cidSecs std f r o sup cs offs).custom.map strToBlob) = true := by
    simpa [mkBlobsFits, mkSecs, cidSecs, topCid, and_assoc] using hfits
  refine ⟨cs, offs, hcs, hfile, hf2.1, hf2.2.1, hf2.2.2, ?_⟩
  intro i hi
  have hnum : (mkSecs f).num = 11 + f.privs.length := by simp [mkSecs]
  have hlenB : (cidSecs std f r o sup cs offs).B.length = 11 + f.privs.length := by simp [cidSecs]; omega
  exact hoffs i (by rw [hnum]; exact hi) (by rw [hlenB]; omega)


/-! ### the sections of a CID-keyed font -/

theorem getD_mid {α : Type} (a b c : List α) (i : Nat) (d : α) (hi : i < b.length) :
    (a ++ b ++ c).getD (a.length + i) d = b.getD i d := by
  simp only [List.getD_eq_getElem?_getD]
  rw [List.append_assoc, List.getElem?_append_right (by omega)]
  simp only [Nat.add_sub_cancel_left]
  rw [List.getElem?_append_left hi]

theorem getD_last {α : Type} (a b : List α) (x d : α) :
    (a ++ b ++ [x]).getD (a.length + b.length) d = x := by
  simp only [List.getD_eq_getElem?_getD]
  rw [List.getElem?_append_right (by simp)]
  simp

theorem range_map_getD {α β : Type} (l : List α) (d : α) (g : α → β) :
    (List.range l.length).map (fun i => g (l.getD i d)) = l.map g := by
  apply List.ext_getElem
  · simp
  · intro i h1 h2
    simp only [List.length_map, List.length_range] at h1
    simp [List.getD_eq_getElem?_getD, List.getElem?_eq_getElem h1]

theorem cidSecs_lengths (std : List String) (f : FontIn) (r o : String) (sup : Int) (cs : Bytes) (offs : List Int) :
    (cidSecs std f r o sup cs offs).privBlobs.length = f.privs.length ∧
    (cidSecs std f r o sup cs offs).fdDicts.length = f.privs.length ∧
    (cidSecs std f r o sup cs offs).B.length = 11 + f.privs.length := by
  refine ⟨by simp [cidSecs], by simp [cidSecs], by simp [cidSecs]; omega⟩

theorem cidSecs_B (std : List String) (f : FontIn) (r o : String) (sup : Int) (cs : Bytes) (offs : List Int) :
    (cidSecs std f r o sup cs offs).B =
      [[1, 0, 4, UInt8.ofNat (offsSize (offs.getD (11 + f.privs.length) 0))], outOk (indexEncode [f.fontName]),
        outOk (indexEncode [(cidSecs std f r o sup cs offs).topData]),
        outOk (indexEncode ((cidSecs std f r o sup cs offs).custom.map strToBlob)), [0, 0], [], cs, fdEncode f.fds,
        outOk (indexEncode f.charStrings), outOk (indexEncode (cidSecs std f r o sup cs offs).fdDicts)]
        ++ (cidSecs std f r o sup cs offs).privBlobs ++ [[0, 0]] := by
  simp only [cidSecs]

theorem cidSecs_top (std : List String) (f : FontIn) (r o : String) (sup : Int) (cs : Bytes) (offs : List Int) :
    (cidSecs std f r o sup cs offs).top
      = topCid std f r o sup (offs.getD 6 0) (offs.getD 8 0) (offs.getD 7 0) (offs.getD 9 0) := by
  simp only [cidSecs]

theorem cidSecs_enc (std : List String) (f : FontIn) (r o : String) (sup : Int) (cs : Bytes) (offs : List Int) :
    ((cidSecs std f r o sup cs offs).topData, (cidSecs std f r o sup cs offs).custom)
      = encodeDictS std (rosCustom std r o) (cidSecs std f r o sup cs offs).top := by
  simp only [cidSecs]

theorem cidSecs_privBlob (std : List String) (f : FontIn) (r o : String) (sup : Int) (cs : Bytes) (offs : List Int)
    (i : Nat) (hi : i < f.privs.length) (p0 : PrivIn) :
    (cidSecs std f r o sup cs offs).privBlobs.getD i []
      = (encodeDictS std [] (privDictOf (f.privs.getD i p0) f.defWidth f.nomWidth
          (offs.getD (10 + f.privs.length) 0 - offs.getD (10 + i) 0))).1 := by
  simp only [cidSecs, privDictOf, List.getD_eq_getElem?_getD, List.getElem?_map, List.getElem?_range hi,
    List.getElem?_eq_getElem hi, Option.map_some, Option.getD_some]

theorem cidSecs_fdDict (std : List String) (f : FontIn) (r o : String) (sup : Int) (cs : Bytes) (offs : List Int) :
    (cidSecs std f r o sup cs offs).fdDicts = (List.range f.privs.length).map fun i =>
      (encodeDictS std [] (fdDictOf (f.fdMatrices.getD i defaultFM)
        ((cidSecs std f r o sup cs offs).privBlobs.getD i []).length (offs.getD (10 + i) 0))).1 := by
  simp only [cidSecs, fdDictOf]
  apply List.map_congr_left
  intro i hi
  have hi' : i < f.privs.length := List.mem_range.mp hi
  simp only [List.getD_eq_getElem?_getD, List.getElem?_map, List.getElem?_range hi', Option.map_some, Option.getD_some]


/-- the strings in the Top DICT of a CID-keyed font are FontInfo strings -/
theorem topCid_strs (std : List String) (f : FontIn) (r o : String) (sup : Int) (ht : TopDomCid f) (a b c d : Int)
    (x : String) :
    (∃ e ∈ topCid std f r o sup a b c d, Operand.str x ∈ e.2) → x ∈ f.strs ∨ x = "" := by
  rintro ⟨e, he, hx⟩
  simp only [topCid, topBaseCid, top0, fontMatrixEntry, List.mem_append, List.mem_cons, List.mem_nil_iff, or_false,
    or_assoc] at he
  have getD_mem : ∀ i, f.strs.getD i "" ∈ f.strs ∨ f.strs.getD i "" = "" := by
    intro i
    rw [List.getD_eq_getElem?_getD]
    cases hh : f.strs[i]? with
    | none => right; rfl
    | some v => left; simp; exact List.mem_of_getElem? hh
  have strCase : ∀ (op i : Nat), e = (op, [Operand.str (f.strs.getD i "")]) → x ∈ f.strs ∨ x = "" := by
    intro op i hee
    rw [hee] at hx
    simp only [List.mem_singleton] at hx
    injection hx with hx
    rw [hx]
    exact getD_mem i
  have numCase : ∀ (op : Nat) (args : List Operand), (∀ o ∈ args, ∀ s, o ≠ Operand.str s) → e = (op, args) →
      x ∈ f.strs ∨ x = "" := by
    intro op args hno hee
    rw [hee] at hx
    exact absurd rfl (hno _ hx x)
  have validNo : ∀ (o : Operand), ValidOperand o → ∀ o' ∈ [o], ∀ s, o' ≠ Operand.str s := by
    intro o ho o' h' s hs
    simp only [List.mem_singleton] at h'
    subst h'; subst hs
    simp [ValidOperand] at ho
  have intNo : ∀ (l : List Int), ∀ o ∈ l.map Operand.int, ∀ s, o ≠ Operand.str s := by
    intro l o ho s hs
    obtain ⟨v, _, rfl⟩ := List.mem_map.mp ho
    cases hs
  rcases he with he | he | he | he | he | he | he | he | he | he | he | he | he | he | he | he | he
  · exact strCase _ 0 (mem_optEntry he)
  · exact strCase _ 1 (mem_optEntry he)
  · exact strCase _ 2 (mem_optEntry he)
  · exact strCase _ 3 (mem_optEntry he)
  · exact strCase _ 4 (mem_optEntry he)
  · exact strCase _ 5 (mem_optEntry he)
  · exact numCase _ _ (intNo [1]) (mem_optEntry he)
  · exact numCase _ _ (validNo _ (realOperand_valid _ ht.angle)) (mem_optEntry he)
  · exact numCase _ _ (validNo _ ht.ulPos) (mem_optEntry he)
  · exact numCase _ _ (validNo _ ht.ulThick) (mem_optEntry he)
  · exact numCase _ _ (intNo [_, _, sup]) he
  · exact numCase _ _ (intNo [_]) he
  · refine numCase _ _ ?_ (mem_optEntry he)
    intro o ho s hs
    obtain ⟨y, _, rfl⟩ := List.mem_map.mp ho
    exact realOperand_ne_str y s hs
  · exact numCase _ _ (intNo [a]) he
  · exact numCase _ _ (intNo [b]) he
  · exact numCase _ _ (intNo [c]) he
  · exact numCase _ _ (intNo [d]) he


theorem readFont_writeFont_cid (T : Tables) (f : FontIn) (r o : String) (sup : Int)
    (hd : CidDom T.std.toList f r o sup)
    (file : Bytes) (passes : Nat) (h : writeFont T.std.toList f = .ok (file, passes))
    (hsize : file.length < 2147483648) :
    readFont T file = .ok (nfCid f r o sup) := by
  obtain ⟨cs, offs, hcs, hfile, hfitFd, hfitTop, hfitStr, hoffs⟩ := cid_layout T.std.toList f r o sup hd file passes h
  subst hfile
  obtain ⟨hlenP, hlenF, hlenB⟩ := cidSecs_lengths T.std.toList f r o sup cs offs
  have hBeq := cidSecs_B T.std.toList f r o sup cs offs
  have hStop := cidSecs_top T.std.toList f r o sup cs offs
  have hSenc := cidSecs_enc T.std.toList f r o sup cs offs
  have hSpriv := cidSecs_privBlob T.std.toList f r o sup cs offs
  have hSfd := cidSecs_fdDict T.std.toList f r o sup cs offs
  generalize cidSecs T.std.toList f r o sup cs offs = S at *
  have hnp1 := hd.npPos
  have hnp2 := hd.npMax
  generalize hnp : f.privs.length = np at *
  -- the sections
  have hB0 : S.B.getD 0 [] = [1, 0, 4, UInt8.ofNat (offsSize (offs.getD (11 + np) 0))] := by rw [hBeq]; rfl
  have hB1 : S.B.getD 1 [] = outOk (indexEncode [f.fontName]) := by rw [hBeq]; rfl
  have hB2 : S.B.getD 2 [] = outOk (indexEncode [S.topData]) := by rw [hBeq]; rfl
  have hB3 : S.B.getD 3 [] = outOk (indexEncode (S.custom.map strToBlob)) := by rw [hBeq]; rfl
  have hB4 : S.B.getD 4 [] = [0, 0] := by rw [hBeq]; rfl
  have hB6 : S.B.getD 6 [] = cs := by rw [hBeq]; rfl
  have hB7 : S.B.getD 7 [] = fdEncode f.fds := by rw [hBeq]; rfl
  have hB8 : S.B.getD 8 [] = outOk (indexEncode f.charStrings) := by rw [hBeq]; rfl
  have hB9 : S.B.getD 9 [] = outOk (indexEncode S.fdDicts) := by rw [hBeq]; rfl
  have hBp : ∀ i, i < np → S.B.getD (10 + i) [] = S.privBlobs.getD i [] := by
    intro i hi
    rw [hBeq]
    exact getD_mid _ _ _ i [] (by omega)
  have hBlast : S.B.getD (10 + np) [] = [0, 0] := by
    rw [hBeq, ← hlenP]
    exact getD_last _ _ _ _
  -- positions
  have hP0 : secPos S.B 0 = 0 := by simp [secPos]
  have hP1 : secPos S.B 1 = 4 := by rw [secPos_succ _ 0 (by omega), hP0, hB0]; rfl
  -- step 1: the header
  have hos := offsSize_le (offs.getD (11 + np) 0)
  generalize offsSize (offs.getD (11 + np) 0) = os at hB0 hos
  have hrd0 : rd S.B.flatten 0 4 = some [1, 0, 4, UInt8.ofNat os] := by
    have := rd_section S.B 0 (by omega)
    rw [hP0, hB0] at this
    exact this
  unfold readFont
  rw [hrd0]
  simp only
  have hx : beVal [1, 0, 4, UInt8.ofNat os] = 16777216 + 1024 + os := by
    have : (UInt8.ofNat os).toNat = os := by simp [UInt8.toNat_ofNat']; omega
    simp [beVal, this]; omega
  rw [hx]
  have e1 : (16777216 + 1024 + os) / 16777216 = 1 := by omega
  have e2 : (16777216 + 1024 + os) / 256 % 256 = 4 := by omega
  have e3 : (16777216 + 1024 + os) % 256 = os := by omega
  simp only [e1, e2, e3]
  rw [if_neg (by omega), if_neg (by omega)]
  -- steps 2-4: Name INDEX, Top DICT INDEX, String INDEX
  have hI1 := readIndex_section' S.B 1 (by omega) [f.fontName] (by simp) (by simp [bodyLength]; exact hd.nameLen) hB1
  rw [hP1] at hI1
  rw [hI1]
  simp only [List.length_singleton, show ¬ (1 = 0) by omega, if_false, show ¬ (1 > 1) by omega]
  have htdlen : S.topData.length + 1 < 4294967296 := by
    have := (idxOk_bounds _ hfitTop (by simp)).2
    simpa [bodyLength] using this
  have hI2 := readIndex_section' S.B 2 (by omega) [S.topData] (by simp) (by simp [bodyLength]; exact htdlen) hB2
  rw [hI2]
  simp only [List.length_singleton, ne_eq, not_true_eq_false, if_false]
  have hcustomLen : (S.custom.map strToBlob).length < 65536 ∧ bodyLength (S.custom.map strToBlob) + 1 < 4294967296 := by
    by_cases hne : S.custom.map strToBlob = []
    · rw [hne]; simp [bodyLength]
    · exact idxOk_bounds _ hfitStr hne
  have hI3 := readIndex_section' S.B 3 (by omega) (S.custom.map strToBlob) hcustomLen.1 hcustomLen.2 hB3
  rw [hI3]
  simp only
  -- the custom strings come back (Latin-1 carriers)
  have hcustomL1 : ∀ s ∈ S.custom, ∀ c ∈ s.toList, c.toNat < 256 := by
    intro s hs
    have hs' : s ∈ (encodeDictS T.std.toList (rosCustom T.std.toList r o) S.top).2 := by
      rw [← hSenc]; exact hs
    rcases encodeDictS_mem _ _ _ s hs' with h1 | h1
    · unfold rosCustom at h1
      rcases stringsLookup_mem _ _ _ s h1 with h2 | h2
      · rcases stringsLookup_mem _ _ _ s h2 with h3 | h3
        · simp at h3
        · exact hd.latin s (Or.inr (Or.inl h3))
      · exact hd.latin s (Or.inr (Or.inr h2))
    · rw [hStop] at h1
      rcases topCid_strs _ f r o sup hd.top _ _ _ _ s h1 with h2 | h2
      · exact hd.latin s (Or.inl h2)
      · rw [h2]; intro c hc; simp at hc
  have hcustomBack : (S.custom.map strToBlob).map blobToStr = S.custom := by
    rw [List.map_map]
    conv => rhs; rw [← List.map_id S.custom]
    apply List.map_congr_left
    intro s hs
    exact blobToStr_strToBlob s (hcustomL1 s hs)
  rw [hcustomBack]
  simp only [List.headD_cons]
  -- bounds on the numbers in the Top DICT
  have hoffB : ∀ i, i < 11 + np → I32 (offs.getD i 0) := by
    intro i hi
    rw [hoffs i hi]
    have := secPos_le S.B i
    unfold I32; omega
  have htopDec := topCid_decode T.std.toList f r o sup hd.top (by have := hd.stdMax; omega) hd.sup
    (offs.getD 6 0) (offs.getD 8 0) (offs.getD 7 0) (offs.getD 9 0)
    (hoffB 6 (by omega)) (hoffB 8 (by omega)) (hoffB 7 (by omega)) (hoffB 9 (by omega))
    (by
      rw [← hStop, ← hSenc]
      have h1 := hcustomLen.1
      have h2 := hd.stdMax
      simp only [List.length_map] at h1
      show T.std.toList.length + S.custom.length < 2147483647
      omega)
  rw [← hStop, ← hSenc] at htopDec
  simp only [Array.toArray_toList] at htopDec
  rw [htopDec]
  simp only
  -- what `Read` finds in the Top DICT
  have hnd := topCid_keys_nodup T.std.toList f r o sup (offs.getD 6 0) (offs.getD 8 0) (offs.getD 7 0) (offs.getD 9 0)
  rw [← hStop] at hnd
  have key : ∀ op, op ≠ 3102 → dGet ((sortDict S.top).map (expectCid r o sup)) op = (dGet S.top op).map decOperand :=
    fun op hop => dGet_cid r o sup S.top hnd op hop
  obtain ⟨g17, g15, g3109, g3108, g3078, gros, g3079, g3073, g3074, g3075, g3076, gstr⟩ :=
    dGet_topCid T.std.toList f r o sup (offs.getD 6 0) (offs.getD 8 0) (offs.getD 7 0) (offs.getD 9 0)
  rw [← hStop] at g17 g15 g3109 g3108 g3078 gros g3079 g3073 g3074 g3075 g3076 gstr
  have hfind : ((sortDict S.top).map (expectCid r o sup)).find? (fun x => decide (x.1 = 3102))
      = some (3102, [.str r, .str o, .int sup]) := by
    rw [dGet_expected S.top _ (expectCid_key r o sup) hnd 3102, gros]
    simp [expectCid]
  have hhas : dHas ((sortDict S.top).map (expectCid r o sup)) 3102 = true := by
    unfold dHas; rw [hfind]; rfl
  have hrosD : dGet ((sortDict S.top).map (expectCid r o sup)) 3102 = [.str r, .str o, .int sup] := by
    unfold dGet; rw [hfind]; rfl
  generalize hD : (sortDict S.top).map (expectCid r o sup) = D at *
  have hct : dInt D 3078 2 = 2 := by unfold dInt; rw [key _ (by decide), g3078]; rfl
  have h17 : dInt D 17 0 = offs.getD 8 0 := by unfold dInt; rw [key _ (by decide), g17]; rfl
  have h15 : dInt D 15 0 = offs.getD 6 0 := by unfold dInt; rw [key _ (by decide), g15]; rfl
  have h3109 : dInt D 3109 0 = offs.getD 7 0 := by unfold dInt; rw [key _ (by decide), g3109]; rfl
  have h3108 : dInt D 3108 0 = offs.getD 9 0 := by unfold dInt; rw [key _ (by decide), g3108]; rfl
  rw [hct]
  simp only [ne_eq, not_true_eq_false, if_false]
  -- Global Subr INDEX
  have hI4 := readIndex_empty_section S.B 4 (by omega) hB4
  rw [hI4]
  simp only
  -- CharStrings INDEX
  have hpos8 : offs.getD 8 0 = (secPos S.B 8 : Int) := hoffs 8 (by omega)
  have h48 : 4 ≤ secPos S.B 8 := by rw [← hP1]; exact secPos_mono _ _ _ (by omega)
  have hI8 := readIndex_section' S.B 8 (by omega) f.charStrings hd.nMax hd.csBody hB8
  have hcsRead : readIndexAt S.B.flatten (dInt D 17 0) = .ok f.charStrings := by
    unfold readIndexAt
    rw [h17, hpos8]
    rw [if_neg (by omega)]
    simp only [Int.toNat_natCast, hI8]
  rw [hcsRead]
  simp only
  have hn0 : ¬ f.charStrings.length = 0 := by have := hd.nPos; omega
  rw [if_neg hn0]
  simp only [hhas, if_true, hrosD]
  -- the FDArray INDEX
  have hpos9 : offs.getD 9 0 = (secPos S.B 9 : Int) := hoffs 9 (by omega)
  have h49 : 4 ≤ secPos S.B 9 := by rw [← hP1]; exact secPos_mono _ _ _ (by omega)
  have hfdne : S.fdDicts ≠ [] := by
    intro h0; rw [h0] at hlenF; simp at hlenF; omega
  have hfdB := idxOk_bounds _ hfitFd hfdne
  have hI9 := readIndex_section' S.B 9 (by omega) S.fdDicts hfdB.1 hfdB.2 hB9
  have hfdRead : readIndexAt S.B.flatten (dInt D 3108 0) = .ok S.fdDicts := by
    unfold readIndexAt
    rw [h3108, hpos9]
    rw [if_neg (by omega)]
    simp only [Int.toNat_natCast, hI9]
  rw [hfdRead]
  simp only
  rw [if_neg (by omega), if_neg (by omega)]
  -- every Font DICT and its Private DICT
  obtain ⟨p0, hp0⟩ : ∃ p0 : PrivIn, p0 ∈ f.privs := by
    cases hpl : f.privs with
    | nil => rw [hpl] at hnp; simp at hnp; omega
    | cons a b => exact ⟨a, List.mem_cons_self ..⟩
  have hposLast : offs.getD (10 + np) 0 = (secPos S.B (10 + np) : Int) := hoffs (10 + np) (by omega)
  have hsizeB : S.B.flatten.length < 2147483648 := hsize
  have hmapGen : ∀ (G : Bytes → Outcome (List Rl × PrivOut)),
      (∀ i, i < np → G (encodeDict (fdDictOf (f.fdMatrices.getD i defaultFM) ((S.B.getD (10 + i) []).length : Int)
          (secPos S.B (10 + i) : Int)))
        = .ok (if fontMatrixNeeded (f.fdMatrices.getD i defaultFM) false then f.fdMatrices.getD i defaultFM else defaultFM,
               nfPriv (f.privs.getD i p0) f.defWidth f.nomWidth)) →
      mapOutcomeL G S.fdDicts = .ok ((List.range np).map fun i =>
        (if fontMatrixNeeded (f.fdMatrices.getD i defaultFM) false then f.fdMatrices.getD i defaultFM else defaultFM,
         nfPriv (f.privs.getD i p0) f.defWidth f.nomWidth)) := by
    intro G hG
    rw [hSfd]
    apply mapOutcomeL_map_ok
    intro i hi
    have hi' : i < np := List.mem_range.mp hi
    have hfdm := hd.fdm i (by rw [hnp]; exact hi')
    have hlenI : I32 (((S.B.getD (10 + i) []).length : Nat) : Int) := by
      have h1 := secPos_succ S.B (10 + i) (by omega)
      have h2 := secPos_le S.B (10 + i + 1)
      unfold I32; omega
    have hoffI : I32 ((secPos S.B (10 + i) : Nat) : Int) := by
      have h2 := secPos_le S.B (10 + i)
      unfold I32; omega
    rw [← hBp i hi', hoffs (10 + i) (by omega),
      encodeDictS_nostr _ _ _ (fdDict_nostr _ _ _ hfdm.2 hlenI hoffI)]
    exact hG i hi'
  rw [hmapGen]
  rotate_left
  · intro i hi
    have hfdm := hd.fdm i (by rw [hnp]; exact hi)
    have hP10i : secPos S.B (10 + i + 1) = secPos S.B (10 + i) + (S.B.getD (10 + i) []).length :=
      secPos_succ S.B (10 + i) (by omega)
    have hPle : secPos S.B (10 + i + 1) ≤ secPos S.B (10 + np) := secPos_mono _ _ _ (by omega)
    have hPle2 := secPos_le S.B (10 + np)
    have h410 : 4 ≤ secPos S.B (10 + i) := by rw [← hP1]; exact secPos_mono _ _ _ (by omega)
    have hlenI : I32 (((S.B.getD (10 + i) []).length : Nat) : Int) := by unfold I32; omega
    have hoffI : I32 ((secPos S.B (10 + i) : Nat) : Int) := by unfold I32; omega
    obtain ⟨fd, hdec, hpair, hfmo⟩ := fdDict_read T.std S.custom.toArray (f.fdMatrices.getD i defaultFM)
      ((S.B.getD (10 + i) []).length : Int) (secPos S.B (10 + i) : Int) hfdm.2 hfdm.1 hlenI hoffI
    have hmem : f.privs.getD i p0 ∈ f.privs := by
      rw [List.getD_eq_getElem?_getD, List.getElem?_eq_getElem (by omega)]
      simp
    have hsubI : I32 ((secPos S.B (10 + np) : Int) - (secPos S.B (10 + i) : Int)) := by unfold I32; omega
    have hpdom := hd.priv _ hmem _ hsubI
    have hblob : S.B.getD (10 + i) [] = encodeDict (privDictOf (f.privs.getD i p0) f.defWidth f.nomWidth
        ((secPos S.B (10 + np) : Int) - (secPos S.B (10 + i) : Int))) := by
      rw [hBp i hi, hSpriv i hi p0, hposLast, hoffs (10 + i) (by omega),
        encodeDictS_nostr _ _ _ (privDict_nostr _ _ _ _ hpdom)]
    have hrp := readPrivate_at T.std S.custom.toArray S.B fd (10 + i) (10 + np) (by omega) (by omega) (by omega)
      (f.privs.getD i p0) f.defWidth f.nomWidth hblob hBlast h410 hpair hpdom hsizeB
    simp only [hdec, hrp, hfmo]
  simp only [List.length_map, List.length_range]
  -- FDSelect
  have hpos7 : offs.getD 7 0 = (secPos S.B 7 : Int) := hoffs 7 (by omega)
  have h47 : 4 ≤ secPos S.B 7 := by rw [← hP1]; exact secPos_mono _ _ _ (by omega)
  have hfdsne : f.fds ≠ [] := by
    intro h0; have := hd.nFds; rw [h0] at this; simp at this; have := hd.nPos; omega
  have hfdsel : readFDSelect S.B.flatten (secPos S.B 7) f.charStrings.length np = .ok (f.fds.map Int.toNat) := by
    have hsplit : S.B.flatten = (S.B.take 7).flatten ++ fdEncode f.fds ++ (S.B.drop 8).flatten := by
      have := section_split S.B 7 (by omega)
      rw [hB7] at this; exact this
    have := readFDSelect_fdEncode f.fds np hfdsne (by rw [hd.nFds]; exact hd.nMax)
      (by
        intro x hx
        have := hd.fdR x hx
        rw [hnp] at this
        omega)
      (S.B.take 7).flatten (S.B.drop 8).flatten
    rw [← hsplit, hd.nFds] at this
    exact this
  rw [h3109, hpos7]
  rw [if_neg (by omega)]
  simp only [Int.toNat_natCast, hfdsel]
  -- charset
  have hpos6 : offs.getD 6 0 = (secPos S.B 6 : Int) := hoffs 6 (by omega)
  simp only [not_true_eq_false, false_and, if_false]
  rw [h15, hpos6]
  rw [if_neg (by omega)]
  simp only [Int.toNat_natCast]
  obtain ⟨tl, htl⟩ : ∃ tl, f.cids = 0 :: tl := by
    have := hd.notdef
    cases hc : f.cids with
    | nil => rw [hc] at this; simp at this
    | cons a b => rw [hc] at this; simp at this; exact ⟨b, by rw [this]⟩
  have hcsR := readCharset_encodeCharset tl
    (by have := hd.nCids; rw [htl] at this; simp at this; have := hd.nMax; omega)
    (by intro x hx; exact hd.cidR x (by rw [htl]; exact List.mem_cons_of_mem _ hx))
    (S.B.take 6).flatten (S.B.drop 7).flatten
  obtain ⟨bs, hbs1, hbs2⟩ := hcsR
  rw [← htl, hcs] at hbs1
  injection hbs1 with hbs1
  subst hbs1
  have hnlen : f.charStrings.length = tl.length + 1 := by
    rw [← hd.nCids, htl]; simp
  have hfileSplit : S.B.flatten = (S.B.take 6).flatten ++ cs ++ (S.B.drop 7).flatten := by
    have := section_split S.B 6 (by omega)
    rw [hB6] at this; exact this
  have hcsRead' : readCharset S.B.flatten (secPos S.B 6) f.charStrings.length
      = .ok (f.cids, (S.B.take 6).flatten.length + cs.length) := by
    rw [hnlen, htl]
    conv => lhs; rw [hfileSplit]
    exact hbs2
  rw [hcsRead']
  simp only
  -- the fields
  have hstr : ∀ (i op : Nat), (i, op) ∈ [(0, 0), (1, 1), (2, 3072), (3, 2), (4, 3), (5, 4)] →
      dString D op = f.strs.getD i "" := by
    intro i op hm
    have hop : op ≠ 3102 := by intro h0; subst h0; simp at hm
    unfold dString
    rw [key op hop, gstr i op hm]
    generalize f.strs.getD i "" = s0
    by_cases hs : s0 = ""
    · subst hs; rfl
    · simp only [ne_eq, hs, not_false_eq_true, if_true, List.map_cons, List.map_nil, decOperand]
  have hfixed : decide (¬ dInt D 3073 0 = 0) = f.isFixedPitch := by
    unfold dInt; rw [key _ (by decide), g3073]
    cases f.isFixedPitch <;> simp [decOperand]
  have hangle : dFloat D 3074 Rl.zero = f.italicAngle := by
    unfold dFloat; rw [key _ (by decide), g3074]
    by_cases hc : f.italicAngle.2.1 = 0
    · have hz : f.italicAngle = Rl.zero := by
        rcases hd.top.angle with ⟨h1, h2, h3⟩ | ⟨h1, _⟩
        · generalize f.italicAngle = q at *
          obtain ⟨n, m, e⟩ := q
          simp only at h1 h2 h3
          subst h1; subst h2; subst h3
          rfl
        · omega
      rw [hz]; rfl
    · simp only [hc, ne_eq, not_false_eq_true, if_true, List.map_cons, List.map_nil,
        decOperand_realOperand _ hd.top.angle]
      exact normReal_normal _ hd.top.angle
  have hnum : ∀ (o : Operand) (dflt : Rl), ValidOperand o →
      (match [o].map decOperand with
        | [Operand.int v] => Rl.ofInt v
        | [Operand.real n m e] => normReal n m e
        | _ => dflt) = operandRl o := by
    intro o dflt ho
    cases o with
    | int v => rfl
    | real n m e => simp [operandRl, decOperand]
    | str s => simp [ValidOperand] at ho
  have hulp : dFloat D 3075 (Rl.ofInt (-100)) = if f.ulPosDefault then Rl.ofInt (-100) else operandRl f.ulPos := by
    unfold dFloat; rw [key _ (by decide), g3075]
    cases f.ulPosDefault with
    | true => rfl
    | false => simp only [Bool.false_eq_true, if_false]; exact hnum _ _ hd.top.ulPos
  have hult : dFloat D 3076 (Rl.ofInt 50) = if f.ulThickDefault then Rl.ofInt 50 else operandRl f.ulThick := by
    unfold dFloat; rw [key _ (by decide), g3076]
    cases f.ulThickDefault with
    | true => rfl
    | false => simp only [Bool.false_eq_true, if_false]; exact hnum _ _ hd.top.ulThick
  have hfm : dFontMatrix D 3079 true
      = if fontMatrixNeeded (f.fontMatrix.getD identityFM) true then f.fontMatrix.getD identityFM else identityFM := by
    unfold dFontMatrix
    rw [key _ (by decide), g3079]
    cases fontMatrixNeeded (f.fontMatrix.getD identityFM) true with
    | false => simp
    | true =>
      simp only [if_true, List.length_map, hd.fmLen, ne_eq, not_true_eq_false, if_false, Bool.false_eq_true,
        List.map_map]
      have := mapM_real_back (f.fontMatrix.getD identityFM) hd.top.fm
      simp only [Function.comp_def] at this ⊢
      rw [this]
  have hprivs : List.map (fun (x : List Rl × PrivOut) => x.snd)
      (List.map (fun i =>
        (if fontMatrixNeeded (f.fdMatrices.getD i defaultFM) false = true then f.fdMatrices.getD i defaultFM else defaultFM,
         nfPriv (f.privs.getD i p0) f.defWidth f.nomWidth)) (List.range np))
      = f.privs.map fun p => nfPriv p f.defWidth f.nomWidth := by
    simp only [List.map_map, Function.comp_def]
    rw [← hnp]
    exact range_map_getD f.privs p0 (fun p => nfPriv p f.defWidth f.nomWidth)
  unfold nfCid
  rw [hstr 0 0 (by simp), hstr 1 1 (by simp), hstr 2 3072 (by simp), hstr 3 2 (by simp), hstr 4 3 (by simp),
    hstr 5 4 (by simp), hfixed, hangle, hulp, hult, hfm, hprivs, hnp]
  simp only [List.map_map, Function.comp_def]
  rfl


end SfntV.Cff
