/-
C19 — GPOS 1 (single adjustment): signed numbers and `readInt16`, value records, formats 1.1 and
1.2, descriptions of GPOS lookups joined by line breaks, and `roundtrip_gpos1`.
-/
import SfntV.Proofs.DslGsub1
set_option linter.unusedSimpArgs false
set_option linter.unusedVariables false
namespace SfntV.Dsl

/-! ### GPOS value records -/

theorem signSplit_plus (ds : List Nat) : signSplit (43 :: ds) = (false, ds) := rfl
theorem signSplit_minus (ds : List Nat) : signSplit (45 :: ds) = (true, ds) := rfl

theorem atoi_signed (v : Int) (h : -65536 < v ∧ v < 65536) : atoi (signed v) = some v := by
  cases v with
  | ofNat n =>
    have hn : n < 65536 := by
      have := h.2
      simp only [Int.ofNat_eq_natCast] at this
      omega
    have hd := decimal_digits n
    have hne := decimal_ne_nil n
    have hv := decimal_val n hn
    simp only [signed, atoi, signSplit_plus]
    have hall : (decimal n).all (fun d => inR 48 57 d) = true := by
      rw [List.all_eq_true]; exact hd
    have hemp : (decimal n).isEmpty = false := by
      cases hh : decimal n with
      | nil => exact absurd hh hne
      | cons _ _ => rfl
    simp only [hemp, hall, Bool.not_true, Bool.or_self, Bool.false_eq_true, if_false]
    simp only [dval] at hv
    simp [hv]
  | negSucc n =>
    have hn : n + 1 < 65536 := by
      have := h.1
      simp only [Int.negSucc_eq] at this
      omega
    have hd := decimal_digits (n + 1)
    have hne := decimal_ne_nil (n + 1)
    have hv := decimal_val (n + 1) hn
    simp only [signed, atoi, signSplit_minus]
    have hall : (decimal (n + 1)).all (fun d => inR 48 57 d) = true := by
      rw [List.all_eq_true]; exact hd
    have hemp : (decimal (n + 1)).isEmpty = false := by
      cases hh : decimal (n + 1) with
      | nil => exact absurd hh hne
      | cons _ _ => rfl
    simp only [hemp, hall, Bool.not_true, Bool.or_self, Bool.false_eq_true, if_false, if_true]
    simp only [dval] at hv
    simp [hv, Int.negSucc_eq]

theorem signed_shape (v : Int) : IntShape (ascii (signed v)) := by
  cases v with
  | ofNat n =>
    refine ⟨ascii (decimal n), ?_, Or.inr (Or.inl rfl)⟩
    intro d hd
    simp only [ascii, List.mem_map] at hd
    obtain ⟨c, hc, rfl⟩ := hd
    exact decimal_digits n c hc
  | negSucc n =>
    have hne := decimal_ne_nil (n + 1)
    cases hds : decimal (n + 1) with
    | nil => exact absurd hds hne
    | cons d ds =>
      refine ⟨ascii ds, ?_, Or.inr (Or.inr ⟨a1 d, by simp [signed, hds, ascii, a1], ?_⟩)⟩
      · intro x hx
        simp only [ascii, List.mem_map] at hx
        obtain ⟨c, hc, rfl⟩ := hx
        exact decimal_digits (n + 1) c (by rw [hds]; simp [hc])
      · exact decimal_digits (n + 1) d (by rw [hds]; simp)

theorem signed_ascii (v : Int) : ∀ c ∈ signed v, c < 128 := by
  intro c hc
  cases v with
  | ofNat n =>
    simp [signed] at hc
    rcases hc with rfl | hc
    · decide
    · have := decimal_digits n c hc; simp [inR] at this; omega
  | negSucc n =>
    simp [signed] at hc
    rcases hc with rfl | hc
    · decide
    · have := decimal_digits (n + 1) c hc; simp [inR] at this; omega

/-- `±n` read by `readInt16` -/
theorem frag_readInt16 (v : Int) (h : -32768 ≤ v ∧ v ≤ 32767) :
    Frag readInt16 [tk tInteger (signed v)] v anyTok (fun nx => ∀ r, nx = some r → inR 48 57 r = false) := by
  refine ⟨?_, ?_, ?_⟩
  · intro nx hn
    refine ⟨?_, trivial⟩
    right; left
    exact ⟨rfl, signed_shape v, hn⟩
  · intro rb hrb
    simp only [render, tk, List.flatMap_cons, Piece.rbs, List.flatMap_nil, List.append_nil] at hrb
    exact ascii_canon _ (signed_ascii v) rb hrb
  · intro line s t rest hs _
    obtain ⟨s1, e1, hs1⟩ := readItem_stream s { typ := tInteger, val := ascii (signed v), line := line } _
      (by simpa [mkToks, tk] using hs)
    refine ⟨s1, ?_, hs1⟩
    unfold readInt16
    rw [bind_run, e1]
    have ha : atoi (ascii (signed v) |>.flatMap (·.2)) = some v := by
      rw [ascii_bytes]; exact atoi_signed v (by omega)
    simp only [bne_self_eq_false, Bool.false_eq_true, if_false, Tok.bytes, ha]
    have c1 : (decide (v > 9223372036854775807) || decide (v < -9223372036854775808)) = false := by
      simp; omega
    have c2 : (decide (v < -32768) || decide (v > 32767)) = false := by simp; omega
    simp only [c1, c2, Bool.false_eq_true, if_false, pure_run]

abbrev Part := List Nat × Int

def partPieces (p : Part) : List Piece := [tk tIdentifier p.1, tk tInteger (signed p.2)]

def applyPart (r : VR) (p : Part) : VR :=
  if p.1 == kwX then { r with x := p.2 } else if p.1 == kwY then { r with y := p.2 }
  else if p.1 == kwDx then { r with dx := p.2 } else { r with dy := p.2 }

def PartOk (p : Part) : Prop := (p.1 = kwX ∨ p.1 = kwY ∨ p.1 = kwDx ∨ p.1 = kwDy) ∧ -32768 ≤ p.2 ∧ p.2 ≤ 32767

theorem part_kw_tokOk (kw : List Nat) (h : kw = kwX ∨ kw = kwY ∨ kw = kwDx ∨ kw = kwDy) (nx : Option Nat)
    (hn : ∀ r, nx = some r → isIdentChar r = false) : TokOk tIdentifier (ascii kw) nx ∧ (∀ rb ∈ ascii kw, Canon rb) ∧
      ∀ line, valueItem { typ := tIdentifier, val := ascii kw, line := line } = true := by
  rcases h with rfl | rfl | rfl | rfl
  all_goals
    refine ⟨Or.inl ⟨rfl, _, _, rfl, by decide, by decide, hn⟩, ascii_canon _ (by decide), ?_⟩
    intro line
    simp [valueItem, isIdent, Tok.bytes, ascii, kwX, kwY, kwDx, kwDy]

theorem frag_takeIf_then {β : Type} (p : Tok → Bool) (typ : Nat) (val : List RB) (k : Option Tok → PM β) (b : List Piece) (y : β)
    (P : Tok → Prop) (N N1 : Option Nat → Prop)
    (hp : ∀ line, p { typ := typ, val := val, line := line } = true)
    (hok : ∀ nx, N1 nx → TokOk typ val nx) (hc : ∀ rb ∈ val, Canon rb)
    (hb : ∀ line, Frag (k (some { typ := typ, val := val, line := line })) b y P N)
    (hN : ∀ nx, N nx → N1 (nextRune b nx)) :
    Frag (takeIf p >>= k) (.tok typ val :: b) y P N := by
  refine ⟨?_, ?_, ?_⟩
  · intro nx hn
    exact ⟨hok _ (hN nx hn), (hb 0).chain nx hn⟩
  · intro rb hrb
    rw [render_cons, List.mem_append] at hrb
    rcases hrb with h | h
    · exact hc rb h
    · exact (hb 0).canon rb h
  · intro line
    have := runs_bind (runs_takeIf_yes { typ := typ, val := val, line := line } p (hp line))
      ((hb line).runs (nextLine typ line)) (fun t _ => trivial)
    simpa [mkToks] using this

def notDigitNext (nx : Option Nat) : Prop := ∀ r, nx = some r → inR 48 57 r = false

theorem frag_valueLoop : ∀ (parts : List Part) (n : Nat) (r : VR), parts.length < n → (∀ p ∈ parts, PartOk p) →
    Frag (valueLoop n r) ((parts.map partPieces).intersperse [sp]).flatten (parts.foldl applyPart r)
      (fun t => valueItem t = false) notDigitNext := by
  intro parts
  induction parts with
  | nil =>
    intro n r hn _
    cases n with
    | zero => omega
    | succ m =>
      unfold valueLoop
      show Frag _ ([] ++ []) _ _ _
      refine frag_weaken (N := anyNext) ?_ (fun _ h => h) (fun _ _ => trivial)
      have hno : Frag (takeIf valueItem) [] none (fun t => valueItem t = false) anyNext :=
        ⟨fun _ _ => trivial, by simp [render], fun _ => runs_takeIf_no valueItem⟩
      refine frag_bind hno ?_ (fun _ _ => trivial) (fun line t ht => by simpa [mkToks] using ht)
      exact frag_pure _ _
  | cons p ps ih =>
    intro n r hn hall
    cases n with
    | zero => omega
    | succ m =>
      obtain ⟨hkw, hv⟩ := hall p (by simp)
      have hih := ih m (applyPart r p) (by simp at hn; omega) (fun q hq => hall q (by simp [hq]))
      have hpieces : ((List.map partPieces (p :: ps)).intersperse [sp]).flatten =
          .tok tIdentifier (ascii p.1) :: ([tk tInteger (signed p.2)] ++
            (if ps = [] then [] else .ws [a1 32] :: ((ps.map partPieces).intersperse [sp]).flatten)) := by
        cases ps with
        | nil => simp [partPieces, tk]
        | cons q qs => simp [partPieces, tk, List.intersperse_cons_cons, sp]
      rw [hpieces]
      unfold valueLoop
      have hrest : Frag (valueLoop m (applyPart r p))
          (if ps = [] then [] else .ws [a1 32] :: ((ps.map partPieces).intersperse [sp]).flatten)
          (ps.foldl applyPart (applyPart r p)) (fun t => valueItem t = false) notDigitNext := by
        cases ps with
        | nil => simpa using hih
        | cons q qs => simp only [List.cons_ne_nil, if_false, reduceCtorEq]; exact frag_ws [a1 32] ws_sp hih
      refine frag_takeIf_then valueItem tIdentifier (ascii p.1) _ _ _ _ notDigitNext
        (fun nx => ∀ r, nx = some r → isIdentChar r = false)
        (fun line => (part_kw_tokOk p.1 hkw none (by intro r h; cases h)).2.2 line)
        (fun nx hn => (part_kw_tokOk p.1 hkw nx hn).1) (part_kw_tokOk p.1 hkw none (by intro r h; cases h)).2.1
        (fun line => ?_) ?_
      · simp only []
        refine frag_bind (frag_readInt16 p.2 hv) ?_ ?_ (fun _ _ _ => trivial)
        · have hb : ∀ kw, isIdent { typ := tIdentifier, val := ascii p.1, line := line } kw = (p.1 == kw) := by
            intro kw; simp [isIdent, Tok.bytes, ascii_bytes]
          simp only [hb]
          simp only [List.foldl_cons]
          split
          · rename_i h1
            have e : applyPart r p = { r with x := p.2 } := by simp [applyPart, h1]
            rw [← e]; exact hrest
          · rename_i h1
            split
            · rename_i h2
              have e : applyPart r p = { r with y := p.2 } := by simp [applyPart, h1, h2]
              rw [← e]; exact hrest
            · rename_i h2
              split
              · rename_i h3
                have e : applyPart r p = { r with dx := p.2 } := by simp [applyPart, h1, h2, h3]
                rw [← e]; exact hrest
              · rename_i h3
                have e : applyPart r p = { r with dy := p.2 } := by simp [applyPart, h1, h2, h3]
                rw [← e]; exact hrest
        · intro nx hnx r hr
          cases ps with
          | nil => simp only [if_true] at hr; simp [nextRune, render] at hr; exact hnx r hr
          | cons q qs =>
            simp [nextRune, render, Piece.rbs, a1] at hr
            subst hr; decide
      · intro nx _ r hr
        have hsh : ∃ c cs, signed p.2 = c :: cs ∧ (c = 43 ∨ c = 45) := by
          cases p.2 with
          | ofNat n => exact ⟨43, _, rfl, Or.inl rfl⟩
          | negSucc n => exact ⟨45, _, rfl, Or.inr rfl⟩
        obtain ⟨c, cs, hsv, hc⟩ := hsh
        simp [nextRune, render, tk, ascii, Piece.rbs, hsv] at hr
        subst hr
        rcases hc with rfl | rfl <;> decide

def partsOf (r : VR) : List Part :=
  (if r.x != 0 then [(kwX, r.x)] else []) ++ (if r.y != 0 then [(kwY, r.y)] else []) ++
  (if r.dx != 0 then [(kwDx, r.dx)] else []) ++ (if r.dy != 0 then [(kwDy, r.dy)] else [])

theorem wvr_eq (r : VR) : writeValueRecord (some r) =
    if (partsOf r).isEmpty then [tk tIdentifier kwUnderscore]
    else ((partsOf r).map partPieces).intersperse [sp] |>.flatten := by
  unfold writeValueRecord partsOf
  by_cases hx : r.x = 0 <;> by_cases hy : r.y = 0 <;> by_cases hdx : r.dx = 0 <;> by_cases hdy : r.dy = 0 <;>
    simp [hx, hy, hdx, hdy, partPieces]

theorem fold_parts (r : VR) : (partsOf r).foldl applyPart { x := 0, y := 0, dx := 0, dy := 0 } = r := by
  obtain ⟨x, y, dx, dy⟩ := r
  unfold partsOf
  by_cases hx : x = 0 <;> by_cases hy : y = 0 <;> by_cases hdx : dx = 0 <;> by_cases hdy : dy = 0 <;>
    simp [hx, hy, hdx, hdy, applyPart, kwX, kwY, kwDx, kwDy]

def VROk (r : VR) : Prop :=
  (-32768 ≤ r.x ∧ r.x ≤ 32767) ∧ (-32768 ≤ r.y ∧ r.y ≤ 32767) ∧ (-32768 ≤ r.dx ∧ r.dx ≤ 32767) ∧
  (-32768 ≤ r.dy ∧ r.dy ≤ 32767)

theorem partsOf_ok (r : VR) (h : VROk r) : ∀ p ∈ partsOf r, PartOk p := by
  intro p hp
  unfold partsOf at hp
  simp only [List.mem_append] at hp
  rcases hp with ((hp | hp) | hp) | hp <;> split at hp <;> simp at hp <;> subst hp
  · exact ⟨Or.inl rfl, h.1⟩
  · exact ⟨Or.inr (Or.inl rfl), h.2.1⟩
  · exact ⟨Or.inr (Or.inr (Or.inl rfl)), h.2.2.1⟩
  · exact ⟨Or.inr (Or.inr (Or.inr rfl)), h.2.2.2⟩

theorem underscore_ok (nx : Option Nat) (hn : ∀ r, nx = some r → isIdentChar r = false) :
    TokOk tIdentifier (ascii kwUnderscore) nx :=
  Or.inl ⟨rfl, _, _, rfl, by decide, by decide, hn⟩

theorem frag_optIdent_yes (kw : List Nat) (N : Option Nat → Prop) (hok : ∀ nx, N nx → TokOk tIdentifier (ascii kw) nx)
    (hc : ∀ rb ∈ ascii kw, Canon rb) : Frag (optionalIdentifier kw) [tk tIdentifier kw] true anyTok N := by
  refine ⟨fun nx hn => ⟨hok _ hn, trivial⟩, by simpa [render, tk, Piece.rbs] using hc, fun line => ?_⟩
  intro s t rest hs _
  obtain ⟨s1, e1, hs1⟩ := readItem_stream s { typ := tIdentifier, val := ascii kw, line := line } _
    (by simpa [mkToks, tk] using hs)
  refine ⟨s1, ?_, hs1⟩
  unfold optionalIdentifier
  rw [bind_run, e1]
  simp [isIdent, Tok.bytes, ascii_bytes, pure_run]

theorem frag_optIdent_no (kw : List Nat) :
    Frag (optionalIdentifier kw) [] false (fun t => isIdent t kw = false) anyNext := by
  refine ⟨fun _ _ => trivial, by simp [render], fun line => ?_⟩
  intro s u rest hs hu
  obtain ⟨s1, e1, hs1⟩ := readItem_stream s u rest (by simpa [mkToks] using hs)
  refine ⟨{ s1 with backlog := u :: s1.backlog }, ?_, ?_⟩
  · unfold optionalIdentifier
    rw [bind_run, e1]
    simp only [hu, Bool.false_eq_true, if_false, bind_run, pushBack_run, pure_run]
  · simp [PS.stream] at hs1 ⊢; exact hs1

/-- a value record as `writeValueRecord` writes it, read by `readGposValueRecord` -/
theorem frag_valueRecord (v : Option VR) (hv : ∀ r, v = some r → VROk r) (fuel : Nat) (hfuel : 5 ≤ fuel) :
    Frag (readGposValueRecord fuel) (writeValueRecord v) (normVR v) (fun t => valueItem t = false) Safe := by
  have hunder : Frag (readGposValueRecord fuel) [tk tIdentifier kwUnderscore] none (fun t => valueItem t = false) Safe := by
    unfold readGposValueRecord
    show Frag _ ([tk tIdentifier kwUnderscore] ++ []) _ _ _
    refine frag_bind (frag_optIdent_yes kwUnderscore (fun nx => ∀ r, nx = some r → isIdentChar r = false)
      (fun nx hn => underscore_ok nx hn) (ascii_canon _ (by decide))) ?_
      (fun nx hn r hr => by simp [nextRune, render] at hr; exact (hn r hr).1) (fun _ _ _ => trivial)
    simp only [if_true]
    exact frag_weaken (frag_pure _ _) (fun _ h => h) (fun _ _ => trivial)
  cases v with
  | none => simpa [writeValueRecord, normVR] using hunder
  | some r =>
    have hok := hv r rfl
    rw [wvr_eq]
    cases hparts : partsOf r with
    | nil =>
      have hz : r.x = 0 ∧ r.y = 0 ∧ r.dx = 0 ∧ r.dy = 0 := by
        unfold partsOf at hparts
        by_cases hx : r.x = 0 <;> by_cases hy : r.y = 0 <;> by_cases hdx : r.dx = 0 <;> by_cases hdy : r.dy = 0 <;>
          simp [hx, hy, hdx, hdy] at hparts ⊢
      simp only [List.isEmpty_nil, if_true, normVR, hz.1, hz.2.1, hz.2.2.1, hz.2.2.2]
      simpa using hunder
    | cons p0 prest =>
      have hnz : ¬ (r.x = 0 ∧ r.y = 0 ∧ r.dx = 0 ∧ r.dy = 0) := by
        intro hz
        unfold partsOf at hparts
        simp [hz.1, hz.2.1, hz.2.2.1, hz.2.2.2] at hparts
      have hnorm : normVR (some r) = some r := by
        unfold normVR
        have : (r.x == 0 && r.y == 0 && r.dx == 0 && r.dy == 0) = false := by
          cases h : (r.x == 0 && r.y == 0 && r.dx == 0 && r.dy == 0) with
          | false => rfl
          | true =>
            exfalso; apply hnz
            simp only [Bool.and_eq_true, beq_iff_eq] at h
            exact ⟨h.1.1.1, h.1.1.2, h.1.2, h.2⟩
        simp [this]
      rw [hnorm]
      simp only [List.isEmpty_cons, Bool.false_eq_true, if_false]
      have hpok := partsOf_ok r hok
      rw [hparts] at hpok
      have hloop := frag_valueLoop (p0 :: prest) fuel { x := 0, y := 0, dx := 0, dy := 0 } (by
        have : (partsOf r).length ≤ 4 := by
          unfold partsOf
          by_cases hx : r.x = 0 <;> by_cases hy : r.y = 0 <;> by_cases hdx : r.dx = 0 <;> by_cases hdy : r.dy = 0 <;>
            simp [hx, hy, hdx, hdy]
        rw [hparts] at this; omega) hpok
      have hfold := fold_parts r
      rw [hparts] at hfold
      rw [hfold] at hloop
      unfold readGposValueRecord
      have hpp : (((p0 :: prest).map partPieces).intersperse [sp]).flatten =
          [] ++ ((((p0 :: prest).map partPieces).intersperse [sp]).flatten ++ []) := by simp
      rw [hpp]
      have hfirst : ∀ line, ∃ t, (mkToks line ((((p0 :: prest).map partPieces).intersperse [sp]).flatten ++ [])).head? = some t ∧
          isIdent t kwUnderscore = false := by
        intro line
        obtain ⟨hk, _⟩ := hpok p0 (by simp)
        refine ⟨{ typ := tIdentifier, val := ascii p0.1, line := line }, ?_, ?_⟩
        · cases prest <;> simp [partPieces, tk, mkToks, List.intersperse_cons_cons]
        · rcases hk with h | h | h | h <;> simp [isIdent, Tok.bytes, ascii_bytes, h, kwX, kwY, kwDx, kwDy, kwUnderscore]
      refine frag_bind (frag_optIdent_no kwUnderscore) ?_ (fun _ _ => trivial) (fun line t _ => by
        obtain ⟨th, h1, h2⟩ := hfirst line
        rw [h1]; exact h2)
      simp only [Bool.false_eq_true, if_false]
      refine frag_bind hloop ?_ (fun nx hn r' hr => by simp [nextRune, render] at hr; exact (hn r' hr).2)
        (fun line t ht => by simpa [mkToks] using ht)
      have hcond : (r.x == 0 && r.y == 0 && r.dx == 0 && r.dy == 0) = false := by
        cases h : (r.x == 0 && r.y == 0 && r.dx == 0 && r.dy == 0) with
        | false => rfl
        | true =>
          exfalso; apply hnz
          simp only [Bool.and_eq_true, beq_iff_eq] at h
          exact ⟨h.1.1.1, h.1.1.2, h.1.2, h.2⟩
      simp only [hcond, Bool.false_eq_true, if_false]
      exact frag_weaken (frag_pure _ _) (fun _ h => h) (fun _ _ => trivial)

/-! ### GPOS 1 -/

theorem frag_peek_then {β : Type} (typ : Nat) (val : List RB) (k : Tok → PM β) (rest : List Piece) (y : β)
    (P : Tok → Prop) (N : Option Nat → Prop)
    (hb : ∀ line, Frag (k { typ := typ, val := val, line := line }) (.tok typ val :: rest) y P N) :
    Frag (peek >>= k) (.tok typ val :: rest) y P N := by
  refine ⟨(hb 0).chain, (hb 0).canon, ?_⟩
  intro line
  have h1 := runs_peek { typ := typ, val := val, line := line }
  have h2 := (hb line).runs line
  have := runs_bind h1 h2 (fun t _ => by simp [mkToks])
  simpa using this

theorem valueItem_false_of_typ (t : Tok) (h : t.typ ≠ tIdentifier) : valueItem t = false := by
  have : (t.typ == tIdentifier) = false := by simpa using h
  simp [valueItem, isIdent, this]

theorem subStop_noValue (t : Tok) (h : SubStop t) : valueItem t = false := by
  apply valueItem_false_of_typ
  rcases h with h | h | h <;> rw [h] <;> decide

structure Gpos11Ok (f : Font) (cov : List Nat) (adj : Option VR) : Prop where
  asc : Asc cov
  covIn : ∀ g ∈ cov, g < f.numGlyphs
  adjOk : ∀ r, adj = some r → VROk r

structure Gpos12Ok (f : Font) (cov : List Nat) (adj : List (Option VR)) : Prop where
  ne : cov ≠ []
  asc : Asc cov
  len : cov.length = adj.length
  covIn : ∀ g ∈ cov, g < f.numGlyphs
  adjOk : ∀ a ∈ adj, ∀ r, a = some r → VROk r

theorem aset_fresh {β : Type} (m : List (Nat × β)) (k : Nat) (v : β) (h : aget m k = none) :
    aset m k v = m ++ [(k, v)] := by
  unfold aset; simp [h]

theorem frag_gpos11 (f : Font) (hf : FontOk f) (first : Bool) (cov : List Nat) (adj : Option VR)
    (h : Gpos11Ok f cov adj) (fuel : Nat)
    (hfuel : tokCount ((newExplainer f).subtable first (.gpos1_1 cov adj)) + 4 < fuel) :
    Frag (gpos1Sub f fuel) ((newExplainer f).subtable first (.gpos1_1 cov adj)) (.gpos1_1 cov (normVR adj))
      SubStop Safe := by
  obtain ⟨hasc, hcov, hadj⟩ := h
  have hpieces : (newExplainer f).subtable first (.gpos1_1 cov adj) =
      .ws [a1 32] :: (.tok tSquareBracketOpen (ascii [91]) :: ((newExplainer f).writeGlyphList cov ++
        ([.tok tSquareBracketClose (ascii [93])] ++ (arrow ++ (writeValueRecord adj ++ []))))) := by
    simp [Explainer.subtable, Explainer.writeGlyphSet, sp, tk]
  rw [hpieces] at hfuel ⊢
  simp only [tokCount, tokCount_append, arrow, sp, tk] at hfuel
  apply frag_ws [a1 32] ws_sp
  unfold gpos1Sub
  refine frag_peek_then _ _ _ _ _ _ _ (fun line => ?_)
  simp only [beq_self_eq_true, if_true]
  unfold readGlyphSet
  simp only [bind_assoc]
  have hopen := fragU_required tSquareBracketOpen (ascii [91]) anyNext (fun nx _ => bracket_open_ok nx)
    (tk_canon tSquareBracketOpen _ (by decide))
  refine frag_then (a := [.tok tSquareBracketOpen (ascii [91])]) hopen ?_ (fun _ _ => trivial) (fun _ _ _ => trivial)
  refine frag_bind (frag_glyphList f hf cov hcov fuel (by omega)) ?_ (fun nx _ => by
      have : nextRune ([Piece.tok tSquareBracketClose (ascii [93])] ++ (arrow ++ (writeValueRecord adj ++ []))) nx = some 93 := by
        simp [nextRune, render, ascii, Piece.rbs]
      rw [this]; exact safe_bracket)
    (fun line t _ => by simp [mkToks, glyphItem, tSquareBracketClose, tIdentifier, tString, tInteger, tHyphen])
  have hclose := fragU_required tSquareBracketClose (ascii [93]) anyNext (fun nx _ => bracket_close_ok nx)
    (tk_canon tSquareBracketClose _ (by decide))
  refine frag_then hclose ?_ (fun _ _ => trivial) (fun _ _ _ => trivial)
  simp only [pure_bind]
  apply frag_arrow_then
  refine frag_bind (frag_valueRecord adj hadj fuel (by omega)) ?_ (fun nx h => by simpa [nextRune, render] using h)
    (fun line t ht => by simpa [mkToks] using subStop_noValue t ht)
  rw [sortUnique_asc cov hasc]
  exact frag_weaken (frag_pure _ _) (fun _ h => h) (fun _ _ => trivial)

theorem frag_gpos12 (f : Font) (hf : FontOk f) (first : Bool) (cov : List Nat) (adj : List (Option VR))
    (h : Gpos12Ok f cov adj) (fuel : Nat)
    (hfuel : tokCount ((newExplainer f).subtable first (.gpos1_2 cov adj)) + 4 < fuel) :
    Frag (gpos1Sub f fuel) ((newExplainer f).subtable first (.gpos1_2 cov adj)) (.gpos1_2 cov (adj.map normVR))
      SubStop Safe := by
  obtain ⟨hne, hasc, hlen, hcov, hadj⟩ := h
  let pc : Nat × Option VR → List Piece := fun p =>
    [(newExplainer f).writeGlyph p.1] ++ arrow ++ writeValueRecord p.2
  let upd : List (Nat × Option VR) → Nat × Option VR → List (Nat × Option VR) := fun m p => aset m p.1 (normVR p.2)
  cases hz : cov.zip adj with
  | nil =>
    cases cov with
    | nil => exact absurd rfl hne
    | cons g cov' => cases adj with
      | nil => simp at hlen
      | cons r adj' => simp at hz
  | cons p0 rest =>
    have hmem : ∀ p ∈ p0 :: rest, p.1 < f.numGlyphs ∧ ∀ r, p.2 = some r → VROk r := by
      intro p hp
      rw [← hz] at hp
      have := List.of_mem_zip hp
      exact ⟨hcov _ this.1, hadj _ this.2⟩
    obtain ⟨typ0, val0, hw0, hty0⟩ := writeGlyph_typ (newExplainer f) p0.1
    have hpieces : (newExplainer f).subtable first (.gpos1_2 cov adj) =
        .ws [a1 32] :: (pc p0 ++ rest.flatMap (fun y => [commaP, sp] ++ pc y)) := by
      simp only [Explainer.subtable, hz, List.map_cons, entries, List.flatMap_map]
      rfl
    rw [hpieces] at hfuel ⊢
    have hfuel' : tokCount (pc p0 ++ rest.flatMap (fun y => [commaP, sp] ++ pc y)) + 4 < fuel := by
      simpa [tokCount] using hfuel
    have hpc_le : ∀ p ∈ p0 :: rest, tokCount (pc p) + 4 < fuel := by
      intro p hp
      simp only [List.mem_cons] at hp
      rw [tokCount_append] at hfuel'
      rcases hp with rfl | hp
      · omega
      · have := tokCount_flatMap_mem (fun y => [commaP, sp] ++ pc y) rest p hp
        simp only [tokCount_append] at this
        omega
    have hlenr : rest.length < fuel := by
      have := length_le_tokCount_flatMap (fun y => [commaP, sp] ++ pc y) rest (by
        intro x _; simp [tokCount_append, commaP, tk, tokCount])
      rw [tokCount_append] at hfuel'
      omega
    apply frag_ws [a1 32] ws_sp
    unfold gpos1Sub
    have hpc0 : pc p0 ++ rest.flatMap (fun y => [commaP, sp] ++ pc y) =
        .tok typ0 val0 :: ((arrow ++ writeValueRecord p0.2) ++ rest.flatMap (fun y => [commaP, sp] ++ pc y)) := by
      simp [pc, hw0]
    rw [hpc0]
    refine frag_peek_then _ _ _ _ _ _ _ (fun line => ?_)
    have hnb : (typ0 == tSquareBracketOpen) = false := by
      rcases hty0 with h | h | h <;> rw [h] <;> decide
    simp only [hnb, Bool.false_eq_true, if_false]
    rw [← hpc0]
    -- state after all entries
    have hfold : ∀ (l : List (Nat × Option VR)) (acc : List (Nat × Option VR)),
        Asc ((acc ++ l).map (·.1)) → l.foldl upd acc = acc ++ l.map (fun p => (p.1, normVR p.2)) := by
      intro l
      induction l with
      | nil => intro acc _; simp
      | cons q l ih =>
        intro acc hA
        simp only [List.foldl_cons, upd]
        rw [aset_fresh acc q.1 (normVR q.2) (aget_none_of_asc acc l q hA)]
        have := ih (acc ++ [(q.1, normVR q.2)]) (by simpa [List.append_assoc] using hA)
        rw [this]; simp
    have hAsc0 : Asc ((p0 :: rest).map (·.1)) := by
      rw [← hz, List.map_fst_zip (by omega)]; exact hasc
    have hres : (p0 :: rest).foldl upd [] = cov.zip (adj.map normVR) := by
      rw [hfold _ [] (by simpa using hAsc0), ← hz]
      simp [List.zip_map_right]
    have hp : pc p0 ++ rest.flatMap (fun y => [commaP, sp] ++ pc y) =
        (pc p0 ++ rest.flatMap (fun y => [commaP, sp] ++ pc y)) ++ [] := by simp
    rw [hp]
    refine frag_bind (frag_pairsLoop _ pc upd
      SubStop (fun t => valueItem t = false) Safe Safe
      (fun t ht => ⟨by rcases ht with h | h | h <;> simp [h, tOr, tEOL, tEOF, tComma], subStop_noValue t ht⟩)
      (fun t ht => valueItem_false_of_typ t (by rw [ht]; decide)) (fun _ h => h) safe_comma
      rest [] p0 fuel hlenr (fun i _ line => ?_) ?_) ?_ (fun nx h => by simpa [nextRune, render] using h)
        (fun line t ht => by simpa [mkToks] using ht)
    · obtain ⟨typ, val, hw, hty⟩ := writeGlyph_isTok (newExplainer f) i.1
      refine ⟨{ typ := typ, val := val, line := line }, by simp [pc, hw, mkToks], by simpa using hty⟩
    · intro pre i post e
      have hi : i ∈ p0 :: rest := by rw [e]; simp
      obtain ⟨hi1, hi2⟩ := hmem i hi
      have hApre : Asc ((pre ++ i :: post).map (·.1)) := by rw [← e]; exact hAsc0
      have hpre : pre.foldl upd [] = pre.map (fun p => (p.1, normVR p.2)) := by
        have := hfold pre [] (by
          simp only [List.nil_append]
          simp only [Asc, List.map_append, List.pairwise_append] at hApre
          exact hApre.1)
        simpa using this
      have hpre' : (pre ++ [i]).foldl upd [] = pre.map (fun p => (p.1, normVR p.2)) ++ [(i.1, normVR i.2)] := by
        rw [List.foldl_append, hpre]
        simp only [List.foldl_cons, List.foldl_nil, upd]
        apply aset_fresh
        apply aget_none_of_lt
        intro p hp
        simp only [List.mem_map] at hp
        obtain ⟨q, hq, rfl⟩ := hp
        simp only [Asc, List.map_append, List.map_cons, List.pairwise_append] at hApre
        exact hApre.2.2 q.1 (List.mem_map.mpr ⟨q, hq, rfl⟩) i.1 (by simp)
      rw [hpre, hpre']
      have hnone : aget (pre.map (fun p => (p.1, normVR p.2))) i.1 = none := by
        apply aget_none_of_lt
        intro p hp
        simp only [List.mem_map] at hp
        obtain ⟨q, hq, rfl⟩ := hp
        simp only [Asc, List.map_append, List.map_cons, List.pairwise_append] at hApre
        exact hApre.2.2 q.1 (List.mem_map.mpr ⟨q, hq, rfl⟩) i.1 (by simp)
      have hfi := hpc_le i hi
      simp only [pc, tokCount_append, arrow, sp, tk, tokCount] at hfi
      have hg := frag_glyph f hf i.1 hi1 fuel (by omega)
      have hpcs : pc i = [(newExplainer f).writeGlyph i.1] ++ (arrow ++ (writeValueRecord i.2 ++ [])) := by
        simp [pc]
      rw [hpcs]
      refine frag_bind hg ?_ (fun nx _ => by
          have : nextRune (arrow ++ (writeValueRecord i.2 ++ [])) nx = some 32 := by
            simp [nextRune, render, arrow, sp, Piece.rbs, a1]
          rw [this]; exact safe_space)
        (fun line t _ => by apply arrow_noGlyph; simp [mkToks, arrow, sp, tk])
      simp only [List.length_singleton, bne_self_eq_false, Bool.false_eq_true, if_false]
      apply frag_arrow_then
      refine frag_bind (frag_valueRecord i.2 hi2 fuel (by omega)) ?_ (fun nx h => by simpa [nextRune, render] using h)
        (fun line t ht => by simpa [mkToks] using ht)
      simp only [List.headD_cons]
      rw [aset_fresh _ _ _ hnone]
      exact frag_weaken (frag_pure _ _) (fun _ h => h) (fun _ _ => trivial)
    · rw [hres]
      have hlen' : cov.length = (adj.map normVR).length := by simpa using hlen
      rw [keys_zip cov _ hasc hlen', aget_zip none cov _ hasc hlen']
      exact frag_weaken (frag_pure _ SubStop) (fun _ h => h) (fun _ _ => trivial)

/-! ### GPOS descriptions: lookups joined by line breaks -/

def kwPOS : List Nat := [71, 80, 79, 83]

/-- like `SubForm`, with four items of slack in the fuel -/
structure SubForm4 (f : Font) (one : Nat → PM Subtable) (Ok : Subtable → Prop) : Prop where
  frag : ∀ st, Ok st → ∀ (first : Bool) (fuel : Nat), tokCount ((newExplainer f).subtable first st) + 4 < fuel →
    Frag (one fuel) ((newExplainer f).subtable first st) (normSub st) SubStop Safe
  start : ∀ st, Ok st → ∀ first, ∃ ps, (newExplainer f).subtable first st = .ws [a1 32] :: ps
  head : ∀ st, Ok st → ∀ first line, ∃ t, (mkToks line ((newExplainer f).subtable first st)).head? = some t ∧
    [tHyphen].contains t.typ = false ∧ [tEOL].contains t.typ = false

theorem body_of_form4 (f : Font) (k : Nat) (rd : Nat → PM Lookup) (one : Nat → PM Subtable) (Ok : Subtable → Prop)
    (form : SubForm4 f one Ok)
    (hrd : ∀ fuel, rd fuel = (header fuel >>= fun flags => subtablesLoop (one fuel) fuel [] >>= fun subs =>
      pure ({ typ := k, flags := flags, subtables := subs } : Lookup)))
    (l : Lookup) (h1 : l.typ = k) (h2 : l.flags < 16) (h3 : l.subtables ≠ [])
    (h4 : ∀ st ∈ l.subtables, Ok st) (F0 : Nat) (hF : tokCount (bodyP f l) + 4 ≤ F0) :
    (∃ ps, bodyP f l = tk tColon [58] :: ps) ∧ Frag (rd F0) (bodyP f l) (normLookup l) LookStop Safe := by
  cases hs : l.subtables with
  | nil => exact absurd hs h3
  | cons st more =>
    have hb : bodyP f l = ([tk tColon [58]] ++ explainFlags l.flags) ++
        (((newExplainer f).subtable true st ++
          (more.map fun st' => ((newExplainer f).subtable false st', normSub st')).flatMap (fun q => orSep ++ q.1)) ++ []) := by
      simp [bodyP, hs]
    refine ⟨⟨_, by rw [hb]; rfl⟩, ?_⟩
    rw [hb] at hF ⊢
    rw [hrd]
    have hst : Ok st := h4 st (by rw [hs]; simp)
    have hmore : ∀ st' ∈ more, Ok st' := fun st' h' => h4 st' (by rw [hs]; simp [h'])
    simp only [tokCount_append, tokCount, tk] at hF
    have hflat : ∀ st' ∈ more, tokCount ((newExplainer f).subtable false st') ≤
        tokCount ((more.map fun st' => ((newExplainer f).subtable false st', normSub st')).flatMap (fun q => orSep ++ q.1)) := by
      intro st' h'
      have := tokCount_flatMap_mem (fun q : List Piece × Subtable => orSep ++ q.1)
        (more.map fun st' => ((newExplainer f).subtable false st', normSub st')) ((newExplainer f).subtable false st', normSub st')
        (List.mem_map.mpr ⟨st', h', rfl⟩)
      simp only [tokCount_append] at this
      omega
    have hlenm : more.length ≤ tokCount ((more.map fun st' => ((newExplainer f).subtable false st', normSub st')).flatMap (fun q => orSep ++ q.1)) := by
      have := length_le_tokCount_flatMap (fun q : List Piece × Subtable => orSep ++ q.1)
        (more.map fun st' => ((newExplainer f).subtable false st', normSub st')) (by
          intro x _; simp [tokCount_append, orSep, sp, tab, eolP, tk, tokCount])
      simpa using this
    have := frag_lookupBody (one F0) k l.flags h2 F0 ((newExplainer f).subtable true st) (normSub st)
      (more.map fun st' => ((newExplainer f).subtable false st', normSub st'))
      (form.frag st hst true F0 (by omega))
      (by
        intro q hq
        simp only [List.mem_map] at hq
        obtain ⟨st', h', rfl⟩ := hq
        exact form.frag st' (hmore st' h') false F0 (by have := hflat st' h'; omega))
      (form.start st hst true) (form.head st hst true)
      ⟨by have : Gen.dslExplainFlagsC.length = 4 := by decide
          omega, by simp; omega⟩
    simpa [List.map_map, Function.comp_def, h1, normLookup, hs] using this

/-- a GPOS lookup whose keyword, dispatch and body are known to round-trip at fuel `F0` -/
def PosItemOk (f : Font) (F0 : Nat) (l : Lookup) : Prop :=
  ∃ (rd : PM Lookup),
    (TokOk tIdentifier (ascii (kwPOS ++ decimal l.typ)) (some 58) ∧ ∀ rb ∈ ascii (kwPOS ++ decimal l.typ), Canon rb) ∧
    (∀ (t : Tok) (n : Nat) (acc : List Lookup) (s s1 : PS), readItem s = .ok (t, s1) →
      t.typ = tIdentifier → t.bytes = kwPOS ++ decimal l.typ →
      parseLoop f F0 (n + 1) acc s = (rd >>= fun l' => parseLoop f F0 n (acc ++ [l'])) s1) ∧
    (∃ ps, bodyP f l = tk tColon [58] :: ps) ∧ Frag rd (bodyP f l) (normLookup l) LookStop Safe

def posText (f : Font) : List Lookup → List Piece
  | [] => []
  | [l] => tk tIdentifier (kwPOS ++ decimal l.typ) :: bodyP f l
  | l :: l' :: ls => tk tIdentifier (kwPOS ++ decimal l.typ) :: (bodyP f l ++ (eolP :: posText f (l' :: ls)))

theorem parse_text_pos (f : Font) (F0 : Nat) : ∀ (ls : List Lookup), (∀ l ∈ ls, PosItemOk f F0 l) →
    ChainOk (posText f ls) none ∧ (∀ rb ∈ render (posText f ls), Canon rb) ∧
    (∀ (line n : Nat) (acc : List Lookup) (s : PS) (e : Tok) (rest : List Tok), 2 * ls.length < n →
      s.stream = mkToks line (posText f ls) ++ e :: rest → e.typ = tEOF →
      ∃ s', parseLoop f F0 n acc s = .ok (acc ++ ls.map normLookup, s')) := by
  intro ls
  induction ls with
  | nil =>
    intro _
    refine ⟨trivial, by simp [render, posText], ?_⟩
    intro line n acc s e rest hn hs he
    cases n with
    | zero => omega
    | succ m =>
      obtain ⟨s1, e1, _⟩ := readItem_stream s e rest (by simpa [mkToks, posText] using hs)
      exact ⟨s1, by rw [parseLoop_eof f F0 m acc s s1 e e1 he]; simp⟩
  | cons l ls ih =>
    intro hall
    obtain ⟨rd, hkw, hdisp, ⟨ps, hq⟩, hfrag⟩ := hall l (by simp)
    obtain ⟨ih1, ih2, ih3⟩ := ih (fun x hx => hall x (by simp [hx]))
    have hl : ∀ (line : Nat) (s' : List Nat), endLine line [tk tIdentifier s'] = line := by
      intro line s'; simp [endLine, tk, nextLine, tIdentifier, tEOL]
    cases ls with
    | nil =>
      have htext : posText f [l] = [tk tIdentifier (kwPOS ++ decimal l.typ)] ++ (bodyP f l ++ []) := by simp [posText]
      rw [htext]
      refine ⟨?_, ?_, ?_⟩
      · have hnx : nextRune (bodyP f l ++ []) none = some 58 := by
          rw [hq]; simp [nextRune, render, tk, ascii, Piece.rbs]
        show ChainOk (Piece.tok tIdentifier (ascii (kwPOS ++ decimal l.typ)) :: (bodyP f l ++ [])) none
        refine ⟨by rw [hnx]; exact hkw.1, ?_⟩
        rw [List.append_nil]
        exact hfrag.chain _ safe_none
      · intro rb hrb
        simp only [render_append, List.mem_append] at hrb
        rcases hrb with hrb | hrb | hrb
        · apply hkw.2; simpa [render, tk, Piece.rbs] using hrb
        · exact hfrag.canon rb hrb
        · simp [render] at hrb
      · intro line n acc s e rest hn hs he
        cases n with
        | zero => simp at hn
        | succ m =>
          cases m with
          | zero => simp at hn
          | succ m' =>
            simp only [mkToks_append, List.append_assoc] at hs
            have hk : mkToks line [tk tIdentifier (kwPOS ++ decimal l.typ)] =
                [{ typ := tIdentifier, val := ascii (kwPOS ++ decimal l.typ), line := line }] := by
              simp [mkToks, tk]
            rw [hk] at hs
            obtain ⟨s1, e1, hs1⟩ := readItem_stream s _ _ (by simpa using hs)
            rw [hdisp _ (m' + 1) acc s s1 e1 rfl (by simp [Tok.bytes, ascii_bytes])]
            simp only [hl, mkToks, List.nil_append] at hs1
            obtain ⟨s2, e2, hs2⟩ := hfrag.runs line s1 _ _ (by simpa using hs1) (Or.inr he)
            rw [bind_run, e2]
            simp only []
            obtain ⟨s3, e3, _⟩ := readItem_stream s2 _ _ hs2
            exact ⟨s3, by rw [parseLoop_eof f F0 m' _ s2 s3 e e3 he]; simp⟩
    | cons l' ls' =>
      have htext : posText f (l :: l' :: ls') =
          [tk tIdentifier (kwPOS ++ decimal l.typ)] ++ (bodyP f l ++ ([eolP] ++ posText f (l' :: ls'))) := by
        simp [posText]
      rw [htext]
      refine ⟨?_, ?_, ?_⟩
      · have hnx : nextRune (bodyP f l ++ ([eolP] ++ posText f (l' :: ls'))) none = some 58 := by
          rw [hq]; simp [nextRune, render, tk, ascii, Piece.rbs]
        show ChainOk (Piece.tok tIdentifier (ascii (kwPOS ++ decimal l.typ)) :: (bodyP f l ++ ([eolP] ++ posText f (l' :: ls')))) none
        refine ⟨by rw [hnx]; exact hkw.1, ?_⟩
        apply chain_append
        · have : nextRune ([eolP] ++ posText f (l' :: ls')) none = some 10 := by
            simp [nextRune, render, eolP, tk, ascii, Piece.rbs]
          rw [this]
          exact hfrag.chain _ safe_eol
        · exact ⟨eol_tokOk _, ih1⟩
      · intro rb hrb
        simp only [render_append, List.mem_append] at hrb
        rcases hrb with hrb | hrb | hrb | hrb
        · apply hkw.2; simpa [render, tk, Piece.rbs] using hrb
        · exact hfrag.canon rb hrb
        · simp [render, eolP, tk, ascii, Piece.rbs] at hrb; subst hrb; exact canon_ascii 10 (by decide)
        · exact ih2 rb hrb
      · intro line n acc s e rest hn hs he
        cases n with
        | zero => simp at hn
        | succ m =>
          cases m with
          | zero => simp at hn
          | succ m' =>
            simp only [mkToks_append, List.append_assoc] at hs
            have hk : mkToks line [tk tIdentifier (kwPOS ++ decimal l.typ)] =
                [{ typ := tIdentifier, val := ascii (kwPOS ++ decimal l.typ), line := line }] := by
              simp [mkToks, tk]
            rw [hk] at hs
            obtain ⟨s1, e1, hs1⟩ := readItem_stream s _ _ (by simpa using hs)
            rw [hdisp _ (m' + 1) acc s s1 e1 rfl (by simp [Tok.bytes, ascii_bytes])]
            simp only [hl] at hs1
            have hm : mkToks (endLine line (bodyP f l)) [eolP] =
                [{ typ := tEOL, val := [a1 10], line := endLine line (bodyP f l) }] := by
              simp [mkToks, eolP, tk, ascii, a1]
            rw [hm] at hs1
            obtain ⟨s2, e2, hs2⟩ := hfrag.runs line s1 _ _ (by simpa using hs1) (Or.inl rfl)
            rw [bind_run, e2]
            simp only []
            obtain ⟨s3, e3, hs3⟩ := readItem_stream s2 _ _ hs2
            rw [parseLoop_eol f F0 m' _ s2 s3 _ e3 rfl]
            obtain ⟨s4, e4⟩ := ih3 _ m' (acc ++ [normLookup l]) s3 e rest (by simp at hn ⊢; omega) (by simpa using hs3) he
            exact ⟨s4, by rw [e4]; simp⟩

theorem explainGposP_text (f : Font) : ∀ (ls : List Lookup), (∀ l ∈ ls, l.subtables ≠ []) →
    explainGposP f ls = posText f ls := by
  intro ls
  induction ls with
  | nil => intro _; simp [explainGposP, posText]
  | cons l ls ih =>
    intro h
    have hl := lookupBody_eq f [71, 80, 79, 83] l (h l (by simp))
    have ih' := ih (fun x hx => h x (by simp [hx]))
    cases ls with
    | nil => simp [explainGposP, posText, hl, kwPOS]
    | cons l' ls' =>
      unfold explainGposP at ih' ⊢
      simp only [List.map_cons, List.intersperse_cons_cons, List.flatten_cons] at ih' ⊢
      rw [hl]
      simp only [posText]
      rw [← ih']
      simp [kwPOS]

theorem posText_count (f : Font) : ∀ ls : List Lookup, 2 * ls.length ≤ tokCount (posText f ls) + 1 := by
  intro ls
  induction ls with
  | nil => simp
  | cons l ls ih =>
    cases ls with
    | nil => simp [posText, tokCount, tk]
    | cons l' ls' => simp [posText, tokCount, tk, tokCount_append, eolP] at ih ⊢; omega

theorem body_le_posText (f : Font) : ∀ (ls : List Lookup) (l : Lookup), l ∈ ls →
    tokCount (bodyP f l) + 1 ≤ tokCount (posText f ls) := by
  intro ls
  induction ls with
  | nil => intro l h; cases h
  | cons x ls ih =>
    intro l hl
    cases ls with
    | nil =>
      simp at hl; subst hl
      simp [posText, tokCount, tk]
    | cons l' ls' =>
      simp only [List.mem_cons] at hl
      simp only [posText, tokCount, tk, tokCount_append, eolP]
      rcases hl with rfl | hl
      · omega
      · have := ih l (by simpa using hl); omega

theorem roundtrip_pos_of_items (f : Font) (ls : List Lookup) (hne : ∀ l ∈ ls, l.subtables ≠ [])
    (hitems : ∀ l ∈ ls, PosItemOk f (tokCount (posText f ls) + 3) l) :
    parseBytes f (explainGpos f ls) = .ok (normalize ls) := by
  obtain ⟨hchain, hcanon, hparse⟩ := parse_text_pos f _ ls hitems
  have htext := explainGposP_text f ls hne
  obtain ⟨e, he, hlex⟩ := lex_render _ hchain hcanon
  unfold parseBytes parseRunes parseToks explainGpos
  rw [htext]
  have hlex' : lexRunes (decodeUtf8 (renderBytes (posText f ls))) = mkToks 1 (posText f ls) ++ [e] := hlex
  rw [hlex']
  have hlen : (mkToks 1 (posText f ls) ++ [e]).length + 2 = tokCount (posText f ls) + 3 := by
    simp [mkToks_length]
  simp only [hlen]
  obtain ⟨s', hs'⟩ := hparse 1 (tokCount (posText f ls) + 3) []
    { toks := mkToks 1 (posText f ls) ++ [e], backlog := [], last := zeroTok } e []
    (by have := posText_count f ls; omega) (by simp [PS.stream]) he
  simp only [StateT.run]
  rw [hs']
  simp [normalize, normLookup]

theorem pos_kw_ok (k : Nat) (hk : k < 10) :
    TokOk tIdentifier (ascii (kwPOS ++ decimal k)) (some 58) ∧ ∀ rb ∈ ascii (kwPOS ++ decimal k), Canon rb := by
  have hd : decimal k = [48 + k] := by
    unfold decimal decimalAux
    simp [hk]
  rw [hd]
  refine ⟨?_, ?_⟩
  · left
    refine ⟨rfl, a1 71, ascii [80, 79, 83, 48 + k], rfl, by decide, ?_, ?_⟩
    · intro x hx
      simp [ascii] at hx
      rcases hx with rfl | rfl | rfl | rfl
      · decide
      · decide
      · decide
      · have lt : 48 + k < 128 := by omega
        simp [isIdentChar, isLetter, isDigit, lt, inR]
        omega
    · intro r hr; cases hr; decide
  · apply ascii_canon
    intro c hc
    simp [kwPOS] at hc
    rcases hc with rfl | rfl | rfl | rfl | rfl <;> omega

def Gpos1Sub (f : Font) (st : Subtable) : Prop :=
  (∃ cov adj, st = .gpos1_1 cov adj ∧ Gpos11Ok f cov adj) ∨
  (∃ cov adj, st = .gpos1_2 cov adj ∧ Gpos12Ok f cov adj)

theorem gpos1_form (f : Font) (hf : FontOk f) : SubForm4 f (gpos1Sub f) (Gpos1Sub f) := by
  refine ⟨?_, ?_, ?_⟩
  · rintro st (⟨cov, adj, rfl, hok⟩ | ⟨cov, adj, rfl, hok⟩) first fuel hfuel
    · exact frag_gpos11 f hf first cov adj hok fuel hfuel
    · exact frag_gpos12 f hf first cov adj hok fuel hfuel
  · rintro st (⟨cov, adj, rfl, hok⟩ | ⟨cov, adj, rfl, hok⟩) first
    · exact ⟨(newExplainer f).writeGlyphSet cov ++ (arrow ++ writeValueRecord adj), by simp [Explainer.subtable, sp]⟩
    · cases hz : cov.zip adj with
      | nil =>
        exfalso
        cases cov with
        | nil => exact hok.ne rfl
        | cons g cov' =>
          cases adj with
          | nil => have := hok.len; simp at this
          | cons r adj' => simp at hz
      | cons p0 rest =>
        refine ⟨((newExplainer f).writeGlyph p0.1 :: (arrow ++ writeValueRecord p0.2)) ++
          (rest.map fun p => [(newExplainer f).writeGlyph p.1] ++ arrow ++ writeValueRecord p.2).flatMap
            (fun y => [commaP, sp] ++ y), ?_⟩
        simp [Explainer.subtable, hz, entries, sp]
  · rintro st (⟨cov, adj, rfl, hok⟩ | ⟨cov, adj, rfl, hok⟩) first line
    · refine ⟨{ typ := tSquareBracketOpen, val := ascii [91], line := line }, ?_,
        by simp [tSquareBracketOpen, tHyphen], by simp [tSquareBracketOpen, tEOL]⟩
      simp [Explainer.subtable, Explainer.writeGlyphSet, sp, tk, mkToks]
    · cases hz : cov.zip adj with
      | nil =>
        exfalso
        cases cov with
        | nil => exact hok.ne rfl
        | cons g cov' =>
          cases adj with
          | nil => have := hok.len; simp at this
          | cons r adj' => simp at hz
      | cons p0 rest =>
        obtain ⟨typ, val, hw, hty⟩ := writeGlyph_typ (newExplainer f) p0.1
        refine ⟨{ typ := typ, val := val, line := line }, by simp [Explainer.subtable, hz, entries, sp, hw, mkToks], ?_⟩
        rcases hty with h | h | h <;> simp [h, tIdentifier, tInteger, tString, tHyphen, tEOL]

theorem gpos1_dispatch (f : Font) (fuel : Nat) (t : Tok) (n : Nat) (acc : List Lookup) (s s1 : PS)
    (h : readItem s = .ok (t, s1)) (ht : t.typ = tIdentifier) (hb : t.bytes = kwPOS ++ decimal 1) :
    parseLoop f fuel (n + 1) acc s = (readGpos1 f fuel >>= fun l => parseLoop f fuel n (acc ++ [l])) s1 := by
  have hd : decimal 1 = [49] := by decide
  rw [hd] at hb
  conv => lhs; unfold parseLoop
  rw [bind_run, h]
  simp [ht, isIdent, hb, kwGSUB, kwGPOS, kwPOS, tIdentifier, tEOF, tError, tSemicolon, tEOL]

structure LookupP1Ok (f : Font) (l : Lookup) : Prop where
  typ : l.typ = 1
  flags : l.flags < 16
  ne : l.subtables ≠ []
  subs : ∀ st ∈ l.subtables, Gpos1Sub f st

/-- GPOS 1: an all-zero value record comes back as none (`normalize`) -/
theorem roundtrip_gpos1 (f : Font) (hf : FontOk f) (ls : List Lookup) (h : ∀ l ∈ ls, LookupP1Ok f l) :
    parseBytes f (explainGpos f ls) = .ok (normalize ls) := by
  refine roundtrip_pos_of_items f ls (fun l hl => (h l hl).ne) ?_
  intro l hl
  have hl1 := h l hl
  have hb := body_le_posText f ls l hl
  obtain ⟨hc, hfr⟩ := body_of_form4 f 1 (readGpos1 f) (gpos1Sub f) (Gpos1Sub f) (gpos1_form f hf)
    (fun _ => rfl) l hl1.typ hl1.flags hl1.ne hl1.subs (tokCount (posText f ls) + 3) (by omega)
  refine ⟨readGpos1 f _, by rw [hl1.typ]; exact pos_kw_ok 1 (by decide), by rw [hl1.typ]; exact gpos1_dispatch f _, hc, hfr⟩

end SfntV.Dsl
