/-
C06, multiple substitution (GSUB 2.1) as a nested lookup: what `fixStackInsert` does to a stack
entry whose input positions are strictly increasing (F1, F2), how the engine's `applySub` treats
the stack (F3), and the shape of the reference `matchSub` (F4).
-/
import SfntV.Proofs.ShapeSpecInsBase
import SfntV.Proofs.ShapeSpecPointwise
set_option linter.unusedSimpArgs false
namespace SfntV.C06
open SfntV
open SfntV.Shape (Glyph Gdef Lookup LookupList Subtable Action St Nested)
open SfntV.Spec.Shape (TG gl Hit)

/-! ## `expand` -/

theorem expand_nil (j k : Nat) : expand [] j k = [] := rfl

theorem expand_cons (p : Nat) (ps : List Nat) (j k : Nat) :
    expand (p :: ps) j k =
      (if p < j then [p] else if p = j then List.range' j k else [p + (k - 1)]) ++ expand ps j k := by
  simp only [expand, List.flatMap_cons]

theorem expand_one (ps : List Nat) (j : Nat) : expand ps j 1 = ps := by
  induction ps with
  | nil => rfl
  | cons p ps ih =>
    rw [expand_cons, ih]
    by_cases h1 : p < j
    · simp [h1]
    · by_cases h2 : p = j
      · subst h2; simp [List.range']
      · simp [h1, h2]

theorem expand_shift (ps : List Nat) (j k a : Nat) :
    (expand ps j k).map (· + a) = expand (ps.map (· + a)) (j + a) k := by
  induction ps with
  | nil => rfl
  | cons p ps ih =>
    rw [List.map_cons, expand_cons, expand_cons, List.map_append, ih]
    congr 1
    by_cases h1 : p < j
    · have h1' : p + a < j + a := by omega
      simp [h1, h1']
    · have h1' : ¬ (p + a < j + a) := by omega
      by_cases h2 : p = j
      · subst h2
        simp only [Nat.lt_irrefl, if_false, if_true]
        have : (fun x : Nat => x + a) = fun x => a + x := funext fun x => Nat.add_comm x a
        rw [this, List.map_add_range', Nat.add_comm a p]
      · have h2' : ¬ (p + a = j + a) := by omega
        simp only [h1, h1', h2, h2', if_false, List.map_cons, List.map_nil]
        congr 1
        omega

/-- all positions behind `j` move -/
theorem expand_gt (ps : List Nat) (j k : Nat) (h : ∀ p ∈ ps, j < p) :
    expand ps j k = ps.map (· + (k - 1)) := by
  induction ps with
  | nil => rfl
  | cons p ps ih =>
    have hp : j < p := h p (List.mem_cons_self ..)
    have h1 : ¬ p < j := by omega
    have h2 : ¬ p = j := by omega
    rw [expand_cons, ih (fun q hq => h q (List.mem_cons_of_mem _ hq))]
    simp [h1, h2]

/-! ## F1, F2: `fixInsertOne` -/

theorem insAfterLast_nil_new (pos : Int) (l r : List Int) (h : Shape.insAfterLast pos [] l = some r) : r = l := by
  induction l generalizing r with
  | nil => simp [Shape.insAfterLast] at h
  | cons p ps ih =>
    simp only [Shape.insAfterLast] at h
    cases hr : Shape.insAfterLast pos [] ps with
    | some r' =>
      rw [hr] at h
      simp only [Option.some.injEq] at h
      rw [← h, ih r' hr]
    | none =>
      rw [hr] at h
      simp only at h
      split at h
      · simp only [List.nil_append, Option.some.injEq] at h
        exact h.symm
      · cases h

theorem fixInsertOne_one (pos : Int) (e : Nested) : Shape.fixInsertOne pos 1 e = e := by
  unfold Shape.fixInsertOne
  split
  · rfl
  · have hs : (e.inputPos.map fun p => if p > pos then p + ((1 - 1 : Nat) : Int) else p) = e.inputPos := by
      have : (fun p : Int => if p > pos then p + ((1 - 1 : Nat) : Int) else p) = id := by
        funext p
        simp
      rw [this, List.map_id]
    simp only [hs]
    have hn : Shape.newPositions pos 1 = [] := rfl
    rw [hn]
    have hg : (Shape.insAfterLast pos [] e.inputPos).getD e.inputPos = e.inputPos := by
      cases hr : Shape.insAfterLast pos [] e.inputPos with
      | none => rfl
      | some r => simp only [Option.getD_some]; exact insAfterLast_nil_new pos _ r hr
    rw [hg]
    cases e
    simp

theorem insAfterLast_not_mem (pos : Int) (new l : List Int) (h : pos ∉ l) : Shape.insAfterLast pos new l = none := by
  induction l with
  | nil => rfl
  | cons p ps ih =>
    have h1 : p ≠ pos := fun hh => h (hh ▸ List.mem_cons_self ..)
    have h2 : pos ∉ ps := fun hh => h (List.mem_cons_of_mem _ hh)
    simp only [Shape.insAfterLast, ih h2]
    simp [h1]

/-- the shift of `fixInsertOne` on natural positions -/
private def shiftI (j k : Nat) (ps : List Nat) : List Int :=
  (ps.map Int.ofNat).map fun p => if p > (j : Int) then p + ((k - 1 : Nat) : Int) else p

private theorem shiftI_cons (j k p : Nat) (ps : List Nat) :
    shiftI j k (p :: ps) = (if (p : Int) > (j : Int) then (p : Int) + ((k - 1 : Nat) : Int) else (p : Int)) :: shiftI j k ps := by
  simp [shiftI]

private theorem shiftI_gt (j k : Nat) (ps : List Nat) (h : ∀ p ∈ ps, j < p) :
    shiftI j k ps = (ps.map (· + (k - 1))).map Int.ofNat := by
  induction ps with
  | nil => rfl
  | cons p ps ih =>
    have hp : j < p := h p (List.mem_cons_self ..)
    rw [shiftI_cons, ih (fun q hq => h q (List.mem_cons_of_mem _ hq))]
    have : (p : Int) > (j : Int) := by omega
    simp [this]

private theorem shiftI_gt_not_mem (j k : Nat) (ps : List Nat) (h : ∀ p ∈ ps, j < p) : (j : Int) ∉ shiftI j k ps := by
  rw [shiftI_gt j k ps h]
  intro hm
  simp only [List.map_map, List.mem_map, Function.comp] at hm
  obtain ⟨q, hq, he⟩ := hm
  have := h q hq
  simp only [Int.ofNat_eq_natCast] at he
  omega

theorem range'_newPositions (j k : Nat) (hk : 1 ≤ k) :
    (List.range' j k).map Int.ofNat = (j : Int) :: Shape.newPositions (j : Int) k := by
  obtain ⟨m, rfl⟩ : ∃ m, k = m + 1 := ⟨k - 1, by omega⟩
  simp only [List.range'_succ, List.map_cons, Int.ofNat_eq_natCast, Shape.newPositions, Nat.add_sub_cancel]
  congr 1
  rw [List.range'_eq_map_range, List.map_map]
  apply List.map_congr_left
  intro i _
  simp only [Function.comp, Int.ofNat_eq_natCast]
  omega

private theorem insAfterLast_expand (ps : List Nat) (j k : Nat) (hs : ps.Pairwise (· < ·)) (hj : j ∈ ps) (hk : 1 ≤ k) :
    Shape.insAfterLast (j : Int) (Shape.newPositions (j : Int) k) (shiftI j k ps)
      = some ((expand ps j k).map Int.ofNat) := by
  induction ps with
  | nil => cases hj
  | cons p ps ih =>
    rw [List.pairwise_cons] at hs
    obtain ⟨hlt, hs'⟩ := hs
    rw [shiftI_cons, expand_cons]
    by_cases hpj : p = j
    · subst hpj
      have hgt : ∀ q ∈ ps, p < q := hlt
      have h0 : ¬ ((p : Int) > (p : Int)) := by omega
      simp only [h0, if_false, Shape.insAfterLast, insAfterLast_not_mem _ _ _ (shiftI_gt_not_mem p k ps hgt)]
      simp only [beq_self_eq_true, if_true, Nat.lt_irrefl, if_false, List.map_append,
        range'_newPositions p k hk, expand_gt ps p k hgt, shiftI_gt p k ps hgt, List.cons_append]
    · have hj' : j ∈ ps := by
        rcases List.mem_cons.mp hj with h | h
        · exact absurd h.symm hpj
        · exact h
      have hpl : p < j := hlt j hj'
      have h0 : ¬ ((p : Int) > (j : Int)) := by omega
      simp only [h0, if_false, Shape.insAfterLast, ih hs' hj', hpl, if_true, List.cons_append, List.nil_append,
        List.map_cons, Int.ofNat_eq_natCast]

theorem fixInsertOne_expand (ps : List Nat) (acts : List Action) (e j k : Nat)
    (hs : ps.Pairwise (· < ·)) (hj : j ∈ ps) (he : ∀ p ∈ ps, p < e) (hk : 1 ≤ k) :
    Shape.fixInsertOne (j : Int) k ⟨ps.map Int.ofNat, acts, (e : Int)⟩
      = ⟨(expand ps j k).map Int.ofNat, acts, ((e + (k - 1) : Nat) : Int)⟩ := by
  have hje : j < e := he j hj
  have h0 : ¬ ((e : Int) ≤ (j : Int)) := by omega
  unfold Shape.fixInsertOne
  simp only [h0, if_false]
  have := insAfterLast_expand ps j k hs hj hk
  unfold shiftI at this
  rw [this]
  simp only [Option.getD_some, Int.natCast_add]

/-! ## F3: the engine -/

/-- put the stack `stk`, adjusted for the inserted glyphs, under the result of an application at
`a` on the empty stack -/
private def reliftIns (a : Nat) (stk : List Nested) : Outcome (Option (St × Nat)) → Outcome (Option (St × Nat))
  | .ok none => .ok none
  | .ok (some (st', n)) => .ok (some (⟨st'.seq, if n - a > 1 then stk.map (Shape.fixInsertOne a (n - a)) else stk⟩, n))
  | .err e => .err e
  | .panic p => .panic p

private theorem reliftIns_bind (a : Nat) (stk : List Nested) (x : Outcome α) (f : α → Outcome (Option (St × Nat))) :
    reliftIns a stk (x >>= f) = x >>= fun v => reliftIns a stk (f v) := by
  cases x <;> rfl

private theorem bind_congr'' {x : Outcome α} {f g : α → Outcome β} (h : ∀ v, f v = g v) : (x >>= f) = (x >>= g) := by
  have : f = g := funext h
  rw [this]

theorem applySub_gsub21_stack (kp : Nat → Bool) (seq : List Glyph) (stk : List Nested) (a : Nat) (b : Int)
    (cov : Shape.Cov) (repl : List (List Nat)) :
    Shape.applySub kp ⟨seq, stk⟩ a b (.gsub21 cov repl) =
      (match Shape.applySub kp ⟨seq, []⟩ a (seq.length : Int) (.gsub21 cov repl) with
       | .ok none => .ok none
       | .ok (some (st', n)) => .ok (some (⟨st'.seq, if n - a > 1 then stk.map (Shape.fixInsertOne a (n - a)) else stk⟩, n))
       | .err e => .err e
       | .panic p => .panic p) := by
  change _ = reliftIns a stk _
  simp only [Shape.applySub, reliftIns_bind]
  refine bind_congr'' fun g => ?_
  split
  · rfl
  · simp only [reliftIns_bind]
    refine bind_congr'' fun rp => ?_
    split
    · rfl
    · simp only [reliftIns, Nat.add_sub_cancel_left]

/-! ## F4: the reference -/

theorem matchSub_gsub21_lim (kp : Nat → Bool) (gd : Gdef) (pre : List TG) (cur : TG) (post : List TG)
    (lim lim' : Nat) (cov : Shape.Cov) (repl : List (List Nat)) :
    Spec.Shape.matchSub kp gd pre cur post lim (.gsub21 cov repl)
      = Spec.Shape.matchSub kp gd pre cur post lim' (.gsub21 cov repl) := rfl

theorem matchSub_gsub21_shape (kp : Nat → Bool) (gd : Gdef) (pre : List TG) (cur : TG) (post : List TG)
    (lim : Nat) (cov : Shape.Cov) (repl : List (List Nat)) (h : Hit)
    (hm : Spec.Shape.matchSub kp gd pre cur post lim (.gsub21 cov repl) = .ok (some h)) :
    ∃ dn : List TG, h = .done dn post ∧ dn ≠ [] ∧ ∀ x ∈ dn, x.inp = cur.inp ∧ x.win = cur.win := by
  simp only [Spec.Shape.matchSub, Spec.Shape.need, Spec.Shape.undef, bind, Except.bind, pure, Except.pure] at hm
  repeat' (split at hm)
  all_goals (first | (cases hm; done) | skip)
  rename_i r0 rs _
  injection hm with hm; injection hm with hm
  subst hm
  refine ⟨_, rfl, List.cons_ne_nil _ _, ?_⟩
  intro x hx
  rcases List.mem_cons.mp hx with hx | hx
  · subst hx; exact ⟨rfl, rfl⟩
  · obtain ⟨r, _, hr⟩ := List.mem_map.mp hx
    subst hr
    exact ⟨rfl, rfl⟩

end SfntV.C06
