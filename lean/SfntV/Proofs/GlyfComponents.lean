/-
Proofs for C11, part 5: Components / FixComponents.
-/
import SfntV.Proofs.GlyfRoundtrip
namespace SfntV.Glyf
open SfntV

/-- the rewriting `FixComponents` performs on a component list -/
def mapGids (f : Nat → Nat) (cs : List Component) : List Component :=
  cs.map fun c => { c with gid := f c.gid }

theorem wfComps_mapGids (f : Nat → Nat) (hf : ∀ n, f n < 65536) (cs : List Component)
    (h : wfComps cs = true) : wfComps (mapGids f cs) = true := by
  induction cs with
  | nil => simp [wfComps] at h
  | cons c cs ih =>
    cases cs with
    | nil =>
      simp only [wfComps, wfComp, Bool.and_eq_true, decide_eq_true_eq] at h
      simp [mapGids, wfComps, wfComp, h, hf]
    | cons c' cs' =>
      simp only [wfComps, wfComp, Bool.and_eq_true, decide_eq_true_eq] at h
      have := ih h.2
      simp only [mapGids, List.map_cons] at this
      simp only [mapGids, List.map_cons, wfComps, wfComp, Bool.and_eq_true, decide_eq_true_eq]
      exact ⟨⟨⟨⟨h.1.1.1.1, hf _⟩, h.1.1.2⟩, h.1.2⟩, this⟩

theorem any_mapGids (f : Nat → Nat) (cs : List Component) (p : Nat → Bool) :
    (mapGids f cs).any (fun c => p c.flags) = cs.any (fun c => p c.flags) := by
  induction cs with
  | nil => rfl
  | cons c cs ih => simp only [mapGids, List.map_cons, List.any_cons] at ih ⊢; rw [ih]

theorem wfGlyph_fixComponents (f : Nat → Nat) (hf : ∀ n, f n < 65536) (g : Option Glyph)
    (h : wfGlyph g = true) : wfGlyph (fixComponents f g) = true := by
  cases g with
  | none => rfl
  | some g =>
    obtain ⟨a, b, c, d, data⟩ := g
    cases data with
    | simple nc enc => exact h
    | composite cs ins =>
      simp only [wfGlyph, wfData, Bool.and_eq_true, decide_eq_true_eq] at h
      simp only [fixComponents, wfGlyph, wfData, Bool.and_eq_true, decide_eq_true_eq]
      refine ⟨h.1, wfComps_mapGids f hf cs h.2.1, ?_⟩
      cases ins with
      | none => rfl
      | some i =>
        have h2 := h.2.2
        simp only [Bool.and_eq_true, decide_eq_true_eq] at h2 ⊢
        exact ⟨h2.1, by rw [← h2.2]; exact any_mapGids f cs (fun fl => bit fl FlagWeHaveInstructions)⟩

theorem components_fix (f : Nat → Nat) (g : Option Glyph) :
    components (fixComponents f g) = (components g).map (·.map f) := by
  cases g with
  | none => rfl
  | some g =>
    obtain ⟨a, b, c, d, data⟩ := g
    cases data with
    | simple nc enc => rfl
    | composite cs ins => simp [fixComponents, components]

end SfntV.Glyf
