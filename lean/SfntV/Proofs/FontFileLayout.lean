/-
C01 (bytes) — the layout-table guards of `file_roundtrip` / `file_roundtrip_cff` DISCHARGED with
C08's table-level adapter (Proofs/OtlInfoAdapter.lean, Proofs/OtlCodecs.lean): the decoders are no
longer abstract but `Info.readGo` (Proofs/OtlInfoGo.lean: the model of `gtab.Read` itself — header,
script list, feature list, `readLookupList` with the codec's subtable readers `readGsubSubtable` /
`readGposSubtable`) and `Gdef.read`; the guard becomes "the table bytes are what `Info.encode` /
`GdefV.encode` wrote for a value of C08's domain".

Limits inherited from C08 (stated there): the lookup-list reader has a budget (`BudgetOk`: lookups
+ subtables ≤ 6000, a clause of the domain); class tables come back in normal form
(`ClassDef.nfTab`, inside the codecs' `nf`; one hypothesis `hal` remains inside `gsub_ok_C2`);
GDEF round-trips as an equation (`gdef_roundtrip_eq`).  The decoded value enters the font model as
the token of the table bytes.
-/
import SfntV.Proofs.FontFileCff
import SfntV.Proofs.OtlCodecs
import SfntV.Proofs.OtlInfoGo

namespace SfntV.FontFile
open SfntV SfntV.Font SfntV.Otl

/-- the layout-table decoders of `Read`, concretely: `gdef.Read`, `gtab.Read(…, TypeGsub)`,
`gtab.Read(…, TypeGpos)` in C08's model OF THE GO READER (`Info.readGo`: header, script list,
feature list, `readLookupList` with its budget of 6000 lookups + subtables, the codec's subtable
readers; Proofs/OtlInfoGo.lean); the result is the token of the table -/
def layoutDec : LayoutDec :=
  { gdef := InfoA.gdefTok tokenOfBytes,
    gsub := InfoA.decTokGo InfoA.gsubCodec 7 tokenOfBytes,
    gpos := InfoA.decTokGo InfoA.gposCodec 9 tokenOfBytes }

/-- the decoder used to state the remaining guards: it accepts everything -/
def anyLayoutDec : LayoutDec :=
  { gdef := fun b => .ok (tokenOfBytes b), gsub := fun b => .ok (tokenOfBytes b),
    gpos := fun b => .ok (tokenOfBytes b) }

/-- C08's domain for the three layout tables of a font: each table present is the encoding of a
value in the domain of C08's round-trip theorem -/
structure LayoutOk (gdef gsub gpos : Option Bytes) : Prop where
  gdef : ∀ b, gdef = some b → ∃ g : InfoA.GdefV, InfoA.GdefOk g ∧ g.encode = .ok b
  gsub : ∀ b, gsub = some b → ∃ I : InfoA.Info InfoA.GsubSub,
    InfoA.InfoOk InfoA.gsubCodec 7 I ∧ InfoA.BudgetOk I ∧ InfoA.Info.encode InfoA.gsubCodec I = .ok b
  gpos : ∀ b, gpos = some b → ∃ I : InfoA.Info InfoA.GposSub,
    InfoA.InfoOk InfoA.gposCodec 9 I ∧ InfoA.BudgetOk I ∧ InfoA.Info.encode InfoA.gposCodec I = .ok b

theorem layout_gdef {gd gs gp : Option Bytes} (h : LayoutOk gd gs gp) :
    ∀ b, gd = some b → b ≠ [] ∧ layoutDec.gdef b = .ok (tokenOfBytes b) := by
  intro b hb
  obtain ⟨g, hg, he⟩ := h.gdef b hb
  exact InfoA.gdefTok_encode tokenOfBytes g hg b he

theorem layout_gsub {gd gs gp : Option Bytes} (h : LayoutOk gd gs gp) :
    ∀ b, gs = some b → b ≠ [] ∧ layoutDec.gsub b = .ok (tokenOfBytes b) := by
  intro b hb
  obtain ⟨I, hI, hB, he⟩ := h.gsub b hb
  exact InfoA.decTokGo_encode InfoA.gsubCodec 7 tokenOfBytes I hI hB b he

theorem layout_gpos {gd gs gp : Option Bytes} (h : LayoutOk gd gs gp) :
    ∀ b, gp = some b → b ≠ [] ∧ layoutDec.gpos b = .ok (tokenOfBytes b) := by
  intro b hb
  obtain ⟨I, hI, hB, he⟩ := h.gpos b hb
  exact InfoA.decTokGo_encode InfoA.gposCodec 9 tokenOfBytes I hI hB b he

/-- The domain with the layout guards discharged: `core` collects every guard of `InDomainFile`
that does not concern the layout tables (stated with the all-accepting decoder, for which the
layout guards only say "non-empty", which `layout` implies anyway); `layout` is C08's domain. -/
structure InDomainFileL (ef : EnvF) (F : FileFont) : Prop where
  core : InDomainFile anyLayoutDec ef F
  layout : LayoutOk F.gdef F.gsub F.gpos

theorem inDomainFile_of_L (ef : EnvF) (F : FileFont) (h : InDomainFileL ef F) :
    InDomainFile layoutDec ef F :=
  { glyphs := h.core.glyphs, count := h.core.count, widthsLen := h.core.widthsLen,
    widthsRange := h.core.widthsRange, extents := h.core.extents, maxp := h.core.maxp, head := h.core.head,
    ctime := h.core.ctime, mtime := h.core.mtime, os2 := h.core.os2, ascent := h.core.ascent,
    descent := h.core.descent, lineGap := h.core.lineGap, caret := h.core.caret, name := h.core.name,
    cmap := h.core.cmap, names := h.core.names, namesLen := h.core.namesLen,
    gdef := layout_gdef h.layout, gsub := layout_gsub h.layout, gpos := layout_gpos h.layout,
    version := h.core.version, sideTags := h.core.sideTags, sideNodup := h.core.sideNodup,
    sideCount := h.core.sideCount, size := h.core.size }

/-- **TrueType, no abstract decoder left for GDEF/GSUB/GPOS.** -/
theorem file_roundtrip_layout (ef : EnvF) (caretOf : Int → Int → Int) (F : FileFont) (h : InDomainFileL ef F) :
    ∃ b, writeFile ef F = .ok b ∧ readFile layoutDec caretOf b = .ok (nfFile F) :=
  file_roundtrip layoutDec ef caretOf F (inDomainFile_of_L ef F h)

structure InDomainFileCffL (decCff : Bytes → Outcome CffPayload) (ef : EnvF) (F : CffFileFont) : Prop where
  core : InDomainFileCff anyLayoutDec decCff ef F
  layout : LayoutOk F.gdef F.gsub F.gpos

theorem inDomainFileCff_of_L (decCff : Bytes → Outcome CffPayload) (ef : EnvF) (F : CffFileFont)
    (h : InDomainFileCffL decCff ef F) : InDomainFileCff layoutDec decCff ef F :=
  { cff := h.core.cff, cffInfo := h.core.cffInfo, count := h.core.count, extentsLen := h.core.extentsLen,
    extents := h.core.extents, head := h.core.head, ctime := h.core.ctime, mtime := h.core.mtime,
    os2 := h.core.os2, ascent := h.core.ascent, descent := h.core.descent, lineGap := h.core.lineGap,
    caret := h.core.caret, name := h.core.name, cmap := h.core.cmap,
    gdef := layout_gdef h.layout, gsub := layout_gsub h.layout, gpos := layout_gpos h.layout,
    version := h.core.version, size := h.core.size }

/-- **OpenType/CFF, no abstract decoder left for GDEF/GSUB/GPOS** (the CFF table itself stays
behind `decCff`). -/
theorem file_roundtrip_cff_layout (decCff : Bytes → Outcome CffPayload) (ef : EnvF) (caretOf : Int → Int → Int)
    (F : CffFileFont) (h : InDomainFileCffL decCff ef F) :
    ∃ b, writeFileCff ef F = .ok b ∧ readFileCff layoutDec decCff caretOf b = .ok (nfFileCff F) :=
  file_roundtrip_cff layoutDec decCff ef caretOf F (inDomainFileCff_of_L decCff ef F h)

end SfntV.FontFile
