/-
C06, contextual lookups whose nested lookups may INSERT glyphs (multiple substitution):
definitions shared by the proofs.
-/
import SfntV.Proofs.ShapeSpecTags

namespace SfntV.C06
open SfntV
open SfntV.Shape (Glyph Gdef Lookup LookupList Subtable Action)
open SfntV.Spec.Shape (TG gl)

/-- pointwise subtables and multiple substitution (GSUB 2.1): the nested lookups that replace
the glyph they are applied to by one or more glyphs and touch nothing else -/
def insertwise : Subtable → Bool
  | .gsub21 _ _ => true
  | s => pointwise s

def insertwiseLookup (lk : Lookup) : Bool := lk.subtables.all insertwise

def actInsertwise (ll : LookupList) (act : Action) : Bool :=
  match ll[act.lookup]? with
  | some lk => insertwiseLookup lk
  | none => true

/-- every nested lookup of every contextual subtable of the list is insertwise -/
def nestedInsertwiseLL (ll : LookupList) : Bool :=
  ll.all fun lk => lk.subtables.all fun s => s.actions.all (actInsertwise ll)

/-- what happens to a strictly increasing list of positions when the glyph at position `j` is
replaced by `k ≥ 1` glyphs that all take its place: `j` becomes `j, …, j+k-1`, later positions
move by `k-1` -/
def expand (ps : List Nat) (j k : Nat) : List Nat :=
  ps.flatMap fun p => if p < j then [p] else if p = j then List.range' j k else [p + (k - 1)]

/-- The shape of the buffer while the nested lookups of a top-level match (depth 0) are run:
a clean prefix of length `a`, the window `A` whose glyphs all carry the window tag 0 (and the
input tag 0 or no input tag), a clean suffix. -/
structure Form (a : Nat) (P A D ts : List TG) : Prop where
  eq : ts = P ++ A ++ D
  len : P.length = a
  cleanP : AllClean P
  tagged : ∀ x ∈ A, Tagged0 x
  cleanD : AllClean D

end SfntV.C06
