/-
C02 bridging: erasing panic sites and costs from the checked-index models of `coverage.Read`,
`coverage.ReadSet`, `classdef.Read` (`SfntV.Total.Otl`) gives the value-level models of C08
(`SfntV.Otl.Cov.read`, `Cov.readSet`, `SfntV.Otl.ClassDef.read`) applied to the bytes from the
table position on — on EVERY input and position.
-/
import SfntV.Proofs.TotalOtl

namespace SfntV.Total.Otl
open SfntV SfntV.Total SfntV.Total.Gdef
open SfntV.Otl (bytesToWords eIO eInvalid eUnsupported)

/-- forget the cost -/
def erase : Outcome (α × Cost) → Outcome α
  | .ok (v, _) => .ok v
  | .err e => .err e
  | .panic s => .panic s

def mapOk (f : α → β) : Outcome α → Outcome β
  | .ok v => .ok (f v)
  | .err e => .err e
  | .panic s => .panic s

theorem bytesToWords_length : ∀ l : Bytes, (bytesToWords l).length = l.length / 2
  | [] => by simp [bytesToWords]
  | [_] => by simp [bytesToWords]
  | a :: b :: r => by
    simp only [bytesToWords, List.length_cons, bytesToWords_length r]
    omega

/-- a 16-bit read at `q` against the word view of the bytes from `q` on -/
theorem word_cases (site : String) (b : Bytes) (q : Nat) :
    (∃ w, readU16 site b q = .ok w ∧
        bytesToWords (b.drop q) = w :: bytesToWords (b.drop (q + 2))) ∨
    (readU16 site b q = .err "io" ∧ bytesToWords (b.drop q) = []) := by
  rw [readU16_eq]
  unfold wordAt
  match hd : b.drop q with
  | [] => exact Or.inr ⟨rfl, rfl⟩
  | [x] => exact Or.inr ⟨rfl, rfl⟩
  | x :: y :: r =>
    refine Or.inl ⟨_, rfl, ?_⟩
    rw [← List.drop_drop, hd]
    rfl

theorem six_split : ∀ l : Bytes, 6 ≤ l.length →
    ∃ a0 a1 a2 a3 a4 a5 r, l = a0 :: a1 :: a2 :: a3 :: a4 :: a5 :: r
  | a0 :: a1 :: a2 :: a3 :: a4 :: a5 :: r, _ => ⟨a0, a1, a2, a3, a4, a5, r, rfl⟩
  | [], h | [_], h | [_, _], h | [_, _, _], h | [_, _, _, _], h | [_, _, _, _, _], h => by
    simp only [List.length_cons, List.length_nil] at h; omega

/-- a 6-byte record read at `q` against the word view -/
theorem rec6_cases (s0 s1 s2 s3 : String) (b : Bytes) (q : Nat) :
    (∃ buf s e c, readBytes s0 b q 6 = .ok buf ∧ w16 s1 buf 0 = .ok s ∧ w16 s2 buf 2 = .ok e ∧
        w16 s3 buf 4 = .ok c ∧
        bytesToWords (b.drop q) = s :: e :: c :: bytesToWords (b.drop (q + 6))) ∨
    (readBytes s0 b q 6 = .err "io" ∧ (bytesToWords (b.drop q)).length < 3) := by
  have hlen := List.length_drop (i := q) (l := b)
  by_cases h : q + 6 ≤ b.length
  · obtain ⟨a0, a1, a2, a3, a4, a5, r, hd⟩ := six_split (b.drop q) (by omega)
    refine Or.inl ⟨[a0, a1, a2, a3, a4, a5], be a0 a1, be a2 a3, be a4 a5, ?_, rfl, rfl, rfl, ?_⟩
    · unfold readBytes
      rw [if_neg (by omega), if_pos h, hd]
      rfl
    · rw [← List.drop_drop, hd]
      rfl
  · refine Or.inr ⟨?_, ?_⟩
    · unfold readBytes
      rw [if_neg (by omega), if_neg h]
    · rw [bytesToWords_length]
      omega

theorem short3 {ws : List Nat} (h : ws.length < 3) :
    ws = [] ∨ (∃ a, ws = [a]) ∨ (∃ a b, ws = [a, b]) := by
  match ws, h with
  | [], _ => exact Or.inl rfl
  | [a], _ => exact Or.inr (Or.inl ⟨a, rfl⟩)
  | [a, b], _ => exact Or.inr (Or.inr ⟨a, b, rfl⟩)
  | _ :: _ :: _ :: _, h => simp only [List.length_cons] at h; omega

theorem mapOk_id (x : Outcome (List α)) : mapOk (fun r => ([] : List α).reverse ++ r) x = x := by
  cases x <;> simp [mapOk]

/-! ## coverage.Read -/

theorem covLoop1_erase (b : Bytes) : ∀ (n q i : Nat) (prev : Int) (acc : List (Nat × Nat))
    (c : Cost), erase (covLoop1 b n q i prev acc c)
      = mapOk (fun r => acc.reverse ++ r) (SfntV.Otl.Cov.read1 n (bytesToWords (b.drop q)) i prev)
  | 0, _, _, _, acc, _ => by simp [covLoop1, erase, mapOk, SfntV.Otl.Cov.read1]
  | n+1, q, i, prev, acc, c => by
    unfold covLoop1
    rcases word_cases "coverage.go:92#ReadUint16" b q with ⟨w, hw, hws⟩ | ⟨hw, hws⟩
    · rw [hw, hws, ok_bind]
      unfold SfntV.Otl.Cov.read1
      split
      · rfl
      · rw [covLoop1_erase b n]
        cases SfntV.Otl.Cov.read1 n (bytesToWords (b.drop (q + 2))) (i + 1) w <;>
          simp [mapOk]
    · rw [hw, hws]
      rfl

theorem covLoop2_erase (b : Bytes) : ∀ (n q pos : Nat) (prev : Int) (acc : List (Nat × Nat))
    (c : Cost), erase (covLoop2 b n q pos prev acc c)
      = mapOk (fun r => acc.reverse ++ r) (SfntV.Otl.Cov.read2 n (bytesToWords (b.drop q)) pos prev)
  | 0, _, _, _, acc, _ => by simp [covLoop2, erase, mapOk, SfntV.Otl.Cov.read2]
  | n+1, q, pos, prev, acc, c => by
    unfold covLoop2
    rcases rec6_cases "coverage.go:120#ReadBytes(6)" "coverage.go:124#buf[0],buf[1]"
      "coverage.go:125#buf[2],buf[3]" "coverage.go:126#buf[4],buf[5]" b q with
      ⟨buf, s, e, sci, hbuf, hs, he, hc, hws⟩ | ⟨hbuf, hws⟩
    · rw [hbuf, ok_bind, hs, ok_bind, he, ok_bind, hc, ok_bind, hws]
      unfold SfntV.Otl.Cov.read2
      split
      · rfl
      · dsimp only
        rw [covLoop2_erase b n]
        cases SfntV.Otl.Cov.read2 n (bytesToWords (b.drop (q + 6))) (pos + (e + 1 - s)) e <;>
          simp [mapOk]
    · rw [hbuf]
      rcases short3 hws with h | ⟨a, h⟩ | ⟨a, a', h⟩ <;> rw [h] <;> rfl

/-- BRIDGE: `coverage.Read` — the checked-index model without its cost is the value-level model
of C08 on the bytes from `pos` on, for all bytes and all positions -/
theorem coverageRead_erase (b : Bytes) (pos : Nat) :
    erase (coverageRead b pos) = SfntV.Otl.Cov.read (b.drop pos) := by
  unfold coverageRead SfntV.Otl.Cov.read
  rcases word_cases "coverage.go:77#ReadUint16" b pos with ⟨f, hf, hws⟩ | ⟨hf, hws⟩
  · rw [hf, hws, ok_bind]
    dsimp only
    split
    · rename_i h1
      subst h1
      rcases word_cases "coverage.go:86#ReadUint16" b (pos + 2) with ⟨n, hn, hws2⟩ | ⟨hn, hws2⟩
      · rw [hn, hws2, ok_bind, covLoop1_erase, mapOk_id]
        rfl
      · rw [hn, hws2]; rfl
    split
    · rename_i _ h2
      subst h2
      rcases word_cases "coverage.go:113#ReadUint16" b (pos + 2) with ⟨n, hn, hws2⟩ | ⟨hn, hws2⟩
      · rw [hn, hws2, ok_bind, covLoop2_erase, mapOk_id]
        rfl
      · rw [hn, hws2]; rfl
    · rename_i h1 h2
      unfold SfntV.Otl.Cov.readW
      split <;> first | rfl | (exfalso; simp_all)
  · rw [hf, hws]; rfl

/-! ## coverage.ReadSet -/

theorem setLoop1_erase (b : Bytes) : ∀ (n q : Nat) (acc : List Nat) (c : Cost),
    erase (setLoop1 b n q acc c)
      = mapOk (fun r => acc.reverse ++ r) (SfntV.Otl.Cov.readSet1 n (bytesToWords (b.drop q)))
  | 0, _, acc, _ => by simp [setLoop1, erase, mapOk, SfntV.Otl.Cov.readSet1]
  | n+1, q, acc, c => by
    unfold setLoop1
    rcases word_cases "set.go:71#ReadUint16" b q with ⟨w, hw, hws⟩ | ⟨hw, hws⟩
    · rw [hw, hws, ok_bind]
      unfold SfntV.Otl.Cov.readSet1
      rw [setLoop1_erase b n]
      cases SfntV.Otl.Cov.readSet1 n (bytesToWords (b.drop (q + 2))) <;> simp [mapOk]
    · rw [hw, hws]
      rfl

theorem setLoop2_erase (b : Bytes) : ∀ (n q pos : Nat) (prev : Int) (acc : List Nat)
    (c : Cost), erase (setLoop2 b n q pos prev acc c)
      = mapOk (fun r => acc.reverse ++ r)
          (SfntV.Otl.Cov.readSet2 n (bytesToWords (b.drop q)) pos prev)
  | 0, _, _, _, acc, _ => by simp [setLoop2, erase, mapOk, SfntV.Otl.Cov.readSet2]
  | n+1, q, pos, prev, acc, c => by
    unfold setLoop2
    rcases rec6_cases "set.go:86#ReadBytes(6)" "set.go:90#buf[0],buf[1]"
      "set.go:91#buf[2],buf[3]" "set.go:92#buf[4],buf[5]" b q with
      ⟨buf, s, e, sci, hbuf, hs, he, hc, hws⟩ | ⟨hbuf, hws⟩
    · rw [hbuf, ok_bind, hs, ok_bind, he, ok_bind, hc, ok_bind, hws]
      unfold SfntV.Otl.Cov.readSet2
      split
      · rfl
      · dsimp only
        rw [setLoop2_erase b n]
        cases SfntV.Otl.Cov.readSet2 n (bytesToWords (b.drop (q + 6))) (pos + (e + 1 - s)) e <;>
          simp [mapOk]
    · rw [hbuf]
      rcases short3 hws with h | ⟨a, h⟩ | ⟨a, a', h⟩ <;> rw [h] <;> rfl

/-- BRIDGE: `coverage.ReadSet` -/
theorem readSet_erase (b : Bytes) (pos : Nat) :
    erase (readSet b pos) = SfntV.Otl.Cov.readSet (b.drop pos) := by
  unfold readSet SfntV.Otl.Cov.readSet
  rcases word_cases "set.go:57#ReadUint16" b pos with ⟨f, hf, hws⟩ | ⟨hf, hws⟩
  · rw [hf, hws, ok_bind]
    dsimp only
    split
    · rename_i h1
      subst h1
      rcases word_cases "set.go:66#ReadUint16" b (pos + 2) with ⟨n, hn, hws2⟩ | ⟨hn, hws2⟩
      · rw [hn, hws2, ok_bind, setLoop1_erase, mapOk_id]
        rfl
      · rw [hn, hws2]; rfl
    split
    · rename_i _ h2
      subst h2
      rcases word_cases "set.go:79#ReadUint16" b (pos + 2) with ⟨n, hn, hws2⟩ | ⟨hn, hws2⟩
      · rw [hn, hws2, ok_bind, setLoop2_erase, mapOk_id]
        rfl
      · rw [hn, hws2]; rfl
    · rename_i h1 h2
      unfold SfntV.Otl.Cov.readSetW
      split <;> first | rfl | (exfalso; simp_all)
  · rw [hf, hws]; rfl

/-! ## classdef.Read -/

theorem mapOk_nil (x : Outcome (List α)) : mapOk (fun r => r ++ ([] : List α)) x = x := by
  cases x <;> simp [mapOk]

theorem four_split : ∀ l : Bytes, 4 ≤ l.length → ∃ a0 a1 a2 a3 r, l = a0 :: a1 :: a2 :: a3 :: r
  | a0 :: a1 :: a2 :: a3 :: r, _ => ⟨a0, a1, a2, a3, r, rfl⟩
  | [], h | [_], h | [_, _], h | [_, _, _], h => by
    simp only [List.length_cons, List.length_nil] at h; omega

theorem short2 {ws : List Nat} (h : ws.length < 2) : ws = [] ∨ (∃ a, ws = [a]) := by
  match ws, h with
  | [], _ => exact Or.inl rfl
  | [a], _ => exact Or.inr ⟨a, rfl⟩
  | _ :: _ :: _, h => simp only [List.length_cons] at h; omega

theorem be_lt (x y : UInt8) : be x y < 65536 := by
  unfold be
  have h1 := x.toNat_lt
  have h2 := y.toNat_lt
  omega

/-- the 4-byte header read of classdef format 1 against the word view -/
theorem rec4_cases (s0 s1 s2 : String) (b : Bytes) (q : Nat) :
    (∃ data s c, readBytes s0 b q 4 = .ok data ∧ w16 s1 data 0 = .ok s ∧ w16 s2 data 2 = .ok c ∧
        s < 65536 ∧ c < 65536 ∧
        bytesToWords (b.drop q) = s :: c :: bytesToWords (b.drop (q + 4))) ∨
    (readBytes s0 b q 4 = .err "io" ∧ (bytesToWords (b.drop q)).length < 2) := by
  have hlen := List.length_drop (i := q) (l := b)
  by_cases h : q + 4 ≤ b.length
  · obtain ⟨a0, a1, a2, a3, r, hd⟩ := four_split (b.drop q) (by omega)
    refine Or.inl ⟨[a0, a1, a2, a3], be a0 a1, be a2 a3, ?_, rfl, rfl, be_lt _ _, be_lt _ _, ?_⟩
    · unfold readBytes
      rw [if_neg (by omega), if_pos h, hd]
      rfl
    · rw [← List.drop_drop, hd]
      rfl
  · refine Or.inr ⟨?_, ?_⟩
    · unfold readBytes
      rw [if_neg (by omega), if_neg h]
    · rw [bytesToWords_length]
      omega

/-- the closed form of the format-1 loop used by the value-level model -/
def cd1Entries (start : Nat) (vals : List Nat) : List (Nat × Nat) :=
  ((vals.zipIdx start).filter (fun p => p.1 != 0)).map (fun p => (p.2, p.1))

theorem cdLoop1_erase (b : Bytes) (start : Nat) : ∀ (n q i : Nat) (acc : List (Nat × Nat))
    (c : Cost), start + i + n ≤ 65536 →
    erase (cdLoop1 b start n q i acc c)
      = if n ≤ (bytesToWords (b.drop q)).length
        then .ok (acc.reverse ++ cd1Entries (start + i) ((bytesToWords (b.drop q)).take n))
        else .err eIO
  | 0, _, _, acc, _, _ => by simp [cdLoop1, erase, cd1Entries]
  | n+1, q, i, acc, c, hb => by
    unfold cdLoop1
    rcases word_cases "classdef.go:93#ReadUint16" b q with ⟨cv, hw, hws⟩ | ⟨hw, hws⟩
    · rw [hw, hws, ok_bind, cdLoop1_erase b start n (q + 2) (i + 1) _ _ (by omega)]
      have hm : (start + i) % 65536 = start + i := Nat.mod_eq_of_lt (by omega)
      simp only [List.length_cons, Nat.add_le_add_iff_right, List.take_succ_cons]
      split
      · by_cases hcv : cv = 0
        · subst hcv
          simp [cd1Entries, List.zipIdx_cons, Nat.add_assoc]
        · simp [cd1Entries, List.zipIdx_cons, Nat.add_assoc, hcv, hm]
      · rfl
    · rw [hw, hws]
      rfl

theorem cdLoop2_erase (b : Bytes) : ∀ (n q i prevEnd : Nat) (acc : List (Nat × Nat))
    (c : Cost), erase (cdLoop2 true b n q i prevEnd acc c)
      = mapOk (fun r => r ++ acc)
          (SfntV.Otl.ClassDef.read2 n (bytesToWords (b.drop q)) i prevEnd)
  | 0, _, _, _, acc, _ => by simp [cdLoop2, erase, mapOk, SfntV.Otl.ClassDef.read2]
  | n+1, q, i, prevEnd, acc, c => by
    unfold cdLoop2
    rcases rec6_cases "classdef.go:112#ReadBytes(6)" "classdef.go:116#data[0],data[1]"
      "classdef.go:117#data[2],data[3]" "classdef.go:118#data[4],data[5]" b q with
      ⟨buf, s, e, cv, hbuf, hs, he, hc, hws⟩ | ⟨hbuf, hws⟩
    · rw [hbuf, ok_bind, hs, ok_bind, he, ok_bind, hc, ok_bind, hws]
      unfold SfntV.Otl.ClassDef.read2
      split
      · rfl
      by_cases hes : e < s
      · rw [if_pos ⟨rfl, hes⟩, if_pos hes]
        rfl
      · rw [if_neg (fun h => hes h.2), if_neg hes]
        dsimp only
        rw [cdLoop2_erase b n]
        cases SfntV.Otl.ClassDef.read2 n (bytesToWords (b.drop (q + 6))) (i + 1) e with
        | ok r =>
          by_cases hcv : cv = 0
          · subst hcv; simp [mapOk]
          · simp [mapOk, hcv]
        | err _ => simp [mapOk]
        | panic _ => simp [mapOk]
    · rw [hbuf]
      rcases short3 hws with h | ⟨a, h⟩ | ⟨a, a', h⟩ <;> rw [h] <;> rfl

theorem readW_fmt1 (start count : Nat) (vals : List Nat) :
    SfntV.Otl.ClassDef.readW (1 :: start :: count :: vals)
      = if start + count > 0x10000 then .err eInvalid
        else if count ≤ vals.length then .ok (cd1Entries start (vals.take count))
        else .err eIO := rfl

/-- BRIDGE: `classdef.Read` (as it is in the working tree: finding #36 repaired) -/
theorem classdefRead_erase (b : Bytes) (pos : Nat) :
    erase (classdefRead b pos) = SfntV.Otl.ClassDef.read (b.drop pos) := by
  unfold classdefRead classdefReadG SfntV.Otl.ClassDef.read
  rcases word_cases "classdef.go:72#ReadUint16" b pos with ⟨f, hf, hws⟩ | ⟨hf, hws⟩
  · rw [hf, hws, ok_bind]
    dsimp only
    split
    · rename_i h1
      subst h1
      rcases rec4_cases "classdef.go:78#ReadBytes(4)" "classdef.go:82#data[0],data[1]"
        "classdef.go:83#data[2],data[3]" b (pos + 2) with
        ⟨data, start, count, hd, hs, hc, hslt, hclt, hws2⟩ | ⟨hd, hws2⟩
      · rw [hd, ok_bind, hs, ok_bind, hc, ok_bind, hws2,
          readW_fmt1 start count (bytesToWords (b.drop (pos + 2 + 4)))]
        by_cases hov : start + count > 0x10000
        · rw [if_pos (by omega), if_pos hov]
          rfl
        · rw [if_neg (by omega), if_neg hov, mkSlice_ok _ _ _ hclt, ok_bind,
            show pos + 2 + 4 = pos + 6 by omega,
            cdLoop1_erase b start count (pos + 6) 0 [] _ (by omega)]
          rfl
      · rw [hd]
        unfold SfntV.Otl.ClassDef.readW
        rcases short2 hws2 with h | ⟨a, h⟩ <;> rw [h] <;> rfl
    split
    · rename_i _ h2
      subst h2
      rcases word_cases "classdef.go:104#ReadUint16" b (pos + 2) with ⟨n, hn, hws2⟩ | ⟨hn, hws2⟩
      · rw [hn, hws2, ok_bind, cdLoop2_erase, mapOk_nil]
        rfl
      · rw [hn, hws2]; rfl
    · rename_i h1 h2
      unfold SfntV.Otl.ClassDef.readW
      split <;> first | rfl | (exfalso; simp_all)
  · rw [hf, hws]; rfl

end SfntV.Total.Otl
