/-
C02 (decoders are total): proofs about the checked-index model of cff `readIndex`
(`SfntV.Total.NameCff.readIndex`): no panic for any input and any start position, linear cost.
-/
import SfntV.Model.TotalCffIndex
import SfntV.Proofs.TotalName
import SfntV.Proofs.TotalHeader
import SfntV.Model.CffIndex
import SfntV.Model.CffRead

namespace SfntV.Total.NameCff
open SfntV SfntV.Total
open SfntV.Total.Gdef (idx_ok ok_bind pure_bind' bind_noPanic bind_eq_ok w16_ok w16_lt readBytes_noPanic
  readBytes_ok_length)

/-! ## reads -/

theorem rdBytes_noPanic (site : String) (b : Bytes) (pos n : Nat) (hn : n ≤ 1024) :
    (rdBytes site b pos n).noPanic := by
  unfold rdBytes
  split
  · exact True.intro
  · have := readBytes_noPanic site b pos n hn
    split
    · exact True.intro
    · rename_i r hr
      cases hx : readBytes site b pos n with
      | ok a => exact True.intro
      | err e => exact True.intro
      | panic s => rw [hx] at this; exact this.elim

theorem rdBytes_ok {site : String} {b : Bytes} {pos n : Nat} {w : Bytes}
    (h : rdBytes site b pos n = .ok w) : w.length = n ∧ (n = 0 ∨ pos + n ≤ b.length) := by
  unfold rdBytes at h
  split at h
  · rename_i h0
    cases h
    exact ⟨h0.symm, Or.inl h0⟩
  · split at h
    · cases h
    · rename_i r hr
      obtain ⟨h1, h2⟩ := readBytes_ok_length h
      exact ⟨h1, Or.inr h2⟩

theorem offsOf_lt_aux : ∀ (blob : Bytes) (a : Nat), a < 4294967296 →
    blob.foldl (fun a x => (a * 256 + x.toNat) % 4294967296) a < 4294967296
  | [], a, h => h
  | x :: r, a, _ => by
    rw [List.foldl_cons]
    exact offsOf_lt_aux r _ (Nat.mod_lt _ (by omega))

theorem offsOf_lt (blob : Bytes) : offsOf blob < 4294967296 := offsOf_lt_aux blob 0 (by omega)

theorem offsOf_nil : offsOf [] = 0 := rfl

/-! ## the offsets loop -/

theorem readOffsets_noPanic (b : Bytes) (offSize : Nat) (hos : offSize ≤ 1024) :
    ∀ (k pos prev : Nat) (c : Cost), (readOffsets b offSize k pos prev c).noPanic
  | 0, _, _, _ => True.intro
  | k+1, pos, prev, c => by
    unfold readOffsets
    refine bind_noPanic (rdBytes_noPanic _ _ _ _ hos) (fun blob _ => ?_)
    dsimp only
    split
    · exact True.intro
    · exact bind_noPanic (readOffsets_noPanic b offSize hos k _ _ _) (fun _ _ => True.intro)

/-- a successful offsets loop: `k` non-decreasing values, each at least `prev - 1`, below
`|b| - 1` and below 2^32; `k` steps and `k` elements; the offsets occupy `k·offSize ≥ k` bytes -/
theorem readOffsets_ok (b : Bytes) (offSize : Nat) :
    ∀ (k pos prev : Nat) (c : Cost) (l : List Nat) (c' : Cost), 1 ≤ prev →
      readOffsets b offSize k pos prev c = .ok (l, c') →
      l.length = k ∧ l.Pairwise (· ≤ ·) ∧ (∀ x ∈ l, prev ≤ x + 1 ∧ x + 1 < b.length ∧ x < 4294967296) ∧
      c'.steps = c.steps + k ∧ c'.alloc = c.alloc + k ∧
      (k = 0 ∨ (1 ≤ offSize ∧ pos + k * offSize ≤ b.length))
  | 0, _, _, c, l, c', _, h => by
    unfold readOffsets at h
    cases h
    simp
  | k+1, pos, prev, c, l, c', hp, h => by
    unfold readOffsets at h
    obtain ⟨blob, hblob, h⟩ := bind_eq_ok h
    dsimp only at h
    split at h
    · cases h
    rename_i hcond
    obtain ⟨⟨l', c1⟩, hrec, h⟩ := bind_eq_ok h
    cases h
    obtain ⟨hlen, hpw, hall, hs, ha, hbytes⟩ :=
      readOffsets_ok b offSize k (pos + offSize) (offsOf blob) _ l' c1 (by omega) hrec
    have hlt := offsOf_lt blob
    obtain ⟨hbl, hb2⟩ := rdBytes_ok hblob
    have hos : 1 ≤ offSize := by
      cases Nat.eq_zero_or_pos offSize with
      | inl h0 =>
        subst h0
        have : blob = [] := List.eq_nil_of_length_eq_zero hbl
        rw [this, offsOf_nil] at hcond
        omega
      | inr h => exact h
    refine ⟨by simp [hlen], ?_, ?_, ?_, ?_, Or.inr ⟨hos, ?_⟩⟩
    · rw [List.pairwise_cons]
      refine ⟨fun x hx => ?_, hpw⟩
      have := (hall x hx).1
      omega
    · intro x hx
      rw [List.mem_cons] at hx
      cases hx with
      | inl h => subst h; omega
      | inr h => have := hall x h; omega
    · dsimp only [Cost.tick, Cost.mem] at hs ⊢; omega
    · dsimp only [Cost.tick, Cost.mem] at ha ⊢; omega
    · rw [Nat.succ_mul]
      cases hbytes with
      | inl h0 => subst h0; omega
      | inr h => have := h.2; omega

/-! ## the items loop -/

theorem items_noPanic (buf : Bytes) (offsets : List Nat) (n : Nat) (hpw : offsets.Pairwise (· ≤ ·))
    (hlast : ∀ x ∈ offsets, x ≤ buf.length) :
    ∀ (k i : Nat) (c : Cost), i + k ≤ n → i + k + 1 ≤ offsets.length →
      (items buf offsets n k i c).noPanic
  | 0, _, _, _, _ => True.intro
  | k+1, i, c, hn, hl => by
    unfold items
    rw [idx_ok _ offsets i (by omega), ok_bind, idx_ok _ offsets (i + 1) (by omega), ok_bind]
    have h1 : offsets[i] ≤ offsets[i + 1] :=
      (List.pairwise_iff_getElem.1 hpw) i (i + 1) (by omega) (by omega) (by omega)
    have h2 : offsets[i + 1] ≤ buf.length := hlast _ (List.getElem_mem _)
    rw [slice_ok _ _ _ _ ⟨h1, h2⟩, ok_bind, if_neg (by omega)]
    exact bind_noPanic (items_noPanic buf offsets n hpw hlast k (i + 1) _ (by omega) (by omega))
      (fun _ _ => True.intro)

theorem items_cost (buf : Bytes) (offsets : List Nat) (n : Nat) :
    ∀ (k i : Nat) (c : Cost) (l : List Bytes) (c' : Cost), items buf offsets n k i c = .ok (l, c') →
      l.length = k ∧ c'.steps = c.steps + k ∧ c'.alloc = c.alloc
  | 0, _, c, l, c', h => by
    unfold items at h
    cases h
    simp
  | k+1, i, c, l, c', h => by
    unfold items at h
    obtain ⟨a, _, h⟩ := bind_eq_ok h
    obtain ⟨e, _, h⟩ := bind_eq_ok h
    obtain ⟨s, _, h⟩ := bind_eq_ok h
    split at h
    · cases h
    obtain ⟨⟨l', c1⟩, hrec, h⟩ := bind_eq_ok h
    cases h
    have ih := items_cost buf offsets n k (i + 1) _ l' _ hrec
    simp only [Cost.tick] at ih
    simp only [List.length_cons]
    omega

/-! ## `readIndex` -/

theorem mkSlice_ok' (site : String) (n : Nat) (c : Cost) (h : n < 4294967296) :
    mkSlice site n c = .ok (c.mem n) := by
  unfold mkSlice
  rw [if_neg (by omega)]

theorem pRead_noPanic (b : Bytes) (pos n : Nat) : (pRead b pos n).noPanic := by
  unfold pRead
  split
  · exact True.intro
  · split <;> exact True.intro

theorem pRead_len {b : Bytes} {pos n : Nat} {buf : Bytes} (h : pRead b pos n = .ok buf) :
    buf.length = n := by
  unfold pRead at h
  split at h
  · rename_i h0; cases h; exact h0.symm
  · split at h
    · cases h
      rw [List.length_take, List.length_drop]; omega
    · cases h

/-- cff `readIndex` returns a value or an error for EVERY input and EVERY start position. -/
theorem readIndex_noPanic (b : Bytes) (pos : Nat) : (readIndex b pos).noPanic := by
  unfold readIndex
  refine bind_noPanic (rdBytes_noPanic _ _ _ _ (by omega)) (fun w hw => ?_)
  obtain ⟨hwl, _⟩ := rdBytes_ok hw
  obtain ⟨count, hcount, hclt⟩ := w16_ok "index.go:42#ReadUint16" w 0 (by omega)
  rw [hcount, ok_bind]
  dsimp only
  split
  · exact True.intro
  refine bind_noPanic (rdBytes_noPanic _ _ _ _ (by omega)) (fun w1 hw1 => ?_)
  obtain ⟨hw1l, _⟩ := rdBytes_ok hw1
  rw [idx_ok _ w1 0 (by omega), ok_bind]
  have hos : w1[0].toNat ≤ 1024 := by have := w1[0].toNat_lt; omega
  refine bind_noPanic (readOffsets_noPanic b _ hos _ _ _ _) (fun ⟨offsets, c1⟩ hoff => ?_)
  obtain ⟨hlen, hpw, hall, _, _, _⟩ := readOffsets_ok b _ _ _ _ _ _ _ (Nat.le_refl 1) hoff
  dsimp only
  rw [idx_ok _ offsets count (by omega), ok_bind]
  have htot := (hall offsets[count] (List.getElem_mem _)).2.2
  rw [mkSlice_ok' _ _ _ htot, ok_bind]
  refine bind_noPanic (pRead_noPanic _ _ _) (fun buf hbuf => ?_)
  have hbl := pRead_len hbuf
  rw [Gdef.mkSlice_ok _ _ _ hclt, ok_bind]
  refine bind_noPanic (items_noPanic buf offsets count hpw ?_ count 0 _ (by omega) (by omega))
    (fun _ _ => True.intro)
  intro x hx
  rw [hbl]
  obtain ⟨j, hj, rfl⟩ := List.getElem_of_mem hx
  by_cases hjc : j = count
  · subst hjc; exact Nat.le_refl _
  · exact (List.pairwise_iff_getElem.1 hpw) j count hj (by omega) (by omega)

/-- A successful `readIndex` took at most `2·|b| + |b|/1024 + 3` steps and allocated at most
`3·|b|` elements (`count+1` offsets, the data buffer of `offsets[count] < |b|` bytes — allocated
before the data is read, but bounded by the size of the whole input — and `count` slice
headers). -/
theorem readIndex_cost (b : Bytes) (pos : Nat) (r : List Bytes × Nat) (c : Cost)
    (h : readIndex b pos = .ok (r, c)) :
    c.steps ≤ 2 * b.length + b.length / 1024 + 3 ∧ c.alloc ≤ 3 * b.length := by
  unfold readIndex at h
  obtain ⟨w, hw, h⟩ := bind_eq_ok h
  obtain ⟨count, hcount, h⟩ := bind_eq_ok h
  dsimp only at h
  split at h
  · cases h
    simp only [Cost.tick, Cost.zero]
    omega
  obtain ⟨w1, hw1, h⟩ := bind_eq_ok h
  obtain ⟨os, _, h⟩ := bind_eq_ok h
  obtain ⟨⟨offsets, c1⟩, hoff, h⟩ := bind_eq_ok h
  obtain ⟨hlen, hpw, hall, hs, ha, hbytes⟩ := readOffsets_ok b _ _ _ _ _ _ _ (Nat.le_refl 1) hoff
  dsimp only at h
  obtain ⟨total, htotal, h⟩ := bind_eq_ok h
  have htot : total + 1 < b.length := by
    unfold idx at htotal
    split at htotal
    · rename_i v hv
      cases htotal
      exact (hall _ (List.mem_of_getElem? hv)).2.1
    · cases htotal
  obtain ⟨c2, hc2, h⟩ := bind_eq_ok h
  have k2 : c2 = c1.mem total := by
    unfold mkSlice at hc2
    split at hc2
    · cases hc2
    · cases hc2; rfl
  obtain ⟨buf, _, h⟩ := bind_eq_ok h
  obtain ⟨c3, hc3, h⟩ := bind_eq_ok h
  have k3 : c3 = (c2.tick (total / 1024 + 1)).mem count := by
    unfold mkSlice at hc3
    split at hc3
    · cases hc3
    · cases hc3; rfl
  obtain ⟨⟨res, c4⟩, hit, h⟩ := bind_eq_ok h
  obtain ⟨_, k4s, k4a⟩ := items_cost _ _ _ _ _ _ _ _ hit
  cases h
  subst k2 k3
  dsimp only [Cost.tick, Cost.mem, Cost.zero] at hs ha k4s k4a ⊢
  have hcnt : count + 1 ≤ b.length := by
    cases hbytes with
    | inl h0 => omega
    | inr h1 =>
      have : (count + 1) * 1 ≤ (count + 1) * os.toNat := Nat.mul_le_mul_left _ h1.1
      omega
  have hdiv : total / 1024 ≤ b.length / 1024 := Nat.div_le_div_right (by omega)
  omega

/-! ## non-vacuity -/

/-- an INDEX with two items `07` and `08 09` after a one-byte prefix -/
example : readIndex [0xAA, 0,2, 1, 1,2,4, 7,8,9] 1 = .ok (([[7], [8, 9]], 10), ⟨8, 8⟩) := by
  decide +kernel

example : readIndex [0, 0] 0 = .ok (([], 2), ⟨1, 0⟩) := by decide +kernel

/-! ## agreement with the value-level model of C13 (`SfntV.Cff.readIndex`) -/

/-- forget the cost -/
def eraseC : Outcome (α × Cost) → Outcome α
  | .ok (a, _) => .ok a
  | .err e => .err e
  | .panic s => .panic s

def ofOpt : Option Bytes → Outcome Bytes
  | some w => .ok w
  | none => .err "eof"

theorem rdBytes_eq (site : String) (b : Bytes) (pos n : Nat) (hn : n ≤ 1024) :
    rdBytes site b pos n = ofOpt (SfntV.Cff.rd b pos n) := by
  unfold rdBytes SfntV.Cff.rd readBytes
  by_cases h0 : n = 0
  · rw [if_pos h0, if_pos h0]; rfl
  · rw [if_neg h0, if_neg h0, if_neg (by omega)]
    by_cases h : pos + n ≤ b.length
    · rw [if_pos h, if_pos h]; rfl
    · rw [if_neg h, if_neg h]; rfl

theorem pRead_eq (b : Bytes) (pos n : Nat) : pRead b pos n = ofOpt (SfntV.Cff.rd b pos n) := by
  unfold pRead SfntV.Cff.rd
  split
  · rfl
  · split <;> rfl

theorem rd_len {b : Bytes} {pos n : Nat} {w : Bytes} (h : SfntV.Cff.rd b pos n = some w) : w.length = n := by
  unfold SfntV.Cff.rd at h
  split at h
  · rename_i h0; cases h; exact h0.symm
  · split at h
    · cases h; rw [List.length_take, List.length_drop]; omega
    · cases h

theorem offsOf_aux : ∀ (blob : Bytes) (a : Nat), a < 4294967296 →
    blob.foldl (fun a x => (a * 256 + x.toNat) % 4294967296) a
      = (a * 256 ^ blob.length + beVal blob) % 4294967296
  | [], a, h => by
    simp only [List.foldl_nil, List.length_nil, Nat.pow_zero, Nat.mul_one, beVal, Nat.add_zero]
    exact (Nat.mod_eq_of_lt h).symm
  | x :: r, a, _ => by
    rw [List.foldl_cons, offsOf_aux r _ (Nat.mod_lt _ (by omega))]
    simp only [beVal, List.length_cons]
    rw [Nat.add_mod, Nat.mod_mul_mod, ← Nat.add_mod, Nat.pow_succ]
    congr 1
    rw [Nat.add_mul, Nat.mul_assoc, Nat.mul_comm 256 (256 ^ r.length), Nat.add_assoc]

theorem offsOf_eq (blob : Bytes) : offsOf blob = beVal blob % 4294967296 := by
  unfold offsOf
  rw [offsOf_aux blob 0 (by omega), Nat.zero_mul, Nat.zero_add]

theorem readOffsets_erase (b : Bytes) (offSize : Nat) (hos : offSize ≤ 1024) :
    ∀ (k pos prev : Nat) (c : Cost),
      eraseC (readOffsets b offSize k pos prev c) = SfntV.Cff.readOffsets b b.length offSize k pos prev
  | 0, _, _, _ => rfl
  | k+1, pos, prev, c => by
    unfold readOffsets SfntV.Cff.readOffsets
    rw [rdBytes_eq _ _ _ _ hos]
    cases SfntV.Cff.rd b pos offSize with
    | none => rfl
    | some blob =>
      rw [show ofOpt (some blob) = Outcome.ok blob from rfl, ok_bind]
      dsimp only
      rw [offsOf_eq]
      split
      · rfl
      · rw [← readOffsets_erase b offSize hos k (pos + offSize) (beVal blob % 4294967296) ((c.tick).mem 1)]
        cases readOffsets b offSize k (pos + offSize) (beVal blob % 4294967296) ((c.tick).mem 1) with
        | ok p => rfl
        | err e => rfl
        | panic s => rfl

theorem items_eq (buf : Bytes) (offsets : List Nat) (n : Nat) (hpw : offsets.Pairwise (· ≤ ·))
    (hlast : ∀ x ∈ offsets, x ≤ buf.length) :
    ∀ (k i : Nat) (c : Cost), i + k ≤ n → i + k + 1 = offsets.length →
      ∃ c', items buf offsets n k i c = .ok (SfntV.Cff.slices buf (offsets.drop i), c')
  | 0, i, c, _, hl => by
    refine ⟨c, ?_⟩
    rw [List.drop_eq_getElem_cons (by omega : i < offsets.length),
      List.drop_eq_nil_of_le (by omega : offsets.length ≤ i + 1)]
    rfl
  | k+1, i, c, hn, hl => by
    unfold items
    rw [idx_ok _ offsets i (by omega), ok_bind, idx_ok _ offsets (i + 1) (by omega), ok_bind]
    have h1 : offsets[i] ≤ offsets[i + 1] :=
      (List.pairwise_iff_getElem.1 hpw) i (i + 1) (by omega) (by omega) (by omega)
    have h2 : offsets[i + 1] ≤ buf.length := hlast _ (List.getElem_mem _)
    rw [slice_ok _ _ _ _ ⟨h1, h2⟩, ok_bind, if_neg (by omega)]
    obtain ⟨c', hc'⟩ := items_eq buf offsets n hpw hlast k (i + 1) c.tick (by omega) (by omega)
    refine ⟨c', ?_⟩
    rw [hc', ok_bind, List.drop_eq_getElem_cons (by omega : i < offsets.length),
      List.drop_eq_getElem_cons (by omega : i + 1 < offsets.length)]
    rfl

/-- Erasing the panic sites and the cost counters from the checked-index model of `readIndex`
gives the value-level model of C13, for every input and every position (same items, same end
position, same error class). -/
theorem readIndex_erase (b : Bytes) (pos : Nat) :
    eraseC (readIndex b pos) = SfntV.Cff.readIndex b pos := by
  unfold readIndex SfntV.Cff.readIndex
  rw [rdBytes_eq _ _ _ _ (by omega)]
  cases hcb : SfntV.Cff.rd b pos 2 with
  | none => rfl
  | some cb =>
    have hcl := rd_len hcb
    have hw : w16 "index.go:42#ReadUint16" cb 0 = .ok (beVal cb) := by
      rw [SfntV.Total.Header.w16_eq _ _ 0 (by omega), List.drop_zero, List.take_of_length_le (by omega)]
    have hclt := w16_lt hw
    rw [show ofOpt (some cb) = Outcome.ok cb from rfl, ok_bind, hw, ok_bind]
    dsimp only
    split
    · rfl
    rw [rdBytes_eq _ _ _ _ (by omega)]
    cases hob : SfntV.Cff.rd b (pos + 2) 1 with
    | none => rfl
    | some ob =>
      have hol := rd_len hob
      match ob, hol with
      | [x], _ =>
        have hx : beVal [x] = x.toNat := by simp [beVal]
        have hos : x.toNat ≤ 1024 := by have := x.toNat_lt; omega
        rw [show ofOpt (some [x]) = Outcome.ok [x] from rfl, ok_bind, idx_ok _ [x] 0 (by simp), ok_bind]
        dsimp only [List.getElem_cons_zero]
        rw [hx]
        rw [← readOffsets_erase b x.toNat hos]
        cases hro : readOffsets b x.toNat (beVal cb + 1) (pos + 3) 1 Cost.zero.tick.tick with
        | err e => rfl
        | panic s => rfl
        | ok p =>
          obtain ⟨offsets, c1⟩ := p
          obtain ⟨hlen, hpw, hall, _, _, _⟩ := readOffsets_ok b _ _ _ _ _ _ _ (Nat.le_refl 1) hro
          have htot := (hall offsets[beVal cb] (List.getElem_mem _)).2.2
          have hlastD : offsets.getLastD 0 = offsets[beVal cb] := by
            rw [List.getLastD_eq_getLast?, List.getLast?_eq_getElem?,
              show offsets.length - 1 = beVal cb by omega, List.getElem?_eq_getElem (by omega)]
            rfl
          rw [ok_bind, show eraseC (Outcome.ok (offsets, c1)) = Outcome.ok offsets from rfl]
          dsimp only
          rw [idx_ok _ offsets (beVal cb) (by omega), ok_bind, mkSlice_ok' _ _ _ htot, ok_bind, pRead_eq, hlastD]
          cases hbuf : SfntV.Cff.rd b (pos + 3 + (beVal cb + 1) * x.toNat) offsets[beVal cb] with
          | none => rfl
          | some buf =>
            have hbl := rd_len hbuf
            rw [show ofOpt (some buf) = Outcome.ok buf from rfl, ok_bind, Gdef.mkSlice_ok _ _ _ hclt, ok_bind]
            have hlast : ∀ x ∈ offsets, x ≤ buf.length := by
              intro y hy
              rw [hbl]
              obtain ⟨j, hj, rfl⟩ := List.getElem_of_mem hy
              by_cases hjc : j = beVal cb
              · subst hjc; exact Nat.le_refl _
              · exact (List.pairwise_iff_getElem.1 hpw) j (beVal cb) hj (by omega) (by omega)
            obtain ⟨c', hc'⟩ := items_eq buf offsets (beVal cb) hpw hlast (beVal cb) 0 _ (by omega) (by omega)
            rw [hc', ok_bind, List.drop_zero]
            rfl

/-- … hence the value-level model of C13 never reports a panic either, and its successful reads
obey the cost bound of `readIndex_cost` (transport along `readIndex_erase`). -/
theorem cffReadIndex_noPanic (b : Bytes) (pos : Nat) : (SfntV.Cff.readIndex b pos).noPanic := by
  rw [← readIndex_erase]
  have := readIndex_noPanic b pos
  cases h : readIndex b pos with
  | ok p => exact True.intro
  | err e => exact True.intro
  | panic s => rw [h] at this; exact this.elim


/-! ## `readIndexAt` -/

/-- `readIndexAt` returns a value or an error for every input and every (signed) position. -/
theorem readIndexAt_noPanic (b : Bytes) (pos : Int) : (readIndexAt b pos).noPanic := by
  unfold readIndexAt
  split
  · exact True.intro
  · exact readIndex_noPanic b _

/-- same constants as `readIndex_cost` (the guard and the seek cost nothing) -/
theorem readIndexAt_cost (b : Bytes) (pos : Int) (r : List Bytes × Nat) (c : Cost)
    (h : readIndexAt b pos = .ok (r, c)) :
    c.steps ≤ 2 * b.length + b.length / 1024 + 3 ∧ c.alloc ≤ 3 * b.length := by
  unfold readIndexAt at h
  split at h
  · cases h
  · exact readIndex_cost b _ r c h

/-- forget the cost and the end position (C13's `readIndexAt` returns the items only) -/
def eraseAt : Outcome ((List Bytes × Nat) × Cost) → Outcome (List Bytes)
  | .ok ((l, _), _) => .ok l
  | .err e => .err e
  | .panic s => .panic s

/-- agreement with the value-level model of C13 (`SfntV.Cff.readIndexAt`, Model/CffRead.lean) for
every input and every signed position -/
theorem readIndexAt_erase (b : Bytes) (pos : Int) :
    eraseAt (readIndexAt b pos) = SfntV.Cff.readIndexAt b pos := by
  unfold readIndexAt SfntV.Cff.readIndexAt
  split
  · rfl
  · rw [← readIndex_erase]
    cases readIndex b pos.toNat with
    | ok p => rfl
    | err e => rfl
    | panic s => rfl

example : readIndexAt [0,0,0,0, 0,1, 1, 1,2, 7] 4 = .ok (([[7]], 10), ⟨6, 4⟩) := by decide +kernel
example : readIndexAt [0,0,0,0, 0,1, 1, 1,2, 7] 3 = .err "other" := by decide +kernel
example : readIndexAt [0,0,0,0, 0,1, 1, 1,2, 7] (-1) = .err "other" := by decide +kernel

end SfntV.Total.NameCff
